import Autd3.Lemmas.FwSafeGain
/-!
Safety of the data-carrying handlers for complete single-frame operations (C19): `write_mod`, `write_foci_stm`,
`write_gain_stm` with BEGIN ∧ END in one frame.
-/
set_option linter.unusedSimpArgs false
set_option linter.unusedVariables false
namespace Autd3.Fw
open Autd3.Gen.Cpu
open Autd3.Gen

macro "fwwf_tac" h:ident "with" ts:Lean.Parser.Tactic.simpLemma,* : tactic => `(tactic|
  (have hraw := FwWF.raw $h
   have hsz := ($h).shape.ctl
   obtain ⟨r1, r2, r3, r4, r5, r6, r7, r8⟩ := hraw
   refine ⟨($h).shape.transfer (by simp) rfl rfl rfl rfl rfl rfl rfl, ($h).flags, ?_, ?_, ?_, ?_, ?_, ?_, ?_, ?_,
     ($h).modSwap, ($h).stmSwap⟩ <;>
   simp [reg, rd_set, setSel, ADDR_MOD_FREQ_DIV0, ADDR_MOD_FREQ_DIV1, ADDR_STM_FREQ_DIV0, ADDR_STM_FREQ_DIV1,
       ADDR_MOD_REP0, ADDR_MOD_REP1, ADDR_STM_REP0, ADDR_STM_REP1, hsz, r1, r2, r3, r4, r5, r6, r7, r8, $ts,*]))

theorem modWriteWords_wf (X : State) (base : Nat) (words : Array Nat) (h0 : FwWF X)
    (hseg : reg X ADDR_MOD_MEM_WR_SEGMENT ≤ 1)
    (h1 : base % 16384 + words.size ≤ 16384)
    (h2 : reg X ADDR_MOD_MEM_WR_PAGE * 16384 + base % 16384 + words.size ≤ 32768) :
    ∃ Z, modWriteWords X base words = .ok Z ∧ FwWF Z ∧
      Z = { X with modMem0 := Z.modMem0, modMem1 := Z.modMem1 } := by
  obtain ⟨m0, m1, e, z0, z1⟩ := modWriteWords_ok X base words h0.shape hseg h1 h2
  refine ⟨_, e, h0.transfer' ⟨fun _ _ => rfl, rfl, rfl, rfl, rfl⟩
    (h0.shape.transfer rfl rfl rfl (by simp [z0, h0.shape.modMem0]) (by simp [z1, h0.shape.modMem1]) rfl rfl rfl)
    h0.flags, rfl⟩

/-- header fields of a complete single-frame Modulation as the SDK's packer produces them -/
structure ModFrameOK (d : Array Nat) : Prop where
  begin_ : hasFlag (u8at d FwLayout.ModulationHead_flag_off) MODULATION_FLAG_BEGIN = true
  end_ : hasFlag (u8at d FwLayout.ModulationHead_flag_off) MODULATION_FLAG_END = true
  div : 1 ≤ u16at d FwLayout.ModulationHead_freq_div_off
  /-- the `TRANSITION` flag is set exactly when a real transition mode is given -/
  upd : hasFlag (u8at d FwLayout.ModulationHead_flag_off) MODULATION_FLAG_UPDATE = true →
    ModeOK (u8at d FwLayout.ModulationHead_transition_mode_off) (u64at d FwLayout.ModulationHead_transition_value_off)

set_option maxRecDepth 2000 in
theorem writeMod_safe (s : State) (d : Array Nat) (h : FwWF s) (hst : Settled s) (hd : ModFrameOK d) :
    ∃ s' ack, writeMod s d = .ok (s', ack) ∧ FwWF s' := by
  obtain ⟨hb, he, hdiv, hupd⟩ := hd
  unfold writeMod
  generalize u8at d FwLayout.ModulationHead_flag_off = flag at hb he hupd
  simp only [hb, he, if_true]
  generalize hsg : (if flag &&& MODULATION_FLAG_SEGMENT ≠ 0 then 1 else 0) = seg
  have hseg : seg = 0 ∨ seg = 1 := by subst hsg; split <;> simp
  have hsz := h.shape.ctl
  have hc0 : FwWF { s with modCycle := 0 } :=
    h.transfer' ⟨fun _ _ => rfl, rfl, rfl, rfl, rfl⟩ (h.shape.transfer rfl rfl rfl rfl rfl rfl rfl rfl) h.flags
  split
  · exact ⟨_, _, rfl, hc0⟩
  rename_i hval
  split
  · exact ⟨_, _, rfl, hc0⟩
  have hrep := u16at_lt d FwLayout.ModulationHead_rep_off
  have hfd := u16at_lt d FwLayout.ModulationHead_freq_div_off
  have hsize := u8at_lt d FwLayout.ModulationHead_size_off
  have e1 : u16at d FwLayout.ModulationHead_freq_div_off % 65536 = u16at d FwLayout.ModulationHead_freq_div_off :=
    Nat.mod_eq_of_lt hfd
  have e2 : u16at d FwLayout.ModulationHead_rep_off % 65536 = u16at d FwLayout.ModulationHead_rep_off :=
    Nat.mod_eq_of_lt hrep
  split
  all_goals
    rcases hseg with rfl | rfl
    all_goals
      simp only [ADDR_MOD_FREQ_DIV0, ADDR_MOD_REP0, ADDR_MOD_MEM_WR_SEGMENT, ADDR_MOD_MEM_WR_PAGE, Nat.add_zero,
        Nat.reduceAdd,
        ctlWrite_main _ _ _ (by decide : 37 < 256), ctlWrite_main _ _ _ (by decide : 38 < 256),
        ctlWrite_main _ _ _ (by decide : 39 < 256), ctlWrite_main _ _ _ (by decide : 40 < 256),
        ctlWrite_main _ _ _ (by decide : 32 < 256), ctlWrite_main _ _ _ (by decide : 33 < 256), ok_bind]
      rw [if_pos (by simp only [MOD_BUF_PAGE_SIZE, MOD_BUF_PAGE_SIZE_MASK]; simp; omega)]
      generalize hX : State.mk _ _ _ _ _ _ _ _ _ _ _ _ _ _ _ _ _ _ _ _ _ _ _ _ _ _ _ _ _ _ _ _ _ _ _ _ _ _ _ = X
      have h0 : FwWF X := by subst hX; fwwf_tac h with e1, e2, hdiv
      have hXctlsz : X.ctl.size = 256 := h0.shape.ctl
      have hbase : (0 % 65536 &&& MOD_BUF_PAGE_SIZE_MASK) >>> 1 = 0 := by decide
      rw [hbase]
      obtain ⟨Z, e, wfZ, hZeq⟩ := modWriteWords_wf X 0
        (wordsAt d FwLayout.ModulationHead_size ((u8at d FwLayout.ModulationHead_size_off + 1) >>> 1)) h0
        (by subst hX; simp [reg, rd_set, ADDR_MOD_MEM_WR_SEGMENT, hsz])
        (by rw [wordsAt_size]; simp only [Nat.shiftRight_eq_div_pow]; omega)
        (by subst hX; simp [reg, rd_set, ADDR_MOD_MEM_WR_PAGE, hsz, wordsAt_size, Nat.shiftRight_eq_div_pow]; omega)
      rw [e, ok_bind]
      simp only [ADDR_MOD_CYCLE0, Nat.add_zero, Nat.reduceAdd, ctlWrite_main _ _ _ (by decide : 35 < 256),
        ctlWrite_main _ _ _ (by decide : 36 < 256), ok_bind]
      generalize hY : State.mk _ _ _ _ _ _ _ _ _ _ _ _ _ _ _ _ _ _ _ _ _ _ _ _ _ _ _ _ _ _ _ _ _ _ _ _ _ _ _ = Y
      have hYwf : FwWF Y := by
        subst hY
        exact wfZ.transfer' (by same_wf_tac) (wfZ.shape.transfer (by simp) rfl rfl rfl rfl rfl rfl rfl) wfZ.flags
      cases hu : hasFlag flag MODULATION_FLAG_UPDATE
      · simp only [Bool.false_eq_true, if_false]
        exact ⟨_, _, rfl, hYwf⟩
      · simp only [if_true]
        have hmode := hupd hu
        have hZctl : Z.ctl = X.ctl := by rw [hZeq]
        have hZswap : Z.modSwap = X.modSwap := by rw [hZeq]
        have hZtm : Z.modTrMode = X.modTrMode := by rw [hZeq]
        have hZtv : Z.modTrValue = X.modTrValue := by rw [hZeq]
        have hXswap : X.modSwap = s.modSwap := by subst hX; rfl
        have hXtm : X.modTrMode = u8at d FwLayout.ModulationHead_transition_mode_off := by subst hX; rfl
        have hXtv : X.modTrValue = u64at d FwLayout.ModulationHead_transition_value_off := by subst hX; rfl
        have hYtm : Y.modTrMode = u8at d FwLayout.ModulationHead_transition_mode_off := by
          subst hY; exact hZtm.trans hXtm
        have hYtv : Y.modTrValue = u64at d FwLayout.ModulationHead_transition_value_off := by
          subst hY; exact hZtv.trans hXtv
        have hYswap : Y.modSwap = s.modSwap := by subst hY; exact hZswap.trans hXswap
        rw [hZtm, hXtm, hZtv, hXtv]
        first
        | (refine modSegmentUpdate_safe Y 0 _ _ hYwf (by omega) hmode (by rw [hYswap]; exact hst.modIdle) ?_
           intro hm
           have hv : validateTransitionMode s.modSegment 0 (u16at d FwLayout.ModulationHead_rep_off)
               (u8at d FwLayout.ModulationHead_transition_mode_off) = false := by simpa using hval
           have := validate_ext_imm _ _ _ _ hv hm
           rw [hYswap, ← hst.modBelief]
           have hr : reg Y (ADDR_MOD_REP0 + 0) = u16at d FwLayout.ModulationHead_rep_off := by
             subst hY
             simp [reg, rd_set, ADDR_MOD_REP0]
             rw [hZctl]
             subst hX
             simp [rd_set, hsz, e2]
           rw [hr]; exact this)
        | (refine modSegmentUpdate_safe Y 1 _ _ hYwf (by omega) hmode (by rw [hYswap]; exact hst.modIdle) ?_
           intro hm
           have hv : validateTransitionMode s.modSegment 1 (u16at d FwLayout.ModulationHead_rep_off)
               (u8at d FwLayout.ModulationHead_transition_mode_off) = false := by simpa using hval
           have := validate_ext_imm _ _ _ _ hv hm
           rw [hYswap, ← hst.modBelief]
           have hr : reg Y (ADDR_MOD_REP0 + 1) = u16at d FwLayout.ModulationHead_rep_off := by
             subst hY
             simp [reg, rd_set, ADDR_MOD_REP0]
             rw [hZctl]
             subst hX
             simp [rd_set, hsz, e2]
           rw [hr]; exact this)

/-- header fields of a complete single-frame FociSTM as the SDK's packer produces them -/
structure FociFrameOK (d : Array Nat) : Prop where
  begin_ : hasFlag (u8at d FwLayout.FociSTMSubseq_flag_off) FOCI_STM_FLAG_BEGIN = true
  end_ : hasFlag (u8at d FwLayout.FociSTMSubseq_flag_off) FOCI_STM_FLAG_END = true
  seg : u8at d FwLayout.FociSTMSubseq_segment_off ≤ 1
  div : 1 ≤ u16at d FwLayout.FociSTMHead_freq_div_off
  foci : 1 ≤ u8at d FwLayout.FociSTMHead_num_foci_off
  /-- everything sent fits the first page (the frame holds at most 74 foci) -/
  fits : u8at d FwLayout.FociSTMSubseq_send_num_off * u8at d FwLayout.FociSTMHead_num_foci_off < 4096
  upd : hasFlag (u8at d FwLayout.FociSTMSubseq_flag_off) FOCI_STM_FLAG_UPDATE = true →
    ModeOK (u8at d FwLayout.FociSTMHead_transition_mode_off) (u64at d FwLayout.FociSTMHead_transition_value_off)

set_option maxRecDepth 2000 in
theorem writeFociStm_safe (s : State) (d : Array Nat) (h : FwWF s) (hst : Settled s) (hd : FociFrameOK d) :
    ∃ s' ack, writeFociStm s d = .ok (s', ack) ∧ FwWF s' := by
  obtain ⟨hb, he, hseg, hdiv, hfoci, hfits, hupd⟩ := hd
  unfold writeFociStm
  generalize u8at d FwLayout.FociSTMSubseq_flag_off = flag at hb he hupd
  generalize u8at d FwLayout.FociSTMSubseq_segment_off = seg at hseg
  simp only []
  rw [if_pos hb]
  have hsz := h.shape.ctl
  by_cases hval : validateTransitionMode s.stmSegment seg (u16at d FwLayout.FociSTMHead_rep_off)
                  (u8at d FwLayout.FociSTMHead_transition_mode_off) = true
  · rw [if_pos hval]; exact ⟨_, _, rfl, h⟩
  rw [if_neg hval]
  by_cases hsil : validateSilencerSettings s (u16at d FwLayout.FociSTMHead_freq_div_off) (sel s.modDiv s.modSegment) = true
  · rw [if_pos hsil]; exact ⟨_, _, rfl, h⟩
  rw [if_neg hsil, if_neg (by omega : ¬ seg > 1)]
  have hrep := u16at_lt d FwLayout.FociSTMHead_rep_off
  have hfd := u16at_lt d FwLayout.FociSTMHead_freq_div_off
  have hsn := u8at_lt d FwLayout.FociSTMSubseq_send_num_off
  have hnf := u8at_lt d FwLayout.FociSTMHead_num_foci_off
  have e1 : u16at d FwLayout.FociSTMHead_freq_div_off % 65536 = u16at d FwLayout.FociSTMHead_freq_div_off :=
    Nat.mod_eq_of_lt hfd
  have e2 : u16at d FwLayout.FociSTMHead_rep_off % 65536 = u16at d FwLayout.FociSTMHead_rep_off :=
    Nat.mod_eq_of_lt hrep
  have hs01 : seg = 0 ∨ seg = 1 := by omega
  have hcap : FOCI_STM_BUF_PAGE_SIZE - (0 % 65536 &&& FOCI_STM_BUF_PAGE_SIZE_MASK) = 4096 := by decide
  have hdst : (0 % 65536 &&& FOCI_STM_BUF_PAGE_SIZE_MASK) <<< 2 % 65536 = 0 := by decide
  have hv : validateTransitionMode s.stmSegment seg (u16at d FwLayout.FociSTMHead_rep_off)
      (u8at d FwLayout.FociSTMHead_transition_mode_off) = false := by simpa using hval
  by_cases htm : u8at d FwLayout.FociSTMHead_transition_mode_off ≠ TRANSITION_MODE_NONE
  all_goals
    first | rw [if_pos htm] | rw [if_neg htm]
    rcases hs01 with rfl | rfl
    all_goals
      simp (maxSteps := 1000000) only [ADDR_STM_FREQ_DIV0, ADDR_STM_MODE0, ADDR_STM_SOUND_SPEED0, ADDR_STM_REP0, ADDR_STM_NUM_FOCI0,
        ADDR_STM_MEM_WR_SEGMENT, ADDR_STM_MEM_WR_PAGE, Nat.add_zero, Nat.reduceAdd,
        ctlWrite_main _ _ _ (by decide : 85 < 256), ctlWrite_main _ _ _ (by decide : 86 < 256),
        ctlWrite_main _ _ _ (by decide : 89 < 256), ctlWrite_main _ _ _ (by decide : 90 < 256),
        ctlWrite_main _ _ _ (by decide : 91 < 256), ctlWrite_main _ _ _ (by decide : 92 < 256),
        ctlWrite_main _ _ _ (by decide : 87 < 256), ctlWrite_main _ _ _ (by decide : 88 < 256),
        ctlWrite_main _ _ _ (by decide : 93 < 256), ctlWrite_main _ _ _ (by decide : 94 < 256),
        ctlWrite_main _ _ _ (by decide : 80 < 256), ctlWrite_main _ _ _ (by decide : 81 < 256), ok_bind]
      rw [if_neg (by omega), hcap, if_pos hfits, hdst]
      generalize hX : State.mk _ _ _ _ _ _ _ _ _ _ _ _ _ _ _ _ _ _ _ _ _ _ _ _ _ _ _ _ _ _ _ _ _ _ _ _ _ _ _ = X
      have h0 : FwWF X := by subst hX; fwwf_tac h with e1, e2, hdiv
      obtain ⟨Z, e, wfZ, hZctl, hZswap, _, hZeq⟩ := stmWriteWords_wf X 0
        (wordsAt d FwLayout.FociSTMHead_size
          (u8at d FwLayout.FociSTMSubseq_send_num_off * u8at d FwLayout.FociSTMHead_num_foci_off * 4)) h0
        (by subst hX; simp [reg, rd_set, ADDR_STM_MEM_WR_SEGMENT, hsz])
        (by rw [wordsAt_size]; omega)
        (by subst hX; simp [reg, rd_set, ADDR_STM_MEM_WR_PAGE, hsz, wordsAt_size]; omega)
      rw [e, ok_bind]
      have hZnf : Z.numFoci = u8at d FwLayout.FociSTMHead_num_foci_off := by rw [hZeq]; subst hX; rfl
      rw [if_pos he, if_neg (by omega), if_neg (by rw [hZnf]; omega)]
      simp only [ADDR_STM_CYCLE0, Nat.add_zero, Nat.reduceAdd, ctlWrite_main _ _ _ (by decide : 83 < 256),
        ctlWrite_main _ _ _ (by decide : 84 < 256), ok_bind]
      generalize hY : State.mk _ _ _ _ _ _ _ _ _ _ _ _ _ _ _ _ _ _ _ _ _ _ _ _ _ _ _ _ _ _ _ _ _ _ _ _ _ _ _ = Y
      have hYwf : FwWF Y := by
        subst hY
        exact wfZ.transfer' (by same_wf_tac) (wfZ.shape.transfer (by simp) rfl rfl rfl rfl rfl rfl rfl) wfZ.flags
      cases hu : hasFlag flag FOCI_STM_FLAG_UPDATE
      · simp only [Bool.false_eq_true, if_false]
        exact ⟨_, _, rfl, hYwf⟩
      · simp only [if_true]
        have hmode := hupd hu
        have hZtm : Z.stmTrMode = X.stmTrMode := by rw [hZeq]
        have hZtv : Z.stmTrValue = X.stmTrValue := by rw [hZeq]
        have hXswap : X.stmSwap = s.stmSwap := by subst hX; rfl
        have hXtm : X.stmTrMode = u8at d FwLayout.FociSTMHead_transition_mode_off := by subst hX; rfl
        have hXtv : X.stmTrValue = u64at d FwLayout.FociSTMHead_transition_value_off := by subst hX; rfl
        have hYswap : Y.stmSwap = s.stmSwap := by subst hY; exact hZswap.trans hXswap
        rw [hZtm, hXtm, hZtv, hXtv]
        first
        | (refine stmSegmentUpdate_safe Y 0 _ _ hYwf (by omega) hmode (by rw [hYswap]; exact hst.stmIdle) ?_
           intro hm
           have := validate_ext_imm _ _ _ _ hv hm
           rw [hYswap, ← hst.stmBelief]
           have hr : reg Y (ADDR_STM_REP0 + 0) = u16at d FwLayout.FociSTMHead_rep_off := by
             subst hY
             simp [reg, rd_set, ADDR_STM_REP0]
             rw [hZctl]
             subst hX
             simp [rd_set, hsz, e2]
           rw [hr]; exact this)
        | (refine stmSegmentUpdate_safe Y 1 _ _ hYwf (by omega) hmode (by rw [hYswap]; exact hst.stmIdle) ?_
           intro hm
           have := validate_ext_imm _ _ _ _ hv hm
           rw [hYswap, ← hst.stmBelief]
           have hr : reg Y (ADDR_STM_REP0 + 1) = u16at d FwLayout.FociSTMHead_rep_off := by
             subst hY
             simp [reg, rd_set, ADDR_STM_REP0]
             rw [hZctl]
             subst hX
             simp [rd_set, hsz, e2]
           rw [hr]; exact this)

theorem gainStm_dst_le (c : Nat) : ((c % 65536 &&& GAIN_STM_BUF_PAGE_SIZE_MASK) <<< 8) % 65536 ≤ 16128 := by
  have h1 : c % 65536 &&& GAIN_STM_BUF_PAGE_SIZE_MASK ≤ 63 := Nat.and_le_right
  have h2 : (c % 65536 &&& GAIN_STM_BUF_PAGE_SIZE_MASK) <<< 8 = (c % 65536 &&& GAIN_STM_BUF_PAGE_SIZE_MASK) * 256 := by
    rw [Nat.shiftLeft_eq]
  rw [h2]
  omega

/-- one pattern of a GainSTM frame: never panics while the write registers point at page 0 of a segment -/
theorem gainStmWritePattern_wf (s : State) (seg srcOff : Nat) (d : Array Nat) (f : Nat → Nat) (h : FwWF s)
    (hwr : reg s ADDR_STM_MEM_WR_SEGMENT ≤ 1) (hpage : reg s ADDR_STM_MEM_WR_PAGE = 0) :
    ∃ Z, gainStmWritePattern s seg srcOff d f = .ok Z ∧ FwWF Z ∧
      Z = { s with stmMem0 := Z.stmMem0, stmMem1 := Z.stmMem1,
                   stmCycle := setSel s.stmCycle seg (sel s.stmCycle seg + 1) } := by
  unfold gainStmWritePattern
  have hd := gainStm_dst_le (sel s.stmCycle seg)
  have hn := h.shape.numTr
  obtain ⟨Z, e, wfZ, _, _, _, hZeq⟩ := stmWriteWords_wf s
    ((((sel s.stmCycle seg) % 65536 &&& GAIN_STM_BUF_PAGE_SIZE_MASK) <<< 8) % 65536)
    ((wordsAt d srcOff s.numTr).map f) h hwr
    (by simp only [Array.size_map, wordsAt_size]; omega)
    (by rw [hpage]; simp only [Array.size_map, wordsAt_size]; omega)
  simp only []
  rw [e, ok_bind]
  refine ⟨_, rfl, ?_, ?_⟩
  · exact wfZ.transfer' ⟨fun _ _ => rfl, rfl, rfl, rfl, rfl⟩ (wfZ.shape.transfer rfl rfl rfl rfl rfl rfl rfl rfl) wfZ.flags
  · rw [hZeq]

/-- header fields of a complete single-frame GainSTM as the SDK's packer produces them -/
structure GainStmFrameOK (d : Array Nat) : Prop where
  begin_ : hasFlag (u8at d FwLayout.GainSTMSubseq_flag_off) GAIN_STM_FLAG_BEGIN = true
  end_ : hasFlag (u8at d FwLayout.GainSTMSubseq_flag_off) GAIN_STM_FLAG_END = true
  div : 1 ≤ u16at d FwLayout.GainSTMHead_freq_div_off
  upd : hasFlag (u8at d FwLayout.GainSTMSubseq_flag_off) GAIN_STM_FLAG_UPDATE = true →
    ModeOK (u8at d FwLayout.GainSTMHead_transition_mode_off) (u64at d FwLayout.GainSTMHead_transition_value_off)

/-- the part of `write_gain_stm` after the patterns were written (page register, END, UPDATE) -/
def gsTail (flag seg : Nat) (s : State) : M (State × Nat) := do
  let mut s := s
  let c16 := (sel s.stmCycle seg) % 65536
  if c16 &&& GAIN_STM_BUF_PAGE_SIZE_MASK = 0 then
    s ← ctlWrite s ADDR_STM_MEM_WR_PAGE ((c16 &&& (65535 - GAIN_STM_BUF_PAGE_SIZE_MASK)) >>> GAIN_STM_BUF_PAGE_SIZE_WIDTH)
  if hasFlag flag GAIN_STM_FLAG_END then
    s := { s with stmMode := setSel s.stmMode seg STM_MODE_GAIN }
    s ← ctlWrite s (ADDR_STM_CYCLE0 + seg) ((max (sel s.stmCycle seg) 1 - 1) % 65536)
    if hasFlag flag GAIN_STM_FLAG_UPDATE then
      return ← stmSegmentUpdate s seg s.stmTrMode s.stmTrValue
  return (s, NO_ERR)

theorem gsTail_safe (flag seg : Nat) (Z : State) (hZ : FwWF Z) (hseg : seg ≤ 1)
    (he : hasFlag flag GAIN_STM_FLAG_END = true)
    (hc : 1 ≤ sel Z.stmCycle seg ∧ sel Z.stmCycle seg ≤ 4)
    (hidle : Z.stmSwap.state ≠ .waitStart)
    (hupd : hasFlag flag GAIN_STM_FLAG_UPDATE = true → ModeOK Z.stmTrMode Z.stmTrValue ∧
      (Z.stmTrMode = TRANSITION_MODE_EXT ∨ Z.stmTrMode = TRANSITION_MODE_IMMEDIATE →
        Z.stmSwap.cur = seg ∨ reg Z (ADDR_STM_REP0 + seg) = 0xFFFF)) :
    ∃ s' ack, gsTail flag seg Z = .ok (s', ack) ∧ FwWF s' := by
  unfold gsTail
  simp only []
  have hne : ¬ (sel Z.stmCycle seg % 65536 &&& GAIN_STM_BUF_PAGE_SIZE_MASK = 0) := by
    obtain ⟨h1, h4⟩ := hc
    generalize sel Z.stmCycle seg = c at h1 h4
    have : c = 1 ∨ c = 2 ∨ c = 3 ∨ c = 4 := by omega
    rcases this with rfl | rfl | rfl | rfl <;> decide
  rw [if_neg hne, if_pos he]
  have hsz := hZ.shape.ctl
  have hs01 : seg = 0 ∨ seg = 1 := by omega
  have hlt : ADDR_STM_CYCLE0 + seg < 256 := by simp only [ADDR_STM_CYCLE0]; omega
  simp only [ok_bind, pure_eq_ok, ctlWrite_main _ _ _ hlt]
  generalize hY : State.mk _ _ _ _ _ _ _ _ _ _ _ _ _ _ _ _ _ _ _ _ _ _ _ _ _ _ _ _ _ _ _ _ _ _ _ _ _ _ _ = Y
  have c0 : SameWF Z Y := by
    subst hY
    rcases hs01 with rfl | rfl <;> simp only [ADDR_STM_CYCLE0, Nat.add_zero, Nat.reduceAdd] <;> same_wf_tac
  have hYwf : FwWF Y := by
    refine hZ.transfer' c0 ?_ ?_
    · subst hY; exact hZ.shape.transfer (by simp) rfl rfl rfl rfl rfl rfl rfl
    · subst hY; exact hZ.flags
  cases hu : hasFlag flag GAIN_STM_FLAG_UPDATE
  · simp only [Bool.false_eq_true, if_false]
    exact ⟨_, _, rfl, hYwf⟩
  · simp only [if_true]
    obtain ⟨hm, hv⟩ := hupd hu
    have e1 : Y.stmTrMode = Z.stmTrMode := by subst hY; rfl
    have e2 : Y.stmTrValue = Z.stmTrValue := by subst hY; rfl
    have e3 : Y.stmSwap = Z.stmSwap := by subst hY; rfl
    refine stmSegmentUpdate_safe Y seg _ _ hYwf hseg hm (by rw [e3]; exact hidle) ?_
    intro hmode
    rw [e3]
    have hr : reg Y (ADDR_STM_REP0 + seg) = reg Z (ADDR_STM_REP0 + seg) := by
      rcases hs01 with rfl | rfl
      · exact c0.fd _ (by simp)
      · exact c0.fd _ (by decide)
    rw [hr]
    exact hv hmode

/-- what the pattern loop of `write_gain_stm` maintains relative to the state `X` after the BEGIN block -/
structure GsInv (X : State) (seg : Nat) (A : State) (c : Nat) : Prop where
  wf : FwWF A
  ctl : A.ctl = X.ctl
  cyc : sel A.stmCycle seg = c
  swap : A.stmSwap = X.stmSwap
  tm : A.stmTrMode = X.stmTrMode
  tv : A.stmTrValue = X.stmTrValue

theorem GsInv.step {X : State} {seg : Nat} {A : State} {c : Nat} (j : GsInv X seg A c) (hseg : seg ≤ 1)
    (hwr : reg X ADDR_STM_MEM_WR_SEGMENT ≤ 1) (hpage : reg X ADDR_STM_MEM_WR_PAGE = 0)
    (srcOff : Nat) (d : Array Nat) (f : Nat → Nat) :
    ∃ B, gainStmWritePattern A seg srcOff d f = .ok B ∧ GsInv X seg B (c + 1) := by
  have hwr' : reg A ADDR_STM_MEM_WR_SEGMENT ≤ 1 := by unfold reg; rw [j.ctl]; exact hwr
  have hpage' : reg A ADDR_STM_MEM_WR_PAGE = 0 := by unfold reg; rw [j.ctl]; exact hpage
  obtain ⟨B, e, wfB, hB⟩ := gainStmWritePattern_wf A seg srcOff d f j.wf hwr' hpage'
  refine ⟨B, e, wfB, ?_, ?_, ?_, ?_, ?_⟩
  · rw [hB]; exact j.ctl
  · rw [hB]; simp only [sel_setSel _ _ _ _ hseg hseg, if_true, j.cyc]
  · rw [hB]; exact j.swap
  · rw [hB]; exact j.tm
  · rw [hB]; exact j.tv

/-- facts about the state after the BEGIN block of `write_gain_stm` (`sg` = the new segment belief) -/
theorem gs_begin_state (s : State) (h : FwWF s) (seg sg m fd rep tm tv : Nat) (hseg : seg ≤ 1)
    (hfd : 1 ≤ fd) (hfd' : fd < 65536) (hrep : rep < 65536) (X : State)
    (hX : X = { s with
      gainStmMode := m
      stmSegment := sg
      stmCycle := setSel s.stmCycle seg 0
      stmRep := setSel s.stmRep seg rep
      stmTrMode := tm
      stmTrValue := tv
      stmDiv := setSel s.stmDiv seg fd
      ctl := ((((s.ctl.setIfInBounds (ADDR_STM_FREQ_DIV0 + seg) (fd % 65536)).setIfInBounds
                (ADDR_STM_MODE0 + seg) (STM_MODE_GAIN % 65536)).setIfInBounds
                (ADDR_STM_REP0 + seg) (rep % 65536)).setIfInBounds 80 (seg % 65536)).setIfInBounds
                ADDR_STM_MEM_WR_PAGE (0 % 65536) }) :
    GsInv X seg X 0 ∧ reg X ADDR_STM_MEM_WR_SEGMENT ≤ 1 ∧ reg X ADDR_STM_MEM_WR_PAGE = 0 ∧
      X.stmSwap = s.stmSwap ∧ X.stmTrMode = tm ∧ X.stmTrValue = tv ∧ reg X (ADDR_STM_REP0 + seg) = rep := by
  subst hX
  have hsz := h.shape.ctl
  have e1 : fd % 65536 = fd := Nat.mod_eq_of_lt hfd'
  have e2 : rep % 65536 = rep := Nat.mod_eq_of_lt hrep
  have hs01 : seg = 0 ∨ seg = 1 := by omega
  refine ⟨⟨?_, rfl, ?_, rfl, rfl, rfl⟩, ?_, ?_, rfl, rfl, rfl, ?_⟩
  · rcases hs01 with rfl | rfl
    · fwwf_tac h with e1, e2, hfd, ADDR_STM_MODE0, ADDR_STM_MEM_WR_PAGE
    · fwwf_tac h with e1, e2, hfd, ADDR_STM_MODE0, ADDR_STM_MEM_WR_PAGE
  · show sel (setSel s.stmCycle seg 0) seg = 0
    simp [sel_setSel _ _ _ _ hseg hseg]
  · rcases hs01 with rfl | rfl <;>
      simp [reg, rd_set, ADDR_STM_MEM_WR_SEGMENT, ADDR_STM_MEM_WR_PAGE, ADDR_STM_FREQ_DIV0, ADDR_STM_MODE0, ADDR_STM_REP0, hsz]
  · rcases hs01 with rfl | rfl <;>
      simp [reg, rd_set, ADDR_STM_MEM_WR_SEGMENT, ADDR_STM_MEM_WR_PAGE, ADDR_STM_FREQ_DIV0, ADDR_STM_MODE0, ADDR_STM_REP0, hsz]
  · rcases hs01 with rfl | rfl <;>
      simp [reg, rd_set, ADDR_STM_MEM_WR_SEGMENT, ADDR_STM_MEM_WR_PAGE, ADDR_STM_FREQ_DIV0, ADDR_STM_MODE0, ADDR_STM_REP0, hsz, e2]

/-- a leaf of `write_gain_stm`: after 1..4 patterns the tail is safe -/
theorem gs_leaf (s : State) (hst : Settled s) (flag seg rep tm tv : Nat) (X Z : State) (c : Nat)
    (j : GsInv X seg Z c) (hc : 1 ≤ c ∧ c ≤ 4) (hseg : seg ≤ 1)
    (he : hasFlag flag GAIN_STM_FLAG_END = true)
    (hupd : hasFlag flag GAIN_STM_FLAG_UPDATE = true → ModeOK tm tv)
    (hv : validateTransitionMode s.stmSegment seg rep tm = false)
    (hsw : X.stmSwap = s.stmSwap) (htmX : X.stmTrMode = tm) (htvX : X.stmTrValue = tv)
    (hrepX : reg X (ADDR_STM_REP0 + seg) = rep) :
    ∃ s' ack, gsTail flag seg Z = .ok (s', ack) ∧ FwWF s' := by
  refine gsTail_safe flag seg Z j.wf hseg he (by rw [j.cyc]; exact hc) (by rw [j.swap, hsw]; exact hst.stmIdle) ?_
  intro hu
  rw [j.tm, htmX, j.tv, htvX]
  refine ⟨hupd hu, fun hm => ?_⟩
  have := validate_ext_imm _ _ _ _ hv hm
  rw [j.swap, hsw, ← hst.stmBelief]
  have hr : reg Z (ADDR_STM_REP0 + seg) = rep := by unfold reg; rw [j.ctl]; exact hrepX
  rw [hr]; exact this

set_option maxRecDepth 2000 in
theorem writeGainStm_safe (s : State) (d : Array Nat) (h : FwWF s) (hst : Settled s) (hd : GainStmFrameOK d) :
    ∃ s' ack, writeGainStm s d = .ok (s', ack) ∧ FwWF s' := by
  obtain ⟨hb, he, hdiv, hupd⟩ := hd
  unfold writeGainStm
  generalize u8at d FwLayout.GainSTMSubseq_flag_off = flag at hb he hupd
  simp (maxSteps := 4000000) only []
  generalize hsg : (if flag &&& GAIN_STM_FLAG_SEGMENT ≠ 0 then 1 else 0) = seg
  have hs01 : seg = 0 ∨ seg = 1 := by subst hsg; split <;> simp
  have hseg : seg ≤ 1 := by omega
  rw [if_pos hb]
  have hsz := h.shape.ctl
  have hg : FwWF { s with gainStmMode := u8at d FwLayout.GainSTMHead_mode_off } :=
    h.transfer' ⟨fun _ _ => rfl, rfl, rfl, rfl, rfl⟩ (h.shape.transfer rfl rfl rfl rfl rfl rfl rfl rfl) h.flags
  by_cases hval : validateTransitionMode s.stmSegment seg (u16at d FwLayout.GainSTMHead_rep_off)
                  (u8at d FwLayout.GainSTMHead_transition_mode_off) = true
  · rw [if_pos hval]; exact ⟨_, _, rfl, hg⟩
  rw [if_neg hval]
  by_cases hsil : validateSilencerSettings { s with gainStmMode := u8at d FwLayout.GainSTMHead_mode_off }
      (u16at d FwLayout.GainSTMHead_freq_div_off) (sel s.modDiv s.modSegment) = true
  · rw [if_pos hsil]; exact ⟨_, _, rfl, hg⟩
  rw [if_neg hsil]
  have hv : validateTransitionMode s.stmSegment seg (u16at d FwLayout.GainSTMHead_rep_off)
      (u8at d FwLayout.GainSTMHead_transition_mode_off) = false := by simpa using hval
  have hrep := u16at_lt d FwLayout.GainSTMHead_rep_off
  have hfd := u16at_lt d FwLayout.GainSTMHead_freq_div_off
  have e1 : u16at d FwLayout.GainSTMHead_freq_div_off % 65536 = u16at d FwLayout.GainSTMHead_freq_div_off :=
    Nat.mod_eq_of_lt hfd
  have e2 : u16at d FwLayout.GainSTMHead_rep_off % 65536 = u16at d FwLayout.GainSTMHead_rep_off :=
    Nat.mod_eq_of_lt hrep
  have l1 : ADDR_STM_FREQ_DIV0 + seg < 256 := by simp only [ADDR_STM_FREQ_DIV0]; omega
  have l2 : ADDR_STM_MODE0 + seg < 256 := by simp only [ADDR_STM_MODE0]; omega
  have l3 : ADDR_STM_REP0 + seg < 256 := by simp only [ADDR_STM_REP0]; omega
  by_cases htm : u8at d FwLayout.GainSTMHead_transition_mode_off ≠ TRANSITION_MODE_NONE
  all_goals
    first | rw [if_pos htm] | rw [if_neg htm]
    simp (maxSteps := 1000000) only [ADDR_STM_MEM_WR_SEGMENT,
      ctlWrite_main _ _ _ l1, ctlWrite_main _ _ _ l2, ctlWrite_main _ _ _ l3,
      ctlWrite_main _ _ _ (by decide : 80 < 256), ok_bind]
    rw [ctlWrite_main _ ADDR_STM_MEM_WR_PAGE 0 (by decide)]
    simp (maxSteps := 1000000) only [ok_bind]
    by_cases hm0 : u8at d FwLayout.GainSTMHead_mode_off = GAIN_STM_MODE_INTENSITY_PHASE_FULL
    · rw [if_pos hm0]
      generalize hX : State.mk _ _ _ _ _ _ _ _ _ _ _ _ _ _ _ _ _ _ _ _ _ _ _ _ _ _ _ _ _ _ _ _ _ _ _ _ _ _ _ = X
      obtain ⟨j0, hwr, hpg, hsw, htmX, htvX, hrepX⟩ :=
        gs_begin_state s h seg _ _ _ _ _ _ hseg hdiv hfd hrep X hX.symm
      obtain ⟨B1, p1, j1⟩ := j0.step hseg hwr hpg FwLayout.GainSTMHead_size d id
      rw [p1, ok_bind]
      exact gs_leaf s hst flag seg _ _ _ X B1 1 j1 (by omega) hseg he hupd hv hsw htmX htvX hrepX
    rw [if_neg hm0]
    by_cases hm1 : u8at d FwLayout.GainSTMHead_mode_off = GAIN_STM_MODE_PHASE_FULL
    · rw [if_pos hm1]
      generalize hX : State.mk _ _ _ _ _ _ _ _ _ _ _ _ _ _ _ _ _ _ _ _ _ _ _ _ _ _ _ _ _ _ _ _ _ _ _ _ _ _ _ = X
      obtain ⟨j0, hwr, hpg, hsw, htmX, htvX, hrepX⟩ :=
        gs_begin_state s h seg _ _ _ _ _ _ hseg hdiv hfd hrep X hX.symm
      obtain ⟨B1, p1, j1⟩ := j0.step hseg hwr hpg FwLayout.GainSTMHead_size d (fun w => 0xFF00 ||| (w &&& 0x00FF))
      rw [p1, ok_bind]
      by_cases c1 : flag >>> 6 + 1 > 1
      · rw [if_pos c1]
        obtain ⟨B2, p2, j2⟩ := j1.step hseg hwr hpg FwLayout.GainSTMHead_size d (fun w => 0xFF00 ||| ((w >>> 8) &&& 0x00FF))
        rw [p2, ok_bind]
        exact gs_leaf s hst flag seg _ _ _ X B2 2 j2 (by omega) hseg he hupd hv hsw htmX htvX hrepX
      · rw [if_neg c1]
        exact gs_leaf s hst flag seg _ _ _ X B1 1 j1 (by omega) hseg he hupd hv hsw htmX htvX hrepX
    rw [if_neg hm1]
    by_cases hm2 : u8at d FwLayout.GainSTMHead_mode_off = GAIN_STM_MODE_PHASE_HALF
    · rw [if_pos hm2]
      generalize hX : State.mk _ _ _ _ _ _ _ _ _ _ _ _ _ _ _ _ _ _ _ _ _ _ _ _ _ _ _ _ _ _ _ _ _ _ _ _ _ _ _ = X
      obtain ⟨j0, hwr, hpg, hsw, htmX, htvX, hrepX⟩ :=
        gs_begin_state s h seg _ _ _ _ _ _ hseg hdiv hfd hrep X hX.symm
      obtain ⟨B1, p1, j1⟩ := j0.step hseg hwr hpg FwLayout.GainSTMHead_size d
        (fun w => let p := (w >>> (4 * 0)) &&& 0x000F; 0xFF00 ||| (p <<< 4) ||| p)
      rw [p1, ok_bind]
      by_cases q1 : flag >>> 6 + 1 > 1
      · rw [if_pos q1]
        obtain ⟨C1, w1, k1⟩ := j1.step hseg hwr hpg FwLayout.GainSTMHead_size d
          (fun w => let p := (w >>> (4 * 1)) &&& 0x000F; 0xFF00 ||| (p <<< 4) ||| p)
        rw [w1, ok_bind]
        by_cases q2 : flag >>> 6 + 1 > 2
        · rw [if_pos q2]
          obtain ⟨C2, w2, k2⟩ := k1.step hseg hwr hpg FwLayout.GainSTMHead_size d
            (fun w => let p := (w >>> (4 * 2)) &&& 0x000F; 0xFF00 ||| (p <<< 4) ||| p)
          rw [w2, ok_bind]
          by_cases q3 : flag >>> 6 + 1 > 3
          · rw [if_pos q3]
            obtain ⟨C3, w3, k3⟩ := k2.step hseg hwr hpg FwLayout.GainSTMHead_size d
              (fun w => let p := (w >>> (4 * 3)) &&& 0x000F; 0xFF00 ||| (p <<< 4) ||| p)
            rw [w3, ok_bind]
            exact gs_leaf s hst flag seg _ _ _ X C3 4 k3 (by omega) hseg he hupd hv hsw htmX htvX hrepX
          · rw [if_neg q3]
            exact gs_leaf s hst flag seg _ _ _ X C2 3 k2 (by omega) hseg he hupd hv hsw htmX htvX hrepX
        · rw [if_neg q2]
          by_cases q4 : flag >>> 6 + 1 > 3
          · rw [if_pos q4]
            obtain ⟨C4, w4, k4⟩ := k1.step hseg hwr hpg FwLayout.GainSTMHead_size d
              (fun w => let p := (w >>> (4 * 3)) &&& 0x000F; 0xFF00 ||| (p <<< 4) ||| p)
            rw [w4, ok_bind]
            exact gs_leaf s hst flag seg _ _ _ X C4 3 k4 (by omega) hseg he hupd hv hsw htmX htvX hrepX
          · rw [if_neg q4]
            exact gs_leaf s hst flag seg _ _ _ X C1 2 k1 (by omega) hseg he hupd hv hsw htmX htvX hrepX
      · rw [if_neg q1]
        by_cases q5 : flag >>> 6 + 1 > 2
        · rw [if_pos q5]
          obtain ⟨C5, w5, k5⟩ := j1.step hseg hwr hpg FwLayout.GainSTMHead_size d
            (fun w => let p := (w >>> (4 * 2)) &&& 0x000F; 0xFF00 ||| (p <<< 4) ||| p)
          rw [w5, ok_bind]
          by_cases q6 : flag >>> 6 + 1 > 3
          · rw [if_pos q6]
            obtain ⟨C6, w6, k6⟩ := k5.step hseg hwr hpg FwLayout.GainSTMHead_size d
              (fun w => let p := (w >>> (4 * 3)) &&& 0x000F; 0xFF00 ||| (p <<< 4) ||| p)
            rw [w6, ok_bind]
            exact gs_leaf s hst flag seg _ _ _ X C6 3 k6 (by omega) hseg he hupd hv hsw htmX htvX hrepX
          · rw [if_neg q6]
            exact gs_leaf s hst flag seg _ _ _ X C5 2 k5 (by omega) hseg he hupd hv hsw htmX htvX hrepX
        · rw [if_neg q5]
          by_cases q7 : flag >>> 6 + 1 > 3
          · rw [if_pos q7]
            obtain ⟨C7, w7, k7⟩ := j1.step hseg hwr hpg FwLayout.GainSTMHead_size d
              (fun w => let p := (w >>> (4 * 3)) &&& 0x000F; 0xFF00 ||| (p <<< 4) ||| p)
            rw [w7, ok_bind]
            exact gs_leaf s hst flag seg _ _ _ X C7 2 k7 (by omega) hseg he hupd hv hsw htmX htvX hrepX
          · rw [if_neg q7]
            exact gs_leaf s hst flag seg _ _ _ X B1 1 j1 (by omega) hseg he hupd hv hsw htmX htvX hrepX
    rw [if_neg hm2]
    generalize hX : State.mk _ _ _ _ _ _ _ _ _ _ _ _ _ _ _ _ _ _ _ _ _ _ _ _ _ _ _ _ _ _ _ _ _ _ _ _ _ _ _ = X
    obtain ⟨j0, _⟩ := gs_begin_state s h seg _ _ _ _ _ _ hseg hdiv hfd hrep X hX.symm
    exact ⟨_, _, rfl, j0.wf⟩

end Autd3.Fw
