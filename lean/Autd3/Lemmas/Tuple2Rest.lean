import Autd3.Lemmas.Tuple2Proto
/-!
General tuples: the part of the device state that no data datagram addresses (`KeepR`), and the union of the two
data footprints (`Foot eraseMS TMS`).
-/
open Autd3 Autd3.Fw Autd3.Wire Autd3.Gen.Cpu Autd3.Gen Autd3.Rt
namespace Autd3.Tuple2

/-- everything outside the modulation side, the STM side, `CTL_FLAG` and the per-frame bookkeeping is the same -/
structure KeepR (s s' : State) : Prop where
  phaseCorr : s'.phaseCorr = s.phaseCorr
  pwe : s'.pwe = s.pwe
  regs : ∀ a, a ≠ 0 → (a < 32 ∨ (46 ≤ a ∧ a < 80) ∨ 100 ≤ a) → reg s' a = reg s a
  ctlsz : s'.ctl.size = s.ctl.size
  strict : s'.strict = s.strict
  minDivI : s'.minDivI = s.minDivI
  minDivP : s'.minDivP = s.minDivP
  portA : s'.portA = s.portA
  readsFpgaState : s'.readsFpgaState = s.readsFpgaState
  readsStore : s'.readsStore = s.readsStore
  isRxDataUsed : s'.isRxDataUsed = s.isRxDataUsed
  flagsInternal : s'.flagsInternal = s.flagsInternal
  time : s'.dcSysTime = s.dcSysTime
  numTr : s'.numTr = s.numTr
  synchronized : s'.synchronized = s.synchronized

theorem KeepR.refl (s : State) : KeepR s s :=
  ⟨rfl, rfl, fun _ _ _ => rfl, rfl, rfl, rfl, rfl, rfl, rfl, rfl, rfl, rfl, rfl, rfl, rfl⟩
theorem KeepR.trans {a b c : State} (h1 : KeepR a b) (h2 : KeepR b c) : KeepR a c :=
  ⟨h2.phaseCorr.trans h1.phaseCorr, h2.pwe.trans h1.pwe, fun x h0 hx => (h2.regs x h0 hx).trans (h1.regs x h0 hx),
    h2.ctlsz.trans h1.ctlsz, h2.strict.trans h1.strict, h2.minDivI.trans h1.minDivI, h2.minDivP.trans h1.minDivP,
    h2.portA.trans h1.portA, h2.readsFpgaState.trans h1.readsFpgaState, h2.readsStore.trans h1.readsStore,
    h2.isRxDataUsed.trans h1.isRxDataUsed, h2.flagsInternal.trans h1.flagsInternal, h2.time.trans h1.time,
    h2.numTr.trans h1.numTr, h2.synchronized.trans h1.synchronized⟩
theorem KeepR.symm {a b : State} (h : KeepR a b) : KeepR b a :=
  ⟨h.phaseCorr.symm, h.pwe.symm, fun x h0 hx => (h.regs x h0 hx).symm, h.ctlsz.symm, h.strict.symm, h.minDivI.symm,
    h.minDivP.symm, h.portA.symm, h.readsFpgaState.symm, h.readsStore.symm, h.isRxDataUsed.symm, h.flagsInternal.symm,
    h.time.symm, h.numTr.symm, h.synchronized.symm⟩

theorem KeepR_of_footM {s s' : State} (h : Foot eraseMI TM s s') : KeepR s s' := by
  have f : ∀ {α : Type} (p : State → α), p (eraseMI s') = p (eraseMI s) := fun p => congrArg p h.eq
  exact ⟨f State.phaseCorr, f State.pwe, fun a h0 h1 => h.regs a (by unfold TM; omega), h.ctlsz, f State.strict,
    f State.minDivI, f State.minDivP, f State.portA, f State.readsFpgaState, f State.readsStore, f State.isRxDataUsed,
    f State.flagsInternal, f State.dcSysTime, f State.numTr, f State.synchronized⟩

theorem KeepR_of_footS {s s' : State} (h : Foot eraseSI TS s s') : KeepR s s' := by
  have f : ∀ {α : Type} (p : State → α), p (eraseSI s') = p (eraseSI s) := fun p => congrArg p h.eq
  exact ⟨f State.phaseCorr, f State.pwe, fun a h0 h1 => h.regs a (by unfold TS; omega), h.ctlsz, f State.strict,
    f State.minDivI, f State.minDivP, f State.portA, f State.readsFpgaState, f State.readsStore, f State.isRxDataUsed,
    f State.flagsInternal, f State.dcSysTime, f State.numTr, f State.synchronized⟩

theorem KeepR_io (s : State) (a l r : Nat) : KeepR s { s with ack := a, lastMsgId := l, rxData := r } :=
  ⟨rfl, rfl, fun _ _ _ => rfl, rfl, rfl, rfl, rfl, rfl, rfl, rfl, rfl, rfl, rfl, rfl, rfl⟩
theorem KeepR_fin (s : State) (id : Nat) : KeepR s (fin s id) :=
  ⟨rfl, rfl, fun a h0 _ => reg_fin s id a h0, by show (s.ctl.setIfInBounds _ _).size = _; simp, rfl, rfl, rfl, rfl, rfl,
    rfl, rfl, rfl, rfl, rfl, rfl⟩

theorem RestSame_of_KeepR {s s' : State} (h : KeepR s s') : RestSame s s' :=
  ⟨h.phaseCorr, h.pwe, h.regs, h.strict, h.minDivI, h.minDivP, h.portA, h.readsFpgaState, h.flagsInternal, h.time,
    h.numTr, h.synchronized⟩

theorem KeepM_io (s : State) (a l r : Nat) : KeepM s { s with ack := a, lastMsgId := l, rxData := r } :=
  ⟨rfl, rfl, rfl, rfl, rfl, rfl, rfl, rfl, rfl, fun _ _ _ => rfl, rfl, rfl⟩
theorem KeepS_io (s : State) (a l r : Nat) : KeepS s { s with ack := a, lastMsgId := l, rxData := r } :=
  ⟨rfl, rfl, rfl, rfl, rfl, rfl, rfl, rfl, rfl, rfl, rfl, rfl, rfl, fun _ _ _ => rfl, rfl, rfl, rfl⟩
theorem KeepM_fin (s : State) (id : Nat) : KeepM s (fin s id) :=
  ⟨rfl, rfl, rfl, rfl, rfl, rfl, rfl, rfl, rfl, fun a h1 _ => reg_fin s id a (by omega), rfl, rfl⟩
theorem KeepS_fin (s : State) (id : Nat) : KeepS s (fin s id) :=
  ⟨rfl, rfl, rfl, rfl, rfl, rfl, rfl, rfl, rfl, rfl, rfl, rfl, rfl, fun a h1 _ => reg_fin s id a (by omega), rfl, rfl, rfl⟩
theorem KeepM.refl (s : State) : KeepM s s := ⟨rfl, rfl, rfl, rfl, rfl, rfl, rfl, rfl, rfl, fun _ _ _ => rfl, rfl, rfl⟩
theorem KeepS.refl (s : State) : KeepS s s :=
  ⟨rfl, rfl, rfl, rfl, rfl, rfl, rfl, rfl, rfl, rfl, rfl, rfl, rfl, fun _ _ _ => rfl, rfl, rfl, rfl⟩
theorem KeepM.trans {a b c : State} (h1 : KeepM a b) (h2 : KeepM b c) : KeepM a c :=
  ⟨h2.mem0.trans h1.mem0, h2.mem1.trans h1.mem1, h2.swap.trans h1.swap, h2.cycle.trans h1.cycle, h2.div.trans h1.div,
    h2.rep.trans h1.rep, h2.segment.trans h1.segment, h2.trMode.trans h1.trMode, h2.trValue.trans h1.trValue,
    fun x a1 a2 => (h2.regs x a1 a2).trans (h1.regs x a1 a2), h2.time.trans h1.time, h2.numTr.trans h1.numTr⟩
theorem KeepS.trans {a b c : State} (h1 : KeepS a b) (h2 : KeepS b c) : KeepS a c :=
  ⟨h2.mem0.trans h1.mem0, h2.mem1.trans h1.mem1, h2.swap.trans h1.swap, h2.write.trans h1.write, h2.cycle.trans h1.cycle,
    h2.mode.trans h1.mode, h2.rep.trans h1.rep, h2.div.trans h1.div, h2.segment.trans h1.segment,
    h2.trMode.trans h1.trMode, h2.trValue.trans h1.trValue, h2.gainStmMode.trans h1.gainStmMode,
    h2.numFoci.trans h1.numFoci, fun x a1 a2 => (h2.regs x a1 a2).trans (h1.regs x a1 a2),
    h2.phaseCorr.trans h1.phaseCorr, h2.time.trans h1.time, h2.numTr.trans h1.numTr⟩
theorem KeepM.symm {a b : State} (h : KeepM a b) : KeepM b a :=
  ⟨h.mem0.symm, h.mem1.symm, h.swap.symm, h.cycle.symm, h.div.symm, h.rep.symm, h.segment.symm, h.trMode.symm,
    h.trValue.symm, fun x a1 a2 => (h.regs x a1 a2).symm, h.time.symm, h.numTr.symm⟩
theorem KeepS.symm {a b : State} (h : KeepS a b) : KeepS b a :=
  ⟨h.mem0.symm, h.mem1.symm, h.swap.symm, h.write.symm, h.cycle.symm, h.mode.symm, h.rep.symm, h.div.symm,
    h.segment.symm, h.trMode.symm, h.trValue.symm, h.gainStmMode.symm, h.numFoci.symm,
    fun x a1 a2 => (h.regs x a1 a2).symm, h.phaseCorr.symm, h.time.symm, h.numTr.symm⟩

/-- `Foot eraseMI TM` (what a whole Modulation send may do) keeps the STM side; `Foot eraseSI TS` the modulation side -/
theorem KeepS_of_footMI {s s' : State} (h : Foot eraseMI TM s s') : KeepS s s' := by
  have f : ∀ {α : Type} (p : State → α), p (eraseMI s') = p (eraseMI s) := fun p => congrArg p h.eq
  exact ⟨f State.stmMem0, f State.stmMem1, f State.stmSwap, f State.stmWrite, f State.stmCycle, f State.stmMode,
    f State.stmRep, f State.stmDiv, f State.stmSegment, f State.stmTrMode, f State.stmTrValue, f State.gainStmMode,
    f State.numFoci, fun a h1 h2 => h.regs a (by unfold TM; omega), f State.phaseCorr, f State.dcSysTime, f State.numTr⟩
theorem KeepM_of_footSI {s s' : State} (h : Foot eraseSI TS s s') : KeepM s s' := by
  have f : ∀ {α : Type} (p : State → α), p (eraseSI s') = p (eraseSI s) := fun p => congrArg p h.eq
  exact ⟨f State.modMem0, f State.modMem1, f State.modSwap, f State.modCycle, f State.modDiv, f State.modRep,
    f State.modSegment, f State.modTrMode, f State.modTrValue, fun a h1 h2 => h.regs a (by unfold TS; omega),
    f State.dcSysTime, f State.numTr⟩

end Autd3.Tuple2
