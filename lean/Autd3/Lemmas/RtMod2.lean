import Autd3.Lemmas.RtMod1
/-!
Modulation, part 2: bytes of the modulation BRAM, cursor bit arithmetic, the frame condition
`ModFrame`, and the closed form of the copy part of `write_mod` (`modDataPart_ok`, with the page split).
-/
open Autd3 Autd3.Fw Autd3.Wire Autd3.Gen.Cpu Autd3.Gen
namespace Autd3.Rt

theorem ext_rd (a b : Array Nat) (hs : a.size = b.size) (h : ∀ i, i < a.size → rd a i = rd b i) : a = b := by
  apply Array.ext hs
  intro i h1 h2
  have := h i h1
  rw [rd_of_lt h1, rd_of_lt h2] at this
  exact this

theorem setIfInBounds_self (a : Array Nat) (i v : Nat) (h : rd a i = v) : a.setIfInBounds i v = a := by
  apply ext_rd
  · simp
  · intro j _
    rw [rd_set]; split
    · next hj => rw [hj.1, h]
    · rfl

/-- writing the value a register already holds changes nothing -/
theorem wr_self (s : State) (a v : Nat) (h : reg s a = v % 65536) : wr s a v = s := by
  unfold wr
  rw [setIfInBounds_self _ _ _ h]

/-- byte `i` of a modulation BRAM (`modulation_at`) -/
def modByte (m : Array Nat) (i : Nat) : Nat :=
  if i % 2 = 0 then rd m (i / 2) % 256 else (rd m (i / 2) / 256) % 256

/-- page-local `bram_cpy` seen byte-wise: a copy of `len` words starting at the even cursor `c`
writes exactly the bytes `c … c + 2·len - 1` from the frame -/
theorem modByte_wrWords (m d : Array Nat) (c off len i : Nat) (hc : c % 2 = 0) (hm : c / 2 + len ≤ m.size) :
    modByte (wrWords m (c / 2) (wordsAt d off len)) i =
      if c ≤ i ∧ i < c + 2 * len then u8at d (off + (i - c)) else modByte m i := by
  have hsz : (wordsAt d off len).size = len := size_wordsAt _ _ _
  have hw : rd (wrWords m (c / 2) (wordsAt d off len)) (i / 2) =
      if c ≤ i ∧ i < c + 2 * len then u16at d (off + 2 * (i / 2 - c / 2)) else rd m (i / 2) := by
    rw [rd_wrWords, hsz]
    by_cases hin : c ≤ i ∧ i < c + 2 * len
    · rw [if_pos hin, if_pos (by omega), rd_wordsAt, if_pos (by omega), Nat.mod_eq_of_lt (u16at_lt _ _)]
    · rw [if_neg hin, if_neg (by omega)]
  unfold modByte
  rw [hw]
  by_cases hin : c ≤ i ∧ i < c + 2 * len
  · simp only [if_pos hin]
    have h1 := u8at_lt d (off + 2 * (i / 2 - c / 2))
    have h2 := u8at_lt d (off + 2 * (i / 2 - c / 2) + 1)
    unfold u16at
    by_cases h : i % 2 = 0
    · rw [if_pos h, show off + (i - c) = off + 2 * (i / 2 - c / 2) from by omega]; omega
    · rw [if_neg h, show off + (i - c) = off + 2 * (i / 2 - c / 2) + 1 from by omega]; omega
  · simp only [if_neg hin]

def setModCycle (s : State) (c : Nat) : State := { s with modCycle := c }
@[simp] theorem setModCycle_ack (s : State) (x : Nat) : (setModCycle s x).ack = s.ack := rfl
@[simp] theorem setModCycle_lastMsgId (s : State) (x : Nat) : (setModCycle s x).lastMsgId = s.lastMsgId := rfl
@[simp] theorem setModCycle_rxData (s : State) (x : Nat) : (setModCycle s x).rxData = s.rxData := rfl
@[simp] theorem setModCycle_readsFpgaState (s : State) (x : Nat) : (setModCycle s x).readsFpgaState = s.readsFpgaState := rfl
@[simp] theorem setModCycle_readsStore (s : State) (x : Nat) : (setModCycle s x).readsStore = s.readsStore := rfl
@[simp] theorem setModCycle_isRxDataUsed (s : State) (x : Nat) : (setModCycle s x).isRxDataUsed = s.isRxDataUsed := rfl
@[simp] theorem setModCycle_synchronized (s : State) (x : Nat) : (setModCycle s x).synchronized = s.synchronized := rfl
@[simp] theorem setModCycle_stmWrite (s : State) (x : Nat) : (setModCycle s x).stmWrite = s.stmWrite := rfl
@[simp] theorem setModCycle_stmCycle (s : State) (x : Nat) : (setModCycle s x).stmCycle = s.stmCycle := rfl
@[simp] theorem setModCycle_stmMode (s : State) (x : Nat) : (setModCycle s x).stmMode = s.stmMode := rfl
@[simp] theorem setModCycle_stmRep (s : State) (x : Nat) : (setModCycle s x).stmRep = s.stmRep := rfl
@[simp] theorem setModCycle_stmDiv (s : State) (x : Nat) : (setModCycle s x).stmDiv = s.stmDiv := rfl
@[simp] theorem setModCycle_modDiv (s : State) (x : Nat) : (setModCycle s x).modDiv = s.modDiv := rfl
@[simp] theorem setModCycle_modRep (s : State) (x : Nat) : (setModCycle s x).modRep = s.modRep := rfl
@[simp] theorem setModCycle_stmSegment (s : State) (x : Nat) : (setModCycle s x).stmSegment = s.stmSegment := rfl
@[simp] theorem setModCycle_modSegment (s : State) (x : Nat) : (setModCycle s x).modSegment = s.modSegment := rfl
@[simp] theorem setModCycle_stmTrMode (s : State) (x : Nat) : (setModCycle s x).stmTrMode = s.stmTrMode := rfl
@[simp] theorem setModCycle_stmTrValue (s : State) (x : Nat) : (setModCycle s x).stmTrValue = s.stmTrValue := rfl
@[simp] theorem setModCycle_modTrMode (s : State) (x : Nat) : (setModCycle s x).modTrMode = s.modTrMode := rfl
@[simp] theorem setModCycle_modTrValue (s : State) (x : Nat) : (setModCycle s x).modTrValue = s.modTrValue := rfl
@[simp] theorem setModCycle_gainStmMode (s : State) (x : Nat) : (setModCycle s x).gainStmMode = s.gainStmMode := rfl
@[simp] theorem setModCycle_numFoci (s : State) (x : Nat) : (setModCycle s x).numFoci = s.numFoci := rfl
@[simp] theorem setModCycle_strict (s : State) (x : Nat) : (setModCycle s x).strict = s.strict := rfl
@[simp] theorem setModCycle_minDivI (s : State) (x : Nat) : (setModCycle s x).minDivI = s.minDivI := rfl
@[simp] theorem setModCycle_minDivP (s : State) (x : Nat) : (setModCycle s x).minDivP = s.minDivP := rfl
@[simp] theorem setModCycle_flagsInternal (s : State) (x : Nat) : (setModCycle s x).flagsInternal = s.flagsInternal := rfl
@[simp] theorem setModCycle_portA (s : State) (x : Nat) : (setModCycle s x).portA = s.portA := rfl
@[simp] theorem setModCycle_dcSysTime (s : State) (x : Nat) : (setModCycle s x).dcSysTime = s.dcSysTime := rfl
@[simp] theorem setModCycle_numTr (s : State) (x : Nat) : (setModCycle s x).numTr = s.numTr := rfl
@[simp] theorem setModCycle_ctl (s : State) (x : Nat) : (setModCycle s x).ctl = s.ctl := rfl
@[simp] theorem setModCycle_phaseCorr (s : State) (x : Nat) : (setModCycle s x).phaseCorr = s.phaseCorr := rfl
@[simp] theorem setModCycle_pwe (s : State) (x : Nat) : (setModCycle s x).pwe = s.pwe := rfl
@[simp] theorem setModCycle_modMem0 (s : State) (x : Nat) : (setModCycle s x).modMem0 = s.modMem0 := rfl
@[simp] theorem setModCycle_modMem1 (s : State) (x : Nat) : (setModCycle s x).modMem1 = s.modMem1 := rfl
@[simp] theorem setModCycle_stmMem0 (s : State) (x : Nat) : (setModCycle s x).stmMem0 = s.stmMem0 := rfl
@[simp] theorem setModCycle_stmMem1 (s : State) (x : Nat) : (setModCycle s x).stmMem1 = s.stmMem1 := rfl
@[simp] theorem setModCycle_modSwap (s : State) (x : Nat) : (setModCycle s x).modSwap = s.modSwap := rfl
@[simp] theorem setModCycle_stmSwap (s : State) (x : Nat) : (setModCycle s x).stmSwap = s.stmSwap := rfl
@[simp] theorem setModCycle_modCycle (s : State) (x : Nat) : (setModCycle s x).modCycle = x := rfl
@[simp] theorem reg_setModCycle (s : State) (x a : Nat) : reg (setModCycle s x) a = reg s a := rfl

/-- `modDataPart` with the cursor updates written with `setModCycle` -/
theorem modDataPart_eq (s : State) (d : Array Nat) (off w : Nat) :
    modDataPart s d off w =
      if w < MOD_BUF_PAGE_SIZE - (s.modCycle % 65536 &&& MOD_BUF_PAGE_SIZE_MASK) then
        modWriteWords s ((s.modCycle % 65536 &&& MOD_BUF_PAGE_SIZE_MASK) >>> 1) (wordsAt d off ((w + 1) >>> 1)) >>= fun s1 =>
          .ok (setModCycle s1 (s1.modCycle + w))
      else
        modWriteWords s ((s.modCycle % 65536 &&& MOD_BUF_PAGE_SIZE_MASK) >>> 1)
          (wordsAt d off ((MOD_BUF_PAGE_SIZE - (s.modCycle % 65536 &&& MOD_BUF_PAGE_SIZE_MASK)) >>> 1)) >>= fun s1 =>
        ctlWrite (setModCycle s1 (s1.modCycle + (MOD_BUF_PAGE_SIZE - (s.modCycle % 65536 &&& MOD_BUF_PAGE_SIZE_MASK))))
          ADDR_MOD_MEM_WR_PAGE
          ((((s1.modCycle + (MOD_BUF_PAGE_SIZE - (s.modCycle % 65536 &&& MOD_BUF_PAGE_SIZE_MASK))) % 65536) &&&
            (65535 - MOD_BUF_PAGE_SIZE_MASK)) >>> MOD_BUF_PAGE_SIZE_WIDTH) >>= fun s2 =>
        modWriteWords s2 0 (wordsAt d (off + 2 * ((MOD_BUF_PAGE_SIZE - (s.modCycle % 65536 &&& MOD_BUF_PAGE_SIZE_MASK)) >>> 1))
          ((w - (MOD_BUF_PAGE_SIZE - (s.modCycle % 65536 &&& MOD_BUF_PAGE_SIZE_MASK)) + 1) >>> 1)) >>= fun s3 =>
        .ok (setModCycle s3 (s3.modCycle + (w - (MOD_BUF_PAGE_SIZE - (s.modCycle % 65536 &&& MOD_BUF_PAGE_SIZE_MASK))))) := by
  unfold modDataPart
  rfl

/-! ### bit arithmetic of the cursor -/

theorem and_mask15 (x : Nat) : x &&& MOD_BUF_PAGE_SIZE_MASK = x % 32768 := by
  rw [show MOD_BUF_PAGE_SIZE_MASK = 2 ^ 15 - 1 from rfl, Nat.and_two_pow_sub_one_eq_mod]

theorem page_bits (x : Nat) (hx : x < 65536) :
    (x &&& (65535 - MOD_BUF_PAGE_SIZE_MASK)) >>> MOD_BUF_PAGE_SIZE_WIDTH = x / 32768 := by
  rw [show 65535 - MOD_BUF_PAGE_SIZE_MASK = 2 ^ 15 from rfl, show MOD_BUF_PAGE_SIZE_WIDTH = 15 from rfl, and_two_pow',
    Nat.testBit_eq_decide_div_mod_eq, Nat.shiftRight_eq_div_pow]
  by_cases h : x / 2 ^ 15 % 2 = 1
  · simp only [h, decide_true, if_true]; simp only [Nat.reducePow] at *; omega
  · simp only [h, decide_false]; simp only [Nat.reducePow] at *; simp; omega

/-! ### frame condition: everything but the modulation memories, the registers and the cursor -/

def eraseMod (s : State) : State := { s with ctl := #[], modMem0 := #[], modMem1 := #[], modCycle := 0 }

/-- `s'` differs from `s` at most in `ctl`, `modMem0`, `modMem1`, `modCycle` -/
def ModFrame (s s' : State) : Prop := eraseMod s' = eraseMod s

theorem ModFrame.refl (s : State) : ModFrame s s := rfl
theorem ModFrame.trans {a b c : State} (h1 : ModFrame a b) (h2 : ModFrame b c) : ModFrame a c := by
  unfold ModFrame at *; rw [h2, h1]

theorem ModFrame_wr (s : State) (a v : Nat) : ModFrame s (wr s a v) := rfl
theorem ModFrame_setModCycle (s : State) (c : Nat) : ModFrame s (setModCycle s c) := rfl
theorem ModFrame_setModMem (s : State) (g : Nat) (m : Array Nat) : ModFrame s (setModMem s g m) := by
  unfold setModMem; split <;> rfl

theorem ModFrame.ack {s s' : State} (h : ModFrame s s') : s'.ack = s.ack :=
  show (eraseMod s').ack = (eraseMod s).ack from congrArg State.ack h
theorem ModFrame.lastMsgId {s s' : State} (h : ModFrame s s') : s'.lastMsgId = s.lastMsgId :=
  show (eraseMod s').lastMsgId = (eraseMod s).lastMsgId from congrArg State.lastMsgId h
theorem ModFrame.rxData {s s' : State} (h : ModFrame s s') : s'.rxData = s.rxData :=
  show (eraseMod s').rxData = (eraseMod s).rxData from congrArg State.rxData h
theorem ModFrame.readsFpgaState {s s' : State} (h : ModFrame s s') : s'.readsFpgaState = s.readsFpgaState :=
  show (eraseMod s').readsFpgaState = (eraseMod s).readsFpgaState from congrArg State.readsFpgaState h
theorem ModFrame.readsStore {s s' : State} (h : ModFrame s s') : s'.readsStore = s.readsStore :=
  show (eraseMod s').readsStore = (eraseMod s).readsStore from congrArg State.readsStore h
theorem ModFrame.isRxDataUsed {s s' : State} (h : ModFrame s s') : s'.isRxDataUsed = s.isRxDataUsed :=
  show (eraseMod s').isRxDataUsed = (eraseMod s).isRxDataUsed from congrArg State.isRxDataUsed h
theorem ModFrame.synchronized {s s' : State} (h : ModFrame s s') : s'.synchronized = s.synchronized :=
  show (eraseMod s').synchronized = (eraseMod s).synchronized from congrArg State.synchronized h
theorem ModFrame.stmWrite {s s' : State} (h : ModFrame s s') : s'.stmWrite = s.stmWrite :=
  show (eraseMod s').stmWrite = (eraseMod s).stmWrite from congrArg State.stmWrite h
theorem ModFrame.stmCycle {s s' : State} (h : ModFrame s s') : s'.stmCycle = s.stmCycle :=
  show (eraseMod s').stmCycle = (eraseMod s).stmCycle from congrArg State.stmCycle h
theorem ModFrame.stmMode {s s' : State} (h : ModFrame s s') : s'.stmMode = s.stmMode :=
  show (eraseMod s').stmMode = (eraseMod s).stmMode from congrArg State.stmMode h
theorem ModFrame.stmRep {s s' : State} (h : ModFrame s s') : s'.stmRep = s.stmRep :=
  show (eraseMod s').stmRep = (eraseMod s).stmRep from congrArg State.stmRep h
theorem ModFrame.stmDiv {s s' : State} (h : ModFrame s s') : s'.stmDiv = s.stmDiv :=
  show (eraseMod s').stmDiv = (eraseMod s).stmDiv from congrArg State.stmDiv h
theorem ModFrame.modDiv {s s' : State} (h : ModFrame s s') : s'.modDiv = s.modDiv :=
  show (eraseMod s').modDiv = (eraseMod s).modDiv from congrArg State.modDiv h
theorem ModFrame.modRep {s s' : State} (h : ModFrame s s') : s'.modRep = s.modRep :=
  show (eraseMod s').modRep = (eraseMod s).modRep from congrArg State.modRep h
theorem ModFrame.stmSegment {s s' : State} (h : ModFrame s s') : s'.stmSegment = s.stmSegment :=
  show (eraseMod s').stmSegment = (eraseMod s).stmSegment from congrArg State.stmSegment h
theorem ModFrame.modSegment {s s' : State} (h : ModFrame s s') : s'.modSegment = s.modSegment :=
  show (eraseMod s').modSegment = (eraseMod s).modSegment from congrArg State.modSegment h
theorem ModFrame.stmTrMode {s s' : State} (h : ModFrame s s') : s'.stmTrMode = s.stmTrMode :=
  show (eraseMod s').stmTrMode = (eraseMod s).stmTrMode from congrArg State.stmTrMode h
theorem ModFrame.stmTrValue {s s' : State} (h : ModFrame s s') : s'.stmTrValue = s.stmTrValue :=
  show (eraseMod s').stmTrValue = (eraseMod s).stmTrValue from congrArg State.stmTrValue h
theorem ModFrame.modTrMode {s s' : State} (h : ModFrame s s') : s'.modTrMode = s.modTrMode :=
  show (eraseMod s').modTrMode = (eraseMod s).modTrMode from congrArg State.modTrMode h
theorem ModFrame.modTrValue {s s' : State} (h : ModFrame s s') : s'.modTrValue = s.modTrValue :=
  show (eraseMod s').modTrValue = (eraseMod s).modTrValue from congrArg State.modTrValue h
theorem ModFrame.gainStmMode {s s' : State} (h : ModFrame s s') : s'.gainStmMode = s.gainStmMode :=
  show (eraseMod s').gainStmMode = (eraseMod s).gainStmMode from congrArg State.gainStmMode h
theorem ModFrame.numFoci {s s' : State} (h : ModFrame s s') : s'.numFoci = s.numFoci :=
  show (eraseMod s').numFoci = (eraseMod s).numFoci from congrArg State.numFoci h
theorem ModFrame.strict {s s' : State} (h : ModFrame s s') : s'.strict = s.strict :=
  show (eraseMod s').strict = (eraseMod s).strict from congrArg State.strict h
theorem ModFrame.minDivI {s s' : State} (h : ModFrame s s') : s'.minDivI = s.minDivI :=
  show (eraseMod s').minDivI = (eraseMod s).minDivI from congrArg State.minDivI h
theorem ModFrame.minDivP {s s' : State} (h : ModFrame s s') : s'.minDivP = s.minDivP :=
  show (eraseMod s').minDivP = (eraseMod s).minDivP from congrArg State.minDivP h
theorem ModFrame.flagsInternal {s s' : State} (h : ModFrame s s') : s'.flagsInternal = s.flagsInternal :=
  show (eraseMod s').flagsInternal = (eraseMod s).flagsInternal from congrArg State.flagsInternal h
theorem ModFrame.portA {s s' : State} (h : ModFrame s s') : s'.portA = s.portA :=
  show (eraseMod s').portA = (eraseMod s).portA from congrArg State.portA h
theorem ModFrame.dcSysTime {s s' : State} (h : ModFrame s s') : s'.dcSysTime = s.dcSysTime :=
  show (eraseMod s').dcSysTime = (eraseMod s).dcSysTime from congrArg State.dcSysTime h
theorem ModFrame.numTr {s s' : State} (h : ModFrame s s') : s'.numTr = s.numTr :=
  show (eraseMod s').numTr = (eraseMod s).numTr from congrArg State.numTr h
theorem ModFrame.phaseCorr {s s' : State} (h : ModFrame s s') : s'.phaseCorr = s.phaseCorr :=
  show (eraseMod s').phaseCorr = (eraseMod s).phaseCorr from congrArg State.phaseCorr h
theorem ModFrame.pwe {s s' : State} (h : ModFrame s s') : s'.pwe = s.pwe :=
  show (eraseMod s').pwe = (eraseMod s).pwe from congrArg State.pwe h
theorem ModFrame.stmMem0 {s s' : State} (h : ModFrame s s') : s'.stmMem0 = s.stmMem0 :=
  show (eraseMod s').stmMem0 = (eraseMod s).stmMem0 from congrArg State.stmMem0 h
theorem ModFrame.stmMem1 {s s' : State} (h : ModFrame s s') : s'.stmMem1 = s.stmMem1 :=
  show (eraseMod s').stmMem1 = (eraseMod s).stmMem1 from congrArg State.stmMem1 h
theorem ModFrame.modSwap {s s' : State} (h : ModFrame s s') : s'.modSwap = s.modSwap :=
  show (eraseMod s').modSwap = (eraseMod s).modSwap from congrArg State.modSwap h
theorem ModFrame.stmSwap {s s' : State} (h : ModFrame s s') : s'.stmSwap = s.stmSwap :=
  show (eraseMod s').stmSwap = (eraseMod s).stmSwap from congrArg State.stmSwap h

/-- `WF` across a modulation-only change -/
theorem WF_of_ModFrame {s s' : State} (hW : WF s) (hf : ModFrame s s') (hc : s'.ctl.size = 256)
    (h0 : s'.modMem0.size = 32768) (h1 : s'.modMem1.size = 32768)
    (hr : ∀ a, a ≠ ADDR_MOD_MEM_WR_PAGE → a ≠ ADDR_MOD_CYCLE0 → a ≠ ADDR_MOD_CYCLE1 → reg s' a = reg s a) : WF s' := by
  refine ⟨hc, by rw [hf.phaseCorr]; exact hW.phaseCorr, by rw [hf.pwe]; exact hW.pwe, h0, h1,
    by rw [hf.stmMem0]; exact hW.stmMem0, by rw [hf.stmMem1]; exact hW.stmMem1, by rw [hf.numTr]; exact hW.numTr,
    by rw [hf.flagsInternal]; exact hW.flags, by rw [hf.modSwap]; exact hW.modSwap, by rw [hf.stmSwap]; exact hW.stmSwap,
    ?_, ?_, ?_, ?_⟩
  · rw [hr _ (by decide) (by decide) (by decide)]; exact hW.modDiv0
  · rw [hr _ (by decide) (by decide) (by decide)]; exact hW.modDiv1
  · rw [hr _ (by decide) (by decide) (by decide)]; exact hW.stmDiv0
  · rw [hr _ (by decide) (by decide) (by decide)]; exact hW.stmDiv1

end Autd3.Rt
