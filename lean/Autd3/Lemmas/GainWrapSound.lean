import Autd3.Lemmas.GainWrapLoop
namespace Autd3.GainWrap

/-- the row of drives a device gets from `den` -/
def denRow (den : Nat → Nat → Drive) (d : Dev) : List Drive := (List.range d.numTr).map (den d.idx)

/-- a cache store that holds, for exactly the enabled devices of `geo`, the rows of `den` -/
structure ValidStore (geo : Geo) (den : Nat → Nat → Drive) (store : List (Nat × List Drive)) : Prop where
  len : store.length = geo.devices.length
  rows : ∀ d ∈ geo.devices, store.lookup d.idx = some (denRow den d)

/-- state invariant outside the caches in `X`: a cache whose gain has been taken holds the rows of
its denotation `ρ id` for the enabled devices of `geo`; an untouched cache is empty -/
def Inv (ρ : Nat → Nat → Nat → Drive) (geo : Geo) (X : Nat → Prop) (σ : St) : Prop :=
  ∀ id, ¬ X id →
    ((σ.caches id).taken = true → ValidStore geo (ρ id) (σ.caches id).store) ∧
    ((σ.caches id).taken = false → (σ.caches id).store = [])

/-- every enabled device gets a calculator, and it computes `den` wherever `P` holds -/
def GoodGen (geo : Geo) (gen : Gen) (P : Nat → Nat → Prop) (den : Nat → Nat → Drive) : Prop :=
  ∀ d ∈ geo.devices, ∃ c, gen d = .ok c ∧ ∀ t, t < d.numTr → P d.idx t → c t = .ok (den d.idx t)

/-- `i` behaves like a gain whose drives are `den`: from every good state, for every filter, it
succeeds, keeps the state good, leaves the caches in `X` alone, and its calculators give `den`
inside the filter (`strict`: everywhere). -/
def Sound (ρ : Nat → Nat → Nat → Drive) (geo : Geo) (X : Nat → Prop) (strict : Bool) (i : InitFn)
    (den : Nat → Nat → Drive) : Prop :=
  ∀ filter par σ, Inv ρ geo X σ →
    ∃ gen σ', i geo filter par σ = (.ok gen, σ') ∧ Inv ρ geo X σ' ∧
      (∀ id, X id → σ'.caches id = σ.caches id) ∧
      GoodGen geo gen (fun d t => strict = true ∨ inFilt filter d t = true) den

theorem Sound.weaken {ρ geo X i den} (h : Sound ρ geo X true i den) : Sound ρ geo X false i den := by
  intro filter par σ hI
  obtain ⟨gen, σ', h1, h2, h3, h4⟩ := h filter par σ hI
  refine ⟨gen, σ', h1, h2, h3, ?_⟩
  intro d hd
  obtain ⟨c, hc, hg⟩ := h4 d hd
  exact ⟨c, hc, fun t ht _ => hg t ht (Or.inl rfl)⟩

/-- a leaf that computes `f` inside whatever filter it is given -/
def Faithful (l : LeafGain) (geo : Geo) : Prop :=
  ∀ filter par, ∃ gen, l.impl geo filter par = .ok gen ∧ GoodGen geo gen (fun d t => inFilt filter d t = true) l.f

/-- a leaf that computes `f` everywhere, whatever the filter -/
def Total (l : LeafGain) (geo : Geo) : Prop :=
  ∀ filter par, ∃ gen, l.impl geo filter par = .ok gen ∧ GoodGen geo gen (fun _ _ => True) l.f

theorem Total.faithful {l geo} (h : Total l geo) : Faithful l geo := by
  intro filter par
  obtain ⟨gen, h1, h2⟩ := h filter par
  refine ⟨gen, h1, ?_⟩
  intro d hd
  obtain ⟨c, hc, hg⟩ := h2 d hd
  exact ⟨c, hc, fun t ht _ => hg t ht trivial⟩

theorem Inv.log {ρ geo X σ} (h : Inv ρ geo X σ) (lg) : Inv ρ geo X { σ with log := lg } := h

theorem leaf_sound {ρ geo X} (l : LeafGain) (strict : Bool)
    (h : if strict then Total l geo else Faithful l geo) : Sound ρ geo X strict (leafInit l) l.f := by
  intro filter par σ hI
  unfold leafInit
  cases strict with
  | true =>
    simp only [if_true] at h
    obtain ⟨gen, h1, h2⟩ := h filter par
    refine ⟨gen, _, by rw [h1], ?_, ?_, ?_⟩
    · cases l.tag <;> exact hI
    · intro id _; cases l.tag <;> rfl
    · intro d hd
      obtain ⟨c, hc, hg⟩ := h2 d hd
      exact ⟨c, hc, fun t ht _ => hg t ht trivial⟩
  | false =>
    simp only [Bool.false_eq_true, if_false] at h
    obtain ⟨gen, h1, h2⟩ := h filter par
    refine ⟨gen, _, by rw [h1], ?_, ?_, ?_⟩
    · cases l.tag <;> exact hI
    · intro id _; cases l.tag <;> rfl
    · intro d hd
      obtain ⟨c, hc, hg⟩ := h2 d hd
      refine ⟨c, hc, fun t ht hp => hg t ht ?_⟩
      rcases hp with hp | hp
      · cases hp
      · exact hp

theorem boxed_sound {ρ geo X strict i den} (h : Sound ρ geo X strict i den) :
    Sound ρ geo X strict (boxedInit i) den := by
  intro filter par σ hI
  obtain ⟨gen, σ', h1, h2, h3, h4⟩ := h filter par σ hI
  unfold boxedInit
  rw [h1]
  refine ⟨_, σ', rfl, h2, h3, ?_⟩
  intro d hd
  obtain ⟨c, hc, hg⟩ := h4 d hd
  exact ⟨fun t => c t, by simp [boxGen, hc], hg⟩

theorem vecCalc_denRow (den : Nat → Nat → Drive) (d : Dev) (t : Nat) (ht : t < d.numTr) :
    vecCalc (denRow den d) t = .ok (den d.idx t) := by
  unfold vecCalc denRow
  rw [List.getElem?_map, List.getElem?_range ht]
  rfl


theorem denRow_congr {den den' : Nat → Nat → Drive} (d : Dev)
    (h : ∀ t, t < d.numTr → den' d.idx t = den d.idx t) : denRow den' d = denRow den d := by
  unfold denRow
  apply List.map_congr_left
  intro t ht
  exact h t (List.mem_range.mp ht)

theorem ValidStore.noMismatch {geo den store} (h : ValidStore geo den store) :
    cacheMismatch store geo = false := by
  unfold cacheMismatch
  have h1 : (store.length != geo.devices.length) = false := by simp [h.len]
  have h2 : (geo.devices.any fun dev => !hasKey store dev.idx) = false := by
    rw [List.any_eq_false]
    intro d hd
    rw [hasKey_iff_lookup, h.rows d hd]; simp
  simp [h1, h2]

theorem ValidStore.goodGen {geo den den' store} (h : ValidStore geo den' store) (P : Nat → Nat → Prop)
    (hd : ∀ d ∈ geo.devices, ∀ t, t < d.numTr → den' d.idx t = den d.idx t) :
    GoodGen geo (cacheGen store) P den := by
  intro d hdm
  refine ⟨vecCalc (denRow den' d), by simp [cacheGen, h.rows d hdm], ?_⟩
  intro t ht _
  rw [vecCalc_denRow _ _ _ ht, hd d hdm t ht]

theorem validStore_of_map {geo : Geo} (hw : geo.WF) (den : Nat → Nat → Drive) :
    ValidStore geo den (geo.devices.map fun d => (d.idx, denRow den d)) := by
  refine ⟨by simp, ?_⟩
  intro d hd
  exact lookup_map_of_mem (·.idx) (denRow den) geo.devices d hd (Geo.devices_idx_nodup hw)

theorem cache_sound {ρ geo X i den} (id : Nat) (hw : geo.WF) (hx : ¬ X id)
    (hρ : ∀ d ∈ geo.devices, ∀ t, t < d.numTr → ρ id d.idx t = den d.idx t)
    (hi : Sound ρ geo (fun j => X j ∨ j = id) true i den) :
    Sound ρ geo X true (cacheInit id i) den := by
  intro filter par σ hI
  unfold cacheInit
  cases ht : (σ.caches id).taken with
  | true =>
    have hv := (hI id hx).1 ht
    simp only [ht, if_true, hv.noMismatch, Bool.false_eq_true, if_false]
    exact ⟨_, σ, rfl, hI, fun _ _ => rfl, hv.goodGen _ hρ⟩
  | false =>
    have hs := (hI id hx).2 ht
    simp only [ht, Bool.false_eq_true, if_false]
    generalize hσ0 : σ.setCache id { taken := true, store := (σ.caches id).store } = σ0
    have hσ0j : ∀ j, j ≠ id → σ0.caches j = σ.caches j := by
      intro j hne; subst hσ0; simp [St.setCache, hne]
    have hσ0id : σ0.caches id = { taken := true, store := [] } := by
      subst hσ0; simp [St.setCache, hs]
    have hI0 : Inv ρ geo (fun j => X j ∨ j = id) σ0 := by
      intro j hj
      have hne : j ≠ id := fun e => hj (Or.inr e)
      rw [hσ0j j hne]; exact hI j (fun h => hj (Or.inl h))
    obtain ⟨gen, σ', h1, h2, h3, h4⟩ := hi filter par σ0 hI0
    rw [h1]
    simp only []
    have hid : σ'.caches id = { taken := true, store := [] } := by
      rw [h3 id (Or.inr rfl)]; exact hσ0id
    generalize hS : (geo.devices.map fun d => (d.idx, denRow den d)) = S
    have hfill : cacheFill gen geo.devices (σ'.caches id).store = .ok S := by
      rw [hid]
      have := cacheFill_fresh gen (denRow den) geo.devices [] (Geo.devices_idx_nodup hw)
        (fun d hd => by
          obtain ⟨c, hc, hg⟩ := h4 d hd
          refine ⟨c, hc, ?_⟩
          apply mapE_ok_of_forall (den d.idx)
          intro t ht'
          exact hg t (List.mem_range.mp ht') (Or.inl rfl))
        (fun d _ => by simp [hasKey])
      simpa [hS] using this
    rw [hfill]
    simp only []
    have hv : ValidStore geo den S := hS ▸ validStore_of_map hw den
    generalize hσ2 : σ'.setCache id { taken := (σ'.caches id).taken, store := S } = σ2
    have hσ2j : ∀ j, j ≠ id → σ2.caches j = σ'.caches j := by
      intro j hne; subst hσ2; simp [St.setCache, hne]
    have hσ2id : σ2.caches id = { taken := true, store := S } := by
      subst hσ2; simp [St.setCache, hid]
    rw [hσ2id]
    simp only [hv.noMismatch, Bool.false_eq_true, if_false]
    refine ⟨_, _, rfl, ?_, ?_, hv.goodGen _ (fun _ _ _ _ => rfl)⟩
    · intro j hj
      by_cases e : j = id
      · subst e
        rw [hσ2id]
        refine ⟨fun _ => ?_, fun h => by simp at h⟩
        refine ⟨hv.len, ?_⟩
        intro d hd
        rw [hv.rows d hd, denRow_congr d (hρ d hd)]
      · rw [hσ2j j e]; exact h2 j (fun h => h.elim hj e)
    · intro j hj
      have e : j ≠ id := fun e => hx (e ▸ hj)
      rw [hσ2j j e, h3 j (Or.inl hj), hσ0j j e]

end Autd3.GainWrap
