import Autd3.Lemmas.RtBulk
/-!
Round-trip infrastructure, part 3: register writes (`wr`), the well-formedness invariant `WF`,
dispatch of `handle_payload` per tag, `Tx.frame` indexing, `read_fpga_state`, `set_and_wait_update`,
and the frame-level lemma for `ecat_recv` on a single-slot frame.  Core Lean only.
-/
namespace Autd3.Rt
open Autd3.Fw Autd3.Wire Autd3.Gen.Cpu Autd3.Gen

@[simp] theorem ok_bind {α β : Type} (a : α) (f : α → M β) : (Except.ok a >>= f) = f a := rfl
@[simp] theorem pure_eq_ok {α : Type} (a : α) : (pure a : M α) = Except.ok a := rfl

/-! ### `wr`, `setModMem`, `setStmMem`: projections -/

@[simp] theorem wr_ack (s : State) (a v : Nat) : (wr s a v).ack = s.ack := rfl
@[simp] theorem wr_lastMsgId (s : State) (a v : Nat) : (wr s a v).lastMsgId = s.lastMsgId := rfl
@[simp] theorem wr_rxData (s : State) (a v : Nat) : (wr s a v).rxData = s.rxData := rfl
@[simp] theorem wr_readsFpgaState (s : State) (a v : Nat) : (wr s a v).readsFpgaState = s.readsFpgaState := rfl
@[simp] theorem wr_readsStore (s : State) (a v : Nat) : (wr s a v).readsStore = s.readsStore := rfl
@[simp] theorem wr_isRxDataUsed (s : State) (a v : Nat) : (wr s a v).isRxDataUsed = s.isRxDataUsed := rfl
@[simp] theorem wr_synchronized (s : State) (a v : Nat) : (wr s a v).synchronized = s.synchronized := rfl
@[simp] theorem wr_modCycle (s : State) (a v : Nat) : (wr s a v).modCycle = s.modCycle := rfl
@[simp] theorem wr_stmWrite (s : State) (a v : Nat) : (wr s a v).stmWrite = s.stmWrite := rfl
@[simp] theorem wr_stmCycle (s : State) (a v : Nat) : (wr s a v).stmCycle = s.stmCycle := rfl
@[simp] theorem wr_stmMode (s : State) (a v : Nat) : (wr s a v).stmMode = s.stmMode := rfl
@[simp] theorem wr_stmRep (s : State) (a v : Nat) : (wr s a v).stmRep = s.stmRep := rfl
@[simp] theorem wr_stmDiv (s : State) (a v : Nat) : (wr s a v).stmDiv = s.stmDiv := rfl
@[simp] theorem wr_modDiv (s : State) (a v : Nat) : (wr s a v).modDiv = s.modDiv := rfl
@[simp] theorem wr_modRep (s : State) (a v : Nat) : (wr s a v).modRep = s.modRep := rfl
@[simp] theorem wr_stmSegment (s : State) (a v : Nat) : (wr s a v).stmSegment = s.stmSegment := rfl
@[simp] theorem wr_modSegment (s : State) (a v : Nat) : (wr s a v).modSegment = s.modSegment := rfl
@[simp] theorem wr_stmTrMode (s : State) (a v : Nat) : (wr s a v).stmTrMode = s.stmTrMode := rfl
@[simp] theorem wr_stmTrValue (s : State) (a v : Nat) : (wr s a v).stmTrValue = s.stmTrValue := rfl
@[simp] theorem wr_modTrMode (s : State) (a v : Nat) : (wr s a v).modTrMode = s.modTrMode := rfl
@[simp] theorem wr_modTrValue (s : State) (a v : Nat) : (wr s a v).modTrValue = s.modTrValue := rfl
@[simp] theorem wr_gainStmMode (s : State) (a v : Nat) : (wr s a v).gainStmMode = s.gainStmMode := rfl
@[simp] theorem wr_numFoci (s : State) (a v : Nat) : (wr s a v).numFoci = s.numFoci := rfl
@[simp] theorem wr_strict (s : State) (a v : Nat) : (wr s a v).strict = s.strict := rfl
@[simp] theorem wr_minDivI (s : State) (a v : Nat) : (wr s a v).minDivI = s.minDivI := rfl
@[simp] theorem wr_minDivP (s : State) (a v : Nat) : (wr s a v).minDivP = s.minDivP := rfl
@[simp] theorem wr_flagsInternal (s : State) (a v : Nat) : (wr s a v).flagsInternal = s.flagsInternal := rfl
@[simp] theorem wr_portA (s : State) (a v : Nat) : (wr s a v).portA = s.portA := rfl
@[simp] theorem wr_dcSysTime (s : State) (a v : Nat) : (wr s a v).dcSysTime = s.dcSysTime := rfl
@[simp] theorem wr_numTr (s : State) (a v : Nat) : (wr s a v).numTr = s.numTr := rfl
@[simp] theorem wr_phaseCorr (s : State) (a v : Nat) : (wr s a v).phaseCorr = s.phaseCorr := rfl
@[simp] theorem wr_pwe (s : State) (a v : Nat) : (wr s a v).pwe = s.pwe := rfl
@[simp] theorem wr_modMem0 (s : State) (a v : Nat) : (wr s a v).modMem0 = s.modMem0 := rfl
@[simp] theorem wr_modMem1 (s : State) (a v : Nat) : (wr s a v).modMem1 = s.modMem1 := rfl
@[simp] theorem wr_stmMem0 (s : State) (a v : Nat) : (wr s a v).stmMem0 = s.stmMem0 := rfl
@[simp] theorem wr_stmMem1 (s : State) (a v : Nat) : (wr s a v).stmMem1 = s.stmMem1 := rfl
@[simp] theorem wr_modSwap (s : State) (a v : Nat) : (wr s a v).modSwap = s.modSwap := rfl
@[simp] theorem wr_stmSwap (s : State) (a v : Nat) : (wr s a v).stmSwap = s.stmSwap := rfl
@[simp] theorem wr_ctl (s : State) (a v : Nat) : (wr s a v).ctl = s.ctl.setIfInBounds a (v % 65536) := rfl

@[simp] theorem setModMem_ack (s : State) (g : Nat) (m : Array Nat) : (setModMem s g m).ack = s.ack := by
  unfold setModMem; split <;> rfl
@[simp] theorem setModMem_lastMsgId (s : State) (g : Nat) (m : Array Nat) : (setModMem s g m).lastMsgId = s.lastMsgId := by
  unfold setModMem; split <;> rfl
@[simp] theorem setModMem_rxData (s : State) (g : Nat) (m : Array Nat) : (setModMem s g m).rxData = s.rxData := by
  unfold setModMem; split <;> rfl
@[simp] theorem setModMem_readsFpgaState (s : State) (g : Nat) (m : Array Nat) : (setModMem s g m).readsFpgaState = s.readsFpgaState := by
  unfold setModMem; split <;> rfl
@[simp] theorem setModMem_readsStore (s : State) (g : Nat) (m : Array Nat) : (setModMem s g m).readsStore = s.readsStore := by
  unfold setModMem; split <;> rfl
@[simp] theorem setModMem_isRxDataUsed (s : State) (g : Nat) (m : Array Nat) : (setModMem s g m).isRxDataUsed = s.isRxDataUsed := by
  unfold setModMem; split <;> rfl
@[simp] theorem setModMem_synchronized (s : State) (g : Nat) (m : Array Nat) : (setModMem s g m).synchronized = s.synchronized := by
  unfold setModMem; split <;> rfl
@[simp] theorem setModMem_modCycle (s : State) (g : Nat) (m : Array Nat) : (setModMem s g m).modCycle = s.modCycle := by
  unfold setModMem; split <;> rfl
@[simp] theorem setModMem_stmWrite (s : State) (g : Nat) (m : Array Nat) : (setModMem s g m).stmWrite = s.stmWrite := by
  unfold setModMem; split <;> rfl
@[simp] theorem setModMem_stmCycle (s : State) (g : Nat) (m : Array Nat) : (setModMem s g m).stmCycle = s.stmCycle := by
  unfold setModMem; split <;> rfl
@[simp] theorem setModMem_stmMode (s : State) (g : Nat) (m : Array Nat) : (setModMem s g m).stmMode = s.stmMode := by
  unfold setModMem; split <;> rfl
@[simp] theorem setModMem_stmRep (s : State) (g : Nat) (m : Array Nat) : (setModMem s g m).stmRep = s.stmRep := by
  unfold setModMem; split <;> rfl
@[simp] theorem setModMem_stmDiv (s : State) (g : Nat) (m : Array Nat) : (setModMem s g m).stmDiv = s.stmDiv := by
  unfold setModMem; split <;> rfl
@[simp] theorem setModMem_modDiv (s : State) (g : Nat) (m : Array Nat) : (setModMem s g m).modDiv = s.modDiv := by
  unfold setModMem; split <;> rfl
@[simp] theorem setModMem_modRep (s : State) (g : Nat) (m : Array Nat) : (setModMem s g m).modRep = s.modRep := by
  unfold setModMem; split <;> rfl
@[simp] theorem setModMem_stmSegment (s : State) (g : Nat) (m : Array Nat) : (setModMem s g m).stmSegment = s.stmSegment := by
  unfold setModMem; split <;> rfl
@[simp] theorem setModMem_modSegment (s : State) (g : Nat) (m : Array Nat) : (setModMem s g m).modSegment = s.modSegment := by
  unfold setModMem; split <;> rfl
@[simp] theorem setModMem_stmTrMode (s : State) (g : Nat) (m : Array Nat) : (setModMem s g m).stmTrMode = s.stmTrMode := by
  unfold setModMem; split <;> rfl
@[simp] theorem setModMem_stmTrValue (s : State) (g : Nat) (m : Array Nat) : (setModMem s g m).stmTrValue = s.stmTrValue := by
  unfold setModMem; split <;> rfl
@[simp] theorem setModMem_modTrMode (s : State) (g : Nat) (m : Array Nat) : (setModMem s g m).modTrMode = s.modTrMode := by
  unfold setModMem; split <;> rfl
@[simp] theorem setModMem_modTrValue (s : State) (g : Nat) (m : Array Nat) : (setModMem s g m).modTrValue = s.modTrValue := by
  unfold setModMem; split <;> rfl
@[simp] theorem setModMem_gainStmMode (s : State) (g : Nat) (m : Array Nat) : (setModMem s g m).gainStmMode = s.gainStmMode := by
  unfold setModMem; split <;> rfl
@[simp] theorem setModMem_numFoci (s : State) (g : Nat) (m : Array Nat) : (setModMem s g m).numFoci = s.numFoci := by
  unfold setModMem; split <;> rfl
@[simp] theorem setModMem_strict (s : State) (g : Nat) (m : Array Nat) : (setModMem s g m).strict = s.strict := by
  unfold setModMem; split <;> rfl
@[simp] theorem setModMem_minDivI (s : State) (g : Nat) (m : Array Nat) : (setModMem s g m).minDivI = s.minDivI := by
  unfold setModMem; split <;> rfl
@[simp] theorem setModMem_minDivP (s : State) (g : Nat) (m : Array Nat) : (setModMem s g m).minDivP = s.minDivP := by
  unfold setModMem; split <;> rfl
@[simp] theorem setModMem_flagsInternal (s : State) (g : Nat) (m : Array Nat) : (setModMem s g m).flagsInternal = s.flagsInternal := by
  unfold setModMem; split <;> rfl
@[simp] theorem setModMem_portA (s : State) (g : Nat) (m : Array Nat) : (setModMem s g m).portA = s.portA := by
  unfold setModMem; split <;> rfl
@[simp] theorem setModMem_dcSysTime (s : State) (g : Nat) (m : Array Nat) : (setModMem s g m).dcSysTime = s.dcSysTime := by
  unfold setModMem; split <;> rfl
@[simp] theorem setModMem_numTr (s : State) (g : Nat) (m : Array Nat) : (setModMem s g m).numTr = s.numTr := by
  unfold setModMem; split <;> rfl
@[simp] theorem setModMem_ctl (s : State) (g : Nat) (m : Array Nat) : (setModMem s g m).ctl = s.ctl := by
  unfold setModMem; split <;> rfl
@[simp] theorem setModMem_phaseCorr (s : State) (g : Nat) (m : Array Nat) : (setModMem s g m).phaseCorr = s.phaseCorr := by
  unfold setModMem; split <;> rfl
@[simp] theorem setModMem_pwe (s : State) (g : Nat) (m : Array Nat) : (setModMem s g m).pwe = s.pwe := by
  unfold setModMem; split <;> rfl
@[simp] theorem setModMem_stmMem0 (s : State) (g : Nat) (m : Array Nat) : (setModMem s g m).stmMem0 = s.stmMem0 := by
  unfold setModMem; split <;> rfl
@[simp] theorem setModMem_stmMem1 (s : State) (g : Nat) (m : Array Nat) : (setModMem s g m).stmMem1 = s.stmMem1 := by
  unfold setModMem; split <;> rfl
@[simp] theorem setModMem_modSwap (s : State) (g : Nat) (m : Array Nat) : (setModMem s g m).modSwap = s.modSwap := by
  unfold setModMem; split <;> rfl
@[simp] theorem setModMem_stmSwap (s : State) (g : Nat) (m : Array Nat) : (setModMem s g m).stmSwap = s.stmSwap := by
  unfold setModMem; split <;> rfl
@[simp] theorem setStmMem_ack (s : State) (g : Nat) (m : Array Nat) : (setStmMem s g m).ack = s.ack := by
  unfold setStmMem; split <;> rfl
@[simp] theorem setStmMem_lastMsgId (s : State) (g : Nat) (m : Array Nat) : (setStmMem s g m).lastMsgId = s.lastMsgId := by
  unfold setStmMem; split <;> rfl
@[simp] theorem setStmMem_rxData (s : State) (g : Nat) (m : Array Nat) : (setStmMem s g m).rxData = s.rxData := by
  unfold setStmMem; split <;> rfl
@[simp] theorem setStmMem_readsFpgaState (s : State) (g : Nat) (m : Array Nat) : (setStmMem s g m).readsFpgaState = s.readsFpgaState := by
  unfold setStmMem; split <;> rfl
@[simp] theorem setStmMem_readsStore (s : State) (g : Nat) (m : Array Nat) : (setStmMem s g m).readsStore = s.readsStore := by
  unfold setStmMem; split <;> rfl
@[simp] theorem setStmMem_isRxDataUsed (s : State) (g : Nat) (m : Array Nat) : (setStmMem s g m).isRxDataUsed = s.isRxDataUsed := by
  unfold setStmMem; split <;> rfl
@[simp] theorem setStmMem_synchronized (s : State) (g : Nat) (m : Array Nat) : (setStmMem s g m).synchronized = s.synchronized := by
  unfold setStmMem; split <;> rfl
@[simp] theorem setStmMem_modCycle (s : State) (g : Nat) (m : Array Nat) : (setStmMem s g m).modCycle = s.modCycle := by
  unfold setStmMem; split <;> rfl
@[simp] theorem setStmMem_stmWrite (s : State) (g : Nat) (m : Array Nat) : (setStmMem s g m).stmWrite = s.stmWrite := by
  unfold setStmMem; split <;> rfl
@[simp] theorem setStmMem_stmCycle (s : State) (g : Nat) (m : Array Nat) : (setStmMem s g m).stmCycle = s.stmCycle := by
  unfold setStmMem; split <;> rfl
@[simp] theorem setStmMem_stmMode (s : State) (g : Nat) (m : Array Nat) : (setStmMem s g m).stmMode = s.stmMode := by
  unfold setStmMem; split <;> rfl
@[simp] theorem setStmMem_stmRep (s : State) (g : Nat) (m : Array Nat) : (setStmMem s g m).stmRep = s.stmRep := by
  unfold setStmMem; split <;> rfl
@[simp] theorem setStmMem_stmDiv (s : State) (g : Nat) (m : Array Nat) : (setStmMem s g m).stmDiv = s.stmDiv := by
  unfold setStmMem; split <;> rfl
@[simp] theorem setStmMem_modDiv (s : State) (g : Nat) (m : Array Nat) : (setStmMem s g m).modDiv = s.modDiv := by
  unfold setStmMem; split <;> rfl
@[simp] theorem setStmMem_modRep (s : State) (g : Nat) (m : Array Nat) : (setStmMem s g m).modRep = s.modRep := by
  unfold setStmMem; split <;> rfl
@[simp] theorem setStmMem_stmSegment (s : State) (g : Nat) (m : Array Nat) : (setStmMem s g m).stmSegment = s.stmSegment := by
  unfold setStmMem; split <;> rfl
@[simp] theorem setStmMem_modSegment (s : State) (g : Nat) (m : Array Nat) : (setStmMem s g m).modSegment = s.modSegment := by
  unfold setStmMem; split <;> rfl
@[simp] theorem setStmMem_stmTrMode (s : State) (g : Nat) (m : Array Nat) : (setStmMem s g m).stmTrMode = s.stmTrMode := by
  unfold setStmMem; split <;> rfl
@[simp] theorem setStmMem_stmTrValue (s : State) (g : Nat) (m : Array Nat) : (setStmMem s g m).stmTrValue = s.stmTrValue := by
  unfold setStmMem; split <;> rfl
@[simp] theorem setStmMem_modTrMode (s : State) (g : Nat) (m : Array Nat) : (setStmMem s g m).modTrMode = s.modTrMode := by
  unfold setStmMem; split <;> rfl
@[simp] theorem setStmMem_modTrValue (s : State) (g : Nat) (m : Array Nat) : (setStmMem s g m).modTrValue = s.modTrValue := by
  unfold setStmMem; split <;> rfl
@[simp] theorem setStmMem_gainStmMode (s : State) (g : Nat) (m : Array Nat) : (setStmMem s g m).gainStmMode = s.gainStmMode := by
  unfold setStmMem; split <;> rfl
@[simp] theorem setStmMem_numFoci (s : State) (g : Nat) (m : Array Nat) : (setStmMem s g m).numFoci = s.numFoci := by
  unfold setStmMem; split <;> rfl
@[simp] theorem setStmMem_strict (s : State) (g : Nat) (m : Array Nat) : (setStmMem s g m).strict = s.strict := by
  unfold setStmMem; split <;> rfl
@[simp] theorem setStmMem_minDivI (s : State) (g : Nat) (m : Array Nat) : (setStmMem s g m).minDivI = s.minDivI := by
  unfold setStmMem; split <;> rfl
@[simp] theorem setStmMem_minDivP (s : State) (g : Nat) (m : Array Nat) : (setStmMem s g m).minDivP = s.minDivP := by
  unfold setStmMem; split <;> rfl
@[simp] theorem setStmMem_flagsInternal (s : State) (g : Nat) (m : Array Nat) : (setStmMem s g m).flagsInternal = s.flagsInternal := by
  unfold setStmMem; split <;> rfl
@[simp] theorem setStmMem_portA (s : State) (g : Nat) (m : Array Nat) : (setStmMem s g m).portA = s.portA := by
  unfold setStmMem; split <;> rfl
@[simp] theorem setStmMem_dcSysTime (s : State) (g : Nat) (m : Array Nat) : (setStmMem s g m).dcSysTime = s.dcSysTime := by
  unfold setStmMem; split <;> rfl
@[simp] theorem setStmMem_numTr (s : State) (g : Nat) (m : Array Nat) : (setStmMem s g m).numTr = s.numTr := by
  unfold setStmMem; split <;> rfl
@[simp] theorem setStmMem_ctl (s : State) (g : Nat) (m : Array Nat) : (setStmMem s g m).ctl = s.ctl := by
  unfold setStmMem; split <;> rfl
@[simp] theorem setStmMem_phaseCorr (s : State) (g : Nat) (m : Array Nat) : (setStmMem s g m).phaseCorr = s.phaseCorr := by
  unfold setStmMem; split <;> rfl
@[simp] theorem setStmMem_pwe (s : State) (g : Nat) (m : Array Nat) : (setStmMem s g m).pwe = s.pwe := by
  unfold setStmMem; split <;> rfl
@[simp] theorem setStmMem_modMem0 (s : State) (g : Nat) (m : Array Nat) : (setStmMem s g m).modMem0 = s.modMem0 := by
  unfold setStmMem; split <;> rfl
@[simp] theorem setStmMem_modMem1 (s : State) (g : Nat) (m : Array Nat) : (setStmMem s g m).modMem1 = s.modMem1 := by
  unfold setStmMem; split <;> rfl
@[simp] theorem setStmMem_modSwap (s : State) (g : Nat) (m : Array Nat) : (setStmMem s g m).modSwap = s.modSwap := by
  unfold setStmMem; split <;> rfl
@[simp] theorem setStmMem_stmSwap (s : State) (g : Nat) (m : Array Nat) : (setStmMem s g m).stmSwap = s.stmSwap := by
  unfold setStmMem; split <;> rfl

@[simp] theorem setModMem_zero (s : State) (m : Array Nat) : setModMem s 0 m = { s with modMem0 := m } := rfl
@[simp] theorem setModMem_one (s : State) (m : Array Nat) : setModMem s 1 m = { s with modMem1 := m } := rfl
@[simp] theorem setStmMem_zero (s : State) (m : Array Nat) : setStmMem s 0 m = { s with stmMem0 := m } := rfl
@[simp] theorem setStmMem_one (s : State) (m : Array Nat) : setStmMem s 1 m = { s with stmMem1 := m } := rfl

/-! ### setters (never write `{ t with … }` on a compound term `t`: elaboration of projections explodes) -/

def setCtl (s : State) (c : Array Nat) : State := { s with ctl := c }
def setStmSwap (s : State) (w : Swap) : State := { s with stmSwap := w }
def setModSwap (s : State) (w : Swap) : State := { s with modSwap := w }
@[simp] theorem setCtl_ack (s : State) (x : Array Nat) : (setCtl s x).ack = s.ack := rfl
@[simp] theorem setCtl_lastMsgId (s : State) (x : Array Nat) : (setCtl s x).lastMsgId = s.lastMsgId := rfl
@[simp] theorem setCtl_rxData (s : State) (x : Array Nat) : (setCtl s x).rxData = s.rxData := rfl
@[simp] theorem setCtl_readsFpgaState (s : State) (x : Array Nat) : (setCtl s x).readsFpgaState = s.readsFpgaState := rfl
@[simp] theorem setCtl_readsStore (s : State) (x : Array Nat) : (setCtl s x).readsStore = s.readsStore := rfl
@[simp] theorem setCtl_isRxDataUsed (s : State) (x : Array Nat) : (setCtl s x).isRxDataUsed = s.isRxDataUsed := rfl
@[simp] theorem setCtl_synchronized (s : State) (x : Array Nat) : (setCtl s x).synchronized = s.synchronized := rfl
@[simp] theorem setCtl_modCycle (s : State) (x : Array Nat) : (setCtl s x).modCycle = s.modCycle := rfl
@[simp] theorem setCtl_stmWrite (s : State) (x : Array Nat) : (setCtl s x).stmWrite = s.stmWrite := rfl
@[simp] theorem setCtl_stmCycle (s : State) (x : Array Nat) : (setCtl s x).stmCycle = s.stmCycle := rfl
@[simp] theorem setCtl_stmMode (s : State) (x : Array Nat) : (setCtl s x).stmMode = s.stmMode := rfl
@[simp] theorem setCtl_stmRep (s : State) (x : Array Nat) : (setCtl s x).stmRep = s.stmRep := rfl
@[simp] theorem setCtl_stmDiv (s : State) (x : Array Nat) : (setCtl s x).stmDiv = s.stmDiv := rfl
@[simp] theorem setCtl_modDiv (s : State) (x : Array Nat) : (setCtl s x).modDiv = s.modDiv := rfl
@[simp] theorem setCtl_modRep (s : State) (x : Array Nat) : (setCtl s x).modRep = s.modRep := rfl
@[simp] theorem setCtl_stmSegment (s : State) (x : Array Nat) : (setCtl s x).stmSegment = s.stmSegment := rfl
@[simp] theorem setCtl_modSegment (s : State) (x : Array Nat) : (setCtl s x).modSegment = s.modSegment := rfl
@[simp] theorem setCtl_stmTrMode (s : State) (x : Array Nat) : (setCtl s x).stmTrMode = s.stmTrMode := rfl
@[simp] theorem setCtl_stmTrValue (s : State) (x : Array Nat) : (setCtl s x).stmTrValue = s.stmTrValue := rfl
@[simp] theorem setCtl_modTrMode (s : State) (x : Array Nat) : (setCtl s x).modTrMode = s.modTrMode := rfl
@[simp] theorem setCtl_modTrValue (s : State) (x : Array Nat) : (setCtl s x).modTrValue = s.modTrValue := rfl
@[simp] theorem setCtl_gainStmMode (s : State) (x : Array Nat) : (setCtl s x).gainStmMode = s.gainStmMode := rfl
@[simp] theorem setCtl_numFoci (s : State) (x : Array Nat) : (setCtl s x).numFoci = s.numFoci := rfl
@[simp] theorem setCtl_strict (s : State) (x : Array Nat) : (setCtl s x).strict = s.strict := rfl
@[simp] theorem setCtl_minDivI (s : State) (x : Array Nat) : (setCtl s x).minDivI = s.minDivI := rfl
@[simp] theorem setCtl_minDivP (s : State) (x : Array Nat) : (setCtl s x).minDivP = s.minDivP := rfl
@[simp] theorem setCtl_flagsInternal (s : State) (x : Array Nat) : (setCtl s x).flagsInternal = s.flagsInternal := rfl
@[simp] theorem setCtl_portA (s : State) (x : Array Nat) : (setCtl s x).portA = s.portA := rfl
@[simp] theorem setCtl_dcSysTime (s : State) (x : Array Nat) : (setCtl s x).dcSysTime = s.dcSysTime := rfl
@[simp] theorem setCtl_numTr (s : State) (x : Array Nat) : (setCtl s x).numTr = s.numTr := rfl
@[simp] theorem setCtl_ctl (s : State) (x : Array Nat) : (setCtl s x).ctl = x := rfl
@[simp] theorem setCtl_phaseCorr (s : State) (x : Array Nat) : (setCtl s x).phaseCorr = s.phaseCorr := rfl
@[simp] theorem setCtl_pwe (s : State) (x : Array Nat) : (setCtl s x).pwe = s.pwe := rfl
@[simp] theorem setCtl_modMem0 (s : State) (x : Array Nat) : (setCtl s x).modMem0 = s.modMem0 := rfl
@[simp] theorem setCtl_modMem1 (s : State) (x : Array Nat) : (setCtl s x).modMem1 = s.modMem1 := rfl
@[simp] theorem setCtl_stmMem0 (s : State) (x : Array Nat) : (setCtl s x).stmMem0 = s.stmMem0 := rfl
@[simp] theorem setCtl_stmMem1 (s : State) (x : Array Nat) : (setCtl s x).stmMem1 = s.stmMem1 := rfl
@[simp] theorem setCtl_modSwap (s : State) (x : Array Nat) : (setCtl s x).modSwap = s.modSwap := rfl
@[simp] theorem setCtl_stmSwap (s : State) (x : Array Nat) : (setCtl s x).stmSwap = s.stmSwap := rfl
@[simp] theorem setStmSwap_ack (s : State) (x : Swap) : (setStmSwap s x).ack = s.ack := rfl
@[simp] theorem setStmSwap_lastMsgId (s : State) (x : Swap) : (setStmSwap s x).lastMsgId = s.lastMsgId := rfl
@[simp] theorem setStmSwap_rxData (s : State) (x : Swap) : (setStmSwap s x).rxData = s.rxData := rfl
@[simp] theorem setStmSwap_readsFpgaState (s : State) (x : Swap) : (setStmSwap s x).readsFpgaState = s.readsFpgaState := rfl
@[simp] theorem setStmSwap_readsStore (s : State) (x : Swap) : (setStmSwap s x).readsStore = s.readsStore := rfl
@[simp] theorem setStmSwap_isRxDataUsed (s : State) (x : Swap) : (setStmSwap s x).isRxDataUsed = s.isRxDataUsed := rfl
@[simp] theorem setStmSwap_synchronized (s : State) (x : Swap) : (setStmSwap s x).synchronized = s.synchronized := rfl
@[simp] theorem setStmSwap_modCycle (s : State) (x : Swap) : (setStmSwap s x).modCycle = s.modCycle := rfl
@[simp] theorem setStmSwap_stmWrite (s : State) (x : Swap) : (setStmSwap s x).stmWrite = s.stmWrite := rfl
@[simp] theorem setStmSwap_stmCycle (s : State) (x : Swap) : (setStmSwap s x).stmCycle = s.stmCycle := rfl
@[simp] theorem setStmSwap_stmMode (s : State) (x : Swap) : (setStmSwap s x).stmMode = s.stmMode := rfl
@[simp] theorem setStmSwap_stmRep (s : State) (x : Swap) : (setStmSwap s x).stmRep = s.stmRep := rfl
@[simp] theorem setStmSwap_stmDiv (s : State) (x : Swap) : (setStmSwap s x).stmDiv = s.stmDiv := rfl
@[simp] theorem setStmSwap_modDiv (s : State) (x : Swap) : (setStmSwap s x).modDiv = s.modDiv := rfl
@[simp] theorem setStmSwap_modRep (s : State) (x : Swap) : (setStmSwap s x).modRep = s.modRep := rfl
@[simp] theorem setStmSwap_stmSegment (s : State) (x : Swap) : (setStmSwap s x).stmSegment = s.stmSegment := rfl
@[simp] theorem setStmSwap_modSegment (s : State) (x : Swap) : (setStmSwap s x).modSegment = s.modSegment := rfl
@[simp] theorem setStmSwap_stmTrMode (s : State) (x : Swap) : (setStmSwap s x).stmTrMode = s.stmTrMode := rfl
@[simp] theorem setStmSwap_stmTrValue (s : State) (x : Swap) : (setStmSwap s x).stmTrValue = s.stmTrValue := rfl
@[simp] theorem setStmSwap_modTrMode (s : State) (x : Swap) : (setStmSwap s x).modTrMode = s.modTrMode := rfl
@[simp] theorem setStmSwap_modTrValue (s : State) (x : Swap) : (setStmSwap s x).modTrValue = s.modTrValue := rfl
@[simp] theorem setStmSwap_gainStmMode (s : State) (x : Swap) : (setStmSwap s x).gainStmMode = s.gainStmMode := rfl
@[simp] theorem setStmSwap_numFoci (s : State) (x : Swap) : (setStmSwap s x).numFoci = s.numFoci := rfl
@[simp] theorem setStmSwap_strict (s : State) (x : Swap) : (setStmSwap s x).strict = s.strict := rfl
@[simp] theorem setStmSwap_minDivI (s : State) (x : Swap) : (setStmSwap s x).minDivI = s.minDivI := rfl
@[simp] theorem setStmSwap_minDivP (s : State) (x : Swap) : (setStmSwap s x).minDivP = s.minDivP := rfl
@[simp] theorem setStmSwap_flagsInternal (s : State) (x : Swap) : (setStmSwap s x).flagsInternal = s.flagsInternal := rfl
@[simp] theorem setStmSwap_portA (s : State) (x : Swap) : (setStmSwap s x).portA = s.portA := rfl
@[simp] theorem setStmSwap_dcSysTime (s : State) (x : Swap) : (setStmSwap s x).dcSysTime = s.dcSysTime := rfl
@[simp] theorem setStmSwap_numTr (s : State) (x : Swap) : (setStmSwap s x).numTr = s.numTr := rfl
@[simp] theorem setStmSwap_ctl (s : State) (x : Swap) : (setStmSwap s x).ctl = s.ctl := rfl
@[simp] theorem setStmSwap_phaseCorr (s : State) (x : Swap) : (setStmSwap s x).phaseCorr = s.phaseCorr := rfl
@[simp] theorem setStmSwap_pwe (s : State) (x : Swap) : (setStmSwap s x).pwe = s.pwe := rfl
@[simp] theorem setStmSwap_modMem0 (s : State) (x : Swap) : (setStmSwap s x).modMem0 = s.modMem0 := rfl
@[simp] theorem setStmSwap_modMem1 (s : State) (x : Swap) : (setStmSwap s x).modMem1 = s.modMem1 := rfl
@[simp] theorem setStmSwap_stmMem0 (s : State) (x : Swap) : (setStmSwap s x).stmMem0 = s.stmMem0 := rfl
@[simp] theorem setStmSwap_stmMem1 (s : State) (x : Swap) : (setStmSwap s x).stmMem1 = s.stmMem1 := rfl
@[simp] theorem setStmSwap_modSwap (s : State) (x : Swap) : (setStmSwap s x).modSwap = s.modSwap := rfl
@[simp] theorem setStmSwap_stmSwap (s : State) (x : Swap) : (setStmSwap s x).stmSwap = x := rfl
@[simp] theorem setModSwap_ack (s : State) (x : Swap) : (setModSwap s x).ack = s.ack := rfl
@[simp] theorem setModSwap_lastMsgId (s : State) (x : Swap) : (setModSwap s x).lastMsgId = s.lastMsgId := rfl
@[simp] theorem setModSwap_rxData (s : State) (x : Swap) : (setModSwap s x).rxData = s.rxData := rfl
@[simp] theorem setModSwap_readsFpgaState (s : State) (x : Swap) : (setModSwap s x).readsFpgaState = s.readsFpgaState := rfl
@[simp] theorem setModSwap_readsStore (s : State) (x : Swap) : (setModSwap s x).readsStore = s.readsStore := rfl
@[simp] theorem setModSwap_isRxDataUsed (s : State) (x : Swap) : (setModSwap s x).isRxDataUsed = s.isRxDataUsed := rfl
@[simp] theorem setModSwap_synchronized (s : State) (x : Swap) : (setModSwap s x).synchronized = s.synchronized := rfl
@[simp] theorem setModSwap_modCycle (s : State) (x : Swap) : (setModSwap s x).modCycle = s.modCycle := rfl
@[simp] theorem setModSwap_stmWrite (s : State) (x : Swap) : (setModSwap s x).stmWrite = s.stmWrite := rfl
@[simp] theorem setModSwap_stmCycle (s : State) (x : Swap) : (setModSwap s x).stmCycle = s.stmCycle := rfl
@[simp] theorem setModSwap_stmMode (s : State) (x : Swap) : (setModSwap s x).stmMode = s.stmMode := rfl
@[simp] theorem setModSwap_stmRep (s : State) (x : Swap) : (setModSwap s x).stmRep = s.stmRep := rfl
@[simp] theorem setModSwap_stmDiv (s : State) (x : Swap) : (setModSwap s x).stmDiv = s.stmDiv := rfl
@[simp] theorem setModSwap_modDiv (s : State) (x : Swap) : (setModSwap s x).modDiv = s.modDiv := rfl
@[simp] theorem setModSwap_modRep (s : State) (x : Swap) : (setModSwap s x).modRep = s.modRep := rfl
@[simp] theorem setModSwap_stmSegment (s : State) (x : Swap) : (setModSwap s x).stmSegment = s.stmSegment := rfl
@[simp] theorem setModSwap_modSegment (s : State) (x : Swap) : (setModSwap s x).modSegment = s.modSegment := rfl
@[simp] theorem setModSwap_stmTrMode (s : State) (x : Swap) : (setModSwap s x).stmTrMode = s.stmTrMode := rfl
@[simp] theorem setModSwap_stmTrValue (s : State) (x : Swap) : (setModSwap s x).stmTrValue = s.stmTrValue := rfl
@[simp] theorem setModSwap_modTrMode (s : State) (x : Swap) : (setModSwap s x).modTrMode = s.modTrMode := rfl
@[simp] theorem setModSwap_modTrValue (s : State) (x : Swap) : (setModSwap s x).modTrValue = s.modTrValue := rfl
@[simp] theorem setModSwap_gainStmMode (s : State) (x : Swap) : (setModSwap s x).gainStmMode = s.gainStmMode := rfl
@[simp] theorem setModSwap_numFoci (s : State) (x : Swap) : (setModSwap s x).numFoci = s.numFoci := rfl
@[simp] theorem setModSwap_strict (s : State) (x : Swap) : (setModSwap s x).strict = s.strict := rfl
@[simp] theorem setModSwap_minDivI (s : State) (x : Swap) : (setModSwap s x).minDivI = s.minDivI := rfl
@[simp] theorem setModSwap_minDivP (s : State) (x : Swap) : (setModSwap s x).minDivP = s.minDivP := rfl
@[simp] theorem setModSwap_flagsInternal (s : State) (x : Swap) : (setModSwap s x).flagsInternal = s.flagsInternal := rfl
@[simp] theorem setModSwap_portA (s : State) (x : Swap) : (setModSwap s x).portA = s.portA := rfl
@[simp] theorem setModSwap_dcSysTime (s : State) (x : Swap) : (setModSwap s x).dcSysTime = s.dcSysTime := rfl
@[simp] theorem setModSwap_numTr (s : State) (x : Swap) : (setModSwap s x).numTr = s.numTr := rfl
@[simp] theorem setModSwap_ctl (s : State) (x : Swap) : (setModSwap s x).ctl = s.ctl := rfl
@[simp] theorem setModSwap_phaseCorr (s : State) (x : Swap) : (setModSwap s x).phaseCorr = s.phaseCorr := rfl
@[simp] theorem setModSwap_pwe (s : State) (x : Swap) : (setModSwap s x).pwe = s.pwe := rfl
@[simp] theorem setModSwap_modMem0 (s : State) (x : Swap) : (setModSwap s x).modMem0 = s.modMem0 := rfl
@[simp] theorem setModSwap_modMem1 (s : State) (x : Swap) : (setModSwap s x).modMem1 = s.modMem1 := rfl
@[simp] theorem setModSwap_stmMem0 (s : State) (x : Swap) : (setModSwap s x).stmMem0 = s.stmMem0 := rfl
@[simp] theorem setModSwap_stmMem1 (s : State) (x : Swap) : (setModSwap s x).stmMem1 = s.stmMem1 := rfl
@[simp] theorem setModSwap_modSwap (s : State) (x : Swap) : (setModSwap s x).modSwap = x := rfl
@[simp] theorem setModSwap_stmSwap (s : State) (x : Swap) : (setModSwap s x).stmSwap = s.stmSwap := rfl

@[simp] theorem reg_setStmSwap (s : State) (w : Swap) (a : Nat) : reg (setStmSwap s w) a = reg s a := rfl
@[simp] theorem reg_setModSwap (s : State) (w : Swap) (a : Nat) : reg (setModSwap s w) a = reg s a := rfl
theorem reg_setCtl (s : State) (c : Array Nat) (a : Nat) : reg (setCtl s c) a = rd c a := rfl

theorem reg_wr (s : State) (a v b : Nat) :
    reg (wr s a v) b = if b = a ∧ a < s.ctl.size then v % 65536 else reg s b := by
  unfold reg; rw [wr_ctl, rd_set]

@[simp] theorem reg_setModMem (s : State) (g : Nat) (m : Array Nat) (b : Nat) :
    reg (setModMem s g m) b = reg s b := by unfold reg; rw [setModMem_ctl]
@[simp] theorem reg_setStmMem (s : State) (g : Nat) (m : Array Nat) (b : Nat) :
    reg (setStmMem s g m) b = reg s b := by unfold reg; rw [setStmMem_ctl]

theorem frame_extract (t : Tx) : (Tx.frame t).extract DrvLayout.Header_size (Tx.frame t).size = t.payload := by
  unfold Tx.frame DrvLayout.Header_size
  simp
theorem frame_id (t : Tx) : u8at (Tx.frame t) DrvLayout.Header_msg_id_off = t.msgId % 256 := by
  simp [Tx.frame, u8at, rd, DrvLayout.Header_msg_id_off, Array.getElem?_append]
theorem frame_slot2 (t : Tx) : u16at (Tx.frame t) DrvLayout.Header_slot_2_offset_off = t.slot2 % 65536 := by
  simp [Tx.frame, u16at, u8at, rd, DrvLayout.Header_slot_2_offset_off, Array.getElem?_append]
  omega

/-- the message id `pack_op` puts into the next frame -/
def nextId (t : Tx) : Nat := ((t.msgId + 1) % 256) &&& Drv.MSG_ID_MAX

theorem nextId_lt (t : Tx) : nextId t < 128 := by
  unfold nextId Drv.MSG_ID_MAX
  exact Nat.lt_of_le_of_lt Nat.and_le_right (by decide)

theorem and_128_of_lt {x : Nat} (h : x < 128) : x &&& 128 = 0 := by
  rw [show 128 = 2 ^ 7 from rfl, and_two_pow', Nat.testBit_lt_two_pow (by simpa using h)]; rfl

/-- the state the handlers see: message id latched, `read_fpga_state` done (only `rxData` differs) -/
def pre (s : State) (id : Nat) : State := readFpgaState { s with lastMsgId := id }

theorem pre_eq (s : State) (id : Nat) : ∃ r, pre s id = { s with lastMsgId := id, rxData := r } := by
  unfold pre readFpgaState
  split
  · exact ⟨s.rxData, rfl⟩
  · split
    · exact ⟨_, rfl⟩
    · exact ⟨_, rfl⟩

/-- `ecat_recv` on a fresh single-slot frame whose handler acknowledges without error -/
theorem ecatRecv_single (s : State) (t : Tx) (hid : t.msgId < 128) (hslot : t.slot2 = 0)
    (hfresh : s.lastMsgId ≠ t.msgId) (s1 : State)
    (hh : handlePayload (pre s t.msgId) t.payload = .ok (s1, NO_ERR)) :
    ecatRecv s t.frame = .ok { wr s1 ADDR_CTL_FLAG s1.flagsInternal with ack := t.msgId } := by
  unfold ecatRecv
  simp only [frame_id, frame_slot2, frame_extract, hslot, Nat.mod_eq_of_lt (show t.msgId < 256 by omega)]
  rw [if_neg hfresh]
  simp only [and_128_of_lt hid]
  have : pre s t.msgId = readFpgaState { s with lastMsgId := t.msgId } := rfl
  rw [← this, hh]
  simp [NO_ERR, ERR_BIT, ctlWrite_main, ADDR_CTL_FLAG]
theorem hasFlag_or_mod (fi flag i : Nat) (hi : i < 16) :
    hasFlag ((fi ||| flag) % 65536) (2 ^ i) = (fi.testBit i || flag.testBit i) := by
  rw [hasFlag_pow, ← Nat.testBit_eq_decide_div_mod_eq, show 65536 = 2 ^ 16 from rfl,
    Nat.testBit_mod_two_pow, Nat.testBit_or]
  simp [hi]

theorem testBit0_of_mod256 {fi : Nat} (h : fi % 256 = 0) : fi.testBit 0 = false := by
  rw [Nat.testBit_eq_decide_div_mod_eq]; simp; omega
theorem testBit1_of_mod256 {fi : Nat} (h : fi % 256 = 0) : fi.testBit 1 = false := by
  rw [Nat.testBit_eq_decide_div_mod_eq]; simp; omega

/-- `set_and_wait_update` with a flag that is neither MOD_SET nor STM_SET: no swap chain is touched -/
theorem saw_plain (s : State) (flag : Nat) (hctl : s.ctl.size = 256) (hfi : s.flagsInternal % 256 = 0)
    (h0 : flag.testBit 0 = false) (h1 : flag.testBit 1 = false) :
    setAndWaitUpdate s flag = .ok (wr (wr s ADDR_CTL_FLAG (s.flagsInternal ||| flag)) ADDR_CTL_FLAG s.flagsInternal) := by
  unfold setAndWaitUpdate fpgaSetAndWaitUpdate
  simp only [ctlWrite_main _ ADDR_CTL_FLAG _ (by decide), ok_bind, reg_wr, hctl, wr_flagsInternal]
  simp only [ADDR_CTL_FLAG, CTL_FLAG_MOD_SET, CTL_FLAG_STM_SET, true_and, Nat.reduceLT, if_true]
  rw [show (1 : Nat) = 2 ^ 0 from rfl, show (2 : Nat) = 2 ^ 1 from rfl,
    hasFlag_or_mod _ _ 0 (by decide), hasFlag_or_mod _ _ 1 (by decide), testBit0_of_mod256 hfi,
    testBit1_of_mod256 hfi, h0, h1]
  simp

/-- the swap chain can compute laps: both sampling divisions and both cycles are positive -/
def SwapOK (w : Swap) : Prop := 1 ≤ w.freqDiv.1 ∧ 1 ≤ w.freqDiv.2 ∧ 1 ≤ w.cycle.1 ∧ 1 ≤ w.cycle.2

theorem lapAndIdx_ok (w : Swap) (hw : SwapOK w) (seg t : Nat) :
    ∃ l i, w.lapAndIdx seg t = .ok (l, i) := by
  obtain ⟨h1, h2, h3, h4⟩ := hw
  unfold Swap.lapAndIdx sel
  by_cases hs : seg = 0
  · simp only [hs, if_true]; rw [if_neg (by omega), if_neg (by omega)]; exact ⟨_, _, rfl⟩
  · simp only [hs, if_false]; rw [if_neg (by omega), if_neg (by omega)]; exact ⟨_, _, rfl⟩

/-- `Swapchain::set` succeeds on a chain with positive divisions/cycles; what it leaves behind -/
theorem swap_set_ok (w : Swap) (hw : SwapOK w) (t rep fd cyc seg : Nat) (mode : TMode) :
    ∃ w', w.set t rep fd cyc seg mode = .ok w' ∧
      w'.freqDiv = setSel w.freqDiv seg fd ∧ w'.cycle = setSel w.cycle seg cyc ∧ w'.mode = mode ∧
      w'.sysTime = t ∧
      (w.cur = seg ∨ rep = 0xFFFF → w'.cur = seg ∧ w'.state = .infiniteLoop ∧ w'.req = w.req) ∧
      (w.cur ≠ seg → rep ≠ 0xFFFF → w'.cur = w.cur ∧ w'.req = seg ∧ w'.state = .waitStart ∧ w'.rep = rep) := by
  unfold Swap.set
  by_cases hc : w.cur = seg
  · subst hc
    obtain ⟨l, i, hl⟩ := lapAndIdx_ok { w with stop := false, extMode := mode == TMode.ext } hw w.cur t
    simp only [if_true, hl, bind, Except.bind, pure, Except.pure]
    refine ⟨_, rfl, rfl, rfl, rfl, rfl, ?_, ?_⟩
    · intro _; exact ⟨rfl, rfl, rfl⟩
    · intro h; exact absurd rfl h
  · by_cases hr : rep = 0xFFFF
    · obtain ⟨l, i, hl⟩ := lapAndIdx_ok { w with stop := false, cur := seg, extMode := mode == TMode.ext } hw seg t
      simp only [hc, hr, if_true, if_false, hl, bind, Except.bind, pure, Except.pure]
      refine ⟨_, rfl, rfl, rfl, rfl, rfl, ?_, ?_⟩
      · intro _; exact ⟨rfl, rfl, rfl⟩
      · intro _ h; exact absurd rfl h
    · simp only [hc, hr, if_false, bind, Except.bind, pure, Except.pure]
      refine ⟨_, rfl, rfl, rfl, rfl, rfl, ?_, ?_⟩
      · intro h; rcases h with h | h <;> exact h.elim
      · intro _ _; exact ⟨rfl, rfl, rfl, rfl⟩

theorem SwapOK_set (w w' : Swap) (hw : SwapOK w) (seg fd cyc : Nat) (hfd : 1 ≤ fd) (hcyc : 1 ≤ cyc)
    (h1 : w'.freqDiv = setSel w.freqDiv seg fd) (h2 : w'.cycle = setSel w.cycle seg cyc) : SwapOK w' := by
  obtain ⟨a, b, c, d⟩ := hw
  unfold SwapOK; rw [h1, h2]; unfold setSel
  split <;> exact ⟨by assumption, by assumption, by assumption, by assumption⟩

theorem hasFlag_set_1 {fi : Nat} (flag : Nat) (h : fi % 256 = 0) :
    hasFlag ((fi ||| flag) % 65536) 1 = flag.testBit 0 := by
  have := hasFlag_or_mod fi flag 0 (by decide)
  rw [testBit0_of_mod256 h] at this; simpa using this
theorem hasFlag_set_2 {fi : Nat} (flag : Nat) (h : fi % 256 = 0) :
    hasFlag ((fi ||| flag) % 65536) 2 = flag.testBit 1 := by
  have := hasFlag_or_mod fi flag 1 (by decide)
  rw [testBit1_of_mod256 h] at this; simpa using this

/-- `set_and_wait_update(CTL_FLAG_STM_SET)`: only the STM swap chain is set, from the registers -/
theorem saw_stm (s : State) (hctl : s.ctl.size = 256) (hfi : s.flagsInternal % 256 = 0)
    (hseg : reg s ADDR_STM_REQ_RD_SEGMENT ≤ 1) (mode : TMode)
    (hmode : decodeTMode (reg s ADDR_STM_TRANSITION_MODE) (reg64 s ADDR_STM_TRANSITION_VALUE_0)
      "stm_transition_mode" = .ok mode) (w : Swap)
    (hw : s.stmSwap.set s.dcSysTime (reg s (ADDR_STM_REP0 + reg s ADDR_STM_REQ_RD_SEGMENT))
      (reg s (ADDR_STM_FREQ_DIV0 + reg s ADDR_STM_REQ_RD_SEGMENT))
      (reg s (ADDR_STM_CYCLE0 + reg s ADDR_STM_REQ_RD_SEGMENT) + 1) (reg s ADDR_STM_REQ_RD_SEGMENT) mode = .ok w) :
    setAndWaitUpdate s CTL_FLAG_STM_SET =
      .ok (setStmSwap (wr (wr s ADDR_CTL_FLAG (s.flagsInternal ||| CTL_FLAG_STM_SET)) ADDR_CTL_FLAG s.flagsInternal) w) := by
  unfold setAndWaitUpdate fpgaSetAndWaitUpdate
  have hflag : ∀ x, reg (wr s ADDR_CTL_FLAG x) ADDR_CTL_FLAG = x % 65536 := by
    intro x; rw [reg_wr, if_pos ⟨rfl, by rw [hctl]; decide⟩]
  simp only [ctlWrite_main _ ADDR_CTL_FLAG _ (by decide), ok_bind, hflag, wr_flagsInternal]
  simp only [ADDR_CTL_FLAG, CTL_FLAG_MOD_SET, CTL_FLAG_STM_SET, hasFlag_set_1 _ hfi, hasFlag_set_2 _ hfi]
  have e0 : Nat.testBit 2 0 = false := by decide
  have e1 : Nat.testBit 2 1 = true := by decide
  have r64 : ∀ x, reg64 (wr s 0 x) ADDR_STM_TRANSITION_VALUE_0 = reg64 s ADDR_STM_TRANSITION_VALUE_0 := by
    intro x; simp [reg64, reg_wr, ADDR_STM_TRANSITION_VALUE_0]
  have hr : ∀ x a, a ≠ 0 → reg (wr s 0 x) a = reg s a := by
    intro x a ha; rw [reg_wr, if_neg (by omega)]
  simp only [e0, e1, if_true, segReg, ok_bind, r64, Bool.false_eq_true, if_false, pure_eq_ok, wr_stmSwap,
    wr_dcSysTime, hr _ ADDR_STM_REQ_RD_SEGMENT (by decide), hr _ ADDR_STM_TRANSITION_MODE (by decide),
    (fun x k => hr x (ADDR_STM_REP0 + k) (by unfold ADDR_STM_REP0; omega)),
    (fun x k => hr x (ADDR_STM_FREQ_DIV0 + k) (by unfold ADDR_STM_FREQ_DIV0; omega)),
    (fun x k => hr x (ADDR_STM_CYCLE0 + k) (by unfold ADDR_STM_CYCLE0; omega)), hseg, hmode, hw]
  simp [wr, setStmSwap]

/-- `set_and_wait_update(CTL_FLAG_MOD_SET)`: only the modulation swap chain is set, from the registers -/
theorem saw_mod (s : State) (hctl : s.ctl.size = 256) (hfi : s.flagsInternal % 256 = 0)
    (hseg : reg s ADDR_MOD_REQ_RD_SEGMENT ≤ 1) (mode : TMode)
    (hmode : decodeTMode (reg s ADDR_MOD_TRANSITION_MODE) (reg64 s ADDR_MOD_TRANSITION_VALUE_0)
      "modulation_transition_mode" = .ok mode) (w : Swap)
    (hw : s.modSwap.set s.dcSysTime (reg s (ADDR_MOD_REP0 + reg s ADDR_MOD_REQ_RD_SEGMENT))
      (reg s (ADDR_MOD_FREQ_DIV0 + reg s ADDR_MOD_REQ_RD_SEGMENT))
      (reg s (ADDR_MOD_CYCLE0 + reg s ADDR_MOD_REQ_RD_SEGMENT) + 1) (reg s ADDR_MOD_REQ_RD_SEGMENT) mode = .ok w) :
    setAndWaitUpdate s CTL_FLAG_MOD_SET =
      .ok (setModSwap (wr (wr s ADDR_CTL_FLAG (s.flagsInternal ||| CTL_FLAG_MOD_SET)) ADDR_CTL_FLAG s.flagsInternal) w) := by
  unfold setAndWaitUpdate fpgaSetAndWaitUpdate
  have hflag : ∀ x, reg (wr s ADDR_CTL_FLAG x) ADDR_CTL_FLAG = x % 65536 := by
    intro x; rw [reg_wr, if_pos ⟨rfl, by rw [hctl]; decide⟩]
  simp only [ctlWrite_main _ ADDR_CTL_FLAG _ (by decide), ok_bind, hflag, wr_flagsInternal]
  simp only [ADDR_CTL_FLAG, CTL_FLAG_MOD_SET, CTL_FLAG_STM_SET, hasFlag_set_1 _ hfi, hasFlag_set_2 _ hfi]
  have e0 : Nat.testBit 1 0 = true := by decide
  have e1 : Nat.testBit 1 1 = false := by decide
  have r64 : ∀ x, reg64 (wr s 0 x) ADDR_MOD_TRANSITION_VALUE_0 = reg64 s ADDR_MOD_TRANSITION_VALUE_0 := by
    intro x; simp [reg64, reg_wr, ADDR_MOD_TRANSITION_VALUE_0]
  have hr : ∀ x a, a ≠ 0 → reg (wr s 0 x) a = reg s a := by
    intro x a ha; rw [reg_wr, if_neg (by omega)]
  simp only [e0, e1, if_true, segReg, ok_bind, r64, Bool.false_eq_true, if_false, pure_eq_ok, wr_modSwap,
    wr_dcSysTime, hr _ ADDR_MOD_REQ_RD_SEGMENT (by decide), hr _ ADDR_MOD_TRANSITION_MODE (by decide),
    (fun x k => hr x (ADDR_MOD_REP0 + k) (by unfold ADDR_MOD_REP0; omega)),
    (fun x k => hr x (ADDR_MOD_FREQ_DIV0 + k) (by unfold ADDR_MOD_FREQ_DIV0; omega)),
    (fun x k => hr x (ADDR_MOD_CYCLE0 + k) (by unfold ADDR_MOD_CYCLE0; omega)), hseg, hmode, hw]
  simp [wr, setModSwap]

/-! ### transition modes -/

/-- the (mode byte, value) pairs the firmware can decode -/
def ValidTr (mode value : Nat) : Prop :=
  mode = TRANSITION_MODE_SYNC_IDX ∨ mode = TRANSITION_MODE_SYS_TIME ∨ (mode = TRANSITION_MODE_GPIO ∧ value < 4) ∨
  mode = TRANSITION_MODE_EXT ∨ mode = TRANSITION_MODE_IMMEDIATE

def tmodeOf (mode value : Nat) : TMode :=
  if mode = TRANSITION_MODE_SYNC_IDX then .syncIdx
  else if mode = TRANSITION_MODE_SYS_TIME then .sysTime value
  else if mode = TRANSITION_MODE_GPIO then .gpio value
  else if mode = TRANSITION_MODE_EXT then .ext else .immediate

theorem decodeTMode_valid (mode value : Nat) (site : String) (h : ValidTr mode value) :
    decodeTMode mode value site = .ok (tmodeOf mode value) := by
  unfold ValidTr at h
  unfold decodeTMode tmodeOf
  simp only [TRANSITION_MODE_SYNC_IDX, TRANSITION_MODE_SYS_TIME, TRANSITION_MODE_GPIO, TRANSITION_MODE_EXT,
    TRANSITION_MODE_IMMEDIATE] at *
  rcases h with h | h | ⟨h, hv⟩ | h | h
  · subst h; simp
  · subst h; simp
  · subst h; simp [hv]
  · subst h; simp
  · subst h; simp

theorem rd_u64Words (v k : Nat) :
    rd (u64Words v) k = if k = 0 then v % 65536 else if k = 1 then (v / 65536) % 65536
      else if k = 2 then (v / 4294967296) % 65536 else if k = 3 then (v / 281474976710656) % 65536 else 0 := by
  unfold u64Words rd
  match k with
  | 0 => rfl
  | 1 => rfl
  | 2 => rfl
  | 3 => rfl
  | k + 4 => simp

/-- a 64-bit value written with `u64Words` to four consecutive registers is read back by `reg64` -/
theorem reg64_wrWords (s : State) (a v : Nat) (ha : a + 4 ≤ 256) (hctl : s.ctl.size = 256)
    (hv : v < 18446744073709551616) :
    reg64 { s with ctl := wrWords s.ctl a (u64Words v) } a = v := by
  have hsz : (u64Words v).size = 4 := rfl
  have h : ∀ k, k < 4 → rd (wrWords s.ctl a (u64Words v)) (a + k) = rd (u64Words v) k % 65536 := by
    intro k hk
    rw [rd_wrWords, if_pos (by omega), show a + k - a = k from by omega]
  unfold reg64 reg
  have h0 := h 0 (by omega)
  rw [Nat.add_zero] at h0
  simp only [h0, h 1 (by omega), h 2 (by omega), h 3 (by omega), rd_u64Words]
  simp
  omega

/-! ### well-formed device states -/

/-- Well-formedness of a device state: the seven memories have their hardware sizes, the device has
at most 249 transducers, the CPU's private flag word has no bit in the low byte (the `*_SET` strobes
live there and are only raised transiently), both swap chains can compute laps (positive sampling
divisions and cycles), and the four sampling-division registers are positive. -/
structure WF (s : State) : Prop where
  ctl : s.ctl.size = 256
  phaseCorr : s.phaseCorr.size = 128
  pwe : s.pwe.size = 256
  modMem0 : s.modMem0.size = 32768
  modMem1 : s.modMem1.size = 32768
  stmMem0 : s.stmMem0.size = 262144
  stmMem1 : s.stmMem1.size = 262144
  numTr : s.numTr ≤ 249
  flags : s.flagsInternal % 256 = 0
  modSwap : SwapOK s.modSwap
  stmSwap : SwapOK s.stmSwap
  modDiv0 : 1 ≤ reg s ADDR_MOD_FREQ_DIV0
  modDiv1 : 1 ≤ reg s ADDR_MOD_FREQ_DIV1
  stmDiv0 : 1 ≤ reg s ADDR_STM_FREQ_DIV0
  stmDiv1 : 1 ≤ reg s ADDR_STM_FREQ_DIV1

theorem WF_pre {s : State} (h : WF s) (id : Nat) : WF (pre s id) := by
  obtain ⟨r, hr⟩ := pre_eq s id
  rw [hr]
  exact ⟨h.ctl, h.phaseCorr, h.pwe, h.modMem0, h.modMem1, h.stmMem0, h.stmMem1, h.numTr, h.flags,
    h.modSwap, h.stmSwap, h.modDiv0, h.modDiv1, h.stmDiv0, h.stmDiv1⟩

end Autd3.Rt
