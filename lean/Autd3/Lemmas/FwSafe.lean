import Autd3.Lemmas.FwBase
/-!
`FwWF` (firmware-state well-formedness for C19 `no_panic`), `Settled`, and safety of the handlers:
every configuration handler and every segment-swap handler returns `.ok` and keeps `FwWF`.
-/
set_option linter.unusedSimpArgs false
set_option linter.unusedVariables false
namespace Autd3.Fw
open Autd3.Gen.Cpu
open Autd3.Gen

/-- well-formedness of the firmware state, as far as `no_panic` needs it -/
structure FwWF (s : State) : Prop where
  shape : Shape s
  /-- the internal flag word never carries one of the `*_SET` request bits 0/1 -/
  flags : s.flagsInternal % 4 = 0
  modFd0 : 1 ≤ reg s ADDR_MOD_FREQ_DIV0
  modFd1 : 1 ≤ reg s ADDR_MOD_FREQ_DIV1
  stmFd0 : 1 ≤ reg s ADDR_STM_FREQ_DIV0
  stmFd1 : 1 ≤ reg s ADDR_STM_FREQ_DIV1
  /-- the CPU's loop-count copies agree with the registers -/
  modRep0 : reg s ADDR_MOD_REP0 = s.modRep.1
  modRep1 : reg s ADDR_MOD_REP1 = s.modRep.2
  stmRep0 : reg s ADDR_STM_REP0 = s.stmRep.1
  stmRep1 : reg s ADDR_STM_REP1 = s.stmRep.2
  modSwap : SwapWF s.modSwap
  stmSwap : SwapWF s.stmSwap

/-- no transition is pending and the CPU's segment beliefs are the swap chains' current segments -/
structure Settled (s : State) : Prop where
  modBelief : s.modSegment = s.modSwap.cur
  stmBelief : s.stmSegment = s.stmSwap.cur
  modIdle : s.modSwap.state ≠ .waitStart
  stmIdle : s.stmSwap.state ≠ .waitStart

/-- the part of the state that `FwWF` and `Settled` read besides `Shape` -/
structure SameCore (s s' : State) : Prop where
  fd : ∀ a, a ∈ [ADDR_MOD_FREQ_DIV0, ADDR_MOD_FREQ_DIV1, ADDR_STM_FREQ_DIV0, ADDR_STM_FREQ_DIV1,
                 ADDR_MOD_REP0, ADDR_MOD_REP1, ADDR_STM_REP0, ADDR_STM_REP1] → reg s' a = reg s a
  modRep : s'.modRep = s.modRep
  stmRep : s'.stmRep = s.stmRep
  modSwap : s'.modSwap = s.modSwap
  stmSwap : s'.stmSwap = s.stmSwap
  modSegment : s'.modSegment = s.modSegment
  stmSegment : s'.stmSegment = s.stmSegment

theorem FwWF.transfer {s s' : State} (h : FwWF s) (c : SameCore s s') (hs : Shape s')
    (hf : s'.flagsInternal % 4 = 0) : FwWF s' := by
  have r := c.fd
  simp only [List.mem_cons, List.mem_nil_iff, or_false] at r
  exact ⟨hs, hf, by rw [r _ (by simp)]; exact h.modFd0, by rw [r _ (by simp)]; exact h.modFd1,
    by rw [r _ (by simp)]; exact h.stmFd0, by rw [r _ (by simp)]; exact h.stmFd1,
    by rw [r _ (by simp), c.modRep]; exact h.modRep0, by rw [r _ (by simp), c.modRep]; exact h.modRep1,
    by rw [r _ (by simp), c.stmRep]; exact h.stmRep0, by rw [r _ (by simp), c.stmRep]; exact h.stmRep1,
    by rw [c.modSwap]; exact h.modSwap, by rw [c.stmSwap]; exact h.stmSwap⟩

theorem Settled.transfer {s s' : State} (h : Settled s) (c : SameCore s s') : Settled s' :=
  ⟨by rw [c.modSegment, c.modSwap]; exact h.modBelief, by rw [c.stmSegment, c.stmSwap]; exact h.stmBelief,
   by rw [c.modSwap]; exact h.modIdle, by rw [c.stmSwap]; exact h.stmIdle⟩

theorem and_mod4 (a b : Nat) : (a &&& b) % 4 = (a % 4) &&& (b % 4) := by
  have := Nat.and_mod_two_pow (a := a) (b := b) (n := 2)
  simpa using this

theorem Shape.transfer {s s' : State} (h : Shape s) (e1 : s'.ctl.size = s.ctl.size)
    (e2 : s'.phaseCorr.size = s.phaseCorr.size) (e3 : s'.pwe.size = s.pwe.size)
    (e4 : s'.modMem0.size = s.modMem0.size) (e5 : s'.modMem1.size = s.modMem1.size)
    (e6 : s'.stmMem0.size = s.stmMem0.size) (e7 : s'.stmMem1.size = s.stmMem1.size)
    (e8 : s'.numTr = s.numTr) : Shape s' :=
  ⟨e1 ▸ h.ctl, e2 ▸ h.phaseCorr, e3 ▸ h.pwe, e4 ▸ h.modMem0, e5 ▸ h.modMem1, e6 ▸ h.stmMem0, e7 ▸ h.stmMem1,
   e8 ▸ h.numTr⟩

theorem SameCore.rfl' {s s' : State} (e0 : s'.ctl = s.ctl) (e1 : s'.modRep = s.modRep) (e2 : s'.stmRep = s.stmRep)
    (e3 : s'.modSwap = s.modSwap) (e4 : s'.stmSwap = s.stmSwap) (e5 : s'.modSegment = s.modSegment)
    (e6 : s'.stmSegment = s.stmSegment) : SameCore s s' :=
  ⟨fun _ _ => by unfold reg; rw [e0], e1, e2, e3, e4, e5, e6⟩

/-- what every "configuration" handler guarantees: it returns, and keeps `FwWF` and the swap-chain core -/
def CfgSafe (h : State → Array Nat → M (State × Nat)) : Prop :=
  ∀ s d, FwWF s → ∃ s' ack, h s d = .ok (s', ack) ∧ FwWF s' ∧ SameCore s s'

theorem cfg_forceFan : CfgSafe configureForceFan := by
  intro s d h
  unfold configureForceFan
  simp only []
  split
  · have c : SameCore s { s with flagsInternal := s.flagsInternal ||| CTL_FLAG_FORCE_FAN } :=
      SameCore.rfl' rfl rfl rfl rfl rfl rfl rfl
    refine ⟨_, _, rfl, h.transfer c (h.shape.transfer rfl rfl rfl rfl rfl rfl rfl rfl) ?_, c⟩
    simp [or_mod4, h.flags, CTL_FLAG_FORCE_FAN]
  · have c : SameCore s { s with flagsInternal := s.flagsInternal &&& (65535 - CTL_FLAG_FORCE_FAN) } :=
      SameCore.rfl' rfl rfl rfl rfl rfl rfl rfl
    refine ⟨_, _, rfl, h.transfer c (h.shape.transfer rfl rfl rfl rfl rfl rfl rfl rfl) ?_, c⟩
    simp [and_mod4, h.flags, CTL_FLAG_FORCE_FAN]

theorem cfg_reads : CfgSafe configureReadsFpgaState := by
  intro s d h
  have c : SameCore s { s with readsFpgaState := u8at d FwLayout.ReadsFPGAState_value_off ≠ 0 } :=
    SameCore.rfl' rfl rfl rfl rfl rfl rfl rfl
  exact ⟨_, _, rfl, h.transfer c (h.shape.transfer rfl rfl rfl rfl rfl rfl rfl rfl) h.flags, c⟩

theorem cfg_cpuGpioOut : CfgSafe cpuGpioOut := by
  intro s d h
  have c : SameCore s { s with portA := u8at d FwLayout.CpuGPIOOut_pa_podr_off } :=
    SameCore.rfl' rfl rfl rfl rfl rfl rfl rfl
  exact ⟨_, _, rfl, h.transfer c (h.shape.transfer rfl rfl rfl rfl rfl rfl rfl rfl) h.flags, c⟩

theorem cfg_gpioIn : CfgSafe emulateGpioIn := by
  intro s d h
  unfold emulateGpioIn
  simp only []
  generalize hfl : u8at d FwLayout.GPIOIn_flag_off = fl
  have step : ∀ (f : Nat) (on : Bool) (bit : Nat), f % 4 = 0 → bit % 4 = 0 →
      (if on = true then f ||| bit else f &&& (65535 - bit)) % 4 = 0 := by
    intro f on bit hf hb
    split
    · simp [or_mod4, hf, hb]
    · simp [and_mod4, hf]
  refine ⟨_, _, rfl, ?_, ?_⟩
  · refine h.transfer (SameCore.rfl' rfl rfl rfl rfl rfl rfl rfl) (h.shape.transfer rfl rfl rfl rfl rfl rfl rfl rfl) ?_
    simp only
    exact step _ _ _ (step _ _ _ (step _ _ _ (step _ _ _ h.flags (by decide)) (by decide)) (by decide)) (by decide)
  · exact SameCore.rfl' rfl rfl rfl rfl rfl rfl rfl

theorem cfg_firmInfo : CfgSafe firmInfo := by
  intro s d h
  unfold firmInfo
  simp only []
  repeat' split
  all_goals
    exact ⟨_, _, rfl, h.transfer (SameCore.rfl' rfl rfl rfl rfl rfl rfl rfl)
      (h.shape.transfer rfl rfl rfl rfl rfl rfl rfl rfl) h.flags, SameCore.rfl' rfl rfl rfl rfl rfl rfl rfl⟩

theorem wordsAt_size (d : Array Nat) (off len : Nat) : (wordsAt d off len).size = len := by
  simp [wordsAt]

theorem cfg_pwe : CfgSafe configPwe := by
  intro s d h
  unfold configPwe
  obtain ⟨m, e, hm⟩ := pweWriteWords_ok s 0 (wordsAt d FwLayout.Pwe_size 256) h.shape (by simp [wordsAt_size])
  simp only [e, bind, Except.bind, pure, Except.pure]
  exact ⟨_, _, rfl, h.transfer (SameCore.rfl' rfl rfl rfl rfl rfl rfl rfl)
      (h.shape.transfer rfl rfl (by simp [hm, h.shape.pwe]) rfl rfl rfl rfl rfl) h.flags,
    SameCore.rfl' rfl rfl rfl rfl rfl rfl rfl⟩

/-- consequences of `CtlOnly` when the written range avoids the guarded registers -/
theorem CtlOnly.sameCore {lo hi : Nat} {s s' : State} (c : CtlOnly lo hi s s')
    (hr : ∀ a, a ∈ [ADDR_MOD_FREQ_DIV0, ADDR_MOD_FREQ_DIV1, ADDR_STM_FREQ_DIV0, ADDR_STM_FREQ_DIV1,
                 ADDR_MOD_REP0, ADDR_MOD_REP1, ADDR_STM_REP0, ADDR_STM_REP1] → (a < lo ∨ hi ≤ a)) :
    SameCore s s' := by
  refine ⟨fun a ha => c.other a (hr a ha), ?_, ?_, ?_, ?_, ?_, ?_⟩ <;> (rw [c.eq])

theorem CtlOnly.shape {lo hi : Nat} {s s' : State} (c : CtlOnly lo hi s s') (h : Shape s) : Shape s' := by
  refine h.transfer c.ctl_size c.pc_size ?_ ?_ ?_ ?_ ?_ ?_ <;> (rw [c.eq])

theorem CtlOnly.flags {lo hi : Nat} {s s' : State} (c : CtlOnly lo hi s s') : s'.flagsInternal = s.flagsInternal := by
  rw [c.eq]

theorem cfg_phaseCorr : CfgSafe phaseCorrOp := by
  intro s d h
  unfold phaseCorrOp
  have e0 : BRAM_CNT_SEL_PHASE_CORR <<< 8 = 256 := by decide
  rw [e0]
  obtain ⟨s', e, c, _⟩ := ctlWriteWords_pc s (wordsAt d FwLayout.PhaseCorr_size ((TRANS_NUM + 1) >>> 1))
    (by rw [wordsAt_size]; decide) h.shape.phaseCorr
  simp only [e, bind, Except.bind, pure, Except.pure]
  have sc := c.sameCore (by intro a ha; right; exact Nat.zero_le _)
  exact ⟨_, _, rfl, h.transfer sc (c.shape h.shape) (by rw [c.flags]; exact h.flags), sc⟩

theorem SameCore.trans {a b c : State} (h1 : SameCore a b) (h2 : SameCore b c) : SameCore a c :=
  ⟨fun x hx => (h2.fd x hx).trans (h1.fd x hx), h2.modRep.trans h1.modRep, h2.stmRep.trans h1.stmRep,
   h2.modSwap.trans h1.modSwap, h2.stmSwap.trans h1.stmSwap, h2.modSegment.trans h1.modSegment,
   h2.stmSegment.trans h1.stmSegment⟩

/-- a write to a main register outside the guarded ones keeps the core -/
theorem sameCore_setReg (s : State) (a v : Nat)
    (ha : a ∉ [ADDR_MOD_FREQ_DIV0, ADDR_MOD_FREQ_DIV1, ADDR_STM_FREQ_DIV0, ADDR_STM_FREQ_DIV1,
                 ADDR_MOD_REP0, ADDR_MOD_REP1, ADDR_STM_REP0, ADDR_STM_REP1]) :
    SameCore s { s with ctl := s.ctl.setIfInBounds a v } := by
  refine ⟨fun x hx => ?_, rfl, rfl, rfl, rfl, rfl, rfl⟩
  unfold reg
  simp only [rd_set]
  rw [if_neg]
  intro ⟨e, _⟩
  subst e
  exact ha hx

theorem shape_setReg {s : State} (h : Shape s) (a v : Nat) : Shape { s with ctl := s.ctl.setIfInBounds a v } :=
  h.transfer (by simp) rfl rfl rfl rfl rfl rfl rfl

/-- `set_and_wait_update` with a non-swap flag, packaged -/
theorem setAndWaitUpdate_plain_ok (s : State) (flag : Nat) (h : FwWF s) (hflag : flag % 4 = 0) :
    ∃ s', setAndWaitUpdate s flag = .ok s' ∧ FwWF s' ∧ SameCore s s' := by
  rw [setAndWaitUpdate_plain s flag h.shape.ctl h.flags hflag]
  have sc := sameCore_setReg s 0 (s.flagsInternal % 65536) (by decide)
  exact ⟨_, rfl, h.transfer sc (shape_setReg h.shape _ _) h.flags, sc⟩

theorem cfg_synchronize : CfgSafe synchronize := by
  intro s d h
  unfold synchronize
  have c0 : SameCore s { s with synchronized := true } := SameCore.rfl' rfl rfl rfl rfl rfl rfl rfl
  have h0 : FwWF { s with synchronized := true } :=
    h.transfer c0 (h.shape.transfer rfl rfl rfl rfl rfl rfl rfl rfl) h.flags
  obtain ⟨s', e, w, c⟩ := setAndWaitUpdate_plain_ok _ CTL_FLAG_SYNC_SET h0 (by decide)
  simp only [e, bind, Except.bind, pure, Except.pure]
  exact ⟨_, _, rfl, w, c0.trans c⟩

theorem cfg_debug : CfgSafe configDebug := by
  intro s d h
  unfold configDebug
  obtain ⟨s1, e1, c1, _⟩ := ctlWriteWords_main s ADDR_DEBUG_VALUE0_0 (wordsAt d FwLayout.DebugOutIdx_value_off 16)
    (by rw [wordsAt_size]; decide)
  have sc1 := c1.sameCore (by
    intro a ha
    simp only [List.mem_cons, List.mem_nil_iff, or_false] at ha
    left
    rcases ha with rfl | rfl | rfl | rfl | rfl | rfl | rfl | rfl <;> decide)
  have h1 : FwWF s1 := h.transfer sc1 (c1.shape h.shape) (by rw [c1.flags]; exact h.flags)
  obtain ⟨s', e, w, c⟩ := setAndWaitUpdate_plain_ok s1 CTL_FLAG_DEBUG_SET h1 (by decide)
  simp only [e1, e, bind, Except.bind, pure, Except.pure]
  exact ⟨_, _, rfl, w, sc1.trans c⟩

/-- `FwWF` and the core survive any change of fields outside the core plus writes to unguarded registers;
the goal `reg s' a = reg s a` is closed for explicit `setIfInBounds` chains at literal addresses -/
macro "same_core_tac" : tactic => `(tactic|
  (refine ⟨fun x hx => ?_, rfl, rfl, rfl, rfl, rfl, rfl⟩
   simp only [List.mem_cons, List.mem_nil_iff, or_false] at hx
   rcases hx with hx | hx | hx | hx | hx | hx | hx | hx <;> subst hx <;>
     simp [reg, rd_set, ADDR_MOD_FREQ_DIV0, ADDR_MOD_FREQ_DIV1, ADDR_STM_FREQ_DIV0, ADDR_STM_FREQ_DIV1,
       ADDR_MOD_REP0, ADDR_MOD_REP1, ADDR_STM_REP0, ADDR_STM_REP1]))

theorem cfg_silencer : CfgSafe configSilencer := by
  intro s d h
  unfold configSilencer
  simp only [ADDR_SILENCER_UPDATE_RATE_INTENSITY, ADDR_SILENCER_UPDATE_RATE_PHASE, ADDR_SILENCER_FLAG,
    ADDR_SILENCER_COMPLETION_STEPS_INTENSITY, ADDR_SILENCER_COMPLETION_STEPS_PHASE]
  simp only [ctlWrite_main _ _ _ (by decide : 65 < 256), ctlWrite_main _ _ _ (by decide : 66 < 256),
    ctlWrite_main _ _ _ (by decide : 64 < 256), ctlWrite_main _ _ _ (by decide : 67 < 256),
    ctlWrite_main _ _ _ (by decide : 68 < 256), bind, Except.bind, pure, Except.pure]
  split
  · generalize hX : State.mk _ _ _ _ _ _ _ _ _ _ _ _ _ _ _ _ _ _ _ _ _ _ _ _ _ _ _ _ _ _ _ _ _ _ _ _ _ _ _ = X
    have c0 : SameCore s X := by subst hX; same_core_tac
    have h0 : FwWF X := h.transfer c0 (by subst hX; exact h.shape.transfer (by simp) rfl rfl rfl rfl rfl rfl rfl)
      (by subst hX; exact h.flags)
    obtain ⟨s', e, w, c⟩ := setAndWaitUpdate_plain_ok X CTL_FLAG_SILENCER_SET h0 (by decide)
    simp only [e]
    exact ⟨_, _, rfl, w, c0.trans c⟩
  · split
    · exact ⟨_, _, rfl, h, SameCore.rfl' rfl rfl rfl rfl rfl rfl rfl⟩
    · generalize hX : State.mk _ _ _ _ _ _ _ _ _ _ _ _ _ _ _ _ _ _ _ _ _ _ _ _ _ _ _ _ _ _ _ _ _ _ _ _ _ _ _ = X
      have c0 : SameCore s X := by subst hX; same_core_tac
      have h0 : FwWF X := h.transfer c0 (by subst hX; exact h.shape.transfer (by simp) rfl rfl rfl rfl rfl rfl rfl)
        (by subst hX; exact h.flags)
      obtain ⟨s', e, w, c⟩ := setAndWaitUpdate_plain_ok X CTL_FLAG_SILENCER_SET h0 (by decide)
      simp only [e]
      exact ⟨_, _, rfl, w, c0.trans c⟩

/-! ### swap requests -/

theorem sel_pair_reg (s : State) (a seg : Nat) (hseg : seg ≤ 1) :
    reg s (a + seg) = sel (reg s a, reg s (a + 1)) seg := by
  unfold sel
  have : seg = 0 ∨ seg = 1 := by omega
  rcases this with rfl | rfl <;> simp

/-- a `STM_SET` request from a well-formed state whose request registers are valid and satisfy `SetOK` -/
theorem stm_request_ok (s : State) (h : FwWF s) (seg : Nat) (m : TMode)
    (hseg : reg s ADDR_STM_REQ_RD_SEGMENT = seg) (hle : seg ≤ 1)
    (hdec : decodeTMode (reg s ADDR_STM_TRANSITION_MODE) (reg64 s ADDR_STM_TRANSITION_VALUE_0) "stm_transition_mode" = .ok m)
    (hmode : m.waitable = false → s.stmSwap.cur = seg ∨ reg s (ADDR_STM_REP0 + seg) = 0xFFFF)
    (hpend : s.stmSwap.state = .waitStart → s.stmSwap.cur ≠ seg) :
    ∃ s' w, setAndWaitUpdate s CTL_FLAG_STM_SET = .ok s' ∧ FwWF s' ∧
      s' = { s with ctl := s.ctl.setIfInBounds 0 (s.flagsInternal % 65536), stmSwap := w } := by
  have hfd : 1 ≤ reg s (ADDR_STM_FREQ_DIV0 + seg) := by
    have : seg = 0 ∨ seg = 1 := by omega
    rcases this with rfl | rfl
    · exact h.stmFd0
    · exact h.stmFd1
  obtain ⟨w, hw, wf, _⟩ := set_ok s.stmSwap s.dcSysTime (reg s (ADDR_STM_REP0 + seg)) (reg s (ADDR_STM_FREQ_DIV0 + seg))
    (reg s (ADDR_STM_CYCLE0 + seg) + 1) seg m h.stmSwap ⟨hle, hfd, by omega, hmode, hpend⟩
  rw [setAndWaitUpdate_stm s h.shape.ctl h.flags]
  unfold stmSetReq segReg
  simp only [hseg, hle, if_true, hdec, hw, bind, Except.bind, pure, Except.pure]
  refine ⟨_, w, rfl, ?_, rfl⟩
  have sc := sameCore_setReg s 0 (s.flagsInternal % 65536) (by decide)
  have h1 := h.transfer sc (shape_setReg h.shape _ _) h.flags
  exact ⟨h1.shape.transfer rfl rfl rfl rfl rfl rfl rfl rfl, h1.flags, h1.modFd0, h1.modFd1, h1.stmFd0, h1.stmFd1, h1.modRep0, h1.modRep1, h1.stmRep0,
    h1.stmRep1, h1.modSwap, wf⟩

theorem mod_request_ok (s : State) (h : FwWF s) (seg : Nat) (m : TMode)
    (hseg : reg s ADDR_MOD_REQ_RD_SEGMENT = seg) (hle : seg ≤ 1)
    (hdec : decodeTMode (reg s ADDR_MOD_TRANSITION_MODE) (reg64 s ADDR_MOD_TRANSITION_VALUE_0) "modulation_transition_mode" = .ok m)
    (hmode : m.waitable = false → s.modSwap.cur = seg ∨ reg s (ADDR_MOD_REP0 + seg) = 0xFFFF)
    (hpend : s.modSwap.state = .waitStart → s.modSwap.cur ≠ seg) :
    ∃ s' w, setAndWaitUpdate s CTL_FLAG_MOD_SET = .ok s' ∧ FwWF s' ∧
      s' = { s with ctl := s.ctl.setIfInBounds 0 (s.flagsInternal % 65536), modSwap := w } := by
  have hfd : 1 ≤ reg s (ADDR_MOD_FREQ_DIV0 + seg) := by
    have : seg = 0 ∨ seg = 1 := by omega
    rcases this with rfl | rfl
    · exact h.modFd0
    · exact h.modFd1
  obtain ⟨w, hw, wf, _⟩ := set_ok s.modSwap s.dcSysTime (reg s (ADDR_MOD_REP0 + seg)) (reg s (ADDR_MOD_FREQ_DIV0 + seg))
    (reg s (ADDR_MOD_CYCLE0 + seg) + 1) seg m h.modSwap ⟨hle, hfd, by omega, hmode, hpend⟩
  rw [setAndWaitUpdate_mod s h.shape.ctl h.flags]
  unfold modSetReq segReg
  simp only [hseg, hle, if_true, hdec, hw, bind, Except.bind, pure, Except.pure]
  refine ⟨_, w, rfl, ?_, rfl⟩
  have sc := sameCore_setReg s 0 (s.flagsInternal % 65536) (by decide)
  have h1 := h.transfer sc (shape_setReg h.shape _ _) h.flags
  exact ⟨h1.shape.transfer rfl rfl rfl rfl rfl rfl rfl rfl, h1.flags, h1.modFd0, h1.modFd1, h1.stmFd0, h1.stmFd1, h1.modRep0, h1.modRep1, h1.stmRep0,
    h1.stmRep1, wf, h1.stmSwap⟩

/-- like `SameCore` without the segment beliefs (enough for `FwWF`) -/
structure SameWF (s s' : State) : Prop where
  fd : ∀ a, a ∈ [ADDR_MOD_FREQ_DIV0, ADDR_MOD_FREQ_DIV1, ADDR_STM_FREQ_DIV0, ADDR_STM_FREQ_DIV1,
                 ADDR_MOD_REP0, ADDR_MOD_REP1, ADDR_STM_REP0, ADDR_STM_REP1] → reg s' a = reg s a
  modRep : s'.modRep = s.modRep
  stmRep : s'.stmRep = s.stmRep
  modSwap : s'.modSwap = s.modSwap
  stmSwap : s'.stmSwap = s.stmSwap

theorem FwWF.transfer' {s s' : State} (h : FwWF s) (c : SameWF s s') (hs : Shape s')
    (hf : s'.flagsInternal % 4 = 0) : FwWF s' := by
  have r := c.fd
  simp only [List.mem_cons, List.mem_nil_iff, or_false] at r
  exact ⟨hs, hf, by rw [r _ (by simp)]; exact h.modFd0, by rw [r _ (by simp)]; exact h.modFd1,
    by rw [r _ (by simp)]; exact h.stmFd0, by rw [r _ (by simp)]; exact h.stmFd1,
    by rw [r _ (by simp), c.modRep]; exact h.modRep0, by rw [r _ (by simp), c.modRep]; exact h.modRep1,
    by rw [r _ (by simp), c.stmRep]; exact h.stmRep0, by rw [r _ (by simp), c.stmRep]; exact h.stmRep1,
    by rw [c.modSwap]; exact h.modSwap, by rw [c.stmSwap]; exact h.stmSwap⟩

macro "same_wf_tac" : tactic => `(tactic|
  (refine ⟨fun x hx => ?_, rfl, rfl, rfl, rfl⟩
   simp only [List.mem_cons, List.mem_nil_iff, or_false] at hx
   rcases hx with hx | hx | hx | hx | hx | hx | hx | hx <;> subst hx <;>
     simp [reg, rd_set, ADDR_MOD_FREQ_DIV0, ADDR_MOD_FREQ_DIV1, ADDR_STM_FREQ_DIV0, ADDR_STM_FREQ_DIV1,
       ADDR_MOD_REP0, ADDR_MOD_REP1, ADDR_STM_REP0, ADDR_STM_REP1]))

theorem decode_syncIdx (v : Nat) (site : String) : decodeTMode 0 v site = .ok .syncIdx := by
  unfold decodeTMode; simp [TRANSITION_MODE_SYNC_IDX]

theorem changeGainSegment_safe (s : State) (d : Array Nat) (h : FwWF s) (hst : Settled s)
    (hseg : u8at d FwLayout.GainUpdate_segment_off ≤ 1) :
    ∃ s' ack, changeGainSegment s d = .ok (s', ack) ∧ FwWF s' := by
  unfold changeGainSegment
  generalize u8at d FwLayout.GainUpdate_segment_off = seg at hseg
  simp only []
  rw [if_neg (by omega)]
  split
  · exact ⟨_, _, rfl, h⟩
  split
  · exact ⟨_, _, rfl, h⟩
  simp only [ADDR_STM_REQ_RD_SEGMENT, ADDR_STM_TRANSITION_MODE, TRANSITION_MODE_SYNC_IDX,
    ctlWrite_main _ _ _ (by decide : 82 < 256), ctlWrite_main _ _ _ (by decide : 95 < 256),
    bind, Except.bind, pure, Except.pure]
  generalize hX : State.mk _ _ _ _ _ _ _ _ _ _ _ _ _ _ _ _ _ _ _ _ _ _ _ _ _ _ _ _ _ _ _ _ _ _ _ _ _ _ _ = X
  have c0 : SameWF s X := by subst hX; same_wf_tac
  have h0 : FwWF X := h.transfer' c0 (by subst hX; exact h.shape.transfer (by simp) rfl rfl rfl rfl rfl rfl rfl)
    (by subst hX; exact h.flags)
  have hsz := h.shape.ctl
  obtain ⟨s', w, e, wf, _⟩ := stm_request_ok X h0 seg .syncIdx
    (by subst hX; simp [reg, rd_set, ADDR_STM_REQ_RD_SEGMENT, hsz]; omega) hseg
    (by subst hX; simp [reg, rd_set, ADDR_STM_TRANSITION_MODE, hsz, decode_syncIdx])
    (by intro hw; cases hw)
    (by rw [c0.stmSwap]; intro hw; exact absurd hw hst.stmIdle)
  simp only [e]
  exact ⟨_, _, rfl, wf⟩

theorem ctlWriteWords_four (s : State) (base a b c d : Nat) :
    ctlWriteWords s base #[a, b, c, d] = (do
      let s ← ctlWrite s (base + 0) a
      let s ← ctlWrite s (base + 1) b
      let s ← ctlWrite s (base + 2) c
      ctlWrite s (base + 3) d) := by
  unfold ctlWriteWords
  simp only [Std.Legacy.Range.forIn'_eq_forIn'_range', Std.Legacy.Range.size]
  simp [List.range']

/-- a transition (mode byte, value) the SDK can put into a frame: one of the five real modes, a GPIO pin
`< 4`, a 64-bit value -/
structure ModeOK (mode value : Nat) : Prop where
  mode_ok : mode = TRANSITION_MODE_SYNC_IDX ∨ mode = TRANSITION_MODE_SYS_TIME ∨ mode = TRANSITION_MODE_GPIO ∨
         mode = TRANSITION_MODE_EXT ∨ mode = TRANSITION_MODE_IMMEDIATE
  gpio_ok : mode = TRANSITION_MODE_GPIO → value < 4
  value_lt : value < 18446744073709551616

theorem ModeOK.decode {mode value : Nat} (h : ModeOK mode value) (site : String) :
    ∃ m, decodeTMode mode value site = .ok m ∧
      (m.waitable = false → mode = TRANSITION_MODE_EXT ∨ mode = TRANSITION_MODE_IMMEDIATE) := by
  unfold decodeTMode
  rcases h.mode_ok with e | e | e | e | e
  · subst e; exact ⟨.syncIdx, by simp [TRANSITION_MODE_SYNC_IDX], by intro h; cases h⟩
  · subst e; exact ⟨.sysTime value, by simp [TRANSITION_MODE_SYNC_IDX, TRANSITION_MODE_SYS_TIME], by intro h; cases h⟩
  · have := h.gpio_ok e
    subst e
    exact ⟨.gpio value, by simp [TRANSITION_MODE_SYNC_IDX, TRANSITION_MODE_SYS_TIME, TRANSITION_MODE_GPIO, this],
      by intro h; cases h⟩
  · subst e
    exact ⟨.ext, by simp [TRANSITION_MODE_SYNC_IDX, TRANSITION_MODE_SYS_TIME, TRANSITION_MODE_GPIO, TRANSITION_MODE_EXT],
      fun _ => Or.inl rfl⟩
  · subst e
    exact ⟨.immediate, by simp [TRANSITION_MODE_SYNC_IDX, TRANSITION_MODE_SYS_TIME, TRANSITION_MODE_GPIO,
      TRANSITION_MODE_EXT, TRANSITION_MODE_IMMEDIATE], fun _ => Or.inr rfl⟩

theorem ModeOK.lt {mode value : Nat} (h : ModeOK mode value) : mode < 256 := by
  rcases h.mode_ok with e | e | e | e | e <;> subst e <;> decide

theorem u64_reassemble (v : Nat) (h : v < 18446744073709551616) :
    v % 65536 % 65536 + 65536 * (v / 65536 % 65536 % 65536) + 4294967296 * (v / 4294967296 % 65536 % 65536) +
      281474976710656 * (v / 281474976710656 % 65536 % 65536) = v := by
  omega

theorem stmSegmentUpdate_safe (s : State) (seg mode value : Nat) (h : FwWF s) (hseg : seg ≤ 1)
    (hm : ModeOK mode value) (hidle : s.stmSwap.state ≠ .waitStart)
    (hv : mode = TRANSITION_MODE_EXT ∨ mode = TRANSITION_MODE_IMMEDIATE →
      s.stmSwap.cur = seg ∨ reg s (ADDR_STM_REP0 + seg) = 0xFFFF) :
    ∃ s' ack, stmSegmentUpdate s seg mode value = .ok (s', ack) ∧ FwWF s' := by
  unfold stmSegmentUpdate
  have hsz := h.shape.ctl
  simp only [ADDR_STM_REQ_RD_SEGMENT, ctlWrite_main _ _ _ (by decide : 82 < 256), bind, Except.bind, pure, Except.pure]
  split
  · refine ⟨_, _, rfl, h.transfer' (by same_wf_tac) (h.shape.transfer (by simp) rfl rfl rfl rfl rfl rfl rfl) h.flags⟩
  simp only [ADDR_STM_TRANSITION_MODE, ADDR_STM_TRANSITION_VALUE_0, u64Words, ctlWriteWords_four,
    ctlWrite_main _ _ _ (by decide : 95 < 256), ctlWrite_main _ _ _ (by decide : 96 + 0 < 256),
    ctlWrite_main _ _ _ (by decide : 96 + 1 < 256), ctlWrite_main _ _ _ (by decide : 96 + 2 < 256),
    ctlWrite_main _ _ _ (by decide : 96 + 3 < 256), bind, Except.bind, pure, Except.pure]
  generalize hX : State.mk _ _ _ _ _ _ _ _ _ _ _ _ _ _ _ _ _ _ _ _ _ _ _ _ _ _ _ _ _ _ _ _ _ _ _ _ _ _ _ = X
  have c0 : SameWF s X := by subst hX; same_wf_tac
  have h0 : FwWF X := h.transfer' c0 (by subst hX; exact h.shape.transfer (by simp) rfl rfl rfl rfl rfl rfl rfl)
    (by subst hX; exact h.flags)
  obtain ⟨m, hdec, hwait⟩ := hm.decode "stm_transition_mode"
  have hlt := hm.lt
  have hreg64 : reg64 X ADDR_STM_TRANSITION_VALUE_0 = value := by
    subst hX
    simp [reg64, reg, rd_set, ADDR_STM_TRANSITION_VALUE_0, hsz]
    have := hm.value_lt
    omega
  have hregm : reg X ADDR_STM_TRANSITION_MODE = mode := by
    subst hX
    simp [reg, rd_set, ADDR_STM_TRANSITION_MODE, hsz]
    omega
  have hrep : reg X (ADDR_STM_REP0 + seg) = reg s (ADDR_STM_REP0 + seg) := by
    have : seg = 0 ∨ seg = 1 := by omega
    rcases this with rfl | rfl
    · exact c0.fd _ (by simp)
    · exact c0.fd _ (by decide)
  obtain ⟨s', w, e, wf, _⟩ := stm_request_ok X h0 seg m
    (by subst hX; simp [reg, rd_set, ADDR_STM_REQ_RD_SEGMENT, hsz]; omega) hseg
    (by rw [hreg64, hregm]; exact hdec)
    (by rw [c0.stmSwap, hrep]; exact fun hw => hv (hwait hw))
    (by rw [c0.stmSwap]; intro hw; exact absurd hw hidle)
  simp only [e]
  exact ⟨_, _, rfl, wf⟩

theorem modSegmentUpdate_safe (s : State) (seg mode value : Nat) (h : FwWF s) (hseg : seg ≤ 1)
    (hm : ModeOK mode value) (hidle : s.modSwap.state ≠ .waitStart)
    (hv : mode = TRANSITION_MODE_EXT ∨ mode = TRANSITION_MODE_IMMEDIATE →
      s.modSwap.cur = seg ∨ reg s (ADDR_MOD_REP0 + seg) = 0xFFFF) :
    ∃ s' ack, modSegmentUpdate s seg mode value = .ok (s', ack) ∧ FwWF s' := by
  unfold modSegmentUpdate
  have hsz := h.shape.ctl
  simp only [ADDR_MOD_REQ_RD_SEGMENT, ctlWrite_main _ _ _ (by decide : 34 < 256), bind, Except.bind, pure, Except.pure]
  split
  · refine ⟨_, _, rfl, h.transfer' (by same_wf_tac) (h.shape.transfer (by simp) rfl rfl rfl rfl rfl rfl rfl) h.flags⟩
  simp only [ADDR_MOD_TRANSITION_MODE, ADDR_MOD_TRANSITION_VALUE_0, u64Words, ctlWriteWords_four,
    ctlWrite_main _ _ _ (by decide : 41 < 256), ctlWrite_main _ _ _ (by decide : 42 + 0 < 256),
    ctlWrite_main _ _ _ (by decide : 42 + 1 < 256), ctlWrite_main _ _ _ (by decide : 42 + 2 < 256),
    ctlWrite_main _ _ _ (by decide : 42 + 3 < 256), bind, Except.bind]
  generalize hX : State.mk _ _ _ _ _ _ _ _ _ _ _ _ _ _ _ _ _ _ _ _ _ _ _ _ _ _ _ _ _ _ _ _ _ _ _ _ _ _ _ = X
  have c0 : SameWF s X := by subst hX; same_wf_tac
  have h0 : FwWF X := h.transfer' c0 (by subst hX; exact h.shape.transfer (by simp) rfl rfl rfl rfl rfl rfl rfl)
    (by subst hX; exact h.flags)
  obtain ⟨m, hdec, hwait⟩ := hm.decode "modulation_transition_mode"
  have hlt := hm.lt
  have hreg64 : reg64 X ADDR_MOD_TRANSITION_VALUE_0 = value := by
    subst hX
    simp [reg64, reg, rd_set, ADDR_MOD_TRANSITION_VALUE_0, hsz]
    have := hm.value_lt
    omega
  have hregm : reg X ADDR_MOD_TRANSITION_MODE = mode := by
    subst hX
    simp [reg, rd_set, ADDR_MOD_TRANSITION_MODE, hsz]
    omega
  have hrep : reg X (ADDR_MOD_REP0 + seg) = reg s (ADDR_MOD_REP0 + seg) := by
    have : seg = 0 ∨ seg = 1 := by omega
    rcases this with rfl | rfl
    · exact c0.fd _ (by simp)
    · exact c0.fd _ (by decide)
  obtain ⟨s', w, e, wf, _⟩ := mod_request_ok X h0 seg m
    (by subst hX; simp [reg, rd_set, ADDR_MOD_REQ_RD_SEGMENT, hsz]; omega) hseg
    (by rw [hreg64, hregm]; exact hdec)
    (by rw [c0.modSwap, hrep]; exact fun hw => hv (hwait hw))
    (by rw [c0.modSwap]; intro hw; exact absurd hw hidle)
  simp only [e]
  exact ⟨_, _, rfl, wf⟩

/-- what `validate_transition_mode` accepting an Ext/Immediate request means -/
theorem validate_ext_imm (belief seg rep mode : Nat)
    (hv : validateTransitionMode belief seg rep mode = false)
    (hm : mode = TRANSITION_MODE_EXT ∨ mode = TRANSITION_MODE_IMMEDIATE) : belief = seg ∨ rep = 0xFFFF := by
  unfold validateTransitionMode at hv
  by_cases h1 : belief = seg
  · exact Or.inl h1
  · by_cases h2 : rep = 0xFFFF
    · exact Or.inr h2
    · exfalso
      rcases hm with e | e <;> subst e <;>
        simp [h1, h2, TRANSITION_MODE_NONE, TRANSITION_MODE_EXT, TRANSITION_MODE_IMMEDIATE] at hv

theorem u8at_lt (d : Array Nat) (i : Nat) : u8at d i < 256 := by unfold u8at; omega
theorem u16at_lt (d : Array Nat) (i : Nat) : u16at d i < 65536 := by
  unfold u16at; have := u8at_lt d i; have := u8at_lt d (i + 1); omega
theorem u64at_lt (d : Array Nat) (i : Nat) : u64at d i < 18446744073709551616 := by
  unfold u64at
  have := u16at_lt d i; have := u16at_lt d (i + 2); have := u16at_lt d (i + 4); have := u16at_lt d (i + 6)
  omega

theorem sel_le_pair (p : Nat × Nat) (seg : Nat) : sel p seg = p.1 ∨ sel p seg = p.2 := by
  unfold sel; split <;> simp

theorem changeModSegment_safe (s : State) (d : Array Nat) (h : FwWF s) (hst : Settled s)
    (hseg : u8at d FwLayout.ModulationUpdate_segment_off ≤ 1)
    (hm : ModeOK (u8at d FwLayout.ModulationUpdate_transition_mode_off)
      (u64at d FwLayout.ModulationUpdate_transition_value_off)) :
    ∃ s' ack, changeModSegment s d = .ok (s', ack) ∧ FwWF s' := by
  unfold changeModSegment
  generalize u8at d FwLayout.ModulationUpdate_segment_off = seg at hseg
  simp only []
  rw [if_neg (by omega)]
  split
  · exact ⟨_, _, rfl, h⟩
  rename_i hval
  split
  · exact ⟨_, _, rfl, h⟩
  try simp only [bind, Except.bind, pure, Except.pure]
  have c0 : SameWF s { s with modSegment := seg } := ⟨fun _ _ => rfl, rfl, rfl, rfl, rfl⟩
  have h0 : FwWF { s with modSegment := seg } :=
    h.transfer' c0 (h.shape.transfer rfl rfl rfl rfl rfl rfl rfl rfl) h.flags
  have hrep : reg s (ADDR_MOD_REP0 + seg) = sel s.modRep seg := by
    have : seg = 0 ∨ seg = 1 := by omega
    rcases this with rfl | rfl
    · exact h.modRep0
    · exact h.modRep1
  exact modSegmentUpdate_safe _ seg _ _ h0 hseg hm hst.modIdle (by
    intro hmode
    have hv : validateTransitionMode s.modSegment seg (sel s.modRep seg)
        (u8at d FwLayout.ModulationUpdate_transition_mode_off) = false := by
      simpa using hval
    have := validate_ext_imm _ _ _ _ hv hmode
    show s.modSwap.cur = seg ∨ reg s (ADDR_MOD_REP0 + seg) = 0xFFFF
    rw [hrep, ← hst.modBelief]; exact this)

theorem stmRep_reg (s : State) (h : FwWF s) (seg : Nat) (hseg : seg ≤ 1) :
    reg s (ADDR_STM_REP0 + seg) = sel s.stmRep seg := by
  have : seg = 0 ∨ seg = 1 := by omega
  rcases this with rfl | rfl
  · exact h.stmRep0
  · exact h.stmRep1

theorem changeFociStmSegment_safe (s : State) (d : Array Nat) (h : FwWF s) (hst : Settled s)
    (hseg : u8at d FwLayout.FociSTMUpdate_segment_off ≤ 1)
    (hm : ModeOK (u8at d FwLayout.FociSTMUpdate_transition_mode_off)
      (u64at d FwLayout.FociSTMUpdate_transition_value_off)) :
    ∃ s' ack, changeFociStmSegment s d = .ok (s', ack) ∧ FwWF s' := by
  unfold changeFociStmSegment
  generalize u8at d FwLayout.FociSTMUpdate_segment_off = seg at hseg
  simp only []
  rw [if_neg (by omega)]
  split
  · exact ⟨_, _, rfl, h⟩
  split
  · exact ⟨_, _, rfl, h⟩
  rename_i hval
  split
  · exact ⟨_, _, rfl, h⟩
  try simp only [bind, Except.bind, pure, Except.pure]
  have c0 : SameWF s { s with stmSegment := seg } := ⟨fun _ _ => rfl, rfl, rfl, rfl, rfl⟩
  have h0 : FwWF { s with stmSegment := seg } :=
    h.transfer' c0 (h.shape.transfer rfl rfl rfl rfl rfl rfl rfl rfl) h.flags
  exact stmSegmentUpdate_safe _ seg _ _ h0 hseg hm hst.stmIdle (by
    intro hmode
    have hv : validateTransitionMode s.stmSegment seg (sel s.stmRep seg)
        (u8at d FwLayout.FociSTMUpdate_transition_mode_off) = false := by
      simpa using hval
    have := validate_ext_imm _ _ _ _ hv hmode
    show s.stmSwap.cur = seg ∨ reg s (ADDR_STM_REP0 + seg) = 0xFFFF
    rw [stmRep_reg s h seg hseg, ← hst.stmBelief]; exact this)

theorem changeGainStmSegment_safe (s : State) (d : Array Nat) (h : FwWF s) (hst : Settled s)
    (hseg : u8at d FwLayout.GainSTMUpdate_segment_off ≤ 1)
    (hm : ModeOK (u8at d FwLayout.GainSTMUpdate_transition_mode_off)
      (u64at d FwLayout.GainSTMUpdate_transition_value_off)) :
    ∃ s' ack, changeGainStmSegment s d = .ok (s', ack) ∧ FwWF s' := by
  unfold changeGainStmSegment
  generalize u8at d FwLayout.GainSTMUpdate_segment_off = seg at hseg
  simp only []
  rw [if_neg (by omega)]
  split
  · exact ⟨_, _, rfl, h⟩
  split
  · exact ⟨_, _, rfl, h⟩
  rename_i hval
  split
  · exact ⟨_, _, rfl, h⟩
  try simp only [bind, Except.bind, pure, Except.pure]
  have c0 : SameWF s { s with stmSegment := seg } := ⟨fun _ _ => rfl, rfl, rfl, rfl, rfl⟩
  have h0 : FwWF { s with stmSegment := seg } :=
    h.transfer' c0 (h.shape.transfer rfl rfl rfl rfl rfl rfl rfl rfl) h.flags
  exact stmSegmentUpdate_safe _ seg _ _ h0 hseg hm hst.stmIdle (by
    intro hmode
    have hv : validateTransitionMode s.stmSegment seg (sel s.stmRep seg)
        (u8at d FwLayout.GainSTMUpdate_transition_mode_off) = false := by
      simpa using hval
    have := validate_ext_imm _ _ _ _ hv hmode
    show s.stmSwap.cur = seg ∨ reg s (ADDR_STM_REP0 + seg) = 0xFFFF
    rw [stmRep_reg s h seg hseg, ← hst.stmBelief]; exact this)

end Autd3.Fw
