import Autd3.Lemmas.RtFoci7
/-!
FociSTM, part 8: the send loop — `foci_loop` (induction over the frames after the first) and the
round-trip theorem `fociStm_roundtrip'` for N = 1..8 foci per pattern and 2 ≤ size·N ≤ 65536.
-/
set_option linter.unusedSimpArgs false
open Autd3 Autd3.Fw Autd3.Wire Autd3.Gen.Cpu Autd3.Gen
namespace Autd3.Rt

/-- the side conditions on a FociSTM datagram at the integer level (`P` patterns of `n` foci) -/
structure FociOK (s0 : State) (n seg : Nat) (tr : Tr) (rep div ss : Nat) (records : Array Nat) (P : Nat) : Prop where
  hseg : seg ≤ 1
  hn : 1 ≤ n ∧ n ≤ 8
  size : records.size = P * n
  total : 2 ≤ P * n ∧ P * n ≤ 65536
  recs : ∀ i, rd records i < 18446744073709551616
  hrep : rep < 65536
  hdiv : 1 ≤ div ∧ div < 65536
  hss : ss < 65536
  htr : ∀ m v, tr = some (m, v) → ValidTr m v ∧ v < 18446744073709551616 ∧
    ¬(m = TRANSITION_MODE_SYS_TIME ∧ v < s0.dcSysTime + SYS_TIME_TRANSITION_MARGIN)

theorem foci_P_bounds {s0 : State} {n seg : Nat} {tr : Tr} {rep div ss : Nat} {records : Array Nat} {P : Nat}
    (H : FociOK s0 n seg tr rep div ss records P) : 1 ≤ P ∧ P ≤ 65536 := by
  have h1 := H.hn.1; have h2 := H.total
  constructor
  · rcases Nat.eq_zero_or_pos P with h | h
    · rw [h, Nat.zero_mul] at h2; omega
    · exact h
  · calc P = P * 1 := (Nat.mul_one P).symm
      _ ≤ P * n := Nat.mul_le_mul_left P h1
      _ ≤ 65536 := h2.2

/-- a frame of `sn ≤ M / (8n)` patterns fits `M` bytes -/
theorem foci_fit (M n sn : Nat) (h : sn ≤ M / (8 * n)) : 8 * (sn * n) ≤ M := by
  calc 8 * (sn * n) = sn * (8 * n) := by rw [Nat.mul_left_comm]
    _ ≤ M / (8 * n) * (8 * n) := Nat.mul_le_mul_right _ h
    _ ≤ M := Nat.div_mul_le_self _ _

theorem foci_trMode_lt {s0 : State} {n seg : Nat} {tr : Tr} {rep div ss : Nat} {records : Array Nat} {P : Nat}
    (H : FociOK s0 n seg tr rep div ss records P) : trMode tr < 256 ∧ trValue tr < 18446744073709551616 := by
  cases htr : tr with
  | none => exact ⟨by decide, by decide⟩
  | some mv =>
    obtain ⟨m, v⟩ := mv
    obtain ⟨hv, hv64, _⟩ := H.htr m v htr
    exact ⟨ValidTr_lt hv, hv64⟩

/-- all frames after the first: by induction on the number of frames still to send -/
theorem foci_loop {s0 : State} {n seg : Nat} {tr : Tr} {rep div ss : Nat} {records : Array Nat} {P : Nat}
    (H : FociOK s0 n seg tr rep div ss records P) :
    ∀ fuel c s t, FociInv s0 s seg tr rep div ss n records (c * n) → 0 < c → c < P →
      P - c ≤ (618 / (8 * n)) * fuel → TxOK t → Fresh s t →
      ∃ t' s', sendLoop (fuel + 1) { dg := .fociStm n seg tr rep div ss records, sent := c, done := false } s t = some (t', s') ∧
        WF s' ∧ TxOK t' ∧ Fresh s' t' ∧ FociHeld s0 s' seg tr rep div ss n records P := by
  have hPb := foci_P_bounds H
  have hn1 := H.hn
  have hM : 1 ≤ 618 / (8 * n) := Nat.div_pos (by omega) (by omega)
  have hM77 : 618 / (8 * n) ≤ 77 := Nat.le_trans (Nat.div_le_div_left (a := 618) (b := 8 * n) (c := 8) (by omega) (by decide)) (by decide)
  intro fuel
  induction fuel with
  | zero => intro c s t _ _ hcn hf; omega
  | succ fuel ih =>
    intro c s t hI hc0 hcn hfuel ht hf
    have ht' : t.payload.size = 622 := ht
    generalize hMdef : 618 / (8 * n) = M2 at hM hfuel ih hM77
    have hpk := pack_foci_next n seg tr rep div ss records P s.numTr t.payload c ht' hn1 H.size H.total hc0
    rw [hMdef] at hpk
    have hsn : min (P - c) M2 ≤ 618 / (8 * n) := by rw [hMdef]; exact Nat.min_le_right _ _
    have hfit := foci_fit 618 n (min (P - c) M2) hsn
    obtain ⟨p0, p1, p2, p3, pd, psz⟩ := fociNext_payload t.payload records n c (min (P - c) M2)
      (fociFlagByte false (decide (P = c + min (P - c) M2)) tr.isSome) seg ht' (by omega) (fociFlagByte_lt _ _ _)
    rw [Nat.mod_eq_of_lt (show min (P - c) M2 < 256 by omega)] at p2
    rw [Nat.mod_eq_of_lt (show seg < 256 by have := H.hseg; omega)] at p3
    have pd' : ∀ k, k < min (P - c) M2 * n →
        u64at (fociNextPayload t.payload records n c (min (P - c) M2)
          (fociFlagByte false (decide (P = c + min (P - c) M2)) tr.isSome) seg) (4 + 8 * k) = rd records (c * n + k) := by
      intro k hk; rw [pd k hk]; exact Nat.mod_eq_of_lt (H.recs _)
    generalize fociNextPayload t.payload records n c (min (P - c) M2)
      (fociFlagByte false (decide (P = c + min (P - c) M2)) tr.isSome) seg = d at hpk p0 p1 p2 p3 pd pd' psz
    obtain ⟨r, hr⟩ := pre_eq s (nextId t)
    have hIp := FociInv_pre hI (nextId t) r
    have heq := foci_next_handle_eq { s with lastMsgId := nextId t, rxData := r } d seg (min (P - c) M2)
      (decide (P = c + min (P - c) M2)) tr.isSome p0 p1 p2 p3
    obtain ⟨b1, b2, b3⟩ := fociFlagByte_bits false (decide (P = c + min (P - c) M2)) tr.isSome
    have hadd : c * n + min (P - c) M2 * n = (c + min (P - c) M2) * n := (Nat.add_mul _ _ _).symm
    have hcP : (c + min (P - c) M2) * n ≤ P * n := Nat.mul_le_mul_right _ (by omega)
    have hcn' : c * n < 65536 := by
      have : c * n < P * n := Nat.mul_lt_mul_of_pos_right hcn (by omega)
      have := H.total.2; omega
    by_cases hl : P = c + min (P - c) M2
    · -- last frame
      simp only [← hl, decide_true] at b2 b3 heq hpk
      have hfin : ∃ sE, handlePayload (pre s (nextId t)) d = .ok (sE, NO_ERR) ∧ WF sE ∧
          FociHeld s0 sE seg tr rep div ss n records P ∧ sE.lastMsgId = nextId t := by
        rw [hr, heq]
        cases htr : tr with
        | none =>
          subst htr
          obtain ⟨sE, h1, h2, h3, h4⟩ := foci_tail_last_notr H.hseg hIp d 4 (min (P - c) M2) _ pd'
            (by rw [hadd, ← hl]) hPb H.total.2 ⟨hn1.1, by omega⟩ hcn' (by omega) b2 (by rw [b3]; rfl)
          exact ⟨sE, h1, h2, h3, h4⟩
        | some mv =>
          obtain ⟨m, v⟩ := mv
          subst htr
          obtain ⟨hv, hv64, hmiss⟩ := H.htr m v rfl
          obtain ⟨sE, h1, h2, h3, h4⟩ := foci_tail_last_tr H.hseg hIp d 4 (min (P - c) M2) _ pd'
            (by rw [hadd, ← hl]) hPb H.total.2 ⟨hn1.1, by omega⟩ hcn' (by omega) b2 (by rw [b3]; rfl) hv hv64 hmiss
          exact ⟨sE, h1, h2, h3, h4⟩
      obtain ⟨sE, hh, hWE, hHeld, hlast⟩ := hfin
      refine ⟨{ msgId := nextId t, slot2 := 0, payload := d }, fin sE (nextId t), ?_, WF_fin hWE _, psz,
        Fresh_after sE t d hlast, FociHeld_fin hHeld _⟩
      rw [sendLoop_step _ _ s t rfl _ d _ hpk hf sE hh, sendLoop_done _ _ _ _ rfl]
    · -- more frames follow
      have hw : min (P - c) M2 = M2 := Nat.min_eq_right (by omega)
      simp only [hl, decide_false] at b2 b3 heq hpk
      rw [hw] at heq hpk pd' hadd hcP hfit
      have hlt : (c + M2) * n < P * n := Nat.mul_lt_mul_of_pos_right (by omega) (by omega)
      obtain ⟨s2, h1, hI2, hlast⟩ := foci_tail_nonlast H.hseg hIp d 4 M2 _ pd' (by have := H.total.2; omega) (by omega) b2
      have hh : handlePayload (pre s (nextId t)) d = .ok (s2, NO_ERR) := by rw [hr, heq, h1]
      rw [sendLoop_step _ _ s t rfl _ d _ hpk hf s2 hh]
      rw [hadd] at hI2
      exact ih (c + M2) (fin s2 (nextId t)) _ (FociInv_fin hI2 _) (by omega) (by omega)
        (by rw [Nat.mul_succ] at hfuel; omega) psz (Fresh_after s2 t d hlast)

/-- **FociSTM round trip**, N = 1..8 foci per pattern, 2 ≤ size·N ≤ 65536: all frames are accepted and
the device then holds exactly the datagram's 64-bit records, foci count, sound speed, cycle, division,
loop count, and (iff given) the request -/
theorem fociStm_roundtrip' (s : State) (t : Tx) (hWF : WF s) (ht : TxOK t) (hf : Fresh s t)
    (n seg : Nat) (tr : Tr) (rep div ss : Nat) (records : Array Nat) (P : Nat)
    (H : FociOK s n seg tr rep div ss records P)
    (g1 : validateTransitionMode s.stmSegment seg rep (trMode tr) = false)
    (g2 : validateSilencerSettings s div (sel s.modDiv s.modSegment) = false) :
    ∃ t' s', Sends (.fociStm n seg tr rep div ss records) s t t' s' ∧ WF s' ∧ TxOK t' ∧ Fresh s' t' ∧
      FociHeld s s' seg tr rep div ss n records P := by
  have ht' : t.payload.size = 622 := ht
  have hPb := foci_P_bounds H
  have hn1 := H.hn
  obtain ⟨htm, htv⟩ := foci_trMode_lt H
  have hM : 1 ≤ 598 / (8 * n) := Nat.div_pos (by omega) (by omega)
  have hM74 : 598 / (8 * n) ≤ 74 := Nat.le_trans (Nat.div_le_div_left (a := 598) (b := 8 * n) (c := 8) (by omega) (by decide)) (by decide)
  have hpk := pack_foci_first n seg tr rep div ss records P s.numTr t.payload ht' hn1 H.size H.total
  have hsn : min P (598 / (8 * n)) ≤ 598 / (8 * n) := Nat.min_le_right _ _
  have hfit := foci_fit 598 n (min P (598 / (8 * n))) hsn
  generalize hMdef : 598 / (8 * n) = M1 at hM hM74 hpk hsn hfit
  obtain ⟨p0, p1, p2, p3, p4, p5, p6, p8, p10, p16, pd, psz⟩ := fociFirst_payload t.payload records n (min P M1)
    (fociFlagByte true (decide (P = min P M1)) tr.isSome) seg (trMode tr) div rep (trValue tr) ss ht' (by omega)
    (fociFlagByte_lt _ _ _)
  rw [Nat.mod_eq_of_lt (show min P M1 < 256 by omega)] at p2
  rw [Nat.mod_eq_of_lt (show seg < 256 by have := H.hseg; omega)] at p3
  rw [Nat.mod_eq_of_lt htm] at p4
  rw [Nat.mod_eq_of_lt (show n < 256 by omega)] at p5
  rw [Nat.mod_eq_of_lt H.hss] at p6
  rw [Nat.mod_eq_of_lt H.hdiv.2] at p8
  rw [Nat.mod_eq_of_lt H.hrep] at p10
  rw [Nat.mod_eq_of_lt htv] at p16
  have pd' : ∀ k, k < min P M1 * n →
      u64at (fociFirstPayload t.payload records n (min P M1) (fociFlagByte true (decide (P = min P M1)) tr.isSome) seg
        (trMode tr) div rep (trValue tr) ss) (24 + 8 * k) = rd records (0 + k) := by
    intro k hk; rw [pd k hk, Nat.zero_add]; exact Nat.mod_eq_of_lt (H.recs _)
  generalize fociFirstPayload t.payload records n (min P M1) (fociFlagByte true (decide (P = min P M1)) tr.isSome) seg
    (trMode tr) div rep (trValue tr) ss = d at hpk p0 p1 p2 p3 p4 p5 p6 p8 p10 p16 pd pd' psz
  obtain ⟨r, hr⟩ := pre_eq s (nextId t)
  have heq := foci_first_handle_eq { s with lastMsgId := nextId t, rxData := r } d seg rep div (trMode tr) (trValue tr)
    n ss (min P M1) H.hseg (decide (P = min P M1)) tr.isSome p0 p1 p2 p3 p4 p5 p6 p8 p10 p16 g1 g2
  have hI0 := FociInv_head s hWF (nextId t) r seg H.hseg tr rep div ss n records H.hrep H.hdiv H.hss (by omega)
  have hl0 : (fociHead { s with lastMsgId := nextId t, rxData := r } seg rep div (trMode tr) (trValue tr) n ss).lastMsgId =
      nextId t := by simp [fociHead]
  obtain ⟨b1, b2, b3⟩ := fociFlagByte_bits true (decide (P = min P M1)) tr.isSome
  by_cases hl : P = min P M1
  · -- a single frame
    rw [show decide (P = min P M1) = true from decide_eq_true hl] at b2 b3 heq hpk
    have hfin : ∃ sE, handlePayload (pre s (nextId t)) d = .ok (sE, NO_ERR) ∧ WF sE ∧
        FociHeld s sE seg tr rep div ss n records P ∧ sE.lastMsgId = nextId t := by
      rw [hr, heq]
      cases htr : tr with
      | none =>
        subst htr
        obtain ⟨sE, h1, h2, h3, h4⟩ := foci_tail_last_notr H.hseg hI0 d 24 (min P M1) _ pd'
          (by rw [Nat.zero_add, ← hl]) hPb H.total.2 ⟨hn1.1, by omega⟩ (by decide) (by omega) b2 (by rw [b3]; rfl)
        exact ⟨sE, h1, h2, h3, h4.trans hl0⟩
      | some mv =>
        obtain ⟨m, v⟩ := mv
        subst htr
        obtain ⟨hv, hv64, hmiss⟩ := H.htr m v rfl
        obtain ⟨sE, h1, h2, h3, h4⟩ := foci_tail_last_tr H.hseg hI0 d 24 (min P M1) _ pd'
          (by rw [Nat.zero_add, ← hl]) hPb H.total.2 ⟨hn1.1, by omega⟩ (by decide) (by omega) b2 (by rw [b3]; rfl) hv hv64 hmiss
        exact ⟨sE, h1, h2, h3, h4.trans hl0⟩
    obtain ⟨sE, hh, hWE, hHeld, hlast⟩ := hfin
    refine ⟨{ msgId := nextId t, slot2 := 0, payload := d }, fin sE (nextId t), ⟨2, ?_⟩, WF_fin hWE _, psz,
      Fresh_after sE t d hlast, FociHeld_fin hHeld _⟩
    show sendLoop 2 { dg := .fociStm n seg tr rep div ss records, sent := 0, done := false } s t = _
    rw [sendLoop_step _ _ s t rfl _ d _ hpk hf sE hh, sendLoop_done _ _ _ _ rfl]
  · -- more frames follow
    have hw : min P M1 = M1 := Nat.min_eq_right (by omega)
    simp only [hl, decide_false] at b2 b3 heq hpk
    rw [hw] at heq hpk pd' hfit
    have hlt : M1 * n < P * n := Nat.mul_lt_mul_of_pos_right (by omega) (by omega)
    obtain ⟨s2, h1, hI2, hlast⟩ := foci_tail_nonlast H.hseg hI0 d 24 M1 _ pd' (by have := H.total.2; omega) (by omega) b2
    have hh : handlePayload (pre s (nextId t)) d = .ok (s2, NO_ERR) := by rw [hr, heq, h1]
    rw [Nat.zero_add] at hI2
    have hM2 : 1 ≤ 618 / (8 * n) := Nat.div_pos (by omega) (by omega)
    obtain ⟨t', s', hS, hW', hT', hF', hHeld⟩ := foci_loop H P M1 (fin s2 (nextId t))
      { msgId := nextId t, slot2 := 0, payload := d } (FociInv_fin hI2 _) (by omega) (by omega)
      (by calc P - M1 ≤ P := Nat.sub_le _ _
            _ = 1 * P := (Nat.one_mul P).symm
            _ ≤ 618 / (8 * n) * P := Nat.mul_le_mul_right P hM2) psz
      (Fresh_after s2 t d (hlast.trans hl0))
    refine ⟨t', s', ⟨P + 1 + 1, ?_⟩, hW', hT', hF', hHeld⟩
    show sendLoop _ { dg := .fociStm n seg tr rep div ss records, sent := 0, done := false } s t = _
    rw [sendLoop_step _ _ s t rfl _ d _ hpk hf s2 hh]
    exact hS

end Autd3.Rt
