import Autd3.Lemmas.RtMulti
import Autd3.Lemmas.RtFoci8
import Autd3.Lemmas.RtOps6
/-!
History independence / frame conditions (C02), part 1: the two "side" relations.

`ModSide s s'`: `s'` differs from `s` at most in what a Modulation send may legitimately touch — the
message bookkeeping (`ack`, `lastMsgId`, `rxData`), the CPU's modulation latches (`modCycle`, `modDiv`,
`modRep`, `modSegment`, `modTrMode`, `modTrValue`), the two modulation memories, the modulation swap
chain, and of the controller registers only `CTL_FLAG` (0) and the modulation block 32…45.
`StmSide s s'`: the same for a Gain / FociSTM / GainSTM send (STM latches, STM memories, STM swap chain,
registers 0 and 80…99).  Both are reflexive and transitive, and every primitive step of the four data
handlers is shown to stay inside its side, for EVERY payload.
-/
open Autd3 Autd3.Fw Autd3.Wire Autd3.Gen.Cpu Autd3.Gen Autd3.Rt
namespace Autd3.Hist

theorem bind_eq_ok {α β : Type} {x : M α} {f : α → M β} {b : β} (h : (x >>= f) = .ok b) :
    ∃ a, x = .ok a ∧ f a = .ok b := by
  cases x with
  | error e => exact absurd h (by intro h; cases h)
  | ok a => exact ⟨a, rfl, h⟩

/-! ### the relations -/

def eraseModSide (s : State) : State :=
  { s with ack := 0, lastMsgId := 0, rxData := 0, modCycle := 0, modDiv := (0, 0), modRep := (0, 0), modSegment := 0,
           modTrMode := 0, modTrValue := 0, ctl := #[], modMem0 := #[], modMem1 := #[], modSwap := {} }

def eraseStmSide (s : State) : State :=
  { s with ack := 0, lastMsgId := 0, rxData := 0, stmWrite := 0, stmCycle := (0, 0), stmMode := (0, 0), stmRep := (0, 0),
           stmDiv := (0, 0), stmSegment := 0, stmTrMode := 0, stmTrValue := 0, gainStmMode := 0, numFoci := 0,
           ctl := #[], stmMem0 := #[], stmMem1 := #[], stmSwap := {} }

/-- controller registers a Modulation send may write -/
def modAddr (a : Nat) : Prop := a = 0 ∨ (32 ≤ a ∧ a ≤ 45)
/-- controller registers a Gain / FociSTM / GainSTM send may write -/
def stmAddr (a : Nat) : Prop := a = 0 ∨ (80 ≤ a ∧ a ≤ 99)

structure Side (er : State → State) (A : Nat → Prop) (s s' : State) : Prop where
  erase : er s' = er s
  size : s'.ctl.size = s.ctl.size
  regs : ∀ a, ¬ A a → rd s'.ctl a = rd s.ctl a

abbrev ModSide := Side eraseModSide modAddr
abbrev StmSide := Side eraseStmSide stmAddr

theorem Side.refl {er : State → State} {A : Nat → Prop} (s : State) : Side er A s s := ⟨rfl, rfl, fun _ _ => rfl⟩
theorem Side.trans {er : State → State} {A : Nat → Prop} {a b c : State} (h1 : Side er A a b) (h2 : Side er A b c) :
    Side er A a c :=
  ⟨by rw [h2.erase, h1.erase], by rw [h2.size, h1.size], fun x hx => by rw [h2.regs x hx, h1.regs x hx]⟩

/-! ### projections of `ModSide` -/
section
variable {s s' : State}
theorem ModSide.readsFpgaState (h : ModSide s s') : s'.readsFpgaState = s.readsFpgaState :=
  show (eraseModSide s').readsFpgaState = (eraseModSide s).readsFpgaState from congrArg State.readsFpgaState h.erase
theorem ModSide.readsStore (h : ModSide s s') : s'.readsStore = s.readsStore :=
  show (eraseModSide s').readsStore = (eraseModSide s).readsStore from congrArg State.readsStore h.erase
theorem ModSide.isRxDataUsed (h : ModSide s s') : s'.isRxDataUsed = s.isRxDataUsed :=
  show (eraseModSide s').isRxDataUsed = (eraseModSide s).isRxDataUsed from congrArg State.isRxDataUsed h.erase
theorem ModSide.synchronized (h : ModSide s s') : s'.synchronized = s.synchronized :=
  show (eraseModSide s').synchronized = (eraseModSide s).synchronized from congrArg State.synchronized h.erase
theorem ModSide.stmWrite (h : ModSide s s') : s'.stmWrite = s.stmWrite :=
  show (eraseModSide s').stmWrite = (eraseModSide s).stmWrite from congrArg State.stmWrite h.erase
theorem ModSide.stmCycle (h : ModSide s s') : s'.stmCycle = s.stmCycle :=
  show (eraseModSide s').stmCycle = (eraseModSide s).stmCycle from congrArg State.stmCycle h.erase
theorem ModSide.stmMode (h : ModSide s s') : s'.stmMode = s.stmMode :=
  show (eraseModSide s').stmMode = (eraseModSide s).stmMode from congrArg State.stmMode h.erase
theorem ModSide.stmRep (h : ModSide s s') : s'.stmRep = s.stmRep :=
  show (eraseModSide s').stmRep = (eraseModSide s).stmRep from congrArg State.stmRep h.erase
theorem ModSide.stmDiv (h : ModSide s s') : s'.stmDiv = s.stmDiv :=
  show (eraseModSide s').stmDiv = (eraseModSide s).stmDiv from congrArg State.stmDiv h.erase
theorem ModSide.stmSegment (h : ModSide s s') : s'.stmSegment = s.stmSegment :=
  show (eraseModSide s').stmSegment = (eraseModSide s).stmSegment from congrArg State.stmSegment h.erase
theorem ModSide.stmTrMode (h : ModSide s s') : s'.stmTrMode = s.stmTrMode :=
  show (eraseModSide s').stmTrMode = (eraseModSide s).stmTrMode from congrArg State.stmTrMode h.erase
theorem ModSide.stmTrValue (h : ModSide s s') : s'.stmTrValue = s.stmTrValue :=
  show (eraseModSide s').stmTrValue = (eraseModSide s).stmTrValue from congrArg State.stmTrValue h.erase
theorem ModSide.gainStmMode (h : ModSide s s') : s'.gainStmMode = s.gainStmMode :=
  show (eraseModSide s').gainStmMode = (eraseModSide s).gainStmMode from congrArg State.gainStmMode h.erase
theorem ModSide.numFoci (h : ModSide s s') : s'.numFoci = s.numFoci :=
  show (eraseModSide s').numFoci = (eraseModSide s).numFoci from congrArg State.numFoci h.erase
theorem ModSide.strict (h : ModSide s s') : s'.strict = s.strict :=
  show (eraseModSide s').strict = (eraseModSide s).strict from congrArg State.strict h.erase
theorem ModSide.minDivI (h : ModSide s s') : s'.minDivI = s.minDivI :=
  show (eraseModSide s').minDivI = (eraseModSide s).minDivI from congrArg State.minDivI h.erase
theorem ModSide.minDivP (h : ModSide s s') : s'.minDivP = s.minDivP :=
  show (eraseModSide s').minDivP = (eraseModSide s).minDivP from congrArg State.minDivP h.erase
theorem ModSide.flagsInternal (h : ModSide s s') : s'.flagsInternal = s.flagsInternal :=
  show (eraseModSide s').flagsInternal = (eraseModSide s).flagsInternal from congrArg State.flagsInternal h.erase
theorem ModSide.portA (h : ModSide s s') : s'.portA = s.portA :=
  show (eraseModSide s').portA = (eraseModSide s).portA from congrArg State.portA h.erase
theorem ModSide.dcSysTime (h : ModSide s s') : s'.dcSysTime = s.dcSysTime :=
  show (eraseModSide s').dcSysTime = (eraseModSide s).dcSysTime from congrArg State.dcSysTime h.erase
theorem ModSide.numTr (h : ModSide s s') : s'.numTr = s.numTr :=
  show (eraseModSide s').numTr = (eraseModSide s).numTr from congrArg State.numTr h.erase
theorem ModSide.phaseCorr (h : ModSide s s') : s'.phaseCorr = s.phaseCorr :=
  show (eraseModSide s').phaseCorr = (eraseModSide s).phaseCorr from congrArg State.phaseCorr h.erase
theorem ModSide.pwe (h : ModSide s s') : s'.pwe = s.pwe :=
  show (eraseModSide s').pwe = (eraseModSide s).pwe from congrArg State.pwe h.erase
theorem ModSide.stmMem0 (h : ModSide s s') : s'.stmMem0 = s.stmMem0 :=
  show (eraseModSide s').stmMem0 = (eraseModSide s).stmMem0 from congrArg State.stmMem0 h.erase
theorem ModSide.stmMem1 (h : ModSide s s') : s'.stmMem1 = s.stmMem1 :=
  show (eraseModSide s').stmMem1 = (eraseModSide s).stmMem1 from congrArg State.stmMem1 h.erase
theorem ModSide.stmSwap (h : ModSide s s') : s'.stmSwap = s.stmSwap :=
  show (eraseModSide s').stmSwap = (eraseModSide s).stmSwap from congrArg State.stmSwap h.erase

/-! ### projections of `StmSide` -/
theorem StmSide.readsFpgaState (h : StmSide s s') : s'.readsFpgaState = s.readsFpgaState :=
  show (eraseStmSide s').readsFpgaState = (eraseStmSide s).readsFpgaState from congrArg State.readsFpgaState h.erase
theorem StmSide.readsStore (h : StmSide s s') : s'.readsStore = s.readsStore :=
  show (eraseStmSide s').readsStore = (eraseStmSide s).readsStore from congrArg State.readsStore h.erase
theorem StmSide.isRxDataUsed (h : StmSide s s') : s'.isRxDataUsed = s.isRxDataUsed :=
  show (eraseStmSide s').isRxDataUsed = (eraseStmSide s).isRxDataUsed from congrArg State.isRxDataUsed h.erase
theorem StmSide.synchronized (h : StmSide s s') : s'.synchronized = s.synchronized :=
  show (eraseStmSide s').synchronized = (eraseStmSide s).synchronized from congrArg State.synchronized h.erase
theorem StmSide.modCycle (h : StmSide s s') : s'.modCycle = s.modCycle :=
  show (eraseStmSide s').modCycle = (eraseStmSide s).modCycle from congrArg State.modCycle h.erase
theorem StmSide.modDiv (h : StmSide s s') : s'.modDiv = s.modDiv :=
  show (eraseStmSide s').modDiv = (eraseStmSide s).modDiv from congrArg State.modDiv h.erase
theorem StmSide.modRep (h : StmSide s s') : s'.modRep = s.modRep :=
  show (eraseStmSide s').modRep = (eraseStmSide s).modRep from congrArg State.modRep h.erase
theorem StmSide.modSegment (h : StmSide s s') : s'.modSegment = s.modSegment :=
  show (eraseStmSide s').modSegment = (eraseStmSide s).modSegment from congrArg State.modSegment h.erase
theorem StmSide.modTrMode (h : StmSide s s') : s'.modTrMode = s.modTrMode :=
  show (eraseStmSide s').modTrMode = (eraseStmSide s).modTrMode from congrArg State.modTrMode h.erase
theorem StmSide.modTrValue (h : StmSide s s') : s'.modTrValue = s.modTrValue :=
  show (eraseStmSide s').modTrValue = (eraseStmSide s).modTrValue from congrArg State.modTrValue h.erase
theorem StmSide.strict (h : StmSide s s') : s'.strict = s.strict :=
  show (eraseStmSide s').strict = (eraseStmSide s).strict from congrArg State.strict h.erase
theorem StmSide.minDivI (h : StmSide s s') : s'.minDivI = s.minDivI :=
  show (eraseStmSide s').minDivI = (eraseStmSide s).minDivI from congrArg State.minDivI h.erase
theorem StmSide.minDivP (h : StmSide s s') : s'.minDivP = s.minDivP :=
  show (eraseStmSide s').minDivP = (eraseStmSide s).minDivP from congrArg State.minDivP h.erase
theorem StmSide.flagsInternal (h : StmSide s s') : s'.flagsInternal = s.flagsInternal :=
  show (eraseStmSide s').flagsInternal = (eraseStmSide s).flagsInternal from congrArg State.flagsInternal h.erase
theorem StmSide.portA (h : StmSide s s') : s'.portA = s.portA :=
  show (eraseStmSide s').portA = (eraseStmSide s).portA from congrArg State.portA h.erase
theorem StmSide.dcSysTime (h : StmSide s s') : s'.dcSysTime = s.dcSysTime :=
  show (eraseStmSide s').dcSysTime = (eraseStmSide s).dcSysTime from congrArg State.dcSysTime h.erase
theorem StmSide.numTr (h : StmSide s s') : s'.numTr = s.numTr :=
  show (eraseStmSide s').numTr = (eraseStmSide s).numTr from congrArg State.numTr h.erase
theorem StmSide.phaseCorr (h : StmSide s s') : s'.phaseCorr = s.phaseCorr :=
  show (eraseStmSide s').phaseCorr = (eraseStmSide s).phaseCorr from congrArg State.phaseCorr h.erase
theorem StmSide.pwe (h : StmSide s s') : s'.pwe = s.pwe :=
  show (eraseStmSide s').pwe = (eraseStmSide s).pwe from congrArg State.pwe h.erase
theorem StmSide.modMem0 (h : StmSide s s') : s'.modMem0 = s.modMem0 :=
  show (eraseStmSide s').modMem0 = (eraseStmSide s).modMem0 from congrArg State.modMem0 h.erase
theorem StmSide.modMem1 (h : StmSide s s') : s'.modMem1 = s.modMem1 :=
  show (eraseStmSide s').modMem1 = (eraseStmSide s).modMem1 from congrArg State.modMem1 h.erase
theorem StmSide.modSwap (h : StmSide s s') : s'.modSwap = s.modSwap :=
  show (eraseStmSide s').modSwap = (eraseStmSide s).modSwap from congrArg State.modSwap h.erase
end

/-! ### primitive steps -/

theorem ModSide_wr (s : State) (a v : Nat) (ha : modAddr a) : ModSide s (wr s a v) := by
  refine ⟨rfl, by simp, ?_⟩
  intro x hx
  rw [wr_ctl, rd_set, if_neg]
  rintro ⟨rfl, _⟩; exact hx ha

theorem StmSide_wr (s : State) (a v : Nat) (ha : stmAddr a) : StmSide s (wr s a v) := by
  refine ⟨rfl, by simp, ?_⟩
  intro x hx
  rw [wr_ctl, rd_set, if_neg]
  rintro ⟨rfl, _⟩; exact hx ha

theorem ModSide_setModMem (s : State) (g : Nat) (m : Array Nat) : ModSide s (setModMem s g m) := by
  unfold setModMem; split <;> exact ⟨rfl, rfl, fun _ _ => rfl⟩
theorem StmSide_setStmMem (s : State) (g : Nat) (m : Array Nat) : StmSide s (setStmMem s g m) := by
  unfold setStmMem; split <;> exact ⟨rfl, rfl, fun _ _ => rfl⟩

/-- `Memory::write` to the modulation BRAM, any arguments: a successful call changes one modulation memory -/
theorem modWriteWords_side (s s' : State) (base : Nat) (words : Array Nat) (h : modWriteWords s base words = .ok s') :
    ModSide s s' := by
  unfold modWriteWords at h
  simp only [] at h
  split at h
  · cases h; exact Side.refl s
  · split at h
    · cases h
    · split at h
      · cases h
      · split at h
        · cases h
        · split at h <;> (cases h; exact ⟨rfl, rfl, fun _ _ => rfl⟩)

theorem stmWriteWords_side (s s' : State) (base : Nat) (words : Array Nat) (h : stmWriteWords s base words = .ok s') :
    StmSide s s' := by
  unfold stmWriteWords at h
  simp only [] at h
  split at h
  · cases h; exact Side.refl s
  · split at h
    · cases h
    · split at h
      · cases h
      · split at h
        · cases h
        · split at h <;> (cases h; exact ⟨rfl, rfl, fun _ _ => rfl⟩)

end Autd3.Hist
