import Autd3.Lemmas.P02Base
/-!
# Swap-chain requests, `setAndWaitUpdate`, well-formedness, and the closed form of `Clear`
-/
namespace Autd3.P02
open Autd3 Autd3.Fw Autd3.Gen.Cpu Autd3.Gen

def SwapWF (w : Swap) : Prop :=
  w.freqDiv.1 ≠ 0 ∧ w.freqDiv.2 ≠ 0 ∧ w.cycle.1 ≠ 0 ∧ w.cycle.2 ≠ 0

theorem ok_bind {α β} (a : α) (f : α → M β) : (Except.ok a >>= f) = f a := rfl

theorem bind_eq_ok {α β} {x : M α} {f : α → M β} {b : β} (h : (x >>= f) = .ok b) :
    ∃ a, x = .ok a ∧ f a = .ok b := by
  cases x with
  | error e => simp [bind, Except.bind] at h
  | ok a => exact ⟨a, rfl, h⟩

theorem set_inf (w : Swap) (t rep fd cyc reqSeg : Nat) (mode : TMode)
    (h : w.cur = reqSeg ∨ rep = 0xFFFF) (hfd : sel w.freqDiv reqSeg ≠ 0) (hc : sel w.cycle reqSeg ≠ 0) :
    w.set t rep fd cyc reqSeg mode =
      .ok { w with sysTime := t, freqDiv := setSel w.freqDiv reqSeg fd, cycle := setSel w.cycle reqSeg cyc,
                   mode := mode, stop := false, cur := reqSeg, extMode := mode == TMode.ext,
                   extLastLap := ((fpgaSysTime t >>> 9) / sel w.freqDiv reqSeg) / sel w.cycle reqSeg,
                   ticOff := setSel w.ticOff reqSeg 0, state := .infiniteLoop } := by
  unfold Swap.set Swap.lapAndIdx
  by_cases h1 : w.cur = reqSeg
  · simp [h1, hfd, hc, bind, Except.bind, pure, Except.pure]
  · have h2 : rep = 0xFFFF := by omega
    simp [h1, h2, hfd, hc, bind, Except.bind, pure, Except.pure]

theorem fpga_none (s : State) (t : Nat) (h1 : hasFlag (reg s ADDR_CTL_FLAG) CTL_FLAG_MOD_SET = false)
    (h2 : hasFlag (reg s ADDR_CTL_FLAG) CTL_FLAG_STM_SET = false) : fpgaSetAndWaitUpdate s t = .ok s := by
  unfold fpgaSetAndWaitUpdate
  simp only [h1, h2]
  rfl

theorem fpga_mod (s : State) (t seg : Nat) (mode : TMode) (w' : Swap)
    (h1 : hasFlag (reg s ADDR_CTL_FLAG) CTL_FLAG_MOD_SET = true)
    (h2 : hasFlag (reg s ADDR_CTL_FLAG) CTL_FLAG_STM_SET = false)
    (hseg : segReg s ADDR_MOD_REQ_RD_SEGMENT "req_modulation_segment" = .ok seg)
    (hmode : decodeTMode (reg s ADDR_MOD_TRANSITION_MODE) (reg64 s ADDR_MOD_TRANSITION_VALUE_0) "modulation_transition_mode" = .ok mode)
    (hset : s.modSwap.set t (reg s (ADDR_MOD_REP0 + seg)) (reg s (ADDR_MOD_FREQ_DIV0 + seg))
                (reg s (ADDR_MOD_CYCLE0 + seg) + 1) seg mode = .ok w') :
    fpgaSetAndWaitUpdate s t = .ok { s with modSwap := w' } := by
  unfold fpgaSetAndWaitUpdate
  simp only [h1, h2, hseg, hmode, ok_bind, hset]
  rfl

theorem fpga_stm (s : State) (t seg : Nat) (mode : TMode) (w' : Swap)
    (h1 : hasFlag (reg s ADDR_CTL_FLAG) CTL_FLAG_MOD_SET = false)
    (h2 : hasFlag (reg s ADDR_CTL_FLAG) CTL_FLAG_STM_SET = true)
    (hseg : segReg s ADDR_STM_REQ_RD_SEGMENT "req_stm_segment" = .ok seg)
    (hmode : decodeTMode (reg s ADDR_STM_TRANSITION_MODE) (reg64 s ADDR_STM_TRANSITION_VALUE_0) "stm_transition_mode" = .ok mode)
    (hset : s.stmSwap.set t (reg s (ADDR_STM_REP0 + seg)) (reg s (ADDR_STM_FREQ_DIV0 + seg))
                (reg s (ADDR_STM_CYCLE0 + seg) + 1) seg mode = .ok w') :
    fpgaSetAndWaitUpdate s t = .ok { s with stmSwap := w' } := by
  unfold fpgaSetAndWaitUpdate
  simp [h1, h2, hseg, hmode, ok_bind, hset]
  rfl

/-- `setAndWaitUpdate` in terms of its FPGA part -/
theorem setAndWaitUpdate_eq (s : State) (flag : Nat) :
    setAndWaitUpdate s flag =
      (fpgaSetAndWaitUpdate { s with ctl := s.ctl.setIfInBounds 0 ((s.flagsInternal ||| flag) % 65536) } s.dcSysTime) >>=
        fun s2 => .ok { s2 with ctl := s2.ctl.setIfInBounds 0 (s2.flagsInternal % 65536) } := by
  unfold setAndWaitUpdate
  simp only [ADDR_CTL_FLAG, ctlWrite_main, Nat.zero_lt_succ, ok_bind]

theorem saw_none (s : State) (flag : Nat) (hsz : s.ctl.size = 256)
    (h1 : hasFlag ((s.flagsInternal ||| flag) % 65536) CTL_FLAG_MOD_SET = false)
    (h2 : hasFlag ((s.flagsInternal ||| flag) % 65536) CTL_FLAG_STM_SET = false) :
    setAndWaitUpdate s flag = .ok { s with ctl := s.ctl.setIfInBounds 0 (s.flagsInternal % 65536) } := by
  rw [setAndWaitUpdate_eq, fpga_none]
  · simp [ok_bind]
  · simp [reg, ADDR_CTL_FLAG, rd_set, hsz, h1]
  · simp [reg, ADDR_CTL_FLAG, rd_set, hsz, h2]

theorem saw_mod (s : State) (flag seg : Nat) (mode : TMode) (w' : Swap) (hsz : s.ctl.size = 256)
    (h1 : hasFlag ((s.flagsInternal ||| flag) % 65536) CTL_FLAG_MOD_SET = true)
    (h2 : hasFlag ((s.flagsInternal ||| flag) % 65536) CTL_FLAG_STM_SET = false)
    (hseg : rd s.ctl 34 = seg) (hseg1 : seg ≤ 1)
    (hmode : decodeTMode (rd s.ctl 41) (reg64 s 42) "modulation_transition_mode" = .ok mode)
    (hset : s.modSwap.set s.dcSysTime (rd s.ctl (39 + seg)) (rd s.ctl (37 + seg)) (rd s.ctl (35 + seg) + 1) seg mode = .ok w') :
    setAndWaitUpdate s flag = .ok { s with ctl := s.ctl.setIfInBounds 0 (s.flagsInternal % 65536), modSwap := w' } := by
  rw [setAndWaitUpdate_eq, fpga_mod _ _ seg mode w']
  · simp [ok_bind]
  · simp [reg, ADDR_CTL_FLAG, rd_set, hsz, h1]
  · simp [reg, ADDR_CTL_FLAG, rd_set, hsz, h2]
  · simp [segReg, reg, ADDR_MOD_REQ_RD_SEGMENT, rd_set, hseg, hseg1]
  · rw [← hmode]; simp [reg64, reg, ADDR_MOD_TRANSITION_MODE, ADDR_MOD_TRANSITION_VALUE_0, rd_set]
  · rw [← hset]; simp [reg, ADDR_MOD_REP0, ADDR_MOD_FREQ_DIV0, ADDR_MOD_CYCLE0, rd_set]

theorem saw_stm (s : State) (flag seg : Nat) (mode : TMode) (w' : Swap) (hsz : s.ctl.size = 256)
    (h1 : hasFlag ((s.flagsInternal ||| flag) % 65536) CTL_FLAG_MOD_SET = false)
    (h2 : hasFlag ((s.flagsInternal ||| flag) % 65536) CTL_FLAG_STM_SET = true)
    (hseg : rd s.ctl 82 = seg) (hseg1 : seg ≤ 1)
    (hmode : decodeTMode (rd s.ctl 95) (reg64 s 96) "stm_transition_mode" = .ok mode)
    (hset : s.stmSwap.set s.dcSysTime (rd s.ctl (87 + seg)) (rd s.ctl (85 + seg)) (rd s.ctl (83 + seg) + 1) seg mode = .ok w') :
    setAndWaitUpdate s flag = .ok { s with ctl := s.ctl.setIfInBounds 0 (s.flagsInternal % 65536), stmSwap := w' } := by
  rw [setAndWaitUpdate_eq, fpga_stm _ _ seg mode w']
  · simp [ok_bind]
  · simp [reg, ADDR_CTL_FLAG, rd_set, hsz, h1]
  · simp [reg, ADDR_CTL_FLAG, rd_set, hsz, h2]
  · simp [segReg, reg, ADDR_STM_REQ_RD_SEGMENT, rd_set, hseg, hseg1]
  · rw [← hmode]; simp [reg64, reg, ADDR_STM_TRANSITION_MODE, ADDR_STM_TRANSITION_VALUE_0, rd_set]
  · rw [← hset]; simp [reg, ADDR_STM_REP0, ADDR_STM_FREQ_DIV0, ADDR_STM_CYCLE0, rd_set]

/-! ### `updateWithSysTime` -/

/-- `read_fpga_state` only ever changes the rx data byte -/
theorem readFpgaState_frame (s : State) : readFpgaState s = { s with rxData := (readFpgaState s).rxData } := by
  unfold readFpgaState
  split
  · rfl
  · split <;> rfl

/-- the non-failing part of `updateWithSysTime`, given the two updated swap chains -/
def updCore (s : State) (mw sw : Swap) (t : Nat) : State :=
  let s := { s with modSwap := mw, stmSwap := sw }
  let st := fpgaStateWord (reg s ADDR_FPGA_STATE) s.modSwap.cur s.stmSwap.cur (reg s (ADDR_STM_CYCLE0 + s.stmSwap.cur) + 1)
  let s := { s with ctl := s.ctl.setIfInBounds ADDR_FPGA_STATE st }
  let s := readFpgaState s
  { s with dcSysTime := t }

theorem updateWithSysTime_eq (s : State) (t : Nat) (mw sw : Swap)
    (hm : s.modSwap.update (gpioIn s) t = .ok mw) (hs : s.stmSwap.update (gpioIn s) t = .ok sw) :
    updateWithSysTime s t = .ok (updCore s mw sw t) := by
  unfold updateWithSysTime
  simp only [hm, hs, ok_bind]
  rfl

theorem updCore_modSwap (s : State) (mw sw : Swap) (t : Nat) : (updCore s mw sw t).modSwap = mw := by
  unfold updCore; simp only []; rw [readFpgaState_frame]
theorem updCore_stmSwap (s : State) (mw sw : Swap) (t : Nat) : (updCore s mw sw t).stmSwap = sw := by
  unfold updCore; simp only []; rw [readFpgaState_frame]
theorem updCore_dcSysTime (s : State) (mw sw : Swap) (t : Nat) : (updCore s mw sw t).dcSysTime = t := rfl


end Autd3.P02
