import Autd3.Lemmas.RtMod4
/-!
Modulation, part 5: the END part of `write_mod`, the inter-frame invariant `ModInv`, the final
observation `ModHeld`, and the firmware-level step lemmas (`mod_tail_nonlast`, `mod_tail_last_notr`,
`mod_tail_last_tr`).
-/
open Autd3 Autd3.Fw Autd3.Wire Autd3.Gen.Cpu Autd3.Gen
namespace Autd3.Rt

theorem modEndPart_notlast (s : State) (flag seg : Nat) (h : hasFlag flag MODULATION_FLAG_END = false) :
    modEndPart s flag seg = .ok (s, NO_ERR) := by
  unfold modEndPart; simp only [h, Bool.false_eq_true, if_false]; rfl

theorem modEndPart_last_notr (s : State) (flag seg : Nat) (hseg : seg ≤ 1) (h : hasFlag flag MODULATION_FLAG_END = true)
    (hu : hasFlag flag MODULATION_FLAG_UPDATE = false) :
    modEndPart s flag seg = .ok (wr s (ADDR_MOD_CYCLE0 + seg) ((max s.modCycle 1 - 1) % 65536), NO_ERR) := by
  unfold modEndPart
  simp only [h, hu, if_true, Bool.false_eq_true, if_false]
  rw [ctlWrite_main _ _ _ (by simp only [ADDR_MOD_CYCLE0]; omega)]
  rfl

theorem modEndPart_last_tr (s : State) (flag seg : Nat) (hseg : seg ≤ 1) (h : hasFlag flag MODULATION_FLAG_END = true)
    (hu : hasFlag flag MODULATION_FLAG_UPDATE = true) :
    modEndPart s flag seg =
      modSegmentUpdate (wr s (ADDR_MOD_CYCLE0 + seg) ((max s.modCycle 1 - 1) % 65536)) seg s.modTrMode s.modTrValue := by
  unfold modEndPart
  simp only [h, hu, if_true]
  rw [ctlWrite_main _ _ _ (by simp only [ADDR_MOD_CYCLE0]; omega)]
  rfl

end Autd3.Rt
namespace Autd3.Rt
open Autd3 Autd3.Fw Autd3.Wire Autd3.Gen.Cpu Autd3.Gen

/-- invariant between the frames of one modulation send: `c` samples are in place, the write
registers point behind them, everything the send must not touch is as in the initial state `s0` -/
structure ModInv (s0 s : State) (seg : Nat) (tr : Tr) (rep div : Nat) (samples : Array Nat) (c : Nat) : Prop where
  wf : WF s
  cycle : s.modCycle = c
  wseg : reg s ADDR_MOD_MEM_WR_SEGMENT = seg
  page : reg s ADDR_MOD_MEM_WR_PAGE = c / 32768
  bytes : ∀ i, i < c → modByte (Obs.modMem s seg) i = rd samples i
  other : ∀ g, (g = 0) ≠ (seg = 0) → Obs.modMem s g = Obs.modMem s0 g
  trMode : s.modTrMode = trMode tr
  trValue : s.modTrValue = trValue tr
  divReg : reg s (ADDR_MOD_FREQ_DIV0 + seg) = div
  repReg : reg s (ADDR_MOD_REP0 + seg) = rep
  regs : ∀ a, a ≠ 0 → a ≠ 32 → a ≠ 33 → a ≠ 37 + seg → a ≠ 39 + seg → reg s a = reg s0 a
  swap : s.modSwap = s0.modSwap
  time : s.dcSysTime = s0.dcSysTime
  numTr : s.numTr = s0.numTr

theorem ModInv_pre {s0 s : State} {seg : Nat} {tr : Tr} {rep div : Nat} {samples : Array Nat} {c : Nat}
    (h : ModInv s0 s seg tr rep div samples c) (id r : Nat) :
    ModInv s0 { s with lastMsgId := id, rxData := r } seg tr rep div samples c :=
  ⟨by wf_same h.wf, h.cycle, h.wseg, h.page, h.bytes, h.other, h.trMode, h.trValue, h.divReg, h.repReg, h.regs, h.swap,
    h.time, h.numTr⟩

theorem modMem_fin (s : State) (id g : Nat) : Obs.modMem (fin s id) g = Obs.modMem s g := rfl

theorem ModInv_fin {s0 s : State} {seg : Nat} {tr : Tr} {rep div : Nat} {samples : Array Nat} {c : Nat}
    (h : ModInv s0 s seg tr rep div samples c) (id : Nat) : ModInv s0 (fin s id) seg tr rep div samples c := by
  refine ⟨WF_fin h.wf id, h.cycle, ?_, ?_, h.bytes, h.other, h.trMode, h.trValue, ?_, ?_, ?_, h.swap, h.time, h.numTr⟩
  · rw [reg_fin _ _ _ (by decide)]; exact h.wseg
  · rw [reg_fin _ _ _ (by decide)]; exact h.page
  · rw [reg_fin _ _ _ (by simp [ADDR_MOD_FREQ_DIV0])]; exact h.divReg
  · rw [reg_fin _ _ _ (by simp [ADDR_MOD_REP0])]; exact h.repReg
  · intro a h0 h1 h2 h3 h4; rw [reg_fin _ _ _ h0]; exact h.regs a h0 h1 h2 h3 h4

/-- the copy part keeps the invariant and advances the cursor -/
theorem ModInv_copied {s0 s s' : State} {seg : Nat} {tr : Tr} {rep div : Nat} {samples : Array Nat} {c w off : Nat}
    {d : Array Nat} (hseg : seg ≤ 1) (h : ModInv s0 s seg tr rep div samples c) (hc : ModCopied s s' seg c w d off)
    (hd : ∀ k, k < w → u8at d (off + k) = rd samples (c + k)) (hcw : c + w < 65536) :
    ModInv s0 s' seg tr rep div samples (c + w) := by
  refine ⟨WF_of_ModCopied h.wf hc, hc.cycle, ?_, hc.page hcw, ?_, ?_, ?_, ?_, ?_, ?_, ?_, ?_, ?_, ?_⟩
  · rw [hc.regs _ (by decide)]; exact h.wseg
  · intro i hi
    rw [hc.bytes i hi]
    by_cases hlo : c ≤ i
    · rw [if_pos hlo, hd _ (by omega)]; congr 1; omega
    · rw [if_neg hlo]; exact h.bytes i (by omega)
  · intro g hg; rw [hc.other g hg]; exact h.other g hg
  · rw [hc.frame.modTrMode]; exact h.trMode
  · rw [hc.frame.modTrValue]; exact h.trValue
  · rw [hc.regs _ (by simp only [ADDR_MOD_FREQ_DIV0, ADDR_MOD_MEM_WR_PAGE]; omega)]; exact h.divReg
  · rw [hc.regs _ (by simp only [ADDR_MOD_REP0, ADDR_MOD_MEM_WR_PAGE]; omega)]; exact h.repReg
  · intro a h0 h1 h2 h3 h4; rw [hc.regs a (by simpa [ADDR_MOD_MEM_WR_PAGE] using h2)]; exact h.regs a h0 h1 h2 h3 h4
  · rw [hc.frame.modSwap]; exact h.swap
  · rw [hc.frame.dcSysTime]; exact h.time
  · rw [hc.frame.numTr]; exact h.numTr

end Autd3.Rt
namespace Autd3.Rt
open Autd3 Autd3.Fw Autd3.Wire Autd3.Gen.Cpu Autd3.Gen

/-- `modulation_buffer` reads back the samples when the cycle register and the BRAM bytes are right -/
theorem modBuffer_of_bytes (s : State) (seg : Nat) (samples : Array Nat) (hn : samples.size ≤ 65536)
    (hcyc : reg s (ADDR_MOD_CYCLE0 + seg) + 1 = samples.size) (hsz : (Obs.modMem s seg).size = 32768)
    (hb : ∀ i, i < samples.size → modByte (Obs.modMem s seg) i = rd samples i) :
    Obs.modBuffer s seg = .ok samples := by
  unfold Obs.modBuffer Obs.modCycle
  rw [hcyc, mapM_range_ok samples.size _ (rd samples)]
  · rw [range_map_rd _ _ rfl]
  · intro i hi
    unfold Obs.modAt
    simp only []
    rw [hsz, if_pos (by omega)]
    have := hb i hi
    unfold modByte at this
    rw [← this]

/-- what a complete modulation send leaves behind -/
structure ModHeld (s0 s' : State) (seg : Nat) (tr : Tr) (rep div : Nat) (samples : Array Nat) : Prop where
  buffer : Obs.modBuffer s' seg = .ok samples
  hdiv : Obs.modDiv s' seg = div
  hrep : Obs.modRep s' seg = rep
  hcycle : Obs.modCycle s' seg = samples.size
  otherMem : Obs.modMem s' (1 - seg) = Obs.modMem s0 (1 - seg)
  otherRegs : Obs.modDiv s' (1 - seg) = Obs.modDiv s0 (1 - seg) ∧ Obs.modRep s' (1 - seg) = Obs.modRep s0 (1 - seg) ∧
    Obs.modCycle s' (1 - seg) = Obs.modCycle s0 (1 - seg)
  req : match tr with
    | none => s'.modSwap = s0.modSwap ∧ Obs.reqModSeg s' = Obs.reqModSeg s0 ∧
        Obs.modTransition s' = Obs.modTransition s0
    | some (m, v) => Obs.reqModSeg s' = .ok seg ∧ Obs.modTransition s' = .ok (tmodeOf m v) ∧
        SwapSet s0.modSwap s'.modSwap s0.dcSysTime rep div samples.size seg (tmodeOf m v)

end Autd3.Rt
namespace Autd3.Rt
open Autd3 Autd3.Fw Autd3.Wire Autd3.Gen.Cpu Autd3.Gen

theorem mod_tail_nonlast {s0 sH : State} {seg : Nat} {tr : Tr} {rep div : Nat} {samples : Array Nat} {c : Nat}
    (hseg : seg ≤ 1) (hI : ModInv s0 sH seg tr rep div samples c) (hc2 : c % 2 = 0) (d : Array Nat) (off w flag : Nat)
    (hd : ∀ k, k < w → u8at d (off + k) = rd samples (c + k)) (hcw : c + w < 65536)
    (hE : hasFlag flag MODULATION_FLAG_END = false) :
    ∃ s2, (modDataPart sH d off w >>= fun s2 => modEndPart s2 flag seg) = .ok (s2, NO_ERR) ∧
      ModInv s0 s2 seg tr rep div samples (c + w) ∧ s2.lastMsgId = sH.lastMsgId := by
  obtain ⟨s2, h2, hC⟩ := modDataPart_ok sH hI.wf d off w seg c hI.cycle hc2 (by omega) (by omega) hI.wseg hseg hI.page
  refine ⟨s2, ?_, ModInv_copied hseg hI hC hd hcw, hC.frame.lastMsgId⟩
  rw [h2, ok_bind, modEndPart_notlast _ _ _ hE]

end Autd3.Rt
namespace Autd3.Rt
open Autd3 Autd3.Fw Autd3.Wire Autd3.Gen.Cpu Autd3.Gen

/-- the six "content" clauses of `ModHeld` for any state that agrees with the end-of-copy state `s2`
(cycle register written) outside register 0 and the request/transition registers -/
theorem modHeld_core {s0 sH s2 x : State} {seg : Nat} {tr : Tr} {rep div : Nat} {samples : Array Nat} {c w off : Nat}
    {d : Array Nat} (hseg : seg ≤ 1) (hI : ModInv s0 sH seg tr rep div samples c) (hC : ModCopied sH s2 seg c w d off)
    (hd : ∀ k, k < w → u8at d (off + k) = rd samples (c + k)) (hn : c + w = samples.size) (hn2 : 1 ≤ samples.size)
    (hn3 : samples.size ≤ 65536)
    (hx : ∀ a, a ≠ 0 → a ≠ 34 → ¬(41 ≤ a ∧ a ≤ 45) →
      reg x a = if a = 35 + seg then samples.size - 1 else reg s2 a)
    (hm : ∀ g, Obs.modMem x g = Obs.modMem s2 g) :
    Obs.modBuffer x seg = .ok samples ∧ Obs.modDiv x seg = div ∧ Obs.modRep x seg = rep ∧
      Obs.modCycle x seg = samples.size ∧ Obs.modMem x (1 - seg) = Obs.modMem s0 (1 - seg) ∧
      (Obs.modDiv x (1 - seg) = Obs.modDiv s0 (1 - seg) ∧ Obs.modRep x (1 - seg) = Obs.modRep s0 (1 - seg) ∧
        Obs.modCycle x (1 - seg) = Obs.modCycle s0 (1 - seg)) := by
  have hcyc : reg x (ADDR_MOD_CYCLE0 + seg) = samples.size - 1 := by
    simp only [ADDR_MOD_CYCLE0]; rw [hx _ (by omega) (by omega) (by omega), if_pos rfl]
  have hother : ∀ a, a ≠ 0 → a ≠ 32 → a ≠ 33 → a ≠ 34 → ¬(41 ≤ a ∧ a ≤ 45) → a ≠ 35 + seg → a ≠ 37 + seg → a ≠ 39 + seg →
      reg x a = reg s0 a := by
    intro a h0 h1 h2 h3 h4 h5 h6 h7
    rw [hx a h0 h3 h4, if_neg h5, hC.regs a (by simpa [ADDR_MOD_MEM_WR_PAGE] using h2)]
    exact hI.regs a h0 h1 h2 h6 h7
  refine ⟨?_, ?_, ?_, ?_, ?_, ?_, ?_, ?_⟩
  · apply modBuffer_of_bytes x seg samples hn3 (by rw [hcyc]; omega)
    · rw [hm]; unfold Obs.modMem; split
      · exact hC.mem0
      · exact hC.mem1
    · intro i hi
      rw [hm, hC.bytes i (by omega)]
      by_cases hlo : c ≤ i
      · rw [if_pos hlo, hd _ (by omega)]; congr 1; omega
      · rw [if_neg hlo]; exact hI.bytes i (by omega)
  · unfold Obs.modDiv; simp only [ADDR_MOD_FREQ_DIV0]
    rw [hx _ (by omega) (by omega) (by omega), if_neg (by omega), hC.regs _ (by simp only [ADDR_MOD_MEM_WR_PAGE]; omega)]
    exact hI.divReg
  · unfold Obs.modRep; simp only [ADDR_MOD_REP0]
    rw [hx _ (by omega) (by omega) (by omega), if_neg (by omega), hC.regs _ (by simp only [ADDR_MOD_MEM_WR_PAGE]; omega)]
    exact hI.repReg
  · unfold Obs.modCycle; rw [hcyc]; omega
  · rw [hm, hC.other _ (by rcases (show seg = 0 ∨ seg = 1 by omega) with h | h <;> subst h <;> simp),
      hI.other _ (by rcases (show seg = 0 ∨ seg = 1 by omega) with h | h <;> subst h <;> simp)]
  · unfold Obs.modDiv; simp only [ADDR_MOD_FREQ_DIV0]
    exact hother _ (by omega) (by omega) (by omega) (by omega) (by omega) (by omega) (by omega) (by omega)
  · unfold Obs.modRep; simp only [ADDR_MOD_REP0]
    exact hother _ (by omega) (by omega) (by omega) (by omega) (by omega) (by omega) (by omega) (by omega)
  · unfold Obs.modCycle; simp only [ADDR_MOD_CYCLE0]
    rw [hother _ (by omega) (by omega) (by omega) (by omega) (by omega) (by omega) (by omega) (by omega)]

end Autd3.Rt
namespace Autd3.Rt
open Autd3 Autd3.Fw Autd3.Wire Autd3.Gen.Cpu Autd3.Gen

theorem mod_tail_last_notr {s0 sH : State} {seg : Nat} {rep div : Nat} {samples : Array Nat} {c : Nat}
    (hseg : seg ≤ 1) (hI : ModInv s0 sH seg none rep div samples c) (hc2 : c % 2 = 0) (hc3 : c < 65536)
    (d : Array Nat) (off w flag : Nat)
    (hd : ∀ k, k < w → u8at d (off + k) = rd samples (c + k)) (hn : c + w = samples.size) (hn2 : 1 ≤ samples.size)
    (hn3 : samples.size ≤ 65536)
    (hE : hasFlag flag MODULATION_FLAG_END = true) (hU : hasFlag flag MODULATION_FLAG_UPDATE = false) :
    ∃ sE, (modDataPart sH d off w >>= fun s2 => modEndPart s2 flag seg) = .ok (sE, NO_ERR) ∧ WF sE ∧
      ModHeld s0 sE seg none rep div samples ∧ sE.lastMsgId = sH.lastMsgId := by
  obtain ⟨s2, h2, hC⟩ := modDataPart_ok sH hI.wf d off w seg c hI.cycle hc2 (by omega) hc3 hI.wseg hseg hI.page
  have hW2 := WF_of_ModCopied hI.wf hC
  have hval : (max s2.modCycle 1 - 1) % 65536 = samples.size - 1 := by rw [hC.cycle, hn]; omega
  have hx : ∀ a, reg (wr s2 (ADDR_MOD_CYCLE0 + seg) ((max s2.modCycle 1 - 1) % 65536)) a =
      if a = 35 + seg then samples.size - 1 else reg s2 a := by
    intro a
    rw [reg_wr, hW2.ctl, hval]
    have e35 : ADDR_MOD_CYCLE0 + seg = 35 + seg := rfl
    by_cases h : a = 35 + seg
    · rw [if_pos ⟨h.trans e35.symm, by rw [e35]; omega⟩, if_pos h]; omega
    · rw [if_neg (by intro hh; exact h (hh.1.trans e35)), if_neg h]
  refine ⟨_, by rw [h2, ok_bind, modEndPart_last_notr _ _ _ hseg hE hU], ?_, ?_, ?_⟩
  · exact WF_wr hW2 _ _ (Or.inl (by simp only [ADDR_MOD_CYCLE0, ADDR_MOD_FREQ_DIV0, ADDR_MOD_FREQ_DIV1,
      ADDR_STM_FREQ_DIV0, ADDR_STM_FREQ_DIV1]; omega))
  · obtain ⟨a1, a2, a3, a4, a5, a6⟩ := modHeld_core hseg hI hC hd hn hn2 hn3 (fun a _ _ _ => hx a) (fun g => rfl)
    refine ⟨a1, a2, a3, a4, a5, a6, ?_⟩
    have hreq : ∀ a, a = 34 ∨ (41 ≤ a ∧ a ≤ 45) →
        reg (wr s2 (ADDR_MOD_CYCLE0 + seg) ((max s2.modCycle 1 - 1) % 65536)) a = reg s0 a := by
      intro a ha
      rw [hx a, if_neg (by omega), hC.regs a (by simp only [ADDR_MOD_MEM_WR_PAGE]; omega)]
      exact hI.regs a (by omega) (by omega) (by omega) (by omega) (by omega)
    refine ⟨?_, ?_, ?_⟩
    · show s2.modSwap = _
      rw [hC.frame.modSwap]; exact hI.swap
    · unfold Obs.reqModSeg segReg
      simp only [hreq ADDR_MOD_REQ_RD_SEGMENT (Or.inl rfl)]
    · unfold Obs.modTransition reg64
      simp only [hreq ADDR_MOD_TRANSITION_MODE (Or.inr (by decide)), hreq ADDR_MOD_TRANSITION_VALUE_0 (Or.inr (by decide)),
        hreq (ADDR_MOD_TRANSITION_VALUE_0 + 1) (Or.inr (by decide)), hreq (ADDR_MOD_TRANSITION_VALUE_0 + 2) (Or.inr (by decide)),
        hreq (ADDR_MOD_TRANSITION_VALUE_0 + 3) (Or.inr (by decide))]
  · show s2.lastMsgId = _
    exact hC.frame.lastMsgId

end Autd3.Rt
namespace Autd3.Rt
open Autd3 Autd3.Fw Autd3.Wire Autd3.Gen.Cpu Autd3.Gen

theorem mod_tail_last_tr {s0 sH : State} {seg : Nat} {rep div : Nat} {samples : Array Nat} {c m v : Nat}
    (hseg : seg ≤ 1) (hI : ModInv s0 sH seg (some (m, v)) rep div samples c) (hc2 : c % 2 = 0) (hc3 : c < 65536)
    (d : Array Nat) (off w flag : Nat)
    (hd : ∀ k, k < w → u8at d (off + k) = rd samples (c + k)) (hn : c + w = samples.size) (hn2 : 1 ≤ samples.size)
    (hn3 : samples.size ≤ 65536)
    (hE : hasFlag flag MODULATION_FLAG_END = true) (hU : hasFlag flag MODULATION_FLAG_UPDATE = true)
    (hv : ValidTr m v) (hv64 : v < 18446744073709551616)
    (hmiss : ¬(m = TRANSITION_MODE_SYS_TIME ∧ v < s0.dcSysTime + SYS_TIME_TRANSITION_MARGIN)) :
    ∃ sE, (modDataPart sH d off w >>= fun s2 => modEndPart s2 flag seg) = .ok (sE, NO_ERR) ∧ WF sE ∧
      ModHeld s0 sE seg (some (m, v)) rep div samples ∧ sE.lastMsgId = sH.lastMsgId := by
  obtain ⟨s2, h2, hC⟩ := modDataPart_ok sH hI.wf d off w seg c hI.cycle hc2 (by omega) hc3 hI.wseg hseg hI.page
  have hW2 := WF_of_ModCopied hI.wf hC
  have hval : (max s2.modCycle 1 - 1) % 65536 = samples.size - 1 := by rw [hC.cycle, hn]; omega
  have hx : ∀ a, reg (wr s2 (ADDR_MOD_CYCLE0 + seg) ((max s2.modCycle 1 - 1) % 65536)) a =
      if a = 35 + seg then samples.size - 1 else reg s2 a := by
    intro a
    rw [reg_wr, hW2.ctl, hval]
    have e35 : ADDR_MOD_CYCLE0 + seg = 35 + seg := rfl
    by_cases h : a = 35 + seg
    · rw [if_pos ⟨h.trans e35.symm, by rw [e35]; omega⟩, if_pos h]; omega
    · rw [if_neg (by intro hh; exact h (hh.1.trans e35)), if_neg h]
  have hWW : WF (wr s2 (ADDR_MOD_CYCLE0 + seg) ((max s2.modCycle 1 - 1) % 65536)) :=
    WF_wr hW2 _ _ (Or.inl (by simp only [ADDR_MOD_CYCLE0, ADDR_MOD_FREQ_DIV0, ADDR_MOD_FREQ_DIV1,
      ADDR_STM_FREQ_DIV0, ADDR_STM_FREQ_DIV1]; omega))
  have htm : s2.modTrMode = m := by rw [hC.frame.modTrMode, hI.trMode]; rfl
  have htv : s2.modTrValue = v := by rw [hC.frame.modTrValue, hI.trValue]; rfl
  have htime : (wr s2 (ADDR_MOD_CYCLE0 + seg) ((max s2.modCycle 1 - 1) % 65536)).dcSysTime = s0.dcSysTime := by
    rw [wr_dcSysTime, hC.frame.dcSysTime, hI.time]
  have hsw : (wr s2 (ADDR_MOD_CYCLE0 + seg) ((max s2.modCycle 1 - 1) % 65536)).modSwap = s0.modSwap := by
    rw [wr_modSwap, hC.frame.modSwap, hI.swap]
  generalize hsW : wr s2 (ADDR_MOD_CYCLE0 + seg) ((max s2.modCycle 1 - 1) % 65536) = sW at hx hWW htime hsw
  obtain ⟨w', hu, hset, hW1, hregs, h64⟩ := modSegmentUpdate_ok sW hWW seg m v hseg hv hv64 (by rw [htime]; exact hmiss)
  refine ⟨_, ?_, hW1, ?_, ?_⟩
  · rw [h2, ok_bind, modEndPart_last_tr _ _ _ hseg hE hU, hsW, htm, htv, hu]
  · have hm : ∀ g, Obs.modMem (modReqPost sW seg m v w') g = Obs.modMem s2 g := by
      intro g; rw [← hsW]; unfold Obs.modMem; simp [modReqPost]
    obtain ⟨a1, a2, a3, a4, a5, a6⟩ := modHeld_core (x := modReqPost sW seg m v w') hseg hI hC hd hn hn2 hn3
      (fun a h0 h34 h41 => by
        rw [hregs a h0, if_neg (by omega), if_neg h34, if_neg (by omega)]; exact hx a) hm
    refine ⟨a1, a2, a3, a4, a5, a6, ?_, ?_, ?_⟩
    · unfold Obs.reqModSeg segReg
      simp only [hregs _ (show ADDR_MOD_REQ_RD_SEGMENT ≠ 0 by decide)]
      simp [ADDR_MOD_REQ_RD_SEGMENT, hseg]
    · unfold Obs.modTransition
      rw [h64, hregs _ (by decide)]
      exact decodeTMode_valid _ _ _ hv
    · have e1 : reg sW (ADDR_MOD_REP0 + seg) = rep := by
        simp only [ADDR_MOD_REP0]
        rw [hx, if_neg (by omega), hC.regs _ (by simp only [ADDR_MOD_MEM_WR_PAGE]; omega)]; exact hI.repReg
      have e2 : reg sW (ADDR_MOD_FREQ_DIV0 + seg) = div := by
        simp only [ADDR_MOD_FREQ_DIV0]
        rw [hx, if_neg (by omega), hC.regs _ (by simp only [ADDR_MOD_MEM_WR_PAGE]; omega)]; exact hI.divReg
      have e3 : reg sW (ADDR_MOD_CYCLE0 + seg) + 1 = samples.size := by
        simp only [ADDR_MOD_CYCLE0]; rw [hx, if_pos rfl]; omega
      rw [e1, e2, e3, hsw, htime] at hset
      have : (modReqPost sW seg m v w').modSwap = w' := by simp [modReqPost]
      rw [this]; exact hset
  · have : (modReqPost sW seg m v w').lastMsgId = sW.lastMsgId := by simp [modReqPost]
    rw [this, ← hsW, wr_lastMsgId]; exact hC.frame.lastMsgId

end Autd3.Rt
