import Autd3.Lemmas.Tuple2GstmA
/-!
General tuples, GainSTM instance, part B: the chunk protocol `gstmProto` of a GainSTM datagram (three modes) and
its laws.  `Mid s0 s c` is the inter-frame invariant `GInv` with the state itself as base, plus the own-side
facts relative to the base `s0` that survive the other tuple member's handlers, the two CPU latches the
Modulation's strict-silencer guard reads, and the integer-level side conditions.
-/
set_option linter.unusedSimpArgs false
open Autd3 Autd3.Fw Autd3.Wire Autd3.Gen.Cpu Autd3.Gen Autd3.Rt
namespace Autd3.Tuple2

/-- own-side facts relative to the base that survive the other member's handlers -/
structure GBase (s0 s : State) (seg : Nat) (tr : Tr) (div : Nat) : Prop where
  other : ∀ g, (g = 0) ≠ (seg = 0) → Obs.stmMem s g = Obs.stmMem s0 g
  regs : ∀ a, 82 ≤ a → a ≤ 99 → a ≠ 85 + seg → a ≠ 87 + seg → a ≠ 89 + seg → reg s a = reg s0 a
  swap : s.stmSwap = s0.stmSwap
  time : s.dcSysTime = s0.dcSysTime
  numTr : s.numTr = s0.numTr
  div : s.stmDiv = setSel s0.stmDiv seg div
  segm : s.stmSegment = (if trMode tr = TRANSITION_MODE_NONE then s0.stmSegment else seg)

structure GMid (mode seg : Nat) (tr : Tr) (rep div : Nat) (patterns : Array (Array Nat)) (s0 s : State) (c : Nat) : Prop where
  inv : GInv s s seg tr rep div mode patterns c
  base : GBase s0 s seg tr div
  ok : GOK s0 mode seg tr rep div patterns
  c0 : 0 < c
  cm : c % perFrame mode = 0

structure GDone (mode seg : Nat) (tr : Tr) (rep div : Nat) (patterns : Array (Array Nat)) (s0 s : State) : Prop where
  wf : WF s
  held : GHeld s0 s seg tr rep div mode patterns
  hseg : seg ≤ 1
  numTr : s.numTr = s0.numTr
  sdiv : s.stmDiv = setSel s0.stmDiv seg div
  segm : s.stmSegment = (if trMode tr = TRANSITION_MODE_NONE then s0.stmSegment else seg)
  foci : ∀ a, 91 ≤ a → a ≤ 94 → reg s a = reg s0 a
  swapDet : ∀ m v, tr = some (m, v) →
    s0.stmSwap.set s0.dcSysTime rep div patterns.size seg (tmodeOf m v) = .ok s.stmSwap

theorem StmSame_of_KeepS {s s' : State} (K : KeepS s s') : StmSame s s' :=
  ⟨K.mem0, K.mem1, K.swap, K.phaseCorr, K.numTr, K.regs, K.cycle, K.mode, K.rep, K.div, K.segment⟩

theorem gstmKeepS_io (s : State) (a l r : Nat) : KeepS s { s with ack := a, lastMsgId := l, rxData := r } :=
  ⟨rfl, rfl, rfl, rfl, rfl, rfl, rfl, rfl, rfl, rfl, rfl, rfl, rfl, fun _ _ _ => rfl, rfl, rfl, rfl⟩

theorem gstmKeepS_fin (s : State) (id : Nat) : KeepS s (fin s id) :=
  ⟨rfl, rfl, rfl, rfl, rfl, rfl, rfl, rfl, rfl, rfl, rfl, rfl, rfl, fun a h _ => reg_fin s id a (by omega), rfl, rfl, rfl⟩

theorem stmMem_keep {s s' : State} (K : KeepS s s') (g : Nat) : Obs.stmMem s' g = Obs.stmMem s g := by
  unfold Obs.stmMem; rw [K.mem0, K.mem1]

theorem GInv_self {s0 s : State} {seg : Nat} {tr : Tr} {rep div mode : Nat} {patterns : Array (Array Nat)} {c : Nat}
    (h : GInv s0 s seg tr rep div mode patterns c) : GInv s s seg tr rep div mode patterns c :=
  ⟨h.wf, h.cyc, h.gmode, h.wseg, h.page, fun idx hidx i hi => h.rows idx hidx i (by rw [← h.numTr]; exact hi),
    fun _ _ => rfl, h.trMode, h.trValue, h.divReg, h.repReg, h.modeReg, fun _ _ _ _ _ _ _ => rfl, rfl, rfl, rfl⟩

theorem GInv_keep {s s' : State} {seg : Nat} {tr : Tr} {rep div mode : Nat} {patterns : Array (Array Nat)} {c : Nat}
    (h : GInv s s seg tr rep div mode patterns c) (K : KeepS s s') (hW : WF s') (hseg : seg ≤ 1) :
    GInv s' s' seg tr rep div mode patterns c := by
  refine ⟨hW, by rw [K.cycle]; exact h.cyc, by rw [K.gainStmMode]; exact h.gmode,
    by rw [K.regs _ (by decide) (by decide)]; exact h.wseg, by rw [K.regs _ (by decide) (by decide)]; exact h.page,
    ?_, fun _ _ => rfl, by rw [K.trMode]; exact h.trMode, by rw [K.trValue]; exact h.trValue,
    by rw [K.regs _ (by omega) (by omega)]; exact h.divReg, by rw [K.regs _ (by omega) (by omega)]; exact h.repReg,
    by rw [K.regs _ (by omega) (by omega)]; exact h.modeReg, fun _ _ _ _ _ _ _ => rfl, rfl, rfl, rfl⟩
  intro idx hidx i hi
  rw [stmMem_keep K]
  exact h.rows idx hidx i (by rw [← K.numTr]; exact hi)

theorem GBase_keep {s0 s s' : State} {seg : Nat} {tr : Tr} {div : Nat} (B : GBase s0 s seg tr div) (K : KeepS s s') :
    GBase s0 s' seg tr div :=
  ⟨fun g hg => by rw [stmMem_keep K]; exact B.other g hg,
    fun a h1 h2 h3 h4 h5 => by rw [K.regs a (by omega) h2]; exact B.regs a h1 h2 h3 h4 h5,
    by rw [K.swap]; exact B.swap, by rw [K.time]; exact B.time, by rw [K.numTr]; exact B.numTr,
    by rw [K.div]; exact B.div, by rw [K.segment]; exact B.segm⟩

/-- the BEGIN frame: base = the state the handler was called on -/
theorem GBase_first {sH s2 : State} {seg : Nat} {tr : Tr} {rep div mode : Nat} {patterns : Array (Array Nat)} {c : Nat}
    (hI : GInv sH s2 seg tr rep div mode patterns c) (hd : s2.stmDiv = setSel sH.stmDiv seg div)
    (hs : s2.stmSegment = (if trMode tr = TRANSITION_MODE_NONE then sH.stmSegment else seg)) : GBase sH s2 seg tr div :=
  ⟨hI.other, fun a h1 h2 h3 h4 h5 => hI.regs a (by omega) (by omega) (by omega) h3 h4 h5, hI.swap, hI.time, hI.numTr, hd, hs⟩

/-- a following frame -/
theorem GBase_next {s0 sH s2 : State} {seg : Nat} {tr : Tr} {rep div mode : Nat} {patterns : Array (Array Nat)} {c : Nat}
    (B : GBase s0 sH seg tr div) (hI : GInv sH s2 seg tr rep div mode patterns c) (hd : s2.stmDiv = sH.stmDiv)
    (hs : s2.stmSegment = sH.stmSegment) : GBase s0 s2 seg tr div :=
  ⟨fun g hg => (hI.other g hg).trans (B.other g hg),
    fun a h1 h2 h3 h4 h5 => (hI.regs a (by omega) (by omega) (by omega) h3 h4 h5).trans (B.regs a h1 h2 h3 h4 h5),
    hI.swap.trans B.swap, hI.time.trans B.time, hI.numTr.trans B.numTr, hd.trans B.div, hs.trans B.segm⟩

theorem GHeld_keep {s0 s s' : State} {seg : Nat} {tr : Tr} {rep div mode : Nat} {patterns : Array (Array Nat)}
    (h : GHeld s0 s seg tr rep div mode patterns) (K : StmSame s s') (hseg : seg ≤ 1) :
    GHeld s0 s' seg tr rep div mode patterns := by
  obtain ⟨om, og, o1, o2, _, _⟩ := obs_stm_same K
  obtain ⟨a1, a2, a3, a4, _⟩ := og seg hseg
  obtain ⟨c1, c2, c3, c4, _⟩ := og (1 - seg) (by omega)
  refine ⟨by intro idx hidx i hi; rw [om]; exact h.rows idx hidx i hi, by rw [a1]; exact h.hcycle,
    by rw [a4]; exact h.hmode, by rw [a2]; exact h.hdiv, by rw [a3]; exact h.hrep, by rw [K.cpu.2.1]; exact h.cpuMode,
    by rw [om]; exact h.otherMem, by rw [c2, c3, c1, c4]; exact h.otherRegs, ?_⟩
  have := h.req
  cases tr with
  | none => simp only [o1, o2, K.swap]; exact this
  | some mv => obtain ⟨m, v⟩ := mv; simp only [o1, o2, K.swap]; exact this

theorem GHeld_rebase {s0 sH sE : State} {seg : Nat} {tr : Tr} {rep div mode : Nat} {patterns : Array (Array Nat)}
    (h : GHeld sH sE seg tr rep div mode patterns) (B : GBase s0 sH seg tr div) (hseg : seg ≤ 1) :
    GHeld s0 sE seg tr rep div mode patterns := by
  have hr : ∀ a, a = 82 ∨ (95 ≤ a ∧ a ≤ 99) → reg sH a = reg s0 a :=
    fun a ha => B.regs a (by omega) (by omega) (by omega) (by omega) (by omega)
  have ho : ∀ a, 83 ≤ a → a ≤ 90 → a ≠ 83 + seg → a ≠ 85 + seg → a ≠ 87 + seg → a ≠ 89 + seg → reg sH a = reg s0 a :=
    fun a h1 h2 _ h4 h5 h6 => B.regs a (by omega) (by omega) h4 h5 h6
  have e1 : Obs.reqStmSeg sH = Obs.reqStmSeg s0 := by
    unfold Obs.reqStmSeg segReg
    simp only [hr ADDR_STM_REQ_RD_SEGMENT (Or.inl rfl)]
  have e2 : Obs.stmTransition sH = Obs.stmTransition s0 := by
    unfold Obs.stmTransition reg64
    simp only [hr ADDR_STM_TRANSITION_MODE (Or.inr (by decide)), hr ADDR_STM_TRANSITION_VALUE_0 (Or.inr (by decide)),
      hr (ADDR_STM_TRANSITION_VALUE_0 + 1) (Or.inr (by decide)), hr (ADDR_STM_TRANSITION_VALUE_0 + 2) (Or.inr (by decide)),
      hr (ADDR_STM_TRANSITION_VALUE_0 + 3) (Or.inr (by decide))]
  refine ⟨fun idx hidx i hi => h.rows idx hidx i (by rw [B.numTr]; exact hi), h.hcycle, h.hmode, h.hdiv, h.hrep, h.cpuMode,
    ?_, ?_, ?_⟩
  · rw [h.otherMem]
    exact B.other _ (by rcases (show seg = 0 ∨ seg = 1 by omega) with h | h <;> subst h <;> simp)
  · obtain ⟨r1, r2, r3, r4⟩ := h.otherRegs
    rw [r1, r2, r3, r4]
    refine ⟨?_, ?_, ?_, ?_⟩
    · unfold Obs.stmDiv; simp only [ADDR_STM_FREQ_DIV0]
      exact ho _ (by omega) (by omega) (by omega) (by omega) (by omega) (by omega)
    · unfold Obs.stmRep; simp only [ADDR_STM_REP0]
      exact ho _ (by omega) (by omega) (by omega) (by omega) (by omega) (by omega)
    · unfold Obs.stmCycle; simp only [ADDR_STM_CYCLE0]
      rw [ho _ (by omega) (by omega) (by omega) (by omega) (by omega) (by omega)]
    · have : reg sH (ADDR_STM_MODE0 + (1 - seg)) = reg s0 (ADDR_STM_MODE0 + (1 - seg)) := by
        simp only [ADDR_STM_MODE0]
        exact ho _ (by omega) (by omega) (by omega) (by omega) (by omega) (by omega)
      unfold Obs.isStmGainMode; rw [this]
  · have := h.req
    cases tr with
    | none =>
      simp only [e1, e2, B.swap] at this
      exact this
    | some mv =>
      obtain ⟨m, v⟩ := mv
      simp only [B.swap, B.time] at this
      exact this

theorem GMid_other {mode seg : Nat} {tr : Tr} {rep div : Nat} {patterns : Array (Array Nat)} {s0 s s' : State} {c : Nat}
    (h : GMid mode seg tr rep div patterns s0 s c) (K : KeepS s s') (hW : WF s') : GMid mode seg tr rep div patterns s0 s' c :=
  ⟨GInv_keep h.inv K hW h.ok.hseg, GBase_keep h.base K, h.ok, h.c0, h.cm⟩

theorem GDone_other {mode seg : Nat} {tr : Tr} {rep div : Nat} {patterns : Array (Array Nat)} {s0 s s' : State}
    (h : GDone mode seg tr rep div patterns s0 s) (K : KeepS s s') (hW : WF s') : GDone mode seg tr rep div patterns s0 s' :=
  ⟨hW, GHeld_keep h.held (StmSame_of_KeepS K) h.hseg, h.hseg, by rw [K.numTr]; exact h.numTr, by rw [K.div]; exact h.sdiv,
    by rw [K.segment]; exact h.segm, fun a h1 h2 => by rw [K.regs a (by omega) (by omega)]; exact h.foci a h1 h2,
    fun m v e => by rw [K.swap]; exact h.swapDet m v e⟩

/-! ### one frame: the part of the handler after the header -/

theorem gstm_tail_step {sH sT : State} {mode seg : Nat} {tr : Tr} {rep div : Nat} {patterns : Array (Array Nat)} {c : Nat}
    (H : GOK sH mode seg tr rep div patterns) (hI : GInv sH sT seg tr rep div mode patterns c)
    (hcm : c % perFrame mode = 0) (hcn : c < patterns.size) (first : Bool) (d : Array Nat) (off send : Nat)
    (hsend : min (perFrame mode) (patterns.size - c) = send)
    (hd : ∀ j, j < (gstmFns mode send).length → ∀ i, i < sH.numTr →
      nthF (gstmFns mode send) j (u16at d (off + 2 * i)) % 65536 = expDrive mode (rd (patAt patterns (c + j)) i)) :
    ∃ s2, gstmTail sT d off (gstmFlagByte first (decide (c + send = patterns.size)) tr.isSome seg send) seg = .ok (s2, NO_ERR) ∧
      s2.lastMsgId = sT.lastMsgId ∧ s2.stmDiv = sT.stmDiv ∧ s2.stmSegment = sT.stmSegment ∧
      (if c + send < patterns.size then GInv sH s2 seg tr rep div mode patterns (c + send)
       else WF s2 ∧ GHeld sH s2 seg tr rep div mode patterns ∧ ∀ m v, tr = some (m, v) →
         sH.stmSwap.set sH.dcSysTime rep div patterns.size seg (tmodeOf m v) = .ok s2.stmSwap) := by
  have hpf := perFrame_bounds mode
  have hsz := H.size
  have hs : 1 ≤ send ∧ send ≤ perFrame mode := by omega
  obtain ⟨bl, b1, b2, b3, b4, b5⟩ := gstmFlagByte_bits first (decide (c + send = patterns.size)) tr.isSome seg send H.hseg
    (by omega)
  generalize gstmFlagByte first (decide (c + send = patterns.size)) tr.isSome seg send = flag at bl b1 b2 b3 b4 b5 ⊢
  have hlen := gstmFns_length mode send H.hmode hs
  have hpg := perFrame_page mode c H.hmode hcm
  have keep : ∀ s2 e, gstmTail sT d off flag seg = .ok (s2, e) → s2.stmDiv = sT.stmDiv ∧ s2.stmSegment = sT.stmSegment :=
    fun s2 e h => ⟨(gstmTail_keeps H.hseg hI.wf.ctl hI.wf.flags h).1, (gstmTail_keeps H.hseg hI.wf.ctl hI.wf.flags h).2.1⟩
  by_cases hl : c + send = patterns.size
  · have hE : hasFlag flag GAIN_STM_FLAG_END = true := by rw [b2]; exact decide_eq_true hl
    have hU : hasFlag flag GAIN_STM_FLAG_UPDATE = tr.isSome := by rw [b3, decide_eq_true hl, Bool.true_and]
    have hfin : ∃ sE, gstmTail sT d off flag seg = .ok (sE, NO_ERR) ∧ WF sE ∧
        GHeld sH sE seg tr rep div mode patterns ∧ sE.lastMsgId = sT.lastMsgId ∧ ∀ m v, tr = some (m, v) →
          sH.stmSwap.set sH.dcSysTime rep div patterns.size seg (tmodeOf m v) = .ok sE.stmSwap := by
      cases htr : tr with
      | none =>
        subst htr
        obtain ⟨sE, h1, h2, h3, h4⟩ := g_tail_last_notr H.hseg H.hmode hI d off flag (by rw [b5, hlen]; exact hl)
          ⟨by omega, hsz.2⟩ (by rw [b5, hlen]; omega) (by rw [b5]; exact hd) hE (by rw [hU]; rfl)
        exact ⟨sE, h1, h2, h3, h4, fun _ _ e => by cases e⟩
      | some mv =>
        obtain ⟨m, v⟩ := mv
        subst htr
        obtain ⟨hv, hv64, hmiss⟩ := H.htr m v rfl
        obtain ⟨sE, h1, h2, h3, h4⟩ := g_tail_last_tr H.hseg H.hmode hI d off flag (by rw [b5, hlen]; exact hl)
          ⟨by omega, hsz.2⟩ (by rw [b5, hlen]; omega) (by rw [b5]; exact hd) hE (by rw [hU]; rfl) hv hv64 hmiss
        refine ⟨sE, h1, h2, h3, h4, fun m' v' e => ?_⟩
        cases e
        exact g_tail_last_swapDet H.hseg H.hmode hI d off flag (by rw [b5, hlen]; exact hl)
          ⟨by omega, hsz.2⟩ (by rw [b5, hlen]; omega) hE (by rw [hU]; rfl) hv hv64 hmiss sE _ h1
    obtain ⟨sE, h1, hWE, hHeld, hlast, hdet⟩ := hfin
    refine ⟨sE, h1, hlast, (keep sE _ h1).1, (keep sE _ h1).2, ?_⟩
    rw [if_neg (by omega)]
    exact ⟨hWE, hHeld, hdet⟩
  · have hE : hasFlag flag GAIN_STM_FLAG_END = false := by rw [b2]; exact decide_eq_false hl
    obtain ⟨s2, h1, hI2, hlast⟩ := g_tail_nonlast H.hseg H.hmode hI d off flag (by rw [b5, hlen]; omega)
      (by rw [b5, hlen]; omega) (by rw [b5]; exact hd) hE
    rw [b5, hlen] at hI2
    refine ⟨s2, h1, hlast, (keep s2 _ h1).1, (keep s2 _ h1).2, ?_⟩
    rw [if_pos (by omega)]
    exact hI2

/-! ### the two kinds of frames, at any offset -/

/-- what the BEGIN frame needs of the state its handler is called on -/
def GReady (mode seg : Nat) (tr : Tr) (rep div : Nat) (patterns : Array (Array Nat)) (sH : State) : Prop :=
  WF sH ∧ GOK sH mode seg tr rep div patterns ∧ validateTransitionMode sH.stmSegment seg rep (trMode tr) = false ∧
    validateSilencerSettings sH div (sel sH.modDiv sH.modSegment) = false

theorem gstm_step_next (mode seg : Nat) (tr : Tr) (rep div : Nat) (patterns : Array (Array Nat))
    (hsz : 2 ≤ patterns.size ∧ patterns.size ≤ 1024) (c nt : Nat) (b : Array Nat) (k : Nat) (hc0 : 0 < c)
    (hcn : c < patterns.size) (hb : b.size = 622) (hk : k + (2 + nt * 2) ≤ 622) :
    ∃ b', (gstmOp mode seg tr rep div patterns c).pack nt b k =
        .ok (gstmOp mode seg tr rep div patterns (c + min (perFrame mode) (patterns.size - c)), b', 2 + nt * 2) ∧
      ∀ s0 sH, GMid mode seg tr rep div patterns s0 sH c → sH.numTr = nt → ∀ b'', b''.size = 622 →
        (∀ i, k ≤ i → i < k + (2 + nt * 2) → rd b'' i = rd b' i) →
        ∃ s2, handlePayload sH (b''.extract k 622) = .ok (s2, NO_ERR) ∧ s2.lastMsgId = sH.lastMsgId ∧
          (if c + min (perFrame mode) (patterns.size - c) < patterns.size
            then GMid mode seg tr rep div patterns s0 s2 (c + min (perFrame mode) (patterns.size - c))
            else GDone mode seg tr rep div patterns s0 s2) ∧ Foot eraseS TS sH s2 := by
  refine ⟨_, pack_gstm_next_at mode seg tr rep div patterns nt b k c hb hk hsz hc0 hcn, ?_⟩
  intro s0 sH hM hnt b'' hb'' hag
  have H := hM.ok
  have hseg := H.hseg
  have hpf := perFrame_bounds mode
  generalize hsend : min (perFrame mode) (patterns.size - c) = send at hag ⊢
  have hs : 1 ≤ send ∧ send ≤ perFrame mode := by omega
  obtain ⟨hfl, _⟩ := gstmWireFlag_eq (decide (c + send = patterns.size)) tr.isSome seg send H.hseg (by omega)
  rw [hfl] at hag
  obtain ⟨bl, _⟩ := gstmFlagByte_bits false (decide (c + send = patterns.size)) tr.isSome seg send H.hseg (by omega)
  obtain ⟨p0, p1, pdx, psz⟩ := gstmNextAt_payload b patterns k mode nt c send
    (gstmFlagByte false (decide (c + send = patterns.size)) tr.isSome seg send) hb (by omega) bl
  have hdat := gstm_hd mode (k + 2) nt patterns c b send _ H.hmode hb (by omega) hs pdx H.drives
  generalize gstmNextPayloadAt b patterns k mode nt c send
    (gstmFlagByte false (decide (c + send = patterns.size)) tr.isSome seg send) = b' at hag p0 p1 pdx psz hdat
  have q0 : u8at (b''.extract k 622) 0 = 65 := by rw [u8at_view b' b'' k _ hb'' hag 0 (by omega)]; exact p0
  have q1 : u8at (b''.extract k 622) 1 = gstmFlagByte false (decide (c + send = patterns.size)) tr.isSome seg send := by
    rw [u8at_view b' b'' k _ hb'' hag 1 (by omega)]; exact p1
  have hd : ∀ j, j < (gstmFns mode send).length → ∀ i, i < sH.numTr →
      nthF (gstmFns mode send) j (u16at (b''.extract k 622) (2 + 2 * i)) % 65536 =
        expDrive mode (rd (patAt patterns (c + j)) i) := by
    intro j hj i hi
    rw [u16at_view b' b'' k _ hb'' hag (2 + 2 * i) (by omega), show k + (2 + 2 * i) = k + 2 + 2 * i from by omega]
    exact hdat j hj i (by omega)
  generalize b''.extract k 622 = d at q0 q1 hd ⊢
  have heq := gstm_next_handle_eq sH d seg send H.hseg (by omega) (decide (c + send = patterns.size)) tr.isSome q0 q1
  have H' : GOK sH mode seg tr rep div patterns :=
    ⟨H.hseg, H.hmode, H.size, H.drives, H.hrep, H.hdiv, fun m v e => by rw [hM.base.time]; exact H.htr m v e⟩
  obtain ⟨s2, h1, hl, hdv, hsg, hpost⟩ := gstm_tail_step H' hM.inv hM.cm hcn false d 2 send hsend hd
  have hh : handlePayload sH d = .ok (s2, NO_ERR) := by rw [heq]; exact h1
  have hw : Foot eraseS TG sH s2 :=
    writeGainStm_foot sH d hM.inv.wf.ctl hM.inv.wf.flags s2 NO_ERR (by rw [← dispatch_gstm _ _ q0]; exact hh)
  refine ⟨s2, hh, hl, ?_, hw.mono TG_TS⟩
  by_cases hlt : c + send < patterns.size
  · rw [if_pos hlt] at hpost ⊢
    have hw' : send = perFrame mode := by omega
    exact ⟨GInv_self hpost, GBase_next hM.base hpost hdv hsg, H, by omega,
      by rw [hw']; exact perFrame_step mode c H.hmode hM.cm⟩
  · rw [if_neg hlt] at hpost ⊢
    have hnum : s2.numTr = sH.numTr := by have := congrArg State.numTr hw.eq; exact this
    exact ⟨hpost.1, GHeld_rebase hpost.2.1 hM.base H.hseg, H.hseg, hnum.trans hM.base.numTr, hdv.trans hM.base.div,
      hsg.trans hM.base.segm, fun a h1 h2 => (hw.regs a (by unfold TG; omega)).trans
        (hM.base.regs a (by omega) (by omega) (by omega) (by omega) (by omega)),
      fun m v e => by rw [← hM.base.swap, ← hM.base.time]; exact hpost.2.2 m v e⟩

theorem gstm_step_first (mode seg : Nat) (tr : Tr) (rep div : Nat) (patterns : Array (Array Nat))
    (hsz : 2 ≤ patterns.size ∧ patterns.size ≤ 1024) (nt : Nat) (b : Array Nat) (k : Nat) (hb : b.size = 622)
    (hk : k + (16 + nt * 2) ≤ 622) :
    ∃ b', (gstmOp mode seg tr rep div patterns 0).pack nt b k =
        .ok (gstmOp mode seg tr rep div patterns (min (perFrame mode) patterns.size), b', 16 + nt * 2) ∧
      ∀ sH, GReady mode seg tr rep div patterns sH → sH.numTr = nt → ∀ b'', b''.size = 622 →
        (∀ i, k ≤ i → i < k + (16 + nt * 2) → rd b'' i = rd b' i) →
        ∃ s2, handlePayload sH (b''.extract k 622) = .ok (s2, NO_ERR) ∧ s2.lastMsgId = sH.lastMsgId ∧
          (if min (perFrame mode) patterns.size < patterns.size
            then GMid mode seg tr rep div patterns sH s2 (min (perFrame mode) patterns.size)
            else GDone mode seg tr rep div patterns sH s2) ∧ Foot eraseS TS sH s2 := by
  refine ⟨_, pack_gstm_first_at mode seg tr rep div patterns nt b k hb hk hsz, ?_⟩
  intro sH hR hnt b'' hb'' hag
  obtain ⟨hWF, H, g1, g2⟩ := hR
  have hpf := perFrame_bounds mode
  obtain ⟨htm, htv⟩ := g_trMode_lt H
  generalize hsend : min (perFrame mode) patterns.size = send at hag ⊢
  have hs : 1 ≤ send ∧ send ≤ perFrame mode := by omega
  obtain ⟨_, hfl⟩ := gstmWireFlag_eq (decide (send = patterns.size)) tr.isSome seg send H.hseg (by omega)
  rw [hfl] at hag
  obtain ⟨bl, _⟩ := gstmFlagByte_bits true (decide (send = patterns.size)) tr.isSome seg send H.hseg (by omega)
  obtain ⟨p0, p1, p2, p3, p4, p6, p8, pdx, psz⟩ := gstmFirstAt_payload b patterns k mode nt send
    (gstmFlagByte true (decide (send = patterns.size)) tr.isSome seg send) (trMode tr) div rep (trValue tr) hb (by omega) bl
  rw [Nat.mod_eq_of_lt (show mode < 256 by have := H.hmode; omega)] at p2
  rw [Nat.mod_eq_of_lt htm] at p3
  rw [Nat.mod_eq_of_lt H.hdiv.2] at p4
  rw [Nat.mod_eq_of_lt H.hrep] at p6
  rw [Nat.mod_eq_of_lt htv] at p8
  have hdat := gstm_hd mode (k + 16) nt patterns 0 b send _ H.hmode hb (by omega) hs pdx H.drives
  generalize gstmFirstPayloadAt b patterns k mode nt send
    (gstmFlagByte true (decide (send = patterns.size)) tr.isSome seg send) (trMode tr) div rep (trValue tr) = b'
    at hag p0 p1 p2 p3 p4 p6 p8 pdx psz hdat
  have q0 : u8at (b''.extract k 622) 0 = 65 := by rw [u8at_view b' b'' k _ hb'' hag 0 (by omega)]; exact p0
  have q1 : u8at (b''.extract k 622) 1 = gstmFlagByte true (decide (send = patterns.size)) tr.isSome seg send := by
    rw [u8at_view b' b'' k _ hb'' hag 1 (by omega)]; exact p1
  have q2 : u8at (b''.extract k 622) 2 = mode := by rw [u8at_view b' b'' k _ hb'' hag 2 (by omega)]; exact p2
  have q3 : u8at (b''.extract k 622) 3 = trMode tr := by rw [u8at_view b' b'' k _ hb'' hag 3 (by omega)]; exact p3
  have q4 : u16at (b''.extract k 622) 4 = div := by rw [u16at_view b' b'' k _ hb'' hag 4 (by omega)]; exact p4
  have q6 : u16at (b''.extract k 622) 6 = rep := by rw [u16at_view b' b'' k _ hb'' hag 6 (by omega)]; exact p6
  have q8 : u64at (b''.extract k 622) 8 = trValue tr := by rw [u64at_view b' b'' k _ hb'' hag 8 (by omega)]; exact p8
  have hd : ∀ j, j < (gstmFns mode send).length → ∀ i, i < sH.numTr →
      nthF (gstmFns mode send) j (u16at (b''.extract k 622) (16 + 2 * i)) % 65536 =
        expDrive mode (rd (patAt patterns (0 + j)) i) := by
    intro j hj i hi
    rw [u16at_view b' b'' k _ hb'' hag (16 + 2 * i) (by omega), show k + (16 + 2 * i) = k + 16 + 2 * i from by omega]
    exact hdat j hj i (by omega)
  generalize b''.extract k 622 = d at q0 q1 q2 q3 q4 q6 q8 hd ⊢
  have heq := gstm_first_handle_eq sH d seg rep div (trMode tr) (trValue tr) mode send H.hseg (by omega)
    (decide (send = patterns.size)) tr.isSome q0 q1 q2 q3 q4 q6 q8 g1 g2
  have hI0 : GInv sH (gstmHead sH seg rep div (trMode tr) (trValue tr) mode) seg tr rep div mode patterns 0 :=
    GInv_head sH hWF sH.lastMsgId sH.rxData seg H.hseg tr rep div mode patterns H.hrep H.hdiv
  have ht := gstm_tail_step H hI0 (Nat.zero_mod _) (by omega) true d 16 send (by rw [Nat.sub_zero]; exact hsend) hd
  simp only [Nat.zero_add] at ht
  obtain ⟨s2, h1, hl, hdv, hsg, hpost⟩ := ht
  have e0 : (gstmHead sH seg rep div (trMode tr) (trValue tr) mode).lastMsgId = sH.lastMsgId := by simp [gstmHead]
  have e1 : (gstmHead sH seg rep div (trMode tr) (trValue tr) mode).stmDiv = setSel sH.stmDiv seg div := by simp [gstmHead]
  have e2 : (gstmHead sH seg rep div (trMode tr) (trValue tr) mode).stmSegment =
      (if trMode tr = TRANSITION_MODE_NONE then sH.stmSegment else seg) := by
    have : (gstmHead sH seg rep div (trMode tr) (trValue tr) mode).stmSegment =
        (if trMode tr ≠ TRANSITION_MODE_NONE then seg else sH.stmSegment) := by simp [gstmHead]
    rw [this]
    by_cases h : trMode tr = TRANSITION_MODE_NONE
    · rw [if_pos h, if_neg (by intro hh; exact hh h)]
    · rw [if_neg h, if_pos h]
  have hh : handlePayload sH d = .ok (s2, NO_ERR) := by rw [heq]; exact h1
  have hw : Foot eraseS TG sH s2 :=
    writeGainStm_foot sH d hWF.ctl hWF.flags s2 NO_ERR (by rw [← dispatch_gstm _ _ q0]; exact hh)
  refine ⟨s2, hh, hl.trans e0, ?_, hw.mono TG_TS⟩
  by_cases hlt : send < patterns.size
  · rw [if_pos hlt] at hpost ⊢
    have hw' : send = perFrame mode := by omega
    exact ⟨GInv_self hpost, GBase_first hpost (hdv.trans e1) (hsg.trans e2), H, by omega,
      by rw [hw']; exact Nat.mod_self _⟩
  · rw [if_neg hlt] at hpost ⊢
    have hnum : s2.numTr = sH.numTr := by have := congrArg State.numTr hw.eq; exact this
    exact ⟨hpost.1, hpost.2.1, H.hseg, hnum, hdv.trans e1, hsg.trans e2, fun a h1 h2 => hw.regs a (by unfold TG; omega),
      hpost.2.2⟩

/-! ### the protocol -/

/-- a GainSTM datagram (three modes) as a chunk protocol; progress = number of patterns sent -/
def gstmProto (mode seg : Nat) (tr : Tr) (rep div : Nat) (patterns : Array (Array Nat)) : Proto where
  dg := .gainStm mode seg tr rep div patterns
  total := patterns.size
  opAt := gstmOp mode seg tr rep div patterns
  Ready := fun sH => WF sH ∧ GOK sH mode seg tr rep div patterns ∧
    validateTransitionMode sH.stmSegment seg rep (trMode tr) = false ∧
    validateSilencerSettings sH div (sel sH.modDiv sH.modSegment) = false
  Mid := GMid mode seg tr rep div patterns
  Done := GDone mode seg tr rep div patterns
  Own := Foot eraseS TS
  OwnT := Foot eraseSI TS
  Other := KeepS

theorem gstmOp_required (mode seg : Nat) (tr : Tr) (rep div : Nat) (patterns : Array (Array Nat)) (c nt : Nat) :
    (gstmOp mode seg tr rep div patterns c).required nt = (if c = 0 then 16 else 2) + nt * 2 := rfl

set_option linter.unusedVariables false in
theorem gstmProto_laws (mode seg : Nat) (tr : Tr) (rep div : Nat) (patterns : Array (Array Nat)) (hmode : mode ≤ 2)
    (hsize : 2 ≤ patterns.size ∧ patterns.size ≤ 1024) : (gstmProto mode seg tr rep div patterns).Laws where
  op0 := by
    show gstmOp mode seg tr rep div patterns 0 = Op.ofDg (.gainStm mode seg tr rep div patterns)
    unfold gstmOp Op.ofDg
    rw [show decide (0 = patterns.size) = false from decide_eq_false (by omega)]
  total_pos := by show 0 < patterns.size; omega
  done_iff := by
    intro c _
    show decide (c = patterns.size) = true ↔ c = patterns.size
    exact decide_eq_true_iff
  fits := by
    intro c nt _ hnt
    show (gstmOp mode seg tr rep div patterns c).required nt ≤ 622
    rw [gstmOp_required]
    split <;> omega
  step := by
    intro c nt b k hc hnt hb hk2 hreq
    have hpf := perFrame_bounds mode
    have hc : c < patterns.size := hc
    have hreq : k + (gstmOp mode seg tr rep div patterns c).required nt ≤ 622 := hreq
    rw [gstmOp_required] at hreq
    by_cases h0 : c = 0
    · subst h0
      rw [if_pos rfl] at hreq
      obtain ⟨b', hpk, hh⟩ := gstm_step_first mode seg tr rep div patterns hsize nt b k hb hreq
      refine ⟨min (perFrame mode) patterns.size, b', 16 + nt * 2, hpk, by omega, by show _ ≤ patterns.size; omega,
        pack_keeps hpk, by omega, by omega, hreq, ?_⟩
      intro s0 sH hpre hnt' b'' hb'' hag
      unfold Proto.Pre at hpre
      rw [if_pos rfl] at hpre
      obtain ⟨rfl, hR⟩ := hpre
      obtain ⟨s2, a1, a2, a3, a4⟩ := hh s0 hR hnt' b'' hb'' hag
      exact ⟨s2, a1, a2, a3, a4⟩
    · rw [if_neg h0] at hreq
      obtain ⟨b', hpk, hh⟩ := gstm_step_next mode seg tr rep div patterns hsize c nt b k (by omega) hc hb hreq
      refine ⟨c + min (perFrame mode) (patterns.size - c), b', 2 + nt * 2, hpk, by omega, by show _ ≤ patterns.size; omega,
        pack_keeps hpk, by omega, by omega, hreq, ?_⟩
      intro s0 sH hpre hnt' b'' hb'' hag
      unfold Proto.Pre at hpre
      rw [if_neg h0] at hpre
      obtain ⟨s2, a1, a2, a3, a4⟩ := hh s0 sH hpre hnt' b'' hb'' hag
      exact ⟨s2, a1, a2, a3, a4⟩
  ready_wf := fun _ h => h.1
  mid_wf := fun _ _ _ h => h.inv.wf
  done_wf := fun _ _ h => h.wf
  mid_io := fun _ s _ a l r h => GMid_other h (gstmKeepS_io s a l r) (by wf_same h.inv.wf)
  done_io := fun _ s a l r h => GDone_other h (gstmKeepS_io s a l r) (by wf_same h.wf)
  mid_fin := fun _ s _ id h => GMid_other h (gstmKeepS_fin s id) (WF_fin h.inv.wf id)
  done_fin := fun _ s id h => GDone_other h (gstmKeepS_fin s id) (WF_fin h.wf id)
  mid_other := fun _ _ _ _ h K hW => GMid_other h K hW
  done_other := fun _ _ _ h K hW => GDone_other h K hW
  ownT_refl := fun s => Foot.refl _ _ s
  ownT_trans := fun _ _ _ h1 h2 => Foot.trans h1 h2
  own_ownT := fun _ _ h => Foot.toSI h
  io_ownT := fun s a l r => ⟨hio_SI s a l r, rfl, fun _ _ => rfl⟩
  fin_ownT := fun s id _ => ⟨rfl, by simp [fin], fun a ha => reg_fin s id a (by intro h; exact ha (Or.inl h))⟩
  ownT_numTr := fun a b h => by have := congrArg State.numTr h.eq; exact this

theorem gstmProto_ready (mode seg : Nat) (tr : Tr) (rep div : Nat) (patterns : Array (Array Nat)) (sH : State) :
    (gstmProto mode seg tr rep div patterns).Ready sH ↔ (WF sH ∧ GOK sH mode seg tr rep div patterns ∧
      validateTransitionMode sH.stmSegment seg rep (trMode tr) = false ∧
      validateSilencerSettings sH div (sel sH.modDiv sH.modSegment) = false) := Iff.rfl

theorem gstmProto_done (mode seg : Nat) (tr : Tr) (rep div : Nat) (patterns : Array (Array Nat)) {s0 s : State}
    (h : (gstmProto mode seg tr rep div patterns).Done s0 s) :
    WF s ∧ GHeld s0 s seg tr rep div mode patterns ∧ s.stmDiv = setSel s0.stmDiv seg div ∧
      s.stmSegment = (if trMode tr = TRANSITION_MODE_NONE then s0.stmSegment else seg) :=
  ⟨h.wf, h.held, h.sdiv, h.segm⟩

theorem gstmProto_mid (mode seg : Nat) (tr : Tr) (rep div : Nat) (patterns : Array (Array Nat)) {s0 s : State} {c : Nat}
    (h : (gstmProto mode seg tr rep div patterns).Mid s0 s c) :
    WF s ∧ s.stmDiv = setSel s0.stmDiv seg div ∧
      s.stmSegment = (if trMode tr = TRANSITION_MODE_NONE then s0.stmSegment else seg) :=
  ⟨h.inv.wf, h.base.div, h.base.segm⟩

/-- `numTr` never changes -/
theorem gstmProto_numTr (mode seg : Nat) (tr : Tr) (rep div : Nat) (patterns : Array (Array Nat)) {s0 s : State} :
    (∀ c, (gstmProto mode seg tr rep div patterns).Mid s0 s c → s.numTr = s0.numTr) ∧
    ((gstmProto mode seg tr rep div patterns).Done s0 s → s.numTr = s0.numTr) :=
  ⟨fun _ h => h.base.numTr, fun h => h.numTr⟩

/-- GainSTM never writes the focus-only registers (sound speed, number of foci) -/
theorem gstmProto_foci_regs (mode seg : Nat) (tr : Tr) (rep div : Nat) (patterns : Array (Array Nat)) {s0 s : State} :
    (∀ c, (gstmProto mode seg tr rep div patterns).Mid s0 s c → ∀ a, 91 ≤ a → a ≤ 94 → reg s a = reg s0 a) ∧
    ((gstmProto mode seg tr rep div patterns).Done s0 s → ∀ a, 91 ≤ a → a ≤ 94 → reg s a = reg s0 a) := by
  refine ⟨fun _ h a h1 h2 => ?_, fun h => h.foci⟩
  have := h.ok.hseg
  exact h.base.regs a (by omega) (by omega) (by omega) (by omega) (by omega)

/-- with a request, the new swap chain is exactly what `Swap.set` computes from the base's chain -/
theorem gstmProto_done_swap (mode seg : Nat) (tr : Tr) (rep div : Nat) (patterns : Array (Array Nat)) {s0 s : State}
    (h : (gstmProto mode seg tr rep div patterns).Done s0 s) :
    ∀ m v, tr = some (m, v) →
      s0.stmSwap.set s0.dcSysTime rep div patterns.size seg (tmodeOf m v) = .ok s.stmSwap := h.swapDet

theorem gstmProto_done_foci (mode seg : Nat) (tr : Tr) (rep div : Nat) (patterns : Array (Array Nat)) {s0 s : State}
    (h : (gstmProto mode seg tr rep div patterns).Done s0 s) :
    ∀ g, g ≤ 1 → Obs.soundSpeed s g = Obs.soundSpeed s0 g ∧ Obs.numFoci s g = Obs.numFoci s0 g := by
  intro g hg
  have hf : ∀ a, 91 ≤ a → a ≤ 94 → reg s a = reg s0 a := h.foci
  constructor
  · unfold Obs.soundSpeed; simp only [ADDR_STM_SOUND_SPEED0]; rw [hf _ (by omega) (by omega)]
  · unfold Obs.numFoci; simp only [ADDR_STM_NUM_FOCI0]; rw [hf _ (by omega) (by omega)]

end Autd3.Tuple2
