import Autd3.Lemmas.StateByte4
import Autd3.Lemmas.P02Read
/-!
C17, history level, part 5: `firmware_version()`'s six frames with clock updates in between, on a device reached by a
history.  While the query is in flight the device is `fvState y id rx` where `y` is the device the SAME clock updates
alone would have produced (`tick_fv`): `update_with_sys_time` does not look at the fields the query parks, and
`read_fpga_state` leaves the rx byte alone while the gate is closed.
-/
set_option linter.unusedSimpArgs false
set_option linter.unusedVariables false
open Autd3 Autd3.Fw Autd3.Wire Autd3.Gen.Cpu Autd3.Gen Autd3.Rt Autd3.Hist Autd3.P02
namespace Autd3.SB

/-- a list of clock updates -/
def ticks (s : State) (ts : List Nat) : M State := ts.foldlM updateWithSysTime s

theorem ticks_nil (s : State) : ticks s [] = .ok s := rfl
theorem ticks_cons (s : State) (t : Nat) (ts : List Nat) :
    ticks s (t :: ts) = updateWithSysTime s t >>= fun s1 => ticks s1 ts := by
  unfold ticks; rw [List.foldlM_cons]

theorem ticks_append (s s1 s2 : State) (a b : List Nat) (h1 : ticks s a = .ok s1) (h2 : ticks s1 b = .ok s2) :
    ticks s (a ++ b) = .ok s2 := by
  unfold ticks at *
  rw [List.foldlM_append, h1]; exact h2

theorem ticks_split (s s2 : State) (a b : List Nat) (h : ticks s (a ++ b) = .ok s2) :
    ∃ s1, ticks s a = .ok s1 ∧ ticks s1 b = .ok s2 := by
  unfold ticks at *
  rw [List.foldlM_append] at h
  exact Hist.bind_eq_ok h

theorem ticks_inv {r th : Bool} {t : Tx} : ∀ (ts : List Nat) (s s' : State), Inv r th s t → ticks s ts = .ok s' → Inv r th s' t := by
  intro ts
  induction ts with
  | nil => intro s s' i h; cases h; exact i
  | cons a as ih =>
    intro s s' i h
    rw [ticks_cons] at h
    obtain ⟨s1, h1, h2⟩ := Hist.bind_eq_ok h
    exact ih s1 s' (inv_tick i h1) h2

theorem set0_self (c : Array Nat) (v : Nat) (h : rd c 0 = v) (hs : 0 < c.size) : c.setIfInBounds 0 v = c := by
  apply Array.ext
  · simp
  · intro i h1 h2
    rw [Array.getElem_setIfInBounds]
    split
    · rename_i e; subst e
      rw [← h]; unfold rd; simp [hs]
    · rfl

/-- the mid-query image of the device `y`, the reads flag `rs` parked -/
def midQ (y : State) (id rx : Nat) (rs : Bool) : State :=
  { y with lastMsgId := id, ack := id, readsStore := rs, readsFpgaState := false, isRxDataUsed := true, rxData := rx }

/-- on a settled device the mid-query state keeps the register file -/
theorem fvState_ctl (y : State) (id rx : Nat) (hs : Hist.Settled y) (hsz : y.ctl.size = 256) :
    fvState y id rx = midQ y id rx y.readsFpgaState := by
  unfold fvState midQ
  rw [set0_self y.ctl _ hs (by omega)]

/-- **a clock update in the middle of a version query** is the clock update of the device without the query -/
theorem tick_fv (y y' : State) (id rx tm : Nat) (hs : Hist.Settled y) (hsz : y.ctl.size = 256)
    (hs' : Hist.Settled y') (hsz' : y'.ctl.size = 256) (hr : y'.readsFpgaState = y.readsFpgaState)
    (h : updateWithSysTime y tm = .ok y') : updateWithSysTime (fvState y id rx) tm = .ok (fvState y' id rx) := by
  rw [fvState_ctl y id rx hs hsz, fvState_ctl y' id rx hs' hsz', hr]
  have h0 := h
  unfold updateWithSysTime at h
  obtain ⟨mw, hm, h⟩ := Hist.bind_eq_ok h
  obtain ⟨sw, hs2, h⟩ := Hist.bind_eq_ok h
  rw [P02.updateWithSysTime_eq y tm mw sw hm hs2] at h0
  simp only [Except.ok.injEq] at h0
  have ea : updateWithSysTime (midQ y id rx y.readsFpgaState) tm =
      .ok (P02.updCore (midQ y id rx y.readsFpgaState) mw sw tm) :=
    P02.updateWithSysTime_eq (midQ y id rx y.readsFpgaState) tm mw sw hm hs2
  rw [ea, ← h0]
  unfold P02.updCore midQ
  simp only []
  rw [readFpgaState_used _ rfl, P02.readFpgaState_frame]
  rfl

theorem ticks_fv {r th : Bool} {t : Tx} (id rx : Nat) : ∀ (ts : List Nat) (y y' : State), Inv r th y t →
    ticks y ts = .ok y' → ticks (fvState y id rx) ts = .ok (fvState y' id rx) := by
  intro ts
  induction ts with
  | nil => intro y y' i h; cases h; rfl
  | cons a as ih =>
    intro y y' i h
    rw [ticks_cons] at h ⊢
    obtain ⟨y1, h1, h2⟩ := Hist.bind_eq_ok h
    have i1 := inv_tick i h1
    rw [tick_fv y y1 id rx a i.settled i.wf.ctl i1.settled i1.wf.ctl (i1.reads.trans i.reads.symm) h1]
    exact ih y1 y' i1 h2

/-- the device after the closing frame of a query that ran alongside the clock updates leading to `y` -/
def closedQ (y : State) (id rx : Nat) : State :=
  { y with lastMsgId := id, ack := id, readsStore := y.readsFpgaState, rxData := rx }

/-- the six frames with clock updates `τ1 … τ5` between them; returns the device and the five version bytes read
after frames 1…5 -/
def fvSeq (s : State) (f1 f2 f3 f4 f5 f6 : Array Nat) (τ1 τ2 τ3 τ4 τ5 : List Nat) : M (State × List Nat) :=
  ecatRecv s f1 >>= fun x1 => ticks x1 τ1 >>= fun x1' =>
  ecatRecv x1' f2 >>= fun x2 => ticks x2 τ2 >>= fun x2' =>
  ecatRecv x2' f3 >>= fun x3 => ticks x3 τ3 >>= fun x3' =>
  ecatRecv x3' f4 >>= fun x4 => ticks x4 τ4 >>= fun x4' =>
  ecatRecv x4' f5 >>= fun x5 => ticks x5 τ5 >>= fun x5' =>
  ecatRecv x5' f6 >>= fun x6 => pure (x6, [x1.rxData, x2.rxData, x3.rxData, x4.rxData, x5.rxData])

theorem fvSeq_eq {r th : Bool} {t : Tx} (s : State) (i : Inv r th s t) (f1 f2 f3 f4 f5 f6 : Array Nat)
    (i1 i2 i3 i4 i5 i6 : Nat)
    (h1 : IsFirmInfoFrame f1 i1 INFO_TYPE_CPU_VERSION_MAJOR) (h2 : IsFirmInfoFrame f2 i2 INFO_TYPE_CPU_VERSION_MINOR)
    (h3 : IsFirmInfoFrame f3 i3 INFO_TYPE_FPGA_VERSION_MAJOR) (h4 : IsFirmInfoFrame f4 i4 INFO_TYPE_FPGA_VERSION_MINOR)
    (h5 : IsFirmInfoFrame f5 i5 INFO_TYPE_FPGA_FUNCTIONS) (h6 : IsFirmInfoFrame f6 i6 INFO_TYPE_CLEAR)
    (d0 : s.lastMsgId ≠ i1) (d1 : i1 ≠ i2) (d2 : i2 ≠ i3) (d3 : i3 ≠ i4) (d4 : i4 ≠ i5) (d5 : i5 ≠ i6)
    (τ1 τ2 τ3 τ4 τ5 : List Nat) (y1 y2 y3 y4 y5 : State)
    (e1 : ticks s τ1 = .ok y1) (e2 : ticks y1 τ2 = .ok y2) (e3 : ticks y2 τ3 = .ok y3) (e4 : ticks y3 τ4 = .ok y4)
    (e5 : ticks y4 τ5 = .ok y5) :
    fvSeq s f1 f2 f3 f4 f5 f6 τ1 τ2 τ3 τ4 τ5 =
      .ok (closedQ y5 i6 (Fpga.ENABLED_FEATURES_BITS % 256),
        [CPU_VERSION_MAJOR % 256, CPU_VERSION_MINOR % 256, Fpga.VERSION_NUM_MAJOR % 256, Fpga.VERSION_NUM_MINOR % 256,
         Fpga.ENABLED_FEATURES_BITS % 256]) := by
  have j1 := ticks_inv _ _ _ i e1
  have j2 := ticks_inv _ _ _ j1 e2
  have j3 := ticks_inv _ _ _ j2 e3
  have j4 := ticks_inv _ _ _ j3 e4
  have j5 := ticks_inv _ _ _ j4 e5
  have v3 : reg y2 ADDR_VERSION_NUM_MAJOR % 256 = Fpga.VERSION_NUM_MAJOR % 256 := by rw [j2.ver.1]; decide
  have v4 : reg y3 ADDR_VERSION_NUM_MINOR % 256 = Fpga.VERSION_NUM_MINOR % 256 := by rw [j3.ver.2]
  have v5 : (reg y4 ADDR_VERSION_NUM_MAJOR >>> 8) % 256 = Fpga.ENABLED_FEATURES_BITS % 256 := by rw [j4.ver.1]; decide
  unfold fvSeq
  rw [fv_step1 s f1 i1 h1 d0, P02.ok_bind]
  rw [ticks_fv i1 _ τ1 s y1 i e1, P02.ok_bind]
  rw [fv_step2 y1 f2 _ _ i2 h2 d1, P02.ok_bind]
  rw [ticks_fv i2 _ τ2 y1 y2 j1 e2, P02.ok_bind]
  rw [fv_step3 y2 f3 _ _ i3 h3 d2, P02.ok_bind]
  rw [ticks_fv i3 _ τ3 y2 y3 j2 e3, P02.ok_bind]
  rw [fv_step4 y3 f4 _ _ i4 h4 d3, P02.ok_bind]
  rw [ticks_fv i4 _ τ4 y3 y4 j3 e4, P02.ok_bind]
  rw [fv_step5 y4 f5 _ _ i5 h5 d4, P02.ok_bind]
  rw [ticks_fv i5 _ τ5 y4 y5 j4 e5, P02.ok_bind]
  rw [fv_step6 y5 f6 _ _ i6 h6 d5 j5.used, P02.ok_bind]
  rw [set0_self y5.ctl _ j5.settled (by rw [j5.wf.ctl]; decide), v3, v4, v5]
  rfl

/-- **the clock update after the query** against the clock update of the device without the query -/
theorem tick_closedQ (y b : State) (id rx tc : Nat) (hsz : 1 < y.ctl.size) (hu : y.isRxDataUsed = false)
    (h : updateWithSysTime y tc = .ok b) :
    ∃ a, updateWithSysTime (closedQ y id rx) tc = .ok a ∧
      a = { b with lastMsgId := id, ack := id, readsStore := y.readsFpgaState, rxData := a.rxData } ∧
      a.readsFpgaState = b.readsFpgaState ∧ a.isRxDataUsed = false ∧
      (y.readsFpgaState = true → a.rxData = b.rxData) ∧
      (y.readsFpgaState = false → a.rxData = rx &&& (255 - FPGA_STATE_READS_FPGA_STATE_ENABLED) ∧
        b.rxData = y.rxData &&& (255 - FPGA_STATE_READS_FPGA_STATE_ENABLED)) := by
  have h0 := h
  unfold updateWithSysTime at h
  obtain ⟨mw, hm, h⟩ := Hist.bind_eq_ok h
  obtain ⟨sw, hs2, h⟩ := Hist.bind_eq_ok h
  have ea : updateWithSysTime (closedQ y id rx) tc = .ok (P02.updCore (closedQ y id rx) mw sw tc) :=
    P02.updateWithSysTime_eq (closedQ y id rx) tc mw sw hm hs2
  have eb := P02.updateWithSysTime_eq y tc mw sw hm hs2
  rw [eb] at h0
  simp only [Except.ok.injEq] at h0
  obtain ⟨p1, p2, p3, p4, _⟩ := update_rx y b tc hsz hu (by rw [eb, h0])
  obtain ⟨q1, q2, q3, q4, _⟩ := update_rx (closedQ y id rx) _ tc hsz hu ea
  have ms : (P02.updCore (closedQ y id rx) mw sw tc).modSwap = b.modSwap := by
    rw [P02.updCore_modSwap, ← h0, P02.updCore_modSwap]
  have ss : (P02.updCore (closedQ y id rx) mw sw tc).stmSwap = b.stmSwap := by
    rw [P02.updCore_stmSwap, ← h0, P02.updCore_stmSwap]
  refine ⟨_, ea, ?_, q3.trans p3.symm, q4, ?_, ?_⟩
  · rw [← h0]
    unfold P02.updCore
    simp only []
    rw [P02.readFpgaState_frame, P02.readFpgaState_frame (s := { y with modSwap := mw, stmSwap := sw, ctl := _ })]
    rfl
  · intro hr
    rw [q1 hr, p1 hr, ms, ss]; rfl
  · intro hr
    exact ⟨q2 hr, p2 hr⟩

end Autd3.SB
