import Autd3.Lemmas.SilGuardPost
/-!
# Frame lemmas and symbolic-execution rules for the primitives of the firmware model

For every primitive used by the handlers (`ctlWrite`, the bulk writers `modWriteWords` /
`stmWriteWords` / `pweWriteWords` / `ctlWriteWords`, `setAndWaitUpdate`) this file proves which
fields of `State` can change, and packages that as a rewriting rule `Post (prim …) Q ↔ (ok → Q s')`
with an explicit `s'`.  The loops (`for` in `Except`) are handled by an invariant rule.
-/
namespace Autd3.SilGuard
open Autd3.Fw Autd3.Gen Autd3.Gen.Cpu

/-! ### loops -/

theorem forIn'_list_inv {α β : Type} (I : β → Prop) (l : List α) :
    ∀ (f : (a : α) → a ∈ l → β → M (ForInStep β)) (init : β), I init →
    (∀ a h b, I b → Post (f a h b) (fun r => match r with | .yield b' => I b' | .done b' => I b')) →
    Post (forIn' l init f) I := by
  induction l with
  | nil => intro f init h0 _; simpa using h0
  | cons x xs ih =>
    intro f init h0 hstep
    rw [List.forIn'_cons]
    rw [Post_bind]
    refine Post_mono (hstep x _ init h0) ?_
    intro r hr
    cases r with
    | done b => simpa using hr
    | yield b =>
      simp only []
      exact ih _ b hr (fun a h b hb => hstep a _ b hb)

/-- invariant rule for `for h : i in [0:n]` loops in the `Except Panic` monad -/
theorem forIn'_range_inv {β : Type} (I : β → Prop) (n : Nat)
    (f : (a : Nat) → a ∈ [:n] → β → M (ForInStep β)) (init : β) (h0 : I init)
    (hstep : ∀ a (h : a ∈ [:n]) b, a < n → I b →
      Post (f a h b) (fun r => match r with | .yield b' => I b' | .done b' => I b')) :
    Post (forIn' [:n] init f) I := by
  rw [Std.Legacy.Range.forIn'_eq_forIn'_range']
  apply forIn'_list_inv I _ _ init h0
  intro a h b hb
  have ha : a < n := by
    have := List.mem_range'_1.1 h
    simp [Std.Legacy.Range.size] at this
    omega
  exact hstep a _ b ha hb

/-! ### `ctlWrite` -/

/-- a write to the main controller select (address below 256) never panics and sets one register -/
theorem ctlWrite_main (s : State) (a v : Nat) (h : a < 256) :
    ctlWrite s a v = .ok { s with ctl := s.ctl.setIfInBounds a (v % 65536) } := by
  unfold ctlWrite
  have h1 : a % 16384 = a := by omega
  have h2 : a / 256 = 0 := by omega
  simp [h1, h2]

theorem ctlWrite_frame (s s' : State) (a v : Nat) (h : ctlWrite s a v = .ok s') :
    s' = { s with ctl := s'.ctl, phaseCorr := s'.phaseCorr } ∧ s'.ctl.size = s.ctl.size ∧
      ∀ j, j ≠ a % 16384 → rd s'.ctl j = rd s.ctl j := by
  unfold ctlWrite at h
  simp only [] at h
  split at h
  · cases h
    refine ⟨rfl, by simp, ?_⟩
    intro j hj; exact rd_set_ne _ _ _ _ hj
  · split at h
    · split at h
      · cases h; exact ⟨rfl, rfl, fun _ _ => rfl⟩
      · cases h
    · cases h

/-! ### bulk writers: only the addressed memory changes -/

theorem stmWriteWords_frame (s s' : State) (b : Nat) (w : Array Nat) (h : stmWriteWords s b w = .ok s') :
    s' = { s with stmMem0 := s'.stmMem0, stmMem1 := s'.stmMem1 } := by
  unfold stmWriteWords at h
  simp only [] at h
  split at h
  · cases h; rfl
  · split at h
    · cases h
    · split at h
      · cases h
      · split at h
        · cases h
        · split at h <;> (cases h; rfl)

theorem modWriteWords_frame (s s' : State) (b : Nat) (w : Array Nat) (h : modWriteWords s b w = .ok s') :
    s' = { s with modMem0 := s'.modMem0, modMem1 := s'.modMem1 } := by
  unfold modWriteWords at h
  simp only [] at h
  split at h
  · cases h; rfl
  · split at h
    · cases h
    · split at h
      · cases h
      · split at h
        · cases h
        · split at h <;> (cases h; rfl)

theorem pweWriteWords_frame (s s' : State) (b : Nat) (w : Array Nat) (h : pweWriteWords s b w = .ok s') :
    s' = { s with pwe := s'.pwe } := by
  unfold pweWriteWords at h
  simp only [] at h
  split at h
  · cases h
  · cases h; rfl

/-- `ctlWriteWords` changes only `ctl` / `phaseCorr`, keeps the size of `ctl`, and leaves every
register outside the written address window alone -/
theorem ctlWriteWords_frame (s s' : State) (base : Nat) (ws : Array Nat) (h : ctlWriteWords s base ws = .ok s') :
    s' = { s with ctl := s'.ctl, phaseCorr := s'.phaseCorr } ∧ s'.ctl.size = s.ctl.size ∧
      ∀ j, (∀ i, i < ws.size → (base + i) % 16384 ≠ j) → rd s'.ctl j = rd s.ctl j := by
  revert h s'
  show Post (ctlWriteWords s base ws) _
  unfold ctlWriteWords
  simp only [Post_bind, Post_pure]
  apply forIn'_range_inv
  · exact ⟨rfl, rfl, fun _ _ => rfl⟩
  · intro a h b ha hb
    simp only [Post_bind, Post_pure]
    intro b' hb'
    obtain ⟨e1, e2, e3⟩ := ctlWrite_frame _ _ _ _ hb'
    obtain ⟨f1, f2, f3⟩ := hb
    refine ⟨?_, by omega, ?_⟩
    · rw [e1, f1]
    · intro j hj
      rw [e3 j (fun hh => hj a ha hh.symm), f3 j hj]

theorem fpgaSetAndWaitUpdate_frame (s : State) (t : Nat) :
    Post (fpgaSetAndWaitUpdate s t) (fun s' => s' = { s with modSwap := s'.modSwap, stmSwap := s'.stmSwap }) := by
  unfold fpgaSetAndWaitUpdate
  simp only [Post_bind, Post_ite, Post_pure, Post_true, implies_true, and_self]

/-- the controller array after `set_and_wait_update`: the control-flag register (address 0) is written twice -/
def sawCtl (ctl : Array Nat) (fi f : Nat) : Array Nat :=
  (ctl.setIfInBounds 0 ((fi ||| f) % 65536)).setIfInBounds 0 (fi % 65536)

theorem setAndWaitUpdate_frame (s : State) (f : Nat) :
    Post (setAndWaitUpdate s f)
      (fun s' => s' = { s with ctl := sawCtl s.ctl s.flagsInternal f, modSwap := s'.modSwap, stmSwap := s'.stmSwap }) := by
  unfold setAndWaitUpdate
  simp only [ADDR_CTL_FLAG, ctlWrite_main _ 0 _ (by decide : 0 < 256), Post_bind, Post_ok]
  intro s1 h1
  have e1 := fpgaSetAndWaitUpdate_frame _ _ s1 h1
  conv => lhs; rw [e1]
  rfl

/-! ### explicit results (named components) and the rewriting rules -/

def cwwCtl (s : State) (b : Nat) (w : Array Nat) : Array Nat := (res (ctlWriteWords s b w) s).ctl
def cwwPc (s : State) (b : Nat) (w : Array Nat) : Array Nat := (res (ctlWriteWords s b w) s).phaseCorr

theorem Post_shape {m : M State} {G : State → State} (d : State)
    (h : ∀ s', m = .ok s' → s' = G s') (Q : State → Prop) :
    Post m Q ↔ (okP m → Q (G (res m d))) := by
  rw [Post_res m d]
  constructor
  · intro hq hok
    obtain ⟨a, ha⟩ := hok
    have := hq ⟨a, ha⟩
    rw [ha] at this ⊢
    simp only [res] at this ⊢
    rw [← h a ha]; exact this
  · intro hq hok
    obtain ⟨a, ha⟩ := hok
    have := hq ⟨a, ha⟩
    rw [ha] at this ⊢
    simp only [res] at this ⊢
    rw [← h a ha] at this; exact this

/-- rule for a primitive whose result has a known shape `G s'` (the changed fields are read off the
fresh result `s'`, everything else is explicit) -/
theorem Post_shape' {m : M State} {G : State → State}
    (h : ∀ s', m = .ok s' → s' = G s') (Q : State → Prop) :
    Post m Q ↔ ∀ s', m = .ok s' → Q (G s') := by
  constructor
  · intro hq s' hs'
    have := hq s' hs'
    rw [h s' hs'] at this
    exact this
  · intro hq s' hs'
    have := hq s' hs'
    rw [← h s' hs'] at this
    exact this

theorem Post_stmWriteWords (s : State) (b : Nat) (w : Array Nat) (Q : State → Prop) :
    Post (stmWriteWords s b w) Q ↔
      ∀ s', stmWriteWords s b w = .ok s' → Q { s with stmMem0 := s'.stmMem0, stmMem1 := s'.stmMem1 } :=
  Post_shape' (G := fun s' => { s with stmMem0 := s'.stmMem0, stmMem1 := s'.stmMem1 })
    (stmWriteWords_frame s · b w) Q

theorem Post_modWriteWords (s : State) (b : Nat) (w : Array Nat) (Q : State → Prop) :
    Post (modWriteWords s b w) Q ↔
      ∀ s', modWriteWords s b w = .ok s' → Q { s with modMem0 := s'.modMem0, modMem1 := s'.modMem1 } :=
  Post_shape' (G := fun s' => { s with modMem0 := s'.modMem0, modMem1 := s'.modMem1 })
    (modWriteWords_frame s · b w) Q

theorem Post_pweWriteWords (s : State) (b : Nat) (w : Array Nat) (Q : State → Prop) :
    Post (pweWriteWords s b w) Q ↔ ∀ s', pweWriteWords s b w = .ok s' → Q { s with pwe := s'.pwe } :=
  Post_shape' (G := fun s' => { s with pwe := s'.pwe }) (pweWriteWords_frame s · b w) Q

theorem Post_ctlWriteWords (s : State) (b : Nat) (w : Array Nat) (Q : State → Prop) :
    Post (ctlWriteWords s b w) Q ↔
      (okP (ctlWriteWords s b w) → Q { s with ctl := cwwCtl s b w, phaseCorr := cwwPc s b w }) :=
  Post_shape (G := fun s' => { s with ctl := s'.ctl, phaseCorr := s'.phaseCorr }) s
    (fun s' h => (ctlWriteWords_frame s s' b w h).1) Q

theorem Post_setAndWaitUpdate (s : State) (f : Nat) (Q : State → Prop) :
    Post (setAndWaitUpdate s f) Q ↔
      ∀ s', setAndWaitUpdate s f = .ok s' →
        Q { s with ctl := sawCtl s.ctl s.flagsInternal f, modSwap := s'.modSwap, stmSwap := s'.stmSwap } :=
  Post_shape' (G := fun s' => { s with ctl := sawCtl s.ctl s.flagsInternal f, modSwap := s'.modSwap, stmSwap := s'.stmSwap })
    (setAndWaitUpdate_frame s f) Q

theorem Post_ctlWrite_main (s : State) (a v : Nat) (h : a < 256) (Q : State → Prop) :
    Post (ctlWrite s a v) Q ↔ Q { s with ctl := s.ctl.setIfInBounds a (v % 65536) } := by
  rw [ctlWrite_main s a v h, Post_ok]

/-! ### reads of the results -/

theorem cwwCtl_size (s : State) (b : Nat) (w : Array Nat) : (cwwCtl s b w).size = s.ctl.size := by
  unfold cwwCtl
  cases h : ctlWriteWords s b w with
  | error e => rfl
  | ok s' => exact (ctlWriteWords_frame s s' b w h).2.1

/-- a register outside the written window `[b, b + w.size)` keeps its value -/
theorem rd_cwwCtl (s : State) (b : Nat) (w : Array Nat) (j : Nat) (hb : b + w.size ≤ 16384)
    (hj : j < b ∨ b + w.size ≤ j) : rd (cwwCtl s b w) j = rd s.ctl j := by
  unfold cwwCtl
  cases h : ctlWriteWords s b w with
  | error e => rfl
  | ok s' =>
    refine (ctlWriteWords_frame s s' b w h).2.2 j ?_
    intro i hi
    have : (b + i) % 16384 = b + i := Nat.mod_eq_of_lt (by omega)
    omega

theorem rd_cwwCtl_u64 (s : State) (b v j : Nat) (hb : b + 4 ≤ 16384) (hj : j < b ∨ b + 4 ≤ j) :
    rd (cwwCtl s b (u64Words v)) j = rd s.ctl j := rd_cwwCtl s b _ j hb hj

theorem rd_cwwCtl_lit4 (s : State) (b j x0 x1 x2 x3 : Nat) (hb : b + 4 ≤ 16384) (hj : j < b ∨ b + 4 ≤ j) :
    rd (cwwCtl s b #[x0, x1, x2, x3]) j = rd s.ctl j := rd_cwwCtl s b _ j hb hj

theorem rd_cwwCtl_wordsAt (s : State) (b j : Nat) (d : Array Nat) (o n : Nat) (hb : b + n ≤ 16384)
    (hj : j < b ∨ b + n ≤ j) : rd (cwwCtl s b (wordsAt d o n)) j = rd s.ctl j :=
  rd_cwwCtl s b _ j (by simpa [wordsAt] using hb) (by simpa [wordsAt] using hj)

theorem rd_cwwCtl_replicate (s : State) (b j n x : Nat) (hb : b + n ≤ 16384)
    (hj : j < b ∨ b + n ≤ j) : rd (cwwCtl s b (Array.replicate n x)) j = rd s.ctl j :=
  rd_cwwCtl s b _ j (by simpa using hb) (by simpa using hj)

theorem sawCtl_size (c : Array Nat) (fi f : Nat) : (sawCtl c fi f).size = c.size := by
  simp [sawCtl]

theorem rd_sawCtl (c : Array Nat) (fi f : Nat) (j : Nat) (hj : j ≠ 0) : rd (sawCtl c fi f) j = rd c j := by
  unfold sawCtl
  rw [rd_set_ne _ _ _ _ hj, rd_set_ne _ _ _ _ hj]

theorem u64Words_size (v : Nat) : (u64Words v).size = 4 := rfl
theorem wordsAt_size (d : Array Nat) (o n : Nat) : (wordsAt d o n).size = n := by simp [wordsAt]

end Autd3.SilGuard
