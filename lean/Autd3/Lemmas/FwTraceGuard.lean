import Autd3.Lemmas.FwTraceCore
/-!
C19 trace layer: the per-payload conditions.

* `…OK s d`   — **alphabet**: what the SDK's packers guarantee for the frame `d` when the device is in state `s`
  (header fields in range; a continuation frame continues the write in progress and stays inside the buffer
  sizes the SDK validates: 65536 foci, 1024 gain patterns; the TRANSITION flag only with a real mode).
* `…Excl s d` — **finding exclusions**: the `SetGuard` of the `Swapchain::set` the frame triggers (F15, F18) and,
  for a FociSTM BEGIN frame, the F17 condition.  They are only demanded of frames the CPU accepts.
-/
set_option linter.unusedSimpArgs false
set_option linter.unusedVariables false
namespace Autd3.Fw
open Autd3.Gen.Cpu
open Autd3.Gen

instance (mode value : Nat) : Decidable (ModeOK mode value) :=
  decidable_of_iff ((mode = TRANSITION_MODE_SYNC_IDX ∨ mode = TRANSITION_MODE_SYS_TIME ∨ mode = TRANSITION_MODE_GPIO ∨
         mode = TRANSITION_MODE_EXT ∨ mode = TRANSITION_MODE_IMMEDIATE) ∧ (mode = TRANSITION_MODE_GPIO → value < 4) ∧
         value < 18446744073709551616)
    ⟨fun h => ⟨h.1, h.2.1, h.2.2⟩, fun h => ⟨h.mode_ok, h.gpio_ok, h.value_lt⟩⟩

/-! ### Modulation (`write_mod`) -/

def modFlag (d : Array Nat) : Nat := u8at d FwLayout.ModulationHead_flag_off
def modSeg (d : Array Nat) : Nat := if modFlag d &&& MODULATION_FLAG_SEGMENT ≠ 0 then 1 else 0
def modBegin (d : Array Nat) : Bool := hasFlag (modFlag d) MODULATION_FLAG_BEGIN
/-- the transition mode / value / loop count in force when the frame's END block runs -/
def modEffTm (s : State) (d : Array Nat) : Nat :=
  if modBegin d then u8at d FwLayout.ModulationHead_transition_mode_off else s.modTrMode
def modEffTv (s : State) (d : Array Nat) : Nat :=
  if modBegin d then u64at d FwLayout.ModulationHead_transition_value_off else s.modTrValue
def modEffRep (s : State) (d : Array Nat) : Nat :=
  if modBegin d then u16at d FwLayout.ModulationHead_rep_off else rd s.ctl (39 + modSeg d)
/-- the CPU's two validations let a BEGIN frame through (continuation frames are not validated) -/
def modAccepted (s : State) (d : Array Nat) : Bool :=
  !modBegin d ||
  (!validateTransitionMode s.modSegment (modSeg d) (u16at d FwLayout.ModulationHead_rep_off)
      (u8at d FwLayout.ModulationHead_transition_mode_off) &&
   !validateSilencerSettings s (sel s.stmDiv s.stmSegment) (u16at d FwLayout.ModulationHead_freq_div_off))

structure ModOK (s : State) (d : Array Nat) : Prop where
  div : modBegin d = true → 1 ≤ u16at d FwLayout.ModulationHead_freq_div_off
  /-- a continuation frame goes to the segment being written -/
  cont_seg : modBegin d = false → rd s.ctl 32 = modSeg d
  /-- … and its size field is at most one BRAM segment's worth of bytes (the SDK: ≤ 622) -/
  cont_size : modBegin d = false → u16at d FwLayout.ModulationSubseq_size_off ≤ 32768
  upd : hasFlag (modFlag d) MODULATION_FLAG_END = true → hasFlag (modFlag d) MODULATION_FLAG_UPDATE = true →
    ModeOK (modEffTm s d) (modEffTv s d)

structure ModExcl (s : State) (d : Array Nat) : Prop where
  set : hasFlag (modFlag d) MODULATION_FLAG_END = true → hasFlag (modFlag d) MODULATION_FLAG_UPDATE = true →
    modAccepted s d = true → SetGuard s.modSwap (modSeg d) (modEffRep s d) (modEffTm s d)

/-! ### FociSTM (`write_foci_stm`) -/

def fociFlag (d : Array Nat) : Nat := u8at d FwLayout.FociSTMSubseq_flag_off
def fociSeg (d : Array Nat) : Nat := u8at d FwLayout.FociSTMSubseq_segment_off
def fociSend (d : Array Nat) : Nat := u8at d FwLayout.FociSTMSubseq_send_num_off
def fociBegin (d : Array Nat) : Bool := hasFlag (fociFlag d) FOCI_STM_FLAG_BEGIN
def fociEffTm (s : State) (d : Array Nat) : Nat :=
  if fociBegin d then u8at d FwLayout.FociSTMHead_transition_mode_off else s.stmTrMode
def fociEffTv (s : State) (d : Array Nat) : Nat :=
  if fociBegin d then u64at d FwLayout.FociSTMHead_transition_value_off else s.stmTrValue
def fociEffRep (s : State) (d : Array Nat) : Nat :=
  if fociBegin d then u16at d FwLayout.FociSTMHead_rep_off else rd s.ctl (87 + fociSeg d)
def fociAccepted (s : State) (d : Array Nat) : Bool :=
  !fociBegin d ||
  (!validateTransitionMode s.stmSegment (fociSeg d) (u16at d FwLayout.FociSTMHead_rep_off)
      (u8at d FwLayout.FociSTMHead_transition_mode_off) &&
   !validateSilencerSettings s (u16at d FwLayout.FociSTMHead_freq_div_off) (sel s.modDiv s.modSegment))

structure FociOK (s : State) (d : Array Nat) : Prop where
  seg : fociSeg d ≤ 1
  div : fociBegin d = true → 1 ≤ u16at d FwLayout.FociSTMHead_freq_div_off
  nf1 : fociBegin d = true → 1 ≤ u8at d FwLayout.FociSTMHead_num_foci_off
  nf8 : fociBegin d = true → u8at d FwLayout.FociSTMHead_num_foci_off ≤ 8
  /-- the device's sound speed is not zero (see the read-back: it is a divisor) -/
  ss : fociBegin d = true → 1 ≤ u16at d FwLayout.FociSTMHead_sound_speed_off
  /-- a continuation frame continues the FociSTM write in progress: same segment, write page inside the BRAM,
  the segment's foci-count register is the CPU's count, and the total stays within 65536 foci -/
  cont_seg : fociBegin d = false → rd s.ctl 80 = fociSeg d
  cont_page : fociBegin d = false → rd s.ctl 81 ≤ 15
  cont_nf : fociBegin d = false → rd s.ctl (93 + fociSeg d) = s.numFoci
  cont_total : fociBegin d = false → s.stmWrite + fociSend d * s.numFoci ≤ 65536
  upd : hasFlag (fociFlag d) FOCI_STM_FLAG_END = true → hasFlag (fociFlag d) FOCI_STM_FLAG_UPDATE = true →
    ModeOK (fociEffTm s d) (fociEffTv s d)

structure FociExcl (s : State) (d : Array Nat) : Prop where
  /-- **F17 exclusion**: a BEGIN frame does not raise the foci-per-pattern count of a segment beyond what its
  cycle (the register's, and the one the swap chain still plays) leaves room for -/
  f17s : fociBegin d = true → fociAccepted s d = true →
    sel s.stmSwap.cycle (fociSeg d) * u8at d FwLayout.FociSTMHead_num_foci_off ≤ 65536
  f17r : fociBegin d = true → fociAccepted s d = true →
    (rd s.ctl (83 + fociSeg d) + 1) * u8at d FwLayout.FociSTMHead_num_foci_off ≤ 65536
  set : hasFlag (fociFlag d) FOCI_STM_FLAG_END = true → hasFlag (fociFlag d) FOCI_STM_FLAG_UPDATE = true →
    fociAccepted s d = true → SetGuard s.stmSwap (fociSeg d) (fociEffRep s d) (fociEffTm s d)

/-! ### GainSTM (`write_gain_stm`) -/

def gsFlag (d : Array Nat) : Nat := u8at d FwLayout.GainSTMSubseq_flag_off
def gsSeg (d : Array Nat) : Nat := if gsFlag d &&& GAIN_STM_FLAG_SEGMENT ≠ 0 then 1 else 0
def gsBegin (d : Array Nat) : Bool := hasFlag (gsFlag d) GAIN_STM_FLAG_BEGIN
def gsEffTm (s : State) (d : Array Nat) : Nat :=
  if gsBegin d then u8at d FwLayout.GainSTMHead_transition_mode_off else s.stmTrMode
def gsEffTv (s : State) (d : Array Nat) : Nat :=
  if gsBegin d then u64at d FwLayout.GainSTMHead_transition_value_off else s.stmTrValue
def gsEffRep (s : State) (d : Array Nat) : Nat :=
  if gsBegin d then u16at d FwLayout.GainSTMHead_rep_off else rd s.ctl (87 + gsSeg d)
def gsAccepted (s : State) (d : Array Nat) : Bool :=
  !gsBegin d ||
  (!validateTransitionMode s.stmSegment (gsSeg d) (u16at d FwLayout.GainSTMHead_rep_off)
      (u8at d FwLayout.GainSTMHead_transition_mode_off) &&
   !validateSilencerSettings s (u16at d FwLayout.GainSTMHead_freq_div_off) (sel s.modDiv s.modSegment))

structure GainStmOK (s : State) (d : Array Nat) : Prop where
  div : gsBegin d = true → 1 ≤ u16at d FwLayout.GainSTMHead_freq_div_off
  /-- a continuation frame continues the GainSTM write in progress: same segment, write page inside the BRAM,
  at most 1024 patterns in total (`gsFlag d >>> 6 + 1` = the number of patterns the frame announces) -/
  cont_seg : gsBegin d = false → rd s.ctl 80 = gsSeg d
  cont_page : gsBegin d = false → rd s.ctl 81 ≤ 15
  cont_total : gsBegin d = false → sel s.stmCycle (gsSeg d) + (gsFlag d >>> 6 + 1) ≤ 1024
  upd : hasFlag (gsFlag d) GAIN_STM_FLAG_END = true → hasFlag (gsFlag d) GAIN_STM_FLAG_UPDATE = true →
    ModeOK (gsEffTm s d) (gsEffTv s d)

structure GainStmExcl (s : State) (d : Array Nat) : Prop where
  set : hasFlag (gsFlag d) GAIN_STM_FLAG_END = true → hasFlag (gsFlag d) GAIN_STM_FLAG_UPDATE = true →
    gsAccepted s d = true → SetGuard s.stmSwap (gsSeg d) (gsEffRep s d) (gsEffTm s d)

/-! ### Gain, Clear, the four segment swaps -/

structure GainOK (d : Array Nat) : Prop where
  seg : u8at d FwLayout.Gain_segment_off ≤ 1

structure GainExcl (s : State) (d : Array Nat) : Prop where
  set : hasFlag (u8at d FwLayout.Gain_flag_off) GAIN_FLAG_UPDATE = true →
    SetGuard s.stmSwap (u8at d FwLayout.Gain_segment_off) 0xFFFF TRANSITION_MODE_SYNC_IDX

/-- `clear` re-requests segment 0 of both swap chains (infinite loop, SyncIdx) -/
structure ClearExcl (s : State) : Prop where
  mod : SetGuard s.modSwap 0 0xFFFF TRANSITION_MODE_SYNC_IDX
  stm : SetGuard s.stmSwap 0 0xFFFF TRANSITION_MODE_SYNC_IDX

end Autd3.Fw
