import Autd3.Lemmas.Rt2SlotMod
/-!
Second tuple slot, part 3: Gain packed at offset `k`, what the firmware reads from `payload[k..]`, and the
round trip `gain_roundtrip_slot2'`.
-/
open Autd3 Autd3.Fw Autd3.Wire Autd3.Gen.Cpu Autd3.Gen
namespace Autd3.Rt

/-- the Gain frame packed at offset `k` -/
def gainPayloadAt (b : Array Nat) (k seg flag : Nat) (drives : Array Nat) (n : Nat) : Array Nat :=
  putWords (put8 (put8 (put8 (put8 b (k + 0) Drv.TAG_Gain) (k + 1) seg) (k + 2) flag) (k + 3) 0) (k + 4) drives n

theorem pack_gain_none_at (seg : Nat) (drives : Array Nat) (n : Nat) (b : Array Nat) (k : Nat)
    (hb : b.size = 622) (hk : k + 4 + 2 * n ≤ 622) :
    ({ dg := .gain seg none drives, sent := 0, done := false } : Op).pack n b k =
      .ok ({ dg := .gain seg none drives, sent := 0, done := true }, gainPayloadAt b k seg 0 drives n, 4 + n * 2) := by
  unfold Op.pack gainPayloadAt
  have hm : min n ((622 - k - 4 + 1) / 2) = n := by omega
  simp [hb, DrvLayout.Gain_size, DrvLayout.Gain_tag_off, DrvLayout.Gain_segment_off, DrvLayout.Gain_flag_off,
    Drv.GainControlFlags_NONE, hm]

theorem pack_gain_some_at (seg v : Nat) (drives : Array Nat) (n : Nat) (b : Array Nat) (k : Nat)
    (hb : b.size = 622) (hk : k + 4 + 2 * n ≤ 622) :
    ({ dg := .gain seg (some (Drv.TRANSITION_MODE_IMMEDIATE, v)) drives, sent := 0, done := false } : Op).pack n b k =
      .ok ({ dg := .gain seg (some (Drv.TRANSITION_MODE_IMMEDIATE, v)) drives, sent := 0, done := true },
        gainPayloadAt b k seg 1 drives n, 4 + n * 2) := by
  unfold Op.pack gainPayloadAt
  have hm : min n ((622 - k - 4 + 1) / 2) = n := by omega
  simp [hb, DrvLayout.Gain_size, DrvLayout.Gain_tag_off, DrvLayout.Gain_segment_off, DrvLayout.Gain_flag_off,
    Drv.GainControlFlags_UPDATE, hm]

/-- what the firmware reads from `payload[k..]` of that frame -/
theorem gainAt_payload (b : Array Nat) (k seg flag : Nat) (drives : Array Nat) (n : Nat) (hb : b.size = 622)
    (hk : k + 4 + 2 * n ≤ 622) (hseg : seg < 256) (hfl : flag < 256) :
    let d := (gainPayloadAt b k seg flag drives n).extract k 622
    u8at d 0 = 48 ∧ u8at d 1 = seg ∧ u8at d 2 = flag ∧ (∀ j, j < n → u16at d (4 + 2 * j) = rd drives j % 65536) ∧
      (gainPayloadAt b k seg flag drives n).size = 622 := by
  have hsz : (gainPayloadAt b k seg flag drives n).size = 622 := by simpa [gainPayloadAt] using hb
  have hx : (gainPayloadAt b k seg flag drives n).extract k 622 =
      (gainPayloadAt b k seg flag drives n).extract k (gainPayloadAt b k seg flag drives n).size := by
    rw [hsz]
  simp only [hx, u8at_extract, u16at_extract]
  simp only [gainPayloadAt]
  refine ⟨?_, ?_, ?_, ?_, by simpa using hb⟩
  · rw [u8at_putWords, if_neg (by omega), u8at_put8, if_neg (by omega), u8at_put8, if_neg (by omega), u8at_put8,
      if_neg (by omega), u8at_put8, if_pos ⟨rfl, by omega⟩]; rfl
  · rw [u8at_putWords, if_neg (by omega), u8at_put8, if_neg (by omega), u8at_put8, if_neg (by omega), u8at_put8,
      if_pos ⟨rfl, by simp; omega⟩]; omega
  · rw [u8at_putWords, if_neg (by omega), u8at_put8, if_neg (by omega), u8at_put8, if_pos ⟨rfl, by simp; omega⟩]; omega
  · intro j hj
    rw [show k + (4 + 2 * j) = k + 4 + 2 * j from by omega, u16at_putWords _ _ _ _ _ hj (by simp; omega)]

/-- handler level, no transition: a payload with the Gain header and the drive words, on any well-formed
state -/
theorem gain_handle_noupd (s0 : State) (hW : WF s0) (d : Array Nat) (id : Nat) (seg : Nat) (hseg : seg ≤ 1)
    (drives : Array Nat) (hdr : ∀ i, rd drives i < 65536)
    (p0 : u8at d 0 = 48) (p1 : u8at d 1 = seg) (p2 : u8at d 2 = 0)
    (pw : ∀ j, j < s0.numTr → u16at d (4 + 2 * j) = rd drives j % 65536) :
    ∃ sE, handlePayload s0 d = .ok (sE, NO_ERR) ∧ WF sE ∧ sE.lastMsgId = s0.lastMsgId ∧
      GainHeld s0 (fin sE id) seg drives ∧ (fin sE id).stmSwap = s0.stmSwap ∧
      Obs.reqStmSeg (fin sE id) = Obs.reqStmSeg s0 ∧ Obs.stmTransition (fin sE id) = Obs.stmTransition s0 ∧
      (fin sE id).stmSegment = s0.stmSegment ∧
      (fin sE id).stmMode = setSel s0.stmMode seg STM_MODE_GAIN ∧ (fin sE id).stmCycle = setSel s0.stmCycle seg 1 ∧
      (fin sE id).stmDiv = setSel s0.stmDiv seg 0xFFFF ∧ (fin sE id).modDiv = s0.modDiv ∧
      (fin sE id).modSegment = s0.modSegment ∧ (fin sE id).strict = s0.strict ∧ (fin sE id).minDivI = s0.minDivI ∧
      (fin sE id).minDivP = s0.minDivP := by
  have hh := gain_handler_noupd s0 hW d seg hseg p0 p1 p2
  have hwd : ∀ j, j < s0.numTr → rd (wordsAt d 4 s0.numTr) j = rd drives j := by
    intro j hj; rw [rd_wordsAt, if_pos hj, pw j hj]; exact Nat.mod_eq_of_lt (hdr j)
  have hG := gainHeld_of s0 (gainBody s0 seg (wordsAt d 4 s0.numTr)) id seg hseg drives
    (wordsAt d 4 s0.numTr) hW hdr (by simp) hwd (fun _ _ _ => rfl) (fun _ => rfl)
    (by simp [gainBody, gainRegs]) (by simp [gainBody, gainRegs]) (by simp [gainBody, gainRegs])
    (by simp [gainBody, gainRegs])
  have hr : ∀ a, a ≠ 0 → (a < 80 ∨ a = 82 ∨ 90 < a) →
      reg (fin (gainBody s0 seg (wordsAt d 4 s0.numTr)) id) a = reg s0 a := by
    intro a h0 ha
    rw [reg_fin _ _ _ h0, reg_gainBody _ hW.ctl _ hseg]
    rw [if_neg (by omega), if_neg (by omega), if_neg (by omega), if_neg (by omega), if_neg (by omega), if_neg (by omega)]
  refine ⟨_, hh, WF_gainBody hW seg hseg _, by simp [gainBody, gainRegs], hG,
    by simp [fin, gainBody, gainRegs], ?_, ?_, by simp [fin, gainBody, gainRegs], by simp [fin, gainBody, gainRegs],
    by simp [fin, gainBody, gainRegs], by simp [fin, gainBody, gainRegs], by simp [fin, gainBody, gainRegs],
    by simp [fin, gainBody, gainRegs], by simp [fin, gainBody, gainRegs], by simp [fin, gainBody, gainRegs],
    by simp [fin, gainBody, gainRegs]⟩
  · unfold Obs.reqStmSeg segReg; simp only [hr _ (show ADDR_STM_REQ_RD_SEGMENT ≠ 0 by decide) (by decide)]
  · unfold Obs.stmTransition reg64
    simp only [hr ADDR_STM_TRANSITION_MODE (by decide) (by decide),
      hr ADDR_STM_TRANSITION_VALUE_0 (by decide) (by decide), hr (ADDR_STM_TRANSITION_VALUE_0 + 1) (by decide) (by decide),
      hr (ADDR_STM_TRANSITION_VALUE_0 + 2) (by decide) (by decide), hr (ADDR_STM_TRANSITION_VALUE_0 + 3) (by decide) (by decide)]

/-- handler level, with the update flag -/
theorem gain_handle_upd (s0 : State) (hW : WF s0) (d : Array Nat) (id : Nat) (seg : Nat) (hseg : seg ≤ 1)
    (drives : Array Nat) (hdr : ∀ i, rd drives i < 65536)
    (p0 : u8at d 0 = 48) (p1 : u8at d 1 = seg) (p2 : u8at d 2 = 1)
    (pw : ∀ j, j < s0.numTr → u16at d (4 + 2 * j) = rd drives j % 65536) :
    ∃ sE, handlePayload s0 d = .ok (sE, NO_ERR) ∧ WF sE ∧ sE.lastMsgId = s0.lastMsgId ∧
      GainHeld s0 (fin sE id) seg drives ∧ Obs.reqStmSeg (fin sE id) = .ok seg ∧
      Obs.stmTransition (fin sE id) = .ok .syncIdx ∧ Obs.currentStmSeg (fin sE id) = seg ∧
      (fin sE id).stmSegment = seg ∧
      SwapSet s0.stmSwap (fin sE id).stmSwap s0.dcSysTime 0xFFFF 0xFFFF 1 seg .syncIdx ∧
      (fin sE id).stmMode = setSel s0.stmMode seg STM_MODE_GAIN ∧ (fin sE id).stmCycle = setSel s0.stmCycle seg 1 ∧
      (fin sE id).stmDiv = setSel s0.stmDiv seg 0xFFFF ∧ (fin sE id).modDiv = s0.modDiv ∧
      (fin sE id).modSegment = s0.modSegment ∧ (fin sE id).strict = s0.strict ∧ (fin sE id).minDivI = s0.minDivI ∧
      (fin sE id).minDivP = s0.minDivP := by
  have hW2 : WF { s0 with stmSegment := seg } := by wf_same hW
  have hh := gain_handler_upd s0 hW d seg hseg p0 p1 p2 _ rfl
  have hwd : ∀ j, j < s0.numTr → rd (wordsAt d 4 s0.numTr) j = rd drives j := by
    intro j hj; rw [rd_wordsAt, if_pos hj, pw j hj]; exact Nat.mod_eq_of_lt (hdr j)
  have hWB := WF_gainBody hW2 seg hseg (wordsAt d 4 s0.numTr)
  obtain ⟨w, hsaw, hset, hW1, hregs⟩ := gainReq_ok _ hWB seg hseg
  have hc2 : ({ s0 with stmSegment := seg } : State).ctl.size = 256 := hW.ctl
  rw [hsaw] at hh
  have hG := gainHeld_of { s0 with stmSegment := seg }
    (gainReqPost (gainBody { s0 with stmSegment := seg } seg (wordsAt d 4 s0.numTr)) seg w)
    id seg hseg drives (wordsAt d 4 s0.numTr) hW2 hdr (by simp) hwd
    (fun a h1 h2 => by rw [hregs a (by omega), if_neg (by omega), if_neg (by omega)])
    (fun g => by unfold Obs.stmMem; simp [gainReqPost])
    (by simp [gainReqPost, gainBody, gainRegs]) (by simp [gainReqPost, gainBody, gainRegs])
    (by simp [gainReqPost, gainBody, gainRegs]) (by simp [gainReqPost, gainBody, gainRegs])
  have hset' : SwapSet s0.stmSwap w s0.dcSysTime 0xFFFF 0xFFFF 1 seg .syncIdx := by
    have e1 : reg (gainBody { s0 with stmSegment := seg } seg (wordsAt d 4 s0.numTr))
        (ADDR_STM_REP0 + seg) = 0xFFFF := by
      simp only [ADDR_STM_REP0]; rw [reg_gainBody _ hc2 _ hseg]
      rw [if_neg (by omega), if_neg (by omega), if_neg (by omega), if_neg (by omega), if_pos rfl]
    have e2 : reg (gainBody { s0 with stmSegment := seg } seg (wordsAt d 4 s0.numTr))
        (ADDR_STM_FREQ_DIV0 + seg) = 0xFFFF := by
      simp only [ADDR_STM_FREQ_DIV0]; rw [reg_gainBody _ hc2 _ hseg]
      rw [if_neg (by omega), if_neg (by omega), if_neg (by omega), if_neg (by omega), if_neg (by omega), if_pos rfl]
    have e3 : reg (gainBody { s0 with stmSegment := seg } seg (wordsAt d 4 s0.numTr))
        (ADDR_STM_CYCLE0 + seg) = 0 := by
      simp only [ADDR_STM_CYCLE0]; rw [reg_gainBody _ hc2 _ hseg]
      rw [if_neg (by omega), if_neg (by omega), if_neg (by omega), if_pos rfl]
    rw [e1, e2, e3] at hset
    have e4 : (gainBody { s0 with stmSegment := seg } seg (wordsAt d 4 s0.numTr)).stmSwap =
        s0.stmSwap := by simp [gainBody, gainRegs]
    have e5 : (gainBody { s0 with stmSegment := seg } seg (wordsAt d 4 s0.numTr)).dcSysTime =
        s0.dcSysTime := by simp [gainBody, gainRegs]
    rw [e4, e5] at hset
    exact hset
  refine ⟨_, hh, hW1, by simp [gainReqPost, gainBody, gainRegs], ?_, ?_, ?_, ?_, ?_, ?_,
    by simp [fin, gainReqPost, gainBody, gainRegs],
    by simp [fin, gainReqPost, gainBody, gainRegs], by simp [fin, gainReqPost, gainBody, gainRegs],
    by simp [fin, gainReqPost, gainBody, gainRegs], by simp [fin, gainReqPost, gainBody, gainRegs],
    by simp [fin, gainReqPost, gainBody, gainRegs], by simp [fin, gainReqPost, gainBody, gainRegs],
    by simp [fin, gainReqPost, gainBody, gainRegs]⟩
  · exact ⟨hG.drives, hG.cycle, hG.gainMode, hG.div, hG.rep, hG.otherMem, hG.otherRegs, hG.modMem, hG.numTr⟩
  · unfold Obs.reqStmSeg segReg
    simp only [reg_fin _ _ _ (show ADDR_STM_REQ_RD_SEGMENT ≠ 0 by decide), hregs _ (show ADDR_STM_REQ_RD_SEGMENT ≠ 0 by decide)]
    simp [ADDR_STM_REQ_RD_SEGMENT, hseg]
  · unfold Obs.stmTransition
    rw [reg_fin _ _ _ (by decide), hregs _ (by decide)]
    exact decodeTMode_zero _ _
  · show (fin _ _).stmSwap.cur = seg
    have : (fin (gainReqPost (gainBody { s0 with stmSegment := seg } seg
        (wordsAt d 4 s0.numTr)) seg w) id).stmSwap = w := by simp [fin, gainReqPost]
    rw [this]; exact (hset'.now (Or.inr rfl)).1
  · simp [fin, gainReqPost, gainBody, gainRegs]
  · have : (fin (gainReqPost (gainBody { s0 with stmSegment := seg } seg
        (wordsAt d 4 s0.numTr)) seg w) id).stmSwap = w := by simp [fin, gainReqPost]
    rw [this]; exact hset'

theorem GainHeld_ack {s0 s' : State} {a : Nat} {seg : Nat} {drives : Array Nat}
    (h : GainHeld { s0 with ack := a } s' seg drives) : GainHeld s0 s' seg drives :=
  ⟨h.drives, h.cycle, h.gainMode, h.div, h.rep, h.otherMem, h.otherRegs, h.modMem, h.numTr⟩

/-- **Gain in the second slot**: operation 1 (`dg1`, one frame of `k` bytes, accepted, leaving `s1`) travels in
slot 1, the Gain (one frame, `4 + 2 * numTr` bytes) in slot 2 of the same frame; the device ends up holding
exactly what it holds when the Gain is sent alone from `s1` -/
theorem gain_roundtrip_slot2' (s : State) (t : Tx) (ht : TxOK t) (hf : Fresh s t)
    (dg1 : Dg) (o1' : Op) (b1 : Array Nat) (k : Nat) (s1 : State)
    (hnd1 : (Op.ofDg dg1).done = false)
    (hp1 : (Op.ofDg dg1).pack s.numTr t.payload 0 = .ok (o1', b1, k)) (hd1 : o1'.done = true)
    (hk : 0 < k ∧ k % 2 = 0 ∧ k + 4 + 2 * s.numTr ≤ 622)
    (hh1 : ∀ b', Keeps k b1 b' → handlePayload (pre s (nextId t)) b' = .ok (s1, NO_ERR))
    (hW1 : WF s1) (hl1 : s1.lastMsgId = nextId t) (hnt : s1.numTr = s.numTr)
    (seg : Nat) (hseg : seg ≤ 1) (tr : Tr) (htr : tr = none ∨ ∃ v, tr = some (Drv.TRANSITION_MODE_IMMEDIATE, v))
    (drives : Array Nat) (hdr : ∀ i, rd drives i < 65536) :
    ∃ t' s', Sends2 dg1 (.gain seg tr drives) s t t' s' ∧ WF s' ∧ TxOK t' ∧ Fresh s' t' ∧
      GainHeld s1 s' seg drives ∧ GainCpu s1 s' seg ∧
      (tr = none → s'.stmSwap = s1.stmSwap ∧ Obs.reqStmSeg s' = Obs.reqStmSeg s1 ∧
        Obs.stmTransition s' = Obs.stmTransition s1 ∧ s'.stmSegment = s1.stmSegment) ∧
      (tr.isSome = true → Obs.reqStmSeg s' = .ok seg ∧ Obs.stmTransition s' = .ok .syncIdx ∧
        Obs.currentStmSeg s' = seg ∧ s'.stmSegment = seg ∧
        SwapSet s1.stmSwap s'.stmSwap s1.dcSysTime 0xFFFF 0xFFFF 1 seg .syncIdx) := by
  have ht' : t.payload.size = 622 := ht
  have hb1 : b1.size = 622 := by rw [(pack_keeps hp1).1]; exact ht'
  obtain ⟨hk0, hk2, hk4⟩ := hk
  have hW1a : WF { s1 with ack := NO_ERR } := by wf_same hW1
  have hroom : ∀ tr, 622 - k ≥ (Op.ofDg (.gain seg tr drives)).required s.numTr := by
    intro tr; show 622 - k ≥ 4 + s.numTr * 2; omega
  rcases htr with h | ⟨v, h⟩
  · subst h
    have hpk := pack_gain_none_at seg drives s.numTr b1 k hb1 hk4
    obtain ⟨p0, p1, p2, pw, psz⟩ := gainAt_payload b1 k seg 0 drives s.numTr hb1 hk4 (by omega) (by omega)
    have hkeep : Keeps k b1 (gainPayloadAt b1 k seg 0 drives s.numTr) := pack_keeps hpk
    generalize gainPayloadAt b1 k seg 0 drives s.numTr = b2 at hpk p0 p1 p2 pw psz hkeep
    have hh1' := hh1 b2 hkeep
    generalize hd : b2.extract k 622 = d at p0 p1 p2 pw
    obtain ⟨sE, hh, hWE, hlast, hG, a1, a2, a3, a4, hc⟩ := gain_handle_noupd { s1 with ack := NO_ERR } hW1a d (nextId t) seg hseg
      drives hdr p0 p1 p2 (fun j hj => pw j (by rw [← hnt]; exact hj))
    refine ⟨{ msgId := nextId t, slot2 := k, payload := b2 }, fin sE (nextId t), ⟨2, ?_⟩, WF_fin hWE _, psz,
      Fresh_after sE t b2 (hlast.trans hl1), GainHeld_ack hG, GainCpu_of hseg hc, fun _ => ⟨a1, a2, a3, a4⟩,
      fun h => by simp at h⟩
    rw [sendLoop2_first 1 _ _ s t hf hnd1 rfl o1' b1 k hp1 hb1 (hroom _) hk0 (by omega) _ b2 _ hpk psz s1 sE hh1'
      (by rw [hd]; exact hh)]
    rw [sendLoop2_done1 _ _ _ _ _ hd1, sendLoop_done _ _ _ _ rfl]
  · subst h
    have hpk := pack_gain_some_at seg v drives s.numTr b1 k hb1 hk4
    obtain ⟨p0, p1, p2, pw, psz⟩ := gainAt_payload b1 k seg 1 drives s.numTr hb1 hk4 (by omega) (by omega)
    have hkeep : Keeps k b1 (gainPayloadAt b1 k seg 1 drives s.numTr) := pack_keeps hpk
    generalize gainPayloadAt b1 k seg 1 drives s.numTr = b2 at hpk p0 p1 p2 pw psz hkeep
    have hh1' := hh1 b2 hkeep
    generalize hd : b2.extract k 622 = d at p0 p1 p2 pw
    obtain ⟨sE, hh, hWE, hlast, hG, a1, a2, a3, a4, a5, hc⟩ := gain_handle_upd { s1 with ack := NO_ERR } hW1a d (nextId t) seg hseg
      drives hdr p0 p1 p2 (fun j hj => pw j (by rw [← hnt]; exact hj))
    refine ⟨{ msgId := nextId t, slot2 := k, payload := b2 }, fin sE (nextId t), ⟨2, ?_⟩, WF_fin hWE _, psz,
      Fresh_after sE t b2 (hlast.trans hl1), GainHeld_ack hG, GainCpu_of hseg hc, fun h => by simp at h,
      fun _ => ⟨a1, a2, a3, a4, a5⟩⟩
    rw [sendLoop2_first 1 _ _ s t hf hnd1 rfl o1' b1 k hp1 hb1 (hroom _) hk0 (by omega) _ b2 _ hpk psz s1 sE hh1'
      (by rw [hd]; exact hh)]
    rw [sendLoop2_done1 _ _ _ _ _ hd1, sendLoop_done _ _ _ _ rfl]

end Autd3.Rt
