import Autd3.Lemmas.RtGstm10
/-!
Several devices: the controller sends one frame per device per round (lockstep) until every operation
is done.  `lockstep_pointwise`: the result for device `i` is the result of running device `i` alone
(a function of its own operation, state and tx buffer only).  `devRun_of_sendLoop` connects the
per-device rounds with `sendLoop`, so every `*_roundtrip` theorem lifts to 1..n devices.
`ecatRecv_idle`: a frame whose message id the device has already processed is ignored (what happens
to devices whose operation finished earlier while the others are still being served).
-/
set_option linter.unusedSimpArgs false
open Autd3 Autd3.Fw Autd3.Wire Autd3.Gen.Cpu Autd3.Gen
namespace Autd3.Rt

abbrev Dev := Op × State × Tx

/-- one round for one device: nothing if its operation is done, else pack the next frame and deliver it -/
def devStep (d : Dev) : Option Dev :=
  if d.1.done then some d else
  match packOp d.1 d.2.1.numTr d.2.2 with
  | .error _ => none
  | .ok (o', t', _) =>
    match ecatRecv d.2.1 t'.frame with
    | .error _ => none
    | .ok s' => if s'.ack = t'.msgId then some (o', s', t') else none

def devRun : Nat → Dev → Option Dev
  | 0, d => some d
  | n + 1, d => devStep d >>= devRun n

/-- one round for all devices -/
def round (devs : List Dev) : Option (List Dev) := devs.mapM devStep

def lockstep : Nat → List Dev → Option (List Dev)
  | 0, devs => some devs
  | n + 1, devs => round devs >>= lockstep n

theorem mapM_fuse (f g : Dev → Option Dev) (l : List Dev) :
    (l.mapM f >>= fun l' => l'.mapM g) = l.mapM (fun x => f x >>= g) := by
  induction l with
  | nil => rfl
  | cons x xs ih =>
    rw [List.mapM_cons, List.mapM_cons, ← ih]
    cases hf : f x with
    | none => simp
    | some y =>
      cases hxs : xs.mapM f with
      | none => cases hg : g y <;> simp
      | some ys => cases hg : g y <;> simp [List.mapM_cons, hg]

/-- **device independence**: lockstep rounds over all devices = every device run on its own -/
theorem lockstep_pointwise (n : Nat) (devs : List Dev) : lockstep n devs = devs.mapM (devRun n) := by
  induction n generalizing devs with
  | zero =>
    show some devs = devs.mapM (fun d => some d)
    induction devs with
    | nil => rfl
    | cons x xs ih => simp [List.mapM_cons, ← ih]
  | succ n ih =>
    show (round devs >>= lockstep n) = devs.mapM (fun d => devStep d >>= devRun n)
    rw [← mapM_fuse]
    unfold round
    congr 1
    funext l
    exact ih l

theorem devRun_done (n : Nat) (d : Dev) (h : d.1.done = true) : devRun n d = some d := by
  induction n with
  | zero => rfl
  | succ n ih => simp [devRun, devStep, h, ih]

/-- the rounds of one device are its send loop -/
theorem devRun_of_sendLoop : ∀ fuel (o : Op) (s : State) (t t' : Tx) (s' : State),
    sendLoop fuel o s t = some (t', s') → ∀ n, fuel ≤ n + 1 → ∃ o', devRun n (o, s, t) = some (o', s', t') ∧ o'.done = true := by
  intro fuel
  induction fuel with
  | zero => intro o s t t' s' h; simp [sendLoop] at h
  | succ fuel ih =>
    intro o s t t' s' h n hn
    by_cases hd : o.done = true
    · simp only [sendLoop, hd, if_true, Option.some.injEq, Prod.mk.injEq] at h
      obtain ⟨rfl, rfl⟩ := h
      exact ⟨o, devRun_done n (o, s, t) hd, hd⟩
    · have hd' : o.done = false := by cases h' : o.done <;> simp_all
      simp only [sendLoop, hd', Bool.false_eq_true, if_false] at h
      cases hp : packOp o s.numTr t with
      | error e => simp [hp] at h
      | ok r =>
        obtain ⟨o1, t1, sz⟩ := r
        simp only [hp] at h
        cases hr : ecatRecv s t1.frame with
        | error e => simp [hr] at h
        | ok s1 =>
          simp only [hr] at h
          by_cases ha : s1.ack = t1.msgId
          · simp only [ha, if_true] at h
            have hf1 : 1 ≤ fuel := by
              rcases Nat.eq_zero_or_pos fuel with h0 | h0
              · subst h0; simp [sendLoop] at h
              · exact h0
            obtain ⟨n', rfl⟩ : ∃ n', n = n' + 1 := ⟨n - 1, by omega⟩
            obtain ⟨o', h1, h2⟩ := ih o1 s1 t1 t' s' h n' (by omega)
            refine ⟨o', ?_, h2⟩
            show (devStep (o, s, t) >>= devRun n') = _
            have : devStep (o, s, t) = some (o1, s1, t1) := by
              simp [devStep, hd', hp, hr, ha]
            rw [this]; exact h1
          · simp [ha] at h

/-- a frame with the message id the device processed last is ignored: state unchanged -/
theorem ecatRecv_idle (s : State) (t : Tx) (h : s.lastMsgId = t.msgId % 256) : ecatRecv s t.frame = .ok s := by
  unfold ecatRecv
  simp only [frame_id]
  rw [if_pos h]
  rfl

end Autd3.Rt
