import Autd3.Lemmas.RtGstm4
/-!
GainSTM, part 5: inter-frame invariant `GInv`, final observation `GHeld`, firmware-level step lemmas.
-/
set_option linter.unusedSimpArgs false
open Autd3 Autd3.Fw Autd3.Wire Autd3.Gen.Cpu Autd3.Gen
namespace Autd3.Rt

/-- pattern `idx` of the datagram (`patterns[idx]!` in the driver) -/
def patAt (patterns : Array (Array Nat)) (idx : Nat) : Array Nat := patterns[idx]!

/-- the word the FPGA holds for a drive word `w` (phase | intensity << 8) sent in GainSTM mode `mode`:
full; (0xFF, phase); (0xFF, (phase >> 4) · 0x11) -/
def expDrive (mode w : Nat) : Nat :=
  if mode = 0 then w else if mode = 1 then 0xFF00 + w % 256 else 0xFF00 + (w % 256 / 16) * 17

structure GInv (s0 s : State) (seg : Nat) (tr : Tr) (rep div mode : Nat) (patterns : Array (Array Nat)) (c : Nat) : Prop where
  wf : WF s
  cyc : sel s.stmCycle seg = c
  gmode : s.gainStmMode = mode
  wseg : reg s ADDR_STM_MEM_WR_SEGMENT = seg
  page : reg s ADDR_STM_MEM_WR_PAGE = c / 64
  rows : ∀ idx, idx < c → ∀ i, i < s0.numTr →
    rd (Obs.stmMem s seg) (256 * idx + i) = expDrive mode (rd (patAt patterns idx) i)
  other : ∀ g, (g = 0) ≠ (seg = 0) → Obs.stmMem s g = Obs.stmMem s0 g
  trMode : s.stmTrMode = trMode tr
  trValue : s.stmTrValue = trValue tr
  divReg : reg s (85 + seg) = div
  repReg : reg s (87 + seg) = rep
  modeReg : reg s (89 + seg) = STM_MODE_GAIN
  regs : ∀ a, a ≠ 0 → a ≠ 80 → a ≠ 81 → a ≠ 85 + seg → a ≠ 87 + seg → a ≠ 89 + seg → reg s a = reg s0 a
  swap : s.stmSwap = s0.stmSwap
  time : s.dcSysTime = s0.dcSysTime
  numTr : s.numTr = s0.numTr

theorem GInv_pre {s0 s : State} {seg : Nat} {tr : Tr} {rep div mode : Nat} {patterns : Array (Array Nat)} {c : Nat}
    (h : GInv s0 s seg tr rep div mode patterns c) (id r : Nat) :
    GInv s0 { s with lastMsgId := id, rxData := r } seg tr rep div mode patterns c :=
  ⟨by wf_same h.wf, h.cyc, h.gmode, h.wseg, h.page, h.rows, h.other, h.trMode, h.trValue, h.divReg, h.repReg, h.modeReg,
    h.regs, h.swap, h.time, h.numTr⟩

theorem GInv_fin {s0 s : State} {seg : Nat} {tr : Tr} {rep div mode : Nat} {patterns : Array (Array Nat)} {c : Nat}
    (h : GInv s0 s seg tr rep div mode patterns c) (id : Nat) : GInv s0 (fin s id) seg tr rep div mode patterns c := by
  refine ⟨WF_fin h.wf id, h.cyc, h.gmode, ?_, ?_, h.rows, h.other, h.trMode, h.trValue, ?_, ?_, ?_, ?_, h.swap, h.time,
    h.numTr⟩
  · rw [reg_fin _ _ _ (by decide)]; exact h.wseg
  · rw [reg_fin _ _ _ (by decide)]; exact h.page
  · rw [reg_fin _ _ _ (by omega)]; exact h.divReg
  · rw [reg_fin _ _ _ (by omega)]; exact h.repReg
  · rw [reg_fin _ _ _ (by omega)]; exact h.modeReg
  · intro a h0 h1 h2 h3 h4 h5; rw [reg_fin _ _ _ h0]; exact h.regs a h0 h1 h2 h3 h4 h5

/-- the rows of one frame extend the invariant's rows -/
theorem grows_extend {s0 s s1 : State} {seg : Nat} {tr : Tr} {rep div mode : Nat} {patterns : Array (Array Nat)} {c off : Nat}
    {fs : List (Nat → Nat)} {d : Array Nat} (hI : GInv s0 s seg tr rep div mode patterns c)
    (R : GstmRows s s1 seg c fs d off)
    (hd : ∀ j, j < fs.length → ∀ i, i < s0.numTr →
      nthF fs j (u16at d (off + 2 * i)) % 65536 = expDrive mode (rd (patAt patterns (c + j)) i)) :
    ∀ idx, idx < c + fs.length → ∀ i, i < s0.numTr →
      rd (Obs.stmMem s1 seg) (256 * idx + i) = expDrive mode (rd (patAt patterns idx) i) := by
  intro idx hidx i hi
  have hnt := hI.numTr
  have h249 := hI.wf.numTr
  by_cases hlo : idx < c
  · rw [R.rest _ (fun j hj => by omega)]; exact hI.rows idx hlo i hi
  · obtain ⟨j, rfl⟩ : ∃ j, idx = c + j := ⟨idx - c, by omega⟩
    rw [R.rows j (by omega) i (by rw [hnt]; exact hi), hd j (by omega) i hi]

theorem g_tail_nonlast {s0 sH : State} {seg : Nat} {tr : Tr} {rep div mode : Nat} {patterns : Array (Array Nat)} {c : Nat}
    (hseg : seg ≤ 1) (hm : mode ≤ 2) (hI : GInv s0 sH seg tr rep div mode patterns c) (d : Array Nat) (off flag : Nat)
    (hlen : c + (gstmFns mode ((flag >>> 6) + 1)).length < 1024)
    (hpg : c % 64 + (gstmFns mode ((flag >>> 6) + 1)).length ≤ 64)
    (hd : ∀ j, j < (gstmFns mode ((flag >>> 6) + 1)).length → ∀ i, i < s0.numTr →
      nthF (gstmFns mode ((flag >>> 6) + 1)) j (u16at d (off + 2 * i)) % 65536 = expDrive mode (rd (patAt patterns (c + j)) i))
    (hE : hasFlag flag GAIN_STM_FLAG_END = false) :
    ∃ s2, gstmTail sH d off flag seg = .ok (s2, NO_ERR) ∧
      GInv s0 s2 seg tr rep div mode patterns (c + (gstmFns mode ((flag >>> 6) + 1)).length) ∧
      s2.lastMsgId = sH.lastMsgId := by
  rw [gstmTail_eq _ _ _ _ _ (by rw [hI.gmode]; exact hm), hI.gmode]
  generalize hfs : gstmFns mode ((flag >>> 6) + 1) = fs at *
  obtain ⟨s1, h1, R⟩ := gstmWriteList_ok seg off d hseg (c / 64) fs sH c hI.wf hI.cyc (by omega) hI.wseg hI.page
    (fun j hj => by omega)
  have hc' : sel s1.stmCycle seg = c + fs.length := R.cyc
  rw [h1, ok_bind, gstmEndPart_page s1 flag seg _ hc' (by omega)]
  simp only [hE, Bool.false_eq_true, if_false]
  obtain ⟨pf, pc, pm, pmem, pwf⟩ := gstmPaged_props s1 (c + fs.length)
  have hr := fun a => reg_gstmPaged s1 R.wf.ctl (c + fs.length) a (by omega)
  refine ⟨_, rfl, ?_, ?_⟩
  · refine ⟨pwf R.wf, by rw [pc]; exact hc', by rw [pf.gainStmMode, R.frame.gainStmMode]; exact hI.gmode, ?_, ?_, ?_, ?_, ?_, ?_,
      ?_, ?_, ?_, ?_, ?_, ?_, ?_⟩
    · rw [hr, if_neg (by intro h; exact absurd h.1 (by decide)), R.regs]; exact hI.wseg
    · rw [hr]
      by_cases h0 : (c + fs.length) % 64 = 0
      · rw [if_pos ⟨rfl, h0⟩]
      · rw [if_neg (fun h => h0 h.2), R.regs, hI.page]; omega
    · intro idx hidx i hi; rw [pmem]; exact grows_extend hI R hd idx hidx i hi
    · intro g hg; rw [pmem, R.other g hg]; exact hI.other g hg
    · rw [pf.stmTrMode, R.frame.stmTrMode]; exact hI.trMode
    · rw [pf.stmTrValue, R.frame.stmTrValue]; exact hI.trValue
    · rw [hr, if_neg (by intro h; omega), R.regs]; exact hI.divReg
    · rw [hr, if_neg (by intro h; omega), R.regs]; exact hI.repReg
    · rw [hr, if_neg (by intro h; omega), R.regs]; exact hI.modeReg
    · intro a h0 h80 h81 h3 h4 h5; rw [hr, if_neg (fun h => h81 h.1), R.regs]; exact hI.regs a h0 h80 h81 h3 h4 h5
    · rw [pf.stmSwap, R.frame.stmSwap]; exact hI.swap
    · rw [pf.dcSysTime, R.frame.dcSysTime]; exact hI.time
    · rw [pf.numTr, R.frame.numTr]; exact hI.numTr
  · rw [pf.lastMsgId, R.frame.lastMsgId]

end Autd3.Rt
