import Autd3.Lemmas.Group
/-!
# Lemmas about `Model/Group.lean`, part 2: the filters and the key loop of `group_send`
-/
namespace Autd3.Group

/-! ## the filters -/

/-- what the loop needs to know about the bit vector of key `k` -/
def Good (geo : Geometry) (km : Nat → Option Key) (k : Key) (f : Filter) : Prop :=
  f.length = geo.length ∧ ∀ d ∈ geo, d.enable = true → (f.getD d.idx false = true ↔ km d.idx = some k)

/-- `insertKey` without the range check -/
def insertKey' (n : Nat) : List (Key × Filter) → Key → Nat → List (Key × Filter)
  | [], k, i => [(k, Filter.single n i)]
  | (k', f) :: rest, k, i =>
    if k' = k then (k', f.set i true) :: rest else (k', f) :: insertKey' n rest k i

theorem insertKey_eq (n : Nat) : ∀ (fs : List (Key × Filter)) (k i : Nat),
    (∀ p ∈ fs, i < p.2.length) → insertKey n fs k i = .ok (insertKey' n fs k i)
  | [], _, _, _ => rfl
  | (k', f) :: rest, k, i, h => by
    have h1 : i < f.length := h (k', f) (List.mem_cons_self)
    have h2 := insertKey_eq n rest k i (fun p hp => h p (List.mem_cons_of_mem _ hp))
    unfold insertKey insertKey'
    by_cases hk : k' = k
    · simp [hk, h1]
    · simp [hk, h2]

theorem insertKey'_keys (n : Nat) : ∀ (fs : List (Key × Filter)) (k i : Nat),
    (insertKey' n fs k i).map (·.1) = if k ∈ fs.map (·.1) then fs.map (·.1) else fs.map (·.1) ++ [k]
  | [], _, _ => by simp [insertKey']
  | (k', f) :: rest, k, i => by
    unfold insertKey'
    by_cases hk : k' = k
    · simp [hk]
    · have ih := insertKey'_keys n rest k i
      have hk' : ¬ k = k' := fun h => hk h.symm
      simp only [hk, if_false, List.map_cons, ih, List.mem_cons, hk', false_or]
      split <;> simp

theorem insertKey'_mem (n : Nat) : ∀ (fs : List (Key × Filter)) (k i : Nat), (fs.map (·.1)).Nodup →
    ∀ k' f', (k', f') ∈ insertKey' n fs k i →
      ((k', f') ∈ fs ∧ k' ≠ k) ∨
      (k' = k ∧ ((∃ f, (k, f) ∈ fs ∧ f' = f.set i true) ∨ (f' = Filter.single n i ∧ k ∉ fs.map (·.1))))
  | [], k, i, _, k', f', h => by
    simp only [insertKey', List.mem_singleton, Prod.mk.injEq] at h
    exact Or.inr ⟨h.1, Or.inr ⟨h.2, by simp⟩⟩
  | (k0, f0) :: rest, k, i, hnd, k', f', h => by
    rw [List.map_cons, List.nodup_cons] at hnd
    unfold insertKey' at h
    by_cases hk : k0 = k
    · simp only [hk, if_true, List.mem_cons, Prod.mk.injEq] at h
      rcases h with ⟨h1, h2⟩ | h
      · exact Or.inr ⟨h1, Or.inl ⟨f0, by simp [hk], h2⟩⟩
      · have hne : k' ≠ k := by
          intro he
          apply hnd.1
          rw [hk, ← he]
          exact List.mem_map_of_mem (f := (·.1)) h
        exact Or.inl ⟨List.mem_cons_of_mem _ h, hne⟩
    · simp only [hk, if_false, List.mem_cons, Prod.mk.injEq] at h
      rcases h with ⟨h1, h2⟩ | h
      · exact Or.inl ⟨by simp [h1, h2], by rw [h1]; exact hk⟩
      · rcases insertKey'_mem n rest k i hnd.2 k' f' h with ⟨hm, hne⟩ | ⟨he, hr⟩
        · exact Or.inl ⟨List.mem_cons_of_mem _ hm, hne⟩
        · refine Or.inr ⟨he, ?_⟩
          rcases hr with ⟨f, hf, hs⟩ | ⟨hs, hnot⟩
          · exact Or.inl ⟨f, List.mem_cons_of_mem _ hf, hs⟩
          · refine Or.inr ⟨hs, ?_⟩
            simp only [List.map_cons, List.mem_cons, not_or]
            exact ⟨fun h => hk h.symm, hnot⟩

theorem single_length (n i : Nat) : (Filter.single n i).length = n := by simp [Filter.single]

theorem single_getD (n i j : Nat) : (Filter.single n i).getD j false = true ↔ j < n ∧ j = i := by
  unfold Filter.single
  by_cases hj : j < n
  · simp [List.getD_eq_getElem?_getD, hj]
  · simp [List.getD_eq_getElem?_getD, hj]

theorem set_getD (f : Filter) (i j : Nat) :
    (f.set i true).getD j false = true ↔ (j = i ∧ i < f.length) ∨ (j ≠ i ∧ f.getD j false = true) := by
  simp only [List.getD_eq_getElem?_getD, List.getElem?_set]
  by_cases hji : i = j
  · subst hji
    by_cases hl : i < f.length
    · simp [hl]
    · simp [hl]
  · have : ¬ j = i := fun h => hji h.symm
    simp [hji, this]

/-- invariant of the `filters` loop after the devices `P` -/
structure FInv (n : Nat) (km : Nat → Option Key) (P : List Device) (fs : List (Key × Filter)) : Prop where
  nodup : (fs.map (·.1)).Nodup
  keys : ∀ k, k ∈ fs.map (·.1) ↔ ∃ d ∈ P, km d.idx = some k
  bits : ∀ k f, (k, f) ∈ fs → f.length = n ∧
    ∀ j, (f.getD j false = true ↔ j < n ∧ km j = some k ∧ ∃ d ∈ P, d.idx = j)

theorem FInv.step {n km P fs} (h : FInv n km P fs) (dev : Device) (k : Key) (hk : km dev.idx = some k)
    (hi : dev.idx < n) : FInv n km (P ++ [dev]) (insertKey' n fs k dev.idx) := by
  refine ⟨?_, ?_, ?_⟩
  · rw [insertKey'_keys]
    split
    · exact h.nodup
    · next hnot =>
      rw [List.nodup_append]
      refine ⟨h.nodup, by simp, ?_⟩
      intro a ha b hb
      simp only [List.mem_singleton] at hb
      intro he; apply hnot; rw [← hb, ← he]; exact ha
  · intro k'
    rw [insertKey'_keys]
    have hmem : (∃ d ∈ P ++ [dev], km d.idx = some k') ↔ (∃ d ∈ P, km d.idx = some k') ∨ k' = k := by
      constructor
      · rintro ⟨d, hd, hkd⟩
        rcases List.mem_append.mp hd with hd | hd
        · exact Or.inl ⟨d, hd, hkd⟩
        · simp only [List.mem_singleton] at hd
          rw [hd, hk] at hkd
          exact Or.inr (Option.some.inj hkd).symm
      · rintro (⟨d, hd, hkd⟩ | he)
        · exact ⟨d, List.mem_append_left _ hd, hkd⟩
        · exact ⟨dev, by simp, by rw [he]; exact hk⟩
    rw [hmem, ← h.keys k']
    split
    · next hin =>
      constructor
      · exact Or.inl
      · rintro (h1 | h1)
        · exact h1
        · rw [h1]; exact hin
    · simp [List.mem_append]
  · intro k' f' hm
    rcases insertKey'_mem n fs k dev.idx h.nodup k' f' hm with ⟨hm', hne⟩ | ⟨he, hr⟩
    · obtain ⟨hl, hb⟩ := h.bits k' f' hm'
      refine ⟨hl, fun j => ?_⟩
      rw [hb j]
      constructor
      · rintro ⟨h1, h2, d, hd, h3⟩
        exact ⟨h1, h2, d, List.mem_append_left _ hd, h3⟩
      · rintro ⟨h1, h2, d, hd, h3⟩
        refine ⟨h1, h2, ?_⟩
        rcases List.mem_append.mp hd with hd | hd
        · exact ⟨d, hd, h3⟩
        · simp only [List.mem_singleton] at hd
          rw [hd] at h3
          rw [← h3, hk] at h2
          exact absurd (Option.some.inj h2).symm hne
    · subst he
      rcases hr with ⟨f, hf, hs⟩ | ⟨hs, hnot⟩
      · obtain ⟨hl, hb⟩ := h.bits k' f hf
        subst hs
        refine ⟨by simp [hl], fun j => ?_⟩
        rw [set_getD, hb j, hl]
        constructor
        · rintro (⟨h1, h2⟩ | ⟨h1, h2, h3, d, hd, h4⟩)
          · subst h1
            exact ⟨h2, hk, dev, by simp, rfl⟩
          · exact ⟨h2, h3, d, List.mem_append_left _ hd, h4⟩
        · rintro ⟨h1, h2, d, hd, h3⟩
          by_cases hj : j = dev.idx
          · exact Or.inl ⟨hj, hi⟩
          · refine Or.inr ⟨hj, h1, h2, ?_⟩
            rcases List.mem_append.mp hd with hd | hd
            · exact ⟨d, hd, h3⟩
            · simp only [List.mem_singleton] at hd
              rw [hd] at h3
              exact absurd h3.symm hj
      · subst hs
        refine ⟨single_length _ _, fun j => ?_⟩
        rw [single_getD]
        constructor
        · rintro ⟨h1, h2⟩
          subst h2
          exact ⟨h1, hk, dev, by simp, rfl⟩
        · rintro ⟨h1, h2, d, hd, h3⟩
          refine ⟨h1, ?_⟩
          rcases List.mem_append.mp hd with hd | hd
          · exfalso
            apply hnot
            rw [h.keys k']
            exact ⟨d, hd, by rw [h3]; exact h2⟩
          · simp only [List.mem_singleton] at hd
            rw [hd] at h3
            exact h3.symm

theorem buildFiltersAux_spec (n : Nat) (km : Nat → Option Key) :
    ∀ (rest P : List Device) (fs : List (Key × Filter)), FInv n km P fs → (∀ d ∈ rest, d.idx < n) →
      ∃ out, buildFiltersAux n km rest fs = .ok out ∧ FInv n km (P ++ rest) out
  | [], P, fs, h, _ => ⟨fs, rfl, by simpa using h⟩
  | dev :: rest, P, fs, h, hlt => by
    unfold buildFiltersAux
    have hi := hlt dev (List.mem_cons_self)
    have hlt' : ∀ d ∈ rest, d.idx < n := fun d hd => hlt d (List.mem_cons_of_mem _ hd)
    cases hk : km dev.idx with
    | none =>
      simp only []
      have h' : FInv n km (P ++ [dev]) fs := by
        refine ⟨h.nodup, ?_, ?_⟩
        · intro k
          rw [h.keys k]
          constructor
          · rintro ⟨d, hd, h1⟩; exact ⟨d, List.mem_append_left _ hd, h1⟩
          · rintro ⟨d, hd, h1⟩
            rcases List.mem_append.mp hd with hd | hd
            · exact ⟨d, hd, h1⟩
            · simp only [List.mem_singleton] at hd
              rw [hd, hk] at h1; cases h1
        · intro k f hm
          obtain ⟨hl, hb⟩ := h.bits k f hm
          refine ⟨hl, fun j => ?_⟩
          rw [hb j]
          constructor
          · rintro ⟨h1, h2, d, hd, h3⟩; exact ⟨h1, h2, d, List.mem_append_left _ hd, h3⟩
          · rintro ⟨h1, h2, d, hd, h3⟩
            refine ⟨h1, h2, ?_⟩
            rcases List.mem_append.mp hd with hd | hd
            · exact ⟨d, hd, h3⟩
            · simp only [List.mem_singleton] at hd
              rw [hd] at h3
              rw [← h3, hk] at h2; cases h2
      obtain ⟨out, ho, hinv⟩ := buildFiltersAux_spec n km rest (P ++ [dev]) fs h' hlt'
      exact ⟨out, ho, by simpa using hinv⟩
    | some k =>
      simp only []
      have hlen : ∀ p ∈ fs, dev.idx < p.2.length := by
        intro p hp
        rw [(h.bits p.1 p.2 hp).1]; exact hi
      rw [insertKey_eq n fs k dev.idx hlen]
      simp only []
      obtain ⟨out, ho, hinv⟩ := buildFiltersAux_spec n km rest (P ++ [dev]) _ (h.step dev k hk hi) hlt'
      exact ⟨out, ho, by simpa using hinv⟩

/-- **the filters**: on a well-formed geometry the block does not panic, yields one filter per used
key, and the filter of `k` marks exactly the enabled devices mapped to `k` -/
theorem buildFilters_spec {geo : Geometry} (hwf : WF geo) (km : Nat → Option Key) :
    ∃ fs0, buildFilters geo km = .ok fs0 ∧ (fs0.map (·.1)).Nodup ∧
      (∀ p ∈ fs0, Good geo km p.1 p.2) ∧ (∀ k, k ∈ fs0.map (·.1) ↔ usedKey geo km k) := by
  have h0 : FInv geo.length km [] [] := ⟨by simp, by simp, by simp⟩
  have hlt : ∀ d ∈ devices geo, d.idx < geo.length := fun d hd => hwf.lt d (mem_devices.mp hd).1
  obtain ⟨out, ho, hinv⟩ := buildFiltersAux_spec geo.length km (devices geo) [] [] h0 hlt
  simp only [List.nil_append] at hinv
  refine ⟨out, ho, hinv.nodup, ?_, ?_⟩
  · intro p hp
    obtain ⟨hl, hb⟩ := hinv.bits p.1 p.2 hp
    refine ⟨hl, fun d hd he => ?_⟩
    rw [hb d.idx]
    constructor
    · exact fun h => h.2.1
    · exact fun h => ⟨hwf.lt d hd, h, d, mem_devices.mpr ⟨hd, he⟩, rfl⟩
  · intro k
    rw [hinv.keys k]
    unfold usedKey
    constructor
    · rintro ⟨d, hd, h1⟩
      exact ⟨d, (mem_devices.mp hd).1, (mem_devices.mp hd).2, h1⟩
    · rintro ⟨d, hd, he, h1⟩
      exact ⟨d, mem_devices.mpr ⟨hd, he⟩, h1⟩

/-! ## one key -/

/-- the geometry while the generator of key `k` is built -/
def groupGeo (geo : Geometry) (km : Nat → Option Key) (k : Key) : Geometry :=
  geo.map fun d => { d with enable := d.enable && (km d.idx == some k) }

/-- the generator of key `k`'s datagram -/
def mkGen (geo : Geometry) (km : Nat → Option Key) (k : Key) (dg : Dg) : Gen :=
  { dg := dg, seen := dg.seenOf (groupMask geo km k) }

theorem groupGeo_map_idx (geo km k) : (groupGeo geo km k).map (·.idx) = geo.map (·.idx) := by
  simp [groupGeo, List.map_map, Function.comp_def]

theorem groupGeo_map_enable (geo km k) : (groupGeo geo km k).map (·.enable) = groupMask geo km k := by
  simp [groupGeo, groupMask, List.map_map, Function.comp_def]

theorem withMask_groupMask (geo km k) : withMask geo (groupMask geo km k) = groupGeo geo km k := by
  unfold withMask groupMask groupGeo
  exact restore_map_fn geo _

theorem setEnable_good {geo : Geometry} (hwf : WF geo) {km : Nat → Option Key} {k : Key} {f : Filter}
    (hg : Good geo km k f) : setEnable geo f = .ok (groupGeo geo km k) := by
  unfold setEnable
  have hall : (geo.all fun dev => !dev.enable || decide (dev.idx < f.length)) = true := by
    rw [List.all_eq_true]
    intro d hd
    have := hwf.lt d hd
    rw [hg.1]
    simp [this]
  rw [if_pos hall]
  congr 1
  unfold groupGeo
  apply List.map_congr_left
  intro d hd
  cases he : d.enable with
  | false => cases d; simp_all
  | true =>
    have hb := hg.2 d hd he
    have : f.getD d.idx false = (km d.idx == some k) := by
      rw [Bool.eq_iff_iff, hb]; simp
    simp only [he, if_true, this, Bool.true_and]

theorem restore_groupGeo (geo km k) : restore (groupGeo geo km k) (geo.map (·.enable)) = geo :=
  restore_of_map_idx geo _ (groupGeo_map_idx geo km k)

theorem generator_groupGeo (geo km k) (dg : Dg) :
    dg.generator (groupGeo geo km k) = if dg.genFail then .error (.gen dg.id) else .ok (mkGen geo km k dg) := by
  unfold Dg.generator mkGen
  rw [groupGeo_map_enable]

theorem fillOps_map (φ : Device → Option Op) (f : Filter) (g : Gen) : ∀ (l : List Device),
    fillOps (l.map φ) l f g = l.map fun d => if f.getD d.idx false then some (g.generate d) else φ d
  | [] => rfl
  | d :: ds => by simp [fillOps, fillOps_map φ f g ds]

theorem lookup_removeKey_ne (k k' : Key) (hne : k' ≠ k) : ∀ (m : List (Key × Dg)),
    (removeKey m k).lookup k' = m.lookup k'
  | [] => rfl
  | (a, b) :: rest => by
    have ih := lookup_removeKey_ne k k' hne rest
    unfold removeKey at ih ⊢
    by_cases ha : a = k
    · subst ha
      have : (k' == a) = false := by simp [hne]
      simp [List.filter_cons, List.lookup_cons, this, ih]
    · have hf : ((a, b).1 != k) = true := by simp [ha]
      rw [List.filter_cons, if_pos hf, List.lookup_cons, List.lookup_cons, ih]

/-! ## the key loop -/

/-- **key loop**: on every exit the geometry is as before; an error is `UnknownKey` of a visited key
without datagram or the generator error of a visited datagram; without error every filter key had a
datagram, exactly those were consumed, and the operation of every enabled device mapped to a key is
the one its group's generator makes for it -/
theorem keyLoop_spec {geo : Geometry} (hwf : WF geo) (km : Nat → Option Key) :
    ∀ (fs : List (Key × Filter)), (∀ p ∈ fs, Good geo km p.1 p.2) → (fs.map (·.1)).Nodup →
    ∀ (st : LoopSt) (φ : Device → Option Op), st.geo = geo → st.ops = (devices geo).map φ →
      (keyLoop true (geo.map (·.enable)) fs st).2.geo = geo ∧
      match (keyLoop true (geo.map (·.enable)) fs st).1 with
      | some e =>
        (∃ k ∈ fs.map (·.1), st.dmap.lookup k = none ∧ e = .unknownKey k) ∨
        (∃ k ∈ fs.map (·.1), ∃ dg, st.dmap.lookup k = some dg ∧ dg.genFail = true ∧ e = .gen dg.id)
      | none =>
        (∀ k ∈ fs.map (·.1), ∃ dg, st.dmap.lookup k = some dg ∧ dg.genFail = false) ∧
        (keyLoop true (geo.map (·.enable)) fs st).2.dmap
          = st.dmap.filter (fun p => !(fs.map (·.1)).contains p.1) ∧
        ∃ φ', (keyLoop true (geo.map (·.enable)) fs st).2.ops = (devices geo).map φ' ∧
          (∀ d ∈ devices geo, ∀ k, km d.idx = some k → k ∈ fs.map (·.1) →
            ∀ dg, st.dmap.lookup k = some dg → φ' d = some ((mkGen geo km k dg).generate d)) ∧
          (∀ d ∈ devices geo, (∀ k, km d.idx = some k → k ∉ fs.map (·.1)) → φ' d = φ d)
  | [], _, _, st, φ, hgeo, hops => by
    simp only [keyLoop]
    refine ⟨hgeo, by simp, (List.filter_eq_self.mpr (fun _ _ => rfl)).symm, φ, hops, ?_, fun _ _ _ => rfl⟩
    intro d hd k hk hin
    simp at hin
  | (k, f) :: rest, hgood, hnd, st, φ, hgeo, hops => by
    have hg : Good geo km k f := hgood (k, f) (List.mem_cons_self)
    have hgood' : ∀ p ∈ rest, Good geo km p.1 p.2 := fun p hp => hgood p (List.mem_cons_of_mem _ hp)
    rw [List.map_cons, List.nodup_cons] at hnd
    unfold keyLoop
    rw [hgeo, setEnable_good hwf hg]
    simp only [if_true, restore_groupGeo]
    cases hl : st.dmap.lookup k with
    | none =>
      simp only []
      exact ⟨trivial, Or.inl ⟨k, by simp, hl, rfl⟩⟩
    | some dg =>
      simp only [generator_groupGeo]
      cases hf : dg.genFail with
      | true =>
        simp only [if_true]
        exact ⟨trivial, Or.inr ⟨k, by simp, dg, hl, hf, rfl⟩⟩
      | false =>
        simp only [Bool.false_eq_true, if_false]
        -- the state handed to the rest of the loop
        have hops1 : fillOps st.ops (devices geo) f (mkGen geo km k dg) =
            (devices geo).map fun d => if km d.idx == some k then some ((mkGen geo km k dg).generate d) else φ d := by
          rw [hops, fillOps_map]
          apply List.map_congr_left
          intro d hd
          have hb := hg.2 d (mem_devices.mp hd).1 (mem_devices.mp hd).2
          have : f.getD d.idx false = (km d.idx == some k) := by
            rw [Bool.eq_iff_iff, hb]; simp
          rw [this]
        have ih := keyLoop_spec hwf km rest hgood' hnd.2
          { geo := geo, ops := fillOps st.ops (devices geo) f (mkGen geo km k dg),
            dmap := removeKey st.dmap k, visited := st.visited ++ [k] }
          (fun d => if km d.idx == some k then some ((mkGen geo km k dg).generate d) else φ d) rfl hops1
        refine ⟨ih.1, ?_⟩
        have ih2 := ih.2
        have hlk : ∀ k' ∈ rest.map (·.1), (removeKey st.dmap k).lookup k' = st.dmap.lookup k' := by
          intro k' hk'
          apply lookup_removeKey_ne
          intro he; apply hnd.1; rw [← he]; exact hk'
        revert ih2
        cases (keyLoop true (geo.map (·.enable)) rest
            { geo := geo, ops := fillOps st.ops (devices geo) f (mkGen geo km k dg),
              dmap := removeKey st.dmap k, visited := st.visited ++ [k] }).1 with
        | some e =>
          simp only []
          rintro (⟨k', hk', h1, h2⟩ | ⟨k', hk', dg', h1, h2, h3⟩)
          · exact Or.inl ⟨k', List.mem_cons_of_mem _ hk', by rw [← hlk k' hk']; exact h1, h2⟩
          · exact Or.inr ⟨k', List.mem_cons_of_mem _ hk', dg', by rw [← hlk k' hk']; exact h1, h2, h3⟩
        | none =>
          simp only []
          rintro ⟨h1, h2, φ', h3, h4, h5⟩
          refine ⟨?_, ?_, φ', h3, ?_, ?_⟩
          · intro k' hk'
            rcases List.mem_cons.mp hk' with rfl | hk'
            · exact ⟨dg, hl, hf⟩
            · obtain ⟨dg', hd1, hd2⟩ := h1 k' hk'
              exact ⟨dg', by rw [← hlk k' hk']; exact hd1, hd2⟩
          · rw [h2]
            unfold removeKey
            rw [List.filter_filter]
            apply List.filter_congr
            intro p _
            rw [List.map_cons, List.contains_cons, Bool.not_or, Bool.and_comm]
            rfl
          · intro d hd k' hkm hk' dg' hl'
            rcases List.mem_cons.mp hk' with rfl | hk'
            · have hnot : ∀ k'', km d.idx = some k'' → k'' ∉ rest.map (·.1) := by
                intro k'' h'' hin
                rw [hkm] at h''
                exact hnd.1 (by rw [Option.some.inj h'']; exact hin)
              rw [h5 d hd hnot]
              rw [hl] at hl'
              simp [hkm, Option.some.inj hl']
            · exact h4 d hd k' hkm hk' dg' (by rw [hlk k' hk']; exact hl')
          · intro d hd hnot
            have hnot' : ∀ k'', km d.idx = some k'' → k'' ∉ rest.map (·.1) :=
              fun k'' h'' hin => hnot k'' h'' (List.mem_cons_of_mem _ hin)
            rw [h5 d hd hnot']
            have : ¬ km d.idx = some k := fun h => hnot k h (List.mem_cons_self)
            simp [this]

end Autd3.Group
