import Autd3.Lemmas.RtBytes
open Autd3 Autd3.Fw Autd3.Wire Autd3.Gen.Cpu
namespace Autd3.Rt

/-- pointwise bulk write (`bram_cpy`): word `i` of `words` goes to `off + i` -/
def wrWords (m : Array Nat) (off : Nat) (words : Array Nat) : Array Nat :=
  iter (fun m i => m.setIfInBounds (off + i) (rd words i % 65536)) m words.size

theorem size_iter_set (m : Array Nat) (off : Nat) (g : Nat → Nat) (n : Nat) :
    (iter (fun m i => m.setIfInBounds (off + i) (g i)) m n).size = m.size :=
  iter_inv (fun x : Array Nat => x.size = m.size) _ _ rfl (fun _ _ h => by simpa using h) n

theorem rd_iter_set (m : Array Nat) (off : Nat) (g : Nat → Nat) (n j : Nat) :
    rd (iter (fun m i => m.setIfInBounds (off + i) (g i)) m n) j =
      if off ≤ j ∧ j < off + n ∧ j < m.size then g (j - off) else rd m j := by
  induction n with
  | zero => rw [iter, if_neg (by omega)]
  | succ n ih =>
    simp only [iter, rd_set, ih, size_iter_set]
    by_cases h : j = off + n ∧ off + n < m.size
    · rw [if_pos h, if_pos (by omega)]; obtain ⟨rfl, _⟩ := h
      rw [show off + n - off = n from by omega]
    · rw [if_neg h]
      by_cases h2 : off ≤ j ∧ j < off + n ∧ j < m.size
      · rw [if_pos h2, if_pos (by omega)]
      · rw [if_neg h2, if_neg (by omega)]

@[simp] theorem size_wrWords (m : Array Nat) (off : Nat) (ws : Array Nat) :
    (wrWords m off ws).size = m.size := size_iter_set _ _ _ _

/-- `bram_cpy` = pointwise write -/
theorem rd_wrWords (m : Array Nat) (off : Nat) (ws : Array Nat) (j : Nat) :
    rd (wrWords m off ws) j =
      if off ≤ j ∧ j < off + ws.size ∧ j < m.size then rd ws (j - off) % 65536 else rd m j :=
  rd_iter_set _ _ _ _ _

theorem wrWords_empty (m : Array Nat) (off : Nat) (ws : Array Nat) (h : ws.size = 0) :
    wrWords m off ws = m := by
  unfold wrWords; rw [h]; rfl

/-- the `for h : i in [0:words.size]` loop of the bulk writers is `wrWords` -/
theorem forIn_wr (m : Array Nat) (off : Nat) (words : Array Nat) :
    (Id.run do
        let mut m := m
        for h : i in [0:words.size] do
          m := m.setIfInBounds (off + i) (words[i] % 65536)
        return m) = wrWords m off words := by
  simp only [wrWords, ← foldl_range']
  simp
  apply foldl_attach_val
  intro b x
  have : x.val < words.size := by have := x.property; simp [List.mem_range'] at this; omega
  rw [rd_of_lt this]

theorem mem_range'_lt {n : Nat} (x : { x // x ∈ List.range' 0 n }) : x.val < n := by
  have := x.property; simp [List.mem_range'] at this; omega

theorem foldl_attach_wr (m : Array Nat) (off : Nat) (words : Array Nat) :
    List.foldl (fun b (x : { x // x ∈ List.range' 0 words.size }) =>
        b.setIfInBounds (off + x.val) (words[x.val]'(mem_range'_lt x) % 65536)) m
      (List.range' 0 words.size).attach = wrWords m off words := by
  simp only [wrWords, ← foldl_range']
  apply foldl_attach_val
  intro b x
  rw [rd_of_lt (mem_range'_lt x)]

def setModMem (s : State) (seg : Nat) (m : Array Nat) : State :=
  if seg = 0 then { s with modMem0 := m } else { s with modMem1 := m }
def setStmMem (s : State) (seg : Nat) (m : Array Nat) : State :=
  if seg = 0 then { s with stmMem0 := m } else { s with stmMem1 := m }

theorem modWriteWords_eq (s : State) (base : Nat) (words : Array Nat)
    (hseg : reg s ADDR_MOD_MEM_WR_SEGMENT ≤ 1)
    (hb : base % 16384 + words.size ≤ 16384)
    (hp : reg s ADDR_MOD_MEM_WR_PAGE * 16384 + base % 16384 + words.size ≤ 32768) :
    modWriteWords s base words =
      .ok (setModMem s (reg s ADDR_MOD_MEM_WR_SEGMENT)
        (wrWords (Obs.modMem s (reg s ADDR_MOD_MEM_WR_SEGMENT))
          (reg s ADDR_MOD_MEM_WR_PAGE * 16384 + base % 16384) words)) := by
  unfold modWriteWords
  by_cases h0 : words.size = 0
  · rw [if_pos h0, wrWords_empty _ _ _ h0]
    unfold setModMem Obs.modMem; split <;> rfl
  · rw [if_neg h0]
    rw [if_neg (by omega), if_neg (by omega), if_neg (by omega)]
    unfold setModMem Obs.modMem
    split
    · simp [foldl_attach_wr]
    · simp [foldl_attach_wr]

theorem stmWriteWords_eq (s : State) (base : Nat) (words : Array Nat)
    (hseg : reg s ADDR_STM_MEM_WR_SEGMENT ≤ 1)
    (hb : base % 16384 + words.size ≤ 16384)
    (hp : reg s ADDR_STM_MEM_WR_PAGE * 16384 + base % 16384 + words.size ≤ 262144) :
    stmWriteWords s base words =
      .ok (setStmMem s (reg s ADDR_STM_MEM_WR_SEGMENT)
        (wrWords (Obs.stmMem s (reg s ADDR_STM_MEM_WR_SEGMENT))
          (reg s ADDR_STM_MEM_WR_PAGE * 16384 + base % 16384) words)) := by
  unfold stmWriteWords
  by_cases h0 : words.size = 0
  · rw [if_pos h0, wrWords_empty _ _ _ h0]
    unfold setStmMem Obs.stmMem; split <;> rfl
  · rw [if_neg h0]
    rw [if_neg (by omega), if_neg (by omega), if_neg (by omega)]
    unfold setStmMem Obs.stmMem
    split
    · simp [foldl_attach_wr]
    · simp [foldl_attach_wr]

theorem pweWriteWords_eq (s : State) (base : Nat) (words : Array Nat)
    (hb : base % 16384 + words.size ≤ s.pwe.size) :
    pweWriteWords s base words = .ok { s with pwe := wrWords s.pwe (base % 16384) words } := by
  unfold pweWriteWords
  rw [if_neg (by omega)]
  simp [foldl_attach_wr]

theorem foldlM_attach_val {β : Type} (l : List Nat) (f : β → { x // x ∈ l } → M β) (g : β → Nat → M β)
    (h : ∀ b x, f b x = g b x.val) (b : β) : l.attach.foldlM f b = l.foldlM g b := by
  have : l.foldlM g b = (l.attach.map Subtype.val).foldlM g b := by rw [List.attach_map_subtype_val]
  rw [this, List.foldlM_map]
  congr 1; funext b x; exact h b x

theorem foldlM_range'_ok {β : Type} (g : β → Nat → M β) (g' : β → Nat → β) (P : β → Prop) (n : Nat)
    (hs : ∀ b k, k < n → P b → g b k = .ok (g' b k) ∧ P (g' b k)) (b : β) (h0 : P b) :
    ∀ m, m ≤ n → (List.range' 0 m).foldlM g b = .ok (iter g' b m) ∧ P (iter g' b m) := by
  intro m
  induction m with
  | zero => intro _; exact ⟨rfl, h0⟩
  | succ m ih =>
    intro hm
    obtain ⟨e, p⟩ := ih (by omega)
    rw [List.range'_1_concat, List.foldlM_append, e]
    have := hs _ m (by omega) p
    simp only [iter, Nat.zero_add, this.1, this.2, bind, Except.bind, List.foldlM_cons, List.foldlM_nil]
    exact ⟨rfl, trivial⟩

/-- register write to the main controller bank -/
def wr (s : State) (a v : Nat) : State := { s with ctl := s.ctl.setIfInBounds a (v % 65536) }

theorem ctlWrite_main (s : State) (a v : Nat) (h : a < 256) : ctlWrite s a v = .ok (wr s a v) := by
  unfold ctlWrite wr
  simp only []
  rw [if_pos (by omega), show a % 16384 = a from by omega]

theorem ctlWrite_pc (s : State) (a v : Nat) (h : a < 128) (hs : s.phaseCorr.size = 128) :
    ctlWrite s (256 + a) v = .ok { s with phaseCorr := s.phaseCorr.setIfInBounds a (v % 65536) } := by
  unfold ctlWrite
  simp only []
  rw [if_neg (by omega), if_pos (by omega), if_pos (by omega), show (256 + a) % 16384 % 256 = a from by omega]

theorem ctlWriteWords_main (s : State) (base : Nat) (words : Array Nat) (h : base + words.size ≤ 256) :
    ctlWriteWords s base words = .ok { s with ctl := wrWords s.ctl base words } := by
  unfold ctlWriteWords
  simp
  rw [foldlM_attach_val _ _ (fun b i => ctlWrite b (base + i) (rd words i))
    (fun b x => by rw [rd_of_lt (mem_range'_lt x)])]
  have := (foldlM_range'_ok (fun b i => ctlWrite b (base + i) (rd words i))
    (fun b i => wr b (base + i) (rd words i)) (fun _ => True) words.size
    (fun b k hk _ => ⟨ctlWrite_main _ _ _ (by omega), trivial⟩) s trivial words.size (Nat.le_refl _)).1
  rw [this]
  congr 1
  have key : ∀ n, iter (fun b i => wr b (base + i) (rd words i)) s n =
      { s with ctl := iter (fun m i => m.setIfInBounds (base + i) (rd words i % 65536)) s.ctl n } := by
    intro n; induction n with
    | zero => rfl
    | succ n ih => simp only [iter]; rw [ih]; rfl
  rw [key]; rfl

theorem ctlWriteWords_pc (s : State) (base : Nat) (words : Array Nat) (h : base + words.size ≤ 128)
    (hs : s.phaseCorr.size = 128) :
    ctlWriteWords s (256 + base) words = .ok { s with phaseCorr := wrWords s.phaseCorr base words } := by
  unfold ctlWriteWords
  simp
  rw [foldlM_attach_val _ _ (fun b i => ctlWrite b (256 + base + i) (rd words i))
    (fun b x => by rw [rd_of_lt (mem_range'_lt x)])]
  have := (foldlM_range'_ok (fun b i => ctlWrite b (256 + base + i) (rd words i))
    (fun b i => { b with phaseCorr := b.phaseCorr.setIfInBounds (base + i) (rd words i % 65536) })
    (fun b => b.phaseCorr.size = 128) words.size
    (fun b k hk hb => ⟨by rw [Nat.add_assoc]; exact ctlWrite_pc _ _ _ (by omega) hb, by simpa using hb⟩)
    s hs words.size (Nat.le_refl _)).1
  rw [this]
  congr 1
  have key : ∀ n, iter (fun (b : State) i => { b with phaseCorr := b.phaseCorr.setIfInBounds (base + i) (rd words i % 65536) }) s n =
      { s with phaseCorr := iter (fun m i => m.setIfInBounds (base + i) (rd words i % 65536)) s.phaseCorr n } := by
    intro n; induction n with
    | zero => rfl
    | succ n ih => simp only [iter]; rw [ih]
  rw [key]; rfl

theorem and_two_pow' (x i : Nat) : x &&& 2 ^ i = if x.testBit i then 2 ^ i else 0 := by
  apply Nat.eq_of_testBit_eq
  intro j
  rw [Nat.testBit_and, Nat.testBit_two_pow]
  by_cases h : i = j
  · subst h; cases hx : x.testBit i <;> simp [Nat.testBit_two_pow]
  · cases hx : x.testBit i <;> simp [Nat.testBit_two_pow, h]

theorem hasFlag_pow (x i : Nat) : hasFlag x (2 ^ i) = decide (x / 2 ^ i % 2 = 1) := by
  unfold hasFlag
  rw [and_two_pow', ← Nat.testBit_eq_decide_div_mod_eq]
  cases h : x.testBit i <;> simp
  exact Nat.ne_of_lt (Nat.two_pow_pos i)
end Autd3.Rt
