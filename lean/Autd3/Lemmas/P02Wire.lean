import Autd3.Lemmas.P02Read
import Autd3.Model.Wire
/-!
# Link to the driver model (`Wire`): the frames `pack_op` emits
-/
namespace Autd3.P02
open Autd3 Autd3.Fw Autd3.Gen.Cpu Autd3.Gen

theorem rd_append_left (a b : Array Nat) (i : Nat) (h : i < a.size) : rd (a ++ b) i = rd a i := by
  unfold rd; simp [Array.getElem?_append, h]

theorem rd_append_right (a b : Array Nat) (i : Nat) (h : a.size ≤ i) : rd (a ++ b) i = rd b (i - a.size) := by
  unfold rd; simp [Array.getElem?_append, h, Nat.not_lt.mpr h]

theorem rd_extract (a : Array Nat) (start i : Nat) : rd (a.extract start a.size) i = rd a (start + i) := by
  unfold rd
  simp [Array.getElem?_extract]
  by_cases h : i < a.size - start
  · simp [h]
  · simp [h]
    have : a.size ≤ start + i := by omega
    simp [this]

/-- the message id `pack_op` puts on the next frame -/
def nextId (m : Nat) : Nat := ((m + 1) % 256) &&& Drv.MSG_ID_MAX

theorem nextId_lt (m : Nat) : nextId m < 128 := by
  unfold nextId
  have : (m + 1) % 256 &&& Drv.MSG_ID_MAX ≤ Drv.MSG_ID_MAX := Nat.and_le_right
  simp only [Drv.MSG_ID_MAX] at this ⊢
  omega

theorem nextId_valid (m : Nat) : nextId m &&& 0x80 = 0 := by
  unfold nextId
  exact bit7_off _

/-- the frame the driver model emits for `FirmwareVersion(ty)` is a firm-info frame -/
theorem packOp_firmInfo (tx : Wire.Tx) (numTr ty : Nat) (hsz : tx.payload.size = 622) (hty : ty < 256) :
    ∃ op t sz, Wire.packOp (Wire.Op.ofDg (.firmInfo ty)) numTr tx = .ok (op, t, sz) ∧
      t.msgId = nextId tx.msgId ∧ t.payload.size = 622 ∧ IsFirmInfoFrame t.frame (nextId tx.msgId) ty := by
  refine ⟨_, _, _, rfl, rfl, ?_, ?_⟩
  · simp [Wire.tagValue, Wire.put8, hsz]
  · have hlt := nextId_lt tx.msgId
    constructor
    · show u8at (Wire.Tx.frame _) 0 = _
      unfold Wire.Tx.frame u8at
      rw [rd_append_left _ _ _ (by simp)]
      simp [rd]
      show nextId tx.msgId % 256 = _
      omega
    · exact nextId_valid _
    · show u16at (Wire.Tx.frame _) 2 = 0
      unfold Wire.Tx.frame u16at u8at
      rw [rd_append_left _ _ _ (by simp), rd_append_left _ _ _ (by simp)]
      simp [rd]
    · show u8at ((Wire.Tx.frame _).extract 4 _) 0 = TAG_FIRM_INFO
      unfold u8at
      rw [rd_extract]
      unfold Wire.Tx.frame
      rw [rd_append_right _ _ _ (by simp)]
      simp [Wire.tagValue, Wire.put8, rd_set, hsz]
      decide
    · show u8at ((Wire.Tx.frame _).extract 4 _) 1 = ty
      unfold u8at
      rw [rd_extract]
      unfold Wire.Tx.frame
      rw [rd_append_right _ _ _ (by simp)]
      simp [Wire.tagValue, Wire.put8, rd_set, hsz]
      omega

theorem nextId_ne (m : Nat) : nextId m ≠ m := by
  unfold nextId
  have e : Drv.MSG_ID_MAX = 2 ^ 7 - 1 := by decide
  rw [e, Nat.and_two_pow_sub_one_eq_mod]
  omega

/-! ### the driver's copy loops -/

open Autd3.Wire (put8 put16 put64 putBytes putWords putZeros tagValue)

theorem rd_put8 (b : Array Nat) (i v j : Nat) : rd (put8 b i v) j = if j = i ∧ i < b.size then v % 256 else rd b j := by
  unfold put8; rw [rd_set]

@[simp] theorem size_put8 (b : Array Nat) (i v : Nat) : (put8 b i v).size = b.size := by
  unfold put8; simp

@[simp] theorem size_put16 (b : Array Nat) (i v : Nat) : (put16 b i v).size = b.size := by
  unfold put16; simp

theorem rd_put16 (b : Array Nat) (i v j : Nat) :
    rd (put16 b i v) j = if j = i + 1 ∧ i + 1 < b.size then v / 256 % 256
                         else if j = i ∧ i < b.size then v % 256 else rd b j := by
  unfold put16; rw [rd_put8, rd_put8]; simp

/-- recursive forms of the driver's copy loops -/
def putWordsRec (b : Array Nat) (i : Nat) (ws : Array Nat) : Nat → Array Nat
  | 0 => b
  | n+1 => put16 (putWordsRec b i ws n) (i + 2 * n) (rd ws n)

def putBytesRec (b : Array Nat) (i : Nat) (src : Array Nat) (from_ : Nat) : Nat → Array Nat
  | 0 => b
  | n+1 => put8 (putBytesRec b i src from_ n) (i + n) (rd src (from_ + n))

theorem putWords_eq (b : Array Nat) (i : Nat) (ws : Array Nat) (n : Nat) : putWords b i ws n = putWordsRec b i ws n := by
  unfold putWords
  simp
  induction n with
  | zero => rfl
  | succ n ih => rw [List.range'_1_concat, List.foldl_append, ih]; simp [putWordsRec]

theorem putBytes_eq (b : Array Nat) (i : Nat) (src : Array Nat) (from_ n : Nat) :
    putBytes b i src from_ n = putBytesRec b i src from_ n := by
  unfold putBytes
  simp
  induction n with
  | zero => rfl
  | succ n ih => rw [List.range'_1_concat, List.foldl_append, ih]; simp [putBytesRec]

@[simp] theorem size_putWordsRec (b : Array Nat) (i : Nat) (ws : Array Nat) (n : Nat) : (putWordsRec b i ws n).size = b.size := by
  induction n with
  | zero => rfl
  | succ n ih => simp [putWordsRec, ih]

@[simp] theorem size_putBytesRec (b : Array Nat) (i : Nat) (src : Array Nat) (from_ n : Nat) :
    (putBytesRec b i src from_ n).size = b.size := by
  induction n with
  | zero => rfl
  | succ n ih => simp [putBytesRec, ih]

/-- bytes of the payload after `put_words`: word `k` little-endian at `i + 2k`, everything else kept -/
theorem rd_putWordsRec (b : Array Nat) (i : Nat) (ws : Array Nat) (n j : Nat) (hfit : i + 2 * n ≤ b.size) :
    rd (putWordsRec b i ws n) j =
      if i ≤ j ∧ j < i + 2 * n then
        (if (j - i) % 2 = 0 then rd ws ((j - i) / 2) % 256 else rd ws ((j - i) / 2) / 256 % 256)
      else rd b j := by
  induction n with
  | zero => simp [putWordsRec]; omega
  | succ n ih =>
    simp only [putWordsRec, rd_put16, size_putWordsRec, ih (by omega)]
    by_cases h1 : j = i + 2 * n + 1
    · subst h1
      have e1 : i + 2 * n + 1 < b.size := by omega
      have e2 : i ≤ i + 2 * n + 1 ∧ i + 2 * n + 1 < i + 2 * (n + 1) := by omega
      have e3 : (i + 2 * n + 1 - i) % 2 = 1 := by omega
      have e4 : (i + 2 * n + 1 - i) / 2 = n := by omega
      simp [e1, e2, e3, e4]
    · by_cases h2 : j = i + 2 * n
      · subst h2
        have e1 : i + 2 * n < b.size := by omega
        have e2 : i ≤ i + 2 * n ∧ i + 2 * n < i + 2 * (n + 1) := by omega
        have e3 : (i + 2 * n - i) % 2 = 0 := by omega
        have e4 : (i + 2 * n - i) / 2 = n := by omega
        simp [e1, e2, e3, e4]
      · have e : (i ≤ j ∧ j < i + 2 * (n + 1)) ↔ (i ≤ j ∧ j < i + 2 * n) := by omega
        simp [h1, h2, e]

theorem rd_putBytesRec (b : Array Nat) (i : Nat) (src : Array Nat) (from_ n j : Nat) (hfit : i + n ≤ b.size) :
    rd (putBytesRec b i src from_ n) j =
      if i ≤ j ∧ j < i + n then rd src (from_ + (j - i)) % 256 else rd b j := by
  induction n with
  | zero => simp [putBytesRec]; omega
  | succ n ih =>
    simp only [putBytesRec, rd_put8, size_putBytesRec, ih (by omega)]
    by_cases h1 : j = i + n
    · subst h1
      have e1 : i + n < b.size := by omega
      have e2 : i ≤ i + n ∧ i + n < i + (n + 1) := by omega
      simp [e1, e2]
    · have e : (i ≤ j ∧ j < i + (n + 1)) ↔ (i ≤ j ∧ j < i + n) := by omega
      simp [h1, e]

end Autd3.P02
