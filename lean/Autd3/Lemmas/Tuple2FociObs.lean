import Autd3.Lemmas.Tuple2Foci
import Autd3.Lemmas.Tuple2Obs
import Autd3.Lemmas.Hist7
/-!
General tuples, FociSTM instance, part C: two complete sends of the same FociSTM from bases that agree on the STM
side leave the same STM-side read-back (`fociDone_obs`).
-/
set_option linter.unusedSimpArgs false
set_option linter.unusedVariables false
open Autd3 Autd3.Fw Autd3.Wire Autd3.Gen.Cpu Autd3.Gen Autd3.Rt
namespace Autd3.Tuple2

theorem fociDone_obs (n seg : Nat) (tr : Tr) (rep div ss : Nat) (records : Array Nat) (P : Nat) {b b' f f' : State}
    (h : (fociProto n seg tr rep div ss records P).Done b f) (h' : (fociProto n seg tr rep div ss records P).Done b' f')
    (hb : KeepS b b') (hpc : f.phaseCorr = b.phaseCorr) (hpc' : f'.phaseCorr = b'.phaseCorr)
    (hnt : f.numTr = b.numTr) (hnt' : f'.numTr = b'.numTr) : StmObsEq f f' := by
  have h : FociDone n seg tr rep div ss records P b f := h
  have h' : FociDone n seg tr rep div ss records P b' f' := h'
  have hseg := h.hseg
  have h1 : 1 - seg ≤ 1 := by omega
  obtain ⟨em, eg, ereq, etr, _, _⟩ := obs_stm_same hb.fociStmSame
  obtain ⟨g1, g2, g3, g4, g5, g6, _⟩ := eg (1 - seg) h1
  obtain ⟨o1, o2, o3, o4⟩ := h.held.otherRegs
  obtain ⟨o1', o2', o3', o4'⟩ := h'.held.otherRegs
  have q1 : Obs.stmCycle f' (1 - seg) = Obs.stmCycle f (1 - seg) := by rw [o3', o3, g1]
  have q2 : Obs.stmDiv f' (1 - seg) = Obs.stmDiv f (1 - seg) := by rw [o1', o1, g2]
  have q3 : Obs.stmRep f' (1 - seg) = Obs.stmRep f (1 - seg) := by rw [o2', o2, g3]
  have q4 : Obs.isStmGainMode f' (1 - seg) = Obs.isStmGainMode f (1 - seg) := by rw [o4', o4, g4]
  have q5 : Obs.soundSpeed f' (1 - seg) = Obs.soundSpeed f (1 - seg) := by
    have a := (fociProto_done_other n seg tr rep div ss records P h).2.1
    have a' := (fociProto_done_other n seg tr rep div ss records P h').2.1
    rw [a', a, g5]
  have q6 : Obs.numFoci f' (1 - seg) = Obs.numFoci f (1 - seg) := by
    have a := (fociProto_done_other n seg tr rep div ss records P h).2.2
    have a' := (fociProto_done_other n seg tr rep div ss records P h').2.2
    rw [a', a, g6]
  have qm : Obs.stmMem f' (1 - seg) = Obs.stmMem f (1 - seg) := by rw [h'.held.otherMem, h.held.otherMem, em]
  have qn : f'.numTr = f.numTr := by rw [hnt', hnt, hb.numTr]
  have qp : f'.phaseCorr = f.phaseCorr := by rw [hpc', hpc, hb.phaseCorr]
  have cases2 : ∀ g, g ≤ 1 → g = seg ∨ g = 1 - seg := by intro g hg; omega
  refine ⟨?_, ?_, ?_, ?_, ?_, ?_⟩
  · intro g hg
    rcases cases2 g hg with hg | hg <;> subst hg
    · exact ⟨by rw [h'.held.hmode, h.held.hmode], by rw [h'.held.hcycle, h.held.hcycle],
        by rw [h'.held.hdiv, h.held.hdiv], by rw [h'.held.hrep, h.held.hrep]⟩
    · exact ⟨q4, q1, q2, q3⟩
  · intro g hg
    rcases cases2 g hg with hg | hg <;> subst hg
    · exact ⟨by rw [h'.held.hss, h.held.hss], by rw [h'.held.hnf, h.held.hnf]⟩
    · exact ⟨q5, q6⟩
  · intro g hg idx hidx
    rcases cases2 g hg with hg | hg <;> subst hg
    · rw [h.held.hcycle] at hidx
      apply Hist.fociDrivesAt_congr
      · exact qn
      · exact h'.held.hmode
      · exact h.held.hmode
      · rw [stmMem_size h'.wf, stmMem_size h.wf]
      · rw [h'.held.hss, h.held.hss]
      · rw [h'.held.hnf, h.held.hnf]
      · intro i _; unfold Obs.phaseCorrAt; rw [qp]
      · intro i hi
        rw [h.held.hnf] at hi ⊢
        have hk : idx * n + i < P * n := by
          have : (idx + 1) * n ≤ P * n := Nat.mul_le_mul_right n hidx
          rw [Nat.succ_mul] at this
          omega
        rw [h'.held.recs _ hk, h.held.recs _ hk]
    · exact Hist.drivesAt_seg_congr f f' (1 - seg) qm q4 qp qn (fun _ => ⟨q5, q6⟩) idx
  · have r := h.held.req
    have r' := h'.held.req
    rcases tr with _ | ⟨m, v⟩
    · rw [r'.2.1, r.2.1, ereq]
    · rw [r'.1, r.1]
  · have r := h.held.req
    have r' := h'.held.req
    rcases tr with _ | ⟨m, v⟩
    · rw [r'.2.2, r.2.2, etr]
    · rw [r'.2.1, r.2.1]
  · have r := h.held.req
    have r' := h'.held.req
    rcases tr with _ | ⟨m, v⟩
    · rw [r'.1, r.1, hb.swap]
    · have a := h.swapDet m v rfl
      have a' := h'.swapDet m v rfl
      rw [hb.swap, hb.time, a] at a'
      injection a' with a'
      exact a'.symm

end Autd3.Tuple2
