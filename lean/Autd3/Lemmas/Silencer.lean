import Autd3.Model.Silencer
/-! Helper lemmas for C09 (core Lean only). -/
namespace Autd3.Silencer

/-- one-step law of the mover: it lands between where it was and where it is asked to go -/
theorem moveBy_between (c step : Int) (rate : Nat) :
    (0 ≤ step → c ≤ moveBy c step rate ∧ moveBy c step rate ≤ c + step) ∧
    (step < 0 → c + step ≤ moveBy c step rate ∧ moveBy c step rate ≤ c) := by
  unfold moveBy; constructor <;> intro h <;> split <;> split <;> omega

theorem moveBy_rate (c step : Int) (rate : Nat) :
    moveBy c step rate - c ≤ rate ∧ c - moveBy c step rate ≤ rate := by
  unfold moveBy; split <;> split <;> omega

/-- exact form: the mover advances by `min |step| rate` in the direction of `step` -/
theorem moveBy_pos (c step : Int) (rate : Nat) (h : 0 ≤ step) :
    moveBy c step rate = c + min step rate := by
  unfold moveBy; split
  · omega
  · split <;> omega

theorem moveBy_neg (c step : Int) (rate : Nat) (h : step < 0) :
    moveBy c step rate = c - min (-step) rate := by
  unfold moveBy; split
  · split <;> omega
  · omega

theorem wrapStep_range (x : Int) (h : -65536 < x ∧ x < 65536) :
    -32768 ≤ wrapStep x ∧ wrapStep x ≤ 32768 ∧
    (wrapStep x = x ∨ wrapStep x = x + 65536 ∨ wrapStep x = x - 65536) := by
  unfold wrapStep; split <;> split <;> omega

end Autd3.Silencer

namespace Autd3.Silencer
theorem moveBy_up (c T : Int) (rate : Nat) (h : c ≤ T) :
    moveBy c (T - c) rate = c + min (T - c) rate := by
  unfold moveBy; split
  · omega
  · split <;> omega

theorem moveBy_down (c T : Int) (rate : Nat) (h : T ≤ c) :
    moveBy c (T - c) rate = c - min (c - T) rate := by
  unfold moveBy; split
  · split <;> omega
  · split <;> omega
end Autd3.Silencer

namespace Autd3.Silencer
theorem phase_step_up (c T : Int) (D m rate : Nat)
    (hc : 0 ≤ c ∧ c < 65536) (hT : 0 ≤ T ∧ T < 65536) (hm : m ≤ D)
    (hw : wrapStep (T - c) = D) :
    moveBy ((c + m) % 65536) (wrapStep (T - (c + m) % 65536)) rate % 65536
      = (c + (m + min (D - m) rate : Nat)) % 65536 := by
  have hr := wrapStep_range (T - c) (by omega)
  by_cases h0 : m = 0
  · subst h0
    have : (c + (0:Nat)) % 65536 = c := by omega
    rw [this, hw]
    rw [show ((D:Nat):Int) = (c + D) - c by omega, moveBy_up _ _ _ (by omega)]
    congr 1; omega
  · have hr2 := wrapStep_range (T - (c + m) % 65536) (by omega)
    generalize wrapStep (T - (c + m) % 65536) = w2 at *
    rw [hw] at hr
    have hw2 : w2 = (D - m : Nat) := by omega
    subst hw2
    rw [show (((D - m : Nat)):Int) = ((c + m) % 65536 + (D - m : Nat)) - (c + m) % 65536 by omega, moveBy_up _ _ _ (by omega)]
    omega

theorem phase_step_down (c T : Int) (D m rate : Nat)
    (hc : 0 ≤ c ∧ c < 65536) (hT : 0 ≤ T ∧ T < 65536) (hm : m ≤ D)
    (hw : wrapStep (T - c) = -(D : Int)) :
    moveBy ((c - m) % 65536) (wrapStep (T - (c - m) % 65536)) rate % 65536
      = (c - (m + min (D - m) rate : Nat)) % 65536 := by
  have hr := wrapStep_range (T - c) (by omega)
  by_cases h0 : m = 0
  · subst h0
    have : (c - (0:Nat)) % 65536 = c := by omega
    rw [this, hw]
    rw [show (-((D:Nat):Int)) = (c - D) - c by omega, moveBy_down _ _ _ (by omega)]
    congr 1; omega
  · have hr2 := wrapStep_range (T - (c - m) % 65536) (by omega)
    generalize wrapStep (T - (c - m) % 65536) = w2 at *
    rw [hw] at hr
    have hw2 : w2 = -((D - m : Nat) : Int) := by omega
    subst hw2
    rw [show (-((D - m : Nat):Int)) = ((c - m) % 65536 - (D - m : Nat)) - (c - m) % 65536 by omega, moveBy_down _ _ _ (by omega)]
    omega

end Autd3.Silencer
