import Autd3.Lemmas.Hist9b
import Autd3.Lemmas.TupleWire
import Autd3.Lemmas.RtNew
/-!
History independence (C02), part 9c: what the single-frame datagrams leave of the phase-correction memory.
`Keeps s0 s` = phase-correction memory and transducer count as in `s0`.  Every handler other than `clear`,
`phase_corr` and the four data handlers is walked through for an ARBITRARY payload (`handlePayload_keeps`); a datagram
whose operation packs into one frame is one `ecat_recv` (`sends_one_inv`); hence every complete send of a Synchronize,
ForceFan, ReadsFPGAState, CpuGPIOOut, EmulateGPIOIn, GPIOOutputs, PulseWidthEncoder, Silencer or SwapSegment datagram
keeps the phase correction.  `clear_roundtrip`, `sync_roundtrip`: Clear and Synchronize as complete sends that keep
the round-trip invariant `Rt.WF` (the C01 round trips cover the other kinds).
-/
open Autd3 Autd3.Fw Autd3.Wire Autd3.Gen.Cpu Autd3.Gen Autd3.Rt
namespace Autd3.Hist

/-- phase correction memory and transducer count are as in `s0` -/
def Keeps (s0 s : State) : Prop := s.phaseCorr = s0.phaseCorr ∧ s.numTr = s0.numTr

theorem Keeps.refl (s : State) : Keeps s s := ⟨rfl, rfl⟩
theorem Keeps.trans {a b c : State} (h1 : Keeps a b) (h2 : Keeps b c) : Keeps a c :=
  ⟨h2.1.trans h1.1, h2.2.trans h1.2⟩

theorem Keeps.wr {s0 s : State} (h : Keeps s0 s) (a v : Nat) : Keeps s0 (wr s a v) := h

theorem LK.cw {s0 s1 : State} {a v : Nat} {f : State → M (State × Nat)} (h1 : Keeps s0 s1) (ha : a < 256)
    (h : ∀ s2, Keeps s0 s2 → Leaves Keeps s0 (f s2)) : Leaves Keeps s0 (Fw.ctlWrite s1 a v >>= f) := by
  rw [Rt.ctlWrite_main _ _ _ ha]; exact h _ h1

theorem LK.cww {s0 s1 : State} {base : Nat} {ws : Array Nat} {f : State → M (State × Nat)} (h1 : Keeps s0 s1)
    (hb : base + ws.size ≤ 256) (h : ∀ s2, Keeps s0 s2 → Leaves Keeps s0 (f s2)) :
    Leaves Keeps s0 (Fw.ctlWriteWords s1 base ws >>= f) := by
  rw [Rt.ctlWriteWords_main _ _ _ hb]; exact h _ h1

/-- `FPGAEmulator::set_and_wait_update`: only the two swap chains can change -/
theorem fpgaSaw_shape (s s' : State) (t : Nat) (h : fpgaSetAndWaitUpdate s t = .ok s') :
    ∃ mw sw, s' = { s with modSwap := mw, stmSwap := sw } := by
  unfold fpgaSetAndWaitUpdate at h
  simp only [] at h
  split at h
  · obtain ⟨a, _, h⟩ := bind_eq_ok h
    obtain ⟨b, _, h⟩ := bind_eq_ok h
    obtain ⟨c, _, h⟩ := bind_eq_ok h
    simp only [pure_bind] at h
    split at h
    · obtain ⟨a', _, h⟩ := bind_eq_ok h
      obtain ⟨b', _, h⟩ := bind_eq_ok h
      obtain ⟨c', _, h⟩ := bind_eq_ok h
      cases h; exact ⟨_, _, rfl⟩
    · cases h; exact ⟨_, _, rfl⟩
  · simp only [pure_bind] at h
    split at h
    · obtain ⟨a', _, h⟩ := bind_eq_ok h
      obtain ⟨b', _, h⟩ := bind_eq_ok h
      obtain ⟨c', _, h⟩ := bind_eq_ok h
      cases h; exact ⟨_, _, rfl⟩
    · cases h; exact ⟨_, _, rfl⟩

theorem saw_keeps (s s' : State) (flag : Nat) (h : setAndWaitUpdate s flag = .ok s') : Keeps s s' := by
  unfold setAndWaitUpdate at h
  rw [Rt.ctlWrite_main _ ADDR_CTL_FLAG _ (by decide), Rt.ok_bind] at h
  obtain ⟨s2, h2, h3⟩ := bind_eq_ok h
  obtain ⟨mw, sw, rfl⟩ := fpgaSaw_shape _ _ _ h2
  rw [Rt.ctlWrite_main _ ADDR_CTL_FLAG _ (by decide)] at h3
  cases h3
  exact ⟨rfl, rfl⟩

theorem LK.saw {s0 s1 : State} {flag : Nat} {f : State → M (State × Nat)} (h1 : Keeps s0 s1)
    (h : ∀ s2, Keeps s0 s2 → Leaves Keeps s0 (f s2)) : Leaves Keeps s0 (setAndWaitUpdate s1 flag >>= f) :=
  Leaves.bind (fun x => Keeps s0 x) (fun x hx => h1.trans (saw_keeps _ _ _ hx)) h

theorem synchronize_keeps (s : State) (d : Array Nat) : Leaves Keeps s (synchronize s d) := by
  unfold synchronize
  simp only []
  refine LK.saw (s1 := { s with synchronized := true }) ⟨rfl, rfl⟩ ?_
  intro s2 h2
  exact Leaves.pure h2

theorem configDebug_keeps (s : State) (d : Array Nat) : Leaves Keeps s (configDebug s d) := by
  unfold configDebug
  refine LK.cww (Keeps.refl s) (by simp [wordsAt, ADDR_DEBUG_VALUE0_0]) ?_
  intro s2 h2
  refine LK.saw h2 ?_
  intro s3 h3
  exact Leaves.pure h3

theorem configSilencer_keeps (s : State) (d : Array Nat) : Leaves Keeps s (configSilencer s d) := by
  unfold configSilencer
  simp only []
  apply Leaves.ite <;> intro _
  · refine LK.cw (Keeps.refl s) (by decide) ?_; intro s2 h2
    refine LK.cw h2 (by decide) ?_; intro s3 h3
    refine LK.cw h3 (by decide) ?_; intro s4 h4
    refine LK.saw h4 ?_; intro s5 h5
    exact Leaves.pure h5
  · apply Leaves.ite <;> intro _
    · exact Leaves.pure (Keeps.refl s)
    · refine LK.cw (s1 := { s with strict := _, minDivI := _, minDivP := _ }) ⟨rfl, rfl⟩ (by decide) ?_; intro s2 h2
      refine LK.cw h2 (by decide) ?_; intro s3 h3
      refine LK.cw h3 (by decide) ?_; intro s4 h4
      refine LK.saw h4 ?_; intro s5 h5
      exact Leaves.pure h5

theorem configureForceFan_keeps (s : State) (d : Array Nat) : Leaves Keeps s (configureForceFan s d) := by
  unfold configureForceFan
  simp only []
  apply Leaves.ite <;> intro _ <;> exact Leaves.ok ⟨rfl, rfl⟩

theorem configureReadsFpgaState_keeps (s : State) (d : Array Nat) : Leaves Keeps s (configureReadsFpgaState s d) :=
  Leaves.ok ⟨rfl, rfl⟩

theorem emulateGpioIn_keeps (s : State) (d : Array Nat) : Leaves Keeps s (emulateGpioIn s d) := Leaves.ok ⟨rfl, rfl⟩
theorem cpuGpioOut_keeps (s : State) (d : Array Nat) : Leaves Keeps s (cpuGpioOut s d) := Leaves.ok ⟨rfl, rfl⟩

theorem configPwe_keeps (s : State) (d : Array Nat) : Leaves Keeps s (configPwe s d) := by
  unfold configPwe
  refine Leaves.bind (fun x => Keeps s x) ?_ (fun x hx => Leaves.pure hx)
  intro x hx
  unfold pweWriteWords at hx
  split at hx
  · cases hx
  · cases hx; exact ⟨rfl, rfl⟩

theorem firmInfo_keeps (s : State) (d : Array Nat) : Leaves Keeps s (firmInfo s d) := by
  unfold firmInfo
  simp only []
  repeat' (apply Leaves.ite <;> intro _)
  all_goals exact Leaves.ok ⟨rfl, rfl⟩

theorem modSegmentUpdate_keeps {s0 s1 : State} (h1 : Keeps s0 s1) (seg mode value : Nat) :
    Leaves Keeps s0 (modSegmentUpdate s1 seg mode value) := by
  unfold modSegmentUpdate
  refine LK.cw h1 (by decide) ?_; intro s2 h2
  apply Leaves.ite <;> intro _
  · exact Leaves.pure h2
  refine LK.cw h2 (by decide) ?_; intro s3 h3
  refine LK.cww h3 (by show ADDR_MOD_TRANSITION_VALUE_0 + 4 ≤ 256; decide) ?_; intro s4 h4
  refine LK.saw h4 ?_; intro s5 h5
  exact Leaves.pure h5

theorem stmSegmentUpdate_keeps {s0 s1 : State} (h1 : Keeps s0 s1) (seg mode value : Nat) :
    Leaves Keeps s0 (stmSegmentUpdate s1 seg mode value) := by
  unfold stmSegmentUpdate
  refine LK.cw h1 (by decide) ?_; intro s2 h2
  apply Leaves.ite <;> intro _
  · exact Leaves.pure h2
  refine LK.cw h2 (by decide) ?_; intro s3 h3
  refine LK.cww h3 (by show ADDR_STM_TRANSITION_VALUE_0 + 4 ≤ 256; decide) ?_; intro s4 h4
  refine LK.saw h4 ?_; intro s5 h5
  exact Leaves.pure h5

theorem changeModSegment_keeps (s : State) (d : Array Nat) : Leaves Keeps s (changeModSegment s d) := by
  unfold changeModSegment
  simp only []
  apply Leaves.ite <;> intro _
  · exact Leaves.error _
  apply Leaves.ite <;> intro _
  · exact Leaves.pure (Keeps.refl s)
  apply Leaves.ite <;> intro _
  · exact Leaves.pure (Keeps.refl s)
  exact modSegmentUpdate_keeps (s1 := { s with modSegment := _ }) ⟨rfl, rfl⟩ _ _ _

theorem changeFociStmSegment_keeps (s : State) (d : Array Nat) : Leaves Keeps s (changeFociStmSegment s d) := by
  unfold changeFociStmSegment
  simp only []
  apply Leaves.ite <;> intro _
  · exact Leaves.error _
  apply Leaves.ite <;> intro _
  · exact Leaves.pure (Keeps.refl s)
  apply Leaves.ite <;> intro _
  · exact Leaves.pure (Keeps.refl s)
  apply Leaves.ite <;> intro _
  · exact Leaves.pure (Keeps.refl s)
  exact stmSegmentUpdate_keeps (s1 := { s with stmSegment := _ }) ⟨rfl, rfl⟩ _ _ _

theorem changeGainStmSegment_keeps (s : State) (d : Array Nat) : Leaves Keeps s (changeGainStmSegment s d) := by
  unfold changeGainStmSegment
  simp only []
  apply Leaves.ite <;> intro _
  · exact Leaves.error _
  apply Leaves.ite <;> intro _
  · exact Leaves.pure (Keeps.refl s)
  apply Leaves.ite <;> intro _
  · exact Leaves.pure (Keeps.refl s)
  apply Leaves.ite <;> intro _
  · exact Leaves.pure (Keeps.refl s)
  exact stmSegmentUpdate_keeps (s1 := { s with stmSegment := _ }) ⟨rfl, rfl⟩ _ _ _

theorem changeGainSegment_keeps (s : State) (d : Array Nat) : Leaves Keeps s (changeGainSegment s d) := by
  unfold changeGainSegment
  simp only []
  apply Leaves.ite <;> intro _
  · exact Leaves.error _
  apply Leaves.ite <;> intro _
  · exact Leaves.pure (Keeps.refl s)
  apply Leaves.ite <;> intro _
  · exact Leaves.pure (Keeps.refl s)
  refine LK.cw (s1 := { s with stmSegment := _ }) ⟨rfl, rfl⟩ (by decide) ?_; intro s2 h2
  refine LK.cw h2 (by decide) ?_; intro s3 h3
  refine LK.saw h3 ?_; intro s4 h4
  exact Leaves.pure h4

/-- tags of the single-frame datagrams other than Clear and PhaseCorrection -/
def cfgTags : List Nat := [2, 3, 17, 33, 49, 67, 68, 96, 97, 114, 240, 241, 242]

/-- every handler other than `clear`, `phase_corr` and the four data handlers keeps the phase correction memory and
the transducer count, for EVERY payload and whatever it answers -/
theorem handlePayload_keeps (s : State) (d : Array Nat) (ht : u8at d 0 ∈ cfgTags) : Leaves Keeps s (handlePayload s d) := by
  simp only [cfgTags, List.mem_cons, List.mem_nil_iff, or_false] at ht
  rcases ht with h | h | h | h | h | h | h | h | h | h | h | h | h
  · have : handlePayload s d = synchronize s d := by unfold handlePayload; rw [h]; rfl
    rw [this]; exact synchronize_keeps s d
  · have : handlePayload s d = firmInfo s d := by unfold handlePayload; rw [h]; rfl
    rw [this]; exact firmInfo_keeps s d
  · have : handlePayload s d = changeModSegment s d := by unfold handlePayload; rw [h]; rfl
    rw [this]; exact changeModSegment_keeps s d
  · have : handlePayload s d = configSilencer s d := by unfold handlePayload; rw [h]; rfl
    rw [this]; exact configSilencer_keeps s d
  · have : handlePayload s d = changeGainSegment s d := by unfold handlePayload; rw [h]; rfl
    rw [this]; exact changeGainSegment_keeps s d
  · have : handlePayload s d = changeGainStmSegment s d := by unfold handlePayload; rw [h]; rfl
    rw [this]; exact changeGainStmSegment_keeps s d
  · have : handlePayload s d = changeFociStmSegment s d := by unfold handlePayload; rw [h]; rfl
    rw [this]; exact changeFociStmSegment_keeps s d
  · have : handlePayload s d = configureForceFan s d := by unfold handlePayload; rw [h]; rfl
    rw [this]; exact configureForceFan_keeps s d
  · have : handlePayload s d = configureReadsFpgaState s d := by unfold handlePayload; rw [h]; rfl
    rw [this]; exact configureReadsFpgaState_keeps s d
  · have : handlePayload s d = configPwe s d := by unfold handlePayload; rw [h]; rfl
    rw [this]; exact configPwe_keeps s d
  · have : handlePayload s d = configDebug s d := by unfold handlePayload; rw [h]; rfl
    rw [this]; exact configDebug_keeps s d
  · have : handlePayload s d = emulateGpioIn s d := by unfold handlePayload; rw [h]; rfl
    rw [this]; exact emulateGpioIn_keeps s d
  · have : handlePayload s d = cpuGpioOut s d := by unfold handlePayload; rw [h]; rfl
    rw [this]; exact cpuGpioOut_keeps s d

theorem Keeps_pre (s : State) (id : Nat) : Keeps s (pre s id) := by
  obtain ⟨r, hr⟩ := pre_eq s id
  rw [hr]; exact ⟨rfl, rfl⟩
theorem Keeps_fin (s : State) (id : Nat) : Keeps s (fin s id) := ⟨rfl, rfl⟩

/-- a datagram whose operation packs into one frame is delivered by exactly one `ecat_recv` -/
theorem sends_one_inv (dg : Dg) (s : State) (t t' : Tx) (s' : State) (o' : Op) (b : Array Nat) (sz : Nat)
    (hnd : (Op.ofDg dg).done = false) (hp : (Op.ofDg dg).pack s.numTr t.payload 0 = .ok (o', b, sz))
    (hd : o'.done = true) (h : Sends dg s t t' s') :
    t' = ⟨nextId t, 0, b⟩ ∧ ecatRecv s (Tx.frame ⟨nextId t, 0, b⟩) = .ok s' ∧ s'.ack = nextId t := by
  have hpk : packOp (Op.ofDg dg) s.numTr t = .ok (o', { msgId := nextId t, slot2 := 0, payload := b }, sz) := by
    unfold packOp; simp only []; rw [hp]; rfl
  obtain ⟨fuel, h⟩ := h
  cases fuel with
  | zero => simp [sendLoop] at h
  | succ f =>
    simp only [sendLoop, hnd, Bool.false_eq_true, if_false, hpk] at h
    cases hr : ecatRecv s (Tx.frame ⟨nextId t, 0, b⟩) with
    | error e => rw [hr] at h; simp at h
    | ok s1 =>
      rw [hr] at h
      simp only [] at h
      by_cases ha : s1.ack = nextId t
      · rw [if_pos ha] at h
        cases f with
        | zero => simp [sendLoop] at h
        | succ f' =>
          simp only [sendLoop, hd, if_true] at h
          simp only [Option.some.injEq, Prod.mk.injEq] at h
          obtain ⟨rfl, rfl⟩ := h
          exact ⟨rfl, rfl, ha⟩
      · rw [if_neg ha] at h; simp at h

/-- one accepted single-slot frame with a tag in `cfgTags` -/
theorem recv_keeps (s s' : State) (t' : Tx) (hid : t'.msgId < 128) (hslot : t'.slot2 = 0)
    (htag : u8at t'.payload 0 ∈ cfgTags) (h : ecatRecv s t'.frame = .ok s') (hack : s'.ack = t'.msgId) : Keeps s s' := by
  rcases ecatRecv_accept s s' t' hid hslot h hack with h0 | ⟨s1, a, hh, rfl⟩
  · subst h0; exact Keeps.refl _
  · exact ((Keeps_pre s _).trans (handlePayload_keeps _ _ htag s1 a hh)).trans (Keeps_fin s1 _)

theorem sends_one_keeps (dg : Dg) (s : State) (t t' : Tx) (s' : State) (o' : Op) (b : Array Nat) (sz : Nat)
    (hnd : (Op.ofDg dg).done = false) (hp : (Op.ofDg dg).pack s.numTr t.payload 0 = .ok (o', b, sz))
    (hd : o'.done = true) (htag : u8at b 0 ∈ cfgTags) (h : Sends dg s t t' s') : Keeps s s' := by
  obtain ⟨_, hr, ha⟩ := sends_one_inv dg s t t' s' o' b sz hnd hp hd h
  exact recv_keeps s s' ⟨nextId t, 0, b⟩ (nextId_lt t) rfl htag hr ha

/-! ### the single-frame datagrams: whole sends -/

theorem cfgTag_mem (X : Dg) (hX : Tuple.IsCfg X = true) : Tuple.cfgTag X ∈ cfgTags := by
  cases X <;> simp only [Tuple.IsCfg, Bool.false_eq_true] at hX <;> simp [Tuple.cfgTag, cfgTags]

/-- Synchronize, ForceFan, ReadsFPGAState, CpuGPIOOut, EmulateGPIOIn, GPIOOutputs, PulseWidthEncoder, both Silencer
forms: a complete send keeps phase correction and transducer count, for EVERY content -/
theorem cfg_sends_keeps (X : Dg) (hX : Tuple.IsCfg X = true) (s : State) (t t' : Tx) (s' : State) (ht : TxOK t)
    (h : Sends X s t t' s') : Keeps s s' := by
  have hfit : 0 + Tuple.cfgLen X ≤ t.payload.size := by have := Tuple.cfgLen_le X; unfold TxOK at ht; omega
  refine sends_one_keeps X s t t' s' _ _ _ (Tuple.cfg_pending X hX) (Tuple.cfg_pack X hX s.numTr t.payload 0 hfit) rfl ?_ h
  rw [Tuple.cfg_tag X hX t.payload 0 hfit]
  exact cfgTag_mem X hX

theorem swapMod_sends_keeps (seg mode value : Nat) (s : State) (t t' : Tx) (s' : State) (ht : TxOK t)
    (h : Sends (.swapMod seg mode value) s t t' s') : Keeps s s' := by
  have ht' : t.payload.size = 622 := ht
  refine sends_one_keeps _ s t t' s' _ _ _ rfl rfl rfl ?_ h
  rw [(swapWT_payload t.payload Drv.TAG_ModulationSwapSegment seg mode value (by omega) (by decide)).1]
  decide

theorem swapFoci_sends_keeps (seg mode value : Nat) (s : State) (t t' : Tx) (s' : State) (ht : TxOK t)
    (h : Sends (.swapFoci seg mode value) s t t' s') : Keeps s s' := by
  have ht' : t.payload.size = 622 := ht
  refine sends_one_keeps _ s t t' s' _ _ _ rfl rfl rfl ?_ h
  rw [(swapWT_payload t.payload Drv.TAG_FociSTMSwapSegment seg mode value (by omega) (by decide)).1]
  decide

theorem swapGainStm_sends_keeps (seg mode value : Nat) (s : State) (t t' : Tx) (s' : State) (ht : TxOK t)
    (h : Sends (.swapGainStm seg mode value) s t t' s') : Keeps s s' := by
  have ht' : t.payload.size = 622 := ht
  refine sends_one_keeps _ s t t' s' _ _ _ rfl rfl rfl ?_ h
  rw [(swapWT_payload t.payload Drv.TAG_GainSTMSwapSegment seg mode value (by omega) (by decide)).1]
  decide

theorem swapGain_sends_keeps (seg value : Nat) (s : State) (t t' : Tx) (s' : State) (ht : TxOK t)
    (h : Sends (.swapGain seg Drv.TRANSITION_MODE_IMMEDIATE value) s t t' s') : Keeps s s' := by
  have ht' : t.payload.size = 622 := ht
  refine sends_one_keeps _ s t t' s' _ _ _ rfl rfl rfl ?_ h
  rw [u8at_tagValue_0 t.payload Drv.TAG_GainSwapSegment seg (by omega) (by decide)]
  decide

/-! ### Clear and Synchronize as complete sends -/

theorem Keeps.phaseCorrection {s s' : State} (h : Keeps s s') : Obs.phaseCorrection s' = Obs.phaseCorrection s := by
  unfold Obs.phaseCorrection
  have : Obs.phaseCorrAt s' = Obs.phaseCorrAt s := by funext i; unfold Obs.phaseCorrAt; rw [h.1]
  rw [h.2, this]

/-- **Clear, as a datagram**: accepted by every well-formed device; the result is well-formed, the stored phase
correction is all zero, the transducer count is kept -/
theorem clear_roundtrip (s : State) (t : Tx) (hWF : WF s) (ht : TxOK t) (hf : Fresh s t) :
    ∃ t' s', Sends .clear s t t' s' ∧ WF s' ∧ TxOK t' ∧ Fresh s' t' ∧ s'.numTr = s.numTr ∧
      Obs.phaseCorrection s' = Array.replicate s.numTr 0 ∧ s'.dcSysTime = s.dcSysTime := by
  have ht' : t.payload.size = 622 := ht
  have p0 := u8at_tagValue_0 t.payload Drv.TAG_Clear 0 (by omega) (by decide)
  refine single_glue' _ s t hWF hf _ _ _ rfl rfl rfl (by simpa using ht') _ ?_
  intro r hW
  generalize tagValue t.payload 0 Drv.TAG_Clear 0 = d at p0
  have hd : handlePayload { s with lastMsgId := nextId t, rxData := r } d =
      clear { s with lastMsgId := nextId t, rxData := r } #[] := by
    unfold handlePayload; rw [p0]; rfl
  have hP := p02wf_of_wf hW
  have e1 := P02.clear_eq _ hP
  obtain ⟨s1, e2, hW1⟩ := clear_ok { s with lastMsgId := nextId t, rxData := r } #[]
    ⟨hW.ctl, hW.phaseCorr, hW.pwe, hW.modMem0, hW.modMem1, hW.stmMem0, hW.stmMem1, hW.numTr, rfl, hW.modSwap, hW.stmSwap⟩
  rw [e1] at e2
  simp only [Except.ok.injEq, Prod.mk.injEq, and_true] at e2
  subst e2
  have hk := P02.clearResult_kept { s with lastMsgId := nextId t, rxData := r }
  have hn : (P02.clearResult { s with lastMsgId := nextId t, rxData := r }).numTr = s.numTr := hk.2.2.2.2.2.2.2.2.2.2.2.1
  refine ⟨_, by rw [hd, e1], hW1, hk.2.2.2.2.2.2.2.2.2.1, hn, ?_, hk.2.2.2.2.2.2.2.2.2.2.2.2⟩
  have hpo := P02.powerOnObs_of_cleared (P02.cleared_clearResult _ hP) (by rw [hn]; exact hWF.numTr)
  rw [(Keeps_fin _ _).phaseCorrection, hpo.phaseCorr, hn]

/-- **Synchronize, as a datagram** -/
theorem sync_roundtrip (s : State) (t : Tx) (hWF : WF s) (ht : TxOK t) (hf : Fresh s t) :
    ∃ t' s', Sends .sync s t t' s' ∧ WF s' ∧ TxOK t' ∧ Fresh s' t' ∧ s'.synchronized = true := by
  have ht' : t.payload.size = 622 := ht
  have p0 := u8at_tagValue_0 t.payload Drv.TAG_Sync 0 (by omega) (by decide)
  refine single_glue' _ s t hWF hf _ _ _ rfl rfl rfl (by simpa using ht') _ ?_
  intro r hW
  generalize tagValue t.payload 0 Drv.TAG_Sync 0 = d at p0
  have hd : handlePayload { s with lastMsgId := nextId t, rxData := r } d =
      synchronize { s with lastMsgId := nextId t, rxData := r } d := by
    unfold handlePayload; rw [p0]; rfl
  have e1 := P02.synchronize_eq { s with lastMsgId := nextId t, rxData := r } d (p02wf_of_wf hW)
  refine ⟨_, by rw [hd, e1], ?_, rfl, rfl⟩
  have hW2 : WF { s with lastMsgId := nextId t, rxData := r, synchronized := true } := by wf_same hW
  exact WF_wr hW2 ADDR_CTL_FLAG _ (Or.inl (by decide))

end Autd3.Hist
