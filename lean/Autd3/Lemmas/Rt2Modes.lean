import Autd3.Lemmas.Rt2Obs
/-!
GainSTM modes at the read-back level, and the firmware's transition-mode acceptance table.
-/
open Autd3 Autd3.Fw Autd3.Wire Autd3.Gen.Cpu Autd3.Gen
namespace Autd3.Rt

theorem expDrive_lt (mode w : Nat) (hw : w < 65536) : expDrive mode w < 65536 := by
  unfold expDrive; split
  · exact hw
  · split <;> omega

/-- `drives_at(seg, idx)` after a GainSTM: per transducer the drive word the mode keeps, phase corrected -/
theorem gstm_drivesAt {s0 s' : State} {seg : Nat} {tr : Tr} {rep div mode : Nat} {patterns : Array (Array Nat)}
    (h : GHeld s0 s' seg tr rep div mode patterns) (hW : WF s') (hnt : s'.numTr = s0.numTr) (hP : patterns.size ≤ 1024)
    (hdr : ∀ idx i, rd (patAt patterns idx) i < 65536) (idx : Nat) (hidx : idx < patterns.size) :
    Obs.drivesAt s' seg idx = .ok ((Array.range s0.numTr).map fun i =>
      driveWithCorr (expDrive mode (rd (patAt patterns idx) i)) (Obs.phaseCorrAt s' i)) := by
  unfold Obs.drivesAt
  rw [h.hmode, if_pos rfl]
  congr 1
  unfold Obs.gainDrives
  rw [hnt]
  apply range_map_congr
  intro i hi
  have hn := hW.numTr
  simp only []
  rw [stmMem_size hW seg, if_pos (by omega), h.rows idx hidx i hi]
  have := expDrive_lt mode _ (hdr idx i)
  unfold driveWithCorr
  omega

/-- when `validate_transition_mode` accepts -/
theorem transition_acceptance (cur seg rep m : Nat) :
    validateTransitionMode cur seg rep m = false ↔
      (m = TRANSITION_MODE_NONE ∨
       ((cur = seg ∨ rep = 0xFFFF) ∧ m ≠ TRANSITION_MODE_SYNC_IDX ∧ m ≠ TRANSITION_MODE_SYS_TIME ∧ m ≠ TRANSITION_MODE_GPIO) ∨
       (cur ≠ seg ∧ rep ≠ 0xFFFF ∧ m ≠ TRANSITION_MODE_IMMEDIATE ∧ m ≠ TRANSITION_MODE_EXT)) := by
  unfold validateTransitionMode
  by_cases h1 : m = TRANSITION_MODE_NONE
  · simp [h1]
  · rw [if_neg h1]
    by_cases h2 : cur = seg
    · rw [if_pos h2, decide_eq_false_iff_not]
      simp only [TRANSITION_MODE_NONE, TRANSITION_MODE_SYNC_IDX, TRANSITION_MODE_SYS_TIME, TRANSITION_MODE_GPIO,
        TRANSITION_MODE_IMMEDIATE, TRANSITION_MODE_EXT] at h1 ⊢
      omega
    · rw [if_neg h2]
      by_cases h3 : rep = 0xFFFF
      · rw [if_pos h3, decide_eq_false_iff_not]
        simp only [TRANSITION_MODE_NONE, TRANSITION_MODE_SYNC_IDX, TRANSITION_MODE_SYS_TIME, TRANSITION_MODE_GPIO,
          TRANSITION_MODE_IMMEDIATE, TRANSITION_MODE_EXT] at h1 ⊢
        omega
      · rw [if_neg h3, decide_eq_false_iff_not]
        simp only [TRANSITION_MODE_NONE, TRANSITION_MODE_SYNC_IDX, TRANSITION_MODE_SYS_TIME, TRANSITION_MODE_GPIO,
          TRANSITION_MODE_IMMEDIATE, TRANSITION_MODE_EXT] at h1 ⊢
        omega

end Autd3.Rt
