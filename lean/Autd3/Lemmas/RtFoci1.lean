import Autd3.Lemmas.RtMod7
/-!
FociSTM, part 1: `write_foci_stm` = header ∘ copy (`fociDataPart`) ∘ end (`fociEndPart`), for BEGIN
frames (`writeFoci_begin`) and following frames (`writeFoci_subseq`).
-/
set_option linter.unusedSimpArgs false
open Autd3 Autd3.Fw Autd3.Wire Autd3.Gen.Cpu Autd3.Gen
namespace Autd3.Rt

@[simp] theorem error_bind {α β : Type} (e : Panic) (f : α → M β) : (Except.error e >>= f) = Except.error e := rfl

def setStmWrite (s : State) (c : Nat) : State := { s with stmWrite := c }

/-- the copy part of `write_foci_stm` (with the page split) -/
def fociDataPart (s : State) (d : Array Nat) (srcOff sendNum : Nat) : M State := do
  let mut s := s
  let cur16 := s.stmWrite % 65536
  let pageCapacity := FOCI_STM_BUF_PAGE_SIZE - (cur16 &&& FOCI_STM_BUF_PAGE_SIZE_MASK)
  let size := sendNum * s.numFoci
  if size ≥ 65536 then .error (.overflow "write_foci_stm: send_num * num_foci") else
  let dst := ((cur16 &&& FOCI_STM_BUF_PAGE_SIZE_MASK) <<< 2) % 65536
  if size < pageCapacity then
    s ← stmWriteWords s dst (wordsAt d srcOff (size * 4))
    s := { s with stmWrite := s.stmWrite + size }
  else
    s ← stmWriteWords s dst (wordsAt d srcOff (pageCapacity * 4))
    s := { s with stmWrite := s.stmWrite + pageCapacity }
    s ← ctlWrite s ADDR_STM_MEM_WR_PAGE (((s.stmWrite % 65536) &&& (65535 - FOCI_STM_BUF_PAGE_SIZE_MASK)) >>> FOCI_STM_BUF_PAGE_SIZE_WIDTH)
    s ← stmWriteWords s 0 (wordsAt d (srcOff + 8 * pageCapacity) ((size - pageCapacity) * 4))
    s := { s with stmWrite := s.stmWrite + (size - pageCapacity) }
  return s

/-- the END part of `write_foci_stm` -/
def fociEndPart (s : State) (flag segment : Nat) : M (State × Nat) := do
  let mut s := s
  if hasFlag flag FOCI_STM_FLAG_END then
    if segment > 1 then .error (.index "write_foci_stm: stm_mode[segment]") else
    if s.numFoci = 0 then .error (.divZero "write_foci_stm: stm_write / num_foci") else
    s := { s with stmMode := setSel s.stmMode segment STM_MODE_FOCUS,
                  stmCycle := setSel s.stmCycle segment (s.stmWrite / s.numFoci) }
    s ← ctlWrite s (ADDR_STM_CYCLE0 + segment) ((max (sel s.stmCycle segment) 1 - 1) % 65536)
    if hasFlag flag FOCI_STM_FLAG_UPDATE then
      return ← stmSegmentUpdate s segment s.stmTrMode s.stmTrValue
  return (s, NO_ERR)

theorem writeFoci_subseq (s : State) (d : Array Nat)
    (hb : hasFlag (u8at d FwLayout.FociSTMSubseq_flag_off) FOCI_STM_FLAG_BEGIN = false) :
    writeFociStm s d = (do
      let s2 ← fociDataPart s d FwLayout.FociSTMSubseq_size (u8at d FwLayout.FociSTMSubseq_send_num_off)
      fociEndPart s2 (u8at d FwLayout.FociSTMSubseq_flag_off) (u8at d FwLayout.FociSTMSubseq_segment_off)) := by
  unfold writeFociStm fociDataPart fociEndPart
  simp only [hb, Bool.false_eq_true, if_false]
  by_cases h0 : u8at d FwLayout.FociSTMSubseq_send_num_off * s.numFoci ≥ 65536
  · simp only [h0, if_true, error_bind]
  · by_cases h : u8at d FwLayout.FociSTMSubseq_send_num_off * s.numFoci <
        FOCI_STM_BUF_PAGE_SIZE - (s.stmWrite % 65536 &&& FOCI_STM_BUF_PAGE_SIZE_MASK)
    · simp only [h0, h, if_true, if_false, bind_assoc, pure_bind]
    · simp only [h0, h, if_false, bind_assoc, pure_bind]

/-- `write_foci_stm` BEGIN: the CPU-side latches -/
def fociHeadCpu (s : State) (seg rep div tm tv nf : Nat) : State :=
  { s with stmSegment := if tm ≠ TRANSITION_MODE_NONE then seg else s.stmSegment, stmWrite := 0,
           stmRep := setSel s.stmRep seg rep, stmTrMode := tm, stmTrValue := tv, stmDiv := setSel s.stmDiv seg div,
           numFoci := nf }
@[simp] theorem fociHeadCpu_ack (s : State) (seg rep div tm tv nf : Nat) : (fociHeadCpu s seg rep div tm tv nf).ack = s.ack := rfl
@[simp] theorem fociHeadCpu_lastMsgId (s : State) (seg rep div tm tv nf : Nat) : (fociHeadCpu s seg rep div tm tv nf).lastMsgId = s.lastMsgId := rfl
@[simp] theorem fociHeadCpu_rxData (s : State) (seg rep div tm tv nf : Nat) : (fociHeadCpu s seg rep div tm tv nf).rxData = s.rxData := rfl
@[simp] theorem fociHeadCpu_readsFpgaState (s : State) (seg rep div tm tv nf : Nat) : (fociHeadCpu s seg rep div tm tv nf).readsFpgaState = s.readsFpgaState := rfl
@[simp] theorem fociHeadCpu_readsStore (s : State) (seg rep div tm tv nf : Nat) : (fociHeadCpu s seg rep div tm tv nf).readsStore = s.readsStore := rfl
@[simp] theorem fociHeadCpu_isRxDataUsed (s : State) (seg rep div tm tv nf : Nat) : (fociHeadCpu s seg rep div tm tv nf).isRxDataUsed = s.isRxDataUsed := rfl
@[simp] theorem fociHeadCpu_synchronized (s : State) (seg rep div tm tv nf : Nat) : (fociHeadCpu s seg rep div tm tv nf).synchronized = s.synchronized := rfl
@[simp] theorem fociHeadCpu_modCycle (s : State) (seg rep div tm tv nf : Nat) : (fociHeadCpu s seg rep div tm tv nf).modCycle = s.modCycle := rfl
@[simp] theorem fociHeadCpu_stmWrite (s : State) (seg rep div tm tv nf : Nat) : (fociHeadCpu s seg rep div tm tv nf).stmWrite = 0 := rfl
@[simp] theorem fociHeadCpu_stmCycle (s : State) (seg rep div tm tv nf : Nat) : (fociHeadCpu s seg rep div tm tv nf).stmCycle = s.stmCycle := rfl
@[simp] theorem fociHeadCpu_stmMode (s : State) (seg rep div tm tv nf : Nat) : (fociHeadCpu s seg rep div tm tv nf).stmMode = s.stmMode := rfl
@[simp] theorem fociHeadCpu_stmRep (s : State) (seg rep div tm tv nf : Nat) : (fociHeadCpu s seg rep div tm tv nf).stmRep = setSel s.stmRep seg rep := rfl
@[simp] theorem fociHeadCpu_stmDiv (s : State) (seg rep div tm tv nf : Nat) : (fociHeadCpu s seg rep div tm tv nf).stmDiv = setSel s.stmDiv seg div := rfl
@[simp] theorem fociHeadCpu_modDiv (s : State) (seg rep div tm tv nf : Nat) : (fociHeadCpu s seg rep div tm tv nf).modDiv = s.modDiv := rfl
@[simp] theorem fociHeadCpu_modRep (s : State) (seg rep div tm tv nf : Nat) : (fociHeadCpu s seg rep div tm tv nf).modRep = s.modRep := rfl
@[simp] theorem fociHeadCpu_stmSegment (s : State) (seg rep div tm tv nf : Nat) : (fociHeadCpu s seg rep div tm tv nf).stmSegment = if tm ≠ TRANSITION_MODE_NONE then seg else s.stmSegment := rfl
@[simp] theorem fociHeadCpu_modSegment (s : State) (seg rep div tm tv nf : Nat) : (fociHeadCpu s seg rep div tm tv nf).modSegment = s.modSegment := rfl
@[simp] theorem fociHeadCpu_stmTrMode (s : State) (seg rep div tm tv nf : Nat) : (fociHeadCpu s seg rep div tm tv nf).stmTrMode = tm := rfl
@[simp] theorem fociHeadCpu_stmTrValue (s : State) (seg rep div tm tv nf : Nat) : (fociHeadCpu s seg rep div tm tv nf).stmTrValue = tv := rfl
@[simp] theorem fociHeadCpu_modTrMode (s : State) (seg rep div tm tv nf : Nat) : (fociHeadCpu s seg rep div tm tv nf).modTrMode = s.modTrMode := rfl
@[simp] theorem fociHeadCpu_modTrValue (s : State) (seg rep div tm tv nf : Nat) : (fociHeadCpu s seg rep div tm tv nf).modTrValue = s.modTrValue := rfl
@[simp] theorem fociHeadCpu_gainStmMode (s : State) (seg rep div tm tv nf : Nat) : (fociHeadCpu s seg rep div tm tv nf).gainStmMode = s.gainStmMode := rfl
@[simp] theorem fociHeadCpu_numFoci (s : State) (seg rep div tm tv nf : Nat) : (fociHeadCpu s seg rep div tm tv nf).numFoci = nf := rfl
@[simp] theorem fociHeadCpu_strict (s : State) (seg rep div tm tv nf : Nat) : (fociHeadCpu s seg rep div tm tv nf).strict = s.strict := rfl
@[simp] theorem fociHeadCpu_minDivI (s : State) (seg rep div tm tv nf : Nat) : (fociHeadCpu s seg rep div tm tv nf).minDivI = s.minDivI := rfl
@[simp] theorem fociHeadCpu_minDivP (s : State) (seg rep div tm tv nf : Nat) : (fociHeadCpu s seg rep div tm tv nf).minDivP = s.minDivP := rfl
@[simp] theorem fociHeadCpu_flagsInternal (s : State) (seg rep div tm tv nf : Nat) : (fociHeadCpu s seg rep div tm tv nf).flagsInternal = s.flagsInternal := rfl
@[simp] theorem fociHeadCpu_portA (s : State) (seg rep div tm tv nf : Nat) : (fociHeadCpu s seg rep div tm tv nf).portA = s.portA := rfl
@[simp] theorem fociHeadCpu_dcSysTime (s : State) (seg rep div tm tv nf : Nat) : (fociHeadCpu s seg rep div tm tv nf).dcSysTime = s.dcSysTime := rfl
@[simp] theorem fociHeadCpu_numTr (s : State) (seg rep div tm tv nf : Nat) : (fociHeadCpu s seg rep div tm tv nf).numTr = s.numTr := rfl
@[simp] theorem fociHeadCpu_ctl (s : State) (seg rep div tm tv nf : Nat) : (fociHeadCpu s seg rep div tm tv nf).ctl = s.ctl := rfl
@[simp] theorem fociHeadCpu_phaseCorr (s : State) (seg rep div tm tv nf : Nat) : (fociHeadCpu s seg rep div tm tv nf).phaseCorr = s.phaseCorr := rfl
@[simp] theorem fociHeadCpu_pwe (s : State) (seg rep div tm tv nf : Nat) : (fociHeadCpu s seg rep div tm tv nf).pwe = s.pwe := rfl
@[simp] theorem fociHeadCpu_modMem0 (s : State) (seg rep div tm tv nf : Nat) : (fociHeadCpu s seg rep div tm tv nf).modMem0 = s.modMem0 := rfl
@[simp] theorem fociHeadCpu_modMem1 (s : State) (seg rep div tm tv nf : Nat) : (fociHeadCpu s seg rep div tm tv nf).modMem1 = s.modMem1 := rfl
@[simp] theorem fociHeadCpu_stmMem0 (s : State) (seg rep div tm tv nf : Nat) : (fociHeadCpu s seg rep div tm tv nf).stmMem0 = s.stmMem0 := rfl
@[simp] theorem fociHeadCpu_stmMem1 (s : State) (seg rep div tm tv nf : Nat) : (fociHeadCpu s seg rep div tm tv nf).stmMem1 = s.stmMem1 := rfl
@[simp] theorem fociHeadCpu_modSwap (s : State) (seg rep div tm tv nf : Nat) : (fociHeadCpu s seg rep div tm tv nf).modSwap = s.modSwap := rfl
@[simp] theorem fociHeadCpu_stmSwap (s : State) (seg rep div tm tv nf : Nat) : (fociHeadCpu s seg rep div tm tv nf).stmSwap = s.stmSwap := rfl
@[simp] theorem reg_fociHeadCpu (s : State) (seg rep div tm tv nf a : Nat) :
    reg (fociHeadCpu s seg rep div tm tv nf) a = reg s a := rfl

/-- `write_foci_stm` BEGIN: latches, per-segment registers, write segment and page 0 -/
def fociHead (s : State) (seg rep div tm tv nf ss : Nat) : State :=
  wr (wr (wr (wr (wr (wr (wr (fociHeadCpu s seg rep div tm tv nf) (ADDR_STM_FREQ_DIV0 + seg) div)
    (ADDR_STM_MODE0 + seg) STM_MODE_FOCUS) (ADDR_STM_SOUND_SPEED0 + seg) ss) (ADDR_STM_REP0 + seg) rep)
    (ADDR_STM_NUM_FOCI0 + seg) nf) ADDR_STM_MEM_WR_SEGMENT seg) ADDR_STM_MEM_WR_PAGE 0

theorem writeFoci_begin (s : State) (d : Array Nat) (seg : Nat)
    (hsegd : u8at d FwLayout.FociSTMSubseq_segment_off = seg) (hseg : seg ≤ 1)
    (hb : hasFlag (u8at d FwLayout.FociSTMSubseq_flag_off) FOCI_STM_FLAG_BEGIN = true)
    (g1 : validateTransitionMode s.stmSegment seg (u16at d FwLayout.FociSTMHead_rep_off)
      (u8at d FwLayout.FociSTMHead_transition_mode_off) = false)
    (g2 : validateSilencerSettings s (u16at d FwLayout.FociSTMHead_freq_div_off) (sel s.modDiv s.modSegment) = false) :
    writeFociStm s d = (do
      let s2 ← fociDataPart (fociHead s seg (u16at d FwLayout.FociSTMHead_rep_off)
        (u16at d FwLayout.FociSTMHead_freq_div_off) (u8at d FwLayout.FociSTMHead_transition_mode_off)
        (u64at d FwLayout.FociSTMHead_transition_value_off) (u8at d FwLayout.FociSTMHead_num_foci_off)
        (u16at d FwLayout.FociSTMHead_sound_speed_off)) d FwLayout.FociSTMHead_size
        (u8at d FwLayout.FociSTMSubseq_send_num_off)
      fociEndPart s2 (u8at d FwLayout.FociSTMSubseq_flag_off) seg) := by
  unfold writeFociStm
  simp only []
  rw [hsegd]
  simp only [hb, if_true, g1, g2, Bool.false_eq_true, if_false]
  rw [if_neg (by omega)]
  have a1 : ADDR_STM_FREQ_DIV0 + seg < 256 := by simp only [ADDR_STM_FREQ_DIV0]; omega
  have a2 : ADDR_STM_MODE0 + seg < 256 := by simp only [ADDR_STM_MODE0]; omega
  have a3 : ADDR_STM_SOUND_SPEED0 + seg < 256 := by simp only [ADDR_STM_SOUND_SPEED0]; omega
  have a4 : ADDR_STM_REP0 + seg < 256 := by simp only [ADDR_STM_REP0]; omega
  have a5 : ADDR_STM_NUM_FOCI0 + seg < 256 := by simp only [ADDR_STM_NUM_FOCI0]; omega
  unfold fociDataPart fociEndPart fociHead fociHeadCpu
  by_cases ht : u8at d FwLayout.FociSTMHead_transition_mode_off ≠ TRANSITION_MODE_NONE
  · rw [if_pos ht]
    rw [ctlWrite_main _ _ _ a1, ok_bind, ctlWrite_main _ _ _ a2, ok_bind, ctlWrite_main _ _ _ a3, ok_bind,
      ctlWrite_main _ _ _ a4, ok_bind, ctlWrite_main _ _ _ a5, ok_bind,
      ctlWrite_main _ ADDR_STM_MEM_WR_SEGMENT _ (by decide), ok_bind, ctlWrite_main _ ADDR_STM_MEM_WR_PAGE _ (by decide), ok_bind]
    rw [if_pos ht]
    simp only [wr_stmWrite, wr_numFoci]
    by_cases h0 : u8at d FwLayout.FociSTMSubseq_send_num_off * u8at d FwLayout.FociSTMHead_num_foci_off ≥ 65536
    · simp only [h0, if_true, error_bind]
    · by_cases h : u8at d FwLayout.FociSTMSubseq_send_num_off * u8at d FwLayout.FociSTMHead_num_foci_off <
          FOCI_STM_BUF_PAGE_SIZE - (0 % 65536 &&& FOCI_STM_BUF_PAGE_SIZE_MASK)
      · simp only [h0, h, if_true, if_false, bind_assoc, pure_bind]
      · simp only [h0, h, if_false, bind_assoc, pure_bind]
  · rw [if_neg ht]
    rw [ctlWrite_main _ _ _ a1, ok_bind, ctlWrite_main _ _ _ a2, ok_bind, ctlWrite_main _ _ _ a3, ok_bind,
      ctlWrite_main _ _ _ a4, ok_bind, ctlWrite_main _ _ _ a5, ok_bind,
      ctlWrite_main _ ADDR_STM_MEM_WR_SEGMENT _ (by decide), ok_bind, ctlWrite_main _ ADDR_STM_MEM_WR_PAGE _ (by decide), ok_bind]
    rw [if_neg ht]
    simp only [wr_stmWrite, wr_numFoci]
    by_cases h0 : u8at d FwLayout.FociSTMSubseq_send_num_off * u8at d FwLayout.FociSTMHead_num_foci_off ≥ 65536
    · simp only [h0, if_true, error_bind]
    · by_cases h : u8at d FwLayout.FociSTMSubseq_send_num_off * u8at d FwLayout.FociSTMHead_num_foci_off <
          FOCI_STM_BUF_PAGE_SIZE - (0 % 65536 &&& FOCI_STM_BUF_PAGE_SIZE_MASK)
      · simp only [h0, h, if_true, if_false, bind_assoc, pure_bind]
      · simp only [h0, h, if_false, bind_assoc, pure_bind]

end Autd3.Rt
