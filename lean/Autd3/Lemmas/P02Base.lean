import Autd3.Model.Fw
import Autd3.Model.Obs
/-!
# Basic reasoning layer over the firmware model (`Fw`), used by the C02 / C17 theorems

* `rd` / `setIfInBounds` algebra,
* `writeLoop`: proof-friendly form of the `for i in [0:n] do m := m.setIfInBounds (off+i) …` loops
  of the bulk BRAM writers, with closed forms (`rd_writeLoop`, `size_writeLoop`),
* closed forms of `ctlWrite`, `ctlWriteWords`, `modWriteWords`, `stmWriteWords`, `pweWriteWords`,
  each proved EQUAL to the model's definition (no model definition is changed).
-/
namespace Autd3.P02
open Autd3 Autd3.Fw Autd3.Gen.Cpu Autd3.Gen

/-! ### `rd` -/

theorem rd_set (a : Array Nat) (i v j : Nat) :
    rd (a.setIfInBounds i v) j = if j = i ∧ i < a.size then v else rd a j := by
  unfold rd; grind

theorem rd_set_ne (a : Array Nat) (i v j : Nat) (h : j ≠ i) :
    rd (a.setIfInBounds i v) j = rd a j := by
  rw [rd_set]; simp [h]

theorem rd_set_eq (a : Array Nat) (i v : Nat) (h : i < a.size) :
    rd (a.setIfInBounds i v) i = v := by
  rw [rd_set]; simp [h]

theorem getElem_eq_rd (a : Array Nat) (i : Nat) (h : i < a.size) : a[i] = rd a i := by
  unfold rd; simp [h]

theorem rd_of_size_le (a : Array Nat) (i : Nat) (h : a.size ≤ i) : rd a i = 0 := by
  unfold rd; simp [h]

theorem rd_replicate (n v i : Nat) : rd (Array.replicate n v) i = if i < n then v else 0 := by
  unfold rd; split <;> simp_all

theorem rd_map_range (n : Nat) (f : Nat → Nat) (i : Nat) :
    rd ((Array.range n).map f) i = if i < n then f i else 0 := by
  unfold rd; split <;> simp_all

/-- arrays of equal size with equal `rd` everywhere are equal -/
theorem ext_rd (a b : Array Nat) (hs : a.size = b.size) (h : ∀ i, i < a.size → rd a i = rd b i) : a = b := by
  apply Array.ext hs
  intro i h1 h2
  have := h i h1
  rw [← getElem_eq_rd a i h1, ← getElem_eq_rd b i h2] at this
  exact this

/-! ### `writeLoop` -/

/-- proof-friendly bulk write: `m[off+i] := f i` for `i < n` (out-of-range writes dropped) -/
def writeLoop (m : Array Nat) (off : Nat) (f : Nat → Nat) : Nat → Array Nat
  | 0 => m
  | n+1 => (writeLoop m off f n).setIfInBounds (off + n) (f n)

@[simp] theorem size_writeLoop (m : Array Nat) (off : Nat) (f : Nat → Nat) (n : Nat) :
    (writeLoop m off f n).size = m.size := by
  induction n with
  | zero => rfl
  | succ n ih => simp [writeLoop, ih]

theorem rd_writeLoop (m : Array Nat) (off : Nat) (f : Nat → Nat) (n j : Nat) :
    rd (writeLoop m off f n) j = if off ≤ j ∧ j < off + n ∧ j < m.size then f (j - off) else rd m j := by
  induction n with
  | zero => simp [writeLoop]; omega
  | succ n ih =>
    simp only [writeLoop, rd_set, size_writeLoop, ih]
    by_cases h1 : j = off + n
    · subst h1
      by_cases h2 : off + n < m.size
      · simp [h2]
      · simp [h2]
    · have e1 : (off ≤ j ∧ j < off + (n + 1) ∧ j < m.size) ↔ (off ≤ j ∧ j < off + n ∧ j < m.size) := by omega
      simp [h1, e1]

theorem foldl_range'_eq_writeLoop (m : Array Nat) (off : Nat) (f : Nat → Nat) (n : Nat) :
    List.foldl (fun b a => b.setIfInBounds (off + a) (f a)) m (List.range' 0 n) = writeLoop m off f n := by
  induction n with
  | zero => rfl
  | succ n ih => rw [List.range'_1_concat, List.foldl_append, ih]; simp [writeLoop]

/-- the model's `for` loop is `writeLoop` -/
theorem forLoop_eq (m : Array Nat) (off : Nat) (words : Array Nat) :
    (Id.run do
        let mut m := m
        for h : i in [0:words.size] do
          m := m.setIfInBounds (off + i) (words[i] % 65536)
        return m) = writeLoop m off (fun i => rd words i % 65536) words.size := by
  simp only [getElem_eq_rd]
  simp
  exact foldl_range'_eq_writeLoop m off _ _

/-! ### `mapM` / `map` over `Array.range` -/

theorem mapM_range_ok {β} (n : Nat) (f : Nat → M β) (g : Nat → β) (h : ∀ i, i < n → f i = .ok (g i)) :
    (Array.range n).mapM f = .ok ((Array.range n).map g) := by
  induction n with
  | zero =>
    have : Array.range 0 = #[] := by decide
    rw [this]; simp; rfl
  | succ n ih =>
    have := ih (fun i hi => h i (by omega))
    rw [Array.range_succ, Array.mapM_append, this]
    simp [h n (by omega)]
    rfl

theorem map_range_congr {β} (n : Nat) (f g : Nat → β) (h : ∀ i, i < n → f i = g i) :
    (Array.range n).map f = (Array.range n).map g := by
  apply Array.ext
  · simp
  · intro i h1 h2
    simp at h1
    simp [h i h1]

theorem map_range_const {β} (n : Nat) (v : β) : (Array.range n).map (fun _ => v) = Array.replicate n v := by
  apply Array.ext
  · simp
  · intro i h1 h2
    simp

/-! ### closed forms of the BRAM writers -/

theorem ctlWrite_main (s : State) (addr data : Nat) (h : addr < 256) :
    ctlWrite s addr data = .ok { s with ctl := s.ctl.setIfInBounds addr (data % 65536) } := by
  unfold ctlWrite
  have h1 : addr % 16384 = addr := Nat.mod_eq_of_lt (by omega)
  have h2 : addr / 256 = 0 := by omega
  simp [h1, h2]

theorem ctlWrite_pc (s : State) (addr data : Nat) (h1 : 256 ≤ addr) (h2 : addr < 256 + s.phaseCorr.size) (h3 : addr < 512):
    ctlWrite s addr data = .ok { s with phaseCorr := s.phaseCorr.setIfInBounds (addr - 256) (data % 65536) } := by
  unfold ctlWrite
  have e1 : addr % 16384 = addr := Nat.mod_eq_of_lt (by omega)
  have e2 : addr / 256 = 1 := by omega
  have e3 : addr % 256 = addr - 256 := by omega
  have e4 : addr - 256 < s.phaseCorr.size := by omega
  simp [e1, e2, e3, e4]

/-- recursive form of `ctlWriteWords` -/
def ctlWriteLoop (s : State) (base : Nat) (words : Array Nat) : Nat → M State
  | 0 => .ok s
  | n+1 => do let s ← ctlWriteLoop s base words n; ctlWrite s (base + n) (rd words n)

theorem foldlM_eq_ctlWriteLoop (s : State) (base : Nat) (words : Array Nat) (n : Nat) :
    List.foldlM (fun b a => ctlWrite b (base + a) (rd words a)) s (List.range' 0 n) =
      ctlWriteLoop s base words n := by
  induction n with
  | zero => rfl
  | succ n ih => rw [List.range'_1_concat, List.foldlM_append, ih]; simp [ctlWriteLoop]

theorem ctlWriteWords_eq (s : State) (base : Nat) (words : Array Nat) :
    ctlWriteWords s base words = ctlWriteLoop s base words words.size := by
  unfold ctlWriteWords
  simp only [getElem_eq_rd]
  simp
  exact foldlM_eq_ctlWriteLoop s base words words.size

theorem ctlWriteLoop_main (s : State) (base : Nat) (words : Array Nat) (n : Nat) (h : base + n ≤ 256) :
    ctlWriteLoop s base words n =
      .ok { s with ctl := writeLoop s.ctl base (fun i => rd words i % 65536) n } := by
  induction n with
  | zero => rfl
  | succ n ih =>
    simp only [ctlWriteLoop, ih (by omega)]
    show ctlWrite _ _ _ = _
    rw [ctlWrite_main _ _ _ (by omega)]
    rfl

theorem ctlWriteLoop_pc (s : State) (words : Array Nat) (n : Nat) (h : n ≤ s.phaseCorr.size) (h2 : n ≤ 256) :
    ctlWriteLoop s 256 words n =
      .ok { s with phaseCorr := writeLoop s.phaseCorr 0 (fun i => rd words i % 65536) n } := by
  induction n with
  | zero => rfl
  | succ n ih =>
    simp only [ctlWriteLoop, ih (by omega) (by omega)]
    show ctlWrite _ _ _ = _
    rw [ctlWrite_pc _ _ _ (by omega) (by simp; omega) (by omega)]
    simp [writeLoop]

theorem ctlWriteWords_main (s : State) (base : Nat) (words : Array Nat) (h : base + words.size ≤ 256) :
    ctlWriteWords s base words =
      .ok { s with ctl := writeLoop s.ctl base (fun i => rd words i % 65536) words.size } := by
  rw [ctlWriteWords_eq, ctlWriteLoop_main _ _ _ _ h]

theorem ctlWriteWords_pc (s : State) (words : Array Nat) (h : words.size ≤ s.phaseCorr.size) (h2 : words.size ≤ 256) :
    ctlWriteWords s 256 words =
      .ok { s with phaseCorr := writeLoop s.phaseCorr 0 (fun i => rd words i % 65536) words.size } := by
  rw [ctlWriteWords_eq, ctlWriteLoop_pc _ _ _ h h2]

theorem pweWriteWords_eq (s : State) (base : Nat) (words : Array Nat) :
    pweWriteWords s base words =
      if base % 16384 + words.size > s.pwe.size then .error (.index "duty_table_bram")
      else .ok { s with pwe := writeLoop s.pwe (base % 16384) (fun i => rd words i % 65536) words.size } := by
  unfold pweWriteWords
  simp only [getElem_eq_rd]
  simp [foldl_range'_eq_writeLoop]

theorem modWriteWords_eq (s : State) (base : Nat) (words : Array Nat) :
    modWriteWords s base words =
      if words.size = 0 then .ok s else
      if reg s ADDR_MOD_MEM_WR_SEGMENT > 1 then .error (.unreachable "Memory::write: mod wr segment")
      else if base % 16384 + words.size > 16384 then .error (.unreachable "bram_cpy leaves the modulation select")
      else if reg s ADDR_MOD_MEM_WR_PAGE * 16384 + base % 16384 + words.size > 32768 then .error (.index "modulation_bram")
      else if reg s ADDR_MOD_MEM_WR_SEGMENT = 0 then
        .ok { s with modMem0 := writeLoop s.modMem0 (reg s ADDR_MOD_MEM_WR_PAGE * 16384 + base % 16384) (fun i => rd words i % 65536) words.size }
      else
        .ok { s with modMem1 := writeLoop s.modMem1 (reg s ADDR_MOD_MEM_WR_PAGE * 16384 + base % 16384) (fun i => rd words i % 65536) words.size } := by
  unfold modWriteWords
  simp only [getElem_eq_rd]
  simp [foldl_range'_eq_writeLoop]

theorem stmWriteWords_eq (s : State) (base : Nat) (words : Array Nat) :
    stmWriteWords s base words =
      if words.size = 0 then .ok s else
      if reg s ADDR_STM_MEM_WR_SEGMENT > 1 then .error (.unreachable "Memory::write: stm wr segment")
      else if base % 16384 + words.size > 16384 then .error (.unreachable "bram_cpy leaves the STM select")
      else if reg s ADDR_STM_MEM_WR_PAGE * 16384 + base % 16384 + words.size > 262144 then .error (.index "stm_bram")
      else if reg s ADDR_STM_MEM_WR_SEGMENT = 0 then
        .ok { s with stmMem0 := writeLoop s.stmMem0 (reg s ADDR_STM_MEM_WR_PAGE * 16384 + base % 16384) (fun i => rd words i % 65536) words.size }
      else
        .ok { s with stmMem1 := writeLoop s.stmMem1 (reg s ADDR_STM_MEM_WR_PAGE * 16384 + base % 16384) (fun i => rd words i % 65536) words.size } := by
  unfold stmWriteWords
  simp only [getElem_eq_rd]
  simp [foldl_range'_eq_writeLoop]


theorem writeLoop_zero (m : Array Nat) (off : Nat) (f : Nat → Nat) : writeLoop m off f 0 = m := rfl

/-- `modWriteWords` when the write-segment / write-page registers are known -/
theorem modWriteWords_at (s : State) (base : Nat) (ws : Array Nat) (g p : Nat)
    (hg : reg s ADDR_MOD_MEM_WR_SEGMENT = g) (hp : reg s ADDR_MOD_MEM_WR_PAGE = p) (hg1 : g ≤ 1)
    (h1 : base % 16384 + ws.size ≤ 16384) (h2 : p * 16384 + base % 16384 + ws.size ≤ 32768) :
    modWriteWords s base ws =
      .ok { s with modMem0 := if g = 0 then writeLoop s.modMem0 (p * 16384 + base % 16384) (fun i => rd ws i % 65536) ws.size
                              else s.modMem0,
                   modMem1 := if g = 0 then s.modMem1
                              else writeLoop s.modMem1 (p * 16384 + base % 16384) (fun i => rd ws i % 65536) ws.size } := by
  rw [modWriteWords_eq, hg, hp]
  by_cases h0 : ws.size = 0
  · simp only [h0, if_true, writeLoop_zero]
    split <;> rfl
  · have e1 : ¬ (g > 1) := by omega
    have e2 : ¬ (base % 16384 + ws.size > 16384) := by omega
    have e3 : ¬ (p * 16384 + base % 16384 + ws.size > 32768) := by omega
    simp only [h0, e1, e2, e3, if_false]
    split <;> rfl

theorem stmWriteWords_at (s : State) (base : Nat) (ws : Array Nat) (g p : Nat)
    (hg : reg s ADDR_STM_MEM_WR_SEGMENT = g) (hp : reg s ADDR_STM_MEM_WR_PAGE = p) (hg1 : g ≤ 1)
    (h1 : base % 16384 + ws.size ≤ 16384) (h2 : p * 16384 + base % 16384 + ws.size ≤ 262144) :
    stmWriteWords s base ws =
      .ok { s with stmMem0 := if g = 0 then writeLoop s.stmMem0 (p * 16384 + base % 16384) (fun i => rd ws i % 65536) ws.size
                              else s.stmMem0,
                   stmMem1 := if g = 0 then s.stmMem1
                              else writeLoop s.stmMem1 (p * 16384 + base % 16384) (fun i => rd ws i % 65536) ws.size } := by
  rw [stmWriteWords_eq, hg, hp]
  by_cases h0 : ws.size = 0
  · simp only [h0, if_true, writeLoop_zero]
    split <;> rfl
  · have e1 : ¬ (g > 1) := by omega
    have e2 : ¬ (base % 16384 + ws.size > 16384) := by omega
    have e3 : ¬ (p * 16384 + base % 16384 + ws.size > 262144) := by omega
    simp only [h0, e1, e2, e3, if_false]
    split <;> rfl

/- from here on `writeLoop` is only used through `rd_writeLoop` / `size_writeLoop` -/
attribute [irreducible] writeLoop

end Autd3.P02
