import Autd3.Lemmas.RtGstm1
/-!
GainSTM, part 2: one pattern (`gainStmWritePattern`) and a list of patterns of one frame in closed form.
-/
set_option linter.unusedSimpArgs false
open Autd3 Autd3.Fw Autd3.Wire Autd3.Gen.Cpu Autd3.Gen
namespace Autd3.Rt

def setStmCyc (s : State) (g v : Nat) : State := { s with stmCycle := setSel s.stmCycle g v }
@[simp] theorem setStmCyc_ack (s : State) (g v : Nat) : (setStmCyc s g v).ack = s.ack := rfl
@[simp] theorem setStmCyc_lastMsgId (s : State) (g v : Nat) : (setStmCyc s g v).lastMsgId = s.lastMsgId := rfl
@[simp] theorem setStmCyc_rxData (s : State) (g v : Nat) : (setStmCyc s g v).rxData = s.rxData := rfl
@[simp] theorem setStmCyc_readsFpgaState (s : State) (g v : Nat) : (setStmCyc s g v).readsFpgaState = s.readsFpgaState := rfl
@[simp] theorem setStmCyc_readsStore (s : State) (g v : Nat) : (setStmCyc s g v).readsStore = s.readsStore := rfl
@[simp] theorem setStmCyc_isRxDataUsed (s : State) (g v : Nat) : (setStmCyc s g v).isRxDataUsed = s.isRxDataUsed := rfl
@[simp] theorem setStmCyc_synchronized (s : State) (g v : Nat) : (setStmCyc s g v).synchronized = s.synchronized := rfl
@[simp] theorem setStmCyc_modCycle (s : State) (g v : Nat) : (setStmCyc s g v).modCycle = s.modCycle := rfl
@[simp] theorem setStmCyc_stmWrite (s : State) (g v : Nat) : (setStmCyc s g v).stmWrite = s.stmWrite := rfl
@[simp] theorem setStmCyc_stmMode (s : State) (g v : Nat) : (setStmCyc s g v).stmMode = s.stmMode := rfl
@[simp] theorem setStmCyc_stmRep (s : State) (g v : Nat) : (setStmCyc s g v).stmRep = s.stmRep := rfl
@[simp] theorem setStmCyc_stmDiv (s : State) (g v : Nat) : (setStmCyc s g v).stmDiv = s.stmDiv := rfl
@[simp] theorem setStmCyc_modDiv (s : State) (g v : Nat) : (setStmCyc s g v).modDiv = s.modDiv := rfl
@[simp] theorem setStmCyc_modRep (s : State) (g v : Nat) : (setStmCyc s g v).modRep = s.modRep := rfl
@[simp] theorem setStmCyc_stmSegment (s : State) (g v : Nat) : (setStmCyc s g v).stmSegment = s.stmSegment := rfl
@[simp] theorem setStmCyc_modSegment (s : State) (g v : Nat) : (setStmCyc s g v).modSegment = s.modSegment := rfl
@[simp] theorem setStmCyc_stmTrMode (s : State) (g v : Nat) : (setStmCyc s g v).stmTrMode = s.stmTrMode := rfl
@[simp] theorem setStmCyc_stmTrValue (s : State) (g v : Nat) : (setStmCyc s g v).stmTrValue = s.stmTrValue := rfl
@[simp] theorem setStmCyc_modTrMode (s : State) (g v : Nat) : (setStmCyc s g v).modTrMode = s.modTrMode := rfl
@[simp] theorem setStmCyc_modTrValue (s : State) (g v : Nat) : (setStmCyc s g v).modTrValue = s.modTrValue := rfl
@[simp] theorem setStmCyc_gainStmMode (s : State) (g v : Nat) : (setStmCyc s g v).gainStmMode = s.gainStmMode := rfl
@[simp] theorem setStmCyc_numFoci (s : State) (g v : Nat) : (setStmCyc s g v).numFoci = s.numFoci := rfl
@[simp] theorem setStmCyc_strict (s : State) (g v : Nat) : (setStmCyc s g v).strict = s.strict := rfl
@[simp] theorem setStmCyc_minDivI (s : State) (g v : Nat) : (setStmCyc s g v).minDivI = s.minDivI := rfl
@[simp] theorem setStmCyc_minDivP (s : State) (g v : Nat) : (setStmCyc s g v).minDivP = s.minDivP := rfl
@[simp] theorem setStmCyc_flagsInternal (s : State) (g v : Nat) : (setStmCyc s g v).flagsInternal = s.flagsInternal := rfl
@[simp] theorem setStmCyc_portA (s : State) (g v : Nat) : (setStmCyc s g v).portA = s.portA := rfl
@[simp] theorem setStmCyc_dcSysTime (s : State) (g v : Nat) : (setStmCyc s g v).dcSysTime = s.dcSysTime := rfl
@[simp] theorem setStmCyc_numTr (s : State) (g v : Nat) : (setStmCyc s g v).numTr = s.numTr := rfl
@[simp] theorem setStmCyc_ctl (s : State) (g v : Nat) : (setStmCyc s g v).ctl = s.ctl := rfl
@[simp] theorem setStmCyc_phaseCorr (s : State) (g v : Nat) : (setStmCyc s g v).phaseCorr = s.phaseCorr := rfl
@[simp] theorem setStmCyc_pwe (s : State) (g v : Nat) : (setStmCyc s g v).pwe = s.pwe := rfl
@[simp] theorem setStmCyc_modMem0 (s : State) (g v : Nat) : (setStmCyc s g v).modMem0 = s.modMem0 := rfl
@[simp] theorem setStmCyc_modMem1 (s : State) (g v : Nat) : (setStmCyc s g v).modMem1 = s.modMem1 := rfl
@[simp] theorem setStmCyc_stmMem0 (s : State) (g v : Nat) : (setStmCyc s g v).stmMem0 = s.stmMem0 := rfl
@[simp] theorem setStmCyc_stmMem1 (s : State) (g v : Nat) : (setStmCyc s g v).stmMem1 = s.stmMem1 := rfl
@[simp] theorem setStmCyc_modSwap (s : State) (g v : Nat) : (setStmCyc s g v).modSwap = s.modSwap := rfl
@[simp] theorem setStmCyc_stmSwap (s : State) (g v : Nat) : (setStmCyc s g v).stmSwap = s.stmSwap := rfl
@[simp] theorem setStmCyc_stmCycle (s : State) (g v : Nat) : (setStmCyc s g v).stmCycle = setSel s.stmCycle g v := rfl
@[simp] theorem reg_setStmCyc (s : State) (g v a : Nat) : reg (setStmCyc s g v) a = reg s a := rfl
theorem stmMem_setStmCyc (s : State) (g v h : Nat) : Obs.stmMem (setStmCyc s g v) h = Obs.stmMem s h := rfl

def eraseG (s : State) : State :=
  { s with ctl := #[], stmMem0 := #[], stmMem1 := #[], stmCycle := (0, 0), stmMode := (0, 0) }
/-- `s'` differs from `s` at most in `ctl`, the STM memories, and the CPU's `stmCycle`/`stmMode` copies -/
def GFrame (s s' : State) : Prop := eraseG s' = eraseG s
theorem GFrame.refl (s : State) : GFrame s s := rfl
theorem GFrame.trans {a b c : State} (h1 : GFrame a b) (h2 : GFrame b c) : GFrame a c := by
  unfold GFrame at *; rw [h2, h1]
theorem GFrame_wr (s : State) (a v : Nat) : GFrame s (wr s a v) := rfl
theorem GFrame_setStmCyc (s : State) (g v : Nat) : GFrame s (setStmCyc s g v) := rfl
theorem GFrame_setStmMem (s : State) (g : Nat) (m : Array Nat) : GFrame s (setStmMem s g m) := by
  unfold setStmMem; split <;> rfl
theorem GFrame.ack {s s' : State} (h : GFrame s s') : s'.ack = s.ack :=
  show (eraseG s').ack = (eraseG s).ack from congrArg State.ack h
theorem GFrame.lastMsgId {s s' : State} (h : GFrame s s') : s'.lastMsgId = s.lastMsgId :=
  show (eraseG s').lastMsgId = (eraseG s).lastMsgId from congrArg State.lastMsgId h
theorem GFrame.rxData {s s' : State} (h : GFrame s s') : s'.rxData = s.rxData :=
  show (eraseG s').rxData = (eraseG s).rxData from congrArg State.rxData h
theorem GFrame.readsFpgaState {s s' : State} (h : GFrame s s') : s'.readsFpgaState = s.readsFpgaState :=
  show (eraseG s').readsFpgaState = (eraseG s).readsFpgaState from congrArg State.readsFpgaState h
theorem GFrame.readsStore {s s' : State} (h : GFrame s s') : s'.readsStore = s.readsStore :=
  show (eraseG s').readsStore = (eraseG s).readsStore from congrArg State.readsStore h
theorem GFrame.isRxDataUsed {s s' : State} (h : GFrame s s') : s'.isRxDataUsed = s.isRxDataUsed :=
  show (eraseG s').isRxDataUsed = (eraseG s).isRxDataUsed from congrArg State.isRxDataUsed h
theorem GFrame.synchronized {s s' : State} (h : GFrame s s') : s'.synchronized = s.synchronized :=
  show (eraseG s').synchronized = (eraseG s).synchronized from congrArg State.synchronized h
theorem GFrame.modCycle {s s' : State} (h : GFrame s s') : s'.modCycle = s.modCycle :=
  show (eraseG s').modCycle = (eraseG s).modCycle from congrArg State.modCycle h
theorem GFrame.stmWrite {s s' : State} (h : GFrame s s') : s'.stmWrite = s.stmWrite :=
  show (eraseG s').stmWrite = (eraseG s).stmWrite from congrArg State.stmWrite h
theorem GFrame.stmRep {s s' : State} (h : GFrame s s') : s'.stmRep = s.stmRep :=
  show (eraseG s').stmRep = (eraseG s).stmRep from congrArg State.stmRep h
theorem GFrame.stmDiv {s s' : State} (h : GFrame s s') : s'.stmDiv = s.stmDiv :=
  show (eraseG s').stmDiv = (eraseG s).stmDiv from congrArg State.stmDiv h
theorem GFrame.modDiv {s s' : State} (h : GFrame s s') : s'.modDiv = s.modDiv :=
  show (eraseG s').modDiv = (eraseG s).modDiv from congrArg State.modDiv h
theorem GFrame.modRep {s s' : State} (h : GFrame s s') : s'.modRep = s.modRep :=
  show (eraseG s').modRep = (eraseG s).modRep from congrArg State.modRep h
theorem GFrame.stmSegment {s s' : State} (h : GFrame s s') : s'.stmSegment = s.stmSegment :=
  show (eraseG s').stmSegment = (eraseG s).stmSegment from congrArg State.stmSegment h
theorem GFrame.modSegment {s s' : State} (h : GFrame s s') : s'.modSegment = s.modSegment :=
  show (eraseG s').modSegment = (eraseG s).modSegment from congrArg State.modSegment h
theorem GFrame.stmTrMode {s s' : State} (h : GFrame s s') : s'.stmTrMode = s.stmTrMode :=
  show (eraseG s').stmTrMode = (eraseG s).stmTrMode from congrArg State.stmTrMode h
theorem GFrame.stmTrValue {s s' : State} (h : GFrame s s') : s'.stmTrValue = s.stmTrValue :=
  show (eraseG s').stmTrValue = (eraseG s).stmTrValue from congrArg State.stmTrValue h
theorem GFrame.modTrMode {s s' : State} (h : GFrame s s') : s'.modTrMode = s.modTrMode :=
  show (eraseG s').modTrMode = (eraseG s).modTrMode from congrArg State.modTrMode h
theorem GFrame.modTrValue {s s' : State} (h : GFrame s s') : s'.modTrValue = s.modTrValue :=
  show (eraseG s').modTrValue = (eraseG s).modTrValue from congrArg State.modTrValue h
theorem GFrame.gainStmMode {s s' : State} (h : GFrame s s') : s'.gainStmMode = s.gainStmMode :=
  show (eraseG s').gainStmMode = (eraseG s).gainStmMode from congrArg State.gainStmMode h
theorem GFrame.numFoci {s s' : State} (h : GFrame s s') : s'.numFoci = s.numFoci :=
  show (eraseG s').numFoci = (eraseG s).numFoci from congrArg State.numFoci h
theorem GFrame.strict {s s' : State} (h : GFrame s s') : s'.strict = s.strict :=
  show (eraseG s').strict = (eraseG s).strict from congrArg State.strict h
theorem GFrame.minDivI {s s' : State} (h : GFrame s s') : s'.minDivI = s.minDivI :=
  show (eraseG s').minDivI = (eraseG s).minDivI from congrArg State.minDivI h
theorem GFrame.minDivP {s s' : State} (h : GFrame s s') : s'.minDivP = s.minDivP :=
  show (eraseG s').minDivP = (eraseG s).minDivP from congrArg State.minDivP h
theorem GFrame.flagsInternal {s s' : State} (h : GFrame s s') : s'.flagsInternal = s.flagsInternal :=
  show (eraseG s').flagsInternal = (eraseG s).flagsInternal from congrArg State.flagsInternal h
theorem GFrame.portA {s s' : State} (h : GFrame s s') : s'.portA = s.portA :=
  show (eraseG s').portA = (eraseG s).portA from congrArg State.portA h
theorem GFrame.dcSysTime {s s' : State} (h : GFrame s s') : s'.dcSysTime = s.dcSysTime :=
  show (eraseG s').dcSysTime = (eraseG s).dcSysTime from congrArg State.dcSysTime h
theorem GFrame.numTr {s s' : State} (h : GFrame s s') : s'.numTr = s.numTr :=
  show (eraseG s').numTr = (eraseG s).numTr from congrArg State.numTr h
theorem GFrame.phaseCorr {s s' : State} (h : GFrame s s') : s'.phaseCorr = s.phaseCorr :=
  show (eraseG s').phaseCorr = (eraseG s).phaseCorr from congrArg State.phaseCorr h
theorem GFrame.pwe {s s' : State} (h : GFrame s s') : s'.pwe = s.pwe :=
  show (eraseG s').pwe = (eraseG s).pwe from congrArg State.pwe h
theorem GFrame.modMem0 {s s' : State} (h : GFrame s s') : s'.modMem0 = s.modMem0 :=
  show (eraseG s').modMem0 = (eraseG s).modMem0 from congrArg State.modMem0 h
theorem GFrame.modMem1 {s s' : State} (h : GFrame s s') : s'.modMem1 = s.modMem1 :=
  show (eraseG s').modMem1 = (eraseG s).modMem1 from congrArg State.modMem1 h
theorem GFrame.modSwap {s s' : State} (h : GFrame s s') : s'.modSwap = s.modSwap :=
  show (eraseG s').modSwap = (eraseG s).modSwap from congrArg State.modSwap h
theorem GFrame.stmSwap {s s' : State} (h : GFrame s s') : s'.stmSwap = s.stmSwap :=
  show (eraseG s').stmSwap = (eraseG s).stmSwap from congrArg State.stmSwap h

theorem gainStmWritePattern_eq (s : State) (seg srcOff : Nat) (d : Array Nat) (f : Nat → Nat) :
    gainStmWritePattern s seg srcOff d f =
      stmWriteWords s ((((sel s.stmCycle seg) % 65536 &&& GAIN_STM_BUF_PAGE_SIZE_MASK) <<< 8) % 65536)
        ((wordsAt d srcOff s.numTr).map f) >>= fun s1 => .ok (setStmCyc s1 seg (sel s1.stmCycle seg + 1)) := rfl

theorem and_mask6 (x : Nat) : x &&& GAIN_STM_BUF_PAGE_SIZE_MASK = x % 64 := by
  rw [show GAIN_STM_BUF_PAGE_SIZE_MASK = 2 ^ 6 - 1 from rfl, Nat.and_two_pow_sub_one_eq_mod]

/-- one gain pattern: row `c` of the segment := `f` of the frame's words -/
structure GstmRow (s s' : State) (seg c : Nat) (f : Nat → Nat) (d : Array Nat) (off : Nat) : Prop where
  cyc : sel s'.stmCycle seg = c + 1
  cycOther : sel s'.stmCycle (1 - seg) = sel s.stmCycle (1 - seg)
  row : ∀ i, i < s.numTr → rd (Obs.stmMem s' seg) (256 * c + i) = f (u16at d (off + 2 * i)) % 65536
  rest : ∀ j, ¬(256 * c ≤ j ∧ j < 256 * c + s.numTr) → rd (Obs.stmMem s' seg) j = rd (Obs.stmMem s seg) j
  other : ∀ g, (g = 0) ≠ (seg = 0) → Obs.stmMem s' g = Obs.stmMem s g
  regs : ∀ a, reg s' a = reg s a
  frame : GFrame s s'
  mode : s'.stmMode = s.stmMode
  wf : WF s'

theorem gainStmWritePattern_ok (s : State) (hW : WF s) (seg srcOff c : Nat) (d : Array Nat) (f : Nat → Nat)
    (hseg : seg ≤ 1) (hc : sel s.stmCycle seg = c) (hc3 : c < 1024)
    (hsr : reg s ADDR_STM_MEM_WR_SEGMENT = seg) (hpage : reg s ADDR_STM_MEM_WR_PAGE = c / 64) :
    ∃ s', gainStmWritePattern s seg srcOff d f = .ok s' ∧ GstmRow s s' seg c f d srcOff := by
  rw [gainStmWritePattern_eq, hc, show c % 65536 = c from Nat.mod_eq_of_lt (by omega), and_mask6, Nat.shiftLeft_eq]
  have hnt := hW.numTr
  have hb1 : c % 64 * 2 ^ 8 % 65536 % 16384 = c % 64 * 256 := by omega
  have hsz : ((wordsAt d srcOff s.numTr).map f).size = s.numTr := by simp
  rw [stmWriteWords_eq _ _ _ (by rw [hsr]; exact hseg) (by rw [hb1, hsz]; omega) (by rw [hpage, hb1, hsz]; omega)]
  rw [hsr, hpage, hb1, show c / 64 * 16384 + c % 64 * 256 = 256 * c from by omega, ok_bind, setStmMem_stmCycle, hc]
  refine ⟨_, rfl, ?_⟩
  have hms := stmMem_size hW seg
  have hrdw : ∀ i, i < s.numTr → rd ((wordsAt d srcOff s.numTr).map f) i = f (u16at d (srcOff + 2 * i)) := by
    intro i hi
    rw [rd_of_lt (by rw [hsz]; exact hi)]
    simp [wordsAt]
  refine ⟨by rw [setStmCyc_stmCycle, sel_setSel_same], by rw [setStmCyc_stmCycle, setStmMem_stmCycle, sel_setSel_other _ _ _ hseg],
    ?_, ?_, ?_, ?_, ?_, ?_, ?_⟩
  · intro i hi
    rw [stmMem_setStmCyc, stmMem_setStmMem_same, rd_wrWords, hsz, if_pos (by rw [hms]; omega),
      show 256 * c + i - 256 * c = i from by omega, hrdw i hi]
  · intro j hj
    rw [stmMem_setStmCyc, stmMem_setStmMem_same, rd_wrWords, hsz, if_neg (by omega)]
  · intro g hg
    rw [stmMem_setStmCyc]; exact stmMem_setStmMem_other _ _ _ _ hg
  · intro a; rw [reg_setStmCyc, reg_setStmMem]
  · exact (GFrame_setStmMem _ _ _).trans (GFrame_setStmCyc _ _ _)
  · rw [setStmCyc_stmMode, setStmMem_stmMode]
  · have hW1 : WF (setStmMem s seg (wrWords (Obs.stmMem s seg) (256 * c) ((wordsAt d srcOff s.numTr).map f))) :=
      WF_setStmMem hW _ _ (by rw [size_wrWords]; exact hms)
    exact ⟨hW1.ctl, hW1.phaseCorr, hW1.pwe, hW1.modMem0, hW1.modMem1, hW1.stmMem0, hW1.stmMem1, hW1.numTr, hW1.flags,
      hW1.modSwap, hW1.stmSwap, hW1.modDiv0, hW1.modDiv1, hW1.stmDiv0, hW1.stmDiv1⟩

end Autd3.Rt
