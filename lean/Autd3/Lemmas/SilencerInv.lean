import Autd3.Lemmas.Silencer
/-! Closed forms of the fixed-completion-steps filters after a step change from a settled state
    (used by Props/C09). Core Lean only. -/
set_option linter.unusedSimpArgs false
namespace Autd3.Silencer


def iterI (s : Sil) (t : Nat) : Nat → Sil
  | 0 => s
  | k+1 => ((iterI s t k).applyI t).1

def posI (c0 t v k : Nat) : Int :=
  let D := absDiff t c0 * 256
  let acc := k * (D / v) + min (D % v) (k - 1)
  if c0 < t then (c0 : Int) * 256 + min D acc else (c0 : Int) * 256 - min D acc

theorem iterI_inv (c0 t v dm rm : Nat) (hv : 0 < v) (hne : t ≠ c0) (n : Nat) :
    iterI { current := (c0 : Int) * 256, fixedUpdateRate := false, value := v,
            currentTarget := c0, diffMem := dm, stepRemMem := rm } t (n + 1) =
      { current := posI c0 t v (n + 1), fixedUpdateRate := false, value := v,
        currentTarget := t, diffMem := absDiff t c0,
        stepRemMem := (absDiff t c0 * 256) % v - min ((absDiff t c0 * 256) % v) n } := by
  induction n with
  | zero =>
    have hd : absDiff t c0 ≠ 0 := by unfold absDiff; split <;> omega
    simp only [iterI, Sil.applyI, Sil.updateRateI, Sil.rateOfDiff, posI]
    simp [hd]
    generalize hq : absDiff t c0 * 256 / v = q
    unfold absDiff at *
    rcases Nat.lt_or_gt_of_ne hne with h | h
    · have h1 : ¬ c0 < t := by omega
      simp only [h, h1, if_true, if_false] at *
      rw [moveBy_down _ _ _ (by omega)]; omega
    · have h1 : ¬ t < c0 := by omega
      simp only [h, h1, if_true, if_false] at *
      rw [moveBy_up _ _ _ (by omega)]; omega
  | succ n ih =>
    have hd : absDiff t c0 ≠ 0 := by unfold absDiff; split <;> omega
    rw [iterI, ih]
    simp only [Sil.applyI, Sil.updateRateI, Sil.rateOfDiff, posI]
    have h0 : absDiff t t = 0 := by unfold absDiff; simp
    simp [h0, hd]
    have hmul : (n + 1 + 1) * (absDiff t c0 * 256 / v) = (n + 1) * (absDiff t c0 * 256 / v) + absDiff t c0 * 256 / v := by
      rw [Nat.succ_mul]
    rw [hmul]
    generalize hq : absDiff t c0 * 256 / v = q
    generalize hnq : (n + 1) * q = nq
    have hr : absDiff t c0 * 256 % v < v := Nat.mod_lt _ hv
    generalize hrr : absDiff t c0 * 256 % v = r at *
    unfold absDiff at *
    rcases Nat.lt_or_gt_of_ne hne with h | h
    · have h1 : ¬ c0 < t := by omega
      simp only [h, h1, if_true, if_false] at *
      split
      · simp; rw [moveBy_down _ _ _ (by omega)]; omega
      · simp; constructor
        · rw [moveBy_down _ _ _ (by omega)]; omega
        · omega
    · have h1 : ¬ t < c0 := by omega
      simp only [h, h1, if_true, if_false] at *
      split
      · simp; rw [moveBy_up _ _ _ (by omega)]; omega
      · simp; constructor
        · rw [moveBy_up _ _ _ (by omega)]; omega
        · omega



def iterP (s : Sil) (t : Nat) : Nat → Sil
  | 0 => s
  | k+1 => ((iterP s t k).applyP t).1

/-- circular distance between two phase bytes, `0..128` -/
def circDist (a b : Nat) : Nat :=
  let x := absDiff a b
  if x ≥ 128 then (256 - x) % 256 else x

def posP (c0 t v k : Nat) : Int :=
  let D := circDist t c0 * 256
  let acc := k * (D / v) + min (D % v) (k - 1)
  if 0 ≤ wrapStep ((t : Int) * 256 - (c0 : Int) * 256)
  then ((c0 : Int) * 256 + min D acc) % 65536 else ((c0 : Int) * 256 - min D acc) % 65536

theorem iterP_inv (c0 t v dm rm : Nat) (hv : 0 < v) (hne : t ≠ c0) (hc : c0 < 256) (ht : t < 256) (n : Nat) :
    iterP { current := (c0 : Int) * 256, fixedUpdateRate := false, value := v,
            currentTarget := c0, diffMem := dm, stepRemMem := rm } t (n + 1) =
      { current := posP c0 t v (n + 1), fixedUpdateRate := false, value := v,
        currentTarget := t, diffMem := circDist t c0,
        stepRemMem := (circDist t c0 * 256) % v - min ((circDist t c0 * 256) % v) n } := by
  have hd : circDist t c0 ≠ 0 := by unfold circDist absDiff; simp only []; split <;> split <;> omega
  have hD : (circDist t c0 : Int) * 256 = wrapStep ((t : Int) * 256 - (c0 : Int) * 256) ∨
            -((circDist t c0 : Int) * 256) = wrapStep ((t : Int) * 256 - (c0 : Int) * 256) := by
    unfold circDist absDiff wrapStep; simp only []; split <;> split <;> split <;> split <;> omega
  have hcd : circDist t c0 ≤ 128 := by unfold circDist absDiff; simp only []; split <;> split <;> omega
  induction n with
  | zero =>
    simp only [iterP, Sil.applyP, Sil.updateRateP, Sil.rateOfDiff, posP]
    have : (if absDiff t c0 ≥ 128 then (256 - absDiff t c0) % 256 else absDiff t c0) = circDist t c0 := rfl
    simp [this, hd]
    generalize hq : circDist t c0 * 256 / v = q
    generalize hw : wrapStep ((t : Int) * 256 - (c0 : Int) * 256) = w at *
    generalize hdd : circDist t c0 = d at *
    split
    · rw [show w = (c0 * 256 + w) - c0 * 256 by omega, moveBy_up _ _ _ (by omega)]; omega
    · rw [show w = (c0 * 256 + w) - c0 * 256 by omega, moveBy_down _ _ _ (by omega)]; omega
  | succ n ih =>
    rw [iterP, ih]
    simp only [Sil.applyP, Sil.updateRateP, Sil.rateOfDiff, posP]
    have h0 : absDiff t t = 0 := by unfold absDiff; simp
    simp [h0]
    have hmul : (n + 1 + 1) * (circDist t c0 * 256 / v) = (n + 1) * (circDist t c0 * 256 / v) + circDist t c0 * 256 / v := by
      rw [Nat.succ_mul]
    rw [hmul]
    generalize hq : circDist t c0 * 256 / v = q
    generalize hnq : (n + 1) * q = nq
    have hr : circDist t c0 * 256 % v < v := Nat.mod_lt _ hv
    generalize hrr : circDist t c0 * 256 % v = r at *
    generalize hw : wrapStep ((t : Int) * 256 - (c0 : Int) * 256) = w at *
    generalize hdd : circDist t c0 = d at *
    have hwr := wrapStep_range ((t : Int) * 256 - (c0 : Int) * 256) (by omega)
    rw [hw] at hwr
    have hcc : (0:Int) ≤ (c0:Int) * 256 ∧ (c0:Int) * 256 < 65536 := by omega
    have htt : (0:Int) ≤ (t:Int) * 256 ∧ (t:Int) * 256 < 65536 := by omega
    by_cases hw0 : 0 ≤ w
    · simp only [hw0, if_true]
      have hwD : wrapStep ((t:Int) * 256 - (c0:Int) * 256) = ((d * 256 : Nat) : Int) := by rw [hw]; omega
      have key := fun m rate hm => phase_step_up ((c0:Int) * 256) ((t:Int) * 256) (d * 256) m rate hcc htt hm hwD
      split <;> simp <;> (try constructor) <;> (try omega)
      all_goals (rw [key _ _ (by omega)]; congr 1; omega)
    · simp only [hw0, if_false]
      have hwD : wrapStep ((t:Int) * 256 - (c0:Int) * 256) = -((d * 256 : Nat) : Int) := by rw [hw]; omega
      have key := fun m rate hm => phase_step_down ((c0:Int) * 256) ((t:Int) * 256) (d * 256) m rate hcc htt hm hwD
      split <;> simp <;> (try constructor) <;> (try omega)
      all_goals (rw [key _ _ (by omega)]; congr 1; omega)

end Autd3.Silencer
