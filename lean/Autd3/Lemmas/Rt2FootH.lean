import Autd3.Lemmas.Rt2Foot
/-!
Footprints, part 2: the four data handlers, for an arbitrary payload.
-/
open Autd3 Autd3.Fw Autd3.Wire Autd3.Gen.Cpu Autd3.Gen
namespace Autd3.Rt

/-- `write_gain`: only STM-side state, never the focus-only registers, whatever the payload -/
theorem writeGain_foot (s : State) (d : Array Nat) (hc : s.ctl.size = 256) (hfi : s.flagsInternal % 256 = 0) :
    Leaves (Foot eraseS TG) s (writeGain s d) := by
  unfold writeGain
  simp only []
  apply Leaves.ite
  · intro _; exact Leaves.error _
  intro hseg
  have hs1 : u8at d FwLayout.Gain_segment_off ≤ 1 := by omega
  generalize u8at d FwLayout.Gain_segment_off = seg at hs1 ⊢
  apply Leaves.ite <;> intro _ <;>
  · cw_stepS; cw_stepS; cw_stepS; cw_stepS; cw_stepS; cw_stepS
    refine Leaves.sw (by foot_tac) ?_; intro _ _
    apply Leaves.ite <;> intro _
    · cw_stepS; cw_stepS
      refine Leaves.sawS hc hfi (by foot_tac) (by addr_tac) ?_; intro _ _
      exact Leaves.pure (by foot_tac)
    · exact Leaves.pure (by foot_tac)

theorem Leaves.lift {er : State → State} {T T' : Nat → Prop} {s0 s1 : State} {m : M (State × Nat)}
    (hTT : ∀ a, T a → T' a) (h1 : Foot er T' s0 s1) (h : Leaves (Foot er T) s1 m) : Leaves (Foot er T') s0 m :=
  fun s' a e => h1.trans ((h s' a e).mono hTT)

/-- `stmSegmentUpdate`: request register, transition registers, strobe -/
theorem stmSegmentUpdate_foot (s : State) (seg mode value : Nat) (hc : s.ctl.size = 256) (hfi : s.flagsInternal % 256 = 0) :
    Leaves (Foot eraseS TG) s (stmSegmentUpdate s seg mode value) := by
  unfold stmSegmentUpdate
  cw_stepS
  apply Leaves.ite <;> intro _
  · exact Leaves.pure (by foot_tac)
  cw_stepS
  refine Leaves.cww ErCtl_S (by foot_tac) (by show ADDR_STM_TRANSITION_VALUE_0 + 4 ≤ 256; decide) ?_ ?_
  · intro a h1 h2
    have : (u64Words value).size = 4 := rfl
    rw [this] at h2
    simp only [TG, ADDR_STM_TRANSITION_VALUE_0] at h1 h2 ⊢; omega
  intro _ _
  refine Leaves.sawS hc hfi (by foot_tac) (by addr_tac) ?_; intro _ _
  exact Leaves.pure (by foot_tac)

theorem Leaves.ssu {T : Nat → Prop} {s0 s1 : State} {seg mode value : Nat} (hc : s0.ctl.size = 256)
    (hfi : s0.flagsInternal % 256 = 0) (hTT : ∀ a, TG a → T a) (h1 : Foot eraseS T s0 s1) :
    Leaves (Foot eraseS T) s0 (stmSegmentUpdate s1 seg mode value) :=
  Leaves.lift hTT h1 (stmSegmentUpdate_foot s1 seg mode value (by rw [h1.ctlsz, hc]) (by rw [h1.flagsS]; exact hfi))

theorem TG_TF (seg a : Nat) (h : TG a) : TF seg a := Or.inl h

/-- copy part and END part of `write_foci_stm` -/
theorem fociTail_foot {s0 s1 : State} (d : Array Nat) (off sn flag seg : Nat) (hc : s0.ctl.size = 256)
    (hfi : s0.flagsInternal % 256 = 0) (h1 : Foot eraseS (TF seg) s0 s1) :
    Leaves (Foot eraseS (TF seg)) s0 (fociDataPart s1 d off sn >>= fun s2 => fociEndPart s2 flag seg) := by
  have endp : ∀ s2, Foot eraseS (TF seg) s0 s2 → Leaves (Foot eraseS (TF seg)) s0 (fociEndPart s2 flag seg) := by
    intro s2 h2
    unfold fociEndPart
    simp only []
    apply Leaves.ite <;> intro _
    · apply Leaves.ite <;> intro hseg
      · exact Leaves.error _
      apply Leaves.ite <;> intro _
      · exact Leaves.error _
      cw_stepS
      apply Leaves.ite <;> intro _
      · exact Leaves.ssu hc hfi (TG_TF seg) (by foot_tac)
      · exact Leaves.pure (by foot_tac)
    · exact Leaves.pure (by foot_tac)
  unfold fociDataPart
  simp only []
  by_cases h0 : sn * s1.numFoci ≥ 65536
  · simp only [h0, if_true, error_bind]; exact Leaves.error _
  by_cases h : sn * s1.numFoci < FOCI_STM_BUF_PAGE_SIZE - (s1.stmWrite % 65536 &&& FOCI_STM_BUF_PAGE_SIZE_MASK)
  · simp only [h0, h, if_true, if_false, bind_assoc, pure_bind]
    refine Leaves.sw (by foot_tac) ?_; intro _ _
    exact endp _ (by foot_tac)
  · simp only [h0, h, if_false, bind_assoc, pure_bind]
    refine Leaves.sw (by foot_tac) ?_; intro _ _
    cw_stepS
    refine Leaves.sw (by foot_tac) ?_; intro _ _
    exact endp _ (by foot_tac)

/-- `write_foci_stm`: only STM-side state; of the focus-only registers only those of the frame's segment -/
theorem writeFociStm_foot (s : State) (d : Array Nat) (hc : s.ctl.size = 256) (hfi : s.flagsInternal % 256 = 0) :
    Leaves (Foot eraseS (TF (u8at d FwLayout.FociSTMSubseq_segment_off))) s (writeFociStm s d) := by
  by_cases hb : hasFlag (u8at d FwLayout.FociSTMSubseq_flag_off) FOCI_STM_FLAG_BEGIN = true
  · by_cases g1 : validateTransitionMode s.stmSegment (u8at d FwLayout.FociSTMSubseq_segment_off)
        (u16at d FwLayout.FociSTMHead_rep_off) (u8at d FwLayout.FociSTMHead_transition_mode_off) = true
    · unfold writeFociStm; simp only [hb, g1, if_true]; exact Leaves.pure (Foot.refl _ _ _)
    by_cases g2 : validateSilencerSettings s (u16at d FwLayout.FociSTMHead_freq_div_off) (sel s.modDiv s.modSegment) = true
    · unfold writeFociStm; simp only [hb, g1, g2, if_true, if_false]; exact Leaves.pure (Foot.refl _ _ _)
    by_cases hseg : u8at d FwLayout.FociSTMSubseq_segment_off > 1
    · unfold writeFociStm; simp only [hb, g1, g2, hseg, if_true, if_false, error_bind]; exact Leaves.error _
    rw [writeFoci_begin s d _ rfl (by omega) hb (by simpa using g1) (by simpa using g2)]
    apply fociTail_foot d _ _ _ _ hc hfi
    unfold fociHead
    have hs1 : u8at d FwLayout.FociSTMSubseq_segment_off ≤ 1 := by omega
    generalize u8at d FwLayout.FociSTMSubseq_segment_off = seg at hs1 ⊢
    generalize u16at d FwLayout.FociSTMHead_rep_off = rep
    generalize u16at d FwLayout.FociSTMHead_freq_div_off = dv
    generalize u8at d FwLayout.FociSTMHead_transition_mode_off = tm
    generalize u64at d FwLayout.FociSTMHead_transition_value_off = tv
    generalize u8at d FwLayout.FociSTMHead_num_foci_off = nf
    generalize u16at d FwLayout.FociSTMHead_sound_speed_off = ss
    have h0 : Foot eraseS (TF seg) s (fociHeadCpu s seg rep dv tm tv nf) := ⟨rfl, rfl, fun _ _ => rfl⟩
    have h1 := Foot.reg1 ErCtl_S h0 (ADDR_STM_FREQ_DIV0 + seg) dv (by addr_tac)
    have h2 := Foot.reg1 ErCtl_S h1 (ADDR_STM_MODE0 + seg) STM_MODE_FOCUS (by addr_tac)
    have h3 := Foot.reg1 ErCtl_S h2 (ADDR_STM_SOUND_SPEED0 + seg) ss (by addr_tac)
    have h4 := Foot.reg1 ErCtl_S h3 (ADDR_STM_REP0 + seg) rep (by addr_tac)
    have h5 := Foot.reg1 ErCtl_S h4 (ADDR_STM_NUM_FOCI0 + seg) nf (by addr_tac)
    have h6 := Foot.reg1 ErCtl_S h5 ADDR_STM_MEM_WR_SEGMENT seg (by addr_tac)
    exact Foot.reg1 ErCtl_S h6 ADDR_STM_MEM_WR_PAGE 0 (by addr_tac)
  · rw [writeFoci_subseq s d (by simpa using hb)]
    exact fociTail_foot d _ _ _ _ hc hfi (Foot.refl _ _ _)

/-! ### GainSTM -/

theorem Leaves.gp {T : Nat → Prop} {s0 s1 : State} {seg off : Nat} {d : Array Nat} {f : Nat → Nat}
    {g : State → M (State × Nat)} (h1 : Foot eraseS T s0 s1)
    (h : ∀ s2, Foot eraseS T s0 s2 → Leaves (Foot eraseS T) s0 (g s2)) :
    Leaves (Foot eraseS T) s0 (gainStmWritePattern s1 seg off d f >>= g) := by
  apply Leaves.bind (fun x => Foot eraseS T s0 x) _ h
  intro x hx
  unfold gainStmWritePattern at hx
  obtain ⟨y, hy, hx⟩ := bind_ok_inv hx
  obtain ⟨m0, m1, e⟩ := stmWriteWords_shape _ _ _ _ hy
  cases hx
  rw [e]
  exact Foot.tweak h1 rfl rfl

/-- walk through a handler block whose registers are all in `TG` -/
macro "walkG " hc:term ", " hfi:term : tactic =>
  `(tactic| repeat' (first
    | exact Leaves.error _
    | exact Leaves.error_bind _ _
    | exact Leaves.pure (by foot_tac)
    | exact Leaves.ok (by foot_tac)
    | exact Leaves.ssu $hc $hfi (fun _ h => h) (by foot_tac)
    | (refine Leaves.cw ErCtl_S (by foot_tac) (by addr_tac) (by addr_tac) ?_; intro _ _)
    | (refine Leaves.sw (by foot_tac) ?_; intro _ _)
    | (refine Leaves.gp (by foot_tac) ?_; intro _ _)
    | (refine Leaves.sawS $hc $hfi (by foot_tac) (by addr_tac) ?_; intro _ _)
    | (apply Leaves.ite <;> intro _)))

theorem gstmTail_foot {s0 s1 : State} (d : Array Nat) (off flag seg : Nat) (hseg : seg ≤ 1) (hc : s0.ctl.size = 256)
    (hfi : s0.flagsInternal % 256 = 0) (h1 : Foot eraseS TG s0 s1) :
    Leaves (Foot eraseS TG) s0 (gstmTail s1 d off flag seg) := by
  unfold gstmTail
  simp only []
  walkG hc, hfi

/-- `write_gain_stm`: only STM-side state, never the focus-only registers -/
theorem writeGainStm_foot (s : State) (d : Array Nat) (hc : s.ctl.size = 256) (hfi : s.flagsInternal % 256 = 0) :
    Leaves (Foot eraseS TG) s (writeGainStm s d) := by
  have hs1 : (if u8at d FwLayout.GainSTMSubseq_flag_off &&& GAIN_STM_FLAG_SEGMENT ≠ 0 then 1 else 0) ≤ 1 := by
    split <;> omega
  by_cases hb : hasFlag (u8at d FwLayout.GainSTMSubseq_flag_off) GAIN_STM_FLAG_BEGIN = true
  · by_cases g1 : validateTransitionMode s.stmSegment
        (if u8at d FwLayout.GainSTMSubseq_flag_off &&& GAIN_STM_FLAG_SEGMENT ≠ 0 then 1 else 0)
        (u16at d FwLayout.GainSTMHead_rep_off) (u8at d FwLayout.GainSTMHead_transition_mode_off) = true
    · unfold writeGainStm; simp only [hb, g1, if_true]; exact Leaves.pure (Foot.tweak (Foot.refl _ _ _) rfl rfl)
    by_cases g2 : validateSilencerSettings s (u16at d FwLayout.GainSTMHead_freq_div_off) (sel s.modDiv s.modSegment) = true
    · have g2' : validateSilencerSettings { s with gainStmMode := u8at d FwLayout.GainSTMHead_mode_off }
          (u16at d FwLayout.GainSTMHead_freq_div_off)
          (sel ({ s with gainStmMode := u8at d FwLayout.GainSTMHead_mode_off } : State).modDiv
            ({ s with gainStmMode := u8at d FwLayout.GainSTMHead_mode_off } : State).modSegment) = true := g2
      unfold writeGainStm; simp only [hb, g1, g2', if_true, if_false]
      exact Leaves.pure (Foot.tweak (Foot.refl _ _ _) rfl rfl)
    rw [writeGainStm_begin s d _ rfl hb (by simpa using g1) (by simpa using g2)]
    generalize (if u8at d FwLayout.GainSTMSubseq_flag_off &&& GAIN_STM_FLAG_SEGMENT ≠ 0 then 1 else 0) = seg at hs1 ⊢
    apply gstmTail_foot d _ _ _ hs1 hc hfi
    unfold gstmHead
    generalize u16at d FwLayout.GainSTMHead_rep_off = rep
    generalize u16at d FwLayout.GainSTMHead_freq_div_off = dv
    generalize u8at d FwLayout.GainSTMHead_transition_mode_off = tm
    generalize u64at d FwLayout.GainSTMHead_transition_value_off = tv
    generalize u8at d FwLayout.GainSTMHead_mode_off = md
    have h0 : Foot eraseS TG s (gstmHeadCpu s seg rep dv tm tv md) := ⟨rfl, rfl, fun _ _ => rfl⟩
    have h1 := Foot.reg1 ErCtl_S h0 (ADDR_STM_FREQ_DIV0 + seg) dv (by addr_tac)
    have h2 := Foot.reg1 ErCtl_S h1 (ADDR_STM_MODE0 + seg) STM_MODE_GAIN (by addr_tac)
    have h4 := Foot.reg1 ErCtl_S h2 (ADDR_STM_REP0 + seg) rep (by addr_tac)
    have h6 := Foot.reg1 ErCtl_S h4 ADDR_STM_MEM_WR_SEGMENT seg (by addr_tac)
    exact Foot.reg1 ErCtl_S h6 ADDR_STM_MEM_WR_PAGE 0 (by addr_tac)
  · rw [writeGainStm_subseq s d (by simpa using hb)]
    exact gstmTail_foot d _ _ _ hs1 hc hfi (Foot.refl _ _ _)

/-! ### Modulation -/

theorem Leaves.sawM {T : Nat → Prop} {s0 : State} {s1 : State} {f : State → M (State × Nat)}
    (hc : s0.ctl.size = 256) (hfi : s0.flagsInternal % 256 = 0) (h1 : Foot eraseM T s0 s1) (hT : T 0)
    (h : ∀ s2, Foot eraseM T s0 s2 → Leaves (Foot eraseM T) s0 (f s2)) :
    Leaves (Foot eraseM T) s0 (setAndWaitUpdate s1 CTL_FLAG_MOD_SET >>= f) :=
  Leaves.bind (fun x => Foot eraseM T s0 x) (fun _ hx => Foot.sawM hc hfi h1 hT hx) h

theorem modSegmentUpdate_foot (s : State) (seg mode value : Nat) (hc : s.ctl.size = 256) (hfi : s.flagsInternal % 256 = 0) :
    Leaves (Foot eraseM TM) s (modSegmentUpdate s seg mode value) := by
  unfold modSegmentUpdate
  cw_stepM
  apply Leaves.ite <;> intro _
  · exact Leaves.pure (by foot_tac)
  cw_stepM
  refine Leaves.cww ErCtl_M (by foot_tac) (by show ADDR_MOD_TRANSITION_VALUE_0 + 4 ≤ 256; decide) ?_ ?_
  · intro a h1 h2
    have : (u64Words value).size = 4 := rfl
    rw [this] at h2
    simp only [TM, ADDR_MOD_TRANSITION_VALUE_0] at h1 h2 ⊢; omega
  intro _ _
  refine Leaves.sawM hc hfi (by foot_tac) (by addr_tac) ?_; intro _ _
  exact Leaves.pure (by foot_tac)

theorem Leaves.msu {s0 s1 : State} {seg mode value : Nat} (hc : s0.ctl.size = 256)
    (hfi : s0.flagsInternal % 256 = 0) (h1 : Foot eraseM TM s0 s1) :
    Leaves (Foot eraseM TM) s0 (modSegmentUpdate s1 seg mode value) :=
  Leaves.lift (fun _ h => h) h1 (modSegmentUpdate_foot s1 seg mode value (by rw [h1.ctlsz, hc]) (by rw [h1.flagsM]; exact hfi))

macro "walkM " hc:term ", " hfi:term : tactic =>
  `(tactic| repeat' (first
    | exact Leaves.error _
    | exact Leaves.error_bind _ _
    | exact Leaves.pure (by foot_tac)
    | exact Leaves.ok (by foot_tac)
    | exact Leaves.msu $hc $hfi (by foot_tac)
    | (refine Leaves.cw ErCtl_M (by foot_tac) (by addr_tac) (by addr_tac) ?_; intro _ _)
    | (refine Leaves.mw (by foot_tac) ?_; intro _ _)
    | (refine Leaves.sawM $hc $hfi (by foot_tac) (by addr_tac) ?_; intro _ _)
    | (apply Leaves.ite <;> intro _)))

theorem modTail_foot {s0 s1 : State} (d : Array Nat) (off w flag seg : Nat) (hseg : seg ≤ 1) (hc : s0.ctl.size = 256)
    (hfi : s0.flagsInternal % 256 = 0) (h1 : Foot eraseM TM s0 s1) :
    Leaves (Foot eraseM TM) s0 (modDataPart s1 d off w >>= fun s2 => modEndPart s2 flag seg) := by
  have endp : ∀ s2, Foot eraseM TM s0 s2 → Leaves (Foot eraseM TM) s0 (modEndPart s2 flag seg) := by
    intro s2 h2
    unfold modEndPart
    simp only []
    walkM hc, hfi
  unfold modDataPart
  simp only []
  by_cases h : w < MOD_BUF_PAGE_SIZE - (s1.modCycle % 65536 &&& MOD_BUF_PAGE_SIZE_MASK)
  · simp only [h, if_true, bind_assoc, pure_bind]
    refine Leaves.mw (by foot_tac) ?_; intro _ _
    exact endp _ (by foot_tac)
  · simp only [h, if_false, bind_assoc, pure_bind]
    refine Leaves.mw (by foot_tac) ?_; intro _ _
    cw_stepM
    refine Leaves.mw (by foot_tac) ?_; intro _ _
    exact endp _ (by foot_tac)

/-- `write_mod`: only modulation-side state, whatever the payload -/
theorem writeMod_foot (s : State) (d : Array Nat) (hc : s.ctl.size = 256) (hfi : s.flagsInternal % 256 = 0) :
    Leaves (Foot eraseM TM) s (writeMod s d) := by
  have hs1 : (if u8at d FwLayout.ModulationHead_flag_off &&& MODULATION_FLAG_SEGMENT ≠ 0 then 1 else 0) ≤ 1 := by
    split <;> omega
  by_cases hb : hasFlag (u8at d FwLayout.ModulationHead_flag_off) MODULATION_FLAG_BEGIN = true
  · by_cases g1 : validateTransitionMode s.modSegment
        (if u8at d FwLayout.ModulationHead_flag_off &&& MODULATION_FLAG_SEGMENT ≠ 0 then 1 else 0)
        (u16at d FwLayout.ModulationHead_rep_off) (u8at d FwLayout.ModulationHead_transition_mode_off) = true
    · unfold writeMod; simp only [hb, g1, if_true]; exact Leaves.pure (Foot.tweak (Foot.refl _ _ _) rfl rfl)
    by_cases g2 : validateSilencerSettings s (sel s.stmDiv s.stmSegment) (u16at d FwLayout.ModulationHead_freq_div_off) = true
    · have g2' : validateSilencerSettings { s with modCycle := 0 } (sel s.stmDiv s.stmSegment)
          (u16at d FwLayout.ModulationHead_freq_div_off) = true := g2
      unfold writeMod; simp only [hb, g1, g2', if_true, if_false]
      exact Leaves.pure (Foot.tweak (Foot.refl _ _ _) rfl rfl)
    rw [writeMod_begin s d _ rfl hb (by simpa using g1) (by simpa using g2)]
    generalize (if u8at d FwLayout.ModulationHead_flag_off &&& MODULATION_FLAG_SEGMENT ≠ 0 then 1 else 0) = seg at hs1 ⊢
    apply modTail_foot d _ _ _ _ hs1 hc hfi
    unfold modHead
    generalize u16at d FwLayout.ModulationHead_rep_off = rep
    generalize u16at d FwLayout.ModulationHead_freq_div_off = dv
    generalize u8at d FwLayout.ModulationHead_transition_mode_off = tm
    generalize u64at d FwLayout.ModulationHead_transition_value_off = tv
    have h0 : Foot eraseM TM s (modHeadCpu s seg rep dv tm tv) := ⟨rfl, rfl, fun _ _ => rfl⟩
    have h1 := Foot.reg1 ErCtl_M h0 (ADDR_MOD_FREQ_DIV0 + seg) dv (by addr_tac)
    have h4 := Foot.reg1 ErCtl_M h1 (ADDR_MOD_REP0 + seg) rep (by addr_tac)
    have h6 := Foot.reg1 ErCtl_M h4 ADDR_MOD_MEM_WR_SEGMENT seg (by addr_tac)
    exact Foot.reg1 ErCtl_M h6 ADDR_MOD_MEM_WR_PAGE 0 (by addr_tac)
  · rw [writeMod_subseq s d (by simpa using hb)]
    exact modTail_foot d _ _ _ _ hs1 hc hfi (Foot.refl _ _ _)

end Autd3.Rt
