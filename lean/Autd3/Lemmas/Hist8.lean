import Autd3.Lemmas.Hist7
import Autd3.Lemmas.P02ClearObs
import Autd3.Lemmas.RtExample
/-!
History independence / frame conditions (C02), part 8: the hypothesis bundles of the C02 theorems ("device `s` with
transmit buffer `t` accepts this datagram": exactly the hypotheses of the C01 round trips), the bridge between the
two well-formedness predicates, and the frame statements assembled from the side relations.
-/
open Autd3 Autd3.Fw Autd3.Wire Autd3.Gen.Cpu Autd3.Gen Autd3.Rt
namespace Autd3.Hist

/-- hypotheses of `C01.mod_roundtrip` -/
structure ModAccepts (s : State) (t : Tx) (seg : Nat) (tr : Tr) (rep div : Nat) (samples : Array Nat) : Prop where
  wf : WF s
  tx : TxOK t
  fresh : Fresh s t
  ok : ModOK s seg tr rep div samples
  g1 : validateTransitionMode s.modSegment seg rep (trMode tr) = false
  g2 : validateSilencerSettings s (sel s.stmDiv s.stmSegment) div = false

/-- hypotheses of `C01.gain_roundtrip` -/
structure GainAccepts (s : State) (t : Tx) (seg : Nat) (tr : Tr) (drives : Array Nat) : Prop where
  wf : WF s
  tx : TxOK t
  fresh : Fresh s t
  seg : seg ≤ 1
  tr : tr = none ∨ ∃ v, tr = some (Drv.TRANSITION_MODE_IMMEDIATE, v)
  drives : ∀ i, rd drives i < 65536

/-- hypotheses of `C01.fociStm_roundtrip` -/
structure FociAccepts (s : State) (t : Tx) (n seg : Nat) (tr : Tr) (rep div ss : Nat) (records : Array Nat) (P : Nat) : Prop where
  wf : WF s
  tx : TxOK t
  fresh : Fresh s t
  ok : FociOK s n seg tr rep div ss records P
  g1 : validateTransitionMode s.stmSegment seg rep (trMode tr) = false
  g2 : validateSilencerSettings s div (sel s.modDiv s.modSegment) = false

/-- hypotheses of `C01.gainStm_roundtrip` -/
structure GstmAccepts (s : State) (t : Tx) (mode seg : Nat) (tr : Tr) (rep div : Nat) (patterns : Array (Array Nat)) : Prop where
  wf : WF s
  tx : TxOK t
  fresh : Fresh s t
  ok : GOK s mode seg tr rep div patterns
  g1 : validateTransitionMode s.stmSegment seg rep (trMode tr) = false
  g2 : validateSilencerSettings s div (sel s.modDiv s.modSegment) = false

/-- the round-trip invariant implies the `Clear` invariant -/
theorem p02wf_of_wf {s : State} (h : WF s) : P02.WF s :=
  { ctl := h.ctl, phaseCorr := h.phaseCorr, pwe := h.pwe, modMem0 := h.modMem0, modMem1 := h.modMem1,
    stmMem0 := h.stmMem0, stmMem1 := h.stmMem1, numTr := h.numTr,
    modSwap := by obtain ⟨a, b, c, d⟩ := h.modSwap; exact ⟨by omega, by omega, by omega, by omega⟩,
    stmSwap := by obtain ⟨a, b, c, d⟩ := h.stmSwap; exact ⟨by omega, by omega, by omega, by omega⟩,
    flags := ⟨testBit0_of_mod256 h.flags, testBit1_of_mod256 h.flags⟩ }

/-- what every accepted STM-side send leaves of the OTHER STM segment `g`, given the facts the C01 round trips
export about it -/
theorem otherStm_same {s s' : State} {g : Nat} (e : StmSide s s') (hm : Obs.stmMem s' g = Obs.stmMem s g)
    (hr : Obs.stmDiv s' g = Obs.stmDiv s g ∧ Obs.stmRep s' g = Obs.stmRep s g ∧
      Obs.stmCycle s' g = Obs.stmCycle s g ∧ Obs.isStmGainMode s' g = Obs.isStmGainMode s g) :
    stmHdr s' g = stmHdr s g ∧ Obs.stmMem s' g = Obs.stmMem s g ∧
    (Obs.isStmGainMode s g = true → ∀ idx, Obs.drivesAt s' g idx = Obs.drivesAt s g idx) := by
  refine ⟨by unfold stmHdr; rw [hr.1, hr.2.1, hr.2.2.1, hr.2.2.2], hm, ?_⟩
  intro hg idx
  exact drivesAt_seg_congr s s' g hm hr.2.2.2 e.phaseCorr e.numTr (fun h => by rw [hg] at h; cases h) idx

theorem otherMod_same {s s' : State} {g : Nat} (hm : Obs.modMem s' g = Obs.modMem s g)
    (hr : Obs.modDiv s' g = Obs.modDiv s g ∧ Obs.modRep s' g = Obs.modRep s g ∧ Obs.modCycle s' g = Obs.modCycle s g) :
    modObs s' g = modObs s g := by
  unfold modObs
  rw [modBuffer_congr s s' g hm hr.2.2, hr.1, hr.2.1, hr.2.2]

end Autd3.Hist

namespace Autd3.Hist

/-- a mid-history device for the non-vacuity examples: stale write cursors and page registers (the F1 defect was a
stale page register), a latched foci count, GainSTM mode 2, non-zero GPIO/fan flags (settled in `CTL_FLAG`), a
version query answered, last message id 9 -/
def dirtyState : State :=
  wr (wr (wr { exState with modCycle := 40000, stmWrite := 77, numFoci := 5, portA := 5, readsFpgaState := true,
                            flagsInternal := 0x2100, lastMsgId := 9, gainStmMode := 2, synchronized := true,
                            rxData := 3 }
    ADDR_MOD_MEM_WR_PAGE 1) ADDR_STM_MEM_WR_PAGE 7) ADDR_CTL_FLAG 0x2100

theorem WF_dirtyCpu (s : State) (h : WF s) :
    WF { s with modCycle := 40000, stmWrite := 77, numFoci := 5, portA := 5, readsFpgaState := true,
                flagsInternal := 0x2100, lastMsgId := 9, gainStmMode := 2, synchronized := true, rxData := 3 } :=
  ⟨h.ctl, h.phaseCorr, h.pwe, h.modMem0, h.modMem1, h.stmMem0, h.stmMem1, h.numTr, (show 0x2100 % 256 = 0 by decide), h.modSwap, h.stmSwap,
    h.modDiv0, h.modDiv1, h.stmDiv0, h.stmDiv1⟩

theorem WF_dirtyState : WF dirtyState :=
  WF_wr (WF_wr (WF_wr (WF_dirtyCpu _ WF_exState) _ _ (Or.inl (by decide))) _ _ (Or.inl (by decide))) _ _ (Or.inl (by decide))

theorem Fresh_dirty : Fresh dirtyState exTx := by
  show (9 : Nat) ≠ nextId exTx
  decide

theorem Settled_dirty : Settled dirtyState := by
  unfold Settled dirtyState
  rw [reg_wr]
  simp [ADDR_CTL_FLAG, exState]

theorem Settled_ex : Settled exState := by
  unfold Settled
  rw [reg_exState]; decide

theorem PhaseSame_dirty : PhaseSame dirtyState exState := ⟨rfl, rfl⟩

end Autd3.Hist
