import Autd3.Lemmas.GainWrap
namespace Autd3.GainWrap

def pairs (devs : List Dev) : List (Dev × Nat) :=
  devs.flatMap fun dev => (List.range dev.numTr).map fun t => (dev, t)

def stepP (km : Nat → Nat → Option Nat) (fs : List (Nat × Filter)) (p : Dev × Nat) : List (Nat × Filter) :=
  filtersStep km p.1 fs p.2

theorem getFilters_eq (km : Nat → Nat → Option Nat) (geo : Geo) :
    getFilters km geo = (pairs geo.devices).foldl (stepP km) [] := by
  unfold getFilters pairs
  rw [List.foldl_flatMap]
  congr; funext fs dev
  rw [List.foldl_map]; rfl

theorem mem_pairs {devs : List Dev} {p : Dev × Nat} : p ∈ pairs devs ↔ p.1 ∈ devs ∧ p.2 < p.1.numTr := by
  obtain ⟨d, t⟩ := p
  simp only [pairs, List.mem_flatMap, List.mem_map, List.mem_range, Prod.mk.injEq]
  constructor
  · rintro ⟨dev, hd, t', ht, rfl, rfl⟩; exact ⟨hd, ht⟩
  · rintro ⟨hd, ht⟩; exact ⟨d, hd, t, ht, rfl, rfl⟩

/-- is bit `t` of device `d` set in the filter stored under key `k`? -/
def fbit (fs : List (Nat × Filter)) (k d t : Nat) : Bool :=
  match fs.lookup k with
  | none => false
  | some v => inFilt (some v) d t

theorem inFilt_asetEx (v : Filter) (d : Nat) (bits' : List Bool) (d' t' : Nat) :
    inFilt (some (asetEx v d bits')) d' t' =
      if d' = d then (if (v.lookup d).isSome then bits'[t']?.getD false else false) else inFilt (some v) d' t' := by
  simp only [inFilt, lookup_asetEx]
  by_cases h : d' = d
  · subst h; cases hv : v.lookup d' <;> simp
  · simp [h]

theorem inFilt_append (v : Filter) (d : Nat) (bits' : List Bool) (d' t' : Nat) (hv : v.lookup d = none) :
    inFilt (some (v ++ [(d, bits')])) d' t' =
      if d' = d then bits'[t']?.getD false else inFilt (some v) d' t' := by
  simp only [inFilt, lookup_append_single]
  by_cases h : d' = d
  · subst h; simp [hv]
  · simp only [h, if_false]; cases v.lookup d' <;> simp

theorem getD_set_true (bits : List Bool) (t t' : Nat) :
    (bits.set t true)[t']?.getD false = ((t' == t && decide (t < bits.length)) || bits[t']?.getD false) := by
  rw [List.getElem?_set]
  by_cases h : t = t'
  · subst h
    by_cases h2 : t < bits.length <;> simp [h2]
  · have : (t' == t) = false := by simp; exact fun e => h e.symm
    simp [h, this]

theorem getD_fromFn (n t t' : Nat) :
    (bitFromFn n (· == t))[t']?.getD false = (decide (t' < n) && t' == t) := by
  unfold bitFromFn
  rw [List.getElem?_map]
  by_cases h : t' < n
  · simp [h]
  · simp [h]


theorem dev_eq_of_idx {devs : List Dev} (hn : (devs.map (·.idx)).Nodup) {a b : Dev}
    (ha : a ∈ devs) (hb : b ∈ devs) (e : a.idx = b.idx) : a = b := by
  induction devs with
  | nil => simp at ha
  | cons x xs ih =>
    simp only [List.map_cons, List.nodup_cons] at hn
    rcases List.mem_cons.mp ha with rfl | ha' <;> rcases List.mem_cons.mp hb with rfl | hb'
    · rfl
    · exfalso; apply hn.1; rw [e]; exact List.mem_map_of_mem hb'
    · exfalso; apply hn.1; rw [← e]; exact List.mem_map_of_mem ha'
    · exact ih hn.2 ha' hb'

structure FInv (km : Nat → Nat → Option Nat) (devs : List Dev) (fs : List (Nat × Filter))
    (P : List (Dev × Nat)) : Prop where
  nodup : (fs.map (·.1)).Nodup
  len : ∀ k v d bits, fs.lookup k = some v → v.lookup d = some bits →
    ∃ dev ∈ devs, dev.idx = d ∧ bits.length = dev.numTr
  bit : ∀ k d t, fbit fs k d t = true ↔ ∃ p ∈ P, p.1.idx = d ∧ p.2 = t ∧ km d t = some k
  dom : ∀ k, (fs.lookup k).isSome = true ↔ ∃ p ∈ P, km p.1.idx p.2 = some k

theorem FInv.update {km : Nat → Nat → Option Nat} {devs : List Dev} {fs fs' : List (Nat × Filter)}
    {P : List (Dev × Nat)} (dev : Dev) (t key : Nat) (v' : Filter) (hk : km dev.idx t = some key)
    (h : FInv km devs fs P)
    (hL : ∀ k', fs'.lookup k' = if k' = key then some v' else fs.lookup k')
    (hN : (fs'.map (·.1)).Nodup)
    (hB : ∀ d' t', inFilt (some v') d' t' = (fbit fs key d' t' || (d' == dev.idx && t' == t)))
    (hLn : ∀ d bits, v'.lookup d = some bits → ∃ dev ∈ devs, dev.idx = d ∧ bits.length = dev.numTr) :
    FInv km devs fs' (P ++ [(dev, t)]) := by
  refine ⟨hN, ?_, ?_, ?_⟩
  · intro k v d bits h1 h2
    rw [hL] at h1
    by_cases e : k = key
    · simp [e] at h1; subst h1; exact hLn d bits h2
    · simp [e] at h1; exact h.len k v d bits h1 h2
  · intro k d t'
    have hb := h.bit k d t'
    unfold fbit at hb ⊢
    rw [hL]
    by_cases e : k = key
    · subst e
      simp only [if_true, hB, Bool.or_eq_true, Bool.and_eq_true, beq_iff_eq]
      unfold fbit
      rw [hb]
      constructor
      · rintro (⟨p, hp, h1⟩ | ⟨rfl, rfl⟩)
        · exact ⟨p, List.mem_append_left _ hp, h1⟩
        · exact ⟨(dev, t'), by simp, rfl, rfl, hk⟩
      · rintro ⟨p, hp, h1, h2, h3⟩
        rcases List.mem_append.mp hp with hp | hp
        · exact Or.inl ⟨p, hp, h1, h2, h3⟩
        · simp at hp; subst hp; exact Or.inr ⟨h1.symm, h2.symm⟩
    · simp only [e, if_false]
      rw [hb]
      constructor
      · rintro ⟨p, hp, h1⟩; exact ⟨p, List.mem_append_left _ hp, h1⟩
      · rintro ⟨p, hp, h1, h2, h3⟩
        rcases List.mem_append.mp hp with hp | hp
        · exact ⟨p, hp, h1, h2, h3⟩
        · simp at hp; subst hp; simp at h1 h2; subst h1; subst h2; rw [hk] at h3
          simp at h3; exact absurd h3.symm e
  · intro k
    rw [hL]
    by_cases e : k = key
    · subst e
      simp only [if_true, Option.isSome_some, true_iff]
      exact ⟨(dev, t), by simp, hk⟩
    · simp only [e, if_false]
      rw [h.dom]
      constructor
      · rintro ⟨p, hp, h1⟩; exact ⟨p, List.mem_append_left _ hp, h1⟩
      · rintro ⟨p, hp, h1⟩
        rcases List.mem_append.mp hp with hp | hp
        · exact ⟨p, hp, h1⟩
        · simp at hp; subst hp; simp at h1; rw [hk] at h1; simp at h1; exact absurd h1.symm e

theorem FInv.step {km : Nat → Nat → Option Nat} {devs : List Dev} {fs : List (Nat × Filter)}
    {P : List (Dev × Nat)} (hn : (devs.map (·.idx)).Nodup) (dev : Dev) (t : Nat)
    (hd : dev ∈ devs) (ht : t < dev.numTr) (h : FInv km devs fs P) :
    FInv km devs (filtersStep km dev fs t) (P ++ [(dev, t)]) := by
  unfold filtersStep
  cases hk : km dev.idx t with
  | none =>
    simp only []
    refine ⟨h.nodup, h.len, ?_, ?_⟩
    · intro k d t'
      rw [h.bit]
      constructor
      · rintro ⟨p, hp, h1⟩; exact ⟨p, List.mem_append_left _ hp, h1⟩
      · rintro ⟨p, hp, h1, h2, h3⟩
        rcases List.mem_append.mp hp with hp | hp
        · exact ⟨p, hp, h1, h2, h3⟩
        · simp at hp; subst hp; simp at h1 h2; subst h1; subst h2; rw [hk] at h3; cases h3
    · intro k
      rw [h.dom]
      constructor
      · rintro ⟨p, hp, h1⟩; exact ⟨p, List.mem_append_left _ hp, h1⟩
      · rintro ⟨p, hp, h1⟩
        rcases List.mem_append.mp hp with hp | hp
        · exact ⟨p, hp, h1⟩
        · simp at hp; subst hp; simp at h1; rw [hk] at h1; cases h1
  | some key =>
    simp only []
    cases hf : fs.lookup key with
    | none =>
      simp only []
      refine FInv.update dev t key [(dev.idx, bitFromFn dev.numTr (· == t))] hk h ?_ ?_ ?_ ?_
      · intro k'; rw [lookup_append_single]
        by_cases e : k' = key
        · subst e; simp [hf]
        · simp only [e, if_false]; cases fs.lookup k' <;> rfl
      · rw [List.map_append, List.nodup_append]
        refine ⟨h.nodup, by simp, ?_⟩
        intro a ha b hb
        simp at hb; subst hb
        intro e; subst e
        exact lookup_none_not_mem fs _ hf ha
      · intro d' t'
        simp only [fbit, hf, Bool.false_or, inFilt, List.lookup_cons, List.lookup_nil]
        by_cases e : d' = dev.idx
        · subst e; simp [getD_fromFn]; intro h1; subst h1; exact ht
        · have : (d' == dev.idx) = false := by simp [e]
          simp [this]
      · intro d bits hl
        simp only [List.lookup_cons, List.lookup_nil] at hl
        by_cases e : d = dev.idx
        · subst e; simp at hl; subst hl
          exact ⟨dev, hd, rfl, by simp [bitFromFn]⟩
        · have : (d == dev.idx) = false := by simp [e]
          simp [this] at hl
    | some v =>
      simp only []
      have hkeys : ∀ (x : Filter), ((asetEx fs key x).map (·.1)).Nodup := by
        intro x; rw [keys_asetEx]; exact h.nodup
      have hlk : ∀ (x : Filter) k', (asetEx fs key x).lookup k' = if k' = key then some x else fs.lookup k' := by
        intro x k'; rw [lookup_asetEx]; simp [hf]
      cases hv : v.lookup dev.idx with
      | none =>
        simp only []
        refine FInv.update dev t key _ hk h (hlk _) (hkeys _) ?_ ?_
        · intro d' t'
          rw [inFilt_append _ _ _ _ _ hv]
          simp only [fbit, hf]
          by_cases e : d' = dev.idx
          · subst e
            simp [getD_fromFn, inFilt, hv]; intro h1; subst h1; exact ht
          · have : (d' == dev.idx) = false := by simp [e]
            simp [e, this]
        · intro d bits hl
          rw [lookup_append_single] at hl
          cases hvd : v.lookup d with
          | some x => rw [hvd] at hl; simp at hl; subst hl; exact h.len key v d x hf hvd
          | none =>
            rw [hvd] at hl
            by_cases e : d = dev.idx
            · subst e; simp at hl; subst hl; exact ⟨dev, hd, rfl, by simp [bitFromFn]⟩
            · simp [e] at hl
      | some bits =>
        simp only []
        obtain ⟨dev', hd', hi', hl'⟩ := h.len key v dev.idx bits hf hv
        have hlen : bits.length = dev.numTr := by
          have : dev' = dev := dev_eq_of_idx hn hd' hd hi'
          rw [hl', this]
        refine FInv.update dev t key _ hk h (hlk _) (hkeys _) ?_ ?_
        · intro d' t'
          rw [inFilt_asetEx]
          simp only [fbit, hf]
          by_cases e : d' = dev.idx
          · subst e
            simp [getD_set_true, inFilt, hv, hlen, ht]
            cases bits[t']?.getD false <;> simp [Bool.or_comm]
          · have : (d' == dev.idx) = false := by simp [e]
            simp [e, this]
        · intro d bits' hl
          rw [lookup_asetEx] at hl
          by_cases e : d = dev.idx
          · subst e; simp [hv] at hl; subst hl
            exact ⟨dev, hd, rfl, by simp [hlen]⟩
          · simp [e] at hl; exact h.len key v d bits' hf hl


theorem FInv.foldl {km : Nat → Nat → Option Nat} {devs : List Dev} (hn : (devs.map (·.idx)).Nodup) :
    ∀ (L : List (Dev × Nat)) (fs : List (Nat × Filter)) (P : List (Dev × Nat)),
      (∀ p ∈ L, p.1 ∈ devs ∧ p.2 < p.1.numTr) → FInv km devs fs P →
      FInv km devs (L.foldl (stepP km) fs) (P ++ L)
  | [], fs, P, _, h => by simpa using h
  | p :: L, fs, P, hL, h => by
    have hp := hL p (by simp)
    have h1 := FInv.step hn p.1 p.2 hp.1 hp.2 h
    have h2 := FInv.foldl hn L _ _ (fun q hq => hL q (by simp [hq])) h1
    simpa [List.foldl_cons, stepP] using h2

theorem FInv.nil (km : Nat → Nat → Option Nat) (devs : List Dev) : FInv km devs [] [] :=
  ⟨by simp, by simp, by simp [fbit], by simp⟩

theorem getFilters_inv (km : Nat → Nat → Option Nat) {geo : Geo} (hw : geo.WF) :
    FInv km geo.devices (getFilters km geo) (pairs geo.devices) := by
  rw [getFilters_eq]
  have := FInv.foldl (km := km) (Geo.devices_idx_nodup hw) (pairs geo.devices) [] []
    (fun p hp => mem_pairs.mp hp) (FInv.nil km _)
  simpa using this

/-- the keys of `get_filters` are distinct -/
theorem getFilters_keys_nodup (km : Nat → Nat → Option Nat) {geo : Geo} (hw : geo.WF) :
    ((getFilters km geo).map (·.1)).Nodup := (getFilters_inv km hw).nodup

/-- a key has a filter iff some transducer of an **enabled** device maps to it -/
theorem getFilters_isSome (km : Nat → Nat → Option Nat) {geo : Geo} (hw : geo.WF) (k : Nat) :
    ((getFilters km geo).lookup k).isSome = true ↔
      ∃ dev ∈ geo.devices, ∃ t, t < dev.numTr ∧ km dev.idx t = some k := by
  rw [(getFilters_inv km hw).dom]
  constructor
  · rintro ⟨p, hp, h⟩; exact ⟨p.1, (mem_pairs.mp hp).1, p.2, (mem_pairs.mp hp).2, h⟩
  · rintro ⟨dev, hd, t, ht, h⟩; exact ⟨(dev, t), mem_pairs.mpr ⟨hd, ht⟩, h⟩

/-- the filter of key `k` selects exactly the transducers of enabled devices that map to `k` -/
theorem getFilters_inFilt (km : Nat → Nat → Option Nat) {geo : Geo} (hw : geo.WF) (k : Nat) (f : Filter)
    (h : (getFilters km geo).lookup k = some f) (d t : Nat) :
    inFilt (some f) d t = true ↔ ∃ dev ∈ geo.devices, dev.idx = d ∧ t < dev.numTr ∧ km d t = some k := by
  have hb := (getFilters_inv km hw).bit k d t
  simp only [fbit, h] at hb
  rw [hb]
  constructor
  · rintro ⟨p, hp, h1, h2, h3⟩
    exact ⟨p.1, (mem_pairs.mp hp).1, h1, h2 ▸ (mem_pairs.mp hp).2, h3⟩
  · rintro ⟨dev, hd, h1, h2, h3⟩
    exact ⟨(dev, t), mem_pairs.mpr ⟨hd, h2⟩, h1, rfl, h3⟩

/-- every bit vector has the length of its device (so `BitVec::set` cannot assert) -/
theorem getFilters_len (km : Nat → Nat → Option Nat) {geo : Geo} (hw : geo.WF) (k : Nat) (f : Filter)
    (h : (getFilters km geo).lookup k = some f) (d : Nat) (bits : List Bool) (hb : f.lookup d = some bits) :
    ∃ dev ∈ geo.devices, dev.idx = d ∧ bits.length = dev.numTr :=
  (getFilters_inv km hw).len k f d bits h hb

end Autd3.GainWrap
