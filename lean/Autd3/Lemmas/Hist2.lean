import Autd3.Lemmas.Hist1
import Autd3.Lemmas.FwBase
/-!
History independence / frame conditions (C02), part 2: every data handler stays on its side, for EVERY
payload `d` and every state whose register file has its size and whose CPU flag word holds no request bit
(`Pre`): `writeMod_side`, `writeGain_side`, `writeFociStm_side`, `writeGainStm_side`.
-/
open Autd3 Autd3.Fw Autd3.Wire Autd3.Gen.Cpu Autd3.Gen Autd3.Rt
namespace Autd3.Hist

/-- what the generic frame lemmas need of the prior state: 256 registers, no request bit in the CPU's
flag word (both are kept by every step on either side) -/
structure Pre (s : State) : Prop where
  ctl : s.ctl.size = 256
  flags : s.flagsInternal % 4 = 0

theorem Pre_of_WF {s : State} (h : WF s) : Pre s := ⟨h.ctl, by have := h.flags; omega⟩

theorem Pre_of_ModSide {s s' : State} (h : ModSide s s') (p : Pre s) : Pre s' :=
  ⟨by rw [h.size]; exact p.ctl, by rw [h.flagsInternal]; exact p.flags⟩
theorem Pre_of_StmSide {s s' : State} (h : StmSide s s') (p : Pre s) : Pre s' :=
  ⟨by rw [h.size]; exact p.ctl, by rw [h.flagsInternal]; exact p.flags⟩

/-! ### `set_and_wait_update`, the two segment updates -/

theorem saw_mod_side (s s' : State) (p : Pre s) (h : setAndWaitUpdate s CTL_FLAG_MOD_SET = .ok s') : ModSide s s' := by
  rw [Fw.setAndWaitUpdate_mod s p.ctl p.flags] at h
  obtain ⟨w, _, h2⟩ := bind_eq_ok h
  cases h2
  refine ⟨rfl, by simp, ?_⟩
  intro x hx
  show rd (s.ctl.setIfInBounds 0 _) x = _
  rw [Rt.rd_set, if_neg]
  rintro ⟨rfl, _⟩; exact hx (Or.inl rfl)

theorem saw_stm_side (s s' : State) (p : Pre s) (h : setAndWaitUpdate s CTL_FLAG_STM_SET = .ok s') : StmSide s s' := by
  rw [Fw.setAndWaitUpdate_stm s p.ctl p.flags] at h
  obtain ⟨w, _, h2⟩ := bind_eq_ok h
  cases h2
  refine ⟨rfl, by simp, ?_⟩
  intro x hx
  show rd (s.ctl.setIfInBounds 0 _) x = _
  rw [Rt.rd_set, if_neg]
  rintro ⟨rfl, _⟩; exact hx (Or.inl rfl)

theorem size_u64Words (v : Nat) : (u64Words v).size = 4 := rfl

theorem ModSide_trv (s : State) (ws : Array Nat) (hw : ws.size = 4) :
    ModSide s { s with ctl := wrWords s.ctl ADDR_MOD_TRANSITION_VALUE_0 ws } := by
  refine ⟨rfl, by simp, ?_⟩
  intro x hx
  show rd (wrWords s.ctl _ ws) x = _
  rw [rd_wrWords, if_neg]
  rintro ⟨h1, h2, _⟩
  apply hx; right
  simp only [ADDR_MOD_TRANSITION_VALUE_0] at h1 h2; omega

theorem StmSide_trv (s : State) (ws : Array Nat) (hw : ws.size = 4) :
    StmSide s { s with ctl := wrWords s.ctl ADDR_STM_TRANSITION_VALUE_0 ws } := by
  refine ⟨rfl, by simp, ?_⟩
  intro x hx
  show rd (wrWords s.ctl _ ws) x = _
  rw [rd_wrWords, if_neg]
  rintro ⟨h1, h2, _⟩
  apply hx; right
  simp only [ADDR_STM_TRANSITION_VALUE_0] at h1 h2; omega

theorem modSegmentUpdate_side (s s' : State) (seg mode value a : Nat) (p : Pre s)
    (h : modSegmentUpdate s seg mode value = .ok (s', a)) : ModSide s s' := by
  unfold modSegmentUpdate at h
  rw [Rt.ctlWrite_main _ ADDR_MOD_REQ_RD_SEGMENT _ (by decide), Rt.ok_bind] at h
  have e1 := ModSide_wr s ADDR_MOD_REQ_RD_SEGMENT seg (Or.inr (by decide))
  split at h
  · cases h; exact e1
  · rw [Rt.ctlWrite_main _ ADDR_MOD_TRANSITION_MODE _ (by decide), Rt.ok_bind,
      Rt.ctlWriteWords_main _ _ _ (by rw [size_u64Words]; decide), Rt.ok_bind] at h
    have e2 := e1.trans (ModSide_wr _ ADDR_MOD_TRANSITION_MODE mode (Or.inr (by decide)))
    have e3 := e2.trans (ModSide_trv _ (u64Words value) rfl)
    obtain ⟨s4, h4, h5⟩ := bind_eq_ok h
    cases h5
    exact e3.trans (saw_mod_side _ _ (Pre_of_ModSide e3 p) h4)

theorem stmSegmentUpdate_side (s s' : State) (seg mode value a : Nat) (p : Pre s)
    (h : stmSegmentUpdate s seg mode value = .ok (s', a)) : StmSide s s' := by
  unfold stmSegmentUpdate at h
  rw [Rt.ctlWrite_main _ ADDR_STM_REQ_RD_SEGMENT _ (by decide), Rt.ok_bind] at h
  have e1 := StmSide_wr s ADDR_STM_REQ_RD_SEGMENT seg (Or.inr (by decide))
  split at h
  · cases h; exact e1
  · rw [Rt.ctlWrite_main _ ADDR_STM_TRANSITION_MODE _ (by decide), Rt.ok_bind,
      Rt.ctlWriteWords_main _ _ _ (by rw [size_u64Words]; decide), Rt.ok_bind] at h
    have e2 := e1.trans (StmSide_wr _ ADDR_STM_TRANSITION_MODE mode (Or.inr (by decide)))
    have e3 := e2.trans (StmSide_trv _ (u64Words value) rfl)
    obtain ⟨s4, h4, h5⟩ := bind_eq_ok h
    cases h5
    exact e3.trans (saw_stm_side _ _ (Pre_of_StmSide e3 p) h4)

/-! ### `write_mod` -/

theorem ModSide_setModCycle (s : State) (c : Nat) : ModSide s { s with modCycle := c } := ⟨rfl, rfl, fun _ _ => rfl⟩

theorem modDataPart_side (s s' : State) (d : Array Nat) (off w : Nat) (h : modDataPart s d off w = .ok s') :
    ModSide s s' := by
  unfold modDataPart at h
  simp only [] at h
  split at h
  · obtain ⟨s1, h1, h2⟩ := bind_eq_ok h
    cases h2
    exact (modWriteWords_side _ _ _ _ h1).trans (ModSide_setModCycle _ _)
  · obtain ⟨s1, h1, h2⟩ := bind_eq_ok h
    rw [Rt.ctlWrite_main _ ADDR_MOD_MEM_WR_PAGE _ (by decide), Rt.ok_bind] at h2
    obtain ⟨s2, h3, h4⟩ := bind_eq_ok h2
    cases h4
    exact ((((modWriteWords_side _ _ _ _ h1).trans (ModSide_setModCycle _ _)).trans
      (ModSide_wr _ ADDR_MOD_MEM_WR_PAGE _ (Or.inr (by decide)))).trans (modWriteWords_side _ _ _ _ h3)).trans
      (ModSide_setModCycle _ _)

theorem modEndPart_side (s s' : State) (flag seg a : Nat) (hseg : seg ≤ 1) (p : Pre s)
    (h : modEndPart s flag seg = .ok (s', a)) : ModSide s s' := by
  unfold modEndPart at h
  simp only [] at h
  have ha : ADDR_MOD_CYCLE0 + seg < 256 := by simp only [ADDR_MOD_CYCLE0]; omega
  have hm : modAddr (ADDR_MOD_CYCLE0 + seg) := Or.inr (by simp only [ADDR_MOD_CYCLE0]; omega)
  split at h
  · rw [Rt.ctlWrite_main _ _ _ ha, Rt.ok_bind] at h
    have e1 := ModSide_wr s (ADDR_MOD_CYCLE0 + seg) ((max s.modCycle 1 - 1) % 65536) hm
    split at h
    · exact e1.trans (modSegmentUpdate_side _ _ _ _ _ _ (Pre_of_ModSide e1 p) h)
    · cases h; exact e1
  · cases h; exact Side.refl s

theorem ModSide_modHead (s : State) (seg rep div tm tv : Nat) (hseg : seg ≤ 1) :
    ModSide s (modHead s seg rep div tm tv) := by
  unfold modHead
  have e0 : ModSide s (modHeadCpu s seg rep div tm tv) := ⟨rfl, rfl, fun _ _ => rfl⟩
  exact (((e0.trans (ModSide_wr _ _ _ (Or.inr (by simp only [ADDR_MOD_FREQ_DIV0]; omega)))).trans
    (ModSide_wr _ _ _ (Or.inr (by simp only [ADDR_MOD_REP0]; omega)))).trans
    (ModSide_wr _ _ _ (Or.inr (by decide)))).trans (ModSide_wr _ _ _ (Or.inr (by decide)))

/-- **`write_mod` stays on the modulation side**, whatever the frame contains and whatever it answers -/
theorem writeMod_side (s s' : State) (d : Array Nat) (a : Nat) (p : Pre s) (h : writeMod s d = .ok (s', a)) :
    ModSide s s' := by
  have hseg : (if u8at d FwLayout.ModulationHead_flag_off &&& MODULATION_FLAG_SEGMENT ≠ 0 then 1 else 0) ≤ 1 := by
    split <;> omega
  cases hb : hasFlag (u8at d FwLayout.ModulationHead_flag_off) MODULATION_FLAG_BEGIN
  · rw [writeMod_subseq s d hb] at h
    obtain ⟨s2, h1, h2⟩ := bind_eq_ok h
    have e1 := modDataPart_side _ _ _ _ _ h1
    exact e1.trans (modEndPart_side _ _ _ _ _ hseg (Pre_of_ModSide e1 p) h2)
  · cases g1 : validateTransitionMode s.modSegment
        (if u8at d FwLayout.ModulationHead_flag_off &&& MODULATION_FLAG_SEGMENT ≠ 0 then 1 else 0)
        (u16at d FwLayout.ModulationHead_rep_off) (u8at d FwLayout.ModulationHead_transition_mode_off)
    · cases g2 : validateSilencerSettings s (sel s.stmDiv s.stmSegment) (u16at d FwLayout.ModulationHead_freq_div_off)
      · rw [writeMod_begin s d _ rfl hb g1 g2] at h
        obtain ⟨s2, h1, h2⟩ := bind_eq_ok h
        have e0 := ModSide_modHead s _ (u16at d FwLayout.ModulationHead_rep_off) (u16at d FwLayout.ModulationHead_freq_div_off)
          (u8at d FwLayout.ModulationHead_transition_mode_off) (u64at d FwLayout.ModulationHead_transition_value_off) hseg
        have e1 := e0.trans (modDataPart_side _ _ _ _ _ h1)
        exact e1.trans (modEndPart_side _ _ _ _ _ hseg (Pre_of_ModSide e1 p) h2)
      · have g2' : validateSilencerSettings { s with modCycle := 0 } (sel s.stmDiv s.stmSegment)
            (u16at d FwLayout.ModulationHead_freq_div_off) = true := g2
        unfold writeMod at h
        simp only [hb, if_true, g1, g2', Bool.false_eq_true, if_false] at h
        cases h
        exact ModSide_setModCycle s 0
    · unfold writeMod at h
      simp only [hb, if_true, g1] at h
      cases h
      exact ModSide_setModCycle s 0

end Autd3.Hist
