import Autd3.Lemmas.GainWrapSound
namespace Autd3.GainWrap

/-- what a `Group` is meant to give: the drive of the gain selected by the key, `NULL` without key -/
def groupDen (km : Nat → Nat → Option Nat) (dens : Nat → Nat → Nat → Drive) : Nat → Nat → Drive :=
  fun d t => match km d t with
    | none => Drive.null
    | some k => dens k d t

/-- facts about any visiting order `fl` of the filters -/
theorem perm_filters {km : Nat → Nat → Option Nat} {geo : Geo} (hw : geo.WF) {fl : List (Nat × Filter)}
    (hp : fl.Perm (getFilters km geo)) :
    (fl.map (·.1)).Nodup ∧ ∀ k f, (k, f) ∈ fl ↔ (getFilters km geo).lookup k = some f := by
  have hn := getFilters_keys_nodup km hw
  refine ⟨(hp.map (·.1)).nodup_iff.mpr hn, ?_⟩
  intro k f
  rw [hp.mem_iff]
  exact ⟨lookup_of_mem_nodup _ k f hn, lookup_some_mem _ k f⟩

theorem group_sound {ρ geo X} (km : Nat → Nat → Option Nat) (gm : List (Nat × InitFn))
    (dens : Nat → Nat → Nat → Drive) (hw : geo.WF) (fl : List (Nat × Filter))
    (hp : fl.Perm (getFilters km geo))
    (hgn : (gm.map (·.1)).Nodup)
    (hkeys : ∀ k, k ∈ gm.map (·.1) ↔ ∃ dev ∈ geo.devices, ∃ t, t < dev.numTr ∧ km dev.idx t = some k)
    (hin : ∀ k i, gm.lookup k = some i → Sound ρ geo X false i (dens k)) :
    ∀ (par : Bool) (σ : St), Inv ρ geo X σ →
    ∃ gen σ', groupInitWith fl km gm geo par σ = (.ok gen, σ') ∧ Inv ρ geo X σ' ∧
      (∀ id, X id → σ'.caches id = σ.caches id) ∧
      GoodGen geo gen (fun _ _ => True) (groupDen km dens) := by
  intro par σ hI
  obtain ⟨hfn, hfm⟩ := perm_filters hw hp
  have hdn := Geo.devices_idx_nodup hw
  -- the loop
  have hloop := groupLoop_spec geo par
    (fun σ' => Inv ρ geo X σ' ∧ ∀ id, X id → σ'.caches id = σ.caches id) False
    (fun k f cs => ∀ d ∈ geo.devices, ∃ c, cs.lookup d.idx = some c ∧
      ∀ t, t < d.numTr → inFilt (some f) d.idx t = true → c t = .ok (dens k d.idx t))
    fl gm [] σ hfn hgn
    (fun k f i σ1 _ hl hI1 => by
      obtain ⟨gen, σ2, h1, h2, h3, h4⟩ := hin k i hl (some f) par σ1 hI1.1
      rw [h1]
      simp only []
      refine ⟨⟨h2, fun id hx => by rw [h3 id hx, hI1.2 id hx]⟩, _, genAll_ok gen geo.devices
        (fun d hd => by obtain ⟨c, hc, _⟩ := h4 d hd; exact ⟨c, hc⟩), ?_⟩
      intro d hd
      obtain ⟨c, hc, hg⟩ := h4 d hd
      refine ⟨c, ?_, fun t ht hf => hg t ht (Or.inr hf)⟩
      have := lookup_map_of_mem (·.idx) (fun d => okOr (gen d)) geo.devices d hd hdn
      simp only [hc, okOr] at this
      exact this)
    ⟨hI, fun _ _ => rfl⟩ (by simp)
  unfold groupInitWith
  cases hg : groupLoop geo par fl gm [] σ with
  | mk res σ' =>
    rw [hg] at hloop
    cases res with
    | error e =>
      cases e with
      | err e' =>
        simp only [] at hloop
        rcases hloop.2 with h | ⟨kf, hkf, hn⟩
        · exact h.elim
        · exfalso; apply hn
          rw [hkeys]
          have := (getFilters_isSome km hw kf.1).mp (by rw [(hfm kf.1 kf.2).mp hkf]; rfl)
          exact this
      | panic p => simp only [] at hloop
    | ok pr =>
      obtain ⟨gmRest, calcs⟩ := pr
      simp only [] at hloop ⊢
      obtain ⟨⟨j1, j1'⟩, _, j3, _, j5⟩ := hloop
      -- nothing is left in the gain map
      have hrest : gmRest = [] := by
        cases gmRest with
        | nil => rfl
        | cons p ps =>
          exfalso
          have hm := (j3 p.1).mp (by simp)
          obtain ⟨dev, hd, t, ht, hk⟩ := (hkeys p.1).mp hm.1
          have hs := (getFilters_isSome km hw p.1).mpr ⟨dev, hd, t, ht, hk⟩
          cases hl : (getFilters km geo).lookup p.1 with
          | none => rw [hl] at hs; simp at hs
          | some f =>
            apply hm.2
            exact List.mem_map_of_mem (f := (·.1)) ((hfm p.1 f).mpr hl)
      subst hrest
      simp only [List.isEmpty_nil, Bool.not_true, Bool.false_eq_true, if_false]
      -- the table
      have htable : groupTable km calcs geo.devices =
          .ok (geo.devices.map fun d => (d.idx, denRow (groupDen km dens) d)) := by
        unfold groupTable
        apply mapE_ok_of_forall (fun d => (d.idx, denRow (groupDen km dens) d))
        intro d hd
        have hrow : groupRow km calcs d = .ok (denRow (groupDen km dens) d) := by
          unfold groupRow denRow
          apply mapE_ok_of_forall (groupDen km dens d.idx)
          intro t ht
          have ht' := List.mem_range.mp ht
          unfold groupDen
          cases hk : km d.idx t with
          | none => rfl
          | some key =>
            simp only []
            have hs := (getFilters_isSome km hw key).mpr ⟨d, hd, t, ht', hk⟩
            cases hl : (getFilters km geo).lookup key with
            | none => rw [hl] at hs; simp at hs
            | some f =>
              obtain ⟨cs, hcs, hq⟩ := j5 (key, f) ((hfm key f).mpr hl)
              obtain ⟨c, hc, hg⟩ := hq d hd
              simp only [] at hcs hc
              rw [hcs]; simp only [hc]
              exact hg t ht' ((getFilters_inFilt km hw key f hl d.idx t).mpr ⟨d, hd, rfl, ht', hk⟩)
        simp [hrow]
      rw [htable]
      simp only []
      refine ⟨_, σ', rfl, j1, j1', ?_⟩
      intro d hd
      have hv := validStore_of_map hw (groupDen km dens)
      refine ⟨vecCalc (denRow (groupDen km dens) d), by simp [groupGen, hv.rows d hd], ?_⟩
      intro t ht _
      exact vecCalc_denRow _ _ _ ht

end Autd3.GainWrap
