/-!
The sender loop `loop { pack; send; if done { break } }` as a measure-recursive (fuel-free) function over
an arbitrary step function, with its unfolding, invariant and simulation rules.
-/
namespace Autd3.Wire

/-- The sender's `loop { pack; send; if done { break } }` for one device, over an arbitrary step
function: recursion on the measure `μ` (no fuel).  Returns the states after every successful `pack`
(= the frames that were sent) and why the loop ended: `none` = all operations done,
`some (some e)` = `pack` returned the error `e`, `some none` = the measure did not decrease
(`stuck`; proved impossible for the driver's operations). -/
def runLoop {σ ε : Type} (step : σ → Except ε σ) (fin : σ → Bool) (μ : σ → Nat) (s : σ) :
    List σ × Option (Option ε) :=
  match step s with
  | .error e => ([], some (some e))
  | .ok s' =>
    if fin s' then ([s'], none)
    else if _h : μ s' < μ s then
      let r := runLoop step fin μ s'
      (s' :: r.1, r.2)
    else ([s'], some none)
termination_by μ s

theorem runLoop_ok_fin {σ ε : Type} (step : σ → Except ε σ) (fin : σ → Bool) (μ : σ → Nat) (s s' : σ)
    (h : step s = .ok s') (hf : fin s' = true) : runLoop step fin μ s = ([s'], none) := by
  rw [runLoop, h]; simp [hf]

theorem runLoop_ok_cont {σ ε : Type} (step : σ → Except ε σ) (fin : σ → Bool) (μ : σ → Nat) (s s' : σ)
    (h : step s = .ok s') (hf : fin s' = false) (hμ : μ s' < μ s) :
    runLoop step fin μ s = (s' :: (runLoop step fin μ s').1, (runLoop step fin μ s').2) := by
  rw [runLoop, h]; simp [hf, hμ]

theorem runLoop_error {σ ε : Type} (step : σ → Except ε σ) (fin : σ → Bool) (μ : σ → Nat) (s : σ) (e : ε)
    (h : step s = .error e) : runLoop step fin μ s = ([], some (some e)) := by
  rw [runLoop, h]

/-- invariant rule: if `P` is preserved by `step`, every state in the output satisfies `P` -/
theorem runLoop_all {σ ε : Type} (step : σ → Except ε σ) (fin : σ → Bool) (μ : σ → Nat) (P : σ → Prop)
    (hstep : ∀ s s', P s → step s = .ok s' → P s') (s : σ) (hs : P s) :
    ∀ x ∈ (runLoop step fin μ s).1, P x := by
  fun_induction runLoop step fin μ s with
  | case1 s e h => simp
  | case2 s s' h hf => intro x hx; simp at hx; subst hx; exact hstep _ _ hs h
  | case3 s s' h hf hμ r ih =>
    intro x hx
    simp at hx
    rcases hx with rfl | hx
    · exact hstep _ _ hs h
    · exact ih (hstep _ _ hs h) x hx
  | case4 s s' h hf hμ => intro x hx; simp at hx; subst hx; exact hstep _ _ hs h

/-- simulation: if `proj` commutes with the step functions on states satisfying a preserved invariant,
the two loops run in lock step -/
theorem runLoop_sim {σ τ ε ε' : Type} (step : σ → Except ε σ) (fin : σ → Bool) (μ : σ → Nat)
    (step' : τ → Except ε' τ) (fin' : τ → Bool) (μ' : τ → Nat) (proj : σ → τ) (g : ε → ε') (P : σ → Prop)
    (hP : ∀ s s', P s → step s = .ok s' → P s')
    (hstep : ∀ s, P s → (match step s with | .error e => Except.error (g e) | .ok s' => .ok (proj s')) = step' (proj s))
    (hfin : ∀ s, P s → fin' (proj s) = fin s) (hμ : ∀ s, P s → μ' (proj s) = μ s) (s : σ) (hs : P s) :
    (runLoop step' fin' μ' (proj s)) =
      (((runLoop step fin μ s).1).map proj, ((runLoop step fin μ s).2).map (Option.map g)) := by
  fun_induction runLoop step fin μ s with
  | case1 s e h =>
    have := hstep s hs; rw [h] at this
    rw [runLoop_error _ _ _ _ (g e) this.symm]; rfl
  | case2 s s' h hf =>
    have := hstep s hs; rw [h] at this
    rw [runLoop_ok_fin _ _ _ _ _ this.symm (by rw [hfin _ (hP _ _ hs h)]; exact hf)]; rfl
  | case3 s s' h hf hlt r ih =>
    have := hstep s hs; rw [h] at this
    rw [runLoop_ok_cont _ _ _ _ _ this.symm (by rw [hfin _ (hP _ _ hs h)]; simpa using hf)
      (by rw [hμ _ hs, hμ _ (hP _ _ hs h)]; exact hlt)]
    rw [ih (hP _ _ hs h)]
    rfl
  | case4 s s' h hf hlt =>
    have := hstep s hs; rw [h] at this
    rw [runLoop, ← this]
    simp [hfin _ (hP _ _ hs h), hμ _ hs, hμ _ (hP _ _ hs h), hf, hlt]

end Autd3.Wire

namespace Autd3.Wire

/-- `l` is a run of `step` from `s`: each element is the successful step of its predecessor -/
def IsRun {σ ε : Type} (step : σ → Except ε σ) : σ → List σ → Prop
  | _, [] => True
  | s, x :: l => step s = .ok x ∧ IsRun step x l

theorem runLoop_isRun {σ ε : Type} (step : σ → Except ε σ) (fin : σ → Bool) (μ : σ → Nat) (s : σ) :
    IsRun step s (runLoop step fin μ s).1 := by
  fun_induction runLoop step fin μ s with
  | case1 s e h => trivial
  | case2 s s' h hf => exact ⟨h, trivial⟩
  | case3 s s' h hf hμ r ih => exact ⟨h, ih⟩
  | case4 s s' h hf hμ => exact ⟨h, trivial⟩

/-- every element of a run is related by `Q` to its predecessor, if `Q` follows from a preserved invariant -/
theorem IsRun.forall_step {σ ε : Type} {step : σ → Except ε σ} (P : σ → Prop) (Q : σ → σ → Prop)
    (hstep : ∀ a b, P a → step a = .ok b → Q a b ∧ P b) {s : σ} {l : List σ} (hr : IsRun step s l) (hs : P s) :
    ∀ (i : Nat) (h : i < l.length), Q ((s :: l)[i]'(by simp; omega)) l[i] := by
  induction l generalizing s with
  | nil => intro i h; simp at h
  | cons x l ih =>
    obtain ⟨h1, h2⟩ := hr
    obtain ⟨q, px⟩ := hstep _ _ hs h1
    intro i h
    cases i with
    | zero => simpa using q
    | succ i =>
      have := ih h2 px i (by simpa using h)
      simpa using this

end Autd3.Wire
