import Autd3.Lemmas.TupleWire
import Autd3.Lemmas.WireNext
/-!
Tuple equivalence (C03), part 4 — the sender loop for a pair of operations against one device (`sendLoop2`,
`Sends2`: `Rt.sendLoop` with `pack_op2` in place of `pack_op`), `ecat_recv` on the frames of a transmit
buffer, and the proof of `tuple_equiv_cfg`: for two configuration datagrams the tuple is accepted exactly
when the sequence is, and the final device states are equal except `ack`, `lastMsgId`, `rxData`.
-/
set_option linter.unusedSimpArgs false
namespace Autd3.Tuple
open Autd3 Autd3.Fw Autd3.Wire Autd3.Gen.Cpu Autd3.Gen
open Autd3.Rt (Sends sendLoop TxOK Fresh pre fin nextId)

theorem frame_size (t : Tx) : t.frame.size = 4 + t.payload.size := by
  simp [Tx.frame]

theorem frame_extract2 (t : Tx) (k : Nat) :
    t.frame.extract (4 + k) t.frame.size = t.payload.extract k t.payload.size := by
  rw [frame_size]
  unfold Tx.frame
  apply Array.ext
  · simp
  · intro i h1 h2
    simp at h1 h2 ⊢

theorem u8at_extract (p : Array Nat) (k i : Nat) : u8at (p.extract k p.size) i = u8at p (k + i) := by
  unfold u8at rd
  simp [Array.getElem?_extract]
  by_cases h : k + i < p.size
  · rw [if_pos (by omega)]
  · rw [if_neg (by omega)]; simp [h]

theorem frame_id0 (t : Tx) : u8at t.frame 0 = t.msgId % 256 := Rt.frame_id t
theorem frame_slot0 (t : Tx) : u16at t.frame 2 = t.slot2 % 65536 := Rt.frame_slot2 t
theorem frame_payload (t : Tx) : t.frame.extract 4 t.frame.size = t.payload := Rt.frame_extract t

/-- `Sender::send` for a tuple `(o1, o2)` and one device: pack the next frame with `pack_op2`, deliver it,
stop on a pack error / firmware panic / error acknowledgement, until both operations are done -/
def sendLoop2 : Nat → Op → Op → State → Tx → Option (Tx × State)
  | 0, _, _, _, _ => none
  | fuel + 1, o1, o2, s, t =>
    if o1.done && o2.done then some (t, s) else
    match packOp2 o1 o2 s.numTr t with
    | .error _ => none
    | .ok (o1', o2', t') =>
      match ecatRecv s t'.frame with
      | .error _ => none
      | .ok s' => if s'.ack = t'.msgId then sendLoop2 fuel o1' o2' s' t' else none

/-- the tuple `(A, B)` sent from `(s, t)` is accepted frame by frame and ends in `(s', t')` -/
def Sends2 (A B : Dg) (s : State) (t : Tx) (t' : Tx) (s' : State) : Prop :=
  ∃ fuel, sendLoop2 fuel (Op.ofDg A) (Op.ofDg B) s t = some (t', s')

theorem err_ne {a id : Nat} (ha : a &&& ERR_BIT ≠ 0) (hid : id < 128) : a ≠ id := by
  intro h; subst h; exact ha (Rt.and_128_of_lt hid)

theorem ack_if (c : Prop) [Decidable c] (x y : State) : (if c then x else y).ack = if c then x.ack else y.ack := by
  split <;> rfl

/-- `ecat_recv` on the single-slot frame `⟨id, 0, P⟩` -/
theorem recv_one (s : State) (id : Nat) (P : Array Nat) (hid : id < 128) (hfresh : s.lastMsgId ≠ id)
    (s1 : State) (a1 : Nat) (h : handlePayload (pre s id) P = .ok (s1, a1)) :
    ecatRecv s (Tx.frame ⟨id, 0, P⟩) = .ok (if a1 &&& ERR_BIT ≠ 0 then { s1 with ack := a1 } else fin s1 id) := by
  rw [ecatRecv_body, frame_id0, frame_slot0]
  simp only [Nat.mod_eq_of_lt (show id < 256 by omega), Nat.zero_mod]
  rw [if_neg hfresh, Rt.and_128_of_lt hid]
  simp only [ne_eq, not_true_eq_false, if_false]
  unfold recvBody
  rw [frame_payload, h]
  simp only [if_true]
  split <;> rfl

/-- `ecat_recv` on the two-slot frame `⟨id, k, P⟩` -/
theorem recv_two (s : State) (id k : Nat) (P : Array Nat) (hid : id < 128) (hfresh : s.lastMsgId ≠ id)
    (hk : k ≠ 0) (hk2 : k < 65536) (hfit : k ≤ P.size) (s1 : State) (a1 : Nat) (s2 : State) (a2 : Nat)
    (h1 : handlePayload (pre s id) P = .ok (s1, a1))
    (h2 : handlePayload { s1 with ack := a1 } (P.extract k P.size) = .ok (s2, a2)) :
    ecatRecv s (Tx.frame ⟨id, k, P⟩) =
      .ok (if a1 &&& ERR_BIT ≠ 0 then { s1 with ack := a1 }
           else if a2 &&& ERR_BIT ≠ 0 then { s2 with ack := a2 } else fin s2 id) := by
  rw [ecatRecv_body, frame_id0, frame_slot0]
  simp only [Nat.mod_eq_of_lt (show id < 256 by omega), Nat.mod_eq_of_lt hk2]
  rw [if_neg hfresh, Rt.and_128_of_lt hid]
  simp only [ne_eq, not_true_eq_false, if_false]
  unfold recvBody
  rw [frame_payload, frame_extract2, frame_size]
  simp only [h1, h2, hk, if_false, show ¬ (4 + k > 4 + P.size) by omega]
  split
  · rfl
  · split <;> rfl

/-! ### the frames of a configuration datagram and of a pair of them -/

theorem packOp_cfg (X : Dg) (hX : IsCfg X = true) (n : Nat) (t : Tx) (ht : TxOK t) :
    packOp (Op.ofDg X) n t =
      .ok ({ dg := X, sent := 0, done := true }, ⟨nextId t, 0, cfgBuf X t.payload 0⟩, cfgLen X) := by
  unfold packOp
  simp only []
  rw [cfg_pack X hX n t.payload 0 (by have := cfgLen_le X; unfold TxOK at ht; omega)]
  rfl

theorem sendLoop_done (fuel : Nat) (o : Op) (s : State) (t : Tx) (h : o.done = true) :
    sendLoop (fuel + 1) o s t = some (t, s) := by
  simp [sendLoop, h]

/-- a configuration datagram is sent in exactly one single-slot frame -/
theorem sends_cfg (X : Dg) (hX : IsCfg X = true) (s : State) (t : Tx) (ht : TxOK t) (t' : Tx) (s' : State) :
    Sends X s t t' s' ↔
      (t' = ⟨nextId t, 0, cfgBuf X t.payload 0⟩ ∧ ecatRecv s (Tx.frame ⟨nextId t, 0, cfgBuf X t.payload 0⟩) = .ok s' ∧
        s'.ack = nextId t) := by
  have hp := packOp_cfg X hX s.numTr t ht
  have hd := cfg_pending X hX
  constructor
  · rintro ⟨fuel, h⟩
    cases fuel with
    | zero => simp [sendLoop] at h
    | succ f =>
      simp only [sendLoop, hd, Bool.false_eq_true, if_false, hp] at h
      cases hr : ecatRecv s (Tx.frame ⟨nextId t, 0, cfgBuf X t.payload 0⟩) with
      | error e => rw [hr] at h; simp at h
      | ok s1 =>
        rw [hr] at h
        simp only [] at h
        by_cases ha : s1.ack = nextId t
        · rw [if_pos ha] at h
          cases f with
          | zero => simp [sendLoop] at h
          | succ f' =>
            rw [sendLoop_done _ _ _ _ rfl] at h
            simp only [Option.some.injEq, Prod.mk.injEq] at h
            obtain ⟨rfl, rfl⟩ := h
            exact ⟨rfl, rfl, ha⟩
        · rw [if_neg ha] at h; simp at h
  · rintro ⟨rfl, hr, ha⟩
    refine ⟨2, ?_⟩
    simp only [sendLoop, hd, Bool.false_eq_true, if_false, hp, hr, ha, if_true]

theorem sendLoop2_done (fuel : Nat) (o1 o2 : Op) (s : State) (t : Tx) (h1 : o1.done = true) (h2 : o2.done = true) :
    sendLoop2 (fuel + 1) o1 o2 s t = some (t, s) := by
  simp [sendLoop2, h1, h2]

/-- both operations fit one frame: `pack_op2` puts `B` at offset `cfgLen A` -/
theorem packOp2_cfg_fit (A B : Dg) (hA : IsCfg A = true) (hB : IsCfg B = true) (n : Nat) (t : Tx) (ht : TxOK t)
    (hfit : cfgLen A + cfgLen B ≤ 622) :
    packOp2 (Op.ofDg A) (Op.ofDg B) n t =
      .ok ({ dg := A, sent := 0, done := true }, { dg := B, sent := 0, done := true },
        ⟨nextId t, cfgLen A, cfgBuf B (cfgBuf A t.payload 0) (cfgLen A)⟩) := by
  unfold packOp2
  unfold TxOK at ht
  simp only [cfg_pending A hA, cfg_pending B hB, packOp_cfg A hA n t ht, cfg_size, cfg_required B hB, ht]
  rw [if_pos (by omega), cfg_pack B hB n _ _ (by rw [cfg_size, ht]; omega)]

/-- they do not fit: the frame carries `A` alone (exactly the frame of `A` sent on its own) -/
theorem packOp2_cfg_nofit (A B : Dg) (hA : IsCfg A = true) (hB : IsCfg B = true) (n : Nat) (t : Tx) (ht : TxOK t)
    (hfit : ¬ cfgLen A + cfgLen B ≤ 622) :
    packOp2 (Op.ofDg A) (Op.ofDg B) n t =
      .ok ({ dg := A, sent := 0, done := true }, Op.ofDg B, ⟨nextId t, 0, cfgBuf A t.payload 0⟩) := by
  unfold packOp2
  unfold TxOK at ht
  simp only [cfg_pending A hA, cfg_pending B hB, packOp_cfg A hA n t ht, cfg_size, cfg_required B hB, ht]
  have := cfgLen_le A
  have := cfgLen_pos B
  rw [if_neg (by omega)]

theorem packOp2_cfg_second (A B : Dg) (hB : IsCfg B = true) (n : Nat) (t : Tx) (ht : TxOK t) :
    packOp2 { dg := A, sent := 0, done := true } (Op.ofDg B) n t =
      .ok ({ dg := A, sent := 0, done := true }, { dg := B, sent := 0, done := true },
        ⟨nextId t, 0, cfgBuf B t.payload 0⟩) := by
  unfold packOp2
  simp only [cfg_pending B hB, packOp_cfg B hB n t ht]

theorem sends2_cfg_fit (A B : Dg) (hA : IsCfg A = true) (hB : IsCfg B = true) (s : State) (t : Tx) (ht : TxOK t)
    (hfit : cfgLen A + cfgLen B ≤ 622) (t' : Tx) (s' : State) :
    Sends2 A B s t t' s' ↔
      (t' = ⟨nextId t, cfgLen A, cfgBuf B (cfgBuf A t.payload 0) (cfgLen A)⟩ ∧
        ecatRecv s (Tx.frame ⟨nextId t, cfgLen A, cfgBuf B (cfgBuf A t.payload 0) (cfgLen A)⟩) = .ok s' ∧
        s'.ack = nextId t) := by
  have hp := packOp2_cfg_fit A B hA hB s.numTr t ht hfit
  have hdA := cfg_pending A hA
  constructor
  · rintro ⟨fuel, h⟩
    cases fuel with
    | zero => simp [sendLoop2] at h
    | succ f =>
      simp only [sendLoop2, hdA, Bool.false_and, Bool.false_eq_true, if_false, hp] at h
      cases hr : ecatRecv s (Tx.frame ⟨nextId t, cfgLen A, cfgBuf B (cfgBuf A t.payload 0) (cfgLen A)⟩) with
      | error e => rw [hr] at h; simp at h
      | ok s1 =>
        rw [hr] at h
        simp only [] at h
        by_cases ha : s1.ack = nextId t
        · rw [if_pos ha] at h
          cases f with
          | zero => simp [sendLoop2] at h
          | succ f' =>
            rw [sendLoop2_done _ _ _ _ _ rfl rfl] at h
            simp only [Option.some.injEq, Prod.mk.injEq] at h
            obtain ⟨rfl, rfl⟩ := h
            exact ⟨rfl, rfl, ha⟩
        · rw [if_neg ha] at h; simp at h
  · rintro ⟨rfl, hr, ha⟩
    refine ⟨2, ?_⟩
    simp only [sendLoop2, hdA, Bool.false_and, Bool.false_eq_true, if_false, hp, hr, ha, if_true, Bool.and_self]

theorem txok_cfg (X : Dg) (t : Tx) (ht : TxOK t) (id k : Nat) : TxOK ⟨id, k, cfgBuf X t.payload 0⟩ := by
  unfold TxOK at *; simp only [cfg_size]; exact ht

/-- they do not fit one frame: the tuple sends exactly the frames of the sequence -/
theorem sends2_cfg_nofit (A B : Dg) (hA : IsCfg A = true) (hB : IsCfg B = true) (s : State) (t : Tx) (ht : TxOK t)
    (hfit : ¬ cfgLen A + cfgLen B ≤ 622) (t' : Tx) (s' : State) :
    Sends2 A B s t t' s' ↔ ∃ tA sA, Sends A s t tA sA ∧ Sends B sA tA t' s' := by
  have hp := packOp2_cfg_nofit A B hA hB s.numTr t ht hfit
  have hdA := cfg_pending A hA
  have hdB := cfg_pending B hB
  have ht1 := txok_cfg A t ht (nextId t) 0
  constructor
  · rintro ⟨fuel, h⟩
    cases fuel with
    | zero => simp [sendLoop2] at h
    | succ f =>
      simp only [sendLoop2, hdA, Bool.false_and, Bool.false_eq_true, if_false, hp] at h
      cases hr : ecatRecv s (Tx.frame ⟨nextId t, 0, cfgBuf A t.payload 0⟩) with
      | error e => rw [hr] at h; simp at h
      | ok s1 =>
        rw [hr] at h
        simp only [] at h
        by_cases ha : s1.ack = nextId t
        · rw [if_pos ha] at h
          cases f with
          | zero => simp [sendLoop2] at h
          | succ f2 =>
            have hp2 := packOp2_cfg_second A B hB s1.numTr _ ht1
            simp only [sendLoop2, hdB, Bool.and_false, Bool.false_eq_true, if_false, hp2] at h
            cases hr2 : ecatRecv s1 (Tx.frame ⟨nextId ⟨nextId t, 0, cfgBuf A t.payload 0⟩, 0,
                cfgBuf B (cfgBuf A t.payload 0) 0⟩) with
            | error e => rw [hr2] at h; simp at h
            | ok s2 =>
              rw [hr2] at h
              simp only [] at h
              by_cases ha2 : s2.ack = nextId ⟨nextId t, 0, cfgBuf A t.payload 0⟩
              · rw [if_pos ha2] at h
                cases f2 with
                | zero => simp [sendLoop2] at h
                | succ f3 =>
                  rw [sendLoop2_done _ _ _ _ _ rfl rfl] at h
                  simp only [Option.some.injEq, Prod.mk.injEq] at h
                  obtain ⟨rfl, rfl⟩ := h
                  exact ⟨_, s1, (sends_cfg A hA s t ht _ _).2 ⟨rfl, hr, ha⟩,
                    (sends_cfg B hB s1 _ ht1 _ _).2 ⟨rfl, hr2, ha2⟩⟩
              · rw [if_neg ha2] at h; simp at h
        · rw [if_neg ha] at h; simp at h
  · rintro ⟨tA, sA, h1, h2⟩
    obtain ⟨rfl, hr, ha⟩ := (sends_cfg A hA s t ht _ _).1 h1
    obtain ⟨rfl, hr2, ha2⟩ := (sends_cfg B hB sA _ ht1 _ _).1 h2
    have hp2 := packOp2_cfg_second A B hB sA.numTr _ ht1
    refine ⟨3, ?_⟩
    simp only [sendLoop2, hdA, hdB, Bool.false_and, Bool.and_false, Bool.false_eq_true, if_false, hp, hr, ha, if_true,
      hp2, hr2, ha2, Bool.and_self]

/-- the three receive results behind `tuple_equiv_cfg` (both operations fit one frame) -/
theorem cfg_pair (A B : Dg) (hA : IsCfg A = true) (hB : IsCfg B = true) (s : State) (t : Tx) (hW : P02.WF s)
    (ht : TxOK t) (hf : Fresh s t) (hfit : cfgLen A + cfgLen B ≤ 622) :
    ∃ s1 a1 s2 a2 s2',
      ecatRecv s (Tx.frame ⟨nextId t, cfgLen A, cfgBuf B (cfgBuf A t.payload 0) (cfgLen A)⟩) =
        .ok (if a1 &&& ERR_BIT ≠ 0 then { s1 with ack := a1 }
             else if a2 &&& ERR_BIT ≠ 0 then { s2 with ack := a2 } else fin s2 (nextId t)) ∧
      ecatRecv s (Tx.frame ⟨nextId t, 0, cfgBuf A t.payload 0⟩) =
        .ok (if a1 &&& ERR_BIT ≠ 0 then { s1 with ack := a1 } else fin s1 (nextId t)) ∧
      ecatRecv (fin s1 (nextId t)) (Tx.frame ⟨nextId ⟨nextId t, 0, cfgBuf A t.payload 0⟩, 0,
          cfgBuf B (cfgBuf A t.payload 0) 0⟩) =
        .ok (if a2 &&& ERR_BIT ≠ 0 then { s2' with ack := a2 }
             else fin s2' (nextId ⟨nextId t, 0, cfgBuf A t.payload 0⟩)) ∧
      Eqv0 s2 s2' := by
  have hsz : t.payload.size = 622 := ht
  have hA2 := cfgLen_pos A
  have hB2 := cfgLen_pos B
  -- the three payloads
  generalize hP1 : cfgBuf A t.payload 0 = P1
  have hP1s : P1.size = 622 := by rw [← hP1, cfg_size]; exact hsz
  generalize hP : cfgBuf B P1 (cfgLen A) = P
  have hPs : P.size = 622 := by rw [← hP, cfg_size]; exact hP1s
  generalize hP2 : cfgBuf B P1 0 = P2
  have hidlt := Rt.nextId_lt t
  -- slot 1
  have hW0 : P02.WF (pre s (nextId t)) := by
    obtain ⟨r, hr⟩ := Rt.pre_eq s (nextId t); rw [hr]; exact { hW with }
  have htag1 : u8at P1 0 = cfgTag A := by
    rw [← hP1]; exact cfg_tag A hA _ 0 (by omega)
  obtain ⟨s1, a1, g1run, g1wf, g1last, g1n, g1loc, g1ins⟩ :=
    good_cfg (cfgLen A) (pre s (nextId t)) P1 hW0 (by rw [htag1]; exact cfg_table A hA)
  -- the tuple frame's payload agrees with `P1` on slot 1
  have hkeep : Keeps (cfgLen A) P1 P := by
    have := cfg_pack B hB 0 P1 (cfgLen A) (by omega)
    rw [hP] at this
    exact pack_keeps this
  have hag1 : Agree (cfgLen A) P1 P := by
    intro i hi; unfold u8at; rw [hkeep.2 i hi]
  have h1P := g1loc P hag1
  -- slot 2
  have hWx : P02.WF { s1 with ack := a1 } := { g1wf with }
  have htag2 : u8at (P.extract (cfgLen A) P.size) 0 = cfgTag B := by
    rw [u8at_extract, ← hP]; exact cfg_tag B hB _ _ (by omega)
  obtain ⟨s2, a2, g2run, g2wf, g2last, g2n, g2loc, g2ins⟩ :=
    good_cfg (cfgLen B) { s1 with ack := a1 } (P.extract (cfgLen A) P.size) hWx (by rw [htag2]; exact cfg_table B hB)
  -- the second frame of the sequence
  have hmid := eqv0_mid s1 a1 (nextId t) (nextId ⟨nextId t, 0, P1⟩)
  obtain ⟨s2', m2run, hq⟩ := g2ins _ hmid
  have hWm := wf_eqv0 hWx hmid
  obtain ⟨s2'', a2'', g3run, _, _, _, g3loc, _⟩ :=
    good_cfg (cfgLen B) (pre (fin s1 (nextId t)) (nextId ⟨nextId t, 0, P1⟩)) (P.extract (cfgLen A) P.size) hWm
      (by rw [htag2]; exact cfg_table B hB)
  rw [m2run] at g3run
  simp only [Except.ok.injEq, Prod.mk.injEq] at g3run
  obtain ⟨rfl, rfl⟩ := g3run
  have hag2 : Agree (cfgLen B) (P.extract (cfgLen A) P.size) P2 := by
    intro i hi
    rw [u8at_extract, ← hP, ← hP2]
    have := cfg_ti B hB P1 P1 (cfgLen A) 0 (by omega) (by omega) i hi
    simpa using this
  have h2P2 := g3loc P2 hag2
  -- freshness
  have hfr1 : s.lastMsgId ≠ nextId t := hf
  have hl1 : s1.lastMsgId = nextId t := by rw [g1last]; obtain ⟨r, hr⟩ := Rt.pre_eq s (nextId t); rw [hr]
  have hfr2 : (fin s1 (nextId t)).lastMsgId ≠ nextId ⟨nextId t, 0, P1⟩ := by
    show s1.lastMsgId ≠ _
    rw [hl1]
    exact (Rt.nextId_ne ⟨nextId t, 0, P1⟩ hidlt).symm
  refine ⟨s1, a1, s2, a2, s2', ?_, ?_, ?_, hq⟩
  · exact recv_two s (nextId t) (cfgLen A) P hidlt hfr1 (by omega) (by have := cfgLen_le A; omega) (by omega)
      s1 a1 s2 a2 h1P g2run
  · exact recv_one s (nextId t) P1 hidlt hfr1 s1 a1 g1run
  · exact recv_one (fin s1 (nextId t)) _ P2 (Rt.nextId_lt _) hfr2 s2' a2 h2P2

/-- **tuple = sequence for two configuration datagrams** (see `C03.tuple_equiv_single_frame`) -/
theorem tuple_equiv_cfg (A B : Dg) (hA : IsCfg A = true) (hB : IsCfg B = true) (s : State) (t : Tx) (hW : P02.WF s)
    (ht : TxOK t) (hf : Fresh s t) :
    (∀ t2 s2, Sends2 A B s t t2 s2 → ∃ tA sA tB sB, Sends A s t tA sA ∧ Sends B sA tA tB sB ∧ Eqv s2 sB) ∧
    (∀ tA sA tB sB, Sends A s t tA sA → Sends B sA tA tB sB → ∃ t2 s2, Sends2 A B s t t2 s2 ∧ Eqv s2 sB) := by
  by_cases hfit : cfgLen A + cfgLen B ≤ 622
  · obtain ⟨s1, a1, s2, a2, s2', RT, RA, RB, hq⟩ := cfg_pair A B hA hB s t hW ht hf hfit
    have hidlt := Rt.nextId_lt t
    have ht1 := txok_cfg A t ht (nextId t) 0
    constructor
    · intro t2 x h
      obtain ⟨rfl, hr, ha⟩ := (sends2_cfg_fit A B hA hB s t ht hfit _ _).1 h
      rw [RT] at hr
      simp only [Except.ok.injEq] at hr
      subst hr
      by_cases e1 : a1 &&& ERR_BIT ≠ 0
      · rw [if_pos e1] at ha; exact absurd ha (err_ne e1 hidlt)
      rw [if_neg e1] at ha ⊢
      by_cases e2 : a2 &&& ERR_BIT ≠ 0
      · rw [if_pos e2] at ha; exact absurd ha (err_ne e2 hidlt)
      rw [if_neg e2]
      refine ⟨_, fin s1 (nextId t), _, fin s2' (nextId ⟨nextId t, 0, cfgBuf A t.payload 0⟩),
        (sends_cfg A hA s t ht _ _).2 ⟨rfl, by rw [RA, if_neg e1], rfl⟩,
        (sends_cfg B hB _ _ ht1 _ _).2 ⟨rfl, by rw [RB, if_neg e2], rfl⟩, hq.fin _ _⟩
    · intro tA sA tB sB h1 h2
      obtain ⟨rfl, hr, ha⟩ := (sends_cfg A hA s t ht _ _).1 h1
      rw [RA] at hr
      simp only [Except.ok.injEq] at hr
      subst hr
      by_cases e1 : a1 &&& ERR_BIT ≠ 0
      · rw [if_pos e1] at ha; exact absurd ha (err_ne e1 hidlt)
      rw [if_neg e1] at h2
      obtain ⟨rfl, hr2, ha2⟩ := (sends_cfg B hB _ _ ht1 _ _).1 h2
      rw [RB] at hr2
      simp only [Except.ok.injEq] at hr2
      subst hr2
      by_cases e2 : a2 &&& ERR_BIT ≠ 0
      · rw [if_pos e2] at ha2; exact absurd ha2 (err_ne e2 (Rt.nextId_lt _))
      rw [if_neg e2]
      refine ⟨_, fin s2 (nextId t), (sends2_cfg_fit A B hA hB s t ht hfit _ _).2
        ⟨rfl, by rw [RT, if_neg e1, if_neg e2], rfl⟩, hq.fin _ _⟩
  · constructor
    · intro t2 x h
      obtain ⟨tA, sA, h1, h2⟩ := (sends2_cfg_nofit A B hA hB s t ht hfit _ _).1 h
      exact ⟨tA, sA, t2, x, h1, h2, Eqv.refl _⟩
    · intro tA sA tB sB h1 h2
      exact ⟨tB, sB, (sends2_cfg_nofit A B hA hB s t ht hfit _ _).2 ⟨tA, sA, h1, h2⟩, Eqv.refl _⟩

/-! ### helpers for the statements in Props/C03 -/

/-- the configuration handlers do not depend on `ack`, `lastMsgId`, `rxData`, `CTL_FLAG` -/
theorem cfg_insensitive (K : Nat) (s s' : State) (p : Array Nat) (hW : P02.WF s)
    (hK : (u8at p 0, K) ∈ cfgTable) (e : Eqv0 s s') : RelRes (handlePayload s p) (handlePayload s' p) := by
  obtain ⟨s1, a1, run, _, _, _, _, ins⟩ := good_cfg K s p hW hK
  obtain ⟨s1', run', hq⟩ := ins s' e
  rw [run, run']
  exact ⟨hq, rfl⟩

/-- (acknowledgement byte, rx data byte) a device returns after a frame -/
def rxOf (x : M State) : Option (Nat × Nat) := match x with | .ok s => some (s.ack, s.rxData) | _ => none
/-- (acknowledgement byte, word `i` of the phase-correction memory) after a frame -/
def pcOf (x : M State) (i : Nat) : Option (Nat × Nat) :=
  match x with | .ok s => some (s.ack, rd s.phaseCorr i) | _ => none

/-- one-step structure of `pack_op2`: with the first operation done it is `pack_op` of the second -/
theorem packOp2_first_done (o1 o2 : Op) (n : Nat) (t : Tx) (h1 : o1.done = true) (h2 : o2.done = false) :
    packOp2 o1 o2 n t =
      match packOp o2 n t with
      | .error e => .error (e, { t with msgId := ((t.msgId + 1) % 256) &&& Drv.MSG_ID_MAX, slot2 := 0 })
      | .ok (o2', t', _) => .ok (o1, o2', t') := by
  unfold packOp2; simp only [h1, h2]
  cases packOp o2 n t <;> rfl

theorem packOp2_second_done (o1 o2 : Op) (n : Nat) (t : Tx) (h1 : o1.done = false) (h2 : o2.done = true) :
    packOp2 o1 o2 n t =
      match packOp o1 n t with
      | .error e => .error (e, { t with msgId := ((t.msgId + 1) % 256) &&& Drv.MSG_ID_MAX, slot2 := 0 })
      | .ok (o1', t', _) => .ok (o1', o2, t') := by
  unfold packOp2; simp only [h1, h2]
  cases packOp o1 n t <;> rfl

/-- both pending but the second does not fit behind the first: the frame is `pack_op` of the first alone -/
theorem packOp2_nofit (o1 o2 : Op) (n : Nat) (t : Tx) (h1 : o1.done = false) (h2 : o2.done = false)
    (o1' : Op) (t' : Tx) (sz1 : Nat) (hp : packOp o1 n t = .ok (o1', t', sz1))
    (hfit : ¬ t'.payload.size - sz1 ≥ o2.required n) :
    packOp2 o1 o2 n t = .ok (o1', o2, t') := by
  unfold packOp2; simp only [h1, h2, hp, hfit, if_false]

end Autd3.Tuple
