import Autd3.Lemmas.RtOps3
/-!
Round trips, part 4: the segment-swap datagrams and Gain.
-/
open Autd3 Autd3.Fw Autd3.Wire Autd3.Gen.Cpu Autd3.Gen
namespace Autd3.Rt

theorem swapWT_payload (b : Array Nat) (tag seg mode value : Nat) (hb : 16 ≤ b.size) (ht : tag < 256) :
    let d := swapWithTransition b 0 tag seg mode value
    u8at d 0 = tag ∧ u8at d 1 = seg % 256 ∧ u8at d 2 = mode % 256 ∧ u64at d 8 = value % 18446744073709551616 ∧
      d.size = b.size := by
  simp only [swapWithTransition, DrvLayout.SwapSegmentTWithTransition_size, DrvLayout.SwapSegmentTWithTransition_tag_off,
    DrvLayout.SwapSegmentTWithTransition_segment_off, DrvLayout.SwapSegmentTWithTransition_transition_mode_off,
    DrvLayout.SwapSegmentTWithTransition_transition_value_off, Nat.zero_add]
  refine ⟨?_, ?_, ?_, ?_, by simp⟩
  · rw [u8at_put64_other _ _ _ _ (by omega), u8at_put8, if_neg (by omega), u8at_put8, if_neg (by omega), u8at_put8,
      if_pos ⟨rfl, by simp; omega⟩]; omega
  · rw [u8at_put64_other _ _ _ _ (by omega), u8at_put8, if_neg (by omega), u8at_put8, if_pos ⟨rfl, by simp; omega⟩]
  · rw [u8at_put64_other _ _ _ _ (by omega), u8at_put8, if_pos ⟨rfl, by simp; omega⟩]
  · rw [u64at_put64_same _ _ _ (by simp; omega)]

/-! ### SwapSegment::Modulation -/

theorem swapMod_roundtrip' (s : State) (t : Tx) (hWF : WF s) (ht : TxOK t) (hf : Fresh s t)
    (seg mode value : Nat) (hseg : seg ≤ 1) (hv : ValidTr mode value) (hval : value < 18446744073709551616)
    (g1 : validateTransitionMode s.modSegment seg (sel s.modRep seg) mode = false)
    (g2 : validateSilencerSettings s (sel s.stmDiv s.stmSegment) (sel s.modDiv seg) = false)
    (hmiss : ¬(mode = TRANSITION_MODE_SYS_TIME ∧ value < s.dcSysTime + SYS_TIME_TRANSITION_MARGIN)) :
    ∃ t' s', Sends (.swapMod seg mode value) s t t' s' ∧ WF s' ∧ TxOK t' ∧ Fresh s' t' ∧
      Obs.reqModSeg s' = .ok seg ∧ Obs.modTransition s' = .ok (tmodeOf mode value) ∧ s'.modSegment = seg ∧
      SwapSet s.modSwap s'.modSwap s.dcSysTime (Obs.modRep s seg) (Obs.modDiv s seg) (Obs.modCycle s seg) seg
        (tmodeOf mode value) ∧
      s'.modMem0 = s.modMem0 ∧ s'.modMem1 = s.modMem1 ∧
      (∀ g, g ≤ 1 → Obs.modDiv s' g = Obs.modDiv s g ∧ Obs.modCycle s' g = Obs.modCycle s g ∧ Obs.modRep s' g = Obs.modRep s g) := by
  have ht' : t.payload.size = 622 := ht
  have hm := ValidTr_lt hv
  obtain ⟨p0, p1, p2, p8, psz⟩ := swapWT_payload t.payload Drv.TAG_ModulationSwapSegment seg mode value (by omega) (by decide)
  rw [Nat.mod_eq_of_lt (show seg < 256 by omega)] at p1
  rw [Nat.mod_eq_of_lt hm] at p2
  rw [Nat.mod_eq_of_lt hval] at p8
  refine single_glue' _ s t hWF hf _ _ _ rfl rfl rfl (by rw [psz]; exact ht') _ ?_
  intro r hW
  generalize swapWithTransition t.payload 0 Drv.TAG_ModulationSwapSegment seg mode value = d at p0 p1 p2 p8
  have hW2 : WF { s with lastMsgId := nextId t, rxData := r, modSegment := seg } := by wf_same hW
  obtain ⟨w, hu, hset, hW1, hregs, h64⟩ := modSegmentUpdate_ok _ hW2 seg mode value hseg hv hval hmiss
  refine ⟨_, ?_, hW1, rfl, ?_, ?_, rfl, ?_, rfl, rfl, ?_⟩
  · unfold handlePayload; rw [p0]
    show changeModSegment _ _ = _
    unfold changeModSegment
    simp only [FwLayout.ModulationUpdate_segment_off, FwLayout.ModulationUpdate_transition_mode_off,
      FwLayout.ModulationUpdate_transition_value_off, p1, p2, p8]
    rw [if_neg (by omega)]
    have g1' : validateTransitionMode s.modSegment seg (sel s.modRep seg) mode = false := g1
    have g2' : validateSilencerSettings { s with lastMsgId := nextId t, rxData := r } (sel s.stmDiv s.stmSegment)
        (sel s.modDiv seg) = false := g2
    simp only [g1', g2', Bool.false_eq_true, if_false]
    exact hu
  · unfold Obs.reqModSeg segReg
    simp only [reg_fin _ _ _ (show ADDR_MOD_REQ_RD_SEGMENT ≠ 0 by decide), hregs _ (show ADDR_MOD_REQ_RD_SEGMENT ≠ 0 by decide)]
    simp [ADDR_MOD_REQ_RD_SEGMENT, hseg]
  · have h64' : reg64 (fin (modReqPost { s with lastMsgId := nextId t, rxData := r, modSegment := seg } seg mode value w)
        (nextId t)) ADDR_MOD_TRANSITION_VALUE_0 = value := by
      refine Eq.trans ?_ h64; unfold reg64
      rw [reg_fin _ _ _ (by decide), reg_fin _ _ _ (by decide), reg_fin _ _ _ (by decide), reg_fin _ _ _ (by decide)]
    unfold Obs.modTransition
    rw [h64', reg_fin _ _ _ (by decide), hregs _ (by decide)]
    exact decodeTMode_valid _ _ _ hv
  · exact hset
  · intro g hg
    unfold Obs.modDiv Obs.modCycle Obs.modRep
    simp only [ADDR_MOD_FREQ_DIV0, ADDR_MOD_CYCLE0, ADDR_MOD_REP0]
    rw [reg_fin _ _ _ (by omega), reg_fin _ _ _ (by omega), reg_fin _ _ _ (by omega), hregs _ (by omega),
      hregs _ (by omega), hregs _ (by omega)]
    rw [if_neg (by omega), if_neg (by omega), if_neg (by omega), if_neg (by omega), if_neg (by omega), if_neg (by omega),
      if_neg (by omega), if_neg (by omega), if_neg (by omega)]
    exact ⟨rfl, rfl, rfl⟩
/-! ### SwapSegment::FociSTM -/

theorem swapFoci_roundtrip' (s : State) (t : Tx) (hWF : WF s) (ht : TxOK t) (hf : Fresh s t)
    (seg mode value : Nat) (hseg : seg ≤ 1) (hv : ValidTr mode value) (hval : value < 18446744073709551616)
    (g0 : sel s.stmMode seg = STM_MODE_FOCUS)
    (g1 : validateTransitionMode s.stmSegment seg (sel s.stmRep seg) mode = false)
    (g2 : validateSilencerSettings s (sel s.stmDiv seg) (sel s.modDiv s.modSegment) = false)
    (hmiss : ¬(mode = TRANSITION_MODE_SYS_TIME ∧ value < s.dcSysTime + SYS_TIME_TRANSITION_MARGIN)) :
    ∃ t' s', Sends (.swapFoci seg mode value) s t t' s' ∧ WF s' ∧ TxOK t' ∧ Fresh s' t' ∧
      Obs.reqStmSeg s' = .ok seg ∧ Obs.stmTransition s' = .ok (tmodeOf mode value) ∧ s'.stmSegment = seg ∧
      SwapSet s.stmSwap s'.stmSwap s.dcSysTime (Obs.stmRep s seg) (Obs.stmDiv s seg) (Obs.stmCycle s seg) seg
        (tmodeOf mode value) ∧
      s'.stmMem0 = s.stmMem0 ∧ s'.stmMem1 = s.stmMem1 ∧
      (∀ g, g ≤ 1 → Obs.stmDiv s' g = Obs.stmDiv s g ∧ Obs.stmCycle s' g = Obs.stmCycle s g ∧
        Obs.stmRep s' g = Obs.stmRep s g ∧ Obs.isStmGainMode s' g = Obs.isStmGainMode s g) := by
  have ht' : t.payload.size = 622 := ht
  have hm := ValidTr_lt hv
  obtain ⟨p0, p1, p2, p8, psz⟩ := swapWT_payload t.payload Drv.TAG_FociSTMSwapSegment seg mode value (by omega) (by decide)
  rw [Nat.mod_eq_of_lt (show seg < 256 by omega)] at p1
  rw [Nat.mod_eq_of_lt hm] at p2
  rw [Nat.mod_eq_of_lt hval] at p8
  refine single_glue' _ s t hWF hf _ _ _ rfl rfl rfl (by rw [psz]; exact ht') _ ?_
  intro r hW
  generalize swapWithTransition t.payload 0 Drv.TAG_FociSTMSwapSegment seg mode value = d at p0 p1 p2 p8
  have hW2 : WF { s with lastMsgId := nextId t, rxData := r, stmSegment := seg } := by wf_same hW
  obtain ⟨w, hu, hset, hW1, hregs, h64⟩ := stmSegmentUpdate_ok _ hW2 seg mode value hseg hv hval hmiss
  refine ⟨_, ?_, hW1, rfl, ?_, ?_, rfl, hset, rfl, rfl, ?_⟩
  · unfold handlePayload; rw [p0]
    show changeFociStmSegment _ _ = _
    unfold changeFociStmSegment
    simp only [FwLayout.FociSTMUpdate_segment_off, FwLayout.FociSTMUpdate_transition_mode_off,
      FwLayout.FociSTMUpdate_transition_value_off, p1, p2, p8]
    rw [if_neg (by omega)]
    have g0' : sel s.stmMode seg = STM_MODE_FOCUS := g0
    have g1' : validateTransitionMode s.stmSegment seg (sel s.stmRep seg) mode = false := g1
    have g2' : validateSilencerSettings { s with lastMsgId := nextId t, rxData := r } (sel s.stmDiv seg)
        (sel s.modDiv s.modSegment) = false := g2
    simp only [g0', ne_eq, not_true_eq_false, if_false]
    simp only [g1', g2', Bool.false_eq_true, if_false]
    exact hu
  · unfold Obs.reqStmSeg segReg
    simp only [reg_fin _ _ _ (show ADDR_STM_REQ_RD_SEGMENT ≠ 0 by decide), hregs _ (show ADDR_STM_REQ_RD_SEGMENT ≠ 0 by decide)]
    simp [ADDR_STM_REQ_RD_SEGMENT, hseg]
  · have h64' : reg64 (fin (stmReqPost { s with lastMsgId := nextId t, rxData := r, stmSegment := seg } seg mode value w)
        (nextId t)) ADDR_STM_TRANSITION_VALUE_0 = value := by
      refine Eq.trans ?_ h64; unfold reg64
      rw [reg_fin _ _ _ (by decide), reg_fin _ _ _ (by decide), reg_fin _ _ _ (by decide), reg_fin _ _ _ (by decide)]
    unfold Obs.stmTransition
    rw [h64', reg_fin _ _ _ (by decide), hregs _ (by decide)]
    exact decodeTMode_valid _ _ _ hv
  · intro g hg
    have hsame : ∀ a, 83 ≤ a → a < 95 →
        reg (fin (stmReqPost { s with lastMsgId := nextId t, rxData := r, stmSegment := seg } seg mode value w)
          (nextId t)) a = reg s a := by
      intro a h1 h2
      rw [reg_fin _ _ _ (by omega), hregs _ (by omega), if_neg (by omega), if_neg (by omega), if_neg (by omega)]
      rfl
    unfold Obs.stmDiv Obs.stmCycle Obs.stmRep Obs.isStmGainMode
    simp only [ADDR_STM_FREQ_DIV0, ADDR_STM_CYCLE0, ADDR_STM_REP0, ADDR_STM_MODE0]
    simp only [hsame (85 + g) (by omega) (by omega), hsame (83 + g) (by omega) (by omega),
      hsame (87 + g) (by omega) (by omega), hsame (89 + g) (by omega) (by omega)]
    exact ⟨trivial, trivial, trivial, rfl⟩

/-! ### SwapSegment::GainSTM -/

theorem swapGainStm_roundtrip' (s : State) (t : Tx) (hWF : WF s) (ht : TxOK t) (hf : Fresh s t)
    (seg mode value : Nat) (hseg : seg ≤ 1) (hv : ValidTr mode value) (hval : value < 18446744073709551616)
    (g0 : sel s.stmMode seg = STM_MODE_GAIN ∧ sel s.stmCycle seg ≠ 1)
    (g1 : validateTransitionMode s.stmSegment seg (sel s.stmRep seg) mode = false)
    (g2 : validateSilencerSettings s (sel s.stmDiv seg) (sel s.modDiv s.modSegment) = false)
    (hmiss : ¬(mode = TRANSITION_MODE_SYS_TIME ∧ value < s.dcSysTime + SYS_TIME_TRANSITION_MARGIN)) :
    ∃ t' s', Sends (.swapGainStm seg mode value) s t t' s' ∧ WF s' ∧ TxOK t' ∧ Fresh s' t' ∧
      Obs.reqStmSeg s' = .ok seg ∧ Obs.stmTransition s' = .ok (tmodeOf mode value) ∧ s'.stmSegment = seg ∧
      SwapSet s.stmSwap s'.stmSwap s.dcSysTime (Obs.stmRep s seg) (Obs.stmDiv s seg) (Obs.stmCycle s seg) seg
        (tmodeOf mode value) ∧
      s'.stmMem0 = s.stmMem0 ∧ s'.stmMem1 = s.stmMem1 ∧
      (∀ g, g ≤ 1 → Obs.stmDiv s' g = Obs.stmDiv s g ∧ Obs.stmCycle s' g = Obs.stmCycle s g ∧
        Obs.stmRep s' g = Obs.stmRep s g ∧ Obs.isStmGainMode s' g = Obs.isStmGainMode s g) := by
  have ht' : t.payload.size = 622 := ht
  have hm := ValidTr_lt hv
  obtain ⟨p0, p1, p2, p8, psz⟩ := swapWT_payload t.payload Drv.TAG_GainSTMSwapSegment seg mode value (by omega) (by decide)
  rw [Nat.mod_eq_of_lt (show seg < 256 by omega)] at p1
  rw [Nat.mod_eq_of_lt hm] at p2
  rw [Nat.mod_eq_of_lt hval] at p8
  refine single_glue' _ s t hWF hf _ _ _ rfl rfl rfl (by rw [psz]; exact ht') _ ?_
  intro r hW
  generalize swapWithTransition t.payload 0 Drv.TAG_GainSTMSwapSegment seg mode value = d at p0 p1 p2 p8
  have hW2 : WF { s with lastMsgId := nextId t, rxData := r, stmSegment := seg } := by wf_same hW
  obtain ⟨w, hu, hset, hW1, hregs, h64⟩ := stmSegmentUpdate_ok _ hW2 seg mode value hseg hv hval hmiss
  refine ⟨_, ?_, hW1, rfl, ?_, ?_, rfl, hset, rfl, rfl, ?_⟩
  · unfold handlePayload; rw [p0]
    show changeGainStmSegment _ _ = _
    unfold changeGainStmSegment
    simp only [FwLayout.GainSTMUpdate_segment_off, FwLayout.GainSTMUpdate_transition_mode_off,
      FwLayout.GainSTMUpdate_transition_value_off, p1, p2, p8]
    rw [if_neg (by omega)]
    have g0' : sel s.stmMode seg = STM_MODE_GAIN ∧ sel s.stmCycle seg ≠ 1 := g0
    have g1' : validateTransitionMode s.stmSegment seg (sel s.stmRep seg) mode = false := g1
    have g2' : validateSilencerSettings { s with lastMsgId := nextId t, rxData := r } (sel s.stmDiv seg)
        (sel s.modDiv s.modSegment) = false := g2
    simp only [g0'.1, g0'.2, ne_eq, not_true_eq_false, false_or, if_false]
    simp only [g1', g2', Bool.false_eq_true, if_false]
    exact hu
  · unfold Obs.reqStmSeg segReg
    simp only [reg_fin _ _ _ (show ADDR_STM_REQ_RD_SEGMENT ≠ 0 by decide), hregs _ (show ADDR_STM_REQ_RD_SEGMENT ≠ 0 by decide)]
    simp [ADDR_STM_REQ_RD_SEGMENT, hseg]
  · have h64' : reg64 (fin (stmReqPost { s with lastMsgId := nextId t, rxData := r, stmSegment := seg } seg mode value w)
        (nextId t)) ADDR_STM_TRANSITION_VALUE_0 = value := by
      refine Eq.trans ?_ h64; unfold reg64
      rw [reg_fin _ _ _ (by decide), reg_fin _ _ _ (by decide), reg_fin _ _ _ (by decide), reg_fin _ _ _ (by decide)]
    unfold Obs.stmTransition
    rw [h64', reg_fin _ _ _ (by decide), hregs _ (by decide)]
    exact decodeTMode_valid _ _ _ hv
  · intro g hg
    have hsame : ∀ a, 83 ≤ a → a < 95 →
        reg (fin (stmReqPost { s with lastMsgId := nextId t, rxData := r, stmSegment := seg } seg mode value w)
          (nextId t)) a = reg s a := by
      intro a h1 h2
      rw [reg_fin _ _ _ (by omega), hregs _ (by omega), if_neg (by omega), if_neg (by omega), if_neg (by omega)]
      rfl
    unfold Obs.stmDiv Obs.stmCycle Obs.stmRep Obs.isStmGainMode
    simp only [ADDR_STM_FREQ_DIV0, ADDR_STM_CYCLE0, ADDR_STM_REP0, ADDR_STM_MODE0]
    simp only [hsame (85 + g) (by omega) (by omega), hsame (83 + g) (by omega) (by omega),
      hsame (87 + g) (by omega) (by omega), hsame (89 + g) (by omega) (by omega)]
    exact ⟨trivial, trivial, trivial, rfl⟩

theorem decodeTMode_zero (v : Nat) (site : String) : decodeTMode 0 v site = .ok .syncIdx := by
  unfold decodeTMode; simp [TRANSITION_MODE_SYNC_IDX]

/-- the tail of `write_gain`/`change_gain_segment`: request register := seg, mode := SyncIdx, strobe -/
def gainReqPost (s : State) (seg : Nat) (w : Swap) : State :=
  setStmSwap (wr (wr (wr (wr s ADDR_STM_REQ_RD_SEGMENT seg) ADDR_STM_TRANSITION_MODE TRANSITION_MODE_SYNC_IDX)
    ADDR_CTL_FLAG (s.flagsInternal ||| CTL_FLAG_STM_SET)) ADDR_CTL_FLAG s.flagsInternal) w

theorem gainReq_ok (s : State) (hW : WF s) (seg : Nat) (hseg : seg ≤ 1) :
    ∃ w, setAndWaitUpdate (wr (wr s ADDR_STM_REQ_RD_SEGMENT seg) ADDR_STM_TRANSITION_MODE TRANSITION_MODE_SYNC_IDX)
        CTL_FLAG_STM_SET = .ok (gainReqPost s seg w) ∧
      SwapSet s.stmSwap w s.dcSysTime (reg s (ADDR_STM_REP0 + seg)) (reg s (ADDR_STM_FREQ_DIV0 + seg))
        (reg s (ADDR_STM_CYCLE0 + seg) + 1) seg .syncIdx ∧ WF (gainReqPost s seg w) ∧
      (∀ a, a ≠ 0 → reg (gainReqPost s seg w) a = if a = 95 then 0 else if a = 82 then seg else reg s a) := by
  have hc : s.ctl.size = 256 := hW.ctl
  have hWB : WF (wr (wr s ADDR_STM_REQ_RD_SEGMENT seg) ADDR_STM_TRANSITION_MODE TRANSITION_MODE_SYNC_IDX) :=
    WF_wr (WF_wr hW _ _ (Or.inl (by decide))) _ _ (Or.inl (by decide))
  have hB : ∀ a, reg (wr (wr s ADDR_STM_REQ_RD_SEGMENT seg) ADDR_STM_TRANSITION_MODE TRANSITION_MODE_SYNC_IDX) a =
      if a = 95 then 0 else if a = 82 then seg else reg s a := by
    intro a
    simp only [reg_wr, wr_ctl, Array.size_setIfInBounds, hc, ADDR_STM_REQ_RD_SEGMENT, ADDR_STM_TRANSITION_MODE,
      TRANSITION_MODE_SYNC_IDX, Nat.mod_eq_of_lt (show seg < 65536 by omega)]
    simp
  unfold gainReqPost
  generalize hsB : wr (wr s ADDR_STM_REQ_RD_SEGMENT seg) ADDR_STM_TRANSITION_MODE TRANSITION_MODE_SYNC_IDX = sB at hWB hB
  have hBf : sB.flagsInternal = s.flagsInternal := by rw [← hsB]; rfl
  have hBs : sB.stmSwap = s.stmSwap := by rw [← hsB]; rfl
  have hBt : sB.dcSysTime = s.dcSysTime := by rw [← hsB]; rfl
  have e82 : reg sB ADDR_STM_REQ_RD_SEGMENT = seg := by rw [hB]; rfl
  have e95 : reg sB ADDR_STM_TRANSITION_MODE = 0 := by rw [hB]; rfl
  obtain ⟨w, hsaw, hset⟩ := saw_stm_ok sB hWB.ctl hWB.flags (by rw [e82]; exact hseg) .syncIdx
    (by rw [e95]; exact decodeTMode_zero _ _) hWB.stmSwap
  have er : ∀ base, 83 ≤ base → base + 1 < 95 → reg sB (base + seg) = reg s (base + seg) := by
    intro base h1 h2
    rw [hB, if_neg (by omega), if_neg (by omega)]
  rw [e82, er ADDR_STM_REP0 (by decide) (by decide), er ADDR_STM_FREQ_DIV0 (by decide) (by decide),
    er ADDR_STM_CYCLE0 (by decide) (by decide), hBs, hBt] at hset
  rw [hBf] at hsaw
  refine ⟨w, hsaw, hset, ?_, ?_⟩
  · refine WF_setStmSwap (WF_wr (WF_wr hWB _ _ (Or.inl (by decide))) _ _ (Or.inl (by decide))) w ?_
    have hd : 1 ≤ reg s (ADDR_STM_FREQ_DIV0 + seg) := by
      rcases (show seg = 0 ∨ seg = 1 by omega) with h | h <;> subst h
      · exact hW.stmDiv0
      · exact hW.stmDiv1
    exact SwapOK_set _ _ hW.stmSwap seg _ _ hd (by omega) hset.freqDiv hset.cycle
  · intro a ha
    rw [reg_setStmSwap, reg_wr, if_neg (by simp [ADDR_CTL_FLAG]; omega), reg_wr, if_neg (by simp [ADDR_CTL_FLAG]; omega), hB]


/-! ### SwapSegment::Gain -/

theorem swapGain_roundtrip' (s : State) (t : Tx) (hWF : WF s) (ht : TxOK t) (hf : Fresh s t)
    (seg value : Nat) (hseg : seg ≤ 1)
    (g0 : sel s.stmMode seg = STM_MODE_GAIN ∧ sel s.stmCycle seg = 1)
    (g2 : validateSilencerSettings s (sel s.stmDiv seg) (sel s.modDiv s.modSegment) = false) :
    ∃ t' s', Sends (.swapGain seg Drv.TRANSITION_MODE_IMMEDIATE value) s t t' s' ∧ WF s' ∧ TxOK t' ∧ Fresh s' t' ∧
      Obs.reqStmSeg s' = .ok seg ∧ Obs.stmTransition s' = .ok .syncIdx ∧ s'.stmSegment = seg ∧
      SwapSet s.stmSwap s'.stmSwap s.dcSysTime (Obs.stmRep s seg) (Obs.stmDiv s seg) (Obs.stmCycle s seg) seg .syncIdx ∧
      s'.stmMem0 = s.stmMem0 ∧ s'.stmMem1 = s.stmMem1 ∧
      (∀ g, g ≤ 1 → Obs.stmDiv s' g = Obs.stmDiv s g ∧ Obs.stmCycle s' g = Obs.stmCycle s g ∧
        Obs.stmRep s' g = Obs.stmRep s g ∧ Obs.isStmGainMode s' g = Obs.isStmGainMode s g) := by
  have ht' : t.payload.size = 622 := ht
  have p0 := u8at_tagValue_0 t.payload Drv.TAG_GainSwapSegment seg (by omega) (by decide)
  have p1 := u8at_tagValue_1 t.payload Drv.TAG_GainSwapSegment seg (by omega)
  rw [Nat.mod_eq_of_lt (show seg < 256 by omega)] at p1
  refine single_glue' _ s t hWF hf _ _ _ rfl rfl rfl (by simpa using ht') _ ?_
  intro r hW
  generalize tagValue t.payload 0 Drv.TAG_GainSwapSegment seg = d at p0 p1
  have hW2 : WF { s with lastMsgId := nextId t, rxData := r, stmSegment := seg } := by wf_same hW
  obtain ⟨w, hu, hset, hW1, hregs⟩ := gainReq_ok _ hW2 seg hseg
  refine ⟨_, ?_, hW1, rfl, ?_, ?_, rfl, hset, rfl, rfl, ?_⟩
  · unfold handlePayload; rw [p0]
    show changeGainSegment _ _ = _
    unfold changeGainSegment
    simp only [FwLayout.GainUpdate_segment_off, p1]
    rw [if_neg (by omega)]
    have g0' : sel s.stmMode seg = STM_MODE_GAIN ∧ sel s.stmCycle seg = 1 := g0
    have g2' : validateSilencerSettings { s with lastMsgId := nextId t, rxData := r } (sel s.stmDiv seg)
        (sel s.modDiv s.modSegment) = false := g2
    simp only [g0'.1, g0'.2, g2', Bool.false_eq_true, ne_eq, not_true_eq_false, or_self, if_false,
      ctlWrite_main _ ADDR_STM_REQ_RD_SEGMENT _ (by decide), ctlWrite_main _ ADDR_STM_TRANSITION_MODE _ (by decide), ok_bind]
    rw [hu]; rfl
  · unfold Obs.reqStmSeg segReg
    simp only [reg_fin _ _ _ (show ADDR_STM_REQ_RD_SEGMENT ≠ 0 by decide), hregs _ (show ADDR_STM_REQ_RD_SEGMENT ≠ 0 by decide)]
    simp [ADDR_STM_REQ_RD_SEGMENT, hseg]
  · unfold Obs.stmTransition
    rw [reg_fin _ _ _ (by decide), hregs _ (by decide)]
    exact decodeTMode_zero _ _
  · intro g hg
    have hsame : ∀ a, 83 ≤ a → a < 95 →
        reg (fin (gainReqPost { s with lastMsgId := nextId t, rxData := r, stmSegment := seg } seg w)
          (nextId t)) a = reg s a := by
      intro a h1 h2
      rw [reg_fin _ _ _ (by omega), hregs _ (by omega), if_neg (by omega), if_neg (by omega)]
      rfl
    unfold Obs.stmDiv Obs.stmCycle Obs.stmRep Obs.isStmGainMode
    simp only [ADDR_STM_FREQ_DIV0, ADDR_STM_CYCLE0, ADDR_STM_REP0, ADDR_STM_MODE0]
    simp only [hsame (85 + g) (by omega) (by omega), hsame (83 + g) (by omega) (by omega),
      hsame (87 + g) (by omega) (by omega), hsame (89 + g) (by omega) (by omega)]
    exact ⟨trivial, trivial, trivial, rfl⟩


end Autd3.Rt
