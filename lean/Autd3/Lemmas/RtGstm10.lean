import Autd3.Lemmas.RtGstm9
/-!
GainSTM, part 10: the send loop and the round-trip theorem `gainStm_roundtrip'`.
-/
set_option linter.unusedSimpArgs false
open Autd3 Autd3.Fw Autd3.Wire Autd3.Gen.Cpu Autd3.Gen
namespace Autd3.Rt

/-- the side conditions on a GainSTM datagram at the integer level -/
structure GOK (s0 : State) (mode seg : Nat) (tr : Tr) (rep div : Nat) (patterns : Array (Array Nat)) : Prop where
  hseg : seg ≤ 1
  hmode : mode ≤ 2
  size : 2 ≤ patterns.size ∧ patterns.size ≤ 1024
  drives : ∀ idx i, rd (patAt patterns idx) i < 65536
  hrep : rep < 65536
  hdiv : 1 ≤ div ∧ div < 65536
  htr : ∀ m v, tr = some (m, v) → ValidTr m v ∧ v < 18446744073709551616 ∧
    ¬(m = TRANSITION_MODE_SYS_TIME ∧ v < s0.dcSysTime + SYS_TIME_TRANSITION_MARGIN)

theorem g_trMode_lt {s0 : State} {mode seg : Nat} {tr : Tr} {rep div : Nat} {patterns : Array (Array Nat)}
    (H : GOK s0 mode seg tr rep div patterns) : trMode tr < 256 ∧ trValue tr < 18446744073709551616 := by
  cases htr : tr with
  | none => exact ⟨by decide, by decide⟩
  | some mv =>
    obtain ⟨m, v⟩ := mv
    obtain ⟨hv, hv64, _⟩ := H.htr m v htr
    exact ⟨ValidTr_lt hv, hv64⟩

theorem perFrame_page (mode c : Nat) (hm : mode ≤ 2) (hc : c % perFrame mode = 0) : c % 64 + perFrame mode ≤ 64 := by
  rcases (show mode = 0 ∨ mode = 1 ∨ mode = 2 by omega) with h | h | h <;> subst h <;> simp [perFrame] at hc ⊢ <;> omega

theorem perFrame_step (mode c : Nat) (hm : mode ≤ 2) (hc : c % perFrame mode = 0) : (c + perFrame mode) % perFrame mode = 0 := by
  rw [Nat.add_mod_right]; exact hc

theorem g_loop {s0 : State} {mode seg : Nat} {tr : Tr} {rep div : Nat} {patterns : Array (Array Nat)}
    (H : GOK s0 mode seg tr rep div patterns) :
    ∀ fuel c s t, GInv s0 s seg tr rep div mode patterns c → 0 < c → c % perFrame mode = 0 → c < patterns.size →
      patterns.size - c ≤ perFrame mode * fuel → TxOK t → Fresh s t →
      ∃ t' s', sendLoop (fuel + 1) { dg := .gainStm mode seg tr rep div patterns, sent := c, done := false } s t = some (t', s') ∧
        WF s' ∧ TxOK t' ∧ Fresh s' t' ∧ GHeld s0 s' seg tr rep div mode patterns := by
  have hpf := perFrame_bounds mode
  intro fuel
  induction fuel with
  | zero => intro c s t _ _ _ hcn hf; omega
  | succ fuel ih =>
    intro c s t hI hc0 hcm hcn hfuel ht hf
    have ht' : t.payload.size = 622 := ht
    have hnt : s.numTr ≤ 249 := hI.wf.numTr
    have hpk := pack_gstm_next mode seg tr rep div patterns s.numTr t.payload c ht' hnt H.size H.hmode H.hseg hc0 hcn
    generalize hsend : min (perFrame mode) (patterns.size - c) = send at hpk
    have hs : 1 ≤ send ∧ send ≤ perFrame mode := by omega
    obtain ⟨bl, b1, b2, b3, b4, b5⟩ := gstmFlagByte_bits false (decide (c + send = patterns.size)) tr.isSome seg send H.hseg
      (by omega)
    obtain ⟨p0, p1, pdx, psz⟩ := gstmNext_payload t.payload patterns mode s.numTr c send
      (gstmFlagByte false (decide (c + send = patterns.size)) tr.isSome seg send) ht' bl
    have hd := gstm_hd mode 2 s.numTr patterns c t.payload send _ H.hmode ht' (by omega) hs pdx H.drives
    generalize gstmNextPayload t.payload patterns mode s.numTr c send
      (gstmFlagByte false (decide (c + send = patterns.size)) tr.isSome seg send) = d at hpk p0 p1 pdx psz hd
    have hd : ∀ j, j < (gstmFns mode send).length → ∀ i, i < s0.numTr →
        nthF (gstmFns mode send) j (u16at d (2 + 2 * i)) % 65536 = expDrive mode (rd (patAt patterns (c + j)) i) :=
      fun j hj i hi => hd j hj i (by rw [hI.numTr]; exact hi)
    obtain ⟨r, hr⟩ := pre_eq s (nextId t)
    have hIp := GInv_pre hI (nextId t) r
    have heq := gstm_next_handle_eq { s with lastMsgId := nextId t, rxData := r } d seg send H.hseg (by omega)
      (decide (c + send = patterns.size)) tr.isSome p0 p1
    have hlen := gstmFns_length mode send H.hmode hs
    have hpg := perFrame_page mode c H.hmode hcm
    by_cases hl : c + send = patterns.size
    · -- last frame
      rw [show decide (c + send = patterns.size) = true from decide_eq_true hl] at b2 b3 b5 heq hpk
      have hfin : ∃ sE, handlePayload (pre s (nextId t)) d = .ok (sE, NO_ERR) ∧ WF sE ∧
          GHeld s0 sE seg tr rep div mode patterns ∧ sE.lastMsgId = nextId t := by
        rw [hr, heq]
        cases htr : tr with
        | none =>
          subst htr
          obtain ⟨sE, h1, h2, h3, h4⟩ := g_tail_last_notr H.hseg H.hmode hIp d 2 _ (by rw [b5, hlen]; exact hl)
            ⟨by have := H.size; omega, H.size.2⟩ (by rw [b5, hlen]; omega) (by rw [b5]; exact hd) b2 (by rw [b3]; rfl)
          exact ⟨sE, h1, h2, h3, h4⟩
        | some mv =>
          obtain ⟨m, v⟩ := mv
          subst htr
          obtain ⟨hv, hv64, hmiss⟩ := H.htr m v rfl
          obtain ⟨sE, h1, h2, h3, h4⟩ := g_tail_last_tr H.hseg H.hmode hIp d 2 _ (by rw [b5, hlen]; exact hl)
            ⟨by have := H.size; omega, H.size.2⟩ (by rw [b5, hlen]; omega) (by rw [b5]; exact hd) b2 (by rw [b3]; rfl)
            hv hv64 hmiss
          exact ⟨sE, h1, h2, h3, h4⟩
      obtain ⟨sE, hh, hWE, hHeld, hlast⟩ := hfin
      refine ⟨{ msgId := nextId t, slot2 := 0, payload := d }, fin sE (nextId t), ?_, WF_fin hWE _, psz,
        Fresh_after sE t d hlast, GHeld_fin hHeld _⟩
      rw [sendLoop_step _ _ s t rfl _ d _ hpk hf sE hh, sendLoop_done _ _ _ _ rfl]
    · -- more frames follow
      have hw : send = perFrame mode := by omega
      rw [show decide (c + send = patterns.size) = false from decide_eq_false hl] at b2 b3 b5 heq hpk
      obtain ⟨s2, h1, hI2, hlast⟩ := g_tail_nonlast H.hseg H.hmode hIp d 2 _ (by rw [b5, hlen]; have := H.size.2; omega)
        (by rw [b5, hlen]; omega) (by rw [b5]; exact hd) b2
      have hh : handlePayload (pre s (nextId t)) d = .ok (s2, NO_ERR) := by rw [hr, heq, h1]
      rw [sendLoop_step _ _ s t rfl _ d _ hpk hf s2 hh]
      rw [b5, hlen] at hI2
      exact ih (c + send) (fin s2 (nextId t)) _ (GInv_fin hI2 _) (by omega) (by rw [hw]; exact perFrame_step mode c H.hmode hcm)
        (by omega) (by rw [Nat.mul_succ] at hfuel; omega) psz (Fresh_after s2 t d hlast)

/-- **GainSTM round trip**, the three modes, 2..1024 patterns: all frames are accepted and the device then
holds, for every pattern and transducer, the expected drive word of the mode (`expDrive`), cycle = number
of patterns, gain mode, division, loop count, and (iff given) the request -/
theorem gainStm_roundtrip' (s : State) (t : Tx) (hWF : WF s) (ht : TxOK t) (hf : Fresh s t)
    (mode seg : Nat) (tr : Tr) (rep div : Nat) (patterns : Array (Array Nat)) (H : GOK s mode seg tr rep div patterns)
    (g1 : validateTransitionMode s.stmSegment seg rep (trMode tr) = false)
    (g2 : validateSilencerSettings s div (sel s.modDiv s.modSegment) = false) :
    ∃ t' s', Sends (.gainStm mode seg tr rep div patterns) s t t' s' ∧ WF s' ∧ TxOK t' ∧ Fresh s' t' ∧
      GHeld s s' seg tr rep div mode patterns := by
  have ht' : t.payload.size = 622 := ht
  have hpf := perFrame_bounds mode
  have hnt : s.numTr ≤ 249 := hWF.numTr
  obtain ⟨htm, htv⟩ := g_trMode_lt H
  have hpk := pack_gstm_first mode seg tr rep div patterns s.numTr t.payload ht' hnt H.size H.hmode H.hseg
  generalize hsend : min (perFrame mode) patterns.size = send at hpk
  have hs : 1 ≤ send ∧ send ≤ perFrame mode := by have := H.size; omega
  obtain ⟨bl, b1, b2, b3, b4, b5⟩ := gstmFlagByte_bits true (decide (send = patterns.size)) tr.isSome seg send H.hseg (by omega)
  obtain ⟨p0, p1, p2, p3, p4, p6, p8, pdx, psz⟩ := gstmFirst_payload t.payload patterns mode s.numTr send
    (gstmFlagByte true (decide (send = patterns.size)) tr.isSome seg send) (trMode tr) div rep (trValue tr) ht' bl
  rw [Nat.mod_eq_of_lt (show mode < 256 by have := H.hmode; omega)] at p2
  rw [Nat.mod_eq_of_lt htm] at p3
  rw [Nat.mod_eq_of_lt H.hdiv.2] at p4
  rw [Nat.mod_eq_of_lt H.hrep] at p6
  rw [Nat.mod_eq_of_lt htv] at p8
  have hd := gstm_hd mode 16 s.numTr patterns 0 t.payload send _ H.hmode ht' (by omega) hs pdx H.drives
  generalize gstmFirstPayload t.payload patterns mode s.numTr send
    (gstmFlagByte true (decide (send = patterns.size)) tr.isSome seg send) (trMode tr) div rep (trValue tr) = d
    at hpk p0 p1 p2 p3 p4 p6 p8 pdx psz hd
  obtain ⟨r, hr⟩ := pre_eq s (nextId t)
  have heq := gstm_first_handle_eq { s with lastMsgId := nextId t, rxData := r } d seg rep div (trMode tr) (trValue tr) mode
    send H.hseg (by omega) (decide (send = patterns.size)) tr.isSome p0 p1 p2 p3 p4 p6 p8 g1 g2
  have hI0 := GInv_head s hWF (nextId t) r seg H.hseg tr rep div mode patterns H.hrep H.hdiv
  have hl0 : (gstmHead { s with lastMsgId := nextId t, rxData := r } seg rep div (trMode tr) (trValue tr) mode).lastMsgId =
      nextId t := by simp [gstmHead]
  have hlen := gstmFns_length mode send H.hmode hs
  by_cases hl : send = patterns.size
  · -- a single frame
    rw [show decide (send = patterns.size) = true from decide_eq_true hl] at b2 b3 b5 heq hpk
    have hfin : ∃ sE, handlePayload (pre s (nextId t)) d = .ok (sE, NO_ERR) ∧ WF sE ∧
        GHeld s sE seg tr rep div mode patterns ∧ sE.lastMsgId = nextId t := by
      rw [hr, heq]
      cases htr : tr with
      | none =>
        subst htr
        obtain ⟨sE, h1, h2, h3, h4⟩ := g_tail_last_notr H.hseg H.hmode hI0 d 16 _ (by rw [b5, hlen, Nat.zero_add]; exact hl)
          ⟨by have := H.size; omega, H.size.2⟩ (by rw [b5, hlen]; omega) (by rw [b5]; exact hd) b2 (by rw [b3]; rfl)
        exact ⟨sE, h1, h2, h3, h4.trans hl0⟩
      | some mv =>
        obtain ⟨m, v⟩ := mv
        subst htr
        obtain ⟨hv, hv64, hmiss⟩ := H.htr m v rfl
        obtain ⟨sE, h1, h2, h3, h4⟩ := g_tail_last_tr H.hseg H.hmode hI0 d 16 _ (by rw [b5, hlen, Nat.zero_add]; exact hl)
          ⟨by have := H.size; omega, H.size.2⟩ (by rw [b5, hlen]; omega) (by rw [b5]; exact hd) b2 (by rw [b3]; rfl)
          hv hv64 hmiss
        exact ⟨sE, h1, h2, h3, h4.trans hl0⟩
    obtain ⟨sE, hh, hWE, hHeld, hlast⟩ := hfin
    refine ⟨{ msgId := nextId t, slot2 := 0, payload := d }, fin sE (nextId t), ⟨2, ?_⟩, WF_fin hWE _, psz,
      Fresh_after sE t d hlast, GHeld_fin hHeld _⟩
    show sendLoop 2 { dg := .gainStm mode seg tr rep div patterns, sent := 0, done := false } s t = _
    rw [sendLoop_step _ _ s t rfl _ d _ hpk hf sE hh, sendLoop_done _ _ _ _ rfl]
  · -- more frames follow
    have hw : send = perFrame mode := by omega
    rw [show decide (send = patterns.size) = false from decide_eq_false hl] at b2 b3 b5 heq hpk
    obtain ⟨s2, h1, hI2, hlast⟩ := g_tail_nonlast H.hseg H.hmode hI0 d 16 _ (by rw [b5, hlen]; have := H.size.2; omega)
      (by rw [b5, hlen]; omega) (by rw [b5]; exact hd) b2
    have hh : handlePayload (pre s (nextId t)) d = .ok (s2, NO_ERR) := by rw [hr, heq, h1]
    rw [b5, hlen, Nat.zero_add] at hI2
    obtain ⟨t', s', hS, hW', hT', hF', hHeld⟩ := g_loop H patterns.size send (fin s2 (nextId t))
      { msgId := nextId t, slot2 := 0, payload := d } (GInv_fin hI2 _) (by omega) (by rw [hw]; exact Nat.mod_self _)
      (by have := H.size; omega)
      (by calc patterns.size - send ≤ patterns.size := Nat.sub_le _ _
            _ = 1 * patterns.size := (Nat.one_mul _).symm
            _ ≤ perFrame mode * patterns.size := Nat.mul_le_mul_right _ hpf.1) psz
      (Fresh_after s2 t d (hlast.trans hl0))
    refine ⟨t', s', ⟨patterns.size + 1 + 1, ?_⟩, hW', hT', hF', hHeld⟩
    show sendLoop _ { dg := .gainStm mode seg tr rep div patterns, sent := 0, done := false } s t = _
    rw [sendLoop_step _ _ s t rfl _ d _ hpk hf s2 hh]
    exact hS

end Autd3.Rt
