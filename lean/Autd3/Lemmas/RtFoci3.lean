import Autd3.Lemmas.RtFoci2
/-!
FociSTM, part 3: the copy part of `write_foci_stm` in closed form (`fociDataPart_ok`: without and with
the page split).
-/
set_option linter.unusedSimpArgs false
open Autd3 Autd3.Fw Autd3.Wire Autd3.Gen.Cpu Autd3.Gen
namespace Autd3.Rt

/-- `fociDataPart` with the cursor updates written with `setStmWrite` -/
theorem fociDataPart_eq (s : State) (d : Array Nat) (off sn : Nat) :
    fociDataPart s d off sn =
      if sn * s.numFoci ≥ 65536 then .error (.overflow "write_foci_stm: send_num * num_foci") else
      if sn * s.numFoci < FOCI_STM_BUF_PAGE_SIZE - (s.stmWrite % 65536 &&& FOCI_STM_BUF_PAGE_SIZE_MASK) then
        stmWriteWords s (((s.stmWrite % 65536 &&& FOCI_STM_BUF_PAGE_SIZE_MASK) <<< 2) % 65536)
          (wordsAt d off (sn * s.numFoci * 4)) >>= fun s1 =>
          .ok (setStmWrite s1 (s1.stmWrite + sn * s.numFoci))
      else
        stmWriteWords s (((s.stmWrite % 65536 &&& FOCI_STM_BUF_PAGE_SIZE_MASK) <<< 2) % 65536)
          (wordsAt d off ((FOCI_STM_BUF_PAGE_SIZE - (s.stmWrite % 65536 &&& FOCI_STM_BUF_PAGE_SIZE_MASK)) * 4)) >>= fun s1 =>
        ctlWrite (setStmWrite s1 (s1.stmWrite + (FOCI_STM_BUF_PAGE_SIZE - (s.stmWrite % 65536 &&& FOCI_STM_BUF_PAGE_SIZE_MASK))))
          ADDR_STM_MEM_WR_PAGE
          ((((s1.stmWrite + (FOCI_STM_BUF_PAGE_SIZE - (s.stmWrite % 65536 &&& FOCI_STM_BUF_PAGE_SIZE_MASK))) % 65536) &&&
            (65535 - FOCI_STM_BUF_PAGE_SIZE_MASK)) >>> FOCI_STM_BUF_PAGE_SIZE_WIDTH) >>= fun s2 =>
        stmWriteWords s2 0 (wordsAt d (off + 8 * (FOCI_STM_BUF_PAGE_SIZE - (s.stmWrite % 65536 &&& FOCI_STM_BUF_PAGE_SIZE_MASK)))
          ((sn * s.numFoci - (FOCI_STM_BUF_PAGE_SIZE - (s.stmWrite % 65536 &&& FOCI_STM_BUF_PAGE_SIZE_MASK))) * 4)) >>= fun s3 =>
        .ok (setStmWrite s3 (s3.stmWrite + (sn * s.numFoci - (FOCI_STM_BUF_PAGE_SIZE - (s.stmWrite % 65536 &&& FOCI_STM_BUF_PAGE_SIZE_MASK))))) := by
  unfold fociDataPart
  rfl

/-- what the copy part of one `write_foci_stm` frame does: `w` records of the frame (from byte `off`)
land at cursor `c … c+w-1` of segment `seg`; nothing below the cursor, nothing in the other segment,
no register except the write page changes -/
structure FociCopied (s s' : State) (seg c w : Nat) (d : Array Nat) (off : Nat) : Prop where
  cursor : s'.stmWrite = c + w
  recs : ∀ k, k < c + w →
    stmRecord (Obs.stmMem s' seg) k = if c ≤ k then u64at d (off + 8 * (k - c)) else stmRecord (Obs.stmMem s seg) k
  other : ∀ g, (g = 0) ≠ (seg = 0) → Obs.stmMem s' g = Obs.stmMem s g
  page : c + w < 65536 → reg s' ADDR_STM_MEM_WR_PAGE = (c + w) / 4096
  regs : ∀ a, a ≠ ADDR_STM_MEM_WR_PAGE → reg s' a = reg s a
  frame : StmFrame s s'
  ctl : s'.ctl.size = 256
  mem0 : s'.stmMem0.size = 262144
  mem1 : s'.stmMem1.size = 262144

theorem fociDataPart_ok_A (s : State) (hW : WF s) (d : Array Nat) (off sn seg c n : Nat)
    (hc : s.stmWrite = c) (hn : s.numFoci = n) (hw : sn * n < 65536) (hcw : c + sn * n ≤ 65536) (hc3 : c < 65536)
    (hsr : reg s ADDR_STM_MEM_WR_SEGMENT = seg) (hseg : seg ≤ 1) (hpage : reg s ADDR_STM_MEM_WR_PAGE = c / 4096)
    (hA : sn * n < 4096 - c % 4096) :
    ∃ s', fociDataPart s d off sn = .ok s' ∧ FociCopied s s' seg c (sn * n) d off := by
  rw [fociDataPart_eq, hc, hn, Nat.mod_eq_of_lt hc3, and_mask12, show FOCI_STM_BUF_PAGE_SIZE = 4096 from rfl,
    if_neg (by omega), if_pos hA, Nat.shiftLeft_eq]
  generalize hwv : sn * n = w at *
  have hb1 : c % 4096 * 2 ^ 2 % 65536 % 16384 = c % 4096 * 4 := by omega
  have hsz : (wordsAt d off (w * 4)).size = w * 4 := by simp
  rw [stmWriteWords_eq _ _ _ (by rw [hsr]; exact hseg) (by rw [hb1, hsz]; omega) (by rw [hpage, hb1, hsz]; omega)]
  rw [hsr, hpage, hb1, show c / 4096 * 16384 + c % 4096 * 4 = 4 * c from by omega]
  refine ⟨_, rfl, ?_⟩
  have hms := stmMem_size hW seg
  refine ⟨by simp [hc], ?_, ?_, ?_, ?_, ?_, by simpa using hW.ctl, ?_, ?_⟩
  · intro k hk
    rw [stmMem_setStmWrite, stmMem_setStmMem_same, stmRecord_wrWords _ _ _ _ _ _ (by rw [hms]; omega)]
    by_cases h : c ≤ k
    · rw [if_pos ⟨h, by omega⟩, if_pos h]
    · rw [if_neg (by omega), if_neg h]
  · intro g hg
    rw [stmMem_setStmWrite]; exact stmMem_setStmMem_other _ _ _ _ hg
  · intro _
    rw [reg_setStmWrite, reg_setStmMem, hpage]; omega
  · intro a _; rw [reg_setStmWrite, reg_setStmMem]
  · exact (StmFrame_setStmMem _ _ _).trans (StmFrame_setStmWrite _ _)
  · rw [setStmWrite_stmMem0]; exact sizeS0_setStmMem _ _ _ _ hW.stmMem0 (by rw [size_wrWords]; exact hms)
  · rw [setStmWrite_stmMem1]; exact sizeS1_setStmMem _ _ _ _ hW.stmMem1 (by rw [size_wrWords]; exact hms)

theorem fociDataPart_ok_B (s : State) (hW : WF s) (d : Array Nat) (off sn seg c n : Nat)
    (hc : s.stmWrite = c) (hn : s.numFoci = n) (hw : sn * n < 65536) (hcw : c + sn * n ≤ 65536) (hc3 : c < 65536)
    (hsr : reg s ADDR_STM_MEM_WR_SEGMENT = seg) (hseg : seg ≤ 1) (hpage : reg s ADDR_STM_MEM_WR_PAGE = c / 4096)
    (hB : ¬ sn * n < 4096 - c % 4096) (hwp : sn * n ≤ 4096) :
    ∃ s', fociDataPart s d off sn = .ok s' ∧ FociCopied s s' seg c (sn * n) d off := by
  rw [fociDataPart_eq, hc, hn, Nat.mod_eq_of_lt hc3, and_mask12, show FOCI_STM_BUF_PAGE_SIZE = 4096 from rfl,
    if_neg (by omega), if_neg hB, Nat.shiftLeft_eq]
  generalize hwv : sn * n = w at *
  have hms := stmMem_size hW seg
  have hb1 : c % 4096 * 2 ^ 2 % 65536 % 16384 = c % 4096 * 4 := by omega
  generalize hcap : 4096 - c % 4096 = cap at hB ⊢
  have hsz1 : (wordsAt d off (cap * 4)).size = cap * 4 := by simp
  rw [stmWriteWords_eq _ _ _ (by rw [hsr]; exact hseg) (by rw [hb1, hsz1]; omega) (by rw [hpage, hb1, hsz1]; omega)]
  rw [hsr, hpage, hb1, show c / 4096 * 16384 + c % 4096 * 4 = 4 * c from by omega]
  simp only [ok_bind, setStmMem_stmWrite, hc]
  generalize hm1 : wrWords (Obs.stmMem s seg) (4 * c) (wordsAt d off (cap * 4)) = m1
  have hm1s : m1.size = 262144 := by rw [← hm1, size_wrWords]; exact hms
  have hp : (c + cap) % 65536 < 65536 := Nat.mod_lt _ (by decide)
  rw [foci_page_bits _ hp, ctlWrite_main _ _ _ (by decide)]
  simp only [ok_bind]
  generalize hpv : (c + cap) % 65536 / 4096 = p
  have hp1 : p ≤ 15 := by omega
  have hs2c : (setStmWrite (setStmMem s seg m1) (c + cap)).ctl.size = 256 := by simpa using hW.ctl
  have e80 : reg (wr (setStmWrite (setStmMem s seg m1) (c + cap)) ADDR_STM_MEM_WR_PAGE p) ADDR_STM_MEM_WR_SEGMENT = seg := by
    rw [reg_wr, if_neg (by intro h; exact absurd h.1 (by decide)), reg_setStmWrite, reg_setStmMem, hsr]
  have e81 : reg (wr (setStmWrite (setStmMem s seg m1) (c + cap)) ADDR_STM_MEM_WR_PAGE p) ADDR_STM_MEM_WR_PAGE = p := by
    rw [reg_wr, if_pos ⟨rfl, by rw [hs2c]; decide⟩]; omega
  have hmem2 : Obs.stmMem (wr (setStmWrite (setStmMem s seg m1) (c + cap)) ADDR_STM_MEM_WR_PAGE p) seg = m1 := by
    rw [stmMem_wr, stmMem_setStmWrite, stmMem_setStmMem_same]
  have hsz2 : (wordsAt d (off + 8 * cap) ((w - cap) * 4)).size = (w - cap) * 4 := by simp
  rw [stmWriteWords_eq _ _ _ (by rw [e80]; exact hseg) (by rw [hsz2]; omega) (by rw [e81, hsz2]; omega)]
  rw [e80, e81, hmem2, show 0 % 16384 = 0 from rfl, Nat.add_zero]
  simp only [ok_bind, setStmMem_stmWrite, wr_stmWrite, setStmWrite_stmWrite]
  refine ⟨_, rfl, ?_⟩
  refine ⟨by simp; omega, ?_, ?_, ?_, ?_, ?_, by simpa using hW.ctl, ?_, ?_⟩
  · intro k hk
    rw [stmMem_setStmWrite, stmMem_setStmMem_same]
    have hpe : p * 16384 = 4 * (p * 4096) := by omega
    rw [hpe, stmRecord_wrWords _ _ _ _ _ _ (by rw [hm1s]; omega), ← hm1,
      stmRecord_wrWords _ _ _ _ _ _ (by rw [hms]; omega)]
    by_cases hlo : c ≤ k
    · rw [if_pos hlo]
      by_cases h2 : p * 4096 ≤ k ∧ k < p * 4096 + (w - cap)
      · rw [if_pos h2]; congr 1; omega
      · rw [if_neg h2, if_pos (by omega)]
    · rw [if_neg hlo, if_neg (by omega), if_neg (by omega)]
  · intro g hg
    rw [stmMem_setStmWrite, stmMem_setStmMem_other _ _ _ _ hg, stmMem_wr, stmMem_setStmWrite,
      stmMem_setStmMem_other _ _ _ _ hg]
  · intro h
    rw [reg_setStmWrite, reg_setStmMem, e81]; omega
  · intro a ha
    rw [reg_setStmWrite, reg_setStmMem, reg_wr, if_neg (by intro h; exact ha h.1), reg_setStmWrite, reg_setStmMem]
  · exact ((((StmFrame_setStmMem _ _ _).trans (StmFrame_setStmWrite _ _)).trans (StmFrame_wr _ _ _)).trans
      (StmFrame_setStmMem _ _ _)).trans (StmFrame_setStmWrite _ _)
  · rw [setStmWrite_stmMem0]
    apply sizeS0_setStmMem _ _ _ _ _ (by rw [size_wrWords]; exact hm1s)
    rw [wr_stmMem0, setStmWrite_stmMem0]
    exact sizeS0_setStmMem _ _ _ _ hW.stmMem0 hm1s
  · rw [setStmWrite_stmMem1]
    apply sizeS1_setStmMem _ _ _ _ _ (by rw [size_wrWords]; exact hm1s)
    rw [wr_stmMem1, setStmWrite_stmMem1]
    exact sizeS1_setStmMem _ _ _ _ hW.stmMem1 hm1s

/-- the copy part of `write_foci_stm`, both cases -/
theorem fociDataPart_ok (s : State) (hW : WF s) (d : Array Nat) (off sn seg c n : Nat)
    (hc : s.stmWrite = c) (hn : s.numFoci = n) (hw : sn * n < 65536) (hcw : c + sn * n ≤ 65536) (hc3 : c < 65536)
    (hsr : reg s ADDR_STM_MEM_WR_SEGMENT = seg) (hseg : seg ≤ 1) (hpage : reg s ADDR_STM_MEM_WR_PAGE = c / 4096)
    (hwp : sn * n ≤ 4096) :
    ∃ s', fociDataPart s d off sn = .ok s' ∧ FociCopied s s' seg c (sn * n) d off := by
  by_cases h : sn * n < 4096 - c % 4096
  · exact fociDataPart_ok_A s hW d off sn seg c n hc hn hw hcw hc3 hsr hseg hpage h
  · exact fociDataPart_ok_B s hW d off sn seg c n hc hn hw hcw hc3 hsr hseg hpage h hwp

end Autd3.Rt
