import Autd3.Lemmas.RtGstm3
/-!
GainSTM, part 4: the page update and END part of `write_gain_stm` in closed form.
-/
set_option linter.unusedSimpArgs false
open Autd3 Autd3.Fw Autd3.Wire Autd3.Gen.Cpu Autd3.Gen
namespace Autd3.Rt

def setStmModeG (s : State) (g : Nat) : State := { s with stmMode := setSel s.stmMode g STM_MODE_GAIN }
@[simp] theorem setStmModeG_ack (s : State) (g : Nat) : (setStmModeG s g).ack = s.ack := rfl
@[simp] theorem setStmModeG_lastMsgId (s : State) (g : Nat) : (setStmModeG s g).lastMsgId = s.lastMsgId := rfl
@[simp] theorem setStmModeG_rxData (s : State) (g : Nat) : (setStmModeG s g).rxData = s.rxData := rfl
@[simp] theorem setStmModeG_readsFpgaState (s : State) (g : Nat) : (setStmModeG s g).readsFpgaState = s.readsFpgaState := rfl
@[simp] theorem setStmModeG_readsStore (s : State) (g : Nat) : (setStmModeG s g).readsStore = s.readsStore := rfl
@[simp] theorem setStmModeG_isRxDataUsed (s : State) (g : Nat) : (setStmModeG s g).isRxDataUsed = s.isRxDataUsed := rfl
@[simp] theorem setStmModeG_synchronized (s : State) (g : Nat) : (setStmModeG s g).synchronized = s.synchronized := rfl
@[simp] theorem setStmModeG_modCycle (s : State) (g : Nat) : (setStmModeG s g).modCycle = s.modCycle := rfl
@[simp] theorem setStmModeG_stmWrite (s : State) (g : Nat) : (setStmModeG s g).stmWrite = s.stmWrite := rfl
@[simp] theorem setStmModeG_stmCycle (s : State) (g : Nat) : (setStmModeG s g).stmCycle = s.stmCycle := rfl
@[simp] theorem setStmModeG_stmRep (s : State) (g : Nat) : (setStmModeG s g).stmRep = s.stmRep := rfl
@[simp] theorem setStmModeG_stmDiv (s : State) (g : Nat) : (setStmModeG s g).stmDiv = s.stmDiv := rfl
@[simp] theorem setStmModeG_modDiv (s : State) (g : Nat) : (setStmModeG s g).modDiv = s.modDiv := rfl
@[simp] theorem setStmModeG_modRep (s : State) (g : Nat) : (setStmModeG s g).modRep = s.modRep := rfl
@[simp] theorem setStmModeG_stmSegment (s : State) (g : Nat) : (setStmModeG s g).stmSegment = s.stmSegment := rfl
@[simp] theorem setStmModeG_modSegment (s : State) (g : Nat) : (setStmModeG s g).modSegment = s.modSegment := rfl
@[simp] theorem setStmModeG_stmTrMode (s : State) (g : Nat) : (setStmModeG s g).stmTrMode = s.stmTrMode := rfl
@[simp] theorem setStmModeG_stmTrValue (s : State) (g : Nat) : (setStmModeG s g).stmTrValue = s.stmTrValue := rfl
@[simp] theorem setStmModeG_modTrMode (s : State) (g : Nat) : (setStmModeG s g).modTrMode = s.modTrMode := rfl
@[simp] theorem setStmModeG_modTrValue (s : State) (g : Nat) : (setStmModeG s g).modTrValue = s.modTrValue := rfl
@[simp] theorem setStmModeG_gainStmMode (s : State) (g : Nat) : (setStmModeG s g).gainStmMode = s.gainStmMode := rfl
@[simp] theorem setStmModeG_numFoci (s : State) (g : Nat) : (setStmModeG s g).numFoci = s.numFoci := rfl
@[simp] theorem setStmModeG_strict (s : State) (g : Nat) : (setStmModeG s g).strict = s.strict := rfl
@[simp] theorem setStmModeG_minDivI (s : State) (g : Nat) : (setStmModeG s g).minDivI = s.minDivI := rfl
@[simp] theorem setStmModeG_minDivP (s : State) (g : Nat) : (setStmModeG s g).minDivP = s.minDivP := rfl
@[simp] theorem setStmModeG_flagsInternal (s : State) (g : Nat) : (setStmModeG s g).flagsInternal = s.flagsInternal := rfl
@[simp] theorem setStmModeG_portA (s : State) (g : Nat) : (setStmModeG s g).portA = s.portA := rfl
@[simp] theorem setStmModeG_dcSysTime (s : State) (g : Nat) : (setStmModeG s g).dcSysTime = s.dcSysTime := rfl
@[simp] theorem setStmModeG_numTr (s : State) (g : Nat) : (setStmModeG s g).numTr = s.numTr := rfl
@[simp] theorem setStmModeG_ctl (s : State) (g : Nat) : (setStmModeG s g).ctl = s.ctl := rfl
@[simp] theorem setStmModeG_phaseCorr (s : State) (g : Nat) : (setStmModeG s g).phaseCorr = s.phaseCorr := rfl
@[simp] theorem setStmModeG_pwe (s : State) (g : Nat) : (setStmModeG s g).pwe = s.pwe := rfl
@[simp] theorem setStmModeG_modMem0 (s : State) (g : Nat) : (setStmModeG s g).modMem0 = s.modMem0 := rfl
@[simp] theorem setStmModeG_modMem1 (s : State) (g : Nat) : (setStmModeG s g).modMem1 = s.modMem1 := rfl
@[simp] theorem setStmModeG_stmMem0 (s : State) (g : Nat) : (setStmModeG s g).stmMem0 = s.stmMem0 := rfl
@[simp] theorem setStmModeG_stmMem1 (s : State) (g : Nat) : (setStmModeG s g).stmMem1 = s.stmMem1 := rfl
@[simp] theorem setStmModeG_modSwap (s : State) (g : Nat) : (setStmModeG s g).modSwap = s.modSwap := rfl
@[simp] theorem setStmModeG_stmSwap (s : State) (g : Nat) : (setStmModeG s g).stmSwap = s.stmSwap := rfl
@[simp] theorem setStmModeG_stmMode (s : State) (g : Nat) : (setStmModeG s g).stmMode = setSel s.stmMode g STM_MODE_GAIN := rfl
@[simp] theorem reg_setStmModeG (s : State) (g a : Nat) : reg (setStmModeG s g) a = reg s a := rfl
theorem stmMem_setStmModeG (s : State) (g h : Nat) : Obs.stmMem (setStmModeG s g) h = Obs.stmMem s h := rfl
theorem GFrame_setStmModeG (s : State) (g : Nat) : GFrame s (setStmModeG s g) := rfl
theorem WF_setStmModeG {s : State} (h : WF s) (g : Nat) : WF (setStmModeG s g) := by wf_same h

theorem gain_page_bits (x : Nat) (hx : x < 65536) :
    (x &&& (65535 - GAIN_STM_BUF_PAGE_SIZE_MASK)) >>> GAIN_STM_BUF_PAGE_SIZE_WIDTH = x / 64 := by
  rw [show 65535 - GAIN_STM_BUF_PAGE_SIZE_MASK = 65472 from rfl, show GAIN_STM_BUF_PAGE_SIZE_WIDTH = 6 from rfl,
    show 64 = 2 ^ 6 from rfl, ← Nat.shiftRight_eq_div_pow]
  apply Nat.eq_of_testBit_eq
  intro i
  rw [Nat.testBit_shiftRight, Nat.testBit_shiftRight, Nat.testBit_and]
  by_cases hi : i < 10
  · have : Nat.testBit 65472 (6 + i) = true := by
      have : i = 0 ∨ i = 1 ∨ i = 2 ∨ i = 3 ∨ i = 4 ∨ i = 5 ∨ i = 6 ∨ i = 7 ∨ i = 8 ∨ i = 9 := by omega
      rcases this with h | h | h | h | h | h | h | h | h | h <;> subst h <;> decide
    rw [this, Bool.and_true]
  · have : x.testBit (6 + i) = false := by
      apply Nat.testBit_lt_two_pow
      calc x < 2 ^ 16 := hx
        _ ≤ 2 ^ (6 + i) := Nat.pow_le_pow_right (by decide) (by omega)
    rw [this, Bool.false_and]

/-- the state after the page update of `write_gain_stm` -/
def gstmPaged (s : State) (c' : Nat) : State := if c' % 64 = 0 then wr s ADDR_STM_MEM_WR_PAGE (c' / 64) else s

theorem reg_gstmPaged (s : State) (hc : s.ctl.size = 256) (c' a : Nat) (h : c' < 65536) :
    reg (gstmPaged s c') a = if a = 81 ∧ c' % 64 = 0 then c' / 64 else reg s a := by
  unfold gstmPaged
  by_cases h0 : c' % 64 = 0
  · rw [if_pos h0, reg_wr, hc]
    by_cases ha : a = 81
    · rw [if_pos ⟨ha, by decide⟩, if_pos ⟨ha, h0⟩]; omega
    · rw [if_neg (fun hh => ha hh.1), if_neg (fun hh => ha hh.1)]
  · rw [if_neg h0, if_neg (fun hh => h0 hh.2)]

theorem gstmPaged_props (s : State) (c' : Nat) :
    GFrame s (gstmPaged s c') ∧ (gstmPaged s c').stmCycle = s.stmCycle ∧ (gstmPaged s c').stmMode = s.stmMode ∧
    (∀ g, Obs.stmMem (gstmPaged s c') g = Obs.stmMem s g) ∧ (WF s → WF (gstmPaged s c')) := by
  unfold gstmPaged
  split
  · exact ⟨GFrame_wr _ _ _, rfl, rfl, fun _ => rfl, fun h => WF_wr h _ _ (Or.inl (by decide))⟩
  · exact ⟨GFrame.refl _, rfl, rfl, fun _ => rfl, fun h => h⟩

theorem gstmEndPart_page (s : State) (flag seg c' : Nat) (hc : sel s.stmCycle seg = c') (hc3 : c' < 65536) :
    gstmEndPart s flag seg =
      (if hasFlag flag GAIN_STM_FLAG_END then
        ctlWrite (setStmModeG (gstmPaged s c') seg) (ADDR_STM_CYCLE0 + seg) ((max c' 1 - 1) % 65536) >>= fun s2 =>
          if hasFlag flag GAIN_STM_FLAG_UPDATE then stmSegmentUpdate s2 seg s2.stmTrMode s2.stmTrValue
          else .ok (s2, NO_ERR)
      else .ok (gstmPaged s c', NO_ERR)) := by
  unfold gstmEndPart gstmPaged
  simp only [hc, Nat.mod_eq_of_lt hc3, and_mask6, gain_page_bits _ hc3]
  by_cases h0 : c' % 64 = 0
  · simp only [h0, if_true, ctlWrite_main _ ADDR_STM_MEM_WR_PAGE _ (by decide), ok_bind]
    by_cases hE : hasFlag flag GAIN_STM_FLAG_END = true
    · simp only [hE, if_true]
      have : sel (wr s ADDR_STM_MEM_WR_PAGE (c' / 64)).stmCycle seg = c' := hc
      rw [this]
      by_cases hU : hasFlag flag GAIN_STM_FLAG_UPDATE = true
      · simp only [hU, if_true]; rfl
      · simp only [hU, if_false]; rfl
    · simp only [hE, if_false]; rfl
  · simp only [h0, if_false]
    by_cases hE : hasFlag flag GAIN_STM_FLAG_END = true
    · simp only [hE, if_true, pure_bind]
      by_cases hU : hasFlag flag GAIN_STM_FLAG_UPDATE = true
      · simp only [hU, if_true]; rfl
      · simp only [hU, if_false]; rfl
    · simp only [hE, if_false, pure_bind]; rfl

end Autd3.Rt
