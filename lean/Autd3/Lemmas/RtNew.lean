import Autd3.Lemmas.RtMod7
/-!
`CPUEmulator::new` (= `clear` on freshly allocated memories) yields a well-formed state.
-/
open Autd3 Autd3.Fw Autd3.Wire Autd3.Gen.Cpu Autd3.Gen
set_option linter.unusedSimpArgs false
namespace Autd3.Rt

/-- `WF` without the four sampling-division registers (they are written in the middle of `clear`) -/
structure PreWF (s : State) : Prop where
  ctl : s.ctl.size = 256
  phaseCorr : s.phaseCorr.size = 128
  pwe : s.pwe.size = 256
  modMem0 : s.modMem0.size = 32768
  modMem1 : s.modMem1.size = 32768
  stmMem0 : s.stmMem0.size = 262144
  stmMem1 : s.stmMem1.size = 262144
  numTr : s.numTr ≤ 249
  flags : s.flagsInternal = 0
  modSwap : SwapOK s.modSwap
  stmSwap : SwapOK s.stmSwap

macro "prewf_same " h:term : tactic =>
  `(tactic| exact ⟨($h).ctl, ($h).phaseCorr, ($h).pwe, ($h).modMem0, ($h).modMem1, ($h).stmMem0, ($h).stmMem1,
    ($h).numTr, ($h).flags, ($h).modSwap, ($h).stmSwap⟩)

theorem PreWF_wr {s : State} (h : PreWF s) (a v : Nat) : PreWF (wr s a v) :=
  ⟨by simpa using h.ctl, h.phaseCorr, h.pwe, h.modMem0, h.modMem1, h.stmMem0, h.stmMem1, h.numTr, h.flags, h.modSwap,
    h.stmSwap⟩
theorem PreWF_setCtl {s : State} (h : PreWF s) (c : Array Nat) (hc : c.size = 256) : PreWF (setCtl s c) :=
  ⟨hc, h.phaseCorr, h.pwe, h.modMem0, h.modMem1, h.stmMem0, h.stmMem1, h.numTr, h.flags, h.modSwap, h.stmSwap⟩
theorem PreWF_setModMem {s : State} (h : PreWF s) (g : Nat) (m : Array Nat) (hm : m.size = 32768) :
    PreWF (setModMem s g m) := by
  unfold setModMem; split
  · exact ⟨h.ctl, h.phaseCorr, h.pwe, hm, h.modMem1, h.stmMem0, h.stmMem1, h.numTr, h.flags, h.modSwap, h.stmSwap⟩
  · exact ⟨h.ctl, h.phaseCorr, h.pwe, h.modMem0, hm, h.stmMem0, h.stmMem1, h.numTr, h.flags, h.modSwap, h.stmSwap⟩
theorem PreWF_setStmMem {s : State} (h : PreWF s) (g : Nat) (m : Array Nat) (hm : m.size = 262144) :
    PreWF (setStmMem s g m) := by
  unfold setStmMem; split
  · exact ⟨h.ctl, h.phaseCorr, h.pwe, h.modMem0, h.modMem1, hm, h.stmMem1, h.numTr, h.flags, h.modSwap, h.stmSwap⟩
  · exact ⟨h.ctl, h.phaseCorr, h.pwe, h.modMem0, h.modMem1, h.stmMem0, hm, h.numTr, h.flags, h.modSwap, h.stmSwap⟩
theorem PreWF_setModSwap {s : State} (h : PreWF s) (w : Swap) (hw : SwapOK w) : PreWF (setModSwap s w) :=
  ⟨h.ctl, h.phaseCorr, h.pwe, h.modMem0, h.modMem1, h.stmMem0, h.stmMem1, h.numTr, h.flags, hw, h.stmSwap⟩
theorem PreWF_setStmSwap {s : State} (h : PreWF s) (w : Swap) (hw : SwapOK w) : PreWF (setStmSwap s w) :=
  ⟨h.ctl, h.phaseCorr, h.pwe, h.modMem0, h.modMem1, h.stmMem0, h.stmMem1, h.numTr, h.flags, h.modSwap, hw⟩

theorem WF_of_PreWF {s : State} (h : PreWF s) (h37 : 1 ≤ reg s ADDR_MOD_FREQ_DIV0) (h38 : 1 ≤ reg s ADDR_MOD_FREQ_DIV1)
    (h85 : 1 ≤ reg s ADDR_STM_FREQ_DIV0) (h86 : 1 ≤ reg s ADDR_STM_FREQ_DIV1) : WF s :=
  ⟨h.ctl, h.phaseCorr, h.pwe, h.modMem0, h.modMem1, h.stmMem0, h.stmMem1, h.numTr, by rw [h.flags], h.modSwap,
    h.stmSwap, h37, h38, h85, h86⟩

/-- a register not written keeps its value -/
theorem reg_wr_ne (s : State) (a v b : Nat) (h : b ≠ a) : reg (wr s a v) b = reg s b := by
  rw [reg_wr, if_neg (fun hh => h hh.1)]
theorem reg_wr_eq (s : State) (a v : Nat) (h : a < s.ctl.size) : reg (wr s a v) a = v % 65536 := by
  rw [reg_wr, if_pos ⟨rfl, h⟩]

attribute [local irreducible] wr setCtl setModMem setStmMem setModSwap setStmSwap

theorem clear_ok (s : State) (d : Array Nat) (h0 : PreWF { s with portA := 0, readsFpgaState := false, flagsInternal := 0 }) :
    ∃ s', clear s d = .ok (s', NO_ERR) ∧ WF s' := by
  unfold clear
  simp only []
  generalize hs1 : ({ s with portA := 0, readsFpgaState := false, flagsInternal := 0 } : State) = s1 at h0 ⊢
  rw [ctlWrite_main _ _ _ (by decide), ok_bind, ctlWrite_main _ _ _ (by decide), ok_bind,
    ctlWrite_main _ _ _ (by decide), ok_bind, ctlWrite_main _ _ _ (by decide), ok_bind,
    ctlWrite_main _ _ _ (by decide)]
  generalize hsA : wr (wr (wr (wr (wr s1 ADDR_SILENCER_UPDATE_RATE_INTENSITY 256) ADDR_SILENCER_UPDATE_RATE_PHASE 256)
    ADDR_SILENCER_FLAG 0) ADDR_SILENCER_COMPLETION_STEPS_INTENSITY 10) ADDR_SILENCER_COMPLETION_STEPS_PHASE 40 = sA
  have hA : PreWF sA := by
    rw [← hsA]; repeat (first | exact h0 | apply PreWF_wr)
  clear hsA
  rw [ok_bind]
  generalize hsA2 : ({ sA with strict := true, minDivI := 10, minDivP := 40, modDiv := (0xFFFF, 0xFFFF), modRep := (0xFFFF, 0xFFFF), modCycle := 2, modSegment := 0 } : State) = sA2
  have hA2 : PreWF sA2 := by rw [← hsA2]; prewf_same hA
  have hcyc : sA2.modCycle = 2 := by rw [← hsA2]
  have hdiv : sA2.modDiv = (0xFFFF, 0xFFFF) := by rw [← hsA2]
  clear hsA2
  rw [ctlWrite_main _ _ _ (by decide), ok_bind,
    ctlWriteWords_main' _ ADDR_MOD_TRANSITION_VALUE_0 #[0, 0, 0, 0] (by decide), ok_bind,
    ctlWrite_main _ _ _ (by decide), ok_bind]
  simp only [wr_modCycle, setCtl_modCycle, wr_modDiv, setCtl_modDiv, hcyc, hdiv, Prod.fst, Prod.snd]
  rw [ctlWrite_main _ _ _ (by decide), ok_bind]
  simp only [wr_modCycle, setCtl_modCycle, wr_modDiv, setCtl_modDiv, hcyc, hdiv, Prod.fst, Prod.snd]
  rw [ctlWrite_main _ _ _ (by decide), ok_bind]
  simp only [wr_modCycle, setCtl_modCycle, wr_modDiv, setCtl_modDiv, hcyc, hdiv, Prod.fst, Prod.snd]
  rw [ctlWrite_main _ _ _ (by decide), ok_bind]
  simp only [wr_modCycle, setCtl_modCycle, wr_modDiv, setCtl_modDiv, hcyc, hdiv, Prod.fst, Prod.snd]
  rw [ctlWrite_main _ _ _ (by decide), ok_bind, ctlWrite_main _ _ _ (by decide), ok_bind,
    ctlWrite_main _ _ _ (by decide), ok_bind, ctlWrite_main _ _ _ (by decide), ok_bind,
    ctlWrite_main _ _ _ (by decide), ok_bind]
  obtain ⟨sB0, hsB0⟩ : ∃ x, x = wr (wr (wr (wr (wr (wr (wr (wr (wr
      (setCtl (wr sA2 ADDR_MOD_TRANSITION_MODE TRANSITION_MODE_SYNC_IDX)
        (wrWords (wr sA2 ADDR_MOD_TRANSITION_MODE TRANSITION_MODE_SYNC_IDX).ctl ADDR_MOD_TRANSITION_VALUE_0 #[0, 0, 0, 0]))
      ADDR_MOD_REQ_RD_SEGMENT 0) ADDR_MOD_CYCLE0 (max 2 1 - 1)) ADDR_MOD_FREQ_DIV0 65535) ADDR_MOD_CYCLE1 (max 2 1 - 1))
      ADDR_MOD_FREQ_DIV1 65535) ADDR_MOD_REP0 65535) ADDR_MOD_REP1 65535) ADDR_MOD_MEM_WR_PAGE 0)
      ADDR_MOD_MEM_WR_SEGMENT 0 := ⟨_, rfl⟩
  rw [← hsB0]
  have hB0 : PreWF sB0 := by
    rw [hsB0]
    repeat (first | exact hA2 | apply PreWF_wr | apply PreWF_setCtl)
    rw [size_wrWords]; simpa using hA2.ctl
  have hc2 := hA2.ctl
  have r : reg sB0 32 = 0 ∧ reg sB0 33 = 0 ∧ reg sB0 34 = 0 ∧ reg sB0 37 = 65535 ∧ reg sB0 38 = 65535 ∧ reg sB0 41 = 0 := by
    rw [hsB0]
    simp [reg_wr, reg_setCtl, rd_wrWords, rd_set, hc2, ADDR_MOD_TRANSITION_MODE, ADDR_MOD_TRANSITION_VALUE_0,
      ADDR_MOD_REQ_RD_SEGMENT, ADDR_MOD_CYCLE0, ADDR_MOD_FREQ_DIV0, ADDR_MOD_CYCLE1, ADDR_MOD_FREQ_DIV1, ADDR_MOD_REP0,
      ADDR_MOD_REP1, ADDR_MOD_MEM_WR_PAGE, ADDR_MOD_MEM_WR_SEGMENT, TRANSITION_MODE_SYNC_IDX]
  clear hsB0
  obtain ⟨r32, r33, r34, r37, r38, r41⟩ := r
  have hsz1 : (#[65535] : Array Nat).size = 1 := rfl
  rw [modWriteWords_eq sB0 0 #[65535] (by rw [show ADDR_MOD_MEM_WR_SEGMENT = 32 from rfl, r32]; decide)
    (by rw [hsz1]; decide) (by rw [show ADDR_MOD_MEM_WR_PAGE = 33 from rfl, r33, hsz1]; decide), ok_bind,
    ctlWrite_main _ _ _ (by decide), ok_bind]
  have hms : ∀ x, PreWF x → ∀ g, (Obs.modMem x g).size = 32768 := by
    intro x hx g; unfold Obs.modMem; split
    · exact hx.modMem0
    · exact hx.modMem1
  obtain ⟨sB2, hsB2⟩ : ∃ x, x = wr (setModMem sB0 (reg sB0 ADDR_MOD_MEM_WR_SEGMENT)
      (wrWords (Obs.modMem sB0 (reg sB0 ADDR_MOD_MEM_WR_SEGMENT)) (reg sB0 ADDR_MOD_MEM_WR_PAGE * 16384 + 0 % 16384) #[65535]))
      ADDR_MOD_MEM_WR_SEGMENT 1 := ⟨_, rfl⟩
  rw [← hsB2]
  have hB2 : PreWF sB2 := by
    rw [hsB2]; apply PreWF_wr; apply PreWF_setModMem hB0; rw [size_wrWords]; exact hms _ hB0 _
  have hcB0 := hB0.ctl
  have r' : reg sB2 32 = 1 ∧ reg sB2 33 = 0 ∧ reg sB2 34 = 0 ∧ reg sB2 37 = 65535 ∧ reg sB2 38 = 65535 ∧ reg sB2 41 = 0 := by
    rw [hsB2]
    simp [-setModMem_zero, -setModMem_one, reg_wr, reg_setModMem, hcB0, ADDR_MOD_MEM_WR_SEGMENT, r32, r33, r34, r37, r38, r41]
  clear hsB2 r32 r33 r34 r37 r38 r41
  obtain ⟨r32, r33, r34, r37, r38, r41⟩ := r'
  rw [modWriteWords_eq sB2 0 #[65535] (by rw [show ADDR_MOD_MEM_WR_SEGMENT = 32 from rfl, r32]; decide)
    (by rw [hsz1]; decide) (by rw [show ADDR_MOD_MEM_WR_PAGE = 33 from rfl, r33, hsz1]; decide)]
  obtain ⟨sB3, hsB3⟩ : ∃ x, x = setModMem sB2 (reg sB2 ADDR_MOD_MEM_WR_SEGMENT)
      (wrWords (Obs.modMem sB2 (reg sB2 ADDR_MOD_MEM_WR_SEGMENT)) (reg sB2 ADDR_MOD_MEM_WR_PAGE * 16384 + 0 % 16384) #[65535]) :=
    ⟨_, rfl⟩
  rw [← hsB3]
  have hB3 : PreWF sB3 := by
    rw [hsB3]; apply PreWF_setModMem hB2; rw [size_wrWords]; exact hms _ hB2 _
  have r' : reg sB3 34 = 0 ∧ reg sB3 37 = 65535 ∧ reg sB3 38 = 65535 ∧ reg sB3 41 = 0 := by
    rw [hsB3]; simp [-setModMem_zero, -setModMem_one, reg_setModMem, r34, r37, r38, r41]
  clear hsB3 r32 r33 r34 r37 r38 r41
  obtain ⟨r34, r37, r38, r41⟩ := r'
  rw [ok_bind]
  generalize hsC : ({ sB3 with stmCycle := (1, 1), stmMode := (STM_MODE_GAIN, STM_MODE_GAIN), stmDiv := (0xFFFF, 0xFFFF), stmRep := (0xFFFF, 0xFFFF), stmSegment := 0 } : State) = sC
  have hC : PreWF sC := by rw [← hsC]; prewf_same hB3
  have rC : ∀ a, reg sC a = reg sB3 a := by intro a; rw [← hsC]; rfl
  clear hsC
  rw [ctlWrite_main _ _ _ (by decide), ok_bind,
    ctlWriteWords_main' _ ADDR_STM_TRANSITION_VALUE_0 #[0, 0, 0, 0] (by decide), ok_bind,
    ctlWrite_main _ _ _ (by decide), ok_bind, ctlWrite_main _ _ _ (by decide), ok_bind,
    ctlWrite_main _ _ _ (by decide), ok_bind, ctlWrite_main _ _ _ (by decide), ok_bind,
    ctlWrite_main _ _ _ (by decide), ok_bind, ctlWrite_main _ _ _ (by decide), ok_bind,
    ctlWrite_main _ _ _ (by decide), ok_bind, ctlWrite_main _ _ _ (by decide), ok_bind,
    ctlWrite_main _ _ _ (by decide), ok_bind, ctlWrite_main _ _ _ (by decide), ok_bind,
    ctlWrite_main _ _ _ (by decide), ok_bind]
  obtain ⟨sC1, hsC1⟩ : ∃ x, x = wr (wr (wr (wr (wr (wr (wr (wr (wr (wr (wr
      (setCtl (wr sC ADDR_STM_TRANSITION_MODE TRANSITION_MODE_SYNC_IDX)
        (wrWords (wr sC ADDR_STM_TRANSITION_MODE TRANSITION_MODE_SYNC_IDX).ctl ADDR_STM_TRANSITION_VALUE_0 #[0, 0, 0, 0]))
      ADDR_STM_MODE0 STM_MODE_GAIN) ADDR_STM_MODE1 STM_MODE_GAIN) ADDR_STM_REQ_RD_SEGMENT 0) ADDR_STM_CYCLE0 0)
      ADDR_STM_FREQ_DIV0 65535) ADDR_STM_CYCLE1 0) ADDR_STM_FREQ_DIV1 65535) ADDR_STM_REP0 65535) ADDR_STM_REP1 65535)
      ADDR_STM_MEM_WR_SEGMENT 0) ADDR_STM_MEM_WR_PAGE 0 := ⟨_, rfl⟩
  rw [← hsC1]
  have hC1 : PreWF sC1 := by
    rw [hsC1]
    repeat (first | exact hC | apply PreWF_wr | apply PreWF_setCtl)
    rw [size_wrWords]; simpa using hC.ctl
  have hcC := hC.ctl
  have q34 : rd sC.ctl 34 = 0 := (rC 34).trans r34
  have q37 : rd sC.ctl 37 = 65535 := (rC 37).trans r37
  have q38 : rd sC.ctl 38 = 65535 := (rC 38).trans r38
  have q41 : rd sC.ctl 41 = 0 := (rC 41).trans r41
  have r' : reg sC1 80 = 0 ∧ reg sC1 81 = 0 ∧ reg sC1 82 = 0 ∧ reg sC1 95 = 0 ∧ reg sC1 85 = 65535 ∧ reg sC1 86 = 65535 ∧
      reg sC1 34 = 0 ∧ reg sC1 37 = 65535 ∧ reg sC1 38 = 65535 ∧ reg sC1 41 = 0 := by
    rw [hsC1]
    simp [reg_wr, reg_setCtl, rd_wrWords, rd_set, hcC, ADDR_STM_TRANSITION_MODE, ADDR_STM_TRANSITION_VALUE_0,
      ADDR_STM_MODE0, ADDR_STM_MODE1, ADDR_STM_REQ_RD_SEGMENT, ADDR_STM_CYCLE0, ADDR_STM_FREQ_DIV0, ADDR_STM_CYCLE1,
      ADDR_STM_FREQ_DIV1, ADDR_STM_REP0, ADDR_STM_REP1, ADDR_STM_MEM_WR_SEGMENT, ADDR_STM_MEM_WR_PAGE,
      TRANSITION_MODE_SYNC_IDX, STM_MODE_GAIN, q34, q37, q38, q41]
  clear hsC1 r34 r37 r38 r41
  obtain ⟨r80, r81, r82, r95, r85, r86, r34, r37, r38, r41⟩ := r'
  have hsts : ∀ x, PreWF x → ∀ g, (Obs.stmMem x g).size = 262144 := by
    intro x hx g; unfold Obs.stmMem; split
    · exact hx.stmMem0
    · exact hx.stmMem1
  have hsz249 : (Array.replicate TRANS_NUM 0).size = 249 := by simp [TRANS_NUM]
  rw [stmWriteWords_eq sC1 0 _ (by rw [show ADDR_STM_MEM_WR_SEGMENT = 80 from rfl, r80]; decide)
    (by rw [hsz249]; decide) (by rw [show ADDR_STM_MEM_WR_PAGE = 81 from rfl, r81, hsz249]; decide), ok_bind,
    ctlWrite_main _ _ _ (by decide), ok_bind, ctlWrite_main _ _ _ (by decide), ok_bind]
  obtain ⟨sC3, hsC3⟩ : ∃ x, x = wr (wr (setStmMem sC1 (reg sC1 ADDR_STM_MEM_WR_SEGMENT)
      (wrWords (Obs.stmMem sC1 (reg sC1 ADDR_STM_MEM_WR_SEGMENT)) (reg sC1 ADDR_STM_MEM_WR_PAGE * 16384 + 0 % 16384)
        (Array.replicate TRANS_NUM 0))) ADDR_STM_MEM_WR_SEGMENT 1) ADDR_STM_MEM_WR_PAGE 0 := ⟨_, rfl⟩
  rw [← hsC3]
  have hC3 : PreWF sC3 := by
    rw [hsC3]; apply PreWF_wr; apply PreWF_wr; apply PreWF_setStmMem hC1; rw [size_wrWords]; exact hsts _ hC1 _
  have hcC1 := hC1.ctl
  have r' : reg sC3 80 = 1 ∧ reg sC3 81 = 0 ∧ reg sC3 82 = 0 ∧ reg sC3 95 = 0 ∧ reg sC3 85 = 65535 ∧ reg sC3 86 = 65535 ∧
      reg sC3 34 = 0 ∧ reg sC3 37 = 65535 ∧ reg sC3 38 = 65535 ∧ reg sC3 41 = 0 := by
    rw [hsC3]
    simp [-setStmMem_zero, -setStmMem_one, reg_wr, reg_setStmMem, hcC1, ADDR_STM_MEM_WR_SEGMENT, ADDR_STM_MEM_WR_PAGE,
      r80, r81, r82, r95, r85, r86, r34, r37, r38, r41]
  clear hsC3 r80 r81 r82 r95 r85 r86 r34 r37 r38 r41
  obtain ⟨r80, r81, r82, r95, r85, r86, r34, r37, r38, r41⟩ := r'
  rw [stmWriteWords_eq sC3 0 _ (by rw [show ADDR_STM_MEM_WR_SEGMENT = 80 from rfl, r80]; decide)
    (by rw [hsz249]; decide) (by rw [show ADDR_STM_MEM_WR_PAGE = 81 from rfl, r81, hsz249]; decide)]
  obtain ⟨sC4, hsC4⟩ : ∃ x, x = setStmMem sC3 (reg sC3 ADDR_STM_MEM_WR_SEGMENT)
      (wrWords (Obs.stmMem sC3 (reg sC3 ADDR_STM_MEM_WR_SEGMENT)) (reg sC3 ADDR_STM_MEM_WR_PAGE * 16384 + 0 % 16384)
        (Array.replicate TRANS_NUM 0)) := ⟨_, rfl⟩
  rw [← hsC4]
  have hC4 : PreWF sC4 := by
    rw [hsC4]; apply PreWF_setStmMem hC3; rw [size_wrWords]; exact hsts _ hC3 _
  have r' : reg sC4 82 = 0 ∧ reg sC4 95 = 0 ∧ reg sC4 85 = 65535 ∧ reg sC4 86 = 65535 ∧
      reg sC4 34 = 0 ∧ reg sC4 37 = 65535 ∧ reg sC4 38 = 65535 ∧ reg sC4 41 = 0 := by
    rw [hsC4]
    simp [-setStmMem_zero, -setStmMem_one, reg_setStmMem, r82, r95, r85, r86, r34, r37, r38, r41]
  clear hsC4 r80 r81 r82 r95 r85 r86 r34 r37 r38 r41
  obtain ⟨r82, r95, r85, r86, r34, r37, r38, r41⟩ := r'
  rw [ok_bind]
  have hsz125 : (Array.replicate ((TRANS_NUM + 1) >>> 1) 0).size = 125 := by simp [TRANS_NUM]
  rw [show BRAM_CNT_SEL_PHASE_CORR <<< 8 = 256 + 0 from rfl,
    ctlWriteWords_pc sC4 0 _ (by rw [hsz125]; decide) hC4.phaseCorr]
  generalize hsC5 : ({ sC4 with phaseCorr := wrWords sC4.phaseCorr 0 (Array.replicate ((TRANS_NUM + 1) >>> 1) 0) } : State) = sC5
  have hC5 : PreWF sC5 := by
    rw [← hsC5]
    exact ⟨hC4.ctl, by simpa using hC4.phaseCorr, hC4.pwe, hC4.modMem0, hC4.modMem1, hC4.stmMem0, hC4.stmMem1, hC4.numTr,
      hC4.flags, hC4.modSwap, hC4.stmSwap⟩
  have rC5 : ∀ a, reg sC5 a = reg sC4 a := by intro a; unfold reg; rw [← hsC5]
  clear hsC5
  rw [ok_bind, pweWriteWords_eq sC5 0 _ (by rw [Array.size_map, Array.size_range, hC5.pwe]; decide)]
  generalize hsC6 : ({ sC5 with pwe := wrWords sC5.pwe (0 % 16384) (Array.map Tables.cpuAsin (Array.range 256)) } : State) = sC6
  have hC6 : PreWF sC6 := by
    rw [← hsC6]
    exact ⟨hC5.ctl, hC5.phaseCorr, by simpa using hC5.pwe, hC5.modMem0, hC5.modMem1, hC5.stmMem0, hC5.stmMem1, hC5.numTr,
      hC5.flags, hC5.modSwap, hC5.stmSwap⟩
  have rC6 : ∀ a, reg sC6 a = reg sC5 a := by intro a; unfold reg; rw [← hsC6]
  clear hsC6
  rw [ok_bind, pweWriteWords_eq sC6 255 _ (by rw [hC6.pwe]; decide)]
  generalize hsC7 : ({ sC6 with pwe := wrWords sC6.pwe (255 % 16384) #[256] } : State) = sC7
  have hC7 : PreWF sC7 := by
    rw [← hsC7]
    exact ⟨hC6.ctl, hC6.phaseCorr, by simpa using hC6.pwe, hC6.modMem0, hC6.modMem1, hC6.stmMem0, hC6.stmMem1, hC6.numTr,
      hC6.flags, hC6.modSwap, hC6.stmSwap⟩
  have rC7 : ∀ a, reg sC7 a = reg sC6 a := by intro a; unfold reg; rw [← hsC7]
  clear hsC7
  have hsz16 : (Array.replicate 16 0 : Array Nat).size = 16 := by simp
  rw [ok_bind, ctlWriteWords_main' sC7 ADDR_DEBUG_VALUE0_0 _ (by rw [hsz16]; decide), ok_bind]
  obtain ⟨sC8, hsC8⟩ : ∃ x, x = setCtl sC7 (wrWords sC7.ctl ADDR_DEBUG_VALUE0_0 (Array.replicate 16 0)) := ⟨_, rfl⟩
  rw [← hsC8]
  have hC8 : PreWF sC8 := by
    rw [hsC8]; apply PreWF_setCtl hC7; rw [size_wrWords]; exact hC7.ctl
  have rC8 : ∀ a, a < 240 → reg sC8 a = reg sC4 a := by
    intro a ha
    rw [hsC8, reg_setCtl_wrWords _ _ _ _ hC7.ctl, if_neg (by simp only [ADDR_DEBUG_VALUE0_0]; omega), rC7, rC6, rC5]
  clear hsC8
  have q34 : reg sC8 34 = 0 := (rC8 34 (by decide)).trans r34
  have q41 : reg sC8 41 = 0 := (rC8 41 (by decide)).trans r41
  have q37 : reg sC8 37 = 65535 := (rC8 37 (by decide)).trans r37
  have q38 : reg sC8 38 = 65535 := (rC8 38 (by decide)).trans r38
  have q82 : reg sC8 82 = 0 := (rC8 82 (by decide)).trans r82
  have q95 : reg sC8 95 = 0 := (rC8 95 (by decide)).trans r95
  have q85 : reg sC8 85 = 65535 := (rC8 85 (by decide)).trans r85
  have q86 : reg sC8 86 = 65535 := (rC8 86 (by decide)).trans r86
  have hfl0 : ∀ x, PreWF x → x.flagsInternal % 256 = 0 := fun x hx => by rw [hx.flags]
  -- MOD_SET
  obtain ⟨w1, hsaw1, hset1⟩ := saw_mod_ok sC8 hC8.ctl (hfl0 _ hC8)
    (by rw [show ADDR_MOD_REQ_RD_SEGMENT = 34 from rfl, q34]; decide) .syncIdx
    (by rw [show ADDR_MOD_TRANSITION_MODE = 41 from rfl, q41]; exact decodeTMode_zero _ _) hC8.modSwap
  rw [hsaw1, ok_bind]
  have hw1 : SwapOK w1 := by
    refine SwapOK_set _ _ hC8.modSwap _ _ _ ?_ (by omega) hset1.freqDiv hset1.cycle
    rw [show ADDR_MOD_REQ_RD_SEGMENT = 34 from rfl, q34, show ADDR_MOD_FREQ_DIV0 + 0 = 37 from rfl, q37]; decide
  obtain ⟨sD1, hsD1⟩ : ∃ x, x = setModSwap (wr (wr sC8 ADDR_CTL_FLAG (sC8.flagsInternal ||| CTL_FLAG_MOD_SET))
      ADDR_CTL_FLAG sC8.flagsInternal) w1 := ⟨_, rfl⟩
  rw [← hsD1]
  have hD1 : PreWF sD1 := by
    rw [hsD1]; exact PreWF_setModSwap (PreWF_wr (PreWF_wr hC8 _ _) _ _) w1 hw1
  have rD1 : ∀ a, a ≠ 0 → reg sD1 a = reg sC8 a := by
    intro a ha
    rw [hsD1, reg_setModSwap, reg_wr_ne _ _ _ _ (by simpa [ADDR_CTL_FLAG] using ha),
      reg_wr_ne _ _ _ _ (by simpa [ADDR_CTL_FLAG] using ha)]
  clear hsD1 hsaw1 hset1
  -- STM_SET
  obtain ⟨w2, hsaw2, hset2⟩ := saw_stm_ok sD1 hD1.ctl (hfl0 _ hD1)
    (by rw [show ADDR_STM_REQ_RD_SEGMENT = 82 from rfl, rD1 _ (by decide), q82]; decide) .syncIdx
    (by rw [show ADDR_STM_TRANSITION_MODE = 95 from rfl, rD1 _ (by decide), q95]; exact decodeTMode_zero _ _) hD1.stmSwap
  rw [hsaw2, ok_bind]
  have hw2 : SwapOK w2 := by
    refine SwapOK_set _ _ hD1.stmSwap _ _ _ ?_ (by omega) hset2.freqDiv hset2.cycle
    have e82 : reg sD1 82 = 0 := (rD1 82 (by decide)).trans q82
    have e85 : reg sD1 85 = 65535 := (rD1 85 (by decide)).trans q85
    rw [show ADDR_STM_REQ_RD_SEGMENT = 82 from rfl, e82, show ADDR_STM_FREQ_DIV0 + 0 = 85 from rfl, e85]; decide
  obtain ⟨sD2, hsD2⟩ : ∃ x, x = setStmSwap (wr (wr sD1 ADDR_CTL_FLAG (sD1.flagsInternal ||| CTL_FLAG_STM_SET))
      ADDR_CTL_FLAG sD1.flagsInternal) w2 := ⟨_, rfl⟩
  rw [← hsD2]
  have hD2 : PreWF sD2 := by
    rw [hsD2]; exact PreWF_setStmSwap (PreWF_wr (PreWF_wr hD1 _ _) _ _) w2 hw2
  have rD2 : ∀ a, a ≠ 0 → reg sD2 a = reg sC8 a := by
    intro a ha
    rw [hsD2, reg_setStmSwap, reg_wr_ne _ _ _ _ (by simpa [ADDR_CTL_FLAG] using ha),
      reg_wr_ne _ _ _ _ (by simpa [ADDR_CTL_FLAG] using ha), rD1 a ha]
  clear hsD2 hsaw2 hset2
  -- SILENCER_SET, DEBUG_SET
  rw [saw_plain sD2 _ hD2.ctl (hfl0 _ hD2) (by decide) (by decide), ok_bind]
  obtain ⟨sD3, hsD3⟩ : ∃ x, x = wr (wr sD2 ADDR_CTL_FLAG (sD2.flagsInternal ||| CTL_FLAG_SILENCER_SET))
      ADDR_CTL_FLAG sD2.flagsInternal := ⟨_, rfl⟩
  rw [← hsD3]
  have hD3 : PreWF sD3 := by rw [hsD3]; exact PreWF_wr (PreWF_wr hD2 _ _) _ _
  have rD3 : ∀ a, a ≠ 0 → reg sD3 a = reg sC8 a := by
    intro a ha
    rw [hsD3, reg_wr_ne _ _ _ _ (by simpa [ADDR_CTL_FLAG] using ha),
      reg_wr_ne _ _ _ _ (by simpa [ADDR_CTL_FLAG] using ha), rD2 a ha]
  clear hsD3
  rw [saw_plain sD3 _ hD3.ctl (hfl0 _ hD3) (by decide) (by decide), ok_bind]
  refine ⟨_, rfl, ?_⟩
  have rD4 : ∀ a, a ≠ 0 → reg (wr (wr sD3 ADDR_CTL_FLAG (sD3.flagsInternal ||| CTL_FLAG_DEBUG_SET))
      ADDR_CTL_FLAG sD3.flagsInternal) a = reg sC8 a := by
    intro a ha
    rw [reg_wr_ne _ _ _ _ (by simpa [ADDR_CTL_FLAG] using ha),
      reg_wr_ne _ _ _ _ (by simpa [ADDR_CTL_FLAG] using ha), rD3 a ha]
  refine WF_of_PreWF (PreWF_wr (PreWF_wr hD3 _ _) _ _) ?_ ?_ ?_ ?_
  · rw [show ADDR_MOD_FREQ_DIV0 = 37 from rfl, rD4 _ (by decide), q37]; decide
  · rw [show ADDR_MOD_FREQ_DIV1 = 38 from rfl, rD4 _ (by decide), q38]; decide
  · rw [show ADDR_STM_FREQ_DIV0 = 85 from rfl, rD4 _ (by decide), q85]; decide
  · rw [show ADDR_STM_FREQ_DIV1 = 86 from rfl, rD4 _ (by decide), q86]; decide


theorem SwapOK_fresh (t : Nat) : SwapOK { sysTime := t } :=
  ⟨show 1 ≤ 10 by decide, show 1 ≤ 10 by decide, show 1 ≤ 1 by decide, show 1 ≤ 1 by decide⟩

/-- **`CPUEmulator::new` yields a well-formed state** (for every clock reading and every device with at
most 249 transducers): no panic in `init()`, and `WF` holds afterwards -/
theorem new_WF (numTr now : Nat) (hn : numTr ≤ 249) : ∃ s, Fw.new numTr now = .ok s ∧ WF s := by
  unfold Fw.new
  simp only []
  obtain ⟨s', h1, h2⟩ := clear_ok
    { numTr := numTr, dcSysTime := now,
      ctl := ((Array.replicate 256 0).setIfInBounds ADDR_VERSION_NUM_MAJOR
        (((Fpga.ENABLED_FEATURES_BITS <<< 8) ||| Fpga.VERSION_NUM_MAJOR) % 65536)).setIfInBounds ADDR_VERSION_NUM_MINOR
          Fpga.VERSION_NUM_MINOR,
      pwe := (Array.range 256).map Tables.fpgaAsin, modSwap := { sysTime := now }, stmSwap := { sysTime := now } } #[]
    ⟨by simp, by simp, by simp, by simp, by simp, by simp, by simp, hn, rfl,
      SwapOK_fresh now, SwapOK_fresh now⟩
  refine ⟨s', ?_, h2⟩
  rw [h1]; rfl


end Autd3.Rt
