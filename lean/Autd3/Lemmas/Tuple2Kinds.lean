import Autd3.Lemmas.Tuple2Pairs
import Autd3.Lemmas.Tuple2Gain
import Autd3.Lemmas.Tuple2FociObs
import Autd3.Lemmas.Tuple2GstmObs
/-!
General tuples, part 4: the STM-side protocols as `SKind`s.
-/
open Autd3 Autd3.Fw Autd3.Wire Autd3.Gen.Cpu Autd3.Gen Autd3.Rt
namespace Autd3.Tuple2

theorem gainKind (seg : Nat) (tr : Tr) (drives : Array Nat) (hseg : seg ≤ 1)
    (htr : tr = none ∨ ∃ v, tr = some (Drv.TRANSITION_MODE_IMMEDIATE, v)) :
    SKind (gainProto seg tr drives) (fun b => setSel b.stmDiv seg 0xFFFF)
      (fun b => if tr.isSome then seg else b.stmSegment) where
  laws := gainProto_laws seg tr drives hseg htr
  own := fun _ _ h => h
  ownT := fun _ _ h => h
  other := fun _ _ h => h
  readyCongr := by
    intro y x h hW _ _ _ _ _ _
    rw [gainProto_ready] at h ⊢
    exact ⟨hW, h.2⟩
  obs := by
    intro b b' f f' h h' hb hpc hpc' _ _
    exact gainDone_obs hseg (gainProto_done seg tr drives h) (gainProto_done seg tr drives h') hb hpc hpc'
  latch := by
    intro b x c h0 hp
    unfold Proto.Post at hp
    have : ¬ c < (gainProto seg tr drives).total := by show ¬ c < 1; omega
    rw [if_neg this] at hp
    have hd := gainProto_done seg tr drives hp
    exact ⟨hd.latchDiv, hd.latchSeg⟩
  latchCongr := by
    intro b b' hb
    simp only [hb.div, hb.segment, and_self]

theorem fociKind (n seg : Nat) (tr : Tr) (rep div ss : Nat) (records : Array Nat) (P : Nat)
    (hn : 1 ≤ n ∧ n ≤ 8) (hsize : records.size = P * n) (htotal : 2 ≤ P * n ∧ P * n ≤ 65536) :
    SKind (fociProto n seg tr rep div ss records P) (fun b => setSel b.stmDiv seg div)
      (fun b => if trMode tr = TRANSITION_MODE_NONE then b.stmSegment else seg) where
  laws := fociProto_laws n seg tr rep div ss records P hn hsize htotal
  own := fun _ _ h => h
  ownT := fun _ _ h => h
  other := fun _ _ h => h
  readyCongr := by
    intro y x h hW h1 h2 h3 h4 h5 h6
    rw [fociProto_ready] at h ⊢
    obtain ⟨_, H, g1, g2⟩ := h
    refine ⟨hW, ⟨H.hseg, H.hn, H.size, H.total, H.recs, H.hrep, H.hdiv, H.hss, fun m v e => by rw [h6]; exact H.htr m v e⟩,
      by rw [h1]; exact g1, ?_⟩
    unfold validateSilencerSettings at g2 ⊢
    rw [h2, h3, h4, h5]; exact g2
  obs := fun _ _ _ _ h h' hb hpc hpc' hnt hnt' => fociDone_obs n seg tr rep div ss records P h h' hb hpc hpc' hnt hnt'
  latch := by
    intro b x c h0 hp
    unfold Proto.Post at hp
    split at hp
    · exact (fociProto_mid n seg tr rep div ss records P hp).2
    · exact (fociProto_done n seg tr rep div ss records P hp).2.2
  latchCongr := by
    intro b b' hb
    simp only [hb.div, hb.segment, and_self]

theorem gstmKind (mode seg : Nat) (tr : Tr) (rep div : Nat) (patterns : Array (Array Nat)) (hmode : mode ≤ 2)
    (hsize : 2 ≤ patterns.size ∧ patterns.size ≤ 1024) :
    SKind (gstmProto mode seg tr rep div patterns) (fun b => setSel b.stmDiv seg div)
      (fun b => if trMode tr = TRANSITION_MODE_NONE then b.stmSegment else seg) where
  laws := gstmProto_laws mode seg tr rep div patterns hmode hsize
  own := fun _ _ h => h
  ownT := fun _ _ h => h
  other := fun _ _ h => h
  readyCongr := by
    intro y x h hW h1 h2 h3 h4 h5 h6
    rw [gstmProto_ready] at h ⊢
    obtain ⟨_, H, g1, g2⟩ := h
    refine ⟨hW, ⟨H.hseg, H.hmode, H.size, H.drives, H.hrep, H.hdiv, fun m v e => by rw [h6]; exact H.htr m v e⟩,
      by rw [h1]; exact g1, ?_⟩
    unfold validateSilencerSettings at g2 ⊢
    rw [h2, h3, h4, h5]; exact g2
  obs := fun _ _ _ _ h h' hb hpc hpc' hnt hnt' => gstmDone_obs mode seg tr rep div patterns h h' hb hpc hpc' hnt hnt'
  latch := by
    intro b x c h0 hp
    unfold Proto.Post at hp
    split at hp
    · exact (gstmProto_mid mode seg tr rep div patterns hp).2
    · exact (gstmProto_done mode seg tr rep div patterns hp).2.2
  latchCongr := by
    intro b b' hb
    simp only [hb.div, hb.segment, and_self]

end Autd3.Tuple2
