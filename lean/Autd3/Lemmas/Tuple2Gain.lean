import Autd3.Lemmas.Tuple2Obs
import Autd3.Lemmas.Hist6
/-!
General tuples: the `Proto` instance of the (single-frame) Gain datagram.
-/
open Autd3 Autd3.Fw Autd3.Wire Autd3.Gen.Cpu Autd3.Gen Autd3.Rt
namespace Autd3.Tuple2

/-- what a Gain leaves behind, relative to the state `s0` its handler was called on (STM-side facts only) -/
structure GainDone (s0 s : State) (seg : Nat) (tr : Tr) (drives : Array Nat) : Prop where
  wf : WF s
  drives : Obs.gainDrives s seg 0 = (Array.range s0.numTr).map fun i => driveWithCorr (rd drives i) (Obs.phaseCorrAt s0 i)
  cycle : Obs.stmCycle s seg = 1
  gainMode : Obs.isStmGainMode s seg = true
  div : Obs.stmDiv s seg = 0xFFFF
  rep : Obs.stmRep s seg = 0xFFFF
  otherMem : Obs.stmMem s (1 - seg) = Obs.stmMem s0 (1 - seg)
  otherRegs : Obs.stmCycle s (1 - seg) = Obs.stmCycle s0 (1 - seg) ∧ Obs.stmDiv s (1 - seg) = Obs.stmDiv s0 (1 - seg) ∧
    Obs.stmRep s (1 - seg) = Obs.stmRep s0 (1 - seg) ∧ Obs.isStmGainMode s (1 - seg) = Obs.isStmGainMode s0 (1 - seg) ∧
    Obs.soundSpeed s (1 - seg) = Obs.soundSpeed s0 (1 - seg) ∧ Obs.numFoci s (1 - seg) = Obs.numFoci s0 (1 - seg)
  ownFoci : Obs.soundSpeed s seg = Obs.soundSpeed s0 seg ∧ Obs.numFoci s seg = Obs.numFoci s0 seg
  numTr : s.numTr = s0.numTr
  latchDiv : s.stmDiv = setSel s0.stmDiv seg 0xFFFF
  latchSeg : s.stmSegment = (if tr.isSome then seg else s0.stmSegment)
  latchMode : sel s.stmMode seg = STM_MODE_GAIN ∧ sel s.stmCycle seg = 1
  reqNone : tr = none → s.stmSwap = s0.stmSwap ∧ Obs.reqStmSeg s = Obs.reqStmSeg s0 ∧ Obs.stmTransition s = Obs.stmTransition s0
  reqSome : tr.isSome = true → Obs.reqStmSeg s = .ok seg ∧ Obs.stmTransition s = .ok .syncIdx ∧
    SwapSet s0.stmSwap s.stmSwap s0.dcSysTime 0xFFFF 0xFFFF 1 seg .syncIdx
  /-- `SwapSet` does not determine every field of the new chain; the chain is the result of `Swapchain::set` -/
  swapDet : tr.isSome = true → s0.stmSwap.set s0.dcSysTime 0xFFFF 0xFFFF 1 seg .syncIdx = .ok s.stmSwap

/-! ### transfer of the STM-side observations -/

theorem gainDrives_congr (s s' : State) (seg idx : Nat) (hm : Obs.stmMem s' seg = Obs.stmMem s seg)
    (hn : s'.numTr = s.numTr) (hp : s'.phaseCorr = s.phaseCorr) : Obs.gainDrives s' seg idx = Obs.gainDrives s seg idx := by
  unfold Obs.gainDrives Obs.phaseCorrAt
  rw [hm, hn, hp]

theorem gainDrives_fin (s : State) (id seg idx : Nat) : Obs.gainDrives (fin s id) seg idx = Obs.gainDrives s seg idx :=
  gainDrives_congr s (fin s id) seg idx rfl rfl rfl

/-- the STM-side observations depend on the STM memories and the registers 80..99 only -/
structure SameS (s s' : State) : Prop where
  mem : ∀ g, Obs.stmMem s' g = Obs.stmMem s g
  regs : ∀ a, 80 ≤ a → a ≤ 99 → reg s' a = reg s a
  phaseCorr : s'.phaseCorr = s.phaseCorr
  numTr : s'.numTr = s.numTr
  swap : s'.stmSwap = s.stmSwap
  div : s'.stmDiv = s.stmDiv
  segment : s'.stmSegment = s.stmSegment
  mode : s'.stmMode = s.stmMode
  cycle : s'.stmCycle = s.stmCycle

theorem SameS.stmCycle {s s' : State} (h : SameS s s') (g : Nat) (hg : g ≤ 1) : Obs.stmCycle s' g = Obs.stmCycle s g := by
  unfold Obs.stmCycle; rw [h.regs _ (by simp only [ADDR_STM_CYCLE0]; omega) (by simp only [ADDR_STM_CYCLE0]; omega)]
theorem SameS.stmDiv {s s' : State} (h : SameS s s') (g : Nat) (hg : g ≤ 1) : Obs.stmDiv s' g = Obs.stmDiv s g := by
  unfold Obs.stmDiv; rw [h.regs _ (by simp only [ADDR_STM_FREQ_DIV0]; omega) (by simp only [ADDR_STM_FREQ_DIV0]; omega)]
theorem SameS.stmRep {s s' : State} (h : SameS s s') (g : Nat) (hg : g ≤ 1) : Obs.stmRep s' g = Obs.stmRep s g := by
  unfold Obs.stmRep; rw [h.regs _ (by simp only [ADDR_STM_REP0]; omega) (by simp only [ADDR_STM_REP0]; omega)]
theorem SameS.soundSpeed {s s' : State} (h : SameS s s') (g : Nat) (hg : g ≤ 1) : Obs.soundSpeed s' g = Obs.soundSpeed s g := by
  unfold Obs.soundSpeed; rw [h.regs _ (by simp only [ADDR_STM_SOUND_SPEED0]; omega) (by simp only [ADDR_STM_SOUND_SPEED0]; omega)]
theorem SameS.numFoci {s s' : State} (h : SameS s s') (g : Nat) (hg : g ≤ 1) : Obs.numFoci s' g = Obs.numFoci s g := by
  unfold Obs.numFoci; rw [h.regs _ (by simp only [ADDR_STM_NUM_FOCI0]; omega) (by simp only [ADDR_STM_NUM_FOCI0]; omega)]
theorem SameS.isStmGainMode {s s' : State} (h : SameS s s') (g : Nat) (hg : g ≤ 1) :
    Obs.isStmGainMode s' g = Obs.isStmGainMode s g := by
  have : reg s' (ADDR_STM_MODE0 + g) = reg s (ADDR_STM_MODE0 + g) :=
    h.regs _ (by simp only [ADDR_STM_MODE0]; omega) (by simp only [ADDR_STM_MODE0]; omega)
  unfold Obs.isStmGainMode; rw [this]
theorem SameS.reqStmSeg {s s' : State} (h : SameS s s') : Obs.reqStmSeg s' = Obs.reqStmSeg s := by
  unfold Obs.reqStmSeg segReg; simp only [h.regs ADDR_STM_REQ_RD_SEGMENT (by decide) (by decide)]
theorem SameS.stmTransition {s s' : State} (h : SameS s s') : Obs.stmTransition s' = Obs.stmTransition s := by
  unfold Obs.stmTransition reg64
  simp only [h.regs ADDR_STM_TRANSITION_MODE (by decide) (by decide),
    h.regs ADDR_STM_TRANSITION_VALUE_0 (by decide) (by decide),
    h.regs (ADDR_STM_TRANSITION_VALUE_0 + 1) (by decide) (by decide),
    h.regs (ADDR_STM_TRANSITION_VALUE_0 + 2) (by decide) (by decide),
    h.regs (ADDR_STM_TRANSITION_VALUE_0 + 3) (by decide) (by decide)]

theorem SameS_fin (s : State) (id : Nat) : SameS s (fin s id) :=
  ⟨fun _ => rfl, fun a h1 _ => reg_fin s id a (by omega), rfl, rfl, rfl, rfl, rfl, rfl, rfl⟩

theorem SameS_io (s : State) (a l r : Nat) : SameS s { s with ack := a, lastMsgId := l, rxData := r } :=
  ⟨fun _ => rfl, fun _ _ _ => rfl, rfl, rfl, rfl, rfl, rfl, rfl, rfl⟩

theorem SameS_of_KeepS {s s' : State} (h : KeepS s s') : SameS s s' :=
  ⟨fun g => by unfold Obs.stmMem; rw [h.mem0, h.mem1], h.regs, h.phaseCorr, h.numTr, h.swap, h.div, h.segment, h.mode, h.cycle⟩

theorem SameS.symm {s s' : State} (h : SameS s s') : SameS s' s :=
  ⟨fun g => (h.mem g).symm, fun a h1 h2 => (h.regs a h1 h2).symm, h.phaseCorr.symm, h.numTr.symm, h.swap.symm, h.div.symm,
    h.segment.symm, h.mode.symm, h.cycle.symm⟩

/-- `GainDone` only looks at the STM side of its second state -/
theorem GainDone.same {s0 s s' : State} {seg : Nat} {tr : Tr} {drives : Array Nat} (hseg : seg ≤ 1)
    (h : GainDone s0 s seg tr drives) (e : SameS s s') (hw : WF s') : GainDone s0 s' seg tr drives := by
  have h1 : 1 - seg ≤ 1 := by omega
  obtain ⟨o1, o2, o3, o4, o5, o6⟩ := h.otherRegs
  refine ⟨hw, ?_, ?_, ?_, ?_, ?_, ?_, ⟨?_, ?_, ?_, ?_, ?_, ?_⟩, ⟨?_, ?_⟩, e.numTr.trans h.numTr, e.div.trans h.latchDiv,
    e.segment.trans h.latchSeg, by rw [e.mode, e.cycle]; exact h.latchMode, ?_, ?_, ?_⟩
  · rw [gainDrives_congr s s' seg 0 (e.mem seg) e.numTr e.phaseCorr]; exact h.drives
  · rw [e.stmCycle _ hseg]; exact h.cycle
  · rw [e.isStmGainMode _ hseg]; exact h.gainMode
  · rw [e.stmDiv _ hseg]; exact h.div
  · rw [e.stmRep _ hseg]; exact h.rep
  · rw [e.mem]; exact h.otherMem
  · rw [e.stmCycle _ h1]; exact o1
  · rw [e.stmDiv _ h1]; exact o2
  · rw [e.stmRep _ h1]; exact o3
  · rw [e.isStmGainMode _ h1]; exact o4
  · rw [e.soundSpeed _ h1]; exact o5
  · rw [e.numFoci _ h1]; exact o6
  · rw [e.soundSpeed _ hseg]; exact h.ownFoci.1
  · rw [e.numFoci _ hseg]; exact h.ownFoci.2
  · intro ht; rw [e.swap, e.reqStmSeg, e.stmTransition]; exact h.reqNone ht
  · intro ht; rw [e.swap, e.reqStmSeg, e.stmTransition]; exact h.reqSome ht
  · intro ht; rw [e.swap]; exact h.swapDet ht

/-! ### one handler call -/

/-- with the update flag, the new STM swap chain is the result of `Swapchain::set` on the old one -/
theorem gain_upd_swap (sH : State) (hW : WF sH) (d : Array Nat) (seg : Nat) (hseg : seg ≤ 1)
    (p0 : u8at d 0 = 48) (p1 : u8at d 1 = seg) (p2 : u8at d 2 = 1) (sE : State)
    (hh : handlePayload sH d = .ok (sE, NO_ERR)) :
    sH.stmSwap.set sH.dcSysTime 0xFFFF 0xFFFF 1 seg .syncIdx = .ok sE.stmSwap := by
  have hu := gain_handler_upd sH hW d seg hseg p0 p1 p2 _ rfl
  have hW2 : WF { sH with stmSegment := seg } := by wf_same hW
  have hWB := WF_gainBody hW2 seg hseg (wordsAt d 4 sH.numTr)
  have hc2 : ({ sH with stmSegment := seg } : State).ctl.size = 256 := hW.ctl
  have hrB := reg_gainBody { sH with stmSegment := seg } hc2 seg hseg (wordsAt d 4 sH.numTr)
  have e4 : (gainBody { sH with stmSegment := seg } seg (wordsAt d 4 sH.numTr)).stmSwap = sH.stmSwap := by
    simp [gainBody, gainRegs]
  have e5 : (gainBody { sH with stmSegment := seg } seg (wordsAt d 4 sH.numTr)).dcSysTime = sH.dcSysTime := by
    simp [gainBody, gainRegs]
  generalize gainBody { sH with stmSegment := seg } seg (wordsAt d 4 sH.numTr) = sG at hu hWB hrB e4 e5
  have hWB2 : WF (wr (wr sG ADDR_STM_REQ_RD_SEGMENT seg) ADDR_STM_TRANSITION_MODE TRANSITION_MODE_SYNC_IDX) :=
    WF_wr (WF_wr hWB _ _ (Or.inl (by decide))) _ _ (Or.inl (by decide))
  have hB : ∀ a, reg (wr (wr sG ADDR_STM_REQ_RD_SEGMENT seg) ADDR_STM_TRANSITION_MODE TRANSITION_MODE_SYNC_IDX) a =
      if a = 95 then 0 else if a = 82 then seg else reg sG a := by
    intro a
    simp only [reg_wr, wr_ctl, Array.size_setIfInBounds, hWB.ctl, ADDR_STM_REQ_RD_SEGMENT, ADDR_STM_TRANSITION_MODE,
      TRANSITION_MODE_SYNC_IDX, Nat.mod_eq_of_lt (show seg < 65536 by omega)]
    simp
  generalize hsB : wr (wr sG ADDR_STM_REQ_RD_SEGMENT seg) ADDR_STM_TRANSITION_MODE TRANSITION_MODE_SYNC_IDX = sB
    at hu hWB2 hB
  have hBs : sB.stmSwap = sH.stmSwap := by rw [← hsB]; exact e4
  have hBt : sB.dcSysTime = sH.dcSysTime := by rw [← hsB]; exact e5
  have e82 : reg sB ADDR_STM_REQ_RD_SEGMENT = seg := by rw [hB]; rfl
  have e95 : reg sB ADDR_STM_TRANSITION_MODE = 0 := by rw [hB]; rfl
  obtain ⟨w, hw, _⟩ := swap_set_ok sB.stmSwap hWB2.stmSwap sB.dcSysTime
    (reg sB (ADDR_STM_REP0 + reg sB ADDR_STM_REQ_RD_SEGMENT)) (reg sB (ADDR_STM_FREQ_DIV0 + reg sB ADDR_STM_REQ_RD_SEGMENT))
    (reg sB (ADDR_STM_CYCLE0 + reg sB ADDR_STM_REQ_RD_SEGMENT) + 1) (reg sB ADDR_STM_REQ_RD_SEGMENT) .syncIdx
  have hs := saw_stm sB hWB2.ctl hWB2.flags (by rw [e82]; exact hseg) .syncIdx
    (by rw [e95]; exact decodeTMode_zero _ _) w hw
  rw [hs, hh, ok_bind] at hu
  have hE : sE.stmSwap = w := by
    have := congrArg (fun r => match r with | Except.ok (x, _) => x.stmSwap | Except.error _ => w) hu
    exact this
  have r1 : reg sB (ADDR_STM_REP0 + seg) = 0xFFFF := by
    simp only [ADDR_STM_REP0]
    rw [hB, if_neg (by omega), if_neg (by omega), hrB]
    rw [if_neg (by omega), if_neg (by omega), if_neg (by omega), if_neg (by omega), if_pos rfl]
  have r2 : reg sB (ADDR_STM_FREQ_DIV0 + seg) = 0xFFFF := by
    simp only [ADDR_STM_FREQ_DIV0]
    rw [hB, if_neg (by omega), if_neg (by omega), hrB]
    rw [if_neg (by omega), if_neg (by omega), if_neg (by omega), if_neg (by omega), if_neg (by omega), if_pos rfl]
  have r3 : reg sB (ADDR_STM_CYCLE0 + seg) = 0 := by
    simp only [ADDR_STM_CYCLE0]
    rw [hB, if_neg (by omega), if_neg (by omega), hrB]
    rw [if_neg (by omega), if_neg (by omega), if_neg (by omega), if_pos rfl]
  rw [e82, r1, r2, r3, hBs, hBt] at hw
  rw [hE]; exact hw

/-- the Gain handler on any payload with the Gain header (`flag` = whether a transition was requested) and the
drive words, called on any well-formed state -/
theorem gain_handle_done (sH : State) (hW : WF sH) (d : Array Nat) (seg : Nat) (hseg : seg ≤ 1) (tr : Tr)
    (drives : Array Nat) (hdr : ∀ i, rd drives i < 65536)
    (p0 : u8at d 0 = 48) (p1 : u8at d 1 = seg) (p2 : u8at d 2 = if tr.isSome then 1 else 0)
    (pw : ∀ j, j < sH.numTr → u16at d (4 + 2 * j) = rd drives j % 65536) :
    ∃ s2, handlePayload sH d = .ok (s2, NO_ERR) ∧ s2.lastMsgId = sH.lastMsgId ∧ GainDone sH s2 seg tr drives ∧
      Foot eraseS TS sH s2 := by
  have hfoot : ∀ s2, handlePayload sH d = .ok (s2, NO_ERR) → Foot eraseS TG sH s2 := by
    intro s2 h
    rw [dispatch_gain _ _ p0] at h
    exact writeGain_foot sH d hW.ctl hW.flags s2 NO_ERR h
  have h1 : 1 - seg ≤ 1 := by omega
  have hss : ∀ s2, Foot eraseS TG sH s2 → ∀ g, g ≤ 1 → Obs.soundSpeed s2 g = Obs.soundSpeed sH g ∧
      Obs.numFoci s2 g = Obs.numFoci sH g := by
    intro s2 hf g hg
    unfold Obs.soundSpeed Obs.numFoci
    rw [hf.regs (ADDR_STM_SOUND_SPEED0 + g) (by unfold TG; simp only [ADDR_STM_SOUND_SPEED0]; omega),
      hf.regs (ADDR_STM_NUM_FOCI0 + g) (by unfold TG; simp only [ADDR_STM_NUM_FOCI0]; omega)]
    exact ⟨rfl, rfl⟩
  cases tr with
  | none =>
    have p2' : u8at d 2 = 0 := p2
    obtain ⟨sE, hh, hWE, hlast, hG, a1, a2, a3, a4, a5, a6, a7, _⟩ :=
      gain_handle_noupd sH hW d 0 seg hseg drives hdr p0 p1 p2' pw
    have e := (SameS_fin sE 0).symm
    have hf := hfoot sE hh
    obtain ⟨o1, o2, o3, o4⟩ := hG.otherRegs
    refine ⟨sE, hh, hlast, ⟨hWE, ?_, ?_, ?_, ?_, ?_, hG.otherMem, ⟨?_, ?_, ?_, ?_, (hss sE hf _ h1).1, (hss sE hf _ h1).2⟩,
      hss sE hf _ hseg, hG.numTr, a7, a4, ?_, fun _ => ⟨a1, ?_, ?_⟩, (fun h => nomatch h), (fun h => nomatch h)⟩, hf.mono TG_TS⟩
    · rw [← gainDrives_fin sE 0]; exact hG.drives
    · rw [← stmCycle_fin sE 0]; exact hG.cycle
    · rw [← isStmGainMode_fin sE 0]; exact hG.gainMode
    · rw [← stmDiv_fin sE 0]; exact hG.div
    · rw [← stmRep_fin sE 0]; exact hG.rep
    · rw [← stmCycle_fin sE 0]; exact o1
    · rw [← stmDiv_fin sE 0]; exact o2
    · rw [← stmRep_fin sE 0]; exact o3
    · rw [← isStmGainMode_fin sE 0]; exact o4
    · have b5 : sE.stmMode = setSel sH.stmMode seg STM_MODE_GAIN := a5
      have b6 : sE.stmCycle = setSel sH.stmCycle seg 1 := a6
      rw [b5, b6, sel_setSel_same, sel_setSel_same]; exact ⟨rfl, rfl⟩
    · rw [← reqStmSeg_fin sE 0]; exact a2
    · rw [← stmTransition_fin sE 0]; exact a3
  | some mv =>
    have p2' : u8at d 2 = 1 := p2
    obtain ⟨sE, hh, hWE, hlast, hG, a1, a2, _, a4, a5, a6, a7, a8, _⟩ :=
      gain_handle_upd sH hW d 0 seg hseg drives hdr p0 p1 p2' pw
    have hf := hfoot sE hh
    obtain ⟨o1, o2, o3, o4⟩ := hG.otherRegs
    refine ⟨sE, hh, hlast, ⟨hWE, ?_, ?_, ?_, ?_, ?_, hG.otherMem, ⟨?_, ?_, ?_, ?_, (hss sE hf _ h1).1, (hss sE hf _ h1).2⟩,
      hss sE hf _ hseg, hG.numTr, a8, a4, ?_, (fun h => nomatch h), fun _ => ⟨?_, ?_, a5⟩,
      fun _ => gain_upd_swap sH hW d seg hseg p0 p1 p2' sE hh⟩, hf.mono TG_TS⟩
    · rw [← gainDrives_fin sE 0]; exact hG.drives
    · rw [← stmCycle_fin sE 0]; exact hG.cycle
    · rw [← isStmGainMode_fin sE 0]; exact hG.gainMode
    · rw [← stmDiv_fin sE 0]; exact hG.div
    · rw [← stmRep_fin sE 0]; exact hG.rep
    · rw [← stmCycle_fin sE 0]; exact o1
    · rw [← stmDiv_fin sE 0]; exact o2
    · rw [← stmRep_fin sE 0]; exact o3
    · rw [← isStmGainMode_fin sE 0]; exact o4
    · have b5 : sE.stmMode = setSel sH.stmMode seg STM_MODE_GAIN := a6
      have b6 : sE.stmCycle = setSel sH.stmCycle seg 1 := a7
      rw [b5, b6, sel_setSel_same, sel_setSel_same]; exact ⟨rfl, rfl⟩
    · rw [← reqStmSeg_fin sE 0]; exact a1
    · rw [← stmTransition_fin sE 0]; exact a2

/-! ### two complete sends of the same Gain from bases that agree on the STM side -/

theorem gainDone_obs {seg : Nat} {tr : Tr} {drives : Array Nat} (hseg : seg ≤ 1) {b b' f f' : State}
    (h : GainDone b f seg tr drives) (h' : GainDone b' f' seg tr drives) (hb : KeepS b b')
    (hpc : f.phaseCorr = b.phaseCorr) (hpc' : f'.phaseCorr = b'.phaseCorr) : StmObsEq f f' := by
  have e := SameS_of_KeepS hb
  have h1 : 1 - seg ≤ 1 := by omega
  obtain ⟨o1, o2, o3, o4, o5, o6⟩ := h.otherRegs
  obtain ⟨o1', o2', o3', o4', o5', o6'⟩ := h'.otherRegs
  have q1 : Obs.stmCycle f' (1 - seg) = Obs.stmCycle f (1 - seg) := by rw [o1', o1, e.stmCycle _ h1]
  have q2 : Obs.stmDiv f' (1 - seg) = Obs.stmDiv f (1 - seg) := by rw [o2', o2, e.stmDiv _ h1]
  have q3 : Obs.stmRep f' (1 - seg) = Obs.stmRep f (1 - seg) := by rw [o3', o3, e.stmRep _ h1]
  have q4 : Obs.isStmGainMode f' (1 - seg) = Obs.isStmGainMode f (1 - seg) := by rw [o4', o4, e.isStmGainMode _ h1]
  have q5 : Obs.soundSpeed f' (1 - seg) = Obs.soundSpeed f (1 - seg) := by rw [o5', o5, e.soundSpeed _ h1]
  have q6 : Obs.numFoci f' (1 - seg) = Obs.numFoci f (1 - seg) := by rw [o6', o6, e.numFoci _ h1]
  have qm : Obs.stmMem f' (1 - seg) = Obs.stmMem f (1 - seg) := by rw [h'.otherMem, h.otherMem, e.mem]
  have qn : f'.numTr = f.numTr := by rw [h'.numTr, h.numTr, e.numTr]
  have qp : f'.phaseCorr = f.phaseCorr := by rw [hpc', hpc, e.phaseCorr]
  have cases2 : ∀ g, g ≤ 1 → g = seg ∨ g = 1 - seg := by intro g hg; omega
  refine ⟨?_, ?_, ?_, ?_, ?_, ?_⟩
  · intro g hg
    rcases cases2 g hg with hg | hg <;> subst hg
    · exact ⟨by rw [h'.gainMode, h.gainMode], by rw [h'.cycle, h.cycle], by rw [h'.div, h.div], by rw [h'.rep, h.rep]⟩
    · exact ⟨q4, q1, q2, q3⟩
  · intro g hg
    rcases cases2 g hg with hg | hg <;> subst hg
    · exact ⟨by rw [h'.ownFoci.1, h.ownFoci.1, e.soundSpeed _ hseg], by rw [h'.ownFoci.2, h.ownFoci.2, e.numFoci _ hseg]⟩
    · exact ⟨q5, q6⟩
  · intro g hg idx hidx
    rcases cases2 g hg with hg | hg <;> subst hg
    · have hi : idx = 0 := by rw [h.cycle] at hidx; omega
      subst hi
      unfold Obs.drivesAt
      rw [h'.gainMode, h.gainMode]
      simp only [if_true]
      rw [h'.drives, h.drives, e.numTr]
      unfold Obs.phaseCorrAt
      rw [e.phaseCorr]
    · exact Hist.drivesAt_seg_congr f f' (1 - seg) qm q4 qp qn (fun _ => ⟨q5, q6⟩) idx
  · cases tr with
    | none => rw [(h'.reqNone rfl).2.1, (h.reqNone rfl).2.1, e.reqStmSeg]
    | some mv => rw [(h'.reqSome rfl).1, (h.reqSome rfl).1]
  · cases tr with
    | none => rw [(h'.reqNone rfl).2.2, (h.reqNone rfl).2.2, e.stmTransition]
    | some mv => rw [(h'.reqSome rfl).2.1, (h.reqSome rfl).2.1]
  · cases tr with
    | none => rw [(h'.reqNone rfl).1, (h.reqNone rfl).1, e.swap]
    | some mv =>
      have a := h.swapDet rfl
      have a' := h'.swapDet rfl
      rw [e.swap, hb.time, a] at a'
      injection a' with a'
      exact a'.symm

/-! ### the protocol -/

/-- driver-side operation state: not sent yet / sent -/
def gainOpAt (seg : Nat) (tr : Tr) (drives : Array Nat) : Nat → Op
  | 0 => { dg := .gain seg tr drives, sent := 0, done := false }
  | _ + 1 => { dg := .gain seg tr drives, sent := 0, done := true }

def gainProto (seg : Nat) (tr : Tr) (drives : Array Nat) : Proto where
  dg := .gain seg tr drives
  total := 1
  opAt := gainOpAt seg tr drives
  Ready := fun sH => WF sH ∧ seg ≤ 1 ∧ (tr = none ∨ ∃ v, tr = some (Drv.TRANSITION_MODE_IMMEDIATE, v)) ∧
    ∀ i, rd drives i < 65536
  Mid := fun _ _ _ => False
  Done := fun s0 s => GainDone s0 s seg tr drives
  Own := Foot eraseS TS
  OwnT := Foot eraseSI TS
  Other := KeepS

/-- the frame packed at offset `k`: result of `pack`, and what any buffer that agrees with it on the reported bytes
shows the firmware at `payload[k..]` -/
theorem gain_pack_at (seg : Nat) (tr : Tr) (htr : tr = none ∨ ∃ v, tr = some (Drv.TRANSITION_MODE_IMMEDIATE, v))
    (hseg : seg ≤ 1) (drives : Array Nat) (nt : Nat) (b : Array Nat) (k : Nat) (hb : b.size = 622)
    (hk : k + 4 + 2 * nt ≤ 622) :
    ∃ b', (gainOpAt seg tr drives 0).pack nt b k = .ok (gainOpAt seg tr drives 1, b', 4 + nt * 2) ∧
      ∀ b'', b''.size = 622 → (∀ i, k ≤ i → i < k + (4 + nt * 2) → rd b'' i = rd b' i) →
        u8at (b''.extract k 622) 0 = 48 ∧ u8at (b''.extract k 622) 1 = seg ∧
        u8at (b''.extract k 622) 2 = (if tr.isSome then 1 else 0) ∧
        ∀ j, j < nt → u16at (b''.extract k 622) (4 + 2 * j) = rd drives j % 65536 := by
  have key : ∀ flag, flag ≤ 1 → ∀ b'', b''.size = 622 →
      (∀ i, k ≤ i → i < k + (4 + nt * 2) → rd b'' i = rd (gainPayloadAt b k seg flag drives nt) i) →
      u8at (b''.extract k 622) 0 = 48 ∧ u8at (b''.extract k 622) 1 = seg ∧ u8at (b''.extract k 622) 2 = flag ∧
        ∀ j, j < nt → u16at (b''.extract k 622) (4 + 2 * j) = rd drives j % 65536 := by
    intro flag hfl b'' hb'' hag
    obtain ⟨p0, p1, p2, pw, psz⟩ := gainAt_payload b k seg flag drives nt hb hk (by omega) (by omega)
    generalize gainPayloadAt b k seg flag drives nt = b' at p0 p1 p2 pw psz hag
    have e8 : ∀ i, i < 4 + nt * 2 → u8at (b''.extract k 622) i = u8at (b'.extract k 622) i := by
      intro i hi
      have x1 := u8at_extract b'' k i
      have x2 := u8at_extract b' k i
      rw [hb''] at x1; rw [psz] at x2
      rw [x1, x2]; unfold u8at; rw [hag (k + i) (by omega) (by omega)]
    have e16 : ∀ i, i + 1 < 4 + nt * 2 → u16at (b''.extract k 622) i = u16at (b'.extract k 622) i := by
      intro i hi; unfold u16at; rw [e8 i (by omega), e8 (i + 1) hi]
    exact ⟨(e8 0 (by omega)).trans p0, (e8 1 (by omega)).trans p1, (e8 2 (by omega)).trans p2,
      fun j hj => (e16 (4 + 2 * j) (by omega)).trans (pw j hj)⟩
  rcases htr with h | ⟨v, h⟩
  · subst h
    exact ⟨_, pack_gain_none_at seg drives nt b k hb hk, fun b'' h1 h2 => key 0 (by omega) b'' h1 h2⟩
  · subst h
    exact ⟨_, pack_gain_some_at seg v drives nt b k hb hk, fun b'' h1 h2 => key 1 (by omega) b'' h1 h2⟩

theorem gainProto_laws (seg : Nat) (tr : Tr) (drives : Array Nat) (hseg : seg ≤ 1)
    (htr : tr = none ∨ ∃ v, tr = some (Drv.TRANSITION_MODE_IMMEDIATE, v)) : (gainProto seg tr drives).Laws where
  op0 := rfl
  total_pos := Nat.one_pos
  done_iff := by
    intro c hc
    rcases (show c = 0 ∨ c = 1 from by have : c ≤ 1 := hc; omega) with h | h <;> subst h <;> simp [gainProto, gainOpAt]
  fits := by
    intro c nt hc hnt
    have hc0 : c = 0 := by have : c < 1 := hc; omega
    subst hc0
    show DrvLayout.Gain_size + nt * 2 ≤ 622
    simp only [DrvLayout.Gain_size]; omega
  step := by
    intro c nt b k hc hnt hb hk2 hroom
    have hc0 : c = 0 := by have : c < 1 := hc; omega
    subst hc0
    have hroom' : k + (DrvLayout.Gain_size + nt * 2) ≤ 622 := hroom
    simp only [DrvLayout.Gain_size] at hroom'
    obtain ⟨b', hpk, hrd⟩ := gain_pack_at seg tr htr hseg drives nt b k hb (by omega)
    refine ⟨1, b', 4 + nt * 2, hpk, Nat.one_pos, Nat.le_refl _, pack_keeps hpk, by omega, by omega, by omega, ?_⟩
    intro s0 sH hpre hnt' b'' hb'' hag
    obtain ⟨hs0, hW, _, _, hdr⟩ : s0 = sH ∧ WF sH ∧ seg ≤ 1 ∧ (tr = none ∨ ∃ v, tr = some (Drv.TRANSITION_MODE_IMMEDIATE, v)) ∧
      ∀ i, rd drives i < 65536 := hpre
    subst hs0
    obtain ⟨p0, p1, p2, pw⟩ := hrd b'' hb'' hag
    obtain ⟨s2, hh, hl, hD, hF⟩ := gain_handle_done s0 hW (b''.extract k 622) seg hseg tr drives hdr p0 p1 p2
      (fun j hj => pw j (by omega))
    exact ⟨s2, hh, hl, hD, hF⟩
  ready_wf := fun _ h => h.1
  mid_wf := fun _ _ _ h => h.elim
  done_wf := fun _ _ h => GainDone.wf h
  mid_io := fun _ _ _ _ _ _ h => h.elim
  done_io := by
    intro s0 s a l r h
    have h' : GainDone s0 s seg tr drives := h
    exact h'.same hseg (SameS_io s a l r) (by wf_same h'.wf)
  mid_fin := fun _ _ _ _ h => h.elim
  done_fin := by
    intro s0 s id h
    have h' : GainDone s0 s seg tr drives := h
    exact h'.same hseg (SameS_fin s id) (WF_fin h'.wf id)
  mid_other := fun _ _ _ _ h _ _ => h.elim
  done_other := by
    intro s0 s s' h ho hw
    have h' : GainDone s0 s seg tr drives := h
    exact h'.same hseg (SameS_of_KeepS ho) hw
  ownT_refl := fun s => Foot.refl _ _ s
  ownT_trans := fun _ _ _ h1 h2 => Foot.trans h1 h2
  own_ownT := fun _ _ h => Foot.toSI h
  io_ownT := fun s a l r => ⟨hio_SI s a l r, rfl, fun _ _ => rfl⟩
  fin_ownT := by
    intro s id _
    refine ⟨rfl, ?_, fun a ha => reg_fin s id a (fun h0 => ha (Or.inl h0))⟩
    show (s.ctl.setIfInBounds _ _).size = s.ctl.size
    simp
  ownT_numTr := by
    intro a b h
    have : (eraseSI b).numTr = (eraseSI a).numTr := congrArg State.numTr (Foot.eq h)
    exact this

theorem gainProto_ready (seg : Nat) (tr : Tr) (drives : Array Nat) (sH : State) :
    (gainProto seg tr drives).Ready sH ↔ (WF sH ∧ seg ≤ 1 ∧
      (tr = none ∨ ∃ v, tr = some (Drv.TRANSITION_MODE_IMMEDIATE, v)) ∧ ∀ i, rd drives i < 65536) := Iff.rfl

theorem gainProto_done (seg : Nat) (tr : Tr) (drives : Array Nat) {s0 s : State}
    (h : (gainProto seg tr drives).Done s0 s) : GainDone s0 s seg tr drives := h

end Autd3.Tuple2
