import Autd3.Lemmas.P02Frames
/-!
# Read-back path (C17): `read_fpga_state`, the byte `updateWithSysTime` publishes, `firm_info`, and a
closed form of `ecat_recv` for single-slot frames
-/
namespace Autd3.P02
open Autd3 Autd3.Fw Autd3.Gen.Cpu Autd3.Gen

/-- `x &&& 2^k = 0` iff bit `k` is clear -/
theorem and_two_pow_eq_zero (x k : Nat) : x &&& 2 ^ k = 0 ↔ x.testBit k = false := by
  constructor
  · intro h
    have := congrArg (fun y => y.testBit k) h
    simpa [Nat.testBit_and, Nat.testBit_two_pow_self] using this
  · intro h
    apply Nat.eq_of_testBit_eq
    intro i
    rw [Nat.testBit_and, Nat.testBit_two_pow]
    by_cases hi : k = i
    · subst hi; simp [h]
    · simp [hi]

theorem readFpgaState_on (s : State) (hu : s.isRxDataUsed = false) (hr : s.readsFpgaState = true) :
    readFpgaState s = { s with rxData := (FPGA_STATE_READS_FPGA_STATE_ENABLED ||| (reg s ADDR_FPGA_STATE % 256)) % 256 } := by
  unfold readFpgaState; simp [hu, hr]

theorem readFpgaState_off (s : State) (hu : s.isRxDataUsed = false) (hr : s.readsFpgaState = false) :
    readFpgaState s = { s with rxData := s.rxData &&& (255 - FPGA_STATE_READS_FPGA_STATE_ENABLED) } := by
  unfold readFpgaState; simp [hu, hr]

theorem readFpgaState_used (s : State) (hu : s.isRxDataUsed = true) : readFpgaState s = s := by
  unfold readFpgaState; simp [hu]

theorem bit7_on (r : Nat) : ((FPGA_STATE_READS_FPGA_STATE_ENABLED ||| (r % 256)) % 256) &&& FPGA_STATE_READS_FPGA_STATE_ENABLED ≠ 0 := by
  have e : FPGA_STATE_READS_FPGA_STATE_ENABLED = 2 ^ 7 := by decide
  have e2 : (256 : Nat) = 2 ^ 8 := by decide
  intro h0
  rw [e, and_two_pow_eq_zero, e2, Nat.testBit_mod_two_pow, Nat.testBit_or, Nat.testBit_two_pow_self] at h0
  simp at h0

theorem bit7_off (x : Nat) : (x &&& (255 - FPGA_STATE_READS_FPGA_STATE_ENABLED)) &&& FPGA_STATE_READS_FPGA_STATE_ENABLED = 0 := by
  have e : FPGA_STATE_READS_FPGA_STATE_ENABLED = 2 ^ 7 := by decide
  rw [e, and_two_pow_eq_zero, Nat.testBit_and]
  have : (255 - 2 ^ 7).testBit 7 = false := by decide
  simp [this]

/-- **rx gate**: with no version query in flight, bit 7 of the rx byte is the reads-state flag -/
theorem readFpgaState_bit7 (s : State) (hu : s.isRxDataUsed = false) :
    ((readFpgaState s).rxData &&& FPGA_STATE_READS_FPGA_STATE_ENABLED ≠ 0 ↔ s.readsFpgaState = true) := by
  cases hr : s.readsFpgaState
  · rw [readFpgaState_off s hu hr]
    simp [bit7_off]
  · rw [readFpgaState_on s hu hr]
    simp only [iff_true]
    exact bit7_on _

/-- only the low byte of the FPGA_STATE register reaches the published byte -/
theorem fpgaStateWord_mod (st cm cs cyc : Nat) :
    fpgaStateWord st cm cs cyc % 256 = fpgaStateWord (st % 256) cm cs cyc % 256 := by
  have e : (256 : Nat) = 2 ^ 8 := by decide
  unfold fpgaStateWord
  simp only []
  rw [e]
  split <;> split <;> split <;>
    simp only [Nat.and_mod_two_pow, Nat.or_mod_two_pow, Nat.mod_mod]

/-- what `updateWithSysTime` publishes in the rx byte -/
theorem update_rx (s s' : State) (t : Nat) (hsz : 1 < s.ctl.size) (hu : s.isRxDataUsed = false)
    (hr : updateWithSysTime s t = .ok s') :
    (s.readsFpgaState = true →
      s'.rxData = (FPGA_STATE_READS_FPGA_STATE_ENABLED |||
        (fpgaStateWord (reg s ADDR_FPGA_STATE) s'.modSwap.cur s'.stmSwap.cur
          (reg s (ADDR_STM_CYCLE0 + s'.stmSwap.cur) + 1) % 256)) % 256) ∧
    (s.readsFpgaState = false → s'.rxData = s.rxData &&& (255 - FPGA_STATE_READS_FPGA_STATE_ENABLED)) ∧
    s'.readsFpgaState = s.readsFpgaState ∧ s'.isRxDataUsed = false ∧ s'.dcSysTime = t := by
  have hr0 := hr
  unfold updateWithSysTime at hr
  obtain ⟨mw, hm, hr⟩ := bind_eq_ok hr
  obtain ⟨sw, hs, hr⟩ := bind_eq_ok hr
  have e := updateWithSysTime_eq s t mw sw hm hs
  rw [e] at hr0
  simp only [Except.ok.injEq] at hr0
  subst hr0
  have hms := updCore_modSwap s mw sw t
  have hss := updCore_stmSwap s mw sw t
  rw [hms, hss]
  have key : ∀ X : State, X.isRxDataUsed = false →
      (X.readsFpgaState = true → (readFpgaState X).rxData =
        (FPGA_STATE_READS_FPGA_STATE_ENABLED ||| (reg X ADDR_FPGA_STATE % 256)) % 256) ∧
      (X.readsFpgaState = false → (readFpgaState X).rxData = X.rxData &&& (255 - FPGA_STATE_READS_FPGA_STATE_ENABLED)) ∧
      (readFpgaState X).readsFpgaState = X.readsFpgaState ∧ (readFpgaState X).isRxDataUsed = false := by
    intro X hX
    refine ⟨fun h => by rw [readFpgaState_on X hX h], fun h => by rw [readFpgaState_off X hX h], ?_, ?_⟩
    · rw [readFpgaState_frame]
    · rw [readFpgaState_frame]; exact hX
  unfold updCore
  simp only []
  obtain ⟨k1, k2, k3, k4⟩ := key _ (show ({ ({ s with modSwap := mw, stmSwap := sw } : State) with
      ctl := s.ctl.setIfInBounds ADDR_FPGA_STATE (fpgaStateWord (reg s ADDR_FPGA_STATE) mw.cur sw.cur
        (reg s (ADDR_STM_CYCLE0 + sw.cur) + 1)) } : State).isRxDataUsed = false from hu)
  refine ⟨fun h => ?_, fun h => ?_, k3, k4, trivial⟩
  · have := k1 h
    simp only [reg, rd_set, ADDR_FPGA_STATE, hsz, and_self, if_true] at this
    exact this
  · exact k2 h

/-! ### `firm_info` -/

theorem firmInfo_1 (s : State) (d : Array Nat) (h : u8at d FwLayout.FirmInfo_ty_off = INFO_TYPE_CPU_VERSION_MAJOR) :
    firmInfo s d = .ok ({ s with readsStore := s.readsFpgaState, readsFpgaState := false, isRxDataUsed := true,
                                 rxData := CPU_VERSION_MAJOR % 256 }, NO_ERR) := by
  unfold firmInfo; simp [h]

theorem firmInfo_2 (s : State) (d : Array Nat) (h : u8at d FwLayout.FirmInfo_ty_off = INFO_TYPE_CPU_VERSION_MINOR) :
    firmInfo s d = .ok ({ s with rxData := CPU_VERSION_MINOR % 256 }, NO_ERR) := by
  unfold firmInfo; simp [h, INFO_TYPE_CPU_VERSION_MINOR, INFO_TYPE_CPU_VERSION_MAJOR]

theorem firmInfo_3 (s : State) (d : Array Nat) (h : u8at d FwLayout.FirmInfo_ty_off = INFO_TYPE_FPGA_VERSION_MAJOR) :
    firmInfo s d = .ok ({ s with rxData := reg s ADDR_VERSION_NUM_MAJOR % 256 }, NO_ERR) := by
  unfold firmInfo; simp [h, INFO_TYPE_CPU_VERSION_MINOR, INFO_TYPE_CPU_VERSION_MAJOR, INFO_TYPE_FPGA_VERSION_MAJOR]

theorem firmInfo_4 (s : State) (d : Array Nat) (h : u8at d FwLayout.FirmInfo_ty_off = INFO_TYPE_FPGA_VERSION_MINOR) :
    firmInfo s d = .ok ({ s with rxData := reg s ADDR_VERSION_NUM_MINOR % 256 }, NO_ERR) := by
  unfold firmInfo; simp [h, INFO_TYPE_CPU_VERSION_MINOR, INFO_TYPE_CPU_VERSION_MAJOR, INFO_TYPE_FPGA_VERSION_MAJOR,
    INFO_TYPE_FPGA_VERSION_MINOR]

theorem firmInfo_5 (s : State) (d : Array Nat) (h : u8at d FwLayout.FirmInfo_ty_off = INFO_TYPE_FPGA_FUNCTIONS) :
    firmInfo s d = .ok ({ s with rxData := (reg s ADDR_VERSION_NUM_MAJOR >>> 8) % 256 }, NO_ERR) := by
  unfold firmInfo; simp [h, INFO_TYPE_CPU_VERSION_MINOR, INFO_TYPE_CPU_VERSION_MAJOR, INFO_TYPE_FPGA_VERSION_MAJOR,
    INFO_TYPE_FPGA_VERSION_MINOR, INFO_TYPE_FPGA_FUNCTIONS]

theorem firmInfo_6 (s : State) (d : Array Nat) (h : u8at d FwLayout.FirmInfo_ty_off = INFO_TYPE_CLEAR) :
    firmInfo s d = .ok ({ s with readsFpgaState := s.readsStore, isRxDataUsed := false }, NO_ERR) := by
  unfold firmInfo; simp [h, INFO_TYPE_CPU_VERSION_MINOR, INFO_TYPE_CPU_VERSION_MAJOR, INFO_TYPE_FPGA_VERSION_MAJOR,
    INFO_TYPE_FPGA_VERSION_MINOR, INFO_TYPE_FPGA_FUNCTIONS, INFO_TYPE_CLEAR]

/-! ### `ecat_recv` and dispatch -/

theorem handlePayload_firmInfo (s : State) (d : Array Nat) (ht : u8at d 0 = TAG_FIRM_INFO) :
    handlePayload s d = firmInfo s d := by
  unfold handlePayload; simp [ht, TAG_FIRM_INFO, Dispatch.arms, List.find?, handlerOf]

theorem handlePayload_clear (s : State) (d : Array Nat) (ht : u8at d 0 = TAG_CLEAR) :
    handlePayload s d = clear s d := by
  unfold handlePayload; simp [ht, TAG_CLEAR, Dispatch.arms, List.find?, handlerOf]

/-- `ecat_recv` of a frame with a fresh, valid message id and an empty second slot -/
theorem ecatRecv_slot1 (s : State) (frame : Array Nat) (s1 : State) (ack : Nat)
    (hid : s.lastMsgId ≠ u8at frame DrvLayout.Header_msg_id_off)
    (hlt : u8at frame DrvLayout.Header_msg_id_off &&& 0x80 = 0)
    (hslot : u16at frame DrvLayout.Header_slot_2_offset_off = 0)
    (hh : handlePayload (readFpgaState { s with lastMsgId := u8at frame DrvLayout.Header_msg_id_off })
            (frame.extract DrvLayout.Header_size frame.size) = .ok (s1, ack)) :
    ecatRecv s frame = .ok (if ack &&& ERR_BIT ≠ 0 then { s1 with ack := ack }
      else { s1 with ack := u8at frame DrvLayout.Header_msg_id_off,
                     ctl := s1.ctl.setIfInBounds 0 (s1.flagsInternal % 65536) }) := by
  unfold ecatRecv
  simp only [hid, hlt, hslot, hh, ok_bind, if_false, ne_eq, not_true_eq_false, ctlWrite_main _ ADDR_CTL_FLAG _ (by decide)]
  split <;> rfl

/-! ### the firmware-version query, frame by frame -/

/-- a single-slot frame carrying `FirmwareVersion(ty)` with message id `id` -/
structure IsFirmInfoFrame (f : Array Nat) (id ty : Nat) : Prop where
  msgId : u8at f DrvLayout.Header_msg_id_off = id
  valid : id &&& 0x80 = 0
  slot2 : u16at f DrvLayout.Header_slot_2_offset_off = 0
  tag : u8at (f.extract DrvLayout.Header_size f.size) 0 = TAG_FIRM_INFO
  ty : u8at (f.extract DrvLayout.Header_size f.size) FwLayout.FirmInfo_ty_off = ty

/-- the CPU-side bookkeeping every accepted frame performs -/
def acked (s : State) (id : Nat) : State :=
  { s with ack := id, lastMsgId := id, ctl := s.ctl.setIfInBounds 0 (s.flagsInternal % 65536) }

theorem ecatRecv_firmInfo (s : State) (f : Array Nat) (id ty : Nat) (s1 : State) (hf : IsFirmInfoFrame f id ty)
    (hid : s.lastMsgId ≠ id)
    (hh : firmInfo (readFpgaState { s with lastMsgId := id }) (f.extract DrvLayout.Header_size f.size) = .ok (s1, NO_ERR)) :
    ecatRecv s f = .ok { s1 with ack := id, ctl := s1.ctl.setIfInBounds 0 (s1.flagsInternal % 65536) } := by
  obtain ⟨h1, h2, h3, h4, h5⟩ := hf
  subst h1
  rw [ecatRecv_slot1 s f s1 NO_ERR hid h2 h3 (by rw [handlePayload_firmInfo _ _ h4]; exact hh)]
  rfl

/-- the state in the middle of a firmware-version query that started in `s`: reading is forced off, the
original flag is parked in `readsStore`, the rx byte carries the requested version byte -/
def fvState (s : State) (id rx : Nat) : State :=
  { s with lastMsgId := id, ack := id, readsStore := s.readsFpgaState, readsFpgaState := false,
           isRxDataUsed := true, rxData := rx, ctl := s.ctl.setIfInBounds 0 (s.flagsInternal % 65536) }

theorem set0_twice (c : Array Nat) (v w : Nat) : (c.setIfInBounds 0 v).setIfInBounds 0 w = c.setIfInBounds 0 w := by
  simp

theorem fv_step1 (s : State) (f : Array Nat) (id : Nat) (hf : IsFirmInfoFrame f id INFO_TYPE_CPU_VERSION_MAJOR)
    (hid : s.lastMsgId ≠ id) :
    ecatRecv s f = .ok (fvState s id (CPU_VERSION_MAJOR % 256)) := by
  rw [ecatRecv_firmInfo s f id _ _ hf hid (firmInfo_1 _ _ hf.ty)]
  rw [readFpgaState_frame]
  rfl

theorem fv_reg (s : State) (id rx a : Nat) (ha : a ≠ 0) : reg (fvState s id rx) a = reg s a := by
  simp [reg, fvState, rd_set, ha]

theorem fv_read (s : State) (id0 rx0 id : Nat) :
    readFpgaState { fvState s id0 rx0 with lastMsgId := id } = { fvState s id0 rx0 with lastMsgId := id } :=
  readFpgaState_used _ rfl

theorem fv_step2 (s : State) (f : Array Nat) (id0 rx0 id : Nat) (hf : IsFirmInfoFrame f id INFO_TYPE_CPU_VERSION_MINOR)
    (hid : id0 ≠ id) : ecatRecv (fvState s id0 rx0) f = .ok (fvState s id (CPU_VERSION_MINOR % 256)) := by
  rw [ecatRecv_firmInfo _ f id _ _ hf hid (firmInfo_2 _ _ hf.ty), fv_read]
  simp [fvState]

theorem fv_step3 (s : State) (f : Array Nat) (id0 rx0 id : Nat) (hf : IsFirmInfoFrame f id INFO_TYPE_FPGA_VERSION_MAJOR)
    (hid : id0 ≠ id) : ecatRecv (fvState s id0 rx0) f = .ok (fvState s id (reg s ADDR_VERSION_NUM_MAJOR % 256)) := by
  rw [ecatRecv_firmInfo _ f id _ _ hf hid (firmInfo_3 _ _ hf.ty), fv_read]
  simp [fvState, reg, rd_set, ADDR_VERSION_NUM_MAJOR]

theorem fv_step4 (s : State) (f : Array Nat) (id0 rx0 id : Nat) (hf : IsFirmInfoFrame f id INFO_TYPE_FPGA_VERSION_MINOR)
    (hid : id0 ≠ id) : ecatRecv (fvState s id0 rx0) f = .ok (fvState s id (reg s ADDR_VERSION_NUM_MINOR % 256)) := by
  rw [ecatRecv_firmInfo _ f id _ _ hf hid (firmInfo_4 _ _ hf.ty), fv_read]
  simp [fvState, reg, rd_set, ADDR_VERSION_NUM_MINOR]

theorem fv_step5 (s : State) (f : Array Nat) (id0 rx0 id : Nat) (hf : IsFirmInfoFrame f id INFO_TYPE_FPGA_FUNCTIONS)
    (hid : id0 ≠ id) : ecatRecv (fvState s id0 rx0) f = .ok (fvState s id ((reg s ADDR_VERSION_NUM_MAJOR >>> 8) % 256)) := by
  rw [ecatRecv_firmInfo _ f id _ _ hf hid (firmInfo_5 _ _ hf.ty), fv_read]
  simp [fvState, reg, rd_set, ADDR_VERSION_NUM_MAJOR]

/-- the closing frame (type 6) restores the reads flag parked at type 1 and re-opens the rx gate -/
theorem fv_step6 (s : State) (f : Array Nat) (id0 rx0 id : Nat) (hf : IsFirmInfoFrame f id INFO_TYPE_CLEAR)
    (hid : id0 ≠ id) (hu : s.isRxDataUsed = false) :
    ecatRecv (fvState s id0 rx0) f =
      .ok { s with lastMsgId := id, ack := id, readsStore := s.readsFpgaState, rxData := rx0,
                   ctl := s.ctl.setIfInBounds 0 (s.flagsInternal % 65536) } := by
  rw [ecatRecv_firmInfo _ f id _ _ hf hid (firmInfo_6 _ _ hf.ty), fv_read]
  simp [fvState, ← hu]

theorem wf_fvState (s : State) (id rx : Nat) (h : WF s) : WF (fvState s id rx) := by
  unfold fvState
  exact { ctl := by simp [h.ctl], phaseCorr := h.phaseCorr, pwe := h.pwe, modMem0 := h.modMem0, modMem1 := h.modMem1,
          stmMem0 := h.stmMem0, stmMem1 := h.stmMem1, numTr := h.numTr, modSwap := h.modSwap, stmSwap := h.stmSwap,
          flags := h.flags }

/-- changing only the CPU-side read-back bookkeeping keeps `WF` -/
theorem wf_readback_fields (s : State) (h : WF s) (rx : Nat) (r st u : Bool) :
    WF { s with rxData := rx, readsFpgaState := r, readsStore := st, isRxDataUsed := u } :=
  { ctl := h.ctl, phaseCorr := h.phaseCorr, pwe := h.pwe, modMem0 := h.modMem0, modMem1 := h.modMem1,
    stmMem0 := h.stmMem0, stmMem1 := h.stmMem1, numTr := h.numTr, modSwap := h.modSwap, stmSwap := h.stmSwap,
    flags := h.flags }

theorem wf_readFpgaState (s : State) (h : WF s) : WF (readFpgaState s) := by
  rw [readFpgaState_frame]
  exact wf_readback_fields s h _ s.readsFpgaState s.readsStore s.isRxDataUsed

theorem wf_firmInfo (s : State) (d : Array Nat) (h : WF s) : ∃ s' a, firmInfo s d = .ok (s', a) ∧ WF s' := by
  unfold firmInfo
  simp only []
  split
  · exact ⟨_, _, rfl, wf_readback_fields s h _ false s.readsFpgaState true⟩
  split
  · exact ⟨_, _, rfl, wf_readback_fields s h _ s.readsFpgaState s.readsStore s.isRxDataUsed⟩
  split
  · exact ⟨_, _, rfl, wf_readback_fields s h _ s.readsFpgaState s.readsStore s.isRxDataUsed⟩
  split
  · exact ⟨_, _, rfl, wf_readback_fields s h _ s.readsFpgaState s.readsStore s.isRxDataUsed⟩
  split
  · exact ⟨_, _, rfl, wf_readback_fields s h _ s.readsFpgaState s.readsStore s.isRxDataUsed⟩
  split
  · exact ⟨_, _, rfl, wf_readback_fields s h s.rxData s.readsStore s.readsStore false⟩
  · exact ⟨_, _, rfl, h⟩

end Autd3.P02
