import Autd3.Lemmas.GainWrapFilters
namespace Autd3.GainWrap

/-! ### `removeKey` -/

theorem removeKey_none {α : Type} (k : Nat) (gm : List (Nat × α)) :
    removeKey k gm = none ↔ k ∉ gm.map (·.1) := by
  induction gm with
  | nil => simp [removeKey]
  | cons p ps ih =>
    obtain ⟨a, b⟩ := p
    unfold removeKey
    by_cases h : a = k
    · subst h; simp
    · simp only [h, if_false, List.map_cons, List.mem_cons, not_or]
      cases hr : removeKey k ps with
      | none =>
        simp only [true_iff]
        exact ⟨fun e => h e.symm, ih.mp hr⟩
      | some x =>
        simp only [reduceCtorEq, false_iff, not_and, Classical.not_not]
        intro _
        apply Classical.byContradiction
        intro hc
        rw [ih.mpr hc] at hr
        cases hr

theorem removeKey_some {α : Type} (k : Nat) (gm gm' : List (Nat × α)) (v : α)
    (h : removeKey k gm = some (v, gm')) :
    gm.lookup k = some v ∧ (∀ k', k' ≠ k → gm'.lookup k' = gm.lookup k') ∧
    ((gm.map (·.1)).Nodup → (gm'.map (·.1)).Nodup ∧ ∀ k', k' ∈ gm'.map (·.1) ↔ (k' ∈ gm.map (·.1) ∧ k' ≠ k)) := by
  induction gm generalizing gm' with
  | nil => simp [removeKey] at h
  | cons p ps ih =>
    obtain ⟨a, b⟩ := p
    unfold removeKey at h
    by_cases e : a = k
    · subst e
      simp at h
      obtain ⟨rfl, rfl⟩ := h
      refine ⟨by simp, ?_, ?_⟩
      · intro k' hk'
        have : (k' == a) = false := by simp [hk']
        simp [List.lookup_cons, this]
      · intro hn
        simp only [List.map_cons, List.nodup_cons] at hn
        refine ⟨hn.2, ?_⟩
        intro k'
        simp only [List.map_cons, List.mem_cons]
        constructor
        · intro hm; exact ⟨Or.inr hm, fun e => hn.1 (e ▸ hm)⟩
        · rintro ⟨h1 | h1, h2⟩
          · exact absurd h1 h2
          · exact h1
    · simp only [e, if_false] at h
      cases hr : removeKey k ps with
      | none => simp [hr] at h
      | some x =>
        obtain ⟨x1, x2⟩ := x
        simp [hr] at h
        obtain ⟨rfl, rfl⟩ := h
        obtain ⟨i1, i2, i3⟩ := ih x2 hr
        have hka : (k == a) = false := by simp; exact fun e' => e e'.symm
        refine ⟨by simp [List.lookup_cons, hka, i1], ?_, ?_⟩
        · intro k' hk'
          simp only [List.lookup_cons]
          cases (k' == a) <;> simp [i2 k' hk']
        · intro hn
          simp only [List.map_cons, List.nodup_cons] at hn
          obtain ⟨j1, j2⟩ := i3 hn.2
          refine ⟨?_, ?_⟩
          · simp only [List.map_cons, List.nodup_cons]
            refine ⟨?_, j1⟩
            intro hm; exact hn.1 ((j2 a).mp hm).1
          · intro k'
            simp only [List.map_cons, List.mem_cons]
            rw [j2]
            constructor
            · rintro (h1 | ⟨h1, h2⟩)
              · subst h1; exact ⟨Or.inl rfl, e⟩
              · exact ⟨Or.inr h1, h2⟩
            · rintro ⟨h1 | h1, h2⟩
              · exact Or.inl h1
              · exact Or.inr ⟨h1, h2⟩

/-! ### `genAll`, `cacheFill` -/

/-- the calculator `generate` returned (junk if it panicked) -/
def okOr (x : Except Panic Calc) : Calc :=
  match x with
  | .ok c => c
  | .error _ => fun _ => .error .index

theorem genAll_ok (gen : Gen) (devs : List Dev) (h : ∀ d ∈ devs, ∃ c, gen d = .ok c) :
    genAll gen devs = .ok (devs.map fun d => (d.idx, okOr (gen d))) := by
  unfold genAll
  apply mapE_ok_of_forall (fun d => (d.idx, okOr (gen d)))
  intro d hd
  obtain ⟨c, hc⟩ := h d hd
  simp [hc, okOr]

theorem genAll_error (gen : Gen) (devs : List Dev) (p : Panic) (h : genAll gen devs = .error p) :
    ∃ d ∈ devs, gen d = .error p := by
  unfold genAll at h
  obtain ⟨d, hd, hx⟩ := mapE_error_inv _ _ h
  refine ⟨d, hd, ?_⟩
  cases hg : gen d with
  | error q => simp [hg] at hx; rw [hx]
  | ok c => simp [hg] at hx

theorem cacheFill_fresh (gen : Gen) (rows : Dev → List Drive) :
    ∀ (devs : List Dev) (store : List (Nat × List Drive)), (devs.map (·.idx)).Nodup →
      (∀ d ∈ devs, ∃ c, gen d = .ok c ∧ mapE c (List.range d.numTr) = .ok (rows d)) →
      (∀ d ∈ devs, hasKey store d.idx = false) →
      cacheFill gen devs store = .ok (store ++ devs.map fun d => (d.idx, rows d))
  | [], store, _, _, _ => by simp [cacheFill]
  | dev :: rest, store, hn, h, hs => by
    simp only [List.map_cons, List.nodup_cons] at hn
    obtain ⟨c, hc, hr⟩ := h dev (by simp)
    unfold cacheFill
    simp only [hs dev (by simp), Bool.false_eq_true, if_false, hc, hr]
    rw [cacheFill_fresh gen rows rest _ hn.2 (fun d hd => h d (by simp [hd]))]
    · simp
    · intro d hd
      rw [hasKey_iff_lookup, lookup_append_single]
      have h1 := hs d (by simp [hd])
      rw [hasKey_iff_lookup] at h1
      have hne : d.idx ≠ dev.idx := by
        intro e; apply hn.1; rw [← e]; exact List.mem_map_of_mem hd
      cases hl : store.lookup d.idx with
      | some x => simp [hl] at h1
      | none => simp [hne]

/-- a store in which every listed device is present is left alone -/
theorem cacheFill_full (gen : Gen) :
    ∀ (devs : List Dev) (store : List (Nat × List Drive)),
      (∀ d ∈ devs, hasKey store d.idx = true) → cacheFill gen devs store = .ok store
  | [], store, _ => by simp [cacheFill]
  | dev :: rest, store, hs => by
    unfold cacheFill
    simp only [hs dev (by simp), if_true]
    exact cacheFill_full gen rest store (fun d hd => hs d (by simp [hd]))


/-! ### the per-key loop of `Group::init_full`, for any state invariant `I` and any per-key
postcondition `Q` on the calculators; `allowErr` says whether inner gains may return `Err` -/

theorem groupLoop_spec (geo : Geo) (par : Bool) (I : St → Prop) (allowErr : Prop)
    (Q : Nat → Filter → List (Nat × Calc) → Prop) :
    ∀ (fl : List (Nat × Filter)) (gm : List (Nat × InitFn)) (acc : List (Nat × List (Nat × Calc))) (σ : St),
      (fl.map (·.1)).Nodup → (gm.map (·.1)).Nodup →
      (∀ k f i σ, (k, f) ∈ fl → gm.lookup k = some i → I σ →
        match i geo (some f) par σ with
        | (.ok gen, σ') => I σ' ∧ ∃ cs, genAll gen geo.devices = .ok cs ∧ Q k f cs
        | (.error (.err _), σ') => I σ' ∧ allowErr
        | (.error (.panic _), _) => False) →
      I σ → (∀ kf ∈ fl, acc.lookup kf.1 = none) →
      match groupLoop geo par fl gm acc σ with
      | (.ok (gm', calcs), σ') =>
        I σ' ∧ (∀ kf ∈ fl, kf.1 ∈ gm.map (·.1)) ∧
        (∀ k, k ∈ gm'.map (·.1) ↔ (k ∈ gm.map (·.1) ∧ k ∉ fl.map (·.1))) ∧
        (∀ k x, acc.lookup k = some x → calcs.lookup k = some x) ∧
        ∀ kf ∈ fl, ∃ cs, calcs.lookup kf.1 = some cs ∧ Q kf.1 kf.2 cs
      | (.error (.err _), σ') => I σ' ∧ (allowErr ∨ ∃ kf ∈ fl, kf.1 ∉ gm.map (·.1))
      | (.error (.panic _), _) => False
  | [], gm, acc, σ, _, _, _, hI, _ => by
    simp [groupLoop, hI]
  | (k, f) :: rest, gm, acc, σ, hfl, hgm, hstep, hI, hacc => by
    simp only [List.map_cons, List.nodup_cons] at hfl
    unfold groupLoop
    cases hr : removeKey k gm with
    | none =>
      simp only []
      exact ⟨hI, Or.inr ⟨(k, f), by simp, (removeKey_none k gm).mp hr⟩⟩
    | some x =>
      obtain ⟨i, gm'⟩ := x
      simp only []
      obtain ⟨r1, r2, r3⟩ := removeKey_some k gm gm' i hr
      obtain ⟨r3a, r3b⟩ := r3 hgm
      have hs := hstep k f i σ (by simp) r1 hI
      cases hi : i geo (some f) par σ with
      | mk res σ1 =>
        rw [hi] at hs
        cases res with
        | error e =>
          cases e with
          | err e' => simp only [] at hs ⊢; exact ⟨hs.1, Or.inl hs.2⟩
          | panic p => simp only [] at hs
        | ok gen =>
          simp only [] at hs ⊢
          obtain ⟨hI1, cs, hcs, hQ⟩ := hs
          rw [hcs]
          simp only []
          have ih := groupLoop_spec geo par I allowErr Q rest gm' (acc ++ [(k, cs)]) σ1 hfl.2 r3a
            (fun k' f' i' σ' hm hl hI' => by
              have hne : k' ≠ k := by
                intro e; subst e; exact hfl.1 (List.mem_map_of_mem (f := (·.1)) hm)
              exact hstep k' f' i' σ' (by simp [hm]) (by rw [← r2 k' hne]; exact hl) hI')
            hI1
            (fun kf hkf => by
              rw [lookup_append_single, hacc kf (by simp [hkf])]
              have hne : kf.1 ≠ k := by
                intro e; apply hfl.1; rw [← e]; exact List.mem_map_of_mem (f := (·.1)) hkf
              simp [hne])
          cases hg : groupLoop geo par rest gm' (acc ++ [(k, cs)]) σ1 with
          | mk res2 σ2 =>
            rw [hg] at ih
            cases res2 with
            | error e =>
              cases e with
              | err e' =>
                simp only [] at ih ⊢
                refine ⟨ih.1, ?_⟩
                rcases ih.2 with h | ⟨kf, hkf, hn⟩
                · exact Or.inl h
                · refine Or.inr ⟨kf, by simp [hkf], ?_⟩
                  intro hm; apply hn
                  have hne : kf.1 ≠ k := by
                    intro e; apply hfl.1; rw [← e]; exact List.mem_map_of_mem (f := (·.1)) hkf
                  exact (r3b kf.1).mpr ⟨hm, hne⟩
              | panic p => simp only [] at ih
            | ok pr =>
              obtain ⟨gmR, calcs⟩ := pr
              simp only [] at ih ⊢
              obtain ⟨j1, j2, j3, j4, j5⟩ := ih
              have hkgm : k ∈ gm.map (·.1) := by
                have := lookup_some_mem gm k i r1
                exact List.mem_map_of_mem (f := (·.1)) this
              refine ⟨j1, ?_, ?_, ?_, ?_⟩
              · intro kf hkf
                rcases List.mem_cons.mp hkf with rfl | h'
                · exact hkgm
                · exact ((r3b kf.1).mp (j2 kf h')).1
              · intro k'
                rw [j3, r3b]
                simp only [List.map_cons, List.mem_cons, not_or]
                constructor
                · rintro ⟨⟨h1, h2⟩, h3⟩; exact ⟨h1, h2, h3⟩
                · rintro ⟨h1, h2, h3⟩; exact ⟨⟨h1, h2⟩, h3⟩
              · intro k' x hx
                apply j4
                rw [lookup_append_single, hx]
              · intro kf hkf
                rcases List.mem_cons.mp hkf with rfl | h'
                · refine ⟨cs, ?_, hQ⟩
                  apply j4
                  rw [lookup_append_single, hacc (k, f) (by simp)]
                  simp
                · exact j5 kf h'

end Autd3.GainWrap
