import Autd3.Lemmas.SilSend1
import Autd3.Lemmas.TupleWire
import Autd3.Lemmas.WireNext
/-!
# C08 at the level of SENDS, part 2: sends of the single-frame datagram kinds, alone or as tuples

Every frame `pack_op2` builds from two operations of the single-frame kinds (the nine configuration datagrams of
`Tuple.IsCfg`, Clear, PhaseCorrection, Gain, the four SwapSegment datagrams, the firmware-version query) carries in
each slot a tag other than Modulation / FociSTM / GainSTM, so it satisfies `FrameOkCore` and `ecat_recv` keeps the
invariant `Core` whatever it acknowledges (`ecatRecv_core`).  Hence a complete send of such a datagram or tuple keeps
`Core` — accepted or refused, in either slot (`sendLoopR_core_small`).
-/
set_option linter.unusedSimpArgs false
set_option linter.unusedVariables false
open Autd3 Autd3.Fw Autd3.Wire Autd3.Gen.Cpu Autd3.Gen Autd3.Rt Autd3.SilGuard
namespace Autd3.SilSend


/-- the single-frame datagram kinds other than the nine configuration kinds of `Tuple.IsCfg` -/
def IsOther : Dg → Bool
  | .clear | .phaseCorr _ | .gain .. | .swapGain .. | .swapMod .. | .swapFoci .. | .swapGainStm .. | .firmInfo _ => true
  | _ => false

theorem u8at_tagValue (b : Array Nat) (off tag v : Nat) (hb : off + 2 ≤ b.size) :
    u8at (tagValue b off tag v) off = tag % 256 := by
  unfold tagValue
  rw [u8at_put8, if_neg (by omega), u8at_put8, if_pos ⟨rfl, by omega⟩]

theorem u8at_swt (b : Array Nat) (off tag seg mode value : Nat) (hb : off + 2 ≤ b.size) :
    u8at (swapWithTransition b off tag seg mode value) off = tag % 256 := by
  unfold swapWithTransition
  simp only [DrvLayout.SwapSegmentTWithTransition_size, DrvLayout.SwapSegmentTWithTransition_tag_off,
    DrvLayout.SwapSegmentTWithTransition_segment_off, DrvLayout.SwapSegmentTWithTransition_transition_mode_off,
    DrvLayout.SwapSegmentTWithTransition_transition_value_off]
  rw [u8at_put64_other _ _ _ _ (by omega), u8at_put8, if_neg (by omega), u8at_put8, if_neg (by omega), u8at_put8,
    if_pos ⟨by omega, by simp; omega⟩]

theorem size_swt (b : Array Nat) (off tag seg mode value : Nat) :
    (swapWithTransition b off tag seg mode value).size = b.size := by
  unfold swapWithTransition; simp

theorem pack_other (X : Dg) (hX : IsOther X = true) (n : Nat) (b : Array Nat) (off : Nat)
    (hfit : off + 2 ≤ b.size) (o' : Op) (b' : Array Nat) (sz : Nat)
    (h : (Op.ofDg X).pack n b off = .ok (o', b', sz)) :
    o'.done = true ∧ b'.size = b.size ∧ u8at b' off ≠ 16 ∧ u8at b' off ≠ 65 ∧ u8at b' off ≠ 66 := by
  cases X <;> simp only [IsOther, Bool.false_eq_true] at hX
  case clear =>
    simp only [Op.pack, Op.ofDg, Except.ok.injEq, Prod.mk.injEq] at h
    obtain ⟨rfl, rfl, _⟩ := h
    refine ⟨rfl, by simp [tagValue], ?_⟩
    rw [u8at_tagValue _ _ _ _ hfit]; decide
  case firmInfo ty =>
    simp only [Op.pack, Op.ofDg, Except.ok.injEq, Prod.mk.injEq] at h
    obtain ⟨rfl, rfl, _⟩ := h
    refine ⟨rfl, by simp [tagValue], ?_⟩
    rw [u8at_tagValue _ _ _ _ hfit]; decide
  case swapGain seg mode v =>
    simp only [Op.pack, Op.ofDg] at h
    split at h
    · cases h
    · simp only [Except.ok.injEq, Prod.mk.injEq] at h
      obtain ⟨rfl, rfl, _⟩ := h
      refine ⟨rfl, by simp [tagValue], ?_⟩
      rw [u8at_tagValue _ _ _ _ hfit]; decide
  case swapMod seg mode v =>
    simp only [Op.pack, Op.ofDg, Except.ok.injEq, Prod.mk.injEq] at h
    obtain ⟨rfl, rfl, _⟩ := h
    refine ⟨rfl, size_swt .., ?_⟩
    rw [u8at_swt _ _ _ _ _ _ hfit]; decide
  case swapFoci seg mode v =>
    simp only [Op.pack, Op.ofDg, Except.ok.injEq, Prod.mk.injEq] at h
    obtain ⟨rfl, rfl, _⟩ := h
    refine ⟨rfl, size_swt .., ?_⟩
    rw [u8at_swt _ _ _ _ _ _ hfit]; decide
  case swapGainStm seg mode v =>
    simp only [Op.pack, Op.ofDg, Except.ok.injEq, Prod.mk.injEq] at h
    obtain ⟨rfl, rfl, _⟩ := h
    refine ⟨rfl, size_swt .., ?_⟩
    rw [u8at_swt _ _ _ _ _ _ hfit]; decide
  case phaseCorr bytes =>
    simp only [Op.pack, Op.ofDg, Except.ok.injEq, Prod.mk.injEq] at h
    obtain ⟨rfl, rfl, _⟩ := h
    refine ⟨rfl, by simp [tagValue], ?_⟩
    simp only [DrvLayout.PhaseCorr_size]
    rw [u8at_putBytes, if_neg (by omega), u8at_tagValue _ _ _ _ (by omega)]; decide
  case gain seg tr drives =>
    have key : ∀ fl : Nat, u8at (putWords (put8 (put8 (put8 (put8 b (off + DrvLayout.Gain_tag_off) Drv.TAG_Gain)
        (off + DrvLayout.Gain_segment_off) seg) (off + DrvLayout.Gain_flag_off) fl) (off + 3) 0)
        (off + DrvLayout.Gain_size) drives (min n ((b.size - off - DrvLayout.Gain_size + 1) / 2))) off = 48 := by
      intro fl
      simp only [DrvLayout.Gain_tag_off, DrvLayout.Gain_segment_off, DrvLayout.Gain_flag_off, DrvLayout.Gain_size]
      rw [u8at_putWords, if_neg (by omega), u8at_put8, if_neg (by omega), u8at_put8, if_neg (by omega), u8at_put8,
        if_neg (by omega), u8at_put8, if_pos ⟨by omega, by simp; omega⟩]
      rfl
    unfold Op.pack at h
    simp only [Op.ofDg] at h
    cases tr with
    | none =>
      simp only [Except.ok.injEq, Prod.mk.injEq] at h
      obtain ⟨rfl, rfl, _⟩ := h
      refine ⟨rfl, by simp, ?_⟩
      rw [key]; decide
    | some mv =>
      obtain ⟨m, v⟩ := mv
      simp only [] at h
      split at h
      · cases h
      · simp only [Except.ok.injEq, Prod.mk.injEq] at h
        obtain ⟨rfl, rfl, _⟩ := h
        refine ⟨rfl, by simp, ?_⟩
        rw [key]; decide

/-- the single-frame datagram kinds -/
def IsSmall (X : Dg) : Bool := Tuple.IsCfg X || IsOther X

theorem cfgTag_ne (X : Dg) (hX : Tuple.IsCfg X = true) :
    Tuple.cfgTag X ≠ 16 ∧ Tuple.cfgTag X ≠ 65 ∧ Tuple.cfgTag X ≠ 66 := by
  cases X <;> simp only [Tuple.IsCfg, Bool.false_eq_true] at hX <;> simp [Tuple.cfgTag]

theorem cfgLen_ge (X : Dg) : 2 ≤ Tuple.cfgLen X := by cases X <;> simp [Tuple.cfgLen]

theorem other_required_ge (X : Dg) (hX : IsOther X = true) (n : Nat) : 2 ≤ (Op.ofDg X).required n := by
  cases X <;> simp only [IsOther, Bool.false_eq_true] at hX <;>
    simp [Op.required, Op.ofDg, DrvLayout.Clear_size, DrvLayout.PhaseCorr_size, DrvLayout.Gain_size,
      DrvLayout.SwapSegmentT_size, DrvLayout.SwapSegmentTWithTransition_size, DrvLayout.FirmInfo_size] <;> omega

/-- **what `pack` of a single-frame datagram at offset `off` leaves**: the operation is done, the buffer keeps its
size and its bytes below `off`, and byte `off` is a tag other than Modulation (16) / GainSTM (65) / FociSTM (66) -/
theorem pack_small (X : Dg) (hX : IsSmall X = true) (n : Nat) (b : Array Nat) (off : Nat)
    (hfit2 : off + 2 ≤ b.size) (hfitc : Tuple.IsCfg X = true → off + Tuple.cfgLen X ≤ b.size) (o' : Op) (b' : Array Nat) (sz : Nat)
    (h : (Op.ofDg X).pack n b off = .ok (o', b', sz)) :
    o'.done = true ∧ b'.size = b.size ∧ (∀ j, j < off → u8at b' j = u8at b j) ∧
      u8at b' off ≠ 16 ∧ u8at b' off ≠ 65 ∧ u8at b' off ≠ 66 := by
  have hk := Wire.pack_keeps h
  have hbelow : ∀ j, j < off → u8at b' j = u8at b j := fun j hj => by unfold u8at; rw [hk.2 j hj]
  unfold IsSmall at hX
  by_cases hc : Tuple.IsCfg X = true
  · have hfit := hfitc hc
    rw [Tuple.cfg_pack X hc n b off hfit] at h
    simp only [Except.ok.injEq, Prod.mk.injEq] at h
    obtain ⟨rfl, rfl, _⟩ := h
    refine ⟨rfl, hk.1, hbelow, ?_⟩
    rw [Tuple.cfg_tag X hc b off hfit]
    exact cfgTag_ne X hc
  · have ho : IsOther X = true := by
      cases h1 : Tuple.IsCfg X
      · simpa [h1] using hX
      · exact absurd h1 hc
    obtain ⟨a, b1, c⟩ := pack_other X ho n b off hfit2 o' b' sz h
    exact ⟨a, b1, hbelow, c⟩

theorem small_required_ge (X : Dg) (hX : IsSmall X = true) (n : Nat) : 2 ≤ (Op.ofDg X).required n := by
  unfold IsSmall at hX
  by_cases hc : Tuple.IsCfg X = true
  · rw [Tuple.cfg_required X hc n]; exact cfgLen_ge X
  · have ho : IsOther X = true := by
      cases h1 : Tuple.IsCfg X
      · simpa [h1] using hX
      · exact absurd h1 hc
    exact other_required_ge X ho n

theorem cfgLen_le (X : Dg) : Tuple.cfgLen X ≤ 514 := by cases X <;> simp [Tuple.cfgLen]

/-- an operation of a send of single-frame datagrams: already transmitted (or the null datagram), or still whole -/
def OkOp (o : Op) : Prop := o.done = true ∨ ∃ X, o = Op.ofDg X ∧ IsSmall X = true

theorem payloadOk_of_tag (d : Array Nat) (h : u8at d 0 ≠ 16 ∧ u8at d 0 ≠ 65 ∧ u8at d 0 ≠ 66) : PayloadOk d :=
  ⟨fun e => absurd e h.1, fun e => absurd e h.2.2, fun e => absurd e h.2.1⟩

theorem slot1_frame (t : Tx) : slot1 t.frame = t.payload := by
  unfold slot1; exact Rt.frame_extract t

theorem slot2_frame (t : Tx) (h : t.slot2 < 65536) :
    slot2 t.frame = t.payload.extract t.slot2 t.payload.size := by
  unfold slot2
  rw [Rt.frame_slot2, Nat.mod_eq_of_lt h]
  exact Tuple.frame_extract2 t t.slot2

/-- a single-slot frame whose payload starts with a tag other than the three data tags -/
theorem frameOkCore_single (id : Nat) (b : Array Nat) (h : u8at b 0 ≠ 16 ∧ u8at b 0 ≠ 65 ∧ u8at b 0 ≠ 66) :
    FrameOkCore ({ msgId := id, slot2 := 0, payload := b } : Tx).frame := by
  refine ⟨?_, fun h2 => ?_⟩
  · rw [slot1_frame]; exact payloadOk_of_tag _ h
  · rw [Rt.frame_slot2] at h2; simp at h2

/-- one pending single-frame operation packed alone -/
theorem packOp_small (X : Dg) (hX : IsSmall X = true) (n : Nat) (t : Tx) (ht : TxOK t) (o' : Op) (t' : Tx)
    (sz : Nat) (h : packOp (Op.ofDg X) n t = .ok (o', t', sz)) :
    o'.done = true ∧ TxOK t' ∧ FrameOkCore t'.frame := by
  have ht' : t.payload.size = 622 := ht
  unfold packOp at h
  simp only [] at h
  cases hp : (Op.ofDg X).pack n t.payload 0 with
  | error e => rw [hp] at h; cases h
  | ok r =>
    obtain ⟨o1, b1, s1⟩ := r
    rw [hp] at h
    simp only [Except.ok.injEq, Prod.mk.injEq] at h
    obtain ⟨rfl, rfl, _⟩ := h
    obtain ⟨a, b, _, c⟩ := pack_small X hX n t.payload 0 (by rw [ht']; omega)
      (fun _ => by rw [ht']; have := cfgLen_le X; omega) _ _ _ hp
    exact ⟨a, by show b1.size = 622; rw [b, ht'], frameOkCore_single _ _ c⟩

/-- **every frame `pack_op2` builds from single-frame operations satisfies `FrameOkCore`** -/
theorem packOp2_small (o1 o2 : Op) (h1 : OkOp o1) (h2 : OkOp o2) (hnd : (o1.done && o2.done) = false) (n : Nat)
    (t : Tx) (ht : TxOK t) (o1' o2' : Op) (t' : Tx) (h : packOp2 o1 o2 n t = .ok (o1', o2', t')) :
    OkOp o1' ∧ OkOp o2' ∧ TxOK t' ∧ FrameOkCore t'.frame := by
  have ht' : t.payload.size = 622 := ht
  unfold packOp2 at h
  simp only [] at h
  cases e1 : o1.done <;> cases e2 : o2.done <;> simp only [e1, e2] at h hnd
  · -- both pending
    obtain ⟨X1, rfl, hX1⟩ : ∃ X, o1 = Op.ofDg X ∧ IsSmall X = true := by
      rcases h1 with h1 | h1
      · rw [e1] at h1; cases h1
      · exact h1
    obtain ⟨X2, rfl, hX2⟩ : ∃ X, o2 = Op.ofDg X ∧ IsSmall X = true := by
      rcases h2 with h2 | h2
      · rw [e2] at h2; cases h2
      · exact h2
    cases hp : packOp (Op.ofDg X1) n t with
    | error e => rw [hp] at h; cases h
    | ok r =>
      obtain ⟨p1, t1, sz1⟩ := r
      rw [hp] at h
      simp only [] at h
      -- unfold the first pack
      have hp' := hp
      unfold packOp at hp'
      simp only [] at hp'
      cases hq : (Op.ofDg X1).pack n t.payload 0 with
      | error e => rw [hq] at hp'; cases hp'
      | ok q =>
        obtain ⟨q1, b1, s1⟩ := q
        rw [hq] at hp'
        simp only [Except.ok.injEq, Prod.mk.injEq] at hp'
        obtain ⟨rfl, rfl, rfl⟩ := hp'
        obtain ⟨d1, z1, _, c1⟩ := pack_small X1 hX1 n t.payload 0 (by rw [ht']; omega)
          (fun _ => by rw [ht']; have := cfgLen_le X1; omega) _ _ _ hq
        have hb1 : b1.size = 622 := by rw [z1, ht']
        simp only [] at h
        split at h
        · rename_i hroom
          rw [hb1] at hroom
          have hge := small_required_ge X2 hX2 n
          cases hr : (Op.ofDg X2).pack n b1 s1 with
          | error e => rw [hr] at h; cases h
          | ok r2 =>
            obtain ⟨q2, b2, s2⟩ := r2
            rw [hr] at h
            simp only [Except.ok.injEq, Prod.mk.injEq] at h
            obtain ⟨rfl, rfl, rfl⟩ := h
            obtain ⟨d2, z2, k2, c2⟩ := pack_small X2 hX2 n b1 s1 (by rw [hb1]; omega)
              (fun hc => by rw [hb1, ← Tuple.cfg_required X2 hc n]; omega) _ _ _ hr
            have hb2 : b2.size = 622 := by rw [z2, hb1]
            refine ⟨Or.inl d1, Or.inl d2, hb2, ?_, fun _ => ?_⟩
            · rw [slot1_frame]
              apply payloadOk_of_tag
              show u8at b2 0 ≠ 16 ∧ u8at b2 0 ≠ 65 ∧ u8at b2 0 ≠ 66
              by_cases hs0 : s1 = 0
              · subst hs0; exact c2
              · rw [k2 0 (by omega)]; exact c1
            · rw [slot2_frame _ (by show s1 < 65536; omega)]
              apply payloadOk_of_tag
              show u8at (b2.extract s1 b2.size) 0 ≠ 16 ∧ _
              rw [Tuple.u8at_extract]
              exact c2
        · simp only [Except.ok.injEq, Prod.mk.injEq] at h
          obtain ⟨rfl, rfl, rfl⟩ := h
          exact ⟨Or.inl d1, Or.inr ⟨X2, rfl, hX2⟩, hb1, frameOkCore_single _ _ c1⟩
  · -- only the first pending
    obtain ⟨X1, rfl, hX1⟩ : ∃ X, o1 = Op.ofDg X ∧ IsSmall X = true := by
      rcases h1 with h1 | h1
      · rw [e1] at h1; cases h1
      · exact h1
    cases hp : packOp (Op.ofDg X1) n t with
    | error e => rw [hp] at h; cases h
    | ok r =>
      obtain ⟨p1, t1, sz1⟩ := r
      rw [hp] at h
      simp only [Except.ok.injEq, Prod.mk.injEq] at h
      obtain ⟨rfl, rfl, rfl⟩ := h
      obtain ⟨a, b, c⟩ := packOp_small X1 hX1 n t ht _ _ _ hp
      exact ⟨Or.inl a, Or.inl e2, b, c⟩
  · -- only the second pending
    obtain ⟨X2, rfl, hX2⟩ : ∃ X, o2 = Op.ofDg X ∧ IsSmall X = true := by
      rcases h2 with h2 | h2
      · rw [e2] at h2; cases h2
      · exact h2
    cases hp : packOp (Op.ofDg X2) n t with
    | error e => rw [hp] at h; cases h
    | ok r =>
      obtain ⟨p1, t1, sz1⟩ := r
      rw [hp] at h
      simp only [Except.ok.injEq, Prod.mk.injEq] at h
      obtain ⟨rfl, rfl, rfl⟩ := h
      obtain ⟨a, b, c⟩ := packOp_small X2 hX2 n t ht _ _ _ hp
      exact ⟨Or.inl e1, Or.inl a, b, c⟩
  · cases hnd

/-- **complete sends of single-frame datagrams keep the invariant**: a datagram or a tuple of the single-frame kinds
(or already transmitted / null members), sent from a device satisfying `Core`: whatever happens — every frame
acknowledged, or the send refused in either slot of any frame with any error code — the device satisfies `Core`
afterwards -/
theorem sendLoopR_core_small (fuel : Nat) (o1 o2 : Op) (s : State) (t t' : Tx) (s' : State) (r : Option Nat)
    (h1 : OkOp o1) (h2 : OkOp o2) (ht : TxOK t) (hc : Core s)
    (h : sendLoopR fuel o1 o2 s t = some (t', s', r)) : Core s' ∧ TxOK t' := by
  refine sendLoopR_frames (fun o1 o2 s t => OkOp o1 ∧ OkOp o2 ∧ TxOK t ∧ Core s) (fun s t => Core s ∧ TxOK t)
    (fun _ _ _ _ hJ => ⟨hJ.2.2.2, hJ.2.2.1⟩) ?_ fuel o1 o2 s t t' s' r ⟨h1, h2, ht, hc⟩ h
  intro o1 o2 s t o1' o2' t' s' ⟨k1, k2, kt, kc⟩ hnd hp hr
  obtain ⟨a, b, c, d⟩ := packOp2_small o1 o2 k1 k2 hnd s.numTr t kt o1' o2' t' hp
  have hc' : Core s' := ecatRecv_core s t'.frame kc d s' hr
  exact ⟨fun _ => ⟨a, b, c, hc'⟩, fun _ => ⟨hc', c⟩⟩

end Autd3.SilSend
