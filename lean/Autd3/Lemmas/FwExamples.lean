import Autd3.Lemmas.FwRecv
/-! Concrete witnesses (non-vacuity) for the C19 hypotheses: a well-formed settled state and two frames. -/
set_option linter.unusedSimpArgs false
set_option linter.unusedVariables false
namespace Autd3.Fw
open Autd3.Gen.Cpu
open Autd3.Gen

/-- a concrete well-formed, settled state (the registers and swap chains as `clear` leaves them) -/
def wfExample : State :=
  { ctl := ((((((((Array.replicate 256 0).setIfInBounds 37 0xFFFF).setIfInBounds 38 0xFFFF).setIfInBounds 85 0xFFFF).setIfInBounds 86 0xFFFF).setIfInBounds 39 0xFFFF).setIfInBounds 40 0xFFFF).setIfInBounds 87 0xFFFF).setIfInBounds 88 0xFFFF
    modSwap := powerOnSwap 0
    stmSwap := powerOnSwap 0 }

theorem powerOnSwap_wf (now : Nat) : SwapWF (powerOnSwap now) :=
  ⟨Nat.zero_le _, Nat.zero_le _, by simp [powerOnSwap], by simp [powerOnSwap], by simp [powerOnSwap],
   by simp [powerOnSwap], (nomatch ·), (nomatch ·),
   fun seg _ => Or.inr (by unfold sel powerOnSwap; split <;> simp)⟩

theorem wfExample_wf : FwWF wfExample := by
  refine ⟨⟨by simp [wfExample], by simp [wfExample], by simp [wfExample], by simp [wfExample], by simp [wfExample],
    by simp [wfExample], by simp [wfExample], by simp [wfExample]⟩, by simp [wfExample], ?_, ?_, ?_, ?_, ?_, ?_, ?_, ?_,
    powerOnSwap_wf 0, powerOnSwap_wf 0⟩ <;>
  simp [wfExample, reg, rd_set, rd, ADDR_MOD_FREQ_DIV0, ADDR_MOD_FREQ_DIV1, ADDR_STM_FREQ_DIV0, ADDR_STM_FREQ_DIV1,
       ADDR_MOD_REP0, ADDR_MOD_REP1, ADDR_STM_REP0, ADDR_STM_REP1]

theorem wfExample_settled : Settled wfExample :=
  ⟨rfl, rfl, by simp [wfExample, powerOnSwap], by simp [wfExample, powerOnSwap]⟩

/-- a frame (trailing zero padding omitted: the model reads 0 past the end): message id 5, slot 1 = Silencer (fixed completion steps 10/40, strict), no slot 2 -/
def silencerFrame : Array Nat := #[5, 0, 0, 0, 33, 4, 10, 0, 40, 0]

theorem silencerFrame_cfg : CfgFrame silencerFrame := by
  refine ⟨by simp [silencerFrame, u16at, u8at, rd, DrvLayout.Header_size, DrvLayout.Header_slot_2_offset_off], ?_, ?_⟩
  · simp [IsCfg, silencerFrame, u8at, rd, DrvLayout.Header_size]
  · simp [silencerFrame, u16at, u8at, rd, DrvLayout.Header_slot_2_offset_off]

/-- a frame with a swap-type operation: SwapSegment::Gain(S1) -/
def gainSwapFrame : Array Nat := #[6, 0, 0, 0, 49, 1]

theorem gainSwapFrame_ok : FrameOK gainSwapFrame := by
  have h1 : u16at gainSwapFrame DrvLayout.Header_slot_2_offset_off = 0 := by
    simp [gainSwapFrame, u16at, u8at, rd, DrvLayout.Header_slot_2_offset_off]
  have h2 : u8at (gainSwapFrame.extract DrvLayout.Header_size gainSwapFrame.size) 0 = 49 := by
    simp [gainSwapFrame, u8at, rd, DrvLayout.Header_size]
  have hno : ∀ k, k ≠ 49 → u8at (gainSwapFrame.extract DrvLayout.Header_size gainSwapFrame.size) 0 = k → False := by
    intro k hk e; rw [h2] at e; exact hk e.symm
  refine ⟨(by rw [h1]; simp [gainSwapFrame, DrvLayout.Header_size]), ?_, (by rw [h1]; intro h; exact absurd rfl h),
    (by rw [h1]; intro h; exact absurd rfl h)⟩
  refine ⟨fun e => (hno 48 (by decide) e).elim, fun _ => ?_, fun e => (hno 17 (by decide) e).elim,
    fun e => (hno 68 (by decide) e).elim, fun e => (hno 67 (by decide) e).elim,
    fun e => (hno 16 (by decide) e).elim, fun e => (hno 66 (by decide) e).elim,
    fun e => (hno 65 (by decide) e).elim⟩
  simp [gainSwapFrame, u8at, rd, DrvLayout.Header_size, FwLayout.GainUpdate_segment_off]

/-- payload of a complete single-frame Modulation: S1, two samples, division 10, infinite loop, Immediate
transition (flag = BEGIN|END|UPDATE|SEGMENT) -/
def modPayload : Array Nat := #[16, 15, 2, 255, 10, 0, 255, 255, 0, 0, 0, 0, 0, 0, 0, 0, 128, 255]

theorem modPayload_ok : ModFrameOK modPayload := by
  refine ⟨by decide, by decide, by decide, fun _ => ⟨?_, ?_, ?_⟩⟩
  · right; right; right; right; decide
  · intro h; revert h; decide
  · decide

/-- payload of a complete single-frame FociSTM: S0, 2 patterns of 1 focus, division 4000, finite loop (3),
GPIO pin 2 transition -/
def fociPayload : Array Nat :=
  #[66, 7, 2, 0, 2, 1, 84, 1, 160, 15, 3, 0, 0, 0, 0, 0, 2, 0, 0, 0, 0, 0, 0, 0] ++ Array.replicate 16 7

theorem fociPayload_ok : FociFrameOK fociPayload := by
  refine ⟨by decide, by decide, by decide, by decide, by decide, by decide, fun _ => ⟨?_, ?_, ?_⟩⟩
  · right; right; left; decide
  · intro _; decide
  · decide

end Autd3.Fw
