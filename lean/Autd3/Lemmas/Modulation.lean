import Autd3.Lemmas.Flt
import Autd3.Model.Modulation
/-!
# Lemmas about the modulation model: the Nyquist threshold in `f32`
-/
namespace Autd3.Modulation
open Autd3.Flt

theorem two_pow_neg24 : (2 : ℚ) ^ (-24 : ℤ) = 1 / 16777216 := by
  rw [zpow_neg]; norm_num

/-- `sampling_config.freq()` for a division `1 ≤ d ≤ 65535` is a positive finite `f32` within
relative `2^-24` of `40000/d`, exact when `40000/d` is an integer. -/
theorem cfgFreq_spec (d : ℕ) (h1 : 1 ≤ d) (h2 : d ≤ 65535) :
    ∃ fs : ℚ, cfgFreq (some d) = .ok (.fin fs) ∧ 0 < fs ∧
      |fs - 40000 / d| ≤ (40000 / d) * (2 : ℚ) ^ (-24 : ℤ) ∧
      fs = roundTo 24 (-149) (40000 / d) := by
  have hdq : (0 : ℚ) < d := by exact_mod_cast h1
  have hd1 : (1 : ℚ) ≤ d := by exact_mod_cast h1
  have hd2 : (d : ℚ) ≤ 65535 := by exact_mod_cast h2
  have hx1 : (2 : ℚ) ^ (-126 : ℤ) ≤ 40000 / d := by
    rw [le_div_iff₀ hdq]
    have hp : (2 : ℚ) ^ (-126 : ℤ) ≤ 1 / 2 := by
      have := zpow_le_zpow_right₀ (by norm_num : (1 : ℚ) ≤ 2) (by norm_num : (-126 : ℤ) ≤ -1)
      simpa using this
    calc (2 : ℚ) ^ (-126 : ℤ) * d ≤ 1 / 2 * 65535 := by
          apply mul_le_mul hp hd2 (by positivity) (by norm_num)
      _ ≤ 40000 := by norm_num
  have hx2 : (40000 : ℚ) / d < (2 : ℚ) ^ (127 : ℤ) := by
    rw [div_lt_iff₀ hdq]
    calc (40000 : ℚ) < 2 ^ (127 : ℤ) * 1 := by norm_num
      _ ≤ 2 ^ (127 : ℤ) * d := by apply mul_le_mul_of_nonneg_left hd1; positivity
  obtain ⟨r, hr, hre, hpos, herr, _, _⟩ := b32_rnd_normal (40000 / d) hx1 hx2
  refine ⟨r, ?_, hpos, herr, hre⟩
  unfold cfgFreq
  simp only [ULTRASOUND_FREQ, Gen.ModConsts.ULTRASOUND_FREQ]
  rw [b32_ofNat 40000 (by norm_num), b32_ofNat d (by omega)]
  unfold Fmt.div
  have hd0 : ¬ ((d : ℚ).num = 0) := by
    simp; omega
  simp only [hd0, if_false]
  have : ((40000 : ℕ) : ℚ) / (d : ℚ) = 40000 / d := by norm_num
  rw [this, hr]

/-- the Nyquist threshold `sampling_config.freq()?.hz() / 2.`: a finite `f32` less than `1/d`
away from `20000/d`, and exactly `20000/d` when that is an integer -/
theorem thr_spec (d : ℕ) (h1 : 1 ≤ d) (h2 : d ≤ 65535) :
    ∃ fs T : ℚ, cfgFreq (some d) = .ok (.fin fs) ∧ b32.div (.fin fs) two = .fin T ∧
      |T - 20000 / d| < 1 / d ∧ (∀ f : ℕ, 2 * f * d = 40000 → T = f) := by
  obtain ⟨fs, hfs, hpos, herr, hre⟩ := cfgFreq_spec d h1 h2
  have hdq : (0 : ℚ) < d := by exact_mod_cast h1
  have hd1 : (1 : ℚ) ≤ d := by exact_mod_cast h1
  have hd2 : (d : ℚ) ≤ 65535 := by exact_mod_cast h2
  rw [two_pow_neg24] at herr
  obtain ⟨e1, e2⟩ := abs_le.mp herr
  have hy : (0 : ℚ) < 40000 / d := by positivity
  have hylo : (40000 : ℚ) / 65535 ≤ 40000 / d := by
    apply div_le_div_of_nonneg_left (by norm_num) hdq hd2
  have hyhi : (40000 : ℚ) / d ≤ 40000 := by
    rw [div_le_iff₀ hdq]; nlinarith
  -- fs / 2 is in the normal range
  have hx1 : (2 : ℚ) ^ (-126 : ℤ) ≤ fs / 2 := by
    have hp : (2 : ℚ) ^ (-126 : ℤ) ≤ 1 / 8 := by
      have := zpow_le_zpow_right₀ (by norm_num : (1 : ℚ) ≤ 2) (by norm_num : (-126 : ℤ) ≤ -3)
      have h8 : (2 : ℚ) ^ (-3 : ℤ) = 1 / 8 := by rw [zpow_neg]; norm_num
      rw [h8] at this; exact this
    have : (1 : ℚ) / 8 ≤ fs / 2 := by
      have : (40000 : ℚ) / 65535 > 1 / 2 := by norm_num
      nlinarith
    linarith
  have hx2 : fs / 2 < (2 : ℚ) ^ (127 : ℤ) := by
    have : fs / 2 < 40001 := by nlinarith
    calc fs / 2 < 40001 := this
      _ < (2 : ℚ) ^ (127 : ℤ) := by norm_num
  obtain ⟨T, hT, hTe, hTpos, hTerr, _, _⟩ := b32_rnd_normal (fs / 2) hx1 hx2
  rw [two_pow_neg24] at hTerr
  obtain ⟨t1, t2⟩ := abs_le.mp hTerr
  refine ⟨fs, T, hfs, ?_, ?_, ?_⟩
  · unfold two Fmt.div
    have : ¬ ((2 : ℚ).num = 0) := by norm_num
    simp only [this, if_false]
    exact hT
  · -- |T - 20000/d| < 1/d
    have hyd : (40000 : ℚ) / d = 2 * (20000 / d) := by ring
    rw [hyd] at e1 e2 hyhi
    set y : ℚ := 20000 / d with hy_def
    have hy1 : y * d = 20000 := by rw [hy_def]; field_simp
    have hinv : 1 / (d : ℚ) = y / 20000 := by rw [hy_def]; field_simp
    have hy0 : 0 < y := by positivity
    rw [hinv, abs_lt]
    constructor <;> nlinarith
  · intro f hf
    have hfq : (40000 : ℚ) / d = ((2 * f : ℕ) : ℚ) := by
      rw [div_eq_iff hdq.ne']
      have : ((2 * f * d : ℕ) : ℚ) = 40000 := by exact_mod_cast hf
      push_cast at this ⊢; linarith
    have h2f : 2 * f < 2 ^ 24 := by
      have : 2 * f * d = 40000 := hf
      have : 2 * f ≤ 40000 := by nlinarith
      omega
    rw [hfq, roundTo_nat 24 (-149) (2 * f) h2f (by norm_num)] at hre
    have hhalf : fs / 2 = (f : ℚ) := by rw [hre]; push_cast; ring
    rw [hTe, hhalf]
    exact roundTo_nat 24 (-149) f (by omega) (by norm_num)

/-- `freq as f32` for a `u32`: exact below `2^24`, at least `2^24` from there on -/
theorem ofNat_spec (f : ℕ) (hf : f < 2 ^ 32) :
    ∃ F : ℚ, b32.ofNat f = .fin F ∧ (f < 2 ^ 24 → F = f) ∧ (2 ^ 24 ≤ f → (2 : ℚ) ^ 24 ≤ F) := by
  by_cases h : f < 2 ^ 24
  · exact ⟨f, b32_ofNat f h, fun _ => rfl, fun h' => by omega⟩
  · have h' : 2 ^ 24 ≤ f := by omega
    have hq : (2 : ℚ) ^ (24 : ℤ) ≤ (f : ℚ) := by
      have : ((2 ^ 24 : ℕ) : ℚ) ≤ (f : ℚ) := by exact_mod_cast h'
      have e : ((2 ^ 24 : ℕ) : ℚ) = (2 : ℚ) ^ (24 : ℤ) := by norm_num
      rw [e] at this; exact this
    have hx1 : (2 : ℚ) ^ (-126 : ℤ) ≤ (f : ℚ) :=
      le_trans (zpow_le_zpow_right₀ (by norm_num) (by norm_num)) hq
    have hx2 : (f : ℚ) < (2 : ℚ) ^ (127 : ℤ) := by
      have : (f : ℚ) < ((2 ^ 32 : ℕ) : ℚ) := by exact_mod_cast hf
      calc (f : ℚ) < ((2 ^ 32 : ℕ) : ℚ) := this
        _ ≤ (2 : ℚ) ^ (127 : ℤ) := by norm_num
    obtain ⟨r, hr, _, _, _, hlo, _⟩ := b32_rnd_normal (f : ℚ) hx1 hx2
    refine ⟨r, hr, fun h'' => by omega, fun _ => ?_⟩
    have hpos : (0 : ℚ) < f := lt_of_lt_of_le (two_zpow_pos _) hq
    have : (24 : ℤ) ≤ lg (f : ℚ) := le_lg _ hpos _ hq
    calc (2 : ℚ) ^ 24 = (2 : ℚ) ^ (24 : ℤ) := by norm_num
      _ ≤ (2 : ℚ) ^ (lg (f : ℚ)) := zpow_le_zpow_right₀ (by norm_num) this
      _ ≤ r := hlo

/-- **the Nyquist test in `f32` is exact for integer frequencies** -/
theorem nyquist_exact (f d : ℕ) (hf : f < 2 ^ 32) (h1 : 1 ≤ d) (h2 : d ≤ 65535) :
    ∃ fs : Fl, cfgFreq (some d) = .ok fs ∧
      ((b32.div fs two).le (b32.ofNat f) = true ↔ 40000 ≤ 2 * f * d) := by
  obtain ⟨fs, T, hfs, hT, herr, hex⟩ := thr_spec d h1 h2
  obtain ⟨F, hF, hFs, hFb⟩ := ofNat_spec f hf
  refine ⟨.fin fs, hfs, ?_⟩
  rw [hT, hF]
  simp only [Fl.le, decide_eq_true_eq]
  have hdq : (0 : ℚ) < d := by exact_mod_cast h1
  have hd2 : (d : ℚ) ≤ 65535 := by exact_mod_cast h2
  obtain ⟨e1, e2⟩ := abs_lt.mp herr
  have hTd : T * d < 20000 + 1 ∧ 20000 - 1 < T * d := by
    have h3 : (20000 : ℚ) / d * d = 20000 := by field_simp
    have h4 : (1 : ℚ) / d * d = 1 := by field_simp
    constructor <;> nlinarith
  by_cases hs : f < 2 ^ 24
  · rw [hFs hs]
    constructor
    · intro hle
      -- T ≤ f  →  20000 - 1 < f d  →  20000 ≤ f d
      have : (20000 : ℚ) - 1 < (f : ℚ) * d := by nlinarith
      have : (19999 : ℚ) < ((f * d : ℕ) : ℚ) := by push_cast; linarith
      have : 19999 < f * d := by exact_mod_cast this
      nlinarith
    · intro hge
      by_cases heq : 2 * f * d = 40000
      · rw [hex f heq]
      · have : 20001 ≤ f * d := by
          have : 40000 < 2 * f * d := by omega
          nlinarith
        have : (20001 : ℚ) ≤ ((f * d : ℕ) : ℚ) := by exact_mod_cast this
        push_cast at this
        have : T * d < f * d := by linarith
        exact (lt_of_mul_lt_mul_right this hdq.le).le
  · have hb : (2 : ℚ) ^ 24 ≤ F := hFb (by omega)
    constructor
    · intro _
      have : 2 ^ 24 ≤ f := by omega
      nlinarith
    · intro _
      have hd1 : (1 : ℚ) ≤ d := by exact_mod_cast h1
      have : T * d < 20001 * d := by nlinarith [hTd.1]
      have : T < 20001 := lt_of_mul_lt_mul_right this hdq.le
      have : (20001 : ℚ) < 2 ^ 24 := by norm_num
      linarith


/-! ## lists in the `Except` monad -/

theorem mapM_ok {ε α β : Type} (f : α → Except ε β) (l : List α) (r : List β)
    (h : l.mapM f = .ok r) :
    r.length = l.length ∧ ∀ x ∈ r, ∃ a ∈ l, f a = .ok x := by
  induction l generalizing r with
  | nil =>
    simp only [List.mapM_nil, pure, Except.pure] at h
    cases h; simp
  | cons a l ih =>
    rw [List.mapM_cons] at h
    simp only [bind, Except.bind, pure, Except.pure] at h
    split at h
    · cases h
    · rename_i b hb
      split at h
      · cases h
      · rename_i bs hbs
        cases h
        obtain ⟨h1, h2⟩ := ih bs hbs
        refine ⟨by simp [h1], ?_⟩
        intro x hx
        rcases List.mem_cons.mp hx with rfl | hx
        · exact ⟨a, by simp, hb⟩
        · obtain ⟨a', ha', hf⟩ := h2 x hx
          exact ⟨a', by simp [ha'], hf⟩

theorem mapM_err {ε α β : Type} (f : α → Except ε β) (l : List α) (e : ε)
    (h : l.mapM f = .error e) : ∃ a ∈ l, f a = .error e := by
  induction l with
  | nil => simp only [List.mapM_nil, pure, Except.pure] at h; cases h
  | cons a l ih =>
    rw [List.mapM_cons] at h
    simp only [bind, Except.bind, pure, Except.pure] at h
    split at h
    · rename_i e' he
      cases h
      exact ⟨a, by simp, he⟩
    · split at h
      · rename_i e' he
        cases h
        obtain ⟨a', ha', hf⟩ := ih he
        exact ⟨a', by simp [ha'], hf⟩
      · cases h


/-! ## Square -/

/-- the high part of a period never exceeds the period (so `size - n_high` cannot underflow) -/
theorem nHigh_le (dv : ℚ) (size : ℕ) (h0 : 0 ≤ dv) (h1 : dv ≤ 1) (hs : size < 2 ^ 24) :
    nHigh (.fin dv) size ≤ size := by
  unfold nHigh
  rw [b32_ofNat size hs]
  unfold Fmt.mul
  simp only []
  have hx0 : (0 : ℚ) ≤ (size : ℚ) * dv := mul_nonneg (by positivity) h0
  have hxs : (size : ℚ) * dv ≤ size := by
    have : (0 : ℚ) ≤ size := by positivity
    nlinarith
  rcases lt_or_eq_of_le hx0 with hpos | hzero
  · have hlt : (size : ℚ) * dv < (2 : ℚ) ^ ((24 : ℕ) : ℤ) := by
      have : (size : ℚ) < ((2 ^ 24 : ℕ) : ℚ) := by exact_mod_cast hs
      have e : ((2 ^ 24 : ℕ) : ℚ) = (2 : ℚ) ^ ((24 : ℕ) : ℤ) := by norm_num
      rw [e] at this; linarith
    have hr := roundTo_le_nat 24 (-149) _ size hpos (by norm_num) hlt hxs
    have hr0 := roundTo_nonneg 24 (-149) _ hpos
    have hfin : b32.rnd ((size : ℚ) * dv) = .fin (roundTo 24 (-149) ((size : ℚ) * dv)) := by
      apply rnd_fin b32 _ hr0
      have : (size : ℚ) < ((2 ^ 24 : ℕ) : ℚ) := by exact_mod_cast hs
      calc roundTo 24 (-149) ((size : ℚ) * dv) ≤ size := hr
        _ < ((2 ^ 24 : ℕ) : ℚ) := this
        _ ≤ (2 : ℚ) ^ (128 : ℤ) := by norm_num
    rw [hfin]
    exact toNatSat_le _ _ _ hr
  · rw [← hzero]
    have : b32.rnd 0 = .fin 0 := by
      unfold Fmt.rnd; simp [roundTo_zero]
    rw [this]
    exact toNatSat_le _ 0 size (by positivity)


theorem period_size (n rep i : ℕ) (hrep : 0 < rep) (hi : i < rep) :
    (n + i) / rep = n / rep + (if rep ≤ n % rep + i then 1 else 0) := by
  have h := Nat.div_add_mod n rep
  have hr := Nat.mod_lt n hrep
  have e : n + i = n % rep + i + rep * (n / rep) := by omega
  rw [e, Nat.add_mul_div_left _ _ hrep]
  split
  · rename_i hge
    have : (n % rep + i) / rep = 1 := by
      apply Nat.div_eq_of_lt_le <;> omega
    omega
  · rename_i hlt
    have : (n % rep + i) / rep = 0 := Nat.div_eq_of_lt (by omega)
    omega

theorem partial_sum (n rep m : ℕ) (hrep : 0 < rep) (hm : m ≤ rep) :
    ((List.range m).map (fun i => (n + i) / rep)).sum = m * (n / rep) + (m - (rep - n % rep)) := by
  induction m with
  | zero => simp
  | succ m ih =>
    rw [List.range_succ, List.map_append, List.sum_append, ih (by omega)]
    simp only [List.map_cons, List.map_nil, List.sum_cons, List.sum_nil, Nat.add_zero]
    rw [period_size n rep m hrep (by omega)]
    have hr := Nat.mod_lt n hrep
    have e : (m + 1) * (n / rep) = m * (n / rep) + n / rep := by ring
    rw [e]
    split <;> omega

/-- **Square partition**: the `rep` period sizes `⌊(n+i)/rep⌋` add up to `n` -/
theorem square_partition (n rep : ℕ) (hrep : 0 < rep) :
    ((List.range rep).map (fun i => (n + i) / rep)).sum = n := by
  rw [partial_sum n rep rep hrep (le_refl _)]
  have h := Nat.div_add_mod n rep
  have hr := Nat.mod_lt n hrep
  have : rep - (rep - n % rep) = n % rep := by omega
  rw [this]; exact h


theorem mapM_pure {ε α β : Type} (f : α → Except ε β) (g : α → β) (l : List α)
    (h : ∀ a ∈ l, f a = .ok (g a)) : l.mapM f = .ok (l.map g) := by
  induction l with
  | nil => simp [pure, Except.pure]
  | cons a l ih =>
    rw [List.mapM_cons, h a (by simp), ih (fun a' ha' => h a' (by simp [ha']))]
    simp [bind, Except.bind, pure, Except.pure]

theorem squareRuns_eq_spec (n rep : ℕ) (duty : Fl) : squareRuns n rep duty = squareRunsSpec n rep duty := by
  unfold squareRuns squareRunsSpec
  simp only []
  congr 1
  funext i
  by_cases h1 : (n + i) / rep = n / rep
  · simp [h1]
  · by_cases h2 : (n + i) / rep = n / rep + 1
    · simp [h2]
    · simp [h1, h2]

/-- the run list of a valid duty ratio: no panic, one entry per period, every period
`high + low = ⌊(n+i)/rep⌋`, all of them together `n` samples -/
theorem squareRuns_ok (n rep : ℕ) (dv : ℚ) (h0 : 0 ≤ dv) (h1 : dv ≤ 1) (hrep : 0 < rep) (hn : n < 2 ^ 24) :
    ∃ runs, squareRuns n rep (.fin dv) = .ok runs ∧ runs.length = rep ∧
      (runs.map (fun x => x.1 + x.2)).sum = n ∧
      ∀ i (hi : i < runs.length), runs[i].1 + runs[i].2 = (n + i) / rep ∧ runs[i].1 = nHigh (.fin dv) ((n + i) / rep) := by
  rw [squareRuns_eq_spec]
  let g : ℕ → ℕ × ℕ := fun i => (nHigh (.fin dv) ((n + i) / rep), (n + i) / rep - nHigh (.fin dv) ((n + i) / rep))
  have hsize : ∀ i, i < rep → (n + i) / rep < 2 ^ 24 := by
    intro i hi
    have : (n + i) / rep < n + 1 := by
      rw [Nat.div_lt_iff_lt_mul hrep]
      have : n * 1 ≤ n * rep := Nat.mul_le_mul_left _ hrep
      nlinarith
    omega
  have hle : ∀ i, i < rep → nHigh (.fin dv) ((n + i) / rep) ≤ (n + i) / rep :=
    fun i hi => nHigh_le dv _ h0 h1 (hsize i hi)
  have hm : squareRunsSpec n rep (.fin dv) = .ok ((List.range rep).map g) := by
    unfold squareRunsSpec
    apply mapM_pure
    intro i hi
    have hi' : i < rep := List.mem_range.mp hi
    have := hle i hi'
    simp only [g]
    rw [if_neg (by omega)]
  refine ⟨(List.range rep).map g, hm, by simp, ?_, ?_⟩
  · rw [List.map_map]
    have : (List.range rep).map ((fun x : ℕ × ℕ => x.1 + x.2) ∘ g) = (List.range rep).map (fun i => (n + i) / rep) := by
      apply List.map_congr_left
      intro i hi
      have := hle i (List.mem_range.mp hi)
      simp only [Function.comp, g]; omega
    rw [this]
    exact square_partition n rep hrep
  · intro i hi
    have hi' : i < rep := by simpa using hi
    have := hle i hi'
    simp only [List.getElem_map, List.getElem_range, g]
    exact ⟨by omega, trivial⟩


/-! ## Fourier length -/

theorem fourierLen_go (lens : List ℕ) (acc L : ℕ)
    (h : lens.foldlM (fun acc x =>
      let l := Nat.lcm acc x
      if MOD_BUF_SIZE_MAX < l then (Except.error (Fail.err MErr.size) : R ℕ) else .ok l) acc = .ok L) :
    L = lens.foldl Nat.lcm acc ∧ (lens ≠ [] → L ≤ MOD_BUF_SIZE_MAX) ∧ acc ∣ L ∧ ∀ n ∈ lens, n ∣ L := by
  induction lens generalizing acc with
  | nil =>
    simp only [List.foldlM_nil, pure, Except.pure] at h
    cases h
    simp
  | cons x xs ih =>
    rw [List.foldlM_cons] at h
    simp only [bind, Except.bind] at h
    split at h
    · cases h
    · rename_i l hl
      split at hl
      · cases hl
      · rename_i hle
        cases hl
        obtain ⟨h1, h2, h3, h4⟩ := ih _ h
        refine ⟨h1, ?_, ?_, ?_⟩
        · intro _
          by_cases hxs : xs = []
          · subst hxs
            simp only [List.foldlM_nil, pure, Except.pure] at h
            cases h; omega
          · exact h2 hxs
        · exact Nat.dvd_trans (Nat.dvd_lcm_left _ _) h3
        · intro n hn
          rcases List.mem_cons.mp hn with rfl | hn
          · exact Nat.dvd_trans (Nat.dvd_lcm_right _ _) h3
          · exact h4 n hn


theorem foldl_lcm_dvd (lens : List ℕ) (acc m : ℕ) (ha : acc ∣ m) (h : ∀ n ∈ lens, n ∣ m) :
    lens.foldl Nat.lcm acc ∣ m := by
  induction lens generalizing acc with
  | nil => simpa using ha
  | cons x xs ih =>
    simp only [List.foldl_cons]
    apply ih
    · exact Nat.lcm_dvd ha (h x (by simp))
    · intro n hn; exact h n (by simp [hn])

theorem foldl_lcm_pos (lens : List ℕ) (acc : ℕ) (ha : 0 < acc) (h : ∀ n ∈ lens, 0 < n) :
    0 < lens.foldl Nat.lcm acc := by
  induction lens generalizing acc with
  | nil => simpa using ha
  | cons x xs ih =>
    simp only [List.foldl_cons]
    apply ih
    · exact Nat.lcm_pos ha (h x (by simp))
    · intro n hn; exact h n (by simp [hn])


/-! ## wrappers -/

theorem rpLevel_le (v : ℕ) : rpLevel v ≤ 255 := by
  unfold rpLevel Fl.toNatSat
  split
  · omega
  · split <;> omega
  · split
    · omega
    · exact Nat.min_le_right _ _

theorem foldlM_ok {α β : Type} (step : β → α → R β) (l : List α) (b : β)
    (h : ∀ b a, a ∈ l → ∃ b', step b a = .ok b') : ∃ r, l.foldlM step b = .ok r := by
  induction l generalizing b with
  | nil => exact ⟨b, rfl⟩
  | cons a l ih =>
    obtain ⟨b', hb'⟩ := h b a (by simp)
    rw [List.foldlM_cons, hb']
    simp only [bind, Except.bind]
    exact ih b' (fun b a' ha' => h b a' (by simp [ha']))

theorem firStep_ok (src : Array ℕ) (coef : Array Fl) (i : ℕ) (hs : 0 < src.size) (b : Fl) (j : ℕ)
    (hj : j < coef.size) : ∃ b', firStep src coef i b j = .ok b' := by
  unfold firStep
  have hpos : (0 : Int) < (src.size : Int) := by exact_mod_cast hs
  have h1 := Int.emod_nonneg ((i : Int) + (j : Int) - (coef.size : Int) / 2) (ne_of_gt hpos)
  have h2 := Int.emod_lt_of_pos ((i : Int) + (j : Int) - (coef.size : Int) / 2) hpos
  have hidx : (((i : Int) + (j : Int) - (coef.size : Int) / 2) % (src.size : Int)).toNat < src.size := by omega
  simp only []
  rw [Array.getElem?_eq_getElem hidx, Array.getElem?_eq_getElem hj]
  exact ⟨_, rfl⟩

theorem firSample_ok (src : Array ℕ) (coef : Array Fl) (i : ℕ) (hs : 0 < src.size) :
    ∃ v, firSample src coef i = .ok v ∧ v ≤ 255 := by
  unfold firSample
  obtain ⟨r, hr⟩ := foldlM_ok (firStep src coef i) (List.range coef.size) (Fl.fin 0)
    (fun b j hj => firStep_ok src coef i hs b j (List.mem_range.mp hj))
  simp only [bind, Except.bind, pure, Except.pure, hr]
  refine ⟨_, rfl, ?_⟩
  unfold Fl.toNatSat
  split
  · omega
  · split <;> omega
  · split
    · omega
    · exact Nat.min_le_right _ _



/-! ## nearest mode -/

/-- dividing a rounded binary32 value in `[1/2, 2^23)` by `2^j` (`j ≤ 16`) is exact -/
theorem rnd_div_pow2_exact (x : ℚ) (hlo : 1 / 2 ≤ x) (hhi : x < 2 ^ 23) (j : ℕ) (hj : j ≤ 16) :
    b32.rnd (roundTo 24 (-149) x / 2 ^ j) = .fin (roundTo 24 (-149) x / 2 ^ j) := by
  obtain ⟨m, k, hm, hm2, hk, hy⟩ := roundTo_is_dyadic x hlo hhi
  rw [hy]
  have e : (m : ℚ) / 2 ^ k / 2 ^ j = (m : ℚ) / 2 ^ (k + j) := by rw [pow_add]; field_simp
  rw [e]
  have hr := roundTo_dyadic 24 (-149) m (k + j) hm hm2 (by simp; omega)
  have hpos : (0 : ℚ) < (m : ℚ) / 2 ^ (k + j) := by positivity
  have hlt : (m : ℚ) / 2 ^ (k + j) < (2 : ℚ) ^ (128 : ℤ) := by
    have h1 : (m : ℚ) / 2 ^ (k + j) ≤ m := div_le_self (by positivity) (one_le_pow₀ (by norm_num))
    have h2 : (m : ℚ) < ((2 ^ 24 : ℕ) : ℚ) := by exact_mod_cast hm2
    calc (m : ℚ) / 2 ^ (k + j) ≤ m := h1
      _ < ((2 ^ 24 : ℕ) : ℚ) := h2
      _ ≤ (2 : ℚ) ^ (128 : ℤ) := by norm_num
  have := rnd_fin b32 ((m : ℚ) / 2 ^ (k + j)) (by show 0 ≤ roundTo 24 (-149) _; rw [hr]; exact hpos.le)
    (by show roundTo 24 (-149) _ < _; rw [hr]; exact hlt)
  rw [this]
  show Fl.fin (roundTo 24 (-149) _) = _
  rw [hr]

theorem x0_range (d : ℕ) (h1 : 1 ≤ d) (h2 : d ≤ 65535) :
    (1 : ℚ) / 2 ≤ 40000 / d ∧ (40000 : ℚ) / d < 2 ^ 23 := by
  have hdq : (0 : ℚ) < d := by exact_mod_cast h1
  have hd1 : (1 : ℚ) ≤ d := by exact_mod_cast h1
  have hd2 : (d : ℚ) ≤ 65535 := by exact_mod_cast h2
  constructor
  · rw [le_div_iff₀ hdq]; linarith
  · rw [div_lt_iff₀ hdq]; nlinarith

/-- `freq_nearest`: never panics; NaN stays NaN; everything else lands in `[fs/65536, fs/2]` -/
theorem freqNearest_spec (f : Fl) (d : ℕ) (h1 : 1 ≤ d) (h2 : d ≤ 65535) :
    ∃ fs : ℚ, cfgFreq (some d) = .ok (.fin fs) ∧ 0 < fs ∧ fs < 2 ^ 23 ∧
      (f.isNaN = true → freqNearest f (some d) = .ok .nan) ∧
      (f.isNaN = false → ∃ c : ℚ, freqNearest f (some d) = .ok (.fin c) ∧ fs / 65536 ≤ c ∧ c ≤ fs / 2) := by
  obtain ⟨fs, hfs, hpos, herr, hre⟩ := cfgFreq_spec d h1 h2
  obtain ⟨hx1, hx2⟩ := x0_range d h1 h2
  have hlt : fs < 2 ^ 23 := by
    have h23 : ((2 ^ 23 : ℕ) : ℚ) = 2 ^ 23 := by norm_num
    rw [hre]
    have := roundTo_le_nat 24 (-149) (40000 / d) 40000 (by linarith) (by norm_num)
      (by norm_num; linarith) (by
        have hd1 : (1 : ℚ) ≤ d := by exact_mod_cast h1
        rw [div_le_iff₀ (by linarith)]; push_cast; nlinarith)
    push_cast at this
    linarith
  have hmin : b32.div (.fin fs) (b32.ofNat MOD_BUF_SIZE_MAX) = .fin (fs / 65536) := by
    show b32.div (.fin fs) (b32.ofNat 65536) = _
    rw [b32_ofNat 65536 (by norm_num)]
    unfold Fmt.div
    have : ¬ (((65536 : ℕ) : ℚ).num = 0) := by norm_num
    simp only [this, if_false]
    have e : fs / ((65536 : ℕ) : ℚ) = roundTo 24 (-149) (40000 / d) / 2 ^ 16 := by rw [hre]; norm_num
    rw [e, rnd_div_pow2_exact _ hx1 hx2 16 (by norm_num), ← hre]; norm_num
  have hmax : b32.div (.fin fs) two = .fin (fs / 2) := by
    unfold two Fmt.div
    have : ¬ ((2 : ℚ).num = 0) := by norm_num
    simp only [this, if_false]
    have e : fs / 2 = roundTo 24 (-149) (40000 / d) / 2 ^ 1 := by rw [hre]; norm_num
    rw [e, rnd_div_pow2_exact _ hx1 hx2 1 (by norm_num)]
  have hle : fs / 65536 ≤ fs / 2 := by linarith
  refine ⟨fs, hfs, hpos, hlt, ?_, ?_⟩
  · intro hn
    cases f with
    | nan =>
      unfold freqNearest
      simp only [hfs, bind, Except.bind, hmin, hmax]
      unfold clampF
      simp [Fl.le, Fl.lt, hle]
    | inf b => simp [Fl.isNaN] at hn
    | fin v => simp [Fl.isNaN] at hn
  · intro hn
    unfold freqNearest
    simp only [hfs, bind, Except.bind, hmin, hmax]
    unfold clampF
    cases f with
    | nan => simp [Fl.isNaN] at hn
    | inf b =>
      cases b
      · refine ⟨fs / 2, ?_, hle, le_refl _⟩
        simp [Fl.le, Fl.lt, hle]
      · refine ⟨fs / 65536, ?_, le_refl _, hle⟩
        simp [Fl.le, Fl.lt, hle]
    | fin v =>
      by_cases hv1 : v < fs / 65536
      · refine ⟨fs / 65536, ?_, le_refl _, hle⟩
        simp [Fl.le, Fl.lt, hle, hv1]
      · by_cases hv2 : fs / 2 < v
        · refine ⟨fs / 2, ?_, hle, le_refl _⟩
          simp [Fl.le, Fl.lt, hle, hv1, hv2]
        · refine ⟨v, ?_, by linarith, by linarith⟩
          simp [Fl.le, Fl.lt, hle, hv1, hv2]

theorem toNatSat_int (z : ℤ) (hz : 0 ≤ z) (max : ℕ) (hm : z.toNat ≤ max) :
    (Fl.fin ((z : ℤ) : ℚ)).toNatSat max = z.toNat := by
  unfold Fl.toNatSat
  simp only [Rat.num_intCast, Rat.floor_intCast]
  have : ¬ z < 0 := by omega
  simp only [this, if_false]
  exact Nat.min_eq_left hm



/-! ## exact float mode: crude `f64` bounds -/

theorem b64_ofNat (n : ℕ) (h : n < 2 ^ 53) : b64.ofNat n = .fin (n : ℚ) := by
  unfold Fmt.ofNat
  have hr : roundTo b64.p b64.emin (n : ℚ) = n := roundTo_nat 53 (-1074) n h (by norm_num)
  rw [rnd_fin b64 _ (by rw [hr]; positivity) ?_, hr]
  rw [hr]
  have : (n : ℚ) < ((2 ^ 53 : ℕ) : ℚ) := by exact_mod_cast h
  calc (n : ℚ) < ((2 ^ 53 : ℕ) : ℚ) := this
    _ ≤ (2 : ℚ) ^ b64.emax := by
      show ((2 ^ 53 : ℕ) : ℚ) ≤ (2 : ℚ) ^ (1024 : ℤ)
      have e : ((2 ^ 53 : ℕ) : ℚ) = (2 : ℚ) ^ (53 : ℤ) := by norm_num
      rw [e]; exact zpow_le_zpow_right₀ (by norm_num) (by norm_num)

theorem u53 : (2 : ℚ) ^ (-53 : ℤ) ≤ 1 / 1000 := by
  have : (2 : ℚ) ^ (-53 : ℤ) ≤ (2 : ℚ) ^ (-10 : ℤ) := zpow_le_zpow_right₀ (by norm_num) (by norm_num)
  have e : (2 : ℚ) ^ (-10 : ℤ) = 1 / 1024 := by rw [zpow_neg]; norm_num
  rw [e] at this; linarith

/-- a positive binary32 value is at least `2^-149` -/
theorem ofBits32_pos (b : ℕ) (v : ℚ) (h : ofBits32 b = .fin v) (hv : 0 < v) : (2 : ℚ) ^ (-149 : ℤ) ≤ v := by
  unfold ofBits32 at h
  simp only [] at h
  split at h
  · split at h <;> cases h
  · simp only [Fl.fin.injEq] at h
    have hp149 : pow2 (-149) = (2 : ℚ) ^ (-149 : ℤ) := pow2_eq _
    split at h
    · -- negative: contradiction with 0 < v
      exfalso
      have : v ≤ 0 := by
        rw [← h]
        split
        · have := (pow2_pos (-149)).le
          have hm : (0 : ℚ) ≤ ((b % 2 ^ 23 : ℕ) : ℚ) := by positivity
          have := mul_nonneg hm this
          linarith
        · have := (pow2_pos (((b / 2 ^ 23 % 256 : ℕ) : ℤ) - 150)).le
          have hm : (0 : ℚ) ≤ ((2 ^ 23 + b % 2 ^ 23 : ℕ) : ℚ) := by positivity
          have := mul_nonneg hm this
          linarith
      linarith
    · rw [← h]
      split
      · rename_i hex
        rw [hp149]
        have hpos : 0 < ((b % 2 ^ 23 : ℕ) : ℚ) * pow2 (-149) := by rw [← h] at hv; simpa [hex] using hv
        have hm : (1 : ℚ) ≤ ((b % 2 ^ 23 : ℕ) : ℚ) := by
          have : 0 < (b % 2 ^ 23 : ℕ) := by
            rcases Nat.eq_zero_or_pos (b % 2 ^ 23) with h0 | h0
            · rw [h0] at hpos; simp at hpos
            · exact h0
          exact_mod_cast this
        have := two_zpow_pos (-149)
        nlinarith
      · rename_i hex
        rw [pow2_eq]
        have hm : (2 : ℚ) ^ (23 : ℤ) ≤ ((2 ^ 23 + b % 2 ^ 23 : ℕ) : ℚ) := by
          have : (2 ^ 23 : ℕ) ≤ 2 ^ 23 + b % 2 ^ 23 := Nat.le_add_right _ _
          have : ((2 ^ 23 : ℕ) : ℚ) ≤ ((2 ^ 23 + b % 2 ^ 23 : ℕ) : ℚ) := by exact_mod_cast this
          have e : ((2 ^ 23 : ℕ) : ℚ) = (2 : ℚ) ^ (23 : ℤ) := by norm_num
          rw [e] at this; exact this
        have hex' : (1 : ℤ) ≤ ((b / 2 ^ 23 % 256 : ℕ) : ℤ) := by
          have : 0 < b / 2 ^ 23 % 256 := Nat.pos_of_ne_zero hex
          exact_mod_cast this
        calc (2 : ℚ) ^ (-149 : ℤ) ≤ (2 : ℚ) ^ (23 : ℤ) * (2 : ℚ) ^ (((b / 2 ^ 23 % 256 : ℕ) : ℤ) - 150) := by
              rw [← zpow_add₀ (by norm_num : (2 : ℚ) ≠ 0)]
              exact zpow_le_zpow_right₀ (by norm_num) (by omega)
          _ ≤ _ := mul_le_mul_of_nonneg_right hm (two_zpow_pos _).le

theorem toNatSat_fin_pos (r : ℚ) (hr : 0 ≤ r) (max : ℕ) : (Fl.fin r).toNatSat max = Nat.min r.floor.toNat max := by
  unfold Fl.toNatSat
  have : ¬ r.num < 0 := by
    have := Rat.num_nonneg.mpr hr; omega
  simp [this]

/-- rounding a positive product/quotient in the normal binary64 range: relative error `≤ 1/1000`
(crude form of `2^-53`, enough for the range arguments) -/
theorem b64_rnd_crude (x : ℚ) (hlo : (2 : ℚ) ^ (-1022 : ℤ) ≤ x) (hhi : x < (2 : ℚ) ^ (1023 : ℤ)) :
    ∃ r : ℚ, b64.rnd x = .fin r ∧ 0 < r ∧ x * (999 / 1000) ≤ r ∧ r ≤ x * (1001 / 1000) := by
  obtain ⟨r, hr, _, hpos, herr, _, _⟩ := b64_rnd_normal x hlo hhi
  have hx : 0 < x := lt_of_lt_of_le (two_zpow_pos _) hlo
  have hu := u53
  generalize (2 : ℚ) ^ (-53 : ℤ) = t at herr hu
  obtain ⟨e1, e2⟩ := abs_le.mp herr
  have hm : x * t ≤ x * (1 / 1000) := mul_le_mul_of_nonneg_left hu hx.le
  refine ⟨r, hr, hpos, ?_, ?_⟩ <;> linarith

theorem min_eq_zero {a M : ℕ} (hM : 0 < M) (h : Nat.min a M = 0) : a = 0 := by
  simp only [Nat.min_def] at h; split at h <;> omega

theorem pow_m1022_le (x : ℚ) (h : (2 : ℚ) ^ (-151 : ℤ) ≤ x) : (2 : ℚ) ^ (-1022 : ℤ) ≤ x :=
  le_trans (zpow_le_zpow_right₀ (by norm_num) (by norm_num)) h

theorem lt_pow_1023 (x : ℚ) (h : x < (2 : ℚ) ^ (200 : ℤ)) : x < (2 : ℚ) ^ (1023 : ℤ) :=
  lt_of_lt_of_le h (zpow_le_zpow_right₀ (by norm_num) (by norm_num))


end Autd3.Modulation
