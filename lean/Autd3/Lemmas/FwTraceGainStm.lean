import Autd3.Lemmas.FwTraceGuard
/-!
C19 trace layer: the step theorem of `write_gain_stm` for EVERY frame of a GainSTM write (BEGIN / continuation /
END, with or without the segment transition), from a `Base` state, under the alphabet condition `GainStmOK`:
never panics, keeps `Base`, keeps `Chain` under the finding exclusion `GainStmExcl`.

Architecture (as in `writeGainStm_safe`, without `Settled` / `FwWF` / page 0):
* `writeGainStm_eq`   — `writeGainStm` = validations, `gsBeginRest` (BEGIN block) resp. nothing, then `gsBody`
                        (patterns by mode byte, then `gsTail` = page register, `gsEnd` = END / UPDATE); by `rfl`.
* `GsInv'`            — what the 1..4 `gainStmWritePattern` calls keep relative to the state `X` they start from.
* `gsEnd_step`, `gsTail_step`, `gs_leaf'`, `gsBody_step`, `gsBeginRest_step`, `writeGainStm_step`.
-/
set_option linter.unusedSimpArgs false
set_option linter.unusedVariables false
namespace Autd3.Fw
open Autd3.Gen.Cpu
open Autd3.Gen

/-- what the pattern loop of `write_gain_stm` maintains relative to the state `X` it starts from -/
structure GsInv' (X : State) (seg : Nat) (A : State) (c : Nat) : Prop where
  base : Base A
  same : SameB X A
  ctl : A.ctl = X.ctl
  cyc : sel A.stmCycle seg = c
  tm : A.stmTrMode = X.stmTrMode
  tv : A.stmTrValue = X.stmTrValue

theorem GsInv'.refl {X : State} (seg : Nat) (h : Base X) : GsInv' X seg X (sel X.stmCycle seg) :=
  ⟨h, SameB.refl' rfl rfl rfl rfl, rfl, rfl, rfl, rfl⟩

/-- one pattern of a GainSTM frame: never panics while the write registers point into the STM BRAM -/
theorem gainStmWritePattern_step (s : State) (seg srcOff : Nat) (d : Array Nat) (f : Nat → Nat) (h : Base s)
    (hwr : rd s.ctl 80 ≤ 1) (hpage : rd s.ctl 81 ≤ 15) :
    ∃ Z, gainStmWritePattern s seg srcOff d f = .ok Z ∧ Base Z ∧ SameB s Z ∧
      Z = { s with stmMem0 := Z.stmMem0, stmMem1 := Z.stmMem1,
                   stmCycle := setSel s.stmCycle seg (sel s.stmCycle seg + 1) } := by
  unfold gainStmWritePattern
  have hd := gainStm_dst_le (sel s.stmCycle seg)
  have hn := h.shape.numTr
  obtain ⟨Z, e, bZ, cZ, _, hZeq⟩ := stmWriteWords_step s
    ((((sel s.stmCycle seg) % 65536 &&& GAIN_STM_BUF_PAGE_SIZE_MASK) <<< 8) % 65536)
    ((wordsAt d srcOff s.numTr).map f) h hwr
    (by simp only [Array.size_map, wordsAt_size]; omega)
    (by simp only [Array.size_map, wordsAt_size]; omega)
  simp only []
  rw [e, ok_bind]
  have c1 : SameB Z { Z with stmCycle := setSel Z.stmCycle seg (sel Z.stmCycle seg + 1) } :=
    SameB.refl' rfl rfl rfl rfl
  refine ⟨_, rfl, ?_, ?_, ?_⟩
  · exact bZ.transfer c1 (bZ.shape.transfer rfl rfl rfl rfl rfl rfl rfl rfl) bZ.flags
  · exact cZ.trans c1
  · rw [hZeq]

theorem GsInv'.step {X : State} {seg : Nat} {A : State} {c : Nat} (j : GsInv' X seg A c) (hseg : seg ≤ 1)
    (hwr : rd X.ctl 80 ≤ 1) (hpage : rd X.ctl 81 ≤ 15)
    (srcOff : Nat) (d : Array Nat) (f : Nat → Nat) :
    ∃ B, gainStmWritePattern A seg srcOff d f = .ok B ∧ GsInv' X seg B (c + 1) := by
  obtain ⟨B, e, bB, cB, hB⟩ := gainStmWritePattern_step A seg srcOff d f j.base
    (by rw [j.ctl]; exact hwr) (by rw [j.ctl]; exact hpage)
  refine ⟨B, e, bB, j.same.trans cB, ?_, ?_, ?_, ?_⟩
  · rw [hB]; exact j.ctl
  · rw [hB]; simp only [sel_setSel _ _ _ _ hseg hseg, if_true, j.cyc]
  · rw [hB]; exact j.tm
  · rw [hB]; exact j.tv


/-- the END / UPDATE part of `write_gain_stm` -/
def gsEnd (flag seg : Nat) (s : State) : M (State × Nat) := do
  let mut s := s
  if hasFlag flag GAIN_STM_FLAG_END then
    s := { s with stmMode := setSel s.stmMode seg STM_MODE_GAIN }
    s ← ctlWrite s (ADDR_STM_CYCLE0 + seg) ((max (sel s.stmCycle seg) 1 - 1) % 65536)
    if hasFlag flag GAIN_STM_FLAG_UPDATE then
      return ← stmSegmentUpdate s seg s.stmTrMode s.stmTrValue
  return (s, NO_ERR)

theorem gsEnd_step (flag seg : Nat) (Z : State) (hZ : Base Z) (hseg : seg ≤ 1)
    (hc : sel Z.stmCycle seg ≤ 1024)
    (hupd : hasFlag flag GAIN_STM_FLAG_END = true → hasFlag flag GAIN_STM_FLAG_UPDATE = true →
      ModeOK Z.stmTrMode Z.stmTrValue) :
    ∃ s' ack, gsEnd flag seg Z = .ok (s', ack) ∧ Base s' ∧
      (Chain Z → (hasFlag flag GAIN_STM_FLAG_END = true → hasFlag flag GAIN_STM_FLAG_UPDATE = true →
        SetGuard Z.stmSwap seg (rd Z.ctl (87 + seg)) Z.stmTrMode) → Chain s') := by
  unfold gsEnd
  simp only []
  by_cases he' : ¬ hasFlag flag GAIN_STM_FLAG_END = true
  · rw [if_neg he']
    exact ⟨_, _, rfl, hZ, fun hc _ => hc⟩
  have he : hasFlag flag GAIN_STM_FLAG_END = true := Classical.not_not.mp he'
  rw [if_pos he]
  have hsz := hZ.shape.ctl
  have hs01 : seg = 0 ∨ seg = 1 := by omega
  have hlt : ADDR_STM_CYCLE0 + seg < 256 := by simp only [ADDR_STM_CYCLE0]; omega
  simp only [ok_bind, pure_eq_ok, ctlWrite_main _ _ _ hlt]
  generalize hcv : sel Z.stmCycle seg = cv at hc
  have hv : (max cv 1 - 1) % 65536 % 65536 + 1 ≤ 1024 := by omega
  generalize (max cv 1 - 1) % 65536 % 65536 = v at hv
  generalize hY : State.mk _ _ _ _ _ _ _ _ _ _ _ _ _ _ _ _ _ _ _ _ _ _ _ _ _ _ _ _ _ _ _ _ _ _ _ _ _ _ _ = Y
  have hYb : Base Y := by
    subst hY
    rcases hs01 with rfl | rfl <;> simp only [ADDR_STM_CYCLE0, Nat.add_zero, Nat.reduceAdd] <;>
      base_tac hZ with hv
  have e1 : Y.stmTrMode = Z.stmTrMode := by subst hY; rfl
  have e2 : Y.stmTrValue = Z.stmTrValue := by subst hY; rfl
  have e3 : Y.stmSwap = Z.stmSwap := by subst hY; rfl
  have e4 : Y.modSwap = Z.modSwap := by subst hY; rfl
  have hYc : Chain Z → Chain Y := by
    intro hc
    have n0 := hZ.nfr0
    have n1 := hZ.nfr1
    have f0 := hc.fcr0; have f1 := hc.fcr1; have g0 := hc.fcs0; have g1 := hc.fcs1
    subst hY
    rcases hs01 with rfl | rfl
    · refine ⟨hc.modSwap, hc.stmSwap, ?_, ?_, ?_, ?_⟩ <;>
        simp only [ADDR_STM_CYCLE0, Nat.add_zero, Nat.reduceAdd, rd_set, hsz] <;> simp <;> try assumption
      calc (v + 1) * rd Z.ctl 93 ≤ 1024 * 8 := Nat.mul_le_mul hv n0
        _ ≤ 65536 := by omega
    · refine ⟨hc.modSwap, hc.stmSwap, ?_, ?_, ?_, ?_⟩ <;>
        simp only [ADDR_STM_CYCLE0, Nat.add_zero, Nat.reduceAdd, rd_set, hsz] <;> simp <;> try assumption
      calc (v + 1) * rd Z.ctl 94 ≤ 1024 * 8 := Nat.mul_le_mul hv n1
        _ ≤ 65536 := by omega
  have hr : rd Y.ctl (87 + seg) = rd Z.ctl (87 + seg) := by
    subst hY
    rcases hs01 with rfl | rfl <;> simp [ADDR_STM_CYCLE0, rd_set]
  by_cases hu' : ¬ hasFlag flag GAIN_STM_FLAG_UPDATE = true
  · rw [if_neg hu']
    exact ⟨_, _, rfl, hYb, fun hc _ => hYc hc⟩
  · have hu : hasFlag flag GAIN_STM_FLAG_UPDATE = true := Classical.not_not.mp hu'
    rw [if_pos hu]
    have hm := hupd he hu
    obtain ⟨s', ack, e, b', c'⟩ := stmSegmentUpdate_step Y seg Z.stmTrMode Z.stmTrValue hYb hseg hm
    refine ⟨s', ack, e, b', fun hc g => c' (hYc hc) ?_⟩
    rw [e3, hr]
    exact g he hu


theorem gsTail_eq (flag seg : Nat) (Z : State) : gsTail flag seg Z =
    (if sel Z.stmCycle seg % 65536 &&& GAIN_STM_BUF_PAGE_SIZE_MASK = 0 then
      ctlWrite Z ADDR_STM_MEM_WR_PAGE
        ((sel Z.stmCycle seg % 65536 &&& (65535 - GAIN_STM_BUF_PAGE_SIZE_MASK)) >>> GAIN_STM_BUF_PAGE_SIZE_WIDTH) >>=
        gsEnd flag seg
    else gsEnd flag seg Z) := rfl

/-- the part of `write_gain_stm` after the patterns: page register, then END / UPDATE -/
theorem gsTail_step (flag seg : Nat) (Z : State) (hZ : Base Z) (hseg : seg ≤ 1)
    (hc : sel Z.stmCycle seg ≤ 1024)
    (hupd : hasFlag flag GAIN_STM_FLAG_END = true → hasFlag flag GAIN_STM_FLAG_UPDATE = true →
      ModeOK Z.stmTrMode Z.stmTrValue) :
    ∃ s' ack, gsTail flag seg Z = .ok (s', ack) ∧ Base s' ∧
      (Chain Z → (hasFlag flag GAIN_STM_FLAG_END = true → hasFlag flag GAIN_STM_FLAG_UPDATE = true →
        SetGuard Z.stmSwap seg (rd Z.ctl (87 + seg)) Z.stmTrMode) → Chain s') := by
  rw [gsTail_eq]
  split
  · rw [ctlWrite_main _ ADDR_STM_MEM_WR_PAGE _ (by decide), ok_bind]
    generalize ((sel Z.stmCycle seg % 65536 &&& 65535 - GAIN_STM_BUF_PAGE_SIZE_MASK) >>> GAIN_STM_BUF_PAGE_SIZE_WIDTH) % 65536 = pg
    generalize hW : State.mk _ _ _ _ _ _ _ _ _ _ _ _ _ _ _ _ _ _ _ _ _ _ _ _ _ _ _ _ _ _ _ _ _ _ _ _ _ _ _ = W
    have cW : SameB Z W := by subst hW; simp only [ADDR_STM_MEM_WR_PAGE]; same_b_tac
    have hW' : Base W := hZ.transfer cW (by subst hW; exact hZ.shape.transfer (by simp) rfl rfl rfl rfl rfl rfl rfl)
      (by subst hW; exact hZ.flags)
    have e1 : W.stmTrMode = Z.stmTrMode := by subst hW; rfl
    have e2 : W.stmTrValue = Z.stmTrValue := by subst hW; rfl
    have e3 : W.stmCycle = Z.stmCycle := by subst hW; rfl
    have hs01 : seg = 0 ∨ seg = 1 := by omega
    have hr : rd W.ctl (87 + seg) = rd Z.ctl (87 + seg) := by
      subst hW
      rcases hs01 with rfl | rfl <;> simp [ADDR_STM_MEM_WR_PAGE, rd_set]
    obtain ⟨s', ack, e, b', c'⟩ := gsEnd_step flag seg W hW' hseg (by rw [e3]; exact hc)
      (by rw [e1, e2]; exact hupd)
    refine ⟨s', ack, e, b', fun hc g => c' (hc.transfer cW) ?_⟩
    rw [cW.stmSwap, hr, e1]; exact g
  · exact gsEnd_step flag seg Z hZ hseg hc hupd

/-- a leaf of `write_gain_stm`: after the patterns the tail is safe -/
theorem gs_leaf' (flag seg : Nat) (X Z : State) (c : Nat) (j : GsInv' X seg Z c) (hc : c ≤ 1024) (hseg : seg ≤ 1)
    (hupd : hasFlag flag GAIN_STM_FLAG_END = true → hasFlag flag GAIN_STM_FLAG_UPDATE = true →
      ModeOK X.stmTrMode X.stmTrValue) :
    ∃ s' ack, gsTail flag seg Z = .ok (s', ack) ∧ Base s' ∧
      (Chain X → (hasFlag flag GAIN_STM_FLAG_END = true → hasFlag flag GAIN_STM_FLAG_UPDATE = true →
        SetGuard X.stmSwap seg (rd X.ctl (87 + seg)) X.stmTrMode) → Chain s') := by
  obtain ⟨s', ack, e, b', c'⟩ := gsTail_step flag seg Z j.base hseg (by rw [j.cyc]; exact hc)
    (by rw [j.tm, j.tv]; exact hupd)
  refine ⟨s', ack, e, b', fun hc g => c' (hc.transfer j.same) ?_⟩
  rw [j.same.stmSwap, j.ctl, j.tm]; exact g


/-- `write_gain_stm` after the BEGIN block: the patterns selected by the mode byte, then the tail -/
def gsBody (flag seg srcOff : Nat) (d : Array Nat) (s : State) : M (State × Nat) := do
  let send := (flag >>> 6) + 1
  let mut s := s
  if s.gainStmMode = GAIN_STM_MODE_INTENSITY_PHASE_FULL then
    s ← gainStmWritePattern s seg srcOff d id
  else if s.gainStmMode = GAIN_STM_MODE_PHASE_FULL then
    s ← gainStmWritePattern s seg srcOff d (fun w => 0xFF00 ||| (w &&& 0x00FF))
    if send > 1 then
      s ← gainStmWritePattern s seg srcOff d (fun w => 0xFF00 ||| ((w >>> 8) &&& 0x00FF))
  else if s.gainStmMode = GAIN_STM_MODE_PHASE_HALF then
    let nib (k : Nat) : Nat → Nat := fun w => let p := (w >>> (4 * k)) &&& 0x000F; 0xFF00 ||| (p <<< 4) ||| p
    s ← gainStmWritePattern s seg srcOff d (nib 0)
    if send > 1 then s ← gainStmWritePattern s seg srcOff d (nib 1)
    if send > 2 then s ← gainStmWritePattern s seg srcOff d (nib 2)
    if send > 3 then s ← gainStmWritePattern s seg srcOff d (nib 3)
  else
    return (s, ERR_INVALID_GAIN_STM_MODE)
  gsTail flag seg s

theorem gsBody_step (flag seg srcOff : Nat) (d : Array Nat) (X : State) (hX : Base X) (hseg : seg ≤ 1)
    (hwr : rd X.ctl 80 ≤ 1) (hpg : rd X.ctl 81 ≤ 15)
    (htot : sel X.stmCycle seg + (flag >>> 6 + 1) ≤ 1024)
    (hupd : hasFlag flag GAIN_STM_FLAG_END = true → hasFlag flag GAIN_STM_FLAG_UPDATE = true →
      ModeOK X.stmTrMode X.stmTrValue) :
    ∃ s' ack, gsBody flag seg srcOff d X = .ok (s', ack) ∧ Base s' ∧
      (Chain X → (hasFlag flag GAIN_STM_FLAG_END = true → hasFlag flag GAIN_STM_FLAG_UPDATE = true →
        SetGuard X.stmSwap seg (rd X.ctl (87 + seg)) X.stmTrMode) → Chain s') := by
  unfold gsBody
  simp only []
  have j0 := GsInv'.refl seg hX
  generalize hc0 : sel X.stmCycle seg = c0 at j0 htot
  by_cases hm0 : X.gainStmMode = GAIN_STM_MODE_INTENSITY_PHASE_FULL
  · rw [if_pos hm0]
    obtain ⟨B1, p1, j1⟩ := j0.step hseg hwr hpg srcOff d id
    rw [p1, ok_bind]
    exact gs_leaf' flag seg X B1 _ j1 (by omega) hseg hupd
  rw [if_neg hm0]
  by_cases hm1 : X.gainStmMode = GAIN_STM_MODE_PHASE_FULL
  · rw [if_pos hm1]
    obtain ⟨B1, p1, j1⟩ := j0.step hseg hwr hpg srcOff d (fun w => 0xFF00 ||| (w &&& 0x00FF))
    rw [p1, ok_bind]
    by_cases c1 : flag >>> 6 + 1 > 1
    · rw [if_pos c1]
      obtain ⟨B2, p2, j2⟩ := j1.step hseg hwr hpg srcOff d (fun w => 0xFF00 ||| ((w >>> 8) &&& 0x00FF))
      rw [p2, ok_bind]
      exact gs_leaf' flag seg X B2 _ j2 (by omega) hseg hupd
    · rw [if_neg c1]
      exact gs_leaf' flag seg X B1 _ j1 (by omega) hseg hupd
  rw [if_neg hm1]
  by_cases hm2 : X.gainStmMode = GAIN_STM_MODE_PHASE_HALF
  · rw [if_pos hm2]
    obtain ⟨B1, p1, j1⟩ := j0.step hseg hwr hpg srcOff d
      (fun w => let p := (w >>> (4 * 0)) &&& 0x000F; 0xFF00 ||| (p <<< 4) ||| p)
    rw [p1, ok_bind]
    by_cases q1 : flag >>> 6 + 1 > 1
    · rw [if_pos q1]
      obtain ⟨C1, w1, k1⟩ := j1.step hseg hwr hpg srcOff d
        (fun w => let p := (w >>> (4 * 1)) &&& 0x000F; 0xFF00 ||| (p <<< 4) ||| p)
      rw [w1, ok_bind]
      by_cases q2 : flag >>> 6 + 1 > 2
      · rw [if_pos q2]
        obtain ⟨C2, w2, k2⟩ := k1.step hseg hwr hpg srcOff d
          (fun w => let p := (w >>> (4 * 2)) &&& 0x000F; 0xFF00 ||| (p <<< 4) ||| p)
        rw [w2, ok_bind]
        by_cases q3 : flag >>> 6 + 1 > 3
        · rw [if_pos q3]
          obtain ⟨C3, w3, k3⟩ := k2.step hseg hwr hpg srcOff d
            (fun w => let p := (w >>> (4 * 3)) &&& 0x000F; 0xFF00 ||| (p <<< 4) ||| p)
          rw [w3, ok_bind]
          exact gs_leaf' flag seg X C3 _ k3 (by omega) hseg hupd
        · rw [if_neg q3]
          exact gs_leaf' flag seg X C2 _ k2 (by omega) hseg hupd
      · rw [if_neg q2]
        have q4 : ¬ flag >>> 6 + 1 > 3 := by omega
        rw [if_neg q4]
        exact gs_leaf' flag seg X C1 _ k1 (by omega) hseg hupd
    · rw [if_neg q1]
      have q5 : ¬ flag >>> 6 + 1 > 2 := by omega
      have q7 : ¬ flag >>> 6 + 1 > 3 := by omega
      rw [if_neg q5, if_neg q7]
      exact gs_leaf' flag seg X B1 _ j1 (by omega) hseg hupd
  rw [if_neg hm2]
  exact ⟨_, _, rfl, hX, fun hc _ => hc⟩


/-- the BEGIN block of `write_gain_stm` after the two validations and the belief update, then the body -/
def gsBeginRest (flag seg : Nat) (d : Array Nat) (s : State) : M (State × Nat) := do
  let rep := u16at d FwLayout.GainSTMHead_rep_off
  let tm := u8at d FwLayout.GainSTMHead_transition_mode_off
  let freqDiv := u16at d FwLayout.GainSTMHead_freq_div_off
  let mut s := s
  s := { s with stmCycle := setSel s.stmCycle seg 0, stmRep := setSel s.stmRep seg rep,
                stmTrMode := tm, stmTrValue := u64at d FwLayout.GainSTMHead_transition_value_off,
                stmDiv := setSel s.stmDiv seg freqDiv }
  s ← ctlWrite s (ADDR_STM_FREQ_DIV0 + seg) freqDiv
  s ← ctlWrite s (ADDR_STM_MODE0 + seg) STM_MODE_GAIN
  s ← ctlWrite s (ADDR_STM_REP0 + seg) rep
  s ← ctlWrite s ADDR_STM_MEM_WR_SEGMENT seg
  s ← ctlWrite s ADDR_STM_MEM_WR_PAGE 0
  gsBody flag seg FwLayout.GainSTMHead_size d s

theorem writeGainStm_eq (s : State) (d : Array Nat) : writeGainStm s d =
    (if hasFlag (gsFlag d) GAIN_STM_FLAG_BEGIN = true then
      if validateTransitionMode s.stmSegment (gsSeg d) (u16at d FwLayout.GainSTMHead_rep_off)
          (u8at d FwLayout.GainSTMHead_transition_mode_off) = true then
        pure ({ s with gainStmMode := u8at d FwLayout.GainSTMHead_mode_off }, ERR_INVALID_TRANSITION_MODE)
      else if validateSilencerSettings { s with gainStmMode := u8at d FwLayout.GainSTMHead_mode_off }
          (u16at d FwLayout.GainSTMHead_freq_div_off) (sel s.modDiv s.modSegment) = true then
        pure ({ s with gainStmMode := u8at d FwLayout.GainSTMHead_mode_off }, ERR_INVALID_SILENCER_SETTING)
      else if u8at d FwLayout.GainSTMHead_transition_mode_off ≠ TRANSITION_MODE_NONE then
        gsBeginRest (gsFlag d) (gsSeg d) d
          { s with gainStmMode := u8at d FwLayout.GainSTMHead_mode_off, stmSegment := gsSeg d }
      else
        gsBeginRest (gsFlag d) (gsSeg d) d { s with gainStmMode := u8at d FwLayout.GainSTMHead_mode_off }
    else gsBody (gsFlag d) (gsSeg d) FwLayout.GainSTMSubseq_size d s) := rfl


theorem gsBeginRest_step (flag seg : Nat) (d : Array Nat) (s : State) (hB : Base s) (hseg : seg ≤ 1)
    (hfl : flag < 256) (hdiv : 1 ≤ u16at d FwLayout.GainSTMHead_freq_div_off)
    (hupd : hasFlag flag GAIN_STM_FLAG_END = true → hasFlag flag GAIN_STM_FLAG_UPDATE = true →
      ModeOK (u8at d FwLayout.GainSTMHead_transition_mode_off) (u64at d FwLayout.GainSTMHead_transition_value_off)) :
    ∃ s' ack, gsBeginRest flag seg d s = .ok (s', ack) ∧ Base s' ∧
      (Chain s → (hasFlag flag GAIN_STM_FLAG_END = true → hasFlag flag GAIN_STM_FLAG_UPDATE = true →
        SetGuard s.stmSwap seg (u16at d FwLayout.GainSTMHead_rep_off)
          (u8at d FwLayout.GainSTMHead_transition_mode_off)) → Chain s') := by
  unfold gsBeginRest
  simp only []
  have hsz := hB.shape.ctl
  have hrep := u16at_lt d FwLayout.GainSTMHead_rep_off
  have hfd := u16at_lt d FwLayout.GainSTMHead_freq_div_off
  have e1 : u16at d FwLayout.GainSTMHead_freq_div_off % 65536 = u16at d FwLayout.GainSTMHead_freq_div_off :=
    Nat.mod_eq_of_lt hfd
  have e2 : u16at d FwLayout.GainSTMHead_rep_off % 65536 = u16at d FwLayout.GainSTMHead_rep_off :=
    Nat.mod_eq_of_lt hrep
  have hsend : flag >>> 6 + 1 ≤ 4 := by
    rw [Nat.shiftRight_eq_div_pow]; omega
  have hs01 : seg = 0 ∨ seg = 1 := by omega
  rcases hs01 with rfl | rfl
  · simp only [ADDR_STM_FREQ_DIV0, ADDR_STM_MODE0, ADDR_STM_REP0, ADDR_STM_MEM_WR_SEGMENT, ADDR_STM_MEM_WR_PAGE,
      Nat.add_zero, Nat.reduceAdd]
    rw [ctlWrite_main _ _ _ (by decide), ok_bind, ctlWrite_main _ _ _ (by decide), ok_bind,
      ctlWrite_main _ _ _ (by decide), ok_bind, ctlWrite_main _ _ _ (by decide), ok_bind,
      ctlWrite_main _ _ _ (by decide), ok_bind]
    simp only []
    generalize hX : State.mk _ _ _ _ _ _ _ _ _ _ _ _ _ _ _ _ _ _ _ _ _ _ _ _ _ _ _ _ _ _ _ _ _ _ _ _ _ _ _ = X
    have hXb : Base X := by subst hX; base_tac hB with e1, e2, hdiv, STM_MODE_GAIN
    have hXc : Chain s → Chain X := by
      intro hc
      subst hX
      exact hc.of_regs rfl rfl (by simp [rd_set]) (by simp [rd_set]) (by simp [rd_set]) (by simp [rd_set])
    have h80 : rd X.ctl 80 ≤ 1 := by subst hX; simp [rd_set, hsz]
    have h81 : rd X.ctl 81 ≤ 15 := by subst hX; simp [rd_set, hsz]
    have hcy : sel X.stmCycle 0 = 0 := by subst hX; simp [sel, setSel]
    have hsw : X.stmSwap = s.stmSwap := by subst hX; rfl
    have htm : X.stmTrMode = u8at d FwLayout.GainSTMHead_transition_mode_off := by subst hX; rfl
    have htv : X.stmTrValue = u64at d FwLayout.GainSTMHead_transition_value_off := by subst hX; rfl
    have hrp : rd X.ctl (87 + 0) = u16at d FwLayout.GainSTMHead_rep_off := by subst hX; simp [rd_set, hsz, e2]
    obtain ⟨s', ack, e, b', c'⟩ := gsBody_step flag 0 FwLayout.GainSTMHead_size d X hXb hseg h80 h81
      (by rw [hcy]; omega) (by rw [htm, htv]; exact hupd)
    refine ⟨s', ack, e, b', fun hc g => c' (hXc hc) ?_⟩
    rw [hsw, hrp, htm]; exact g
  · simp only [ADDR_STM_FREQ_DIV0, ADDR_STM_MODE0, ADDR_STM_REP0, ADDR_STM_MEM_WR_SEGMENT, ADDR_STM_MEM_WR_PAGE,
      Nat.add_zero, Nat.reduceAdd]
    rw [ctlWrite_main _ _ _ (by decide), ok_bind, ctlWrite_main _ _ _ (by decide), ok_bind,
      ctlWrite_main _ _ _ (by decide), ok_bind, ctlWrite_main _ _ _ (by decide), ok_bind,
      ctlWrite_main _ _ _ (by decide), ok_bind]
    simp only []
    generalize hX : State.mk _ _ _ _ _ _ _ _ _ _ _ _ _ _ _ _ _ _ _ _ _ _ _ _ _ _ _ _ _ _ _ _ _ _ _ _ _ _ _ = X
    have hXb : Base X := by subst hX; base_tac hB with e1, e2, hdiv, STM_MODE_GAIN
    have hXc : Chain s → Chain X := by
      intro hc
      subst hX
      exact hc.of_regs rfl rfl (by simp [rd_set]) (by simp [rd_set]) (by simp [rd_set]) (by simp [rd_set])
    have h80 : rd X.ctl 80 ≤ 1 := by subst hX; simp [rd_set, hsz]
    have h81 : rd X.ctl 81 ≤ 15 := by subst hX; simp [rd_set, hsz]
    have hcy : sel X.stmCycle 1 = 0 := by subst hX; simp [sel, setSel]
    have hsw : X.stmSwap = s.stmSwap := by subst hX; rfl
    have htm : X.stmTrMode = u8at d FwLayout.GainSTMHead_transition_mode_off := by subst hX; rfl
    have htv : X.stmTrValue = u64at d FwLayout.GainSTMHead_transition_value_off := by subst hX; rfl
    have hrp : rd X.ctl (87 + 1) = u16at d FwLayout.GainSTMHead_rep_off := by subst hX; simp [rd_set, hsz, e2]
    obtain ⟨s', ack, e, b', c'⟩ := gsBody_step flag 1 FwLayout.GainSTMHead_size d X hXb hseg h80 h81
      (by rw [hcy]; omega) (by rw [htm, htv]; exact hupd)
    refine ⟨s', ack, e, b', fun hc g => c' (hXc hc) ?_⟩
    rw [hsw, hrp, htm]; exact g


/-- every frame of a GainSTM write (BEGIN / middle / END, any payload bytes, any mode byte, either segment, with or
without transition): `write_gain_stm` never panics from a `Base` state, keeps `Base`, and keeps `Chain` under
`GainStmExcl` -/
theorem writeGainStm_step (s : State) (d : Array Nat) (hB : Base s) (hok : GainStmOK s d) :
    ∃ s' ack, writeGainStm s d = .ok (s', ack) ∧ Base s' ∧ (Chain s → GainStmExcl s d → Chain s') := by
  obtain ⟨hdiv, hcs, hcp, hct, hupd⟩ := hok
  rw [writeGainStm_eq]
  have hfl : gsFlag d < 256 := u8at_lt d _
  have hseg : gsSeg d ≤ 1 := by unfold gsSeg; split <;> omega
  by_cases hb : hasFlag (gsFlag d) GAIN_STM_FLAG_BEGIN = true
  · rw [if_pos hb]
    have hb' : gsBegin d = true := hb
    have eTm : gsEffTm s d = u8at d FwLayout.GainSTMHead_transition_mode_off := by simp [gsEffTm, hb']
    have eTv : gsEffTv s d = u64at d FwLayout.GainSTMHead_transition_value_off := by simp [gsEffTv, hb']
    have eRep : gsEffRep s d = u16at d FwLayout.GainSTMHead_rep_off := by simp [gsEffRep, hb']
    have cg : SameB s { s with gainStmMode := u8at d FwLayout.GainSTMHead_mode_off } := SameB.refl' rfl rfl rfl rfl
    have hg : Base { s with gainStmMode := u8at d FwLayout.GainSTMHead_mode_off } :=
      hB.transfer cg (hB.shape.transfer rfl rfl rfl rfl rfl rfl rfl rfl) hB.flags
    by_cases hval : validateTransitionMode s.stmSegment (gsSeg d) (u16at d FwLayout.GainSTMHead_rep_off)
        (u8at d FwLayout.GainSTMHead_transition_mode_off) = true
    · rw [if_pos hval]; exact ⟨_, _, rfl, hg, fun hc _ => hc.transfer cg⟩
    rw [if_neg hval]
    by_cases hsil : validateSilencerSettings { s with gainStmMode := u8at d FwLayout.GainSTMHead_mode_off }
        (u16at d FwLayout.GainSTMHead_freq_div_off) (sel s.modDiv s.modSegment) = true
    · rw [if_pos hsil]; exact ⟨_, _, rfl, hg, fun hc _ => hc.transfer cg⟩
    rw [if_neg hsil]
    have hsil' : validateSilencerSettings s (u16at d FwLayout.GainSTMHead_freq_div_off) (sel s.modDiv s.modSegment)
        = false := by
      have : ¬ validateSilencerSettings s (u16at d FwLayout.GainSTMHead_freq_div_off) (sel s.modDiv s.modSegment)
        = true := hsil
      simpa using this
    have hacc : gsAccepted s d = true := by
      unfold gsAccepted
      have hv : validateTransitionMode s.stmSegment (gsSeg d) (u16at d FwLayout.GainSTMHead_rep_off)
        (u8at d FwLayout.GainSTMHead_transition_mode_off) = false := by simpa using hval
      rw [hv, hsil']; simp
    have hupd' : hasFlag (gsFlag d) GAIN_STM_FLAG_END = true → hasFlag (gsFlag d) GAIN_STM_FLAG_UPDATE = true →
        ModeOK (u8at d FwLayout.GainSTMHead_transition_mode_off) (u64at d FwLayout.GainSTMHead_transition_value_off) := by
      intro a b; have := hupd a b; rw [eTm, eTv] at this; exact this
    by_cases htm : u8at d FwLayout.GainSTMHead_transition_mode_off ≠ TRANSITION_MODE_NONE
    · rw [if_pos htm]
      have cg2 : SameB s { s with gainStmMode := u8at d FwLayout.GainSTMHead_mode_off, stmSegment := gsSeg d } :=
        SameB.refl' rfl rfl rfl rfl
      have hg2 : Base { s with gainStmMode := u8at d FwLayout.GainSTMHead_mode_off, stmSegment := gsSeg d } :=
        hB.transfer cg2 (hB.shape.transfer rfl rfl rfl rfl rfl rfl rfl rfl) hB.flags
      obtain ⟨s', ack, e, b', c'⟩ := gsBeginRest_step (gsFlag d) (gsSeg d) d _ hg2 hseg hfl (hdiv hb') hupd'
      refine ⟨s', ack, e, b', fun hc hx => c' (hc.transfer cg2) (fun a b => ?_)⟩
      have := hx.set a b hacc
      rw [eRep, eTm] at this; exact this
    · rw [if_neg htm]
      obtain ⟨s', ack, e, b', c'⟩ := gsBeginRest_step (gsFlag d) (gsSeg d) d _ hg hseg hfl (hdiv hb') hupd'
      refine ⟨s', ack, e, b', fun hc hx => c' (hc.transfer cg) (fun a b => ?_)⟩
      have := hx.set a b hacc
      rw [eRep, eTm] at this; exact this
  · rw [if_neg hb]
    have hb' : gsBegin d = false := by
      have : ¬ gsBegin d = true := hb
      simpa using this
    have eTm : gsEffTm s d = s.stmTrMode := by simp [gsEffTm, hb']
    have eTv : gsEffTv s d = s.stmTrValue := by simp [gsEffTv, hb']
    have eRep : gsEffRep s d = rd s.ctl (87 + gsSeg d) := by simp [gsEffRep, hb']
    have hacc : gsAccepted s d = true := by simp [gsAccepted, hb']
    obtain ⟨s', ack, e, b', c'⟩ := gsBody_step (gsFlag d) (gsSeg d) FwLayout.GainSTMSubseq_size d s hB hseg
      (by rw [hcs hb']; exact hseg) (hcp hb') (hct hb')
      (by intro a b; have := hupd a b; rw [eTm, eTv] at this; exact this)
    refine ⟨s', ack, e, b', fun hc hx => c' hc (fun a b => ?_)⟩
    have := hx.set a b hacc
    rw [eRep, eTm] at this; exact this

end Autd3.Fw
