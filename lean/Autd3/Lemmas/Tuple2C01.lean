import Autd3.Lemmas.Tuple2CfgPairs
/-!
General tuples, C01 corollaries: the round trip of a FociSTM / GainSTM in the SECOND tuple slot, with explicit guard
hypotheses (no reference to a sequential run), behind

* a multi-frame Modulation in slot 1 (`*_roundtrip_slot2_mod`), and
* any single-frame configuration datagram in slot 1 (`*_roundtrip_slot2_cfg`).

Both are instances of `pair_roundtrip`; the generic cores `slot2_mod_core` / `slot2_cfg_core` are stated for an
arbitrary STM-side protocol (`SKind`).
-/
open Autd3 Autd3.Fw Autd3.Wire Autd3.Gen.Cpu Autd3.Gen Autd3.Rt
namespace Autd3.Tuple2

/-! ### behind a Modulation -/

/-- generic core: an STM-side protocol that is ready on every well-formed state with the clock, the STM segment and
the Silencer settings of `s` and the modulation latches the Modulation's BEGIN frame sets -/
theorem slot2_mod_core {PS : Proto} {Ld : State → Nat × Nat} {Ls : State → Nat} (K : SKind PS Ld Ls)
    (s : State) (t : Tx) (hW : WF s) (ht : TxOK t) (hf : Fresh s t)
    (segA : Nat) (trA : Tr) (repA divA : Nat) (samples : Array Nat) (HA : ModOK s segA trA repA divA samples)
    (gA1 : validateTransitionMode s.modSegment segA repA (trMode trA) = false)
    (gA2 : validateSilencerSettings s (sel s.stmDiv s.stmSegment) divA = false)
    (hRdy : ∀ x, WF x → x.dcSysTime = s.dcSysTime → x.stmSegment = s.stmSegment → x.strict = s.strict →
      x.minDivI = s.minDivI → x.minDivP = s.minDivP → x.modDiv = setSel s.modDiv segA divA →
      x.modSegment = (if trMode trA = TRANSITION_MODE_NONE then s.modSegment else segA) → PS.Ready x) :
    ∃ t' s' b2, Sends2 (.modulation segA trA repA divA samples) PS.dg s t t' s' ∧ WF s' ∧ TxOK t' ∧ Fresh s' t' ∧
      ModHeld (pre s (nextId t)) s' segA trA repA divA samples ∧ PS.Done b2 s' ∧ KeepS s b2 := by
  have LM := modProto_laws segA trA repA divA samples HA.n2 HA.n3
  obtain ⟨p1, p2, p3, p4, p5, p6, p7, p8, _, _⟩ := pre_fields s (nextId t)
  have hRA : (modProto segA trA repA divA samples).Ready (pre s (nextId t)) := by
    rw [modProto_ready]
    refine ⟨WF_pre hW _, ModOK_time HA p8, by rw [p3]; exact gA1, ?_⟩
    unfold validateSilencerSettings at gA2 ⊢
    rw [p1, p2, p5, p6, p7]; exact gA2
  have C := compat_mod_S K segA trA repA divA samples HA.n2 HA.n3
  have hR2 : ∀ x c1, 0 < c1 → c1 ≤ (modProto segA trA repA divA samples).total →
      (modProto segA trA repA divA samples).Post (pre s (nextId t)) x c1 →
      (modProto segA trA repA divA samples).OwnT (pre s (nextId t)) x → PS.Ready x := by
    intro x c1 _ _ hp ho
    have ho' : Foot eraseMI TM (pre s (nextId t)) x := ho
    have kx := KeepR_of_footM ho'
    have sx := KeepS_of_footMI ho'
    obtain ⟨lx1, lx2⟩ := modPost_latch segA trA repA divA samples hp
    refine hRdy x (Proto.Post_wf LM hp) ?_ ?_ ?_ ?_ ?_ ?_ ?_
    · rw [kx.time, p8]
    · rw [sx.segment, p1]
    · rw [kx.strict, p5]
    · rw [kx.minDivI, p6]
    · rw [kx.minDivP, p7]
    · rw [lx1, p4]
    · rw [lx2, p3]
  obtain ⟨t2, f, b2, hS2, hWf, hTf, hFf, _, hD1, hO12, hD2, _⟩ := pair_roundtrip C s t hW ht hf hRA hR2
  have hO12' : Foot eraseMI TM (pre s (nextId t)) b2 := hO12
  exact ⟨t2, f, b2, hS2, hWf, hTf, hFf, (modProto_done segA trA repA divA samples hD1).2.1, hD2,
    KeepS.trans (KeepS_pre s _) (KeepS_of_footMI hO12')⟩

/-- **FociSTM in the second slot behind a Modulation of any legal size** -/
theorem fociStm_roundtrip_slot2_mod (s : State) (t : Tx) (hW : WF s) (ht : TxOK t) (hf : Fresh s t)
    (segA : Nat) (trA : Tr) (repA divA : Nat) (samples : Array Nat) (HA : ModOK s segA trA repA divA samples)
    (gA1 : validateTransitionMode s.modSegment segA repA (trMode trA) = false)
    (gA2 : validateSilencerSettings s (sel s.stmDiv s.stmSegment) divA = false)
    (n seg : Nat) (tr : Tr) (rep div ss : Nat) (records : Array Nat) (P : Nat)
    (HB : FociOK s n seg tr rep div ss records P)
    (gB1 : validateTransitionMode s.stmSegment seg rep (trMode tr) = false)
    (gB2 : validateSilencerSettings s div
      (sel (setSel s.modDiv segA divA) (if trMode trA = TRANSITION_MODE_NONE then s.modSegment else segA)) = false) :
    ∃ t' s' b2, Sends2 (.modulation segA trA repA divA samples) (.fociStm n seg tr rep div ss records) s t t' s' ∧
      WF s' ∧ TxOK t' ∧ Fresh s' t' ∧ ModHeld (pre s (nextId t)) s' segA trA repA divA samples ∧
      FociHeld b2 s' seg tr rep div ss n records P ∧ KeepS s b2 := by
  obtain ⟨t', s', b2, h1, h2, h3, h4, h5, h6, h7⟩ :=
    slot2_mod_core (fociKind n seg tr rep div ss records P HB.hn HB.size HB.total) s t hW ht hf segA trA repA divA
      samples HA gA1 gA2 (by
        intro x hWx e1 e2 e3 e4 e5 e6 e7
        rw [fociProto_ready]
        refine ⟨hWx, FociOK_time HB e1, by rw [e2]; exact gB1, ?_⟩
        unfold validateSilencerSettings at gB2 ⊢
        rw [e3, e4, e5, e6, e7]; exact gB2)
  exact ⟨t', s', b2, h1, h2, h3, h4, h5, (fociProto_done n seg tr rep div ss records P h6).2.1, h7⟩

/-- **GainSTM in the second slot behind a Modulation of any legal size** -/
theorem gainStm_roundtrip_slot2_mod (s : State) (t : Tx) (hW : WF s) (ht : TxOK t) (hf : Fresh s t)
    (segA : Nat) (trA : Tr) (repA divA : Nat) (samples : Array Nat) (HA : ModOK s segA trA repA divA samples)
    (gA1 : validateTransitionMode s.modSegment segA repA (trMode trA) = false)
    (gA2 : validateSilencerSettings s (sel s.stmDiv s.stmSegment) divA = false)
    (mode seg : Nat) (tr : Tr) (rep div : Nat) (patterns : Array (Array Nat))
    (HB : GOK s mode seg tr rep div patterns)
    (gB1 : validateTransitionMode s.stmSegment seg rep (trMode tr) = false)
    (gB2 : validateSilencerSettings s div
      (sel (setSel s.modDiv segA divA) (if trMode trA = TRANSITION_MODE_NONE then s.modSegment else segA)) = false) :
    ∃ t' s' b2, Sends2 (.modulation segA trA repA divA samples) (.gainStm mode seg tr rep div patterns) s t t' s' ∧
      WF s' ∧ TxOK t' ∧ Fresh s' t' ∧ ModHeld (pre s (nextId t)) s' segA trA repA divA samples ∧
      GHeld b2 s' seg tr rep div mode patterns ∧ KeepS s b2 := by
  obtain ⟨t', s', b2, h1, h2, h3, h4, h5, h6, h7⟩ :=
    slot2_mod_core (gstmKind mode seg tr rep div patterns HB.hmode HB.size) s t hW ht hf segA trA repA divA
      samples HA gA1 gA2 (by
        intro x hWx e1 e2 e3 e4 e5 e6 e7
        rw [gstmProto_ready]
        refine ⟨hWx, GOK_time HB e1, by rw [e2]; exact gB1, ?_⟩
        unfold validateSilencerSettings at gB2 ⊢
        rw [e3, e4, e5, e6, e7]; exact gB2)
  exact ⟨t', s', b2, h1, h2, h3, h4, h5, (gstmProto_done mode seg tr rep div patterns h6).2.1, h7⟩

/-! ### behind a single-frame configuration datagram -/

/-- generic core: an STM-side protocol that is ready on every well-formed state with the clock, the STM segment and
the modulation latches of `s` and the Silencer settings the configuration handler leaves -/
theorem slot2_cfg_core (X : Dg) (hX : Tuple.IsCfg X = true) {PS : Proto} {Ld : State → Nat × Nat} {Ls : State → Nat}
    (K : SKind PS Ld Ls) (s : State) (t : Tx) (hW : WF s) (ht : TxOK t) (hf : Fresh s t)
    (hacc : CfgAccepts X (pre s (nextId t)))
    (hRdy : ∀ x, WF x → x.dcSysTime = s.dcSysTime → x.stmSegment = s.stmSegment →
      x.strict = (cfgF X (pre s (nextId t))).strict → x.minDivI = (cfgF X (pre s (nextId t))).minDivI →
      x.minDivP = (cfgF X (pre s (nextId t))).minDivP → x.modDiv = s.modDiv → x.modSegment = s.modSegment →
      PS.Ready x) :
    ∃ t' s' b2, Sends2 X PS.dg s t t' s' ∧ WF s' ∧ TxOK t' ∧ Fresh s' t' ∧ PS.Done b2 s' ∧ KeepS s b2 ∧
      KeepR (cfgF X (pre s (nextId t))) s' := by
  have hWp := WF_pre hW (nextId t)
  have hRA : (cfgProto X).Ready (pre s (nextId t)) := (cfgProto_ready X _).2 ⟨hWp, hX, hacc⟩
  have C := compat_cfg_S X hX K
  have hdone : ∀ x, (cfgProto X).Done (pre s (nextId t)) x → KeepR (cfgF X (pre s (nextId t))) x := by
    intro x hd
    obtain ⟨_, s1, h1, k1⟩ := cfgProto_done X hd
    obtain ⟨_, e⟩ := cfg_handler_eq X hX hWp h1
    rw [← e]; exact k1
  have hR2 : ∀ x c1, 0 < c1 → c1 ≤ (cfgProto X).total → (cfgProto X).Post (pre s (nextId t)) x c1 →
      (cfgProto X).OwnT (pre s (nextId t)) x → PS.Ready x := by
    intro x c1 h0 _ hp ho
    have ho' : KeepM (pre s (nextId t)) x ∧ KeepS (pre s (nextId t)) x := ho
    have hdx := cfgPost_done h0 hp
    have kr := hdone x hdx
    have km := KeepM.trans (KeepM_pre s (nextId t)) ho'.1
    have ks := KeepS.trans (KeepS_pre s (nextId t)) ho'.2
    exact hRdy x hdx.1 km.time ks.segment kr.strict kr.minDivI kr.minDivP km.div km.segment
  obtain ⟨t2, f, b2, hS2, hWf, hTf, hFf, _, hD1, hO12, hD2, _⟩ := pair_roundtrip C s t hW ht hf hRA hR2
  have hO12' : KeepM (pre s (nextId t)) b2 ∧ KeepS (pre s (nextId t)) b2 := hO12
  exact ⟨t2, f, b2, hS2, hWf, hTf, hFf, hD2, KeepS.trans (KeepS_pre s _) hO12'.2, hdone f hD1⟩

/-- **FociSTM in the second slot behind any single-frame configuration datagram** -/
theorem fociStm_roundtrip_slot2_cfg (X : Dg) (hX : Tuple.IsCfg X = true) (s : State) (t : Tx) (hW : WF s) (ht : TxOK t)
    (hf : Fresh s t) (hacc : CfgAccepts X (pre s (nextId t)))
    (n seg : Nat) (tr : Tr) (rep div ss : Nat) (records : Array Nat) (P : Nat)
    (HB : FociOK s n seg tr rep div ss records P)
    (gB1 : validateTransitionMode s.stmSegment seg rep (trMode tr) = false)
    (gB2 : validateSilencerSettings (cfgF X (pre s (nextId t))) div (sel s.modDiv s.modSegment) = false) :
    ∃ t' s' b2, Sends2 X (.fociStm n seg tr rep div ss records) s t t' s' ∧ WF s' ∧ TxOK t' ∧ Fresh s' t' ∧
      FociHeld b2 s' seg tr rep div ss n records P ∧ KeepS s b2 ∧ KeepR (cfgF X (pre s (nextId t))) s' := by
  obtain ⟨t', s', b2, h1, h2, h3, h4, h5, h6, h7⟩ :=
    slot2_cfg_core X hX (fociKind n seg tr rep div ss records P HB.hn HB.size HB.total) s t hW ht hf hacc (by
      intro x hWx e1 e2 e3 e4 e5 e6 e7
      rw [fociProto_ready]
      refine ⟨hWx, FociOK_time HB e1, by rw [e2]; exact gB1, ?_⟩
      unfold validateSilencerSettings at gB2 ⊢
      rw [e3, e4, e5, e6, e7]; exact gB2)
  exact ⟨t', s', b2, h1, h2, h3, h4, (fociProto_done n seg tr rep div ss records P h5).2.1, h6, h7⟩

/-- **GainSTM in the second slot behind any single-frame configuration datagram** -/
theorem gainStm_roundtrip_slot2_cfg (X : Dg) (hX : Tuple.IsCfg X = true) (s : State) (t : Tx) (hW : WF s) (ht : TxOK t)
    (hf : Fresh s t) (hacc : CfgAccepts X (pre s (nextId t)))
    (mode seg : Nat) (tr : Tr) (rep div : Nat) (patterns : Array (Array Nat))
    (HB : GOK s mode seg tr rep div patterns)
    (gB1 : validateTransitionMode s.stmSegment seg rep (trMode tr) = false)
    (gB2 : validateSilencerSettings (cfgF X (pre s (nextId t))) div (sel s.modDiv s.modSegment) = false) :
    ∃ t' s' b2, Sends2 X (.gainStm mode seg tr rep div patterns) s t t' s' ∧ WF s' ∧ TxOK t' ∧ Fresh s' t' ∧
      GHeld b2 s' seg tr rep div mode patterns ∧ KeepS s b2 ∧ KeepR (cfgF X (pre s (nextId t))) s' := by
  obtain ⟨t', s', b2, h1, h2, h3, h4, h5, h6, h7⟩ :=
    slot2_cfg_core X hX (gstmKind mode seg tr rep div patterns HB.hmode HB.size) s t hW ht hf hacc (by
      intro x hWx e1 e2 e3 e4 e5 e6 e7
      rw [gstmProto_ready]
      refine ⟨hWx, GOK_time HB e1, by rw [e2]; exact gB1, ?_⟩
      unfold validateSilencerSettings at gB2 ⊢
      rw [e3, e4, e5, e6, e7]; exact gB2)
  exact ⟨t', s', b2, h1, h2, h3, h4, (gstmProto_done mode seg tr rep div patterns h5).2.1, h6, h7⟩

end Autd3.Tuple2
