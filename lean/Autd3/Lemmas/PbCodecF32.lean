import Autd3.Model.PbCodec
/-! Helper lemmas for C18 about the binary32 model: rounding a representable value is exact, `+0.0 + x`
is `x` for every `x` but NaN and `-0.0`, a finite rotation maps the origin to `+0.0`; and the
vocabulary (`QFinite`, `PlainV3`, `Stable`, `roundTripPose`) of the geometry theorems. -/
namespace Autd3.PbCodec.F32

theorem log2_mul_two_pow (a k : Nat) (ha : a ≠ 0) : Nat.log2 (a * 2 ^ k) = Nat.log2 a + k := by
  have hpos : a * 2 ^ k ≠ 0 := Nat.mul_ne_zero ha (Nat.pos_iff_ne_zero.mp (Nat.two_pow_pos k))
  rw [Nat.log2_eq_iff hpos]
  have h1 := Nat.log2_self_le ha
  have h2 := @Nat.lt_log2_self a
  constructor
  · rw [Nat.pow_add]; exact Nat.mul_le_mul_right _ h1
  · rw [show a.log2 + k + 1 = (a.log2 + 1) + k by omega, Nat.pow_add]
    exact Nat.mul_lt_mul_of_pos_right h2 (Nat.two_pow_pos k)

/-- rounding a value that is representable returns its bit pattern -/
theorem roundPos_exact (M e : Nat) (hM : 0 < M) (hM24 : M < 2 ^ 24)
    (hnorm : 2 ^ 23 ≤ M ∨ e = 0) (he : e ≤ 253) :
    roundPos (M * 2 ^ e) (2 ^ 149) = e * 0x800000 + M := by
  have hM0 : M ≠ 0 := by omega
  have hln : Nat.log2 (M * 2 ^ e * 2 ^ 149) = Nat.log2 M + e + 149 := by
    rw [Nat.mul_assoc, ← Nat.pow_add, log2_mul_two_pow M (e + 149) hM0]; omega
  have hld : Nat.log2 (2 ^ 149) = 149 := Nat.log2_two_pow
  have hle : 2 ^ Nat.log2 M ≤ M := Nat.log2_self_le hM0
  have hlt : Nat.log2 M < 24 := (Nat.log2_lt hM0).2 hM24
  have hcond : 2 ^ 149 * 2 ^ (Nat.log2 M + e) ≤ M * 2 ^ e * 2 ^ 149 := by
    rw [Nat.pow_add, Nat.mul_comm (2 ^ 149)]
    exact Nat.mul_le_mul_right _ (Nat.mul_le_mul_right _ hle)
  have hsh : Nat.log2 M + e - 23 = e := by
    rcases hnorm with h | h
    · have : 23 ≤ Nat.log2 M := (Nat.le_log2 hM0).2 h
      omega
    · omega
  have hd : M * 2 ^ e * 2 ^ 149 = M * (2 ^ 149 * 2 ^ e) := by
    rw [Nat.mul_assoc, Nat.mul_comm (2 ^ e)]
  have hdpos : 0 < 2 ^ 149 * 2 ^ e := Nat.mul_pos (Nat.two_pow_pos _) (Nat.two_pow_pos _)
  have e1 : 149 ≤ Nat.log2 M + e + 149 := by omega
  have e2 : Nat.log2 M + e + 149 - 149 = Nat.log2 M + e := by omega
  have hq : M * (2 ^ 149 * 2 ^ e) / (2 ^ 149 * 2 ^ e) = M := Nat.mul_div_cancel _ hdpos
  have hr : M * (2 ^ 149 * 2 ^ e) % (2 ^ 149 * 2 ^ e) = 0 := Nat.mul_mod_left _ _
  have h3 : ¬ (2 * 0 > 2 ^ 149 * 2 ^ e) := by omega
  have h4 : ¬ (2 * 0 = 2 ^ 149 * 2 ^ e) := by omega
  have h5 : ¬ (e * 0x800000 + M ≥ inf) := by unfold inf; omega
  unfold roundPos
  simp only [hln, hld, e1, e2, if_true, hcond, hsh]
  rw [hd, hq, hr]
  simp only [h3, h4, h5, if_false]


/-- a coordinate that survives `+0.0 + x` bit for bit: anything but a NaN and `-0.0` -/
def Plain (p : Nat) : Prop := p < 4294967296 ∧ isNaN p = false ∧ p ≠ signBit

instance (p : Nat) : Decidable (Plain p) := by unfold Plain; exact inferInstance

theorem add_zero_left (p : Nat) (h : Plain p) : add 0 p = p := by
  obtain ⟨h32, hnan, hnz⟩ := h
  have hs : sign p = 0 ∨ sign p = 1 := by unfold sign; omega
  have hbits : p = sign p * 0x80000000 + expo p * 0x800000 + frac p := by
    unfold sign expo frac; omega
  have hexp : expo p < 256 := by unfold expo; omega
  have hfrac : frac p < 0x800000 := by unfold frac; omega
  have n0 : isNaN 0 = false := by decide
  have i0 : isInf 0 = false := by decide
  have hva : (if sign 0 = 1 then (-1 : Int) else 1) * ((mant 0 * 2 ^ eoff 0 : Nat) : Int) = 0 := by decide
  have s0 : (sign 0 == 1) = false := by decide
  by_cases hinf : isInf p = true
  · unfold add
    simp only [n0, hnan, i0, hinf, Bool.or_self, Bool.false_eq_true, if_false, if_true]
  · have hinf' : isInf p = false := Bool.eq_false_iff.2 hinf
    -- finite
    have hfin : expo p ≠ 255 := by
      intro e
      unfold isInf isNaN at *
      rw [e] at hinf' hnan
      by_cases hf : frac p = 0
      · simp [hf] at hinf'
      · simp [hf] at hnan
    unfold add
    simp only [n0, hnan, i0, hinf', Bool.or_self, Bool.false_eq_true, if_false, hva, Int.zero_add,
      Bool.false_and]
    by_cases hz : mant p = 0
    · -- p = +0 (−0 is excluded)
      have : expo p = 0 ∧ frac p = 0 := by
        unfold mant at hz; split at hz <;> omega
      have hp0 : p = 0 := by
        rcases hs with h | h
        · rw [hbits, h, this.1, this.2]
        · exfalso; apply hnz; rw [hbits, h, this.1, this.2]; rfl
      subst hp0; decide
    · have hMpos : 0 < mant p := Nat.pos_of_ne_zero hz
      have hM24 : mant p < 2 ^ 24 := by unfold mant; split <;> omega
      have hnorm : 2 ^ 23 ≤ mant p ∨ eoff p = 0 := by
        unfold mant eoff; split <;> omega
      have he : eoff p ≤ 253 := by unfold eoff; split <;> omega
      have hr := roundPos_exact (mant p) (eoff p) hMpos hM24 hnorm he
      have hval : eoff p * 0x800000 + mant p = expo p * 0x800000 + frac p := by
        unfold mant eoff; split <;> omega
      have hpos : 0 < mant p * 2 ^ eoff p := Nat.mul_pos hMpos (Nat.two_pow_pos _)
      generalize hX : mant p * 2 ^ eoff p = X at *
      rcases hs with h | h
      · have hvb : (if sign p = 1 then (-1 : Int) else 1) * (X : Int) = (X : Int) := by simp [h]
        have hne : ¬ ((X : Int) = 0) := by omega
        have hnn : ¬ ((X : Int) < 0) := by omega
        have h01 : ¬ (0 % 2 = 1) := by decide
        simp only [hvb, hne, hnn, if_false, Int.natAbs_natCast, hr, withSign, hval, h01]
        rw [h, Nat.zero_mul, Nat.zero_add] at hbits
        exact hbits.symm
      · have hvb : (if sign p = 1 then (-1 : Int) else 1) * (X : Int) = -(X : Int) := by simp [h]
        have hne : ¬ (-(X : Int) = 0) := by omega
        have hneg : (-(X : Int) < 0) := by omega
        have habs : (-(X : Int)).natAbs = X := by omega
        simp only [hvb, hne, hneg, if_true, if_false, habs, hr, withSign, hval]
        unfold signBit; omega


/-- a signed zero -/
def IsZ (x : Nat) : Prop := x = 0 ∨ x = signBit

instance (x : Nat) : Decidable (IsZ x) := by unfold IsZ; exact inferInstance

theorem finite_not_nan_inf (a : Nat) (h : isFinite a = true) : isNaN a = false ∧ isInf a = false := by
  unfold isFinite at h; unfold isNaN isInf
  have : (expo a == 255) = false := by
    cases hb : (expo a == 255) with
    | false => rfl
    | true => rw [bne, hb] at h; cases h
  rw [this]; exact ⟨rfl, rfl⟩

theorem isZ_withSign_zero (s : Nat) : IsZ (withSign s 0) := by
  unfold withSign IsZ; split
  · right; rfl
  · left; rfl

theorem mul_finite_zero (a b : Nat) (ha : isFinite a = true) (hb : IsZ b) : IsZ (mul a b) := by
  obtain ⟨h1, h2⟩ := finite_not_nan_inf a ha
  have hb' : isNaN b = false ∧ isInf b = false ∧ isZero b = true := by
    rcases hb with rfl | rfl <;> decide
  unfold mul
  simp only [h1, h2, hb'.1, hb'.2.1, hb'.2.2, Bool.or_self, Bool.or_true, Bool.false_eq_true, if_false, if_true]
  exact isZ_withSign_zero _

theorem mul_zero_finite (a b : Nat) (ha : IsZ a) (hb : isFinite b = true) : IsZ (mul a b) := by
  obtain ⟨h1, h2⟩ := finite_not_nan_inf b hb
  have ha' : isNaN a = false ∧ isInf a = false ∧ isZero a = true := by
    rcases ha with rfl | rfl <;> decide
  unfold mul
  simp only [h1, h2, ha'.1, ha'.2.1, ha'.2.2, Bool.or_self, Bool.true_or, Bool.false_eq_true, if_false, if_true]
  exact isZ_withSign_zero _

theorem sub_zero_zero (a b : Nat) (ha : IsZ a) (hb : IsZ b) : IsZ (sub a b) := by
  rcases ha with rfl | rfl <;> rcases hb with rfl | rfl <;> decide

theorem add_zero_zero (a b : Nat) (ha : IsZ a) (hb : IsZ b) : IsZ (add a b) := by
  rcases ha with rfl | rfl <;> rcases hb with rfl | rfl <;> decide

theorem add_isZ_pos_zero (a : Nat) (ha : IsZ a) : add a 0 = 0 := by
  rcases ha with rfl | rfl <;> decide

end Autd3.PbCodec.F32

namespace Autd3.PbCodec
open F32

/-- all four components finite -/
def QFinite (q : Quat) : Prop :=
  isFinite q.w = true ∧ isFinite q.i = true ∧ isFinite q.j = true ∧ isFinite q.k = true

instance (q : Quat) : Decidable (QFinite q) := by unfold QFinite; exact inferInstance

/-- no coordinate is a NaN or `-0.0` (and all are 32-bit patterns) -/
def PlainV3 (p : V3) : Prop := Plain p.x ∧ Plain p.y ∧ Plain p.z

instance (p : V3) : Decidable (PlainV3 p) := by unfold PlainV3; exact inferInstance

theorem cross_finite_zero (a b : V3)
    (ha : isFinite a.x = true ∧ isFinite a.y = true ∧ isFinite a.z = true)
    (hb : IsZ b.x ∧ IsZ b.y ∧ IsZ b.z) :
    IsZ (cross a b).x ∧ IsZ (cross a b).y ∧ IsZ (cross a b).z := by
  obtain ⟨ax, ay, az⟩ := ha
  obtain ⟨bx, by', bz⟩ := hb
  unfold cross
  exact ⟨sub_zero_zero _ _ (mul_finite_zero _ _ ay bz) (mul_finite_zero _ _ az by'),
         sub_zero_zero _ _ (mul_finite_zero _ _ az bx) (mul_finite_zero _ _ ax bz),
         sub_zero_zero _ _ (mul_finite_zero _ _ ax by') (mul_finite_zero _ _ ay bx)⟩

/-- a finite rotation maps the origin to `(+0, +0, +0)` -/
theorem rotate_origin (q : Quat) (hq : QFinite q) : rotate q ⟨0, 0, 0⟩ = ⟨0, 0, 0⟩ := by
  obtain ⟨hw, hi, hj, hk⟩ := hq
  have z0 : IsZ 0 := Or.inl rfl
  have h2 : isFinite two = true := by decide
  have hc := cross_finite_zero ⟨q.i, q.j, q.k⟩ ⟨0, 0, 0⟩ ⟨hi, hj, hk⟩ ⟨z0, z0, z0⟩
  have ht : IsZ (mul (cross ⟨q.i, q.j, q.k⟩ ⟨0, 0, 0⟩).x two) ∧ IsZ (mul (cross ⟨q.i, q.j, q.k⟩ ⟨0, 0, 0⟩).y two)
      ∧ IsZ (mul (cross ⟨q.i, q.j, q.k⟩ ⟨0, 0, 0⟩).z two) :=
    ⟨mul_zero_finite _ _ hc.1 h2, mul_zero_finite _ _ hc.2.1 h2, mul_zero_finite _ _ hc.2.2 h2⟩
  have hc2 := cross_finite_zero ⟨q.i, q.j, q.k⟩
    ⟨mul (cross ⟨q.i, q.j, q.k⟩ ⟨0, 0, 0⟩).x two, mul (cross ⟨q.i, q.j, q.k⟩ ⟨0, 0, 0⟩).y two,
     mul (cross ⟨q.i, q.j, q.k⟩ ⟨0, 0, 0⟩).z two⟩ ⟨hi, hj, hk⟩ ht
  unfold rotate
  simp only []
  congr 1
  · exact add_isZ_pos_zero _ (add_zero_zero _ _ (mul_zero_finite _ _ ht.1 hw) hc2.1)
  · exact add_isZ_pos_zero _ (add_zero_zero _ _ (mul_zero_finite _ _ ht.2.1 hw) hc2.2.1)
  · exact add_isZ_pos_zero _ (add_zero_zero _ _ (mul_zero_finite _ _ ht.2.2 hw) hc2.2.2)

/-- the position of transducer 0 of a device built from `(pos, rot)` is `pos`, bit for bit, whenever
the rotation is finite and no coordinate is NaN or `-0.0` -/
theorem firstTransducer_eq (pos : V3) (rot : Quat) (hq : QFinite rot) (hp : PlainV3 pos) :
    firstTransducer pos rot = pos := by
  unfold firstTransducer
  simp only [rotate_origin rot hq]
  rw [add_zero_left _ hp.1, add_zero_left _ hp.2.1, add_zero_left _ hp.2.2]

/-! ### vocabulary of the geometry theorems -/

/-- what one device looks like after geometry → message → geometry -/
def roundTripPose (d : Pose) : Pose :=
  { pos := firstTransducer d.pos (normalize (quatToMsg d.rot)),
    rot := normalize (quatToMsg d.rot),
    soundSpeed := d.soundSpeed }

/-- a pose on which no rounding happens on the way: re-normalising the stored unit quaternion gives
the same four bit patterns (in particular they are finite), and no coordinate of the position is a
NaN or `-0.0` -/
def Stable (d : Pose) : Prop :=
  normalize (quatToMsg d.rot) = d.rot ∧ QFinite d.rot ∧ PlainV3 d.pos

instance (d : Pose) : Decidable (Stable d) := by unfold Stable; exact inferInstance

end Autd3.PbCodec
