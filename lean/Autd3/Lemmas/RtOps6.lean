import Autd3.Lemmas.RtOps2
/-!
Round trip of `EmulateGPIOIn` (the four GPIO-in request bits in the CPU's flag word).
-/
set_option linter.unusedSimpArgs false
namespace Autd3.Rt
open Autd3 Autd3.Fw Autd3.Wire Autd3.Gen.Cpu Autd3.Gen

/-- the flag word `emulate_gpio_in` leaves: bits 8…11 := the four request bits, the rest kept -/
def gpioFlags (f flag : Nat) : Nat :=
  let setBit (f : Nat) (on : Bool) (bit : Nat) : Nat := if on then f ||| bit else f &&& (65535 - bit)
  setBit (setBit (setBit (setBit f (hasFlag flag GPIO_IN_FLAG_0) CTL_FLAG_GPIO_IN_0) (hasFlag flag GPIO_IN_FLAG_1)
    CTL_FLAG_GPIO_IN_1) (hasFlag flag GPIO_IN_FLAG_2) CTL_FLAG_GPIO_IN_2) (hasFlag flag GPIO_IN_FLAG_3) CTL_FLAG_GPIO_IN_3

theorem gpioFlags_bits (f flag : Nat) :
    (gpioFlags f flag % 65536).testBit 8 = hasFlag flag GPIO_IN_FLAG_0 ∧
    (gpioFlags f flag % 65536).testBit 9 = hasFlag flag GPIO_IN_FLAG_1 ∧
    (gpioFlags f flag % 65536).testBit 10 = hasFlag flag GPIO_IN_FLAG_2 ∧
    (gpioFlags f flag % 65536).testBit 11 = hasFlag flag GPIO_IN_FLAG_3 := by
  unfold gpioFlags
  simp only [CTL_FLAG_GPIO_IN_0, CTL_FLAG_GPIO_IN_1, CTL_FLAG_GPIO_IN_2, CTL_FLAG_GPIO_IN_3]
  rw [show 65536 = 2 ^ 16 from rfl]
  simp only [Nat.testBit_mod_two_pow]
  cases hasFlag flag GPIO_IN_FLAG_0 <;> cases hasFlag flag GPIO_IN_FLAG_1 <;> cases hasFlag flag GPIO_IN_FLAG_2 <;>
    cases hasFlag flag GPIO_IN_FLAG_3 <;>
    simp [Nat.testBit_or, Nat.testBit_and,
      (by decide : Nat.testBit 256 8 = true), (by decide : Nat.testBit 256 9 = false), (by decide : Nat.testBit 256 10 = false),
      (by decide : Nat.testBit 256 11 = false), (by decide : Nat.testBit 512 8 = false), (by decide : Nat.testBit 512 9 = true),
      (by decide : Nat.testBit 512 10 = false), (by decide : Nat.testBit 512 11 = false),
      (by decide : Nat.testBit 1024 8 = false), (by decide : Nat.testBit 1024 9 = false), (by decide : Nat.testBit 1024 10 = true),
      (by decide : Nat.testBit 1024 11 = false), (by decide : Nat.testBit 2048 8 = false), (by decide : Nat.testBit 2048 9 = false),
      (by decide : Nat.testBit 2048 10 = false), (by decide : Nat.testBit 2048 11 = true),
      (by decide : Nat.testBit 65279 8 = false), (by decide : Nat.testBit 65279 9 = true), (by decide : Nat.testBit 65279 10 = true),
      (by decide : Nat.testBit 65279 11 = true), (by decide : Nat.testBit 65023 8 = true), (by decide : Nat.testBit 65023 9 = false),
      (by decide : Nat.testBit 65023 10 = true), (by decide : Nat.testBit 65023 11 = true),
      (by decide : Nat.testBit 64511 8 = true), (by decide : Nat.testBit 64511 9 = true), (by decide : Nat.testBit 64511 10 = false),
      (by decide : Nat.testBit 64511 11 = true), (by decide : Nat.testBit 63487 8 = true), (by decide : Nat.testBit 63487 9 = true),
      (by decide : Nat.testBit 63487 10 = true), (by decide : Nat.testBit 63487 11 = false)]

theorem gpioFlags_low (f flag : Nat) (h : f % 256 = 0) : gpioFlags f flag % 256 = 0 := by
  unfold gpioFlags
  simp only [CTL_FLAG_GPIO_IN_0, CTL_FLAG_GPIO_IN_1, CTL_FLAG_GPIO_IN_2, CTL_FLAG_GPIO_IN_3]
  have h' : f % 2 ^ 8 = 0 := h
  cases hasFlag flag GPIO_IN_FLAG_0 <;> cases hasFlag flag GPIO_IN_FLAG_1 <;> cases hasFlag flag GPIO_IN_FLAG_2 <;>
    cases hasFlag flag GPIO_IN_FLAG_3 <;>
    (simp only [Bool.false_eq_true, if_false, if_true]
     show _ % 2 ^ 8 = 0
     simp only [Nat.or_mod_two_pow, Nat.and_mod_two_pow, h']
     decide)


theorem decide_shr (x k : Nat) : decide ((x >>> k) % 2 = 1) = x.testBit k := by
  rw [Nat.shiftRight_eq_div_pow, Nat.testBit_eq_decide_div_mod_eq]

theorem gpioIn_roundtrip' (s : State) (t : Tx) (hWF : WF s) (ht : TxOK t) (hf : Fresh s t) (flags : Nat)
    (hfl : flags < 256) :
    ∃ t' s', Sends (.gpioIn flags) s t t' s' ∧ WF s' ∧ TxOK t' ∧ Fresh s' t' ∧
      Fw.gpioIn s' 0 = hasFlag flags GPIO_IN_FLAG_0 ∧ Fw.gpioIn s' 1 = hasFlag flags GPIO_IN_FLAG_1 ∧
      Fw.gpioIn s' 2 = hasFlag flags GPIO_IN_FLAG_2 ∧ Fw.gpioIn s' 3 = hasFlag flags GPIO_IN_FLAG_3 := by
  have ht' : t.payload.size = 622 := ht
  refine single_glue' _ s t hWF hf _ _ _ rfl rfl rfl (by simpa using ht') _ ?_
  intro r hW
  have h0 := u8at_tagValue_0 t.payload Drv.TAG_EmulateGPIOIn flags (by omega) (by decide)
  have h1 := u8at_tagValue_1 t.payload Drv.TAG_EmulateGPIOIn flags (by omega)
  rw [Nat.mod_eq_of_lt hfl] at h1
  have hc : s.ctl.size = 256 := hW.ctl
  refine ⟨{ s with lastMsgId := nextId t, rxData := r, flagsInternal := gpioFlags s.flagsInternal flags }, ?_, ?_, rfl, ?_⟩
  · unfold handlePayload; rw [h0]
    show emulateGpioIn _ _ = _
    unfold emulateGpioIn gpioFlags
    simp only [FwLayout.GPIOIn_flag_off, h1]
  · exact ⟨hW.ctl, hW.phaseCorr, hW.pwe, hW.modMem0, hW.modMem1, hW.stmMem0, hW.stmMem1, hW.numTr,
      gpioFlags_low _ _ hW.flags, hW.modSwap, hW.stmSwap, hW.modDiv0, hW.modDiv1, hW.stmDiv0, hW.stmDiv1⟩
  · obtain ⟨b0, b1, b2, b3⟩ := gpioFlags_bits s.flagsInternal flags
    unfold Fw.gpioIn
    rw [reg_fin_zero]
    case h => exact hc
    simp only [CTL_FLAG_BIT_GPIO_IN_0]
    refine ⟨?_, ?_, ?_, ?_⟩
    · rw [← b0]; exact decide_shr _ _
    · rw [← b1]; exact decide_shr _ _
    · rw [← b2]; exact decide_shr _ _
    · rw [← b3]; exact decide_shr _ _


end Autd3.Rt
