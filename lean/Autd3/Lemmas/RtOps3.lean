import Autd3.Lemmas.RtOps2
/-!
Round trips, part 3: `Swapchain::set` as an observable (`SwapSet`), accepted segment requests
(`stm_segment_update`, `mod_segment_update`) in closed form.
-/
open Autd3 Autd3.Fw Autd3.Wire Autd3.Gen.Cpu Autd3.Gen
namespace Autd3.Rt

/-- what a successful `Swapchain::set` leaves behind (used as the observable of a segment request) -/
structure SwapSet (w0 w : Swap) (t rep fd cyc seg : Nat) (mode : TMode) : Prop where
  freqDiv : w.freqDiv = setSel w0.freqDiv seg fd
  cycle : w.cycle = setSel w0.cycle seg cyc
  mode : w.mode = mode
  sysTime : w.sysTime = t
  now : w0.cur = seg ∨ rep = 0xFFFF → w.cur = seg ∧ w.state = .infiniteLoop ∧ w.req = w0.req
  later : w0.cur ≠ seg → rep ≠ 0xFFFF → w.cur = w0.cur ∧ w.req = seg ∧ w.state = .waitStart ∧ w.rep = rep

theorem saw_stm_ok (s : State) (hctl : s.ctl.size = 256) (hfi : s.flagsInternal % 256 = 0)
    (hseg : reg s ADDR_STM_REQ_RD_SEGMENT ≤ 1) (mode : TMode)
    (hmode : decodeTMode (reg s ADDR_STM_TRANSITION_MODE) (reg64 s ADDR_STM_TRANSITION_VALUE_0)
      "stm_transition_mode" = .ok mode) (hsw : SwapOK s.stmSwap) :
    ∃ w, setAndWaitUpdate s CTL_FLAG_STM_SET =
        .ok (setStmSwap (wr (wr s ADDR_CTL_FLAG (s.flagsInternal ||| CTL_FLAG_STM_SET)) ADDR_CTL_FLAG s.flagsInternal) w) ∧
      SwapSet s.stmSwap w s.dcSysTime (reg s (ADDR_STM_REP0 + reg s ADDR_STM_REQ_RD_SEGMENT))
        (reg s (ADDR_STM_FREQ_DIV0 + reg s ADDR_STM_REQ_RD_SEGMENT))
        (reg s (ADDR_STM_CYCLE0 + reg s ADDR_STM_REQ_RD_SEGMENT) + 1) (reg s ADDR_STM_REQ_RD_SEGMENT) mode := by
  obtain ⟨w, hw, h1, h2, h3, h4, h5, h6⟩ := swap_set_ok s.stmSwap hsw s.dcSysTime
    (reg s (ADDR_STM_REP0 + reg s ADDR_STM_REQ_RD_SEGMENT))
    (reg s (ADDR_STM_FREQ_DIV0 + reg s ADDR_STM_REQ_RD_SEGMENT))
    (reg s (ADDR_STM_CYCLE0 + reg s ADDR_STM_REQ_RD_SEGMENT) + 1) (reg s ADDR_STM_REQ_RD_SEGMENT) mode
  exact ⟨w, saw_stm s hctl hfi hseg mode hmode w hw, ⟨h1, h2, h3, h4, h5, h6⟩⟩

theorem saw_mod_ok (s : State) (hctl : s.ctl.size = 256) (hfi : s.flagsInternal % 256 = 0)
    (hseg : reg s ADDR_MOD_REQ_RD_SEGMENT ≤ 1) (mode : TMode)
    (hmode : decodeTMode (reg s ADDR_MOD_TRANSITION_MODE) (reg64 s ADDR_MOD_TRANSITION_VALUE_0)
      "modulation_transition_mode" = .ok mode) (hsw : SwapOK s.modSwap) :
    ∃ w, setAndWaitUpdate s CTL_FLAG_MOD_SET =
        .ok (setModSwap (wr (wr s ADDR_CTL_FLAG (s.flagsInternal ||| CTL_FLAG_MOD_SET)) ADDR_CTL_FLAG s.flagsInternal) w) ∧
      SwapSet s.modSwap w s.dcSysTime (reg s (ADDR_MOD_REP0 + reg s ADDR_MOD_REQ_RD_SEGMENT))
        (reg s (ADDR_MOD_FREQ_DIV0 + reg s ADDR_MOD_REQ_RD_SEGMENT))
        (reg s (ADDR_MOD_CYCLE0 + reg s ADDR_MOD_REQ_RD_SEGMENT) + 1) (reg s ADDR_MOD_REQ_RD_SEGMENT) mode := by
  obtain ⟨w, hw, h1, h2, h3, h4, h5, h6⟩ := swap_set_ok s.modSwap hsw s.dcSysTime
    (reg s (ADDR_MOD_REP0 + reg s ADDR_MOD_REQ_RD_SEGMENT))
    (reg s (ADDR_MOD_FREQ_DIV0 + reg s ADDR_MOD_REQ_RD_SEGMENT))
    (reg s (ADDR_MOD_CYCLE0 + reg s ADDR_MOD_REQ_RD_SEGMENT) + 1) (reg s ADDR_MOD_REQ_RD_SEGMENT) mode
  exact ⟨w, saw_mod s hctl hfi hseg mode hmode w hw, ⟨h1, h2, h3, h4, h5, h6⟩⟩

theorem WF_setStmSwap {s : State} (h : WF s) (w : Swap) (hw : SwapOK w) : WF (setStmSwap s w) :=
  ⟨h.ctl, h.phaseCorr, h.pwe, h.modMem0, h.modMem1, h.stmMem0, h.stmMem1, h.numTr, h.flags, h.modSwap, hw,
    h.modDiv0, h.modDiv1, h.stmDiv0, h.stmDiv1⟩
theorem WF_setModSwap {s : State} (h : WF s) (w : Swap) (hw : SwapOK w) : WF (setModSwap s w) :=
  ⟨h.ctl, h.phaseCorr, h.pwe, h.modMem0, h.modMem1, h.stmMem0, h.stmMem1, h.numTr, h.flags, hw, h.stmSwap,
    h.modDiv0, h.modDiv1, h.stmDiv0, h.stmDiv1⟩

theorem ctlWriteWords_main' (s : State) (base : Nat) (words : Array Nat) (h : base + words.size ≤ 256) :
    ctlWriteWords s base words = .ok (setCtl s (wrWords s.ctl base words)) :=
  ctlWriteWords_main s base words h

theorem WF_setCtl_wrWords {s : State} (h : WF s) (base : Nat) (ws : Array Nat)
    (hb : ADDR_STM_FREQ_DIV1 < base ∨ base + ws.size ≤ ADDR_MOD_FREQ_DIV0 ∨
      (ADDR_MOD_FREQ_DIV1 < base ∧ base + ws.size ≤ ADDR_STM_FREQ_DIV0)) :
    WF (setCtl s (wrWords s.ctl base ws)) := WF_wrWords h base ws hb

theorem reg_setCtl_wrWords (s : State) (base : Nat) (ws : Array Nat) (a : Nat) (hctl : s.ctl.size = 256) :
    reg (setCtl s (wrWords s.ctl base ws)) a =
      if base ≤ a ∧ a < base + ws.size ∧ a < 256 then rd ws (a - base) % 65536 else reg s a :=
  reg_wrWords s base ws a hctl

theorem reg64_setCtl_wrWords (s : State) (a v : Nat) (ha : a + 4 ≤ 256) (hctl : s.ctl.size = 256)
    (hv : v < 18446744073709551616) : reg64 (setCtl s (wrWords s.ctl a (u64Words v))) a = v :=
  reg64_wrWords s a v ha hctl hv

theorem ValidTr_lt {mode value : Nat} (h : ValidTr mode value) : mode < 256 := by
  unfold ValidTr at h
  simp only [TRANSITION_MODE_SYNC_IDX, TRANSITION_MODE_SYS_TIME, TRANSITION_MODE_GPIO, TRANSITION_MODE_EXT,
    TRANSITION_MODE_IMMEDIATE] at h
  omega

/-- the state after an accepted `stm_segment_update`: request register, transition mode and value
written, `CTL_FLAG` strobed, swap chain replaced by `w` -/
def stmReqPost (s : State) (seg mode value : Nat) (w : Swap) : State :=
  setStmSwap (wr (wr (setCtl (wr (wr s ADDR_STM_REQ_RD_SEGMENT seg) ADDR_STM_TRANSITION_MODE mode)
      (wrWords (wr (wr s ADDR_STM_REQ_RD_SEGMENT seg) ADDR_STM_TRANSITION_MODE mode).ctl
        ADDR_STM_TRANSITION_VALUE_0 (u64Words value)))
    ADDR_CTL_FLAG (s.flagsInternal ||| CTL_FLAG_STM_SET)) ADDR_CTL_FLAG s.flagsInternal) w

/-- `stm_segment_update` for an accepted request -/
theorem stmSegmentUpdate_ok (s : State) (hW : WF s) (seg mode value : Nat) (hseg : seg ≤ 1)
    (hv : ValidTr mode value) (hval : value < 18446744073709551616)
    (hmiss : ¬(mode = TRANSITION_MODE_SYS_TIME ∧ value < s.dcSysTime + SYS_TIME_TRANSITION_MARGIN)) :
    ∃ w, stmSegmentUpdate s seg mode value = .ok (stmReqPost s seg mode value w, NO_ERR) ∧
      SwapSet s.stmSwap w s.dcSysTime (reg s (ADDR_STM_REP0 + seg)) (reg s (ADDR_STM_FREQ_DIV0 + seg))
        (reg s (ADDR_STM_CYCLE0 + seg) + 1) seg (tmodeOf mode value) ∧ WF (stmReqPost s seg mode value w) ∧
      (∀ a, a ≠ 0 → reg (stmReqPost s seg mode value w) a = if a = 95 then mode else if a = 82 then seg else
        if 96 ≤ a ∧ a < 100 then rd (u64Words value) (a - 96) % 65536 else reg s a) ∧
      reg64 (stmReqPost s seg mode value w) ADDR_STM_TRANSITION_VALUE_0 = value := by
  have hm := ValidTr_lt hv
  have hc : s.ctl.size = 256 := hW.ctl
  have hWB : WF (wr (wr s ADDR_STM_REQ_RD_SEGMENT seg) ADDR_STM_TRANSITION_MODE mode) :=
    WF_wr (WF_wr hW _ _ (Or.inl (by decide))) _ _ (Or.inl (by decide))
  have hB : ∀ a, reg (wr (wr s ADDR_STM_REQ_RD_SEGMENT seg) ADDR_STM_TRANSITION_MODE mode) a =
      if a = 95 then mode else if a = 82 then seg else reg s a := by
    intro a
    simp only [reg_wr, wr_ctl, Array.size_setIfInBounds, hc, ADDR_STM_REQ_RD_SEGMENT, ADDR_STM_TRANSITION_MODE,
      Nat.mod_eq_of_lt (show mode < 65536 by omega), Nat.mod_eq_of_lt (show seg < 65536 by omega)]
    simp
  unfold stmReqPost
  generalize hsB : wr (wr s ADDR_STM_REQ_RD_SEGMENT seg) ADDR_STM_TRANSITION_MODE mode = sB at hWB hB
  have hBf : sB.flagsInternal = s.flagsInternal := by rw [← hsB]; rfl
  have hBs : sB.stmSwap = s.stmSwap := by rw [← hsB]; rfl
  have hBt : sB.dcSysTime = s.dcSysTime := by rw [← hsB]; rfl
  have hWC : WF (setCtl sB (wrWords sB.ctl ADDR_STM_TRANSITION_VALUE_0 (u64Words value))) :=
    WF_setCtl_wrWords hWB _ _ (Or.inl (by decide))
  have hC : ∀ a, reg (setCtl sB (wrWords sB.ctl ADDR_STM_TRANSITION_VALUE_0 (u64Words value))) a =
      if 96 ≤ a ∧ a < 100 then rd (u64Words value) (a - 96) % 65536 else reg sB a := by
    intro a
    rw [reg_setCtl_wrWords _ _ _ _ hWB.ctl]
    have : (u64Words value).size = 4 := rfl
    simp only [ADDR_STM_TRANSITION_VALUE_0, this]
    by_cases h : 96 ≤ a ∧ a < 100
    · rw [if_pos (by omega), if_pos h]
    · rw [if_neg (by omega), if_neg h]
  have h64 := reg64_setCtl_wrWords sB ADDR_STM_TRANSITION_VALUE_0 value (by decide) hWB.ctl hval
  generalize hsC : setCtl sB (wrWords sB.ctl ADDR_STM_TRANSITION_VALUE_0 (u64Words value)) = sC at hWC hC h64
  have hCf : sC.flagsInternal = s.flagsInternal := by rw [← hsC]; exact hBf
  have hCs : sC.stmSwap = s.stmSwap := by rw [← hsC]; exact hBs
  have hCt : sC.dcSysTime = s.dcSysTime := by rw [← hsC]; exact hBt
  have e82 : reg sC ADDR_STM_REQ_RD_SEGMENT = seg := by rw [hC, if_neg (by decide), hB]; rfl
  have e95 : reg sC ADDR_STM_TRANSITION_MODE = mode := by rw [hC, if_neg (by decide), hB]; rfl
  obtain ⟨w, hsaw, hset⟩ := saw_stm_ok sC hWC.ctl hWC.flags (by rw [e82]; exact hseg) (tmodeOf mode value)
    (by rw [h64, e95]; exact decodeTMode_valid _ _ _ hv) hWC.stmSwap
  have er : ∀ base, 83 ≤ base → base + 1 < 95 → reg sC (base + seg) = reg s (base + seg) := by
    intro base h1 h2
    rw [hC, if_neg (by omega), hB, if_neg (by omega), if_neg (by omega)]
  rw [e82, er ADDR_STM_REP0 (by decide) (by decide), er ADDR_STM_FREQ_DIV0 (by decide) (by decide),
    er ADDR_STM_CYCLE0 (by decide) (by decide), hCs, hCt] at hset
  rw [hCf] at hsaw
  have hregs : ∀ a, a ≠ 0 → reg (setStmSwap (wr (wr sC ADDR_CTL_FLAG (s.flagsInternal ||| CTL_FLAG_STM_SET))
      ADDR_CTL_FLAG s.flagsInternal) w) a = reg sC a := by
    intro a ha
    rw [reg_setStmSwap, reg_wr, if_neg (by simp [ADDR_CTL_FLAG]; omega), reg_wr, if_neg (by simp [ADDR_CTL_FLAG]; omega)]
  refine ⟨w, ?_, hset, ?_, ?_, ?_⟩
  · unfold stmSegmentUpdate
    have hmiss' : ¬(mode = TRANSITION_MODE_SYS_TIME ∧
        value < (wr s ADDR_STM_REQ_RD_SEGMENT seg).dcSysTime + SYS_TIME_TRANSITION_MARGIN) := hmiss
    simp only [ctlWrite_main _ ADDR_STM_REQ_RD_SEGMENT _ (by decide), ok_bind, hmiss', if_false,
      ctlWrite_main _ ADDR_STM_TRANSITION_MODE _ (by decide),
      ctlWriteWords_main' _ ADDR_STM_TRANSITION_VALUE_0 (u64Words value) (by show 96 + 4 ≤ 256; decide), hsB, hsC]
    rw [hsaw]; rfl
  · refine WF_setStmSwap (WF_wr (WF_wr hWC _ _ (Or.inl (by decide))) _ _ (Or.inl (by decide))) w ?_
    have hd : 1 ≤ reg s (ADDR_STM_FREQ_DIV0 + seg) := by
      rcases (show seg = 0 ∨ seg = 1 by omega) with h | h <;> subst h
      · exact hW.stmDiv0
      · exact hW.stmDiv1
    exact SwapOK_set _ _ hW.stmSwap seg _ _ hd (by omega) hset.freqDiv hset.cycle
  · intro a ha
    rw [hregs a ha, hC, hB]
    by_cases h1 : a = 95
    · rw [if_pos h1, if_neg (by omega), if_pos h1]
    · by_cases h2 : a = 82
      · rw [if_neg h1, if_pos h2, if_neg (by omega), if_neg h1, if_pos h2]
      · simp only [if_neg h1, if_neg h2]
  · rw [← h64]
    unfold reg64
    rw [hregs _ (by decide), hregs _ (by decide), hregs _ (by decide), hregs _ (by decide)]

/-- the state after an accepted `mod_segment_update`: request register, transition mode and value
written, `CTL_FLAG` strobed, swap chain replaced by `w` -/
def modReqPost (s : State) (seg mode value : Nat) (w : Swap) : State :=
  setModSwap (wr (wr (setCtl (wr (wr s ADDR_MOD_REQ_RD_SEGMENT seg) ADDR_MOD_TRANSITION_MODE mode)
      (wrWords (wr (wr s ADDR_MOD_REQ_RD_SEGMENT seg) ADDR_MOD_TRANSITION_MODE mode).ctl
        ADDR_MOD_TRANSITION_VALUE_0 (u64Words value)))
    ADDR_CTL_FLAG (s.flagsInternal ||| CTL_FLAG_MOD_SET)) ADDR_CTL_FLAG s.flagsInternal) w

/-- `mod_segment_update` for an accepted request -/
theorem modSegmentUpdate_ok (s : State) (hW : WF s) (seg mode value : Nat) (hseg : seg ≤ 1)
    (hv : ValidTr mode value) (hval : value < 18446744073709551616)
    (hmiss : ¬(mode = TRANSITION_MODE_SYS_TIME ∧ value < s.dcSysTime + SYS_TIME_TRANSITION_MARGIN)) :
    ∃ w, modSegmentUpdate s seg mode value = .ok (modReqPost s seg mode value w, NO_ERR) ∧
      SwapSet s.modSwap w s.dcSysTime (reg s (ADDR_MOD_REP0 + seg)) (reg s (ADDR_MOD_FREQ_DIV0 + seg))
        (reg s (ADDR_MOD_CYCLE0 + seg) + 1) seg (tmodeOf mode value) ∧ WF (modReqPost s seg mode value w) ∧
      (∀ a, a ≠ 0 → reg (modReqPost s seg mode value w) a = if a = 41 then mode else if a = 34 then seg else
        if 42 ≤ a ∧ a < 46 then rd (u64Words value) (a - 42) % 65536 else reg s a) ∧
      reg64 (modReqPost s seg mode value w) ADDR_MOD_TRANSITION_VALUE_0 = value := by
  have hm := ValidTr_lt hv
  have hc : s.ctl.size = 256 := hW.ctl
  have hWB : WF (wr (wr s ADDR_MOD_REQ_RD_SEGMENT seg) ADDR_MOD_TRANSITION_MODE mode) :=
    WF_wr (WF_wr hW _ _ (Or.inl (by decide))) _ _ (Or.inl (by decide))
  have hB : ∀ a, reg (wr (wr s ADDR_MOD_REQ_RD_SEGMENT seg) ADDR_MOD_TRANSITION_MODE mode) a =
      if a = 41 then mode else if a = 34 then seg else reg s a := by
    intro a
    simp only [reg_wr, wr_ctl, Array.size_setIfInBounds, hc, ADDR_MOD_REQ_RD_SEGMENT, ADDR_MOD_TRANSITION_MODE,
      Nat.mod_eq_of_lt (show mode < 65536 by omega), Nat.mod_eq_of_lt (show seg < 65536 by omega)]
    simp
  unfold modReqPost
  generalize hsB : wr (wr s ADDR_MOD_REQ_RD_SEGMENT seg) ADDR_MOD_TRANSITION_MODE mode = sB at hWB hB
  have hBf : sB.flagsInternal = s.flagsInternal := by rw [← hsB]; rfl
  have hBs : sB.modSwap = s.modSwap := by rw [← hsB]; rfl
  have hBt : sB.dcSysTime = s.dcSysTime := by rw [← hsB]; rfl
  have hWC : WF (setCtl sB (wrWords sB.ctl ADDR_MOD_TRANSITION_VALUE_0 (u64Words value))) :=
    WF_setCtl_wrWords hWB _ _ (Or.inr (Or.inr ⟨by decide, by show 42 + 4 ≤ 85; decide⟩))
  have hC : ∀ a, reg (setCtl sB (wrWords sB.ctl ADDR_MOD_TRANSITION_VALUE_0 (u64Words value))) a =
      if 42 ≤ a ∧ a < 46 then rd (u64Words value) (a - 42) % 65536 else reg sB a := by
    intro a
    rw [reg_setCtl_wrWords _ _ _ _ hWB.ctl]
    have : (u64Words value).size = 4 := rfl
    simp only [ADDR_MOD_TRANSITION_VALUE_0, this]
    by_cases h : 42 ≤ a ∧ a < 46
    · rw [if_pos (by omega), if_pos h]
    · rw [if_neg (by omega), if_neg h]
  have h64 := reg64_setCtl_wrWords sB ADDR_MOD_TRANSITION_VALUE_0 value (by decide) hWB.ctl hval
  generalize hsC : setCtl sB (wrWords sB.ctl ADDR_MOD_TRANSITION_VALUE_0 (u64Words value)) = sC at hWC hC h64
  have hCf : sC.flagsInternal = s.flagsInternal := by rw [← hsC]; exact hBf
  have hCs : sC.modSwap = s.modSwap := by rw [← hsC]; exact hBs
  have hCt : sC.dcSysTime = s.dcSysTime := by rw [← hsC]; exact hBt
  have e82 : reg sC ADDR_MOD_REQ_RD_SEGMENT = seg := by rw [hC, if_neg (by decide), hB]; rfl
  have e95 : reg sC ADDR_MOD_TRANSITION_MODE = mode := by rw [hC, if_neg (by decide), hB]; rfl
  obtain ⟨w, hsaw, hset⟩ := saw_mod_ok sC hWC.ctl hWC.flags (by rw [e82]; exact hseg) (tmodeOf mode value)
    (by rw [h64, e95]; exact decodeTMode_valid _ _ _ hv) hWC.modSwap
  have er : ∀ base, 35 ≤ base → base + 1 < 41 → reg sC (base + seg) = reg s (base + seg) := by
    intro base h1 h2
    rw [hC, if_neg (by omega), hB, if_neg (by omega), if_neg (by omega)]
  rw [e82, er ADDR_MOD_REP0 (by decide) (by decide), er ADDR_MOD_FREQ_DIV0 (by decide) (by decide),
    er ADDR_MOD_CYCLE0 (by decide) (by decide), hCs, hCt] at hset
  rw [hCf] at hsaw
  have hregs : ∀ a, a ≠ 0 → reg (setModSwap (wr (wr sC ADDR_CTL_FLAG (s.flagsInternal ||| CTL_FLAG_MOD_SET))
      ADDR_CTL_FLAG s.flagsInternal) w) a = reg sC a := by
    intro a ha
    rw [reg_setModSwap, reg_wr, if_neg (by simp [ADDR_CTL_FLAG]; omega), reg_wr, if_neg (by simp [ADDR_CTL_FLAG]; omega)]
  refine ⟨w, ?_, hset, ?_, ?_, ?_⟩
  · unfold modSegmentUpdate
    have hmiss' : ¬(mode = TRANSITION_MODE_SYS_TIME ∧
        value < (wr s ADDR_MOD_REQ_RD_SEGMENT seg).dcSysTime + SYS_TIME_TRANSITION_MARGIN) := hmiss
    simp only [ctlWrite_main _ ADDR_MOD_REQ_RD_SEGMENT _ (by decide), ok_bind, hmiss', if_false,
      ctlWrite_main _ ADDR_MOD_TRANSITION_MODE _ (by decide),
      ctlWriteWords_main' _ ADDR_MOD_TRANSITION_VALUE_0 (u64Words value) (by show 42 + 4 ≤ 256; decide), hsB, hsC]
    rw [hsaw]; rfl
  · refine WF_setModSwap (WF_wr (WF_wr hWC _ _ (Or.inl (by decide))) _ _ (Or.inl (by decide))) w ?_
    have hd : 1 ≤ reg s (ADDR_MOD_FREQ_DIV0 + seg) := by
      rcases (show seg = 0 ∨ seg = 1 by omega) with h | h <;> subst h
      · exact hW.modDiv0
      · exact hW.modDiv1
    exact SwapOK_set _ _ hW.modSwap seg _ _ hd (by omega) hset.freqDiv hset.cycle
  · intro a ha
    rw [hregs a ha, hC, hB]
    by_cases h1 : a = 41
    · rw [if_pos h1, if_neg (by omega), if_pos h1]
    · by_cases h2 : a = 34
      · rw [if_neg h1, if_pos h2, if_neg (by omega), if_neg h1, if_pos h2]
      · simp only [if_neg h1, if_neg h2]
  · rw [← h64]
    unfold reg64
    rw [hregs _ (by decide), hregs _ (by decide), hregs _ (by decide), hregs _ (by decide)]


end Autd3.Rt
