import Autd3.Lemmas.RtState
/-!
Round-trip infrastructure, part 4: the send loop of one device / one operation (`sendLoop`, `Sends`),
the state after an accepted frame (`fin`), and the single-frame lemma `sends_single`.
-/
open Autd3 Autd3.Fw Autd3.Wire Autd3.Gen.Cpu Autd3.Gen
namespace Autd3.Rt

/-- what `Sender::send` does for one device and one operation (no link failures): pack the next
frame, deliver it, stop on a pack error / firmware panic / error acknowledgement, until the
operation reports `done`. -/
def sendLoop : Nat → Op → State → Tx → Option (Tx × State)
  | 0, _, _, _ => none
  | fuel + 1, o, s, t =>
    if o.done then some (t, s) else
    match packOp o s.numTr t with
    | .error _ => none
    | .ok (o', t', _) =>
      match ecatRecv s t'.frame with
      | .error _ => none
      | .ok s' => if s'.ack = t'.msgId then sendLoop fuel o' s' t' else none

/-- datagram `dg` sent from `(s, t)` is accepted frame by frame and ends in `(s', t')` -/
def Sends (dg : Dg) (s : State) (t : Tx) (t' : Tx) (s' : State) : Prop :=
  ∃ fuel, sendLoop fuel (Op.ofDg dg) s t = some (t', s')

/-- the transmit buffer has its 622-byte payload -/
def TxOK (t : Tx) : Prop := t.payload.size = 622
/-- the next frame's message id differs from the last one the device processed -/
def Fresh (s : State) (t : Tx) : Prop := s.lastMsgId ≠ nextId t

/-- the state after a successful frame: handler result, `CTL_FLAG` rewritten, ack = message id -/
def fin (s1 : State) (id : Nat) : State := { wr s1 ADDR_CTL_FLAG s1.flagsInternal with ack := id }

theorem reg_fin (s1 : State) (id a : Nat) (ha : a ≠ 0) : reg (fin s1 id) a = reg s1 a := by
  unfold fin reg; simp only [wr_ctl, rd_set, ADDR_CTL_FLAG]; rw [if_neg (by omega)]

theorem reg_fin_zero (s1 : State) (id : Nat) (h : s1.ctl.size = 256) :
    reg (fin s1 id) ADDR_CTL_FLAG = s1.flagsInternal % 65536 := by
  unfold fin reg; simp only [wr_ctl, rd_set, ADDR_CTL_FLAG, h]; simp

theorem nextId_ne (t : Tx) (h : t.msgId < 128) : nextId t ≠ t.msgId := by
  unfold nextId Drv.MSG_ID_MAX
  by_cases h2 : t.msgId = 127
  · rw [h2]; decide
  · have : (t.msgId + 1) % 256 &&& 127 = t.msgId + 1 := by
      rw [Nat.mod_eq_of_lt (by omega), show 127 = 2 ^ 7 - 1 from rfl, Nat.and_two_pow_sub_one_eq_mod,
        Nat.mod_eq_of_lt (by omega)]
    omega

theorem WF_fin {s1 : State} (h : WF s1) (id : Nat) : WF (fin s1 id) := by
  have hr : ∀ a, a ≠ 0 → reg (fin s1 id) a = reg s1 a := fun a ha => reg_fin s1 id a ha
  refine ⟨?_, h.phaseCorr, h.pwe, h.modMem0, h.modMem1, h.stmMem0, h.stmMem1, h.numTr, h.flags,
    h.modSwap, h.stmSwap, ?_, ?_, ?_, ?_⟩
  · show (s1.ctl.setIfInBounds _ _).size = 256; simpa using h.ctl
  · rw [hr _ (by decide)]; exact h.modDiv0
  · rw [hr _ (by decide)]; exact h.modDiv1
  · rw [hr _ (by decide)]; exact h.stmDiv0
  · rw [hr _ (by decide)]; exact h.stmDiv1

/-- a one-frame datagram: packed in a fresh frame, handled without error ⇒ sent -/
theorem sends_single (dg : Dg) (s : State) (t : Tx) (hf : Fresh s t) (o' : Op) (b : Array Nat) (sz : Nat)
    (hnd : (Op.ofDg dg).done = false)
    (hp : (Op.ofDg dg).pack s.numTr t.payload 0 = .ok (o', b, sz)) (hd : o'.done = true) (s1 : State)
    (hh : handlePayload (pre s (nextId t)) b = .ok (s1, NO_ERR)) :
    Sends dg s t { msgId := nextId t, slot2 := 0, payload := b } (fin s1 (nextId t)) := by
  refine ⟨2, ?_⟩
  have hpk : packOp (Op.ofDg dg) s.numTr t = .ok (o', { msgId := nextId t, slot2 := 0, payload := b }, sz) := by
    unfold packOp; simp only []; rw [hp]; rfl
  have hrecv := ecatRecv_single s { msgId := nextId t, slot2 := 0, payload := b } (nextId_lt t) rfl hf s1 hh
  simp only [sendLoop, hnd, hpk, hrecv, hd]
  simp [fin]

end Autd3.Rt
