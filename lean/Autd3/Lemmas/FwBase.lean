import Autd3.Lemmas.SwapWF
/-!
Basic facts about the firmware model's memory writes (`ctlWrite`, the bulk writes and their `for` loops)
and a proof-friendly form of `set_and_wait_update` (C19 `no_panic`).
-/
set_option linter.unusedSimpArgs false
set_option linter.unusedVariables false
namespace Autd3.Fw
open Autd3.Gen.Cpu
open Autd3.Gen

theorem ctlWrite_main (s : State) (a v : Nat) (h : a < 256) :
    ctlWrite s a v = .ok { s with ctl := s.ctl.setIfInBounds a (v % 65536) } := by
  unfold ctlWrite
  have h1 : a % 16384 = a := Nat.mod_eq_of_lt (by omega)
  simp only [h1]
  rw [if_pos (by omega)]

theorem rd_set (a : Array Nat) (i v j : Nat) :
    rd (a.setIfInBounds i v) j = if j = i ∧ i < a.size then v else rd a j := by
  unfold rd; grind

/-- bits 0 and 1 of a flag word -/
theorem hasFlag_one (x : Nat) : hasFlag x 1 = decide (x % 4 % 2 = 1) := by
  unfold hasFlag
  have : x &&& 1 = x % 2 := Nat.and_one_is_mod x
  rw [this]
  have : x % 4 % 2 = x % 2 := by omega
  rw [this]
  by_cases h : x % 2 = 1 <;> simp [h]

theorem hasFlag_two (x : Nat) : hasFlag x 2 = decide (2 ≤ x % 4) := by
  unfold hasFlag
  have h1 : (x &&& 2) % 4 = (x % 4) &&& 2 := by
    have := Nat.and_mod_two_pow (a := x) (b := 2) (n := 2)
    simpa using this
  have h2 : x &&& 2 < 4 := Nat.lt_of_le_of_lt Nat.and_le_right (by decide)
  have h3 : x &&& 2 = (x % 4) &&& 2 := by rw [← h1]; exact (Nat.mod_eq_of_lt h2).symm
  rw [h3]
  have : x % 4 < 4 := Nat.mod_lt _ (by decide)
  generalize x % 4 = y at this
  have : y = 0 ∨ y = 1 ∨ y = 2 ∨ y = 3 := by omega
  rcases this with rfl | rfl | rfl | rfl <;> decide

theorem or_mod4 (a b : Nat) : (a ||| b) % 4 = (a % 4) ||| (b % 4) := by
  have := Nat.or_mod_two_pow (a := a) (b := b) (n := 2)
  simpa using this

theorem list_forIn'_inv {α β : Type} (P : β → Prop) (l : List α) (init : β)
    (f : (a : α) → a ∈ l → β → Id (ForInStep β))
    (h0 : P init) (hs : ∀ k hk b, P b → P (f k hk b).run.value) : P (forIn' l init f).run := by
  induction l generalizing init with
  | nil => simpa using h0
  | cons a l ih =>
    simp only [List.forIn'_cons, Id.run_bind]
    have := hs a (List.mem_cons_self) init h0
    cases hfa : (f a (List.mem_cons_self) init).run with
    | done b =>
      rw [hfa] at this
      simpa using this
    | yield b =>
      rw [hfa] at this
      exact ih b _ this (fun k hk b hb => hs k (List.mem_cons_of_mem _ hk) b hb)

theorem range_forIn'_inv {β : Type} (P : β → Prop) (r : Std.Legacy.Range) (init : β)
    (f : (a : Nat) → a ∈ r → β → Id (ForInStep β))
    (h0 : P init) (hs : ∀ k hk b, P b → P (f k hk b).run.value) : P (forIn' r init f).run := by
  rw [Std.Legacy.Range.forIn'_eq_forIn'_range']
  exact list_forIn'_inv P _ init _ h0 (fun k hk b hb => hs k _ b hb)

/-- array sizes and the transducer count: what the memory writes need -/
structure Shape (s : State) : Prop where
  ctl : s.ctl.size = 256
  phaseCorr : s.phaseCorr.size = 128
  pwe : s.pwe.size = 256
  modMem0 : s.modMem0.size = 32768
  modMem1 : s.modMem1.size = 32768
  stmMem0 : s.stmMem0.size = 262144
  stmMem1 : s.stmMem1.size = 262144
  numTr : s.numTr ≤ 256

theorem stmWriteWords_ok (s : State) (base : Nat) (words : Array Nat) (hs : Shape s)
    (hseg : reg s ADDR_STM_MEM_WR_SEGMENT ≤ 1)
    (h1 : base % 16384 + words.size ≤ 16384)
    (h2 : reg s ADDR_STM_MEM_WR_PAGE * 16384 + base % 16384 + words.size ≤ 262144) :
    ∃ m0 m1, stmWriteWords s base words = .ok { s with stmMem0 := m0, stmMem1 := m1 } ∧
      m0.size = 262144 ∧ m1.size = 262144 := by
  unfold stmWriteWords
  by_cases h0 : words.size = 0
  · rw [if_pos h0]; exact ⟨s.stmMem0, s.stmMem1, rfl, hs.stmMem0, hs.stmMem1⟩
  rw [if_neg h0]
  simp only []
  rw [if_neg (by omega), if_neg (by omega), if_neg (by omega)]
  split
  · refine ⟨_, s.stmMem1, rfl, ?_, hs.stmMem1⟩
    simp only [bind_pure]
    apply range_forIn'_inv (fun (m : Array Nat) => m.size = 262144)
    · exact hs.stmMem0
    · intro k hk b hb; simp [ForInStep.value, hb]
  · refine ⟨s.stmMem0, _, rfl, hs.stmMem0, ?_⟩
    simp only [bind_pure]
    apply range_forIn'_inv (fun (m : Array Nat) => m.size = 262144)
    · exact hs.stmMem1
    · intro k hk b hb; simp [ForInStep.value, hb]

theorem modWriteWords_ok (s : State) (base : Nat) (words : Array Nat) (hs : Shape s)
    (hseg : reg s ADDR_MOD_MEM_WR_SEGMENT ≤ 1)
    (h1 : base % 16384 + words.size ≤ 16384)
    (h2 : reg s ADDR_MOD_MEM_WR_PAGE * 16384 + base % 16384 + words.size ≤ 32768) :
    ∃ m0 m1, modWriteWords s base words = .ok { s with modMem0 := m0, modMem1 := m1 } ∧
      m0.size = 32768 ∧ m1.size = 32768 := by
  unfold modWriteWords
  by_cases h0 : words.size = 0
  · rw [if_pos h0]; exact ⟨s.modMem0, s.modMem1, rfl, hs.modMem0, hs.modMem1⟩
  rw [if_neg h0]
  simp only []
  rw [if_neg (by omega), if_neg (by omega), if_neg (by omega)]
  split
  · refine ⟨_, s.modMem1, rfl, ?_, hs.modMem1⟩
    simp only [bind_pure]
    apply range_forIn'_inv (fun (m : Array Nat) => m.size = 32768)
    · exact hs.modMem0
    · intro k hk b hb; simp [ForInStep.value, hb]
  · refine ⟨s.modMem0, _, rfl, hs.modMem0, ?_⟩
    simp only [bind_pure]
    apply range_forIn'_inv (fun (m : Array Nat) => m.size = 32768)
    · exact hs.modMem1
    · intro k hk b hb; simp [ForInStep.value, hb]

theorem pweWriteWords_ok (s : State) (base : Nat) (words : Array Nat) (hs : Shape s)
    (h1 : base % 16384 + words.size ≤ 256) :
    ∃ m, pweWriteWords s base words = .ok { s with pwe := m } ∧ m.size = 256 := by
  unfold pweWriteWords
  rw [if_neg (by rw [hs.pwe]; omega)]
  refine ⟨_, rfl, ?_⟩
  simp only [bind_pure]
  apply range_forIn'_inv (fun (m : Array Nat) => m.size = 256)
  · exact hs.pwe
  · intro k hk b hb; simp [ForInStep.value, hb]

theorem list_forIn'_ok {ε α β : Type} (P : β → Prop) (l : List α) (init : β)
    (f : (a : α) → a ∈ l → β → Except ε (ForInStep β))
    (h0 : P init) (hs : ∀ k hk b, P b → ∃ b', f k hk b = .ok (.yield b') ∧ P b') :
    ∃ b', forIn' l init f = .ok b' ∧ P b' := by
  induction l generalizing init with
  | nil => exact ⟨init, rfl, h0⟩
  | cons a l ih =>
    obtain ⟨b1, e1, p1⟩ := hs a (List.mem_cons_self) init h0
    obtain ⟨b2, e2, p2⟩ := ih b1 (fun k hk b => f k (List.mem_cons_of_mem _ hk) b) p1
      (fun k hk b hb => hs k (List.mem_cons_of_mem _ hk) b hb)
    refine ⟨b2, ?_, p2⟩
    simp only [List.forIn'_cons, e1, bind, Except.bind]
    exact e2

theorem range_forIn'_ok {ε β : Type} (P : β → Prop) (r : Std.Legacy.Range) (init : β)
    (f : (a : Nat) → a ∈ r → β → Except ε (ForInStep β))
    (h0 : P init) (hs : ∀ k hk b, P b → ∃ b', f k hk b = .ok (.yield b') ∧ P b') :
    ∃ b', forIn' r init f = .ok b' ∧ P b' := by
  rw [Std.Legacy.Range.forIn'_eq_forIn'_range']
  exact list_forIn'_ok P _ init _ h0 (fun k hk b hb => hs k _ b hb)

/-- `s'` differs from `s` only in the controller BRAM (main registers / phase correction), sizes kept, and
the main registers outside `[lo, hi)` are unchanged -/
structure CtlOnly (lo hi : Nat) (s s' : State) : Prop where
  eq : s' = { s with ctl := s'.ctl, phaseCorr := s'.phaseCorr }
  ctl_size : s'.ctl.size = s.ctl.size
  pc_size : s'.phaseCorr.size = s.phaseCorr.size
  other : ∀ a, (a < lo ∨ hi ≤ a) → rd s'.ctl a = rd s.ctl a

theorem CtlOnly.refl (lo hi : Nat) (s : State) : CtlOnly lo hi s s := ⟨rfl, rfl, rfl, fun _ _ => rfl⟩

theorem ctlWriteWords_main (s : State) (base : Nat) (words : Array Nat) (h : base + words.size ≤ 256) :
    ∃ s', ctlWriteWords s base words = .ok s' ∧ CtlOnly base (base + words.size) s s' ∧
      s'.phaseCorr = s.phaseCorr := by
  unfold ctlWriteWords
  have := range_forIn'_ok (ε := Panic) (fun s' => CtlOnly base (base + words.size) s s' ∧ s'.phaseCorr = s.phaseCorr)
    [0:words.size] s
    (fun i h r => do
      let s ← ctlWrite r (base + i) words[i]
      pure (ForInStep.yield s))
    ⟨CtlOnly.refl _ _ s, rfl⟩
    (by
      intro k hk b ⟨hb, hpc⟩
      have hk' : k < words.size := hk.2.1
      rw [ctlWrite_main _ _ _ (by omega)]
      refine ⟨_, rfl, ⟨?_, by simp [hb.ctl_size], hb.pc_size, ?_⟩, hpc⟩
      · rw [hb.eq]
      · intro a ha
        simp only [rd_set]
        rw [if_neg (by omega)]
        exact hb.other a ha)
  obtain ⟨s', e, p⟩ := this
  refine ⟨s', ?_, p⟩
  simp only [bind, Except.bind, pure, Except.pure] at e ⊢
  rw [e]

theorem ctlWrite_pc (s : State) (i v : Nat) (h : i < 128) (hs : s.phaseCorr.size = 128) :
    ctlWrite s (256 + i) v = .ok { s with phaseCorr := s.phaseCorr.setIfInBounds i (v % 65536) } := by
  unfold ctlWrite
  have h1 : (256 + i) % 16384 = 256 + i := Nat.mod_eq_of_lt (by omega)
  simp only [h1]
  rw [if_neg (by omega), if_pos (by omega)]
  have h2 : (256 + i) % 256 = i := by omega
  rw [h2, if_pos (by omega)]

theorem ctlWriteWords_pc (s : State) (words : Array Nat) (h : words.size ≤ 128) (hs : s.phaseCorr.size = 128) :
    ∃ s', ctlWriteWords s 256 words = .ok s' ∧ CtlOnly 0 0 s s' ∧ s'.ctl = s.ctl := by
  unfold ctlWriteWords
  have := range_forIn'_ok (ε := Panic) (fun s' => CtlOnly 0 0 s s' ∧ s'.ctl = s.ctl)
    [0:words.size] s
    (fun i h r => do
      let s ← ctlWrite r (256 + i) words[i]
      pure (ForInStep.yield s))
    ⟨CtlOnly.refl _ _ s, rfl⟩
    (by
      intro k hk b ⟨hb, hc⟩
      have hk' : k < words.size := hk.2.1
      rw [ctlWrite_pc _ _ _ (by omega) (by rw [hb.pc_size, hs])]
      refine ⟨_, rfl, ⟨?_, hb.ctl_size, by simp [hb.pc_size], hb.other⟩, hc⟩
      rw [hb.eq])
  obtain ⟨s', e, p⟩ := this
  refine ⟨s', ?_, p⟩
  simp only [bind, Except.bind, pure, Except.pure] at e ⊢
  rw [e]

/-! ### `set_and_wait_update` -/

/-- the modulation swap-chain request issued by `FPGAEmulator::set_and_wait_update` -/
def modSetReq (s : State) (t : Nat) : M Swap := do
  let seg ← segReg s ADDR_MOD_REQ_RD_SEGMENT "req_modulation_segment"
  let mode ← decodeTMode (reg s ADDR_MOD_TRANSITION_MODE) (reg64 s ADDR_MOD_TRANSITION_VALUE_0) "modulation_transition_mode"
  s.modSwap.set t (reg s (ADDR_MOD_REP0 + seg)) (reg s (ADDR_MOD_FREQ_DIV0 + seg))
                (reg s (ADDR_MOD_CYCLE0 + seg) + 1) seg mode

def stmSetReq (s : State) (t : Nat) : M Swap := do
  let seg ← segReg s ADDR_STM_REQ_RD_SEGMENT "req_stm_segment"
  let mode ← decodeTMode (reg s ADDR_STM_TRANSITION_MODE) (reg64 s ADDR_STM_TRANSITION_VALUE_0) "stm_transition_mode"
  s.stmSwap.set t (reg s (ADDR_STM_REP0 + seg)) (reg s (ADDR_STM_FREQ_DIV0 + seg))
              (reg s (ADDR_STM_CYCLE0 + seg) + 1) seg mode

theorem fpgaSetAndWaitUpdate_eq (s : State) (t : Nat) :
    fpgaSetAndWaitUpdate s t = (do
      let s1 ← if hasFlag (reg s ADDR_CTL_FLAG) CTL_FLAG_MOD_SET then (do
          let w ← modSetReq s t
          pure { s with modSwap := w }) else pure s
      if hasFlag (reg s ADDR_CTL_FLAG) CTL_FLAG_STM_SET then (do
          let w ← stmSetReq s1 t
          pure { s1 with stmSwap := w }) else pure s1) := by
  unfold fpgaSetAndWaitUpdate modSetReq stmSetReq
  simp only [bind_assoc]

theorem reg_set0 (s : State) (v a : Nat) (ha : a ≠ 0) :
    reg { s with ctl := s.ctl.setIfInBounds 0 v } a = reg s a := by
  unfold reg; simp only [rd_set]; rw [if_neg (by omega)]

theorem reg_set0_self (s : State) (v : Nat) (hs : s.ctl.size = 256) :
    reg { s with ctl := s.ctl.setIfInBounds 0 v } 0 = v := by
  unfold reg; simp only [rd_set]; simp [hs]

theorem modSetReq_set0 (s : State) (v t : Nat) :
    modSetReq { s with ctl := s.ctl.setIfInBounds 0 v } t = modSetReq s t := by
  unfold modSetReq segReg reg64
  simp only [reg_set0 _ _ ADDR_MOD_REQ_RD_SEGMENT (by decide), reg_set0 _ _ ADDR_MOD_TRANSITION_MODE (by decide),
    reg_set0 _ _ ADDR_MOD_TRANSITION_VALUE_0 (by decide), reg_set0 _ _ (ADDR_MOD_TRANSITION_VALUE_0 + 1) (by decide),
    reg_set0 _ _ (ADDR_MOD_TRANSITION_VALUE_0 + 2) (by decide), reg_set0 _ _ (ADDR_MOD_TRANSITION_VALUE_0 + 3) (by decide)]
  congr 1
  funext seg
  congr 1
  funext m
  rw [reg_set0 _ _ _ (by unfold ADDR_MOD_REP0; omega : ADDR_MOD_REP0 + seg ≠ 0),
    reg_set0 _ _ _ (by unfold ADDR_MOD_FREQ_DIV0; omega : ADDR_MOD_FREQ_DIV0 + seg ≠ 0),
    reg_set0 _ _ _ (by unfold ADDR_MOD_CYCLE0; omega : ADDR_MOD_CYCLE0 + seg ≠ 0)]

theorem stmSetReq_set0 (s : State) (v t : Nat) :
    stmSetReq { s with ctl := s.ctl.setIfInBounds 0 v } t = stmSetReq s t := by
  unfold stmSetReq segReg reg64
  simp only [reg_set0 _ _ ADDR_STM_REQ_RD_SEGMENT (by decide), reg_set0 _ _ ADDR_STM_TRANSITION_MODE (by decide),
    reg_set0 _ _ ADDR_STM_TRANSITION_VALUE_0 (by decide), reg_set0 _ _ (ADDR_STM_TRANSITION_VALUE_0 + 1) (by decide),
    reg_set0 _ _ (ADDR_STM_TRANSITION_VALUE_0 + 2) (by decide), reg_set0 _ _ (ADDR_STM_TRANSITION_VALUE_0 + 3) (by decide)]
  congr 1
  funext seg
  congr 1
  funext m
  rw [reg_set0 _ _ _ (by unfold ADDR_STM_REP0; omega : ADDR_STM_REP0 + seg ≠ 0),
    reg_set0 _ _ _ (by unfold ADDR_STM_FREQ_DIV0; omega : ADDR_STM_FREQ_DIV0 + seg ≠ 0),
    reg_set0 _ _ _ (by unfold ADDR_STM_CYCLE0; omega : ADDR_STM_CYCLE0 + seg ≠ 0)]

theorem set0_set0 (a : Array Nat) (x y : Nat) : (a.setIfInBounds 0 x).setIfInBounds 0 y = a.setIfInBounds 0 y := by
  apply Array.ext
  · simp
  · intro i h1 h2; simp

theorem mod4_of_mod65536 (x : Nat) : x % 65536 % 4 = x % 4 := by omega

/-- `set_and_wait_update` with a flag that is neither `MOD_SET` nor `STM_SET` only rewrites `CTL_FLAG` -/
theorem setAndWaitUpdate_plain (s : State) (flag : Nat) (hs : s.ctl.size = 256) (hf : s.flagsInternal % 4 = 0)
    (hflag : flag % 4 = 0) :
    setAndWaitUpdate s flag = .ok { s with ctl := s.ctl.setIfInBounds 0 (s.flagsInternal % 65536) } := by
  unfold setAndWaitUpdate
  simp only [ADDR_CTL_FLAG, ctlWrite_main _ _ _ (by decide : 0 < 256), bind, Except.bind]
  rw [fpgaSetAndWaitUpdate_eq]
  simp only [ADDR_CTL_FLAG, CTL_FLAG_MOD_SET, CTL_FLAG_STM_SET, reg_set0_self _ _ hs, hasFlag_one, hasFlag_two,
    mod4_of_mod65536, or_mod4, hf, hflag]
  simp [bind, Except.bind, pure, Except.pure]

theorem setAndWaitUpdate_mod (s : State) (hs : s.ctl.size = 256) (hf : s.flagsInternal % 4 = 0) :
    setAndWaitUpdate s CTL_FLAG_MOD_SET = (do
      let w ← modSetReq s s.dcSysTime
      pure { s with ctl := s.ctl.setIfInBounds 0 (s.flagsInternal % 65536), modSwap := w }) := by
  unfold setAndWaitUpdate
  simp only [ADDR_CTL_FLAG, ctlWrite_main _ _ _ (by decide : 0 < 256), bind, Except.bind]
  rw [fpgaSetAndWaitUpdate_eq]
  simp only [ADDR_CTL_FLAG, CTL_FLAG_MOD_SET, CTL_FLAG_STM_SET, reg_set0_self _ _ hs, hasFlag_one, hasFlag_two,
    mod4_of_mod65536, or_mod4, hf, modSetReq_set0]
  cases modSetReq s s.dcSysTime with
  | error e => simp [bind, Except.bind]
  | ok w => simp [bind, Except.bind, pure, Except.pure]

theorem setAndWaitUpdate_stm (s : State) (hs : s.ctl.size = 256) (hf : s.flagsInternal % 4 = 0) :
    setAndWaitUpdate s CTL_FLAG_STM_SET = (do
      let w ← stmSetReq s s.dcSysTime
      pure { s with ctl := s.ctl.setIfInBounds 0 (s.flagsInternal % 65536), stmSwap := w }) := by
  unfold setAndWaitUpdate
  simp only [ADDR_CTL_FLAG, ctlWrite_main _ _ _ (by decide : 0 < 256), bind, Except.bind]
  rw [fpgaSetAndWaitUpdate_eq]
  simp only [ADDR_CTL_FLAG, CTL_FLAG_MOD_SET, CTL_FLAG_STM_SET, reg_set0_self _ _ hs, hasFlag_one, hasFlag_two,
    mod4_of_mod65536, or_mod4, hf]
  simp only [Nat.zero_or, Nat.reduceMod, Nat.reduceEqDiff, decide_false, Bool.false_eq_true, if_false,
    Nat.le_refl, decide_true, if_true, bind, Except.bind, pure, Except.pure, stmSetReq_set0]
  cases stmSetReq s s.dcSysTime with
  | error e => simp
  | ok w => simp

end Autd3.Fw
