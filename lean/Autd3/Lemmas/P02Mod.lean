import Autd3.Lemmas.P02Frames
/-!
# `write_mod`: closed form of an accepted BEGIN frame, frame of `mod_segment_update`, single-frame read-back
-/
namespace Autd3.P02
open Autd3 Autd3.Fw Autd3.Gen.Cpu Autd3.Gen

theorem fpga_frame_mod (s s' : State) (t : Nat)
    (h1 : hasFlag (reg s ADDR_CTL_FLAG) CTL_FLAG_MOD_SET = true)
    (h2 : hasFlag (reg s ADDR_CTL_FLAG) CTL_FLAG_STM_SET = false)
    (hr : fpgaSetAndWaitUpdate s t = .ok s') : s' = { s with modSwap := s'.modSwap } := by
  unfold fpgaSetAndWaitUpdate at hr
  simp only [h1, h2, if_true] at hr
  cases hseg : segReg s ADDR_MOD_REQ_RD_SEGMENT "req_modulation_segment" with
  | error e => simp [hseg, bind, Except.bind] at hr
  | ok seg =>
    cases hmode : decodeTMode (reg s ADDR_MOD_TRANSITION_MODE) (reg64 s ADDR_MOD_TRANSITION_VALUE_0) "modulation_transition_mode" with
    | error e => simp [hseg, hmode, bind, Except.bind] at hr
    | ok mode =>
      cases hset : s.modSwap.set t (reg s (ADDR_MOD_REP0 + seg)) (reg s (ADDR_MOD_FREQ_DIV0 + seg))
                (reg s (ADDR_MOD_CYCLE0 + seg) + 1) seg mode with
      | error e => simp [hseg, hmode, hset, bind, Except.bind] at hr
      | ok w =>
        simp [hseg, hmode, hset, bind, Except.bind, pure, Except.pure] at hr
        subst hr
        rfl

theorem saw_frame_mod (s s' : State) (flag : Nat) (hsz : s.ctl.size = 256)
    (h1 : hasFlag ((s.flagsInternal ||| flag) % 65536) CTL_FLAG_MOD_SET = true)
    (h2 : hasFlag ((s.flagsInternal ||| flag) % 65536) CTL_FLAG_STM_SET = false)
    (hr : setAndWaitUpdate s flag = .ok s') :
    s' = { s with ctl := s.ctl.setIfInBounds 0 (s.flagsInternal % 65536), modSwap := s'.modSwap } := by
  rw [setAndWaitUpdate_eq] at hr
  obtain ⟨s2, hf, h3⟩ := bind_eq_ok hr
  have := fpga_frame_mod _ _ _ (by simp [reg, ADDR_CTL_FLAG, rd_set, hsz, h1]) (by simp [reg, ADDR_CTL_FLAG, rd_set, hsz, h2]) hf
  simp only [Except.ok.injEq] at h3
  rw [← h3, this]
  simp

theorem flags_mod_req (f : Nat) (h : FlagsOK f) :
    hasFlag ((f ||| CTL_FLAG_MOD_SET) % 65536) CTL_FLAG_MOD_SET = true ∧
    hasFlag ((f ||| CTL_FLAG_MOD_SET) % 65536) CTL_FLAG_STM_SET = false := by
  obtain ⟨h0, h1⟩ := h
  have e : (65536 : Nat) = 2 ^ 16 := by decide
  simp only [CTL_FLAG_MOD_SET, CTL_FLAG_STM_SET, hasFlag_1, hasFlag_2, e, Nat.testBit_mod_two_pow, Nat.testBit_or, h0, h1]
  constructor <;> decide

theorem flags_stm_req (f : Nat) (h : FlagsOK f) :
    hasFlag ((f ||| CTL_FLAG_STM_SET) % 65536) CTL_FLAG_MOD_SET = false ∧
    hasFlag ((f ||| CTL_FLAG_STM_SET) % 65536) CTL_FLAG_STM_SET = true := by
  obtain ⟨h0, h1⟩ := h
  have e : (65536 : Nat) = 2 ^ 16 := by decide
  simp only [CTL_FLAG_MOD_SET, CTL_FLAG_STM_SET, hasFlag_1, hasFlag_2, e, Nat.testBit_mod_two_pow, Nat.testBit_or, h0, h1]
  constructor <;> decide

theorem size_u64Words (v : Nat) : (u64Words v).size = 4 := rfl

/-- frame of `mod_segment_update`: only CTL_FLAG, MOD_REQ_RD_SEGMENT, the modulation transition
registers and the modulation swap chain can change -/
theorem modSegmentUpdate_frame (s s' : State) (seg mode value a : Nat) (h : WF s)
    (hr : modSegmentUpdate s seg mode value = .ok (s', a)) :
    s' = { s with ctl := s'.ctl, modSwap := s'.modSwap } ∧ s'.ctl.size = 256 ∧
      ∀ j, j ≠ 0 → j ≠ 34 → ¬(41 ≤ j ∧ j ≤ 45) → rd s'.ctl j = rd s.ctl j := by
  unfold modSegmentUpdate at hr
  simp only [ctlWrite_main _ ADDR_MOD_REQ_RD_SEGMENT _ (by decide), ok_bind] at hr
  split at hr
  · simp only [pure, Except.pure, Except.ok.injEq, Prod.mk.injEq] at hr
    obtain ⟨hr, _⟩ := hr
    subst hr
    refine ⟨rfl, by simp [h.ctl], ?_⟩
    intro j h0 h34 _
    simp [rd_set, ADDR_MOD_REQ_RD_SEGMENT, h34]
  · simp only [ctlWrite_main _ ADDR_MOD_TRANSITION_MODE _ (by decide), ok_bind,
      ctlWriteWords_main _ ADDR_MOD_TRANSITION_VALUE_0 (u64Words value) (by rw [size_u64Words]; decide),
      size_u64Words] at hr
    obtain ⟨s4, h4, h5⟩ := bind_eq_ok hr
    simp only [pure, Except.pure, Except.ok.injEq, Prod.mk.injEq] at h5
    obtain ⟨h5, _⟩ := h5
    subst h5
    have hf := flags_mod_req s.flagsInternal h.flags
    have := saw_frame_mod _ _ _ (by simp [h.ctl]) (by exact hf.1) (by exact hf.2) h4
    rw [this]
    refine ⟨rfl, by simp [h.ctl], ?_⟩
    intro j h0 h34 h41
    simp only [rd_set, rd_writeLoop, ADDR_MOD_REQ_RD_SEGMENT, ADDR_MOD_TRANSITION_MODE, ADDR_MOD_TRANSITION_VALUE_0]
    have e1 : ¬ (j = 41) := by omega
    simp [h0, h34, e1]
    omega

/-- segment addressed by a modulation frame -/
def modSegOf (d : Array Nat) : Nat :=
  if u8at d FwLayout.ModulationHead_flag_off &&& MODULATION_FLAG_SEGMENT ≠ 0 then 1 else 0

theorem modSegOf_le (d : Array Nat) : modSegOf d ≤ 1 := by unfold modSegOf; split <;> omega

/-- `write_mod`, END / UPDATE handling -/
def modTail (s : State) (d : Array Nat) : M (State × Nat) := do
  if hasFlag (u8at d FwLayout.ModulationHead_flag_off) MODULATION_FLAG_END then
    let s ← ctlWrite s (ADDR_MOD_CYCLE0 + modSegOf d) ((max s.modCycle 1 - 1) % 65536)
    if hasFlag (u8at d FwLayout.ModulationHead_flag_off) MODULATION_FLAG_UPDATE then
      modSegmentUpdate s (modSegOf d) s.modTrMode s.modTrValue
    else pure (s, NO_ERR)
  else pure (s, NO_ERR)

/-- the words of a BEGIN modulation frame -/
def modBeginWords (d : Array Nat) : Array Nat :=
  wordsAt d FwLayout.ModulationHead_size ((u8at d FwLayout.ModulationHead_size_off + 1) >>> 1)

/-- state after the header and the data copy of an accepted BEGIN modulation frame -/
def modBeginRes (s : State) (d : Array Nat) : State :=
  let seg := modSegOf d
  let ws := modBeginWords d
  { s with modCycle := u8at d FwLayout.ModulationHead_size_off,
           modSegment := if u8at d FwLayout.ModulationHead_transition_mode_off ≠ TRANSITION_MODE_NONE then seg else s.modSegment,
           modRep := setSel s.modRep seg (u16at d FwLayout.ModulationHead_rep_off),
           modDiv := setSel s.modDiv seg (u16at d FwLayout.ModulationHead_freq_div_off),
           modTrMode := u8at d FwLayout.ModulationHead_transition_mode_off,
           modTrValue := u64at d FwLayout.ModulationHead_transition_value_off,
           ctl := (((s.ctl.setIfInBounds (ADDR_MOD_FREQ_DIV0 + seg) (u16at d FwLayout.ModulationHead_freq_div_off % 65536)).setIfInBounds
                      (ADDR_MOD_REP0 + seg) (u16at d FwLayout.ModulationHead_rep_off % 65536)).setIfInBounds
                      ADDR_MOD_MEM_WR_SEGMENT (seg % 65536)).setIfInBounds ADDR_MOD_MEM_WR_PAGE 0,
           modMem0 := if seg = 0 then writeLoop s.modMem0 0 (fun i => rd ws i % 65536) ws.size else s.modMem0,
           modMem1 := if seg = 0 then s.modMem1 else writeLoop s.modMem1 0 (fun i => rd ws i % 65536) ws.size }

theorem writeMod_begin (s : State) (d : Array Nat) (hs : Sized s)
    (hB : hasFlag (u8at d FwLayout.ModulationHead_flag_off) MODULATION_FLAG_BEGIN = true)
    (hv1 : validateTransitionMode s.modSegment (modSegOf d) (u16at d FwLayout.ModulationHead_rep_off)
        (u8at d FwLayout.ModulationHead_transition_mode_off) = false)
    (hv2 : validateSilencerSettings s (sel s.stmDiv s.stmSegment) (u16at d FwLayout.ModulationHead_freq_div_off) = false) :
    writeMod s d = modTail (modBeginRes s d) d := by
  have hv2' : validateSilencerSettings { s with modCycle := 0 } (sel s.stmDiv s.stmSegment)
      (u16at d FwLayout.ModulationHead_freq_div_off) = false := hv2
  have hseg := modSegOf_le d
  unfold writeMod
  simp only [hB, ↓reduceIte]
  have hfold : (if u8at d FwLayout.ModulationHead_flag_off &&& MODULATION_FLAG_SEGMENT ≠ 0 then 1 else 0) = modSegOf d := rfl
  simp only [hfold, hv1, hv2', Bool.false_eq_true, ↓reduceIte]
  unfold modTail modBeginRes modBeginWords
  simp only []
  generalize modSegOf d = seg at *
  have a1 : ADDR_MOD_FREQ_DIV0 + seg < 256 := by simp only [ADDR_MOD_FREQ_DIV0]; omega
  have a2 : ADDR_MOD_REP0 + seg < 256 := by simp only [ADDR_MOD_REP0]; omega
  have hcap : MOD_BUF_PAGE_SIZE - (0 % 65536 &&& MOD_BUF_PAGE_SIZE_MASK) = 32768 := by decide
  have hb0 : (0 % 65536 &&& MOD_BUF_PAGE_SIZE_MASK) >>> 1 = 0 := by decide
  have hlt : u8at d FwLayout.ModulationHead_size_off < 32768 := by unfold u8at; omega
  have hws : (wordsAt d FwLayout.ModulationHead_size ((u8at d FwLayout.ModulationHead_size_off + 1) >>> 1)).size ≤ 128 := by
    rw [size_wordsAt]; unfold u8at; simp only [Nat.shiftRight_eq_div_pow]; omega
  by_cases htm : u8at d FwLayout.ModulationHead_transition_mode_off ≠ TRANSITION_MODE_NONE
  · simp only [if_pos htm, ctlWrite_main _ _ _ a1, ctlWrite_main _ _ _ a2,
      ctlWrite_main _ ADDR_MOD_MEM_WR_SEGMENT _ (by decide), ctlWrite_main _ ADDR_MOD_MEM_WR_PAGE _ (by decide), ok_bind,
      hcap, hb0, hlt, if_true]
    rw [modWriteWords_at _ _ _ seg 0 ?_ ?_ hseg (by omega) (by omega)]
    · simp only [ok_bind, Nat.zero_mul, Nat.zero_mod, Nat.zero_add, Nat.mod_eq_of_lt (show seg < 65536 by omega)]
    · simp [reg, rd_set, hs.ctl, ADDR_MOD_MEM_WR_SEGMENT, ADDR_MOD_MEM_WR_PAGE]; omega
    · simp [reg, rd_set, hs.ctl, ADDR_MOD_MEM_WR_SEGMENT, ADDR_MOD_MEM_WR_PAGE]
  · simp only [if_neg htm, ctlWrite_main _ _ _ a1, ctlWrite_main _ _ _ a2,
      ctlWrite_main _ ADDR_MOD_MEM_WR_SEGMENT _ (by decide), ctlWrite_main _ ADDR_MOD_MEM_WR_PAGE _ (by decide), ok_bind,
      hcap, hb0, hlt, if_true]
    rw [modWriteWords_at _ _ _ seg 0 ?_ ?_ hseg (by omega) (by omega)]
    · simp only [ok_bind, Nat.zero_mul, Nat.zero_mod, Nat.zero_add, Nat.mod_eq_of_lt (show seg < 65536 by omega)]
    · simp [reg, rd_set, hs.ctl, ADDR_MOD_MEM_WR_SEGMENT, ADDR_MOD_MEM_WR_PAGE]; omega
    · simp [reg, rd_set, hs.ctl, ADDR_MOD_MEM_WR_SEGMENT, ADDR_MOD_MEM_WR_PAGE]

theorem writeMod_rej1 (s : State) (d : Array Nat)
    (hB : hasFlag (u8at d FwLayout.ModulationHead_flag_off) MODULATION_FLAG_BEGIN = true)
    (hv1 : validateTransitionMode s.modSegment (modSegOf d) (u16at d FwLayout.ModulationHead_rep_off)
        (u8at d FwLayout.ModulationHead_transition_mode_off) = true) :
    writeMod s d = .ok ({ s with modCycle := 0 }, ERR_INVALID_TRANSITION_MODE) := by
  unfold writeMod
  have hfold : (if u8at d FwLayout.ModulationHead_flag_off &&& MODULATION_FLAG_SEGMENT ≠ 0 then 1 else 0) = modSegOf d := rfl
  simp only [hB, ↓reduceIte, hfold, hv1]
  rfl

theorem writeMod_rej2 (s : State) (d : Array Nat)
    (hB : hasFlag (u8at d FwLayout.ModulationHead_flag_off) MODULATION_FLAG_BEGIN = true)
    (hv1 : validateTransitionMode s.modSegment (modSegOf d) (u16at d FwLayout.ModulationHead_rep_off)
        (u8at d FwLayout.ModulationHead_transition_mode_off) = false)
    (hv2 : validateSilencerSettings s (sel s.stmDiv s.stmSegment) (u16at d FwLayout.ModulationHead_freq_div_off) = true) :
    writeMod s d = .ok ({ s with modCycle := 0 }, ERR_INVALID_SILENCER_SETTING) := by
  have hv2' : validateSilencerSettings { s with modCycle := 0 } (sel s.stmDiv s.stmSegment)
      (u16at d FwLayout.ModulationHead_freq_div_off) = true := hv2
  unfold writeMod
  have hfold : (if u8at d FwLayout.ModulationHead_flag_off &&& MODULATION_FLAG_SEGMENT ≠ 0 then 1 else 0) = modSegOf d := rfl
  simp only [hB, ↓reduceIte, hfold, hv1, hv2', Bool.false_eq_true]
  rfl

theorem wf_modBeginRes (s : State) (d : Array Nat) (h : WF s) : WF (modBeginRes s d) := by
  unfold modBeginRes
  simp only []
  refine { ctl := ?_, phaseCorr := h.phaseCorr, pwe := h.pwe, modMem0 := ?_, modMem1 := ?_, stmMem0 := h.stmMem0,
           stmMem1 := h.stmMem1, numTr := h.numTr, modSwap := h.modSwap, stmSwap := h.stmSwap, flags := h.flags }
  · simp [h.ctl]
  · show (if _ then _ else _ : Array Nat).size = _
    split <;> simp [h.modMem0]
  · show (if _ then _ else _ : Array Nat).size = _
    split <;> simp [h.modMem1]

/-- the state after the END frame wrote the cycle register -/
def modTailState (s : State) (d : Array Nat) : State :=
  { s with ctl := s.ctl.setIfInBounds (ADDR_MOD_CYCLE0 + modSegOf d) ((max s.modCycle 1 - 1) % 65536) }

theorem modTail_eq (s : State) (d : Array Nat) :
    modTail s d =
      if hasFlag (u8at d FwLayout.ModulationHead_flag_off) MODULATION_FLAG_END then
        if hasFlag (u8at d FwLayout.ModulationHead_flag_off) MODULATION_FLAG_UPDATE then
          modSegmentUpdate (modTailState s d) (modSegOf d) s.modTrMode s.modTrValue
        else .ok (modTailState s d, NO_ERR)
      else .ok (s, NO_ERR) := by
  have hseg := modSegOf_le d
  have a1 : ADDR_MOD_CYCLE0 + modSegOf d < 256 := by simp only [ADDR_MOD_CYCLE0]; omega
  unfold modTail modTailState
  simp only [ctlWrite_main _ _ _ a1, ok_bind, Nat.mod_mod]
  rfl

theorem wf_modTailState (s : State) (d : Array Nat) (h : WF s) : WF (modTailState s d) :=
  wf_ctl s _ h (by rw [Array.size_setIfInBounds]; exact h.ctl)

/-- frame of the END/UPDATE part -/
theorem modTail_frame (s s' : State) (d : Array Nat) (a : Nat) (h : WF s) (hr : modTail s d = .ok (s', a)) :
    s' = { s with ctl := s'.ctl, modSwap := s'.modSwap } ∧ s'.ctl.size = 256 ∧
      (∀ j, j ≠ 0 → j ≠ 34 → ¬(41 ≤ j ∧ j ≤ 45) → j ≠ ADDR_MOD_CYCLE0 + modSegOf d → rd s'.ctl j = rd s.ctl j) ∧
      (hasFlag (u8at d FwLayout.ModulationHead_flag_off) MODULATION_FLAG_END = true →
        rd s'.ctl (ADDR_MOD_CYCLE0 + modSegOf d) = (max s.modCycle 1 - 1) % 65536) := by
  have hseg := modSegOf_le d
  have a1 : ADDR_MOD_CYCLE0 + modSegOf d < 256 := by simp only [ADDR_MOD_CYCLE0]; omega
  have hts : ∀ j, j ≠ ADDR_MOD_CYCLE0 + modSegOf d → rd (modTailState s d).ctl j = rd s.ctl j := by
    intro j hj; simp [modTailState, rd_set, hj]
  have htc : rd (modTailState s d).ctl (ADDR_MOD_CYCLE0 + modSegOf d) = (max s.modCycle 1 - 1) % 65536 := by
    simp [modTailState, rd_set, h.ctl, a1]
  rw [modTail_eq] at hr
  by_cases hE : hasFlag (u8at d FwLayout.ModulationHead_flag_off) MODULATION_FLAG_END = true
  · simp only [hE, if_true] at hr
    by_cases hU : hasFlag (u8at d FwLayout.ModulationHead_flag_off) MODULATION_FLAG_UPDATE = true
    · simp only [hU, if_true] at hr
      obtain ⟨e1, e2, e3⟩ := modSegmentUpdate_frame (modTailState s d) s' _ _ _ a (wf_modTailState s d h) hr
      refine ⟨?_, e2, ?_, ?_⟩
      · rw [e1]; rfl
      · intro j h0 h34 h41 hc
        rw [e3 j h0 h34 h41, hts j hc]
      · intro _
        rw [e3 _ (by simp only [ADDR_MOD_CYCLE0]; omega) (by simp only [ADDR_MOD_CYCLE0]; omega) (by simp only [ADDR_MOD_CYCLE0]; omega), htc]
    · simp only [hU, Bool.false_eq_true, if_false, Except.ok.injEq, Prod.mk.injEq] at hr
      obtain ⟨hr, _⟩ := hr
      subst hr
      exact ⟨rfl, (wf_modTailState s d h).ctl, fun j _ _ _ hc => hts j hc, fun _ => htc⟩
  · simp only [hE, Bool.false_eq_true, if_false, Except.ok.injEq, Prod.mk.injEq] at hr
    obtain ⟨hr, _⟩ := hr
    subst hr
    exact ⟨rfl, h.ctl, fun _ _ _ _ _ => rfl, fun hh => absurd hh hE⟩

/-- an accepted BEGIN frame passed both validations -/
theorem writeMod_accept_begin (s s' : State) (d : Array Nat)
    (hB : hasFlag (u8at d FwLayout.ModulationHead_flag_off) MODULATION_FLAG_BEGIN = true)
    (hacc : writeMod s d = .ok (s', NO_ERR)) :
    validateTransitionMode s.modSegment (modSegOf d) (u16at d FwLayout.ModulationHead_rep_off)
        (u8at d FwLayout.ModulationHead_transition_mode_off) = false ∧
    validateSilencerSettings s (sel s.stmDiv s.stmSegment) (u16at d FwLayout.ModulationHead_freq_div_off) = false := by
  cases hv1 : validateTransitionMode s.modSegment (modSegOf d) (u16at d FwLayout.ModulationHead_rep_off)
        (u8at d FwLayout.ModulationHead_transition_mode_off)
  · cases hv2 : validateSilencerSettings s (sel s.stmDiv s.stmSegment) (u16at d FwLayout.ModulationHead_freq_div_off)
    · exact ⟨rfl, rfl⟩
    · rw [writeMod_rej2 s d hB hv1 hv2] at hacc
      simp [ERR_INVALID_SILENCER_SETTING, NO_ERR] at hacc
  · rw [writeMod_rej1 s d hB hv1] at hacc
    simp [ERR_INVALID_TRANSITION_MODE, NO_ERR] at hacc

theorem u16at_lo (d : Array Nat) (k : Nat) : u16at d k % 256 = u8at d k := by unfold u16at u8at; omega
theorem u16at_hi (d : Array Nat) (k : Nat) : u16at d k / 256 % 256 = u8at d (k + 1) := by unfold u16at u8at; omega

/-- **single-frame modulation: what the device holds afterwards is a function of the frame alone** -/
theorem mod_single_frame_obs (s s' : State) (d : Array Nat) (a : Nat) (h : WF s)
    (hB : hasFlag (u8at d FwLayout.ModulationHead_flag_off) MODULATION_FLAG_BEGIN = true)
    (hE : hasFlag (u8at d FwLayout.ModulationHead_flag_off) MODULATION_FLAG_END = true)
    (hn : 1 ≤ u8at d FwLayout.ModulationHead_size_off)
    (hv1 : validateTransitionMode s.modSegment (modSegOf d) (u16at d FwLayout.ModulationHead_rep_off)
        (u8at d FwLayout.ModulationHead_transition_mode_off) = false)
    (hv2 : validateSilencerSettings s (sel s.stmDiv s.stmSegment) (u16at d FwLayout.ModulationHead_freq_div_off) = false)
    (hr : writeMod s d = .ok (s', a)) :
    Obs.modDiv s' (modSegOf d) = u16at d FwLayout.ModulationHead_freq_div_off ∧
    Obs.modRep s' (modSegOf d) = u16at d FwLayout.ModulationHead_rep_off ∧
    Obs.modCycle s' (modSegOf d) = u8at d FwLayout.ModulationHead_size_off ∧
    Obs.modBuffer s' (modSegOf d) = .ok ((Array.range (u8at d FwLayout.ModulationHead_size_off)).map
      fun i => u8at d (FwLayout.ModulationHead_size + i)) := by
  rw [writeMod_begin s d h.toSized hB hv1 hv2] at hr
  have hw := wf_modBeginRes s d h
  obtain ⟨e1, e2, e3, e4⟩ := modTail_frame _ _ _ _ hw hr
  have hseg := modSegOf_le d
  have hn2 : u8at d FwLayout.ModulationHead_size_off < 256 := by unfold u8at; omega
  have hcyc : Obs.modCycle s' (modSegOf d) = u8at d FwLayout.ModulationHead_size_off := by
    unfold Obs.modCycle reg
    rw [e4 hE]
    show (max (u8at d FwLayout.ModulationHead_size_off) 1 - 1) % 65536 + 1 = _
    omega
  have hsc : modSegOf d = 0 ∨ modSegOf d = 1 := by omega
  have hfd := u16at_lt d FwLayout.ModulationHead_freq_div_off
  have hrp := u16at_lt d FwLayout.ModulationHead_rep_off
  refine ⟨?_, ?_, hcyc, ?_⟩
  · unfold Obs.modDiv reg
    rw [e3 _ (by simp only [ADDR_MOD_FREQ_DIV0]; omega) (by simp only [ADDR_MOD_FREQ_DIV0]; omega)
      (by simp only [ADDR_MOD_FREQ_DIV0]; omega) (by simp only [ADDR_MOD_FREQ_DIV0, ADDR_MOD_CYCLE0]; omega)]
    rcases hsc with hs | hs <;>
      simp [modBeginRes, hs, rd_set, h.ctl, ADDR_MOD_FREQ_DIV0, ADDR_MOD_REP0, ADDR_MOD_MEM_WR_SEGMENT, ADDR_MOD_MEM_WR_PAGE,
        Nat.mod_eq_of_lt hfd]
  · unfold Obs.modRep reg
    rw [e3 _ (by simp only [ADDR_MOD_REP0]; omega) (by simp only [ADDR_MOD_REP0]; omega)
      (by simp only [ADDR_MOD_REP0]; omega) (by simp only [ADDR_MOD_REP0, ADDR_MOD_CYCLE0]; omega)]
    rcases hsc with hs | hs <;>
      simp [modBeginRes, hs, rd_set, h.ctl, ADDR_MOD_FREQ_DIV0, ADDR_MOD_REP0, ADDR_MOD_MEM_WR_SEGMENT, ADDR_MOD_MEM_WR_PAGE,
        Nat.mod_eq_of_lt hrp]
  · unfold Obs.modBuffer
    rw [hcyc]
    apply mapM_range_ok
    intro i hi
    have hmem : Obs.modMem s' (modSegOf d) =
        writeLoop (Obs.modMem s (modSegOf d)) 0 (fun i => rd (modBeginWords d) i % 65536) (modBeginWords d).size := by
      rw [e1]
      rcases hsc with hs | hs <;> simp [Obs.modMem, modBeginRes, hs]
    have hmsz : (Obs.modMem s (modSegOf d)).size = 32768 := by
      rcases hsc with hs | hs <;> simp [Obs.modMem, hs, h.modMem0, h.modMem1]
    have hwsz : (modBeginWords d).size = (u8at d FwLayout.ModulationHead_size_off + 1) / 2 := by
      simp [modBeginWords, size_wordsAt, Nat.shiftRight_eq_div_pow]
    unfold Obs.modAt
    simp only [hmem, size_writeLoop, hmsz, rd_writeLoop, hwsz]
    have h1 : i / 2 < 32768 := by omega
    have h2 : i / 2 < (u8at d FwLayout.ModulationHead_size_off + 1) / 2 := by omega
    simp only [h1, if_true, Nat.zero_le, Nat.zero_add, h2, and_self, Nat.sub_zero]
    have hw : rd (modBeginWords d) (i / 2) = u16at d (FwLayout.ModulationHead_size + 2 * (i / 2)) := by
      unfold modBeginWords
      rw [rd_wordsAt]
      simp [Nat.shiftRight_eq_div_pow, h2]
    rw [hw, Nat.mod_eq_of_lt (u16at_lt _ _)]
    congr 1
    by_cases hp : i % 2 = 0
    · simp only [hp, if_true, u16at_lo]
      congr 1; omega
    · simp only [hp, if_false, u16at_hi]
      congr 1; omega

end Autd3.P02
