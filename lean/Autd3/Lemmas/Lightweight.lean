import Autd3.Model.Lightweight
/-!
# Lemmas for C20: well-formedness of SDK values and the per-type round trips

`WF` predicates are the invariants of the Rust types (a `u8` is below 256, a `NonZeroU16` is in `1..65535`, a
`Duration` handed to `as_nanos() as u64` fits 64 bits, a `FociSTM<N, _>` has `N` points per entry, …): every value
the SDK can hold satisfies them, except for the two documented `Duration` bounds (584 years).
-/
namespace Autd3.Lw

instance {α : Type} [DecidableEq α] : DecidableEq (R α)
  | .ok a, .ok b => if h : a = b then isTrue (by rw [h]) else isFalse (by intro e; cases e; exact h rfl)
  | .error a, .error b => if h : a = b then isTrue (by rw [h]) else isFalse (by intro e; cases e; exact h rfl)
  | .ok _, .error _ => isFalse (by intro e; cases e)
  | .error _, .ok _ => isFalse (by intro e; cases e)

@[simp] theorem ok_bind {α β : Type} (a : α) (f : α → R β) : ((Except.ok a : R α) >>= f) = f a := rfl
@[simp] theorem err_bind {α β : Type} (e : Err) (f : α → R β) : ((Except.error e : R α) >>= f) = .error e := rfl
@[simp] theorem pure_eq {α : Type} (a : α) : (pure a : R α) = .ok a := rfl
@[simp] theorem map_ok {α β : Type} (a : α) (f : α → β) : (f <$> (Except.ok a : R α)) = .ok (f a) := rfl
@[simp] theorem map_err {α β : Type} (e : Err) (f : α → β) : (f <$> (Except.error e : R α)) = .error e := rfl
@[simp] theorem throw_eq {α : Type} (e : Err) : (throw e : R α) = .error e := rfl

theorem bind_eq_ok {α β : Type} {x : R α} {f : α → R β} {b : β} :
    (x >>= f) = .ok b ↔ ∃ a, x = .ok a ∧ f a = .ok b := by
  cases x <;> simp

/-- `mapR` undoes `map` element-wise -/
theorem mapR_map_ok {α β : Type} (g : α → β) (f : β → R α) :
    ∀ l : List α, (∀ a ∈ l, f (g a) = .ok a) → mapR f (l.map g) = .ok l
  | [], _ => rfl
  | a :: l, h => by
    have h1 := h a (by simp)
    have h2 := mapR_map_ok g f l (fun b hb => h b (by simp [hb]))
    simp [mapR, h1, h2]

theorem mapR_length {α β : Type} (f : α → R β) : ∀ (l : List α) (r : List β), mapR f l = .ok r → r.length = l.length
  | [], r, h => by simp [mapR] at h; subst h; rfl
  | a :: l, r, h => by
    simp only [mapR, bind_eq_ok] at h
    obtain ⟨b, _, bs, hbs, hr⟩ := h
    simp at hr; subst hr
    simp [mapR_length f l bs hbs]

theorem mapR_ne_panic {α β : Type} (f : α → R β) (hf : ∀ a, f a ≠ .error .panic) :
    ∀ l : List α, mapR f l ≠ .error .panic
  | [] => by simp [mapR]
  | a :: l => by
    have ih := mapR_ne_panic f hf l
    have ha := hf a
    simp only [mapR]
    cases hfa : f a with
    | error e => simp; intro h; exact ha (by rw [hfa, h])
    | ok b =>
      cases hl : mapR f l with
      | error e => simp; intro h; exact ih (by rw [hl, h])
      | ok bs => simp

/-! ## WF -/

def IPOpt.WF (o : IPOpt) : Prop := o.intensity < 256 ∧ o.phaseOffset < 256

def Constraint.WF : Constraint → Prop
  | .uniform v => v < 256
  | .clamp a b => a < 256 ∧ b < 256
  | _ => True

/-- `Division` is a `NonZeroU16`; a period handed to `as_nanos() as u64` must fit (584 years) -/
def SamplingCfg.WF : SamplingCfg → Prop
  | .division d => 0 < d ∧ d < 65536
  | .period ns => ns < 2^64
  | .periodNearest ns => ns < 2^64
  | _ => True

def Transition.WF : Transition → Prop
  | .gpio g => g < 4
  | _ => True

def Loop.WF : Loop → Prop
  | .finite r => 0 < r ∧ r < 65536
  | .infinite => True

/-- `repeat`/`k_max` are `NonZeroUsize` (64-bit target), `phase_div` a `NonZeroU8` -/
def Gain.WF : Gain → Prop
  | .focus _ o => o.WF
  | .bessel _ _ _ o => o.WF
  | .plane _ o => o.WF
  | .uniform i p => i < 256 ∧ p < 256
  | .null => True
  | .naive _ c => c.WF
  | .gs _ c r => c.WF ∧ 0 < r ∧ r < 2^64
  | .gspat _ c r => c.WF ∧ 0 < r ∧ r < 2^64
  | .lm _ c _ _ _ k _ => c.WF ∧ 0 < k ∧ k < 2^64
  | .greedy _ c pd => c.WF ∧ 0 < pd ∧ pd < 256

def SineOpt.WF (o : SineOpt) : Prop := o.intensity < 256 ∧ o.offset < 256 ∧ o.cfg.WF
def SquareOpt.WF (o : SquareOpt) : Prop := o.low < 256 ∧ o.high < 256 ∧ o.cfg.WF

def Modulation.WF : Modulation → Prop
  | .static i => i < 256
  | .sineExact _ o => o.WF
  | .sineExactFloat _ o => o.WF
  | .sineNearest _ o => o.WF
  | .squareExact _ o => o.WF
  | .squareExactFloat _ o => o.WF
  | .squareNearest _ o => o.WF

def Silencer.WF : Silencer → Prop
  | .rate i p => 0 < i ∧ i < 65536 ∧ 0 < p ∧ p < 65536
  | .steps i p _ => 0 < i ∧ i < 65536 ∧ 0 < p ∧ p < 65536
  | .time _ _ _ => True

def Swap.WF (s : Swap) : Prop := s.segment < 2 ∧ s.transition.WF

def ControlPoint.WF (c : ControlPoint) : Prop := c.offset < 256
def ControlPoints.WF (n : Nat) (c : ControlPoints) : Prop :=
  c.points.length = n ∧ (∀ p ∈ c.points, p.WF) ∧ c.intensity < 256
/-- `N` is 1..8 by the `FociSTM` impls; an empty STM is not carried (the server refuses an empty `foci` list) -/
def FociStm.WF (f : FociStm) : Prop :=
  1 ≤ f.n ∧ f.n ≤ 8 ∧ f.foci ≠ [] ∧ (∀ c ∈ f.foci, c.WF f.n) ∧ f.cfg.WF
def GainStm.WF (s : GainStm) : Prop := (∀ g ∈ s.gains, g.WF) ∧ s.cfg.WF ∧ s.mode < 3

def SegInner.WF : SegInner → Prop
  | .gain g => g.WF
  | .modulation m => m.WF
  | .foci f => f.WF
  | .gainStm s => s.WF
def LoopInner.WF : LoopInner → Prop
  | .modulation m => m.WF
  | .foci f => f.WF
  | .gainStm s => s.WF

def optTrWF : Option Transition → Prop
  | none => True
  | some t => t.WF

/-- `numDev`: the flag vector of `ForceFan`/`ReadsFPGAState` is the closure tabulated over the geometry -/
def Dg.WF (numDev : Nat) : Dg → Prop
  | .forceFan v => v.length = numDev
  | .readsFpga v => v.length = numDev
  | .silencer s => s.WF
  | .swap s => s.WF
  | .modulation m => m.WF
  | .gain g => g.WF
  | .foci f => f.WF
  | .gainStm s => s.WF
  | .withSegment i seg tr => i.WF ∧ seg < 2 ∧ optTrWF tr
  | .withLoop i lb seg tr => i.WF ∧ lb.WF ∧ seg < 2 ∧ optTrWF tr
  | _ => True

def Tuple.WF (numDev : Nat) : Tuple → Prop
  | .one d => d.WF numDev
  | .two a b => a.WF numDev ∧ b.WF numDev

/-- `timer_resolution` is an `Option<NonZeroU32>`; intervals/timeouts handed to `as_nanos() as u64` fit -/
def Sleeper.WF : Sleeper → Prop
  | .std r => ∀ v, r = some v → v ≠ 0
  | .spin _ s => s < 2
  | .async r => ∀ v, r = some v → v ≠ 0
def SenderOpt.WF (o : SenderOpt) : Prop :=
  o.sendIntervalNs < 2^64 ∧ o.receiveIntervalNs < 2^64 ∧ (∀ t, o.timeoutNs = some t → t < 2^64) ∧ o.parallel < 3 ∧ o.sleeper.WF

/-! ## Round trips, type by type -/

theorem u8TryFrom_lt {v : Nat} (h : v < 256) : u8TryFrom v = .ok v := by simp [u8TryFrom, h]
theorem u16TryFrom_lt {v : Nat} (h : v < 65536) : u16TryFrom v = .ok v := by simp [u16TryFrom, h]
theorem nonZero_pos {e : Err} {v : Nat} (h : 0 < v) : nonZero e v = .ok v := by
  have : v ≠ 0 := by omega
  simp [nonZero, this]

theorem IPOpt.roundtrip (dflt o : IPOpt) (h : o.WF) : IPOpt.fromMsg dflt o.toMsg = .ok o := by
  obtain ⟨h1, h2⟩ := h
  simp [IPOpt.fromMsg, IPOpt.toMsg, optOr, u8TryFrom, h1, h2]

theorem SamplingCfg.roundtrip (c : SamplingCfg) (h : c.WF) : SamplingCfg.fromMsg c.toMsg = .ok c := by
  cases c <;> simp_all [SamplingCfg.WF, SamplingCfg.fromMsg, SamplingCfg.toMsg, okOr, u16TryFrom_lt, nonZero_pos, Nat.mod_eq_of_lt]

theorem Transition.roundtrip (t : Transition) (h : t.WF) : Transition.fromMsg t.toMsg = .ok t := by
  cases t <;> simp_all [Transition.WF, Transition.fromMsg, Transition.toMsg, okOr, gpioFromMsg]
  rename_i g
  have : g = 0 ∨ g = 1 ∨ g = 2 ∨ g = 3 := by omega
  rcases this with rfl | rfl | rfl | rfl <;> simp

theorem Loop.roundtrip (l : Loop) (h : l.WF) : Loop.fromMsg l.toMsg = .ok l := by
  cases l <;> simp_all [Loop.WF, Loop.fromMsg, Loop.toMsg, okOr, u16TryFrom_lt, nonZero_pos]

theorem Constraint.roundtrip (c : Constraint) (h : c.WF) : Constraint.fromMsg c.toMsg = .ok c := by
  cases c <;> simp_all [Constraint.WF, Constraint.fromMsg, Constraint.toMsg, okOr, u8TryFrom]

theorem holo_roundtrip (l : List (P3 × Nat)) : mapR holoFromMsg (l.map holoToMsg) = .ok l :=
  mapR_map_ok _ _ l (by intro a _; simp [holoFromMsg, holoToMsg, okOr])

theorem Gain.roundtrip (D : Defaults) (g : Gain) (h : g.WF) : Gain.fromMsg D g.toMsg = .ok g := by
  cases g with
  | greedy f c pd =>
    obtain ⟨hc, h0, h1⟩ := h
    have e : pd % 4294967296 = pd := by omega
    simp [Gain.fromMsg, Gain.toMsg, MGainV.fromMsg, okOr, holo_roundtrip, optOr, Constraint.roundtrip _ hc, e,
      u8TryFrom_lt h1, nonZero_pos h0]
  | _ =>
    simp_all [Gain.WF, Gain.fromMsg, Gain.toMsg, MGainV.fromMsg, okOr, IPOpt.roundtrip, u8TryFrom_lt, holo_roundtrip,
      optOr, Constraint.roundtrip, gsRepeatFromMsg, nonZero_pos, Nat.mod_eq_of_lt]

theorem SineOpt.roundtrip (d o : SineOpt) (h : o.WF) : SineOpt.fromMsg d o.toMsg = .ok o := by
  obtain ⟨h1, h2, h3⟩ := h
  simp [SineOpt.fromMsg, SineOpt.toMsg, optOr, u8TryFrom_lt, h1, h2, SamplingCfg.roundtrip _ h3]
theorem SquareOpt.roundtrip (d o : SquareOpt) (h : o.WF) : SquareOpt.fromMsg d o.toMsg = .ok o := by
  obtain ⟨h1, h2, h3⟩ := h
  simp [SquareOpt.fromMsg, SquareOpt.toMsg, optOr, u8TryFrom_lt, h1, h2, SamplingCfg.roundtrip _ h3]

theorem Modulation.roundtrip (D : Defaults) (m : Modulation) (h : m.WF) : Modulation.fromMsg D m.toMsg = .ok m := by
  cases m <;>
    simp_all [Modulation.WF, Modulation.fromMsg, Modulation.toMsg, MModulationV.fromMsg, okOr, optOr, u8TryFrom_lt,
      SineOpt.roundtrip, SquareOpt.roundtrip]

theorem Silencer.roundtrip (D : Defaults) (s : Silencer) (h : s.WF) (m : MSilencer) (hm : s.toMsg = .ok m) :
    Silencer.fromMsg D m = .ok s := by
  cases s with
  | rate i p =>
    obtain ⟨h1, h2, h3, h4⟩ := h
    simp [Silencer.toMsg] at hm; subst hm
    simp [Silencer.fromMsg, okOr, u16TryFrom_lt, nonZero_pos, *]
  | steps i p st =>
    obtain ⟨h1, h2, h3, h4⟩ := h
    simp [Silencer.toMsg] at hm; subst hm
    simp [Silencer.fromMsg, okOr, optOr, u16TryFrom_lt, nonZero_pos, *]
  | time i p st =>
    simp only [Silencer.toMsg] at hm
    split at hm
    · rename_i hr
      simp at hm; subst hm
      simp only [timeRepresentable, Bool.and_eq_true, decide_eq_true_eq] at hr
      obtain ⟨⟨hi, hi2⟩, ⟨hp, hp2⟩⟩ := hr
      clear hi2 hp2
      have e1 : i / 1000 * 1000 = i := Nat.div_mul_cancel (Nat.dvd_of_mod_eq_zero hi)
      have e2 : p / 1000 * 1000 = p := Nat.div_mul_cancel (Nat.dvd_of_mod_eq_zero hp)
      simp [Silencer.fromMsg, okOr, e1, e2]
    · simp at hm

theorem Swap.roundtrip (s : Swap) (h : s.WF) : Swap.fromMsg s.toMsg = .ok s := by
  obtain ⟨h1, h2⟩ := h
  have : s.segment = 0 ∨ s.segment = 1 := by omega
  cases s with
  | mk k seg tr =>
    simp at this h2
    rcases this with rfl | rfl <;>
      simp [Swap.fromMsg, Swap.toMsg, okOr, segmentFromMsg, segmentToMsg, Transition.roundtrip _ h2]


theorem ControlPoint.roundtrip (D : Defaults) (c : ControlPoint) (h : c.WF) : ControlPoint.fromMsg D c.toMsg = .ok c := by
  simp [ControlPoint.fromMsg, ControlPoint.toMsg, okOr, optOr, u8TryFrom_lt h]

theorem ControlPoints.roundtrip (D : Defaults) (n : Nat) (c : ControlPoints) (h : c.WF n) :
    ControlPoints.fromMsg D n c.toMsg = .ok c := by
  obtain ⟨h1, h2, h3⟩ := h
  have := mapR_map_ok ControlPoint.toMsg (ControlPoint.fromMsg D) c.points (fun p hp => ControlPoint.roundtrip D p (h2 p hp))
  simp [ControlPoints.fromMsg, ControlPoints.toMsg, this, h1, optOr, u8TryFrom_lt h3]

theorem FociStm.roundtripN (D : Defaults) (f : FociStm) (h : f.WF) : FociStm.fromMsgN D f.n f.toMsg = .ok f := by
  obtain ⟨_, _, _, h4, h5⟩ := h
  have := mapR_map_ok ControlPoints.toMsg (ControlPoints.fromMsg D f.n) f.foci (fun c hc => ControlPoints.roundtrip D f.n c (h4 c hc))
  simp [FociStm.fromMsgN, FociStm.toMsg, this, okOr, SamplingCfg.roundtrip _ h5]

theorem FociStm.roundtrip (D : Defaults) (f : FociStm) (h : f.WF) : FociStm.fromMsg D f.toMsg = .ok f := by
  have hN := FociStm.roundtripN D f h
  obtain ⟨h1, h2, h3, h4, _⟩ := h
  cases hf : f.foci with
  | nil => exact absurd hf h3
  | cons c cs =>
    have hc : c.points.length = f.n := (h4 c (by simp [hf])).1
    have : (FociStm.toMsg f).foci = c.toMsg :: cs.map ControlPoints.toMsg := by simp [FociStm.toMsg, hf]
    simp only [FociStm.fromMsg, this]
    simp [ControlPoints.toMsg, hc, h1, h2, hN]

theorem GainStm.roundtrip (D : Defaults) (s : GainStm) (h : s.WF) : GainStm.fromMsg D s.toMsg = .ok s := by
  obtain ⟨h1, h2, h3⟩ := h
  have := mapR_map_ok Gain.toMsg (Gain.fromMsg D) s.gains (fun g hg => Gain.roundtrip D g (h1 g hg))
  have hm : s.mode = 0 ∨ s.mode = 1 ∨ s.mode = 2 := by omega
  cases s with
  | mk gains cfg mode =>
    simp at this hm h2
    rcases hm with rfl | rfl | rfl <;>
      simp [GainStm.fromMsg, GainStm.toMsg, this, okOr, optOr, SamplingCfg.roundtrip _ h2, gainStmModeFromMsg]

theorem seg_roundtrip (s : Nat) (h : s < 2) : segmentFromMsg (segmentToMsg s) = .ok s := by
  have : s = 0 ∨ s = 1 := by omega
  rcases this with rfl | rfl <;> simp [segmentFromMsg, segmentToMsg]

theorem optTr_roundtrip (t : Option Transition) (h : optTrWF t) : optTransitionFromMsg (t.map Transition.toMsg) = .ok t := by
  cases t with
  | none => rfl
  | some t => simp [optTransitionFromMsg, Transition.roundtrip t h]

theorem SegInner.roundtrip (D : Defaults) (i : SegInner) (h : i.WF) : i.toMsg.fromMsg D = .ok i := by
  cases i <;> simp_all [SegInner.WF, SegInner.toMsg, MSegInner.fromMsg, Gain.roundtrip, Modulation.roundtrip,
    FociStm.roundtrip, GainStm.roundtrip]
theorem LoopInner.roundtrip (D : Defaults) (i : LoopInner) (h : i.WF) : i.toMsg.fromMsg D = .ok i := by
  cases i <;> simp_all [LoopInner.WF, LoopInner.toMsg, MLoopInner.fromMsg, Modulation.roundtrip,
    FociStm.roundtrip, GainStm.roundtrip]

theorem Dg.roundtrip (D : Defaults) (n : Nat) (d : Dg) (h : d.WF n) (m : MDatagram) (hm : d.toMsg = .ok m) :
    Dg.fromMsg D n m = .ok d := by
  cases d with
  | silencer s =>
    simp only [Dg.toMsg, bind_eq_ok] at hm
    obtain ⟨ms, hs, hm⟩ := hm
    simp at hm; subst hm
    simp [Dg.fromMsg, okOr, intoBoxedDatagram, Silencer.roundtrip D s h ms hs]
  | withSegment i seg tr =>
    obtain ⟨h1, h2, h3⟩ := h
    simp [Dg.toMsg] at hm; subst hm
    simp [Dg.fromMsg, okOr, intoBoxedDatagram, seg_roundtrip _ h2, optTr_roundtrip _ h3, SegInner.roundtrip D i h1]
  | withLoop i lb seg tr =>
    obtain ⟨h1, h2, h3, h4⟩ := h
    simp [Dg.toMsg] at hm; subst hm
    simp [Dg.fromMsg, okOr, intoBoxedDatagram, seg_roundtrip _ h3, optTr_roundtrip _ h4, LoopInner.roundtrip D i h1,
      Loop.roundtrip lb h2]
  | _ =>
    simp [Dg.toMsg] at hm; subst hm
    simp_all [Dg.WF, Dg.fromMsg, okOr, intoBoxedDatagram, Swap.roundtrip, Modulation.roundtrip, Gain.roundtrip,
      FociStm.roundtrip, GainStm.roundtrip]

theorem Tuple.roundtrip (D : Defaults) (n : Nat) (t : Tuple) (h : t.WF n) (m : MTuple) (hm : t.toMsg = .ok m) :
    Tuple.fromMsg D n m = .ok t := by
  cases t with
  | one d =>
    simp only [Tuple.toMsg, bind_eq_ok] at hm
    obtain ⟨md, hd, hm⟩ := hm
    simp at hm; subst hm
    simp [Tuple.fromMsg, okOr, Dg.roundtrip D n d h md hd]
  | two a b =>
    simp only [Tuple.toMsg, bind_eq_ok] at hm
    obtain ⟨ma, ha, mb, hb, hm⟩ := hm
    simp at hm; subst hm
    simp [Tuple.fromMsg, okOr, Dg.roundtrip D n a h.1 ma ha, Dg.roundtrip D n b h.2 mb hb]

theorem timerRes_roundtrip (r : Option Nat) (h : ∀ v, r = some v → v ≠ 0) : timerResFromMsg r = r := by
  cases r with
  | none => rfl
  | some v =>
    cases v with
    | zero => exact absurd rfl (h 0 rfl)
    | succ k => rfl

theorem SenderOpt.roundtrip (o : SenderOpt) (h : o.WF) : SenderOpt.fromMsg o.toMsg = .ok o := by
  obtain ⟨h1, h2, h3, h4, h5⟩ := h
  cases o with
  | mk s r t p sl =>
    simp at h1 h2 h3 h4 h5
    have hp : p = 0 ∨ p = 1 ∨ p = 2 := by omega
    have ht : t.map (· % 2^64) = t := by
      cases t with
      | none => rfl
      | some v => simp [Nat.mod_eq_of_lt (h3 v rfl)]
    have hsl : Sleeper.fromMsg sl.toMsg = .ok sl := by
      cases sl with
      | std r => simp [Sleeper.toMsg, Sleeper.fromMsg, timerRes_roundtrip r h5]
      | async r => simp [Sleeper.toMsg, Sleeper.fromMsg, timerRes_roundtrip r h5]
      | spin a st =>
        have : st = 0 ∨ st = 1 := by simp [Sleeper.WF] at h5; omega
        rcases this with rfl | rfl <;> simp [Sleeper.toMsg, Sleeper.fromMsg]
    rcases hp with rfl | rfl | rfl <;>
      simp [SenderOpt.fromMsg, SenderOpt.toMsg, okOr, hsl, Nat.mod_eq_of_lt h1, Nat.mod_eq_of_lt h2, ht]


/-! ## No conversion aborts -/

/-- the computation does not abort -/
structure NoPanic {α : Type} (x : R α) : Prop where
  ne : x ≠ .error .panic

theorem NoPanic.ok {α : Type} (a : α) : NoPanic (.ok a : R α) := ⟨by simp⟩
theorem NoPanic.pure {α : Type} (a : α) : NoPanic (Pure.pure a : R α) := ⟨by simp⟩
theorem NoPanic.err {α : Type} {e : Err} (h : e ≠ .panic) : NoPanic (.error e : R α) := ⟨by simp [h]⟩
theorem NoPanic.throw {α : Type} {e : Err} (h : e ≠ .panic) : NoPanic (throw e : R α) := ⟨by simp [h]⟩
theorem NoPanic.bind {α β : Type} {x : R α} {f : α → R β} (hx : NoPanic x) (hf : ∀ a, NoPanic (f a)) : NoPanic (x >>= f) := by
  cases x with
  | error e => exact ⟨by simpa using hx.ne⟩
  | ok a => simpa using hf a
theorem NoPanic.okOr {α : Type} (o : Option α) : NoPanic (okOr o) := by cases o <;> exact ⟨by simp [Autd3.Lw.okOr]⟩
theorem NoPanic.u8 (v : Nat) : NoPanic (u8TryFrom v) := by unfold u8TryFrom; split <;> exact ⟨by simp⟩
theorem NoPanic.u16 (v : Nat) : NoPanic (u16TryFrom v) := by unfold u16TryFrom; split <;> exact ⟨by simp⟩
theorem NoPanic.nz {e : Err} (h : e ≠ .panic) (v : Nat) : NoPanic (nonZero e v) := by unfold nonZero; split <;> exact ⟨by simp [h]⟩
theorem NoPanic.optOr {α β : Type} {o : Option α} {f : α → R β} {d : β} (hf : ∀ a, NoPanic (f a)) : NoPanic (optOr o f d) := by
  cases o <;> simp [Autd3.Lw.optOr, NoPanic.ok, hf]
theorem NoPanic.mapR {α β : Type} {f : α → R β} (hf : ∀ a, NoPanic (f a)) (l : List α) : NoPanic (mapR f l) :=
  ⟨mapR_ne_panic f (fun a => (hf a).ne) l⟩

syntax "nopanic" ("[" term,* "]")? : tactic
macro_rules
  | `(tactic| nopanic) =>
    `(tactic| repeat' (first
      | exact NoPanic.ok _ | exact NoPanic.pure _ | exact NoPanic.err (by decide) | exact NoPanic.throw (by decide)
      | exact NoPanic.okOr _ | exact NoPanic.u8 _ | exact NoPanic.u16 _ | exact NoPanic.nz (by decide) _
      | apply NoPanic.bind | apply NoPanic.optOr | apply NoPanic.mapR | intro _ | split))
  | `(tactic| nopanic [$ts,*]) =>
    `(tactic| repeat' (first
      | (first $[| exact $ts _]*)
      | exact NoPanic.ok _ | exact NoPanic.pure _ | exact NoPanic.err (by decide) | exact NoPanic.throw (by decide)
      | exact NoPanic.okOr _ | exact NoPanic.u8 _ | exact NoPanic.u16 _ | exact NoPanic.nz (by decide) _
      | apply NoPanic.bind | apply NoPanic.optOr | apply NoPanic.mapR | intro _ | split))

theorem SamplingCfg.noPanic (m : MSampling) : NoPanic (SamplingCfg.fromMsg m) := by
  unfold SamplingCfg.fromMsg; nopanic
theorem IPOpt.noPanic (d : IPOpt) (m : MIPOpt) : NoPanic (IPOpt.fromMsg d m) := by
  unfold IPOpt.fromMsg; nopanic
theorem Transition.noPanic (m : MTransition) : NoPanic (Transition.fromMsg m) := by
  unfold Transition.fromMsg gpioFromMsg; nopanic
theorem Loop.noPanic (m : MLoop) : NoPanic (Loop.fromMsg m) := by
  unfold Loop.fromMsg; nopanic
theorem Constraint.noPanic (m : MConstraint) : NoPanic (Constraint.fromMsg m) := by
  unfold Constraint.fromMsg; nopanic
theorem holo_noPanic (m : MHolo) : NoPanic (holoFromMsg m) := by
  unfold holoFromMsg; nopanic
theorem MGainV.noPanic (D : Defaults) (m : MGainV) : NoPanic (m.fromMsg D) := by
  cases m <;> (unfold MGainV.fromMsg; try unfold gsRepeatFromMsg) <;> nopanic [Constraint.noPanic, IPOpt.noPanic _, holo_noPanic]
theorem Gain.noPanic (D : Defaults) (m : MGain) : NoPanic (Gain.fromMsg D m) := by
  unfold Gain.fromMsg; nopanic [MGainV.noPanic D]
theorem SineOpt.noPanic (d : SineOpt) (m : MSineOpt) : NoPanic (SineOpt.fromMsg d m) := by
  unfold SineOpt.fromMsg; nopanic [SamplingCfg.noPanic]
theorem SquareOpt.noPanic (d : SquareOpt) (m : MSquareOpt) : NoPanic (SquareOpt.fromMsg d m) := by
  unfold SquareOpt.fromMsg; nopanic [SamplingCfg.noPanic]
theorem Modulation.noPanic (D : Defaults) (m : MModulation) : NoPanic (Modulation.fromMsg D m) := by
  have h : ∀ v : MModulationV, NoPanic (v.fromMsg D) := by
    intro v; cases v <;> (unfold MModulationV.fromMsg) <;> nopanic [SineOpt.noPanic _, SquareOpt.noPanic _]
  unfold Modulation.fromMsg; nopanic [h]
theorem Silencer.noPanic (D : Defaults) (m : MSilencer) : NoPanic (Silencer.fromMsg D m) := by
  unfold Silencer.fromMsg; nopanic
theorem segment_noPanic (v : Int) : NoPanic (segmentFromMsg v) := by
  unfold segmentFromMsg; nopanic
theorem Swap.noPanic (m : MSwap) : NoPanic (Swap.fromMsg m) := by
  unfold Swap.fromMsg; nopanic [Transition.noPanic, segment_noPanic]
theorem ControlPoint.noPanic (D : Defaults) (m : MControlPoint) : NoPanic (ControlPoint.fromMsg D m) := by
  unfold ControlPoint.fromMsg; nopanic
theorem ControlPoints.noPanic (D : Defaults) (n : Nat) (m : MControlPoints) : NoPanic (ControlPoints.fromMsg D n m) := by
  unfold ControlPoints.fromMsg; nopanic [ControlPoint.noPanic D]
theorem FociStm.noPanicN (D : Defaults) (n : Nat) (m : MFociStm) : NoPanic (FociStm.fromMsgN D n m) := by
  unfold FociStm.fromMsgN; nopanic [ControlPoints.noPanic D n, SamplingCfg.noPanic]
theorem FociStm.noPanic (D : Defaults) (m : MFociStm) : NoPanic (FociStm.fromMsg D m) := by
  unfold FociStm.fromMsg
  split
  · nopanic [FociStm.noPanicN D]
  · simp only []; nopanic
theorem GainStm.noPanic (D : Defaults) (m : MGainStm) : NoPanic (GainStm.fromMsg D m) := by
  unfold GainStm.fromMsg gainStmModeFromMsg; nopanic [Gain.noPanic D, SamplingCfg.noPanic]
theorem optTr_noPanic (m : Option MTransition) : NoPanic (optTransitionFromMsg m) := by
  unfold optTransitionFromMsg; nopanic [Transition.noPanic]
theorem MSegInner.noPanic (D : Defaults) (m : MSegInner) : NoPanic (m.fromMsg D) := by
  cases m <;> unfold MSegInner.fromMsg <;> nopanic [Gain.noPanic D, Modulation.noPanic D, FociStm.noPanic D, GainStm.noPanic D]
theorem MLoopInner.noPanic (D : Defaults) (m : MLoopInner) : NoPanic (m.fromMsg D) := by
  cases m <;> unfold MLoopInner.fromMsg <;> nopanic [Modulation.noPanic D, FociStm.noPanic D, GainStm.noPanic D]
theorem intoBoxedDatagram_noPanic (D : Defaults) (n : Nat) (m : MDatagramV) : NoPanic (intoBoxedDatagram D n m) := by
  cases m <;> unfold intoBoxedDatagram <;> nopanic [Gain.noPanic D, Modulation.noPanic D, FociStm.noPanic D, GainStm.noPanic D, Silencer.noPanic D, Swap.noPanic, MSegInner.noPanic D, MLoopInner.noPanic D, Loop.noPanic, optTr_noPanic, segment_noPanic]
theorem Dg.noPanic (D : Defaults) (n : Nat) (m : MDatagram) : NoPanic (Dg.fromMsg D n m) := by
  unfold Dg.fromMsg; nopanic [intoBoxedDatagram_noPanic D n]
theorem Tuple.noPanic (D : Defaults) (n : Nat) (m : MTuple) : NoPanic (Tuple.fromMsg D n m) := by
  unfold Tuple.fromMsg; nopanic [Dg.noPanic D n]
theorem Sleeper.noPanic (m : MSleeper) : NoPanic (Sleeper.fromMsg m) := by
  cases m <;> unfold Sleeper.fromMsg <;> nopanic
theorem SenderOpt.noPanic (m : MSenderOpt) : NoPanic (SenderOpt.fromMsg m) := by
  unfold SenderOpt.fromMsg; nopanic [Sleeper.noPanic]
theorem serverSend_noPanic (D : Defaults) (n : Nat) (req : MSendReq) : NoPanic (serverSend D n req) := by
  unfold serverSend; nopanic [Tuple.noPanic D n, SenderOpt.noPanic]
theorem serverGroup_noPanic (D : Defaults) (n : Nat) (req : MGroupReq) : NoPanic (serverGroup D n req) := by
  unfold serverGroup; nopanic [Tuple.noPanic D n, SenderOpt.noPanic]


/-! ## After a successful parse, generating operations for every device does not abort -/

/-- the per-device flag vectors of a rebuilt datagram cover every device -/
def Dg.flagsOk (n : Nat) : Dg → Prop
  | .forceFan v => v.length = n
  | .readsFpga v => v.length = n
  | _ => True

theorem intoBoxedDatagram_flagsOk (D : Defaults) (n : Nat) (m : MDatagramV) (d : Dg)
    (h : intoBoxedDatagram D n m = .ok d) : d.flagsOk n := by
  cases m <;> simp only [intoBoxedDatagram, bind_eq_ok] at h
  case forceFan v =>
    split at h
    · simp at h
    · simp at h; subst h; simp_all [Dg.flagsOk]
  case readsFpga v =>
    split at h
    · simp at h
    · simp at h; subst h; simp_all [Dg.flagsOk]
  all_goals (first | (simp at h; subst h; simp [Dg.flagsOk]) | (obtain ⟨_, _, h⟩ := h; simp at h; subst h; simp [Dg.flagsOk]) | skip)
  case withSegment w =>
    obtain ⟨_, _, _, _, _, _, _, _, h⟩ := h
    simp at h; subst h; simp [Dg.flagsOk]
  case withLoop w =>
    obtain ⟨_, _, _, _, _, _, _, _, _, _, _, _, h⟩ := h
    simp at h; subst h; simp [Dg.flagsOk]

theorem flagAt_ok (v : List Bool) (idx : Nat) (h : idx < v.length) : ∃ b, flagAt v idx = .ok b := by
  simp [flagAt, List.getElem?_eq_getElem h]

theorem Dg.generate_ok (n : Nat) (d : Dg) (h : d.flagsOk n) (idx : Nat) (hi : idx < n) : d.generate idx = .ok () := by
  cases d <;> simp_all [Dg.generate, Dg.flagsOk]
  all_goals (rename_i v; obtain ⟨b, hb⟩ := flagAt_ok v idx (by omega); simp [hb])

def Tuple.flagsOk (n : Nat) : Tuple → Prop
  | .one d => d.flagsOk n
  | .two a b => a.flagsOk n ∧ b.flagsOk n

theorem Tuple.fromMsg_flagsOk (D : Defaults) (n : Nat) (m : MTuple) (t : Tuple) (h : Tuple.fromMsg D n m = .ok t) :
    t.flagsOk n := by
  simp only [Tuple.fromMsg, Dg.fromMsg, bind_eq_ok] at h
  obtain ⟨d1m, _, d1, ⟨v1, _, h1⟩, h⟩ := h
  have f1 := intoBoxedDatagram_flagsOk D n v1 d1 h1
  split at h
  · simp only [bind_eq_ok] at h
    obtain ⟨d2, ⟨v2, _, h2⟩, h⟩ := h
    have f2 := intoBoxedDatagram_flagsOk D n v2 d2 h2
    simp at h; subst h; exact ⟨f1, f2⟩
  · simp at h; subst h; exact f1

theorem Tuple.generate_ok (n : Nat) (t : Tuple) (h : t.flagsOk n) (idx : Nat) (hi : idx < n) : t.generate idx = .ok () := by
  cases t with
  | one d => exact Dg.generate_ok n d h idx hi
  | two a b => simp [Tuple.generate, Dg.generate_ok n a h.1 idx hi, Dg.generate_ok n b h.2 idx hi]

theorem generateAll_ok (n : Nat) (t : Tuple) (h : t.flagsOk n) : ∀ k, k ≤ n → generateAll t k = .ok ()
  | 0, _ => rfl
  | k + 1, hk => by
    simp [generateAll, generateAll_ok n t h k (by omega), Tuple.generate_ok n t h k (by omega)]

theorem serve_noPanic (D : Defaults) (n : Nat) (req : MSendReq) : NoPanic (serve D n req) := by
  unfold serve
  cases hs : serverSend D n req with
  | error e =>
    have := (serverSend_noPanic D n req).ne
    refine ⟨?_⟩
    simp
    intro he; subst he; exact this hs
  | ok r =>
    have ht : r.1.flagsOk n := by
      simp only [serverSend, bind_eq_ok] at hs
      obtain ⟨tm, _, t, ht, hs⟩ := hs
      have := Tuple.fromMsg_flagsOk D n tm t ht
      split at hs
      · simp only [bind_eq_ok] at hs
        obtain ⟨_, _, hs⟩ := hs
        simp at hs; subst hs; exact this
      · simp at hs; subst hs; exact this
    refine ⟨?_⟩
    simp [generateAll_ok n r.1 ht n (Nat.le_refl n)]


/-! ## Accepted ⇒ valid -/

theorem okOr_eq_ok {α : Type} {o : Option α} {a : α} : okOr o = .ok a ↔ o = some a := by
  cases o <;> simp [okOr]
theorem u8_eq_ok {v a : Nat} : u8TryFrom v = .ok a ↔ v < 256 ∧ a = v := by
  unfold u8TryFrom; split <;> simp_all [eq_comm] <;> omega
theorem u16_eq_ok {v a : Nat} : u16TryFrom v = .ok a ↔ v < 65536 ∧ a = v := by
  unfold u16TryFrom; split <;> simp_all [eq_comm] <;> omega
theorem nz_eq_ok {e : Err} {v a : Nat} : nonZero e v = .ok a ↔ v ≠ 0 ∧ a = v := by
  unfold nonZero; split <;> simp_all [eq_comm]
theorem optOr_eq_ok {α β : Type} {o : Option α} {f : α → R β} {d b : β} :
    optOr o f d = .ok b ↔ (o = none ∧ b = d) ∨ ∃ a, o = some a ∧ f a = .ok b := by
  cases o <;> simp [optOr, eq_comm]
theorem mapR_ok_all {α β : Type} (f : α → R β) : ∀ (l : List α) (r : List β), mapR f l = .ok r → ∀ a ∈ l, ∃ b, f a = .ok b
  | [], _, _ => by simp
  | x :: l, r, h => by
    simp only [mapR, bind_eq_ok] at h
    obtain ⟨b, hb, bs, hbs, _⟩ := h
    intro a ha
    simp at ha
    rcases ha with rfl | ha
    · exact ⟨b, hb⟩
    · exact mapR_ok_all f l bs hbs a ha

/-! ## What a message must look like to be accepted (`Valid`): every required field present, every number in range -/

/-- present ⇒ below the bound -/
def optLt (o : Option Nat) (b : Nat) : Prop := ∀ v, o = some v → v < b
/-- present and below the bound -/
def reqLt (o : Option Nat) (b : Nat) : Prop := ∃ v, o = some v ∧ v < b
/-- present ⇒ non-zero and below the bound -/
def optNzLt (o : Option Nat) (b : Nat) : Prop := ∀ v, o = some v → 0 < v ∧ v < b
/-- present ⇒ non-zero -/
def optNz (o : Option Nat) : Prop := ∀ v, o = some v → v ≠ 0
/-- present ⇒ valid -/
def optValid {α : Type} (P : α → Prop) (o : Option α) : Prop := ∀ a, o = some a → P a
/-- present and valid -/
def reqValid {α : Type} (P : α → Prop) (o : Option α) : Prop := ∃ a, o = some a ∧ P a

def MIPOpt.Valid (m : MIPOpt) : Prop := optLt m.intensity 256 ∧ optLt m.phaseOffset 256

def MSampling.Valid (m : MSampling) : Prop :=
  reqValid (fun v => match v with
    | MSamplingV.division d => 0 < d ∧ d < 65536
    | _ => True) m.variant

def MConstraint.Valid (m : MConstraint) : Prop :=
  reqValid (fun v => match v with
    | MConstraintV.uniform x => reqLt x 256
    | .clamp a b => reqLt a 256 ∧ reqLt b 256
    | _ => True) m.variant

def MHolo.Valid (h : MHolo) : Prop := h.pos.isSome ∧ h.amp.isSome

def MGainV.Valid : MGainV → Prop
  | .focus pos o => pos.isSome ∧ reqValid MIPOpt.Valid o
  | .bessel pos dir th o => pos.isSome ∧ dir.isSome ∧ th.isSome ∧ reqValid MIPOpt.Valid o
  | .plane dir o => dir.isSome ∧ reqValid MIPOpt.Valid o
  | .uniform i p => reqLt i 256 ∧ reqLt p 256
  | .null => True
  | .naive h o => (∀ x ∈ h, x.Valid) ∧ reqValid (fun o : MNaiveOpt => optValid MConstraint.Valid o.constraint) o
  | .gs h o => (∀ x ∈ h, x.Valid) ∧
      reqValid (fun o : MGsOpt => optValid MConstraint.Valid o.constraint ∧ optNz o.repeatN) o
  | .gspat h o => (∀ x ∈ h, x.Valid) ∧
      reqValid (fun o : MGsOpt => optValid MConstraint.Valid o.constraint ∧ optNz o.repeatN) o
  | .lm h o => (∀ x ∈ h, x.Valid) ∧
      reqValid (fun o : MLmOpt => optValid MConstraint.Valid o.constraint ∧ optNz o.kMax) o
  | .greedy h o => (∀ x ∈ h, x.Valid) ∧
      reqValid (fun o : MGreedyOpt => optValid MConstraint.Valid o.constraint ∧ optNzLt o.phaseDiv 256) o

def MGain.Valid (m : MGain) : Prop := reqValid MGainV.Valid m.gain

theorem IPOpt.valid_of_ok {d : IPOpt} {m : MIPOpt} {o : IPOpt} (h : IPOpt.fromMsg d m = .ok o) : m.Valid := by
  simp only [IPOpt.fromMsg, bind_eq_ok, optOr_eq_ok, u8_eq_ok, pure_eq] at h
  simp only [MIPOpt.Valid, optLt]
  grind

theorem SamplingCfg.valid_of_ok {m : MSampling} {c : SamplingCfg} (h : SamplingCfg.fromMsg m = .ok c) : m.Valid := by
  simp only [SamplingCfg.fromMsg, bind_eq_ok, okOr_eq_ok] at h
  obtain ⟨v, hv, h⟩ := h
  refine ⟨v, hv, ?_⟩
  cases v <;> simp_all [bind_eq_ok, u16_eq_ok, nz_eq_ok]
  omega

theorem Constraint.valid_of_ok {m : MConstraint} {c : Constraint} (h : Constraint.fromMsg m = .ok c) : m.Valid := by
  simp only [Constraint.fromMsg, bind_eq_ok, okOr_eq_ok] at h
  obtain ⟨v, hv, h⟩ := h
  refine ⟨v, hv, ?_⟩
  cases v <;> simp_all [bind_eq_ok, u8_eq_ok, okOr_eq_ok, reqLt]
  all_goals grind

theorem holo_valid_of_ok {m : MHolo} {r : P3 × Nat} (h : holoFromMsg m = .ok r) : m.Valid := by
  simp only [holoFromMsg, bind_eq_ok, okOr_eq_ok] at h
  simp [MHolo.Valid]; grind

theorem holos_valid {l : List MHolo} {r : List (P3 × Nat)} (h : mapR holoFromMsg l = .ok r) : ∀ x ∈ l, x.Valid := by
  intro x hx
  obtain ⟨b, hb⟩ := mapR_ok_all _ l r h x hx
  exact holo_valid_of_ok hb

theorem optCons_valid {o : Option MConstraint} {d c : Constraint} (h : optOr o Constraint.fromMsg d = .ok c) :
    optValid MConstraint.Valid o := by
  intro a ha; subst ha
  simp [optOr] at h
  exact Constraint.valid_of_ok h

theorem MGainV.valid_of_ok {D : Defaults} {m : MGainV} {g : Gain} (h : m.fromMsg D = .ok g) : m.Valid := by
  cases m <;> simp only [MGainV.fromMsg, bind_eq_ok, okOr_eq_ok, pure_eq] at h
  case focus pos o =>
    obtain ⟨p, hp, o', ho, o'', ho'', _⟩ := h
    exact ⟨by simp [hp], o', ho, IPOpt.valid_of_ok ho''⟩
  case bessel pos dir th o =>
    obtain ⟨p, hp, d, hd, t, ht, o', ho, o'', ho'', _⟩ := h
    exact ⟨by simp [hp], by simp [hd], by simp [ht], o', ho, IPOpt.valid_of_ok ho''⟩
  case plane dir o =>
    obtain ⟨d, hd, o', ho, o'', ho'', _⟩ := h
    exact ⟨by simp [hd], o', ho, IPOpt.valid_of_ok ho''⟩
  case uniform i p =>
    simp only [u8_eq_ok] at h
    obtain ⟨p', hp, _, ⟨hp2, _⟩, i', hi, _, ⟨hi2, _⟩, _⟩ := h
    exact ⟨⟨i', hi, hi2⟩, ⟨p', hp, hp2⟩⟩
  case null => trivial
  case naive hl o =>
    obtain ⟨f, hf, o', ho, c, hc, _⟩ := h
    exact ⟨holos_valid hf, o', ho, optCons_valid hc⟩
  case gs hl o =>
    obtain ⟨f, hf, o', ho, r, hr, c, hc, _⟩ := h
    refine ⟨holos_valid hf, o', ho, optCons_valid hc, ?_⟩
    intro v hv
    simp [gsRepeatFromMsg, hv, optOr, nz_eq_ok] at hr
    exact hr.1
  case gspat hl o =>
    obtain ⟨f, hf, o', ho, r, hr, c, hc, _⟩ := h
    refine ⟨holos_valid hf, o', ho, optCons_valid hc, ?_⟩
    intro v hv
    simp [gsRepeatFromMsg, hv, optOr, nz_eq_ok] at hr
    exact hr.1
  case lm hl o =>
    obtain ⟨f, hf, o', ho, k, hk, c, hc, _⟩ := h
    refine ⟨holos_valid hf, o', ho, optCons_valid hc, ?_⟩
    intro v hv
    simp [gsRepeatFromMsg, hv, optOr, nz_eq_ok] at hk
    exact hk.1
  case greedy hl o =>
    obtain ⟨f, hf, o', ho, pd, hpd, c, hc, _⟩ := h
    refine ⟨holos_valid hf, o', ho, optCons_valid hc, ?_⟩
    intro v hv
    simp [hv, optOr, bind_eq_ok, u8_eq_ok, nz_eq_ok] at hpd
    omega

theorem Gain.valid_of_ok {D : Defaults} {m : MGain} {g : Gain} (h : Gain.fromMsg D m = .ok g) : m.Valid := by
  simp only [Gain.fromMsg, bind_eq_ok, okOr_eq_ok] at h
  obtain ⟨v, hv, h⟩ := h
  exact ⟨v, hv, MGainV.valid_of_ok h⟩

def MSineOpt.Valid (m : MSineOpt) : Prop :=
  optValid MSampling.Valid m.config ∧ optLt m.intensity 256 ∧ optLt m.offset 256
def MSquareOpt.Valid (m : MSquareOpt) : Prop :=
  optValid MSampling.Valid m.config ∧ optLt m.low 256 ∧ optLt m.high 256

def MModulationV.Valid : MModulationV → Prop
  | .static i => optLt i 256
  | .sineExact _ o => reqValid MSineOpt.Valid o
  | .sineExactFloat _ o => reqValid MSineOpt.Valid o
  | .sineNearest _ o => reqValid MSineOpt.Valid o
  | .squareExact _ o => reqValid MSquareOpt.Valid o
  | .squareExactFloat _ o => reqValid MSquareOpt.Valid o
  | .squareNearest _ o => reqValid MSquareOpt.Valid o
def MModulation.Valid (m : MModulation) : Prop := reqValid MModulationV.Valid m.modulation

def MSilencer.Valid (m : MSilencer) : Prop :=
  reqValid (fun v => match v with
    | MSilencerV.rate i p => 0 < i ∧ i < 65536 ∧ 0 < p ∧ p < 65536
    | .steps i p _ => optNzLt i 65536 ∧ optNzLt p 65536
    | .time _ _ _ => True) m.config

def MTransition.Valid (m : MTransition) : Prop :=
  reqValid (fun v => match v with
    | MTransitionV.gpio g => g = 0 ∨ g = 1 ∨ g = 2 ∨ g = 3
    | _ => True) m.mode
def segValid (s : Int) : Prop := s = 0 ∨ s = 1
def MSwap.Valid (m : MSwap) : Prop :=
  reqValid (fun v : MSwapV => segValid v.segment ∧ reqValid MTransition.Valid v.transitionMode) m.variant
def MLoop.Valid (m : MLoop) : Prop :=
  reqValid (fun v => match v with
    | MLoopV.finite r => 0 < r ∧ r < 65536
    | .infinite => True) m.variant

def MControlPoint.Valid (m : MControlPoint) : Prop := m.pos.isSome ∧ optLt m.offset 256
def MControlPoints.Valid (n : Nat) (m : MControlPoints) : Prop :=
  m.points.length = n ∧ (∀ p ∈ m.points, p.Valid) ∧ optLt m.intensity 256
def MFociStm.Valid (m : MFociStm) : Prop :=
  ∃ n, 1 ≤ n ∧ n ≤ 8 ∧ m.foci ≠ [] ∧ (∀ c ∈ m.foci, c.Valid n) ∧ reqValid MSampling.Valid m.samplingConfig
def MGainStm.Valid (m : MGainStm) : Prop :=
  (∀ g ∈ m.gains, g.Valid) ∧ reqValid MSampling.Valid m.samplingConfig ∧
    reqValid (fun o : MGainStmOpt => ∀ v, o.mode = some v → v = 0 ∨ v = 1 ∨ v = 2) m.option

theorem optSc_valid {o : Option MSampling} {d c : SamplingCfg} (h : optOr o SamplingCfg.fromMsg d = .ok c) :
    optValid MSampling.Valid o := by
  intro a ha; subst ha
  simp [optOr] at h
  exact SamplingCfg.valid_of_ok h
theorem optU8_lt {o : Option Nat} {d c : Nat} (h : optOr o u8TryFrom d = .ok c) : optLt o 256 := by
  intro a ha; subst ha
  simp [optOr, u8_eq_ok] at h
  exact h.1

theorem SineOpt.valid_of_ok {d : SineOpt} {m : MSineOpt} {o : SineOpt} (h : SineOpt.fromMsg d m = .ok o) : m.Valid := by
  simp only [SineOpt.fromMsg, bind_eq_ok, pure_eq] at h
  obtain ⟨_, hi, _, ho, _, hc, _⟩ := h
  exact ⟨optSc_valid hc, optU8_lt hi, optU8_lt ho⟩
theorem SquareOpt.valid_of_ok {d : SquareOpt} {m : MSquareOpt} {o : SquareOpt} (h : SquareOpt.fromMsg d m = .ok o) : m.Valid := by
  simp only [SquareOpt.fromMsg, bind_eq_ok, pure_eq] at h
  obtain ⟨_, hl, _, hh, _, hc, _⟩ := h
  exact ⟨optSc_valid hc, optU8_lt hl, optU8_lt hh⟩

theorem MModulationV.valid_of_ok {D : Defaults} {m : MModulationV} {r : Modulation} (h : m.fromMsg D = .ok r) : m.Valid := by
  cases m <;> simp only [MModulationV.fromMsg, bind_eq_ok, okOr_eq_ok, pure_eq] at h
  case static i =>
    obtain ⟨_, hi, _⟩ := h
    exact optU8_lt hi
  all_goals
    obtain ⟨o, ho, o', ho', _⟩ := h
    first
      | exact ⟨o, ho, SineOpt.valid_of_ok ho'⟩
      | exact ⟨o, ho, SquareOpt.valid_of_ok ho'⟩
theorem Modulation.valid_of_ok {D : Defaults} {m : MModulation} {r : Modulation} (h : Modulation.fromMsg D m = .ok r) : m.Valid := by
  simp only [Modulation.fromMsg, bind_eq_ok, okOr_eq_ok] at h
  obtain ⟨v, hv, h⟩ := h
  exact ⟨v, hv, MModulationV.valid_of_ok h⟩

theorem optU16nz {o : Option Nat} {d c : Nat}
    (h : optOr o (fun v => do let v ← u16TryFrom v; nonZero .int v) d = .ok c) : optNzLt o 65536 := by
  intro a ha; subst ha
  simp [optOr, bind_eq_ok, u16_eq_ok, nz_eq_ok] at h
  omega

theorem Silencer.valid_of_ok {D : Defaults} {m : MSilencer} {r : Silencer} (h : Silencer.fromMsg D m = .ok r) : m.Valid := by
  simp only [Silencer.fromMsg, bind_eq_ok, okOr_eq_ok] at h
  obtain ⟨v, hv, h⟩ := h
  refine ⟨v, hv, ?_⟩
  cases v with
  | rate i p =>
    simp [bind_eq_ok, u16_eq_ok, nz_eq_ok] at h
    omega
  | time i p s => trivial
  | steps i p s =>
    simp only [bind_eq_ok, pure_eq] at h
    obtain ⟨_, hi, _, hp, _⟩ := h
    exact ⟨optU16nz hi, optU16nz hp⟩

theorem Transition.valid_of_ok {m : MTransition} {r : Transition} (h : Transition.fromMsg m = .ok r) : m.Valid := by
  simp only [Transition.fromMsg, bind_eq_ok, okOr_eq_ok] at h
  obtain ⟨v, hv, h⟩ := h
  refine ⟨v, hv, ?_⟩
  cases v <;> try trivial
  rename_i g
  simp only [bind_eq_ok, gpioFromMsg] at h
  obtain ⟨_, hg, _⟩ := h
  split at hg; · left; assumption
  split at hg; · right; left; assumption
  split at hg; · right; right; left; assumption
  split at hg; · right; right; right; assumption
  simp at hg

theorem segment_valid {s : Int} {r : Nat} (h : segmentFromMsg s = .ok r) : segValid s := by
  unfold segmentFromMsg at h
  split at h; · left; assumption
  split at h; · right; assumption
  simp at h

theorem Swap.valid_of_ok {m : MSwap} {r : Swap} (h : Swap.fromMsg m = .ok r) : m.Valid := by
  simp only [Swap.fromMsg, bind_eq_ok, okOr_eq_ok] at h
  obtain ⟨v, hv, _, hs, t, ht, _, ht', _⟩ := h
  exact ⟨v, hv, segment_valid hs, t, ht, Transition.valid_of_ok ht'⟩

theorem Loop.valid_of_ok {m : MLoop} {r : Loop} (h : Loop.fromMsg m = .ok r) : m.Valid := by
  simp only [Loop.fromMsg, bind_eq_ok, okOr_eq_ok] at h
  obtain ⟨v, hv, h⟩ := h
  refine ⟨v, hv, ?_⟩
  cases v <;> simp_all [bind_eq_ok, u16_eq_ok, nz_eq_ok]
  omega

theorem ControlPoint.valid_of_ok {D : Defaults} {m : MControlPoint} {r : ControlPoint} (h : ControlPoint.fromMsg D m = .ok r) :
    m.Valid := by
  simp only [ControlPoint.fromMsg, bind_eq_ok, okOr_eq_ok, pure_eq] at h
  obtain ⟨p, hp, _, ho, _⟩ := h
  exact ⟨by simp [hp], optU8_lt ho⟩

theorem ControlPoints.valid_of_ok {D : Defaults} {n : Nat} {m : MControlPoints} {r : ControlPoints}
    (h : ControlPoints.fromMsg D n m = .ok r) : m.Valid n := by
  simp only [ControlPoints.fromMsg, bind_eq_ok] at h
  obtain ⟨ps, hps, h⟩ := h
  have hl := mapR_length _ _ _ hps
  split at h
  · simp at h
  · rename_i hn
    simp only [bind_eq_ok, pure_eq] at h
    obtain ⟨_, hi, _⟩ := h
    refine ⟨by simp at hn; omega, ?_, optU8_lt hi⟩
    intro p hp
    obtain ⟨b, hb⟩ := mapR_ok_all _ _ _ hps p hp
    exact ControlPoint.valid_of_ok hb

theorem FociStm.validN_of_ok {D : Defaults} {n : Nat} {m : MFociStm} {r : FociStm} (h : FociStm.fromMsgN D n m = .ok r) :
    (∀ c ∈ m.foci, c.Valid n) ∧ reqValid MSampling.Valid m.samplingConfig := by
  simp only [FociStm.fromMsgN, bind_eq_ok, okOr_eq_ok, pure_eq] at h
  obtain ⟨fs, hfs, sc, hsc, _, hsc', _⟩ := h
  refine ⟨?_, sc, hsc, SamplingCfg.valid_of_ok hsc'⟩
  intro c hc
  obtain ⟨b, hb⟩ := mapR_ok_all _ _ _ hfs c hc
  exact ControlPoints.valid_of_ok hb

theorem FociStm.valid_of_ok {D : Defaults} {m : MFociStm} {r : FociStm} (h : FociStm.fromMsg D m = .ok r) : m.Valid := by
  unfold FociStm.fromMsg at h
  split at h
  · simp at h
  · rename_i first rest hf
    simp only [] at h
    split at h
    · rename_i hn
      obtain ⟨h1, h2⟩ := FociStm.validN_of_ok h
      exact ⟨first.points.length, hn.1, hn.2, by simp [hf], h1, h2⟩
    · simp at h

theorem GainStm.valid_of_ok {D : Defaults} {m : MGainStm} {r : GainStm} (h : GainStm.fromMsg D m = .ok r) : m.Valid := by
  simp only [GainStm.fromMsg, bind_eq_ok, okOr_eq_ok, pure_eq] at h
  obtain ⟨gs, hgs, sc, hsc, _, hsc', o, ho, mode, hm, _⟩ := h
  refine ⟨?_, ⟨sc, hsc, SamplingCfg.valid_of_ok hsc'⟩, o, ho, ?_⟩
  · intro g hg
    obtain ⟨b, hb⟩ := mapR_ok_all _ _ _ hgs g hg
    exact Gain.valid_of_ok hb
  · intro v hv
    simp [hv, optOr, gainStmModeFromMsg] at hm
    split at hm; · left; assumption
    split at hm; · right; left; assumption
    split at hm; · right; right; assumption
    simp at hm

def MSegInner.Valid : MSegInner → Prop
  | .gain g => g.Valid
  | .modulation m => m.Valid
  | .foci f => f.Valid
  | .gainStm s => s.Valid
def MLoopInner.Valid : MLoopInner → Prop
  | .modulation m => m.Valid
  | .foci f => f.Valid
  | .gainStm s => s.Valid

/-- `numDev`: a `ForceFan`/`ReadsFPGAState` message carries one flag per device -/
def MDatagramV.Valid (numDev : Nat) : MDatagramV → Prop
  | .clear => True
  | .sync => True
  | .forceFan v => v.length = numDev
  | .readsFpga v => v.length = numDev
  | .silencer s => s.Valid
  | .swap s => s.Valid
  | .modulation m => m.Valid
  | .gain g => g.Valid
  | .foci f => f.Valid
  | .gainStm s => s.Valid
  | .withSegment w => reqValid MSegInner.Valid w.inner ∧ segValid w.segment ∧ optValid MTransition.Valid w.transitionMode
  | .withLoop w => reqValid MLoopInner.Valid w.inner ∧ reqValid MLoop.Valid w.loopBehavior ∧ segValid w.segment ∧
      optValid MTransition.Valid w.transitionMode
def MDatagram.Valid (numDev : Nat) (m : MDatagram) : Prop := reqValid (MDatagramV.Valid numDev) m.datagram
def MTuple.Valid (numDev : Nat) (m : MTuple) : Prop :=
  reqValid (MDatagram.Valid numDev) m.first ∧ optValid (MDatagram.Valid numDev) m.second
def MSenderOpt.Valid (m : MSenderOpt) : Prop :=
  (m.parallel = 0 ∨ m.parallel = 1 ∨ m.parallel = 2) ∧
    reqValid (fun s => match s with
      | MSleeper.spin _ st => st = 0 ∨ st = 1
      | .waitable => False
      | _ => True) m.sleeper
def MSendReq.Valid (numDev : Nat) (m : MSendReq) : Prop :=
  reqValid (MTuple.Valid numDev) m.datagram ∧ optValid MSenderOpt.Valid m.senderOption

theorem optTr_valid {o : Option MTransition} {r : Option Transition} (h : optTransitionFromMsg o = .ok r) :
    optValid MTransition.Valid o := by
  intro a ha; subst ha
  simp only [optTransitionFromMsg, bind_eq_ok] at h
  obtain ⟨_, ht, _⟩ := h
  exact Transition.valid_of_ok ht

theorem MSegInner.valid_of_ok {D : Defaults} {m : MSegInner} {r : SegInner} (h : m.fromMsg D = .ok r) : m.Valid := by
  cases m <;> simp only [MSegInner.fromMsg, bind_eq_ok] at h <;> obtain ⟨_, h, _⟩ := h
  · exact Gain.valid_of_ok h
  · exact Modulation.valid_of_ok h
  · exact FociStm.valid_of_ok h
  · exact GainStm.valid_of_ok h
theorem MLoopInner.valid_of_ok {D : Defaults} {m : MLoopInner} {r : LoopInner} (h : m.fromMsg D = .ok r) : m.Valid := by
  cases m <;> simp only [MLoopInner.fromMsg, bind_eq_ok] at h <;> obtain ⟨_, h, _⟩ := h
  · exact Modulation.valid_of_ok h
  · exact FociStm.valid_of_ok h
  · exact GainStm.valid_of_ok h

theorem intoBoxedDatagram_valid {D : Defaults} {n : Nat} {m : MDatagramV} {d : Dg} (h : intoBoxedDatagram D n m = .ok d) :
    m.Valid n := by
  cases m <;> simp only [intoBoxedDatagram, bind_eq_ok, okOr_eq_ok] at h
  case clear => trivial
  case sync => trivial
  case forceFan v =>
    split at h
    · simp at h
    · rename_i hv; simpa [MDatagramV.Valid] using hv
  case readsFpga v =>
    split at h
    · simp at h
    · rename_i hv; simpa [MDatagramV.Valid] using hv
  case silencer s => obtain ⟨_, h, _⟩ := h; exact Silencer.valid_of_ok h
  case swap s => obtain ⟨_, h, _⟩ := h; exact Swap.valid_of_ok h
  case modulation s => obtain ⟨_, h, _⟩ := h; exact Modulation.valid_of_ok h
  case gain s => obtain ⟨_, h, _⟩ := h; exact Gain.valid_of_ok h
  case foci s => obtain ⟨_, h, _⟩ := h; exact FociStm.valid_of_ok h
  case gainStm s => obtain ⟨_, h, _⟩ := h; exact GainStm.valid_of_ok h
  case withSegment w =>
    obtain ⟨_, hs, _, ht, i, hi, _, hi', _⟩ := h
    exact ⟨⟨i, hi, MSegInner.valid_of_ok hi'⟩, segment_valid hs, optTr_valid ht⟩
  case withLoop w =>
    obtain ⟨_, hs, _, ht, l, hl, _, hl', i, hi, _, hi', _⟩ := h
    exact ⟨⟨i, hi, MLoopInner.valid_of_ok hi'⟩, ⟨l, hl, Loop.valid_of_ok hl'⟩, segment_valid hs, optTr_valid ht⟩

theorem Dg.valid_of_ok {D : Defaults} {n : Nat} {m : MDatagram} {d : Dg} (h : Dg.fromMsg D n m = .ok d) : m.Valid n := by
  simp only [Dg.fromMsg, bind_eq_ok, okOr_eq_ok] at h
  obtain ⟨v, hv, h⟩ := h
  exact ⟨v, hv, intoBoxedDatagram_valid h⟩

theorem Tuple.valid_of_ok {D : Defaults} {n : Nat} {m : MTuple} {t : Tuple} (h : Tuple.fromMsg D n m = .ok t) : m.Valid n := by
  simp only [Tuple.fromMsg, bind_eq_ok, okOr_eq_ok] at h
  obtain ⟨d1, hd1, _, hd1', h⟩ := h
  refine ⟨⟨d1, hd1, Dg.valid_of_ok hd1'⟩, ?_⟩
  intro a ha
  rw [ha] at h
  simp only [bind_eq_ok] at h
  obtain ⟨_, h2, _⟩ := h
  exact Dg.valid_of_ok h2

theorem SenderOpt.valid_of_ok {m : MSenderOpt} {o : SenderOpt} (h : SenderOpt.fromMsg m = .ok o) : m.Valid := by
  simp only [SenderOpt.fromMsg, bind_eq_ok, okOr_eq_ok] at h
  obtain ⟨_, hp, sl, hsl, _, hsl', _⟩ := h
  refine ⟨?_, sl, hsl, ?_⟩
  · split at hp; · left; assumption
    split at hp; · right; left; assumption
    split at hp; · right; right; assumption
    simp at hp
  · cases sl <;> simp [Sleeper.fromMsg] at hsl' ⊢
    rename_i a st
    split at hsl'; · left; assumption
    split at hsl'; · right; assumption
    simp at hsl'

theorem serverSend_valid {D : Defaults} {n : Nat} {req : MSendReq} {r : Tuple × Option SenderOpt}
    (h : serverSend D n req = .ok r) : req.Valid n := by
  simp only [serverSend, bind_eq_ok, okOr_eq_ok] at h
  obtain ⟨t, ht, _, ht', h⟩ := h
  refine ⟨⟨t, ht, Tuple.valid_of_ok ht'⟩, ?_⟩
  intro a ha
  rw [ha] at h
  simp only [bind_eq_ok] at h
  obtain ⟨_, ho, _⟩ := h
  exact SenderOpt.valid_of_ok ho


/-! ## Dispatch: which constructor the server picks for which message variant -/

inductive GainKind
  | focus | bessel | plane | uniform | null | naive | gs | gspat | lm | greedy
  deriving DecidableEq, Repr
inductive ModKind
  | static | sineExact | sineExactFloat | sineNearest | squareExact | squareExactFloat | squareNearest
  deriving DecidableEq, Repr
inductive SilKind
  | rate | steps | time
  deriving DecidableEq, Repr
/-- `foci n`: `FociSTM<n, …>`; `gainStm ks`: the type of each boxed gain -/
inductive InnerKind
  | gain (k : GainKind)
  | modulation (k : ModKind)
  | foci (n : Nat)
  | gainStm (ks : List GainKind)
  deriving DecidableEq, Repr
inductive DgKind
  | clear | sync | forceFan | readsFpga
  | silencer (k : SilKind)
  | swap (k : SwapKind)
  | plain (k : InnerKind)
  | withSegment (k : InnerKind)
  | withLoop (k : InnerKind)
  deriving DecidableEq, Repr

def Gain.kind : Gain → GainKind
  | .focus .. => .focus | .bessel .. => .bessel | .plane .. => .plane | .uniform .. => .uniform | .null => .null
  | .naive .. => .naive | .gs .. => .gs | .gspat .. => .gspat | .lm .. => .lm | .greedy .. => .greedy
def MGainV.kind : MGainV → GainKind
  | .focus .. => .focus | .bessel .. => .bessel | .plane .. => .plane | .uniform .. => .uniform | .null => .null
  | .naive .. => .naive | .gs .. => .gs | .gspat .. => .gspat | .lm .. => .lm | .greedy .. => .greedy
def Modulation.kind : Modulation → ModKind
  | .static .. => .static | .sineExact .. => .sineExact | .sineExactFloat .. => .sineExactFloat
  | .sineNearest .. => .sineNearest | .squareExact .. => .squareExact | .squareExactFloat .. => .squareExactFloat
  | .squareNearest .. => .squareNearest
def MModulationV.kind : MModulationV → ModKind
  | .static .. => .static | .sineExact .. => .sineExact | .sineExactFloat .. => .sineExactFloat
  | .sineNearest .. => .sineNearest | .squareExact .. => .squareExact | .squareExactFloat .. => .squareExactFloat
  | .squareNearest .. => .squareNearest
def Silencer.kind : Silencer → SilKind
  | .rate .. => .rate | .steps .. => .steps | .time .. => .time
def MSilencerV.kind : MSilencerV → SilKind
  | .rate .. => .rate | .steps .. => .steps | .time .. => .time

def SegInner.kind : SegInner → InnerKind
  | .gain g => .gain g.kind
  | .modulation m => .modulation m.kind
  | .foci f => .foci f.n
  | .gainStm s => .gainStm (s.gains.map Gain.kind)
def LoopInner.kind : LoopInner → InnerKind
  | .modulation m => .modulation m.kind
  | .foci f => .foci f.n
  | .gainStm s => .gainStm (s.gains.map Gain.kind)

def Dg.kind : Dg → DgKind
  | .clear => .clear | .sync => .sync | .forceFan _ => .forceFan | .readsFpga _ => .readsFpga
  | .silencer s => .silencer s.kind
  | .swap s => .swap s.kind
  | .modulation m => .plain (.modulation m.kind)
  | .gain g => .plain (.gain g.kind)
  | .foci f => .plain (.foci f.n)
  | .gainStm s => .plain (.gainStm (s.gains.map Gain.kind))
  | .withSegment i _ _ => .withSegment i.kind
  | .withLoop i _ _ _ => .withLoop i.kind

/-- the message side: `none` when a `oneof` is not set -/
def MGain.kind (m : MGain) : Option GainKind := m.gain.map MGainV.kind
def MModulation.kind (m : MModulation) : Option ModKind := m.modulation.map MModulationV.kind
def MFociStm.kind (m : MFociStm) : Option Nat := m.foci.head?.map (·.points.length)
def MGainStm.kind (m : MGainStm) : Option (List GainKind) := m.gains.mapM MGain.kind
def MSegInner.kind : MSegInner → Option InnerKind
  | .gain g => g.kind.map .gain
  | .modulation m => m.kind.map .modulation
  | .foci f => f.kind.map .foci
  | .gainStm s => s.kind.map .gainStm
def MLoopInner.kind : MLoopInner → Option InnerKind
  | .modulation m => m.kind.map .modulation
  | .foci f => f.kind.map .foci
  | .gainStm s => s.kind.map .gainStm
def MDatagramV.kind : MDatagramV → Option DgKind
  | .clear => some .clear | .sync => some .sync | .forceFan _ => some .forceFan | .readsFpga _ => some .readsFpga
  | .silencer s => s.config.map (fun v => .silencer v.kind)
  | .swap s => s.variant.map (fun v => .swap v.kind)
  | .modulation m => m.kind.map (fun k => .plain (.modulation k))
  | .gain g => g.kind.map (fun k => .plain (.gain k))
  | .foci f => f.kind.map (fun k => .plain (.foci k))
  | .gainStm s => s.kind.map (fun k => .plain (.gainStm k))
  | .withSegment w => (w.inner.bind MSegInner.kind).map .withSegment
  | .withLoop w => (w.inner.bind MLoopInner.kind).map .withLoop

theorem MGainV.kind_of_ok {D : Defaults} {m : MGainV} {g : Gain} (h : m.fromMsg D = .ok g) : g.kind = m.kind := by
  cases m <;> simp only [MGainV.fromMsg, bind_eq_ok, pure_eq] at h
  case null => simp at h; subst h; rfl
  case focus => obtain ⟨_, _, _, _, _, _, h⟩ := h; simp at h; subst h; rfl
  case bessel => obtain ⟨_, _, _, _, _, _, _, _, _, _, h⟩ := h; simp at h; subst h; rfl
  case plane => obtain ⟨_, _, _, _, _, _, h⟩ := h; simp at h; subst h; rfl
  case uniform => obtain ⟨_, _, _, _, _, _, _, _, h⟩ := h; simp at h; subst h; rfl
  case naive => obtain ⟨_, _, _, _, _, _, h⟩ := h; simp at h; subst h; rfl
  case gs => obtain ⟨_, _, _, _, _, _, _, _, h⟩ := h; simp at h; subst h; rfl
  case gspat => obtain ⟨_, _, _, _, _, _, _, _, h⟩ := h; simp at h; subst h; rfl
  case lm => obtain ⟨_, _, _, _, _, _, _, _, h⟩ := h; simp at h; subst h; rfl
  case greedy => obtain ⟨_, _, _, _, _, _, _, _, h⟩ := h; simp at h; subst h; rfl

theorem Gain.kind_of_ok {D : Defaults} {m : MGain} {g : Gain} (h : Gain.fromMsg D m = .ok g) : m.kind = some g.kind := by
  simp only [Gain.fromMsg, bind_eq_ok, okOr_eq_ok] at h
  obtain ⟨v, hv, h⟩ := h
  simp [MGain.kind, hv, MGainV.kind_of_ok h]

theorem MModulationV.kind_of_ok {D : Defaults} {m : MModulationV} {r : Modulation} (h : m.fromMsg D = .ok r) : r.kind = m.kind := by
  cases m <;> simp only [MModulationV.fromMsg, bind_eq_ok, pure_eq] at h
  case static => obtain ⟨_, _, h⟩ := h; simp at h; subst h; rfl
  all_goals (obtain ⟨_, _, _, _, h⟩ := h; simp at h; subst h; rfl)

theorem Modulation.kind_of_ok {D : Defaults} {m : MModulation} {r : Modulation} (h : Modulation.fromMsg D m = .ok r) :
    m.kind = some r.kind := by
  simp only [Modulation.fromMsg, bind_eq_ok, okOr_eq_ok] at h
  obtain ⟨v, hv, h⟩ := h
  simp [MModulation.kind, hv, MModulationV.kind_of_ok h]

theorem FociStm.kind_of_ok {D : Defaults} {m : MFociStm} {r : FociStm} (h : FociStm.fromMsg D m = .ok r) :
    m.kind = some r.n := by
  unfold FociStm.fromMsg at h
  split at h
  · simp at h
  · rename_i first rest hf
    simp only [] at h
    split at h
    · simp only [FociStm.fromMsgN, bind_eq_ok, pure_eq] at h
      obtain ⟨_, _, _, _, _, _, h⟩ := h
      simp at h; subst h
      simp [MFociStm.kind, hf]
    · simp at h

theorem mapR_kinds {D : Defaults} : ∀ (l : List MGain) (r : List Gain), mapR (Gain.fromMsg D) l = .ok r →
    l.mapM MGain.kind = some (r.map Gain.kind)
  | [], r, h => by simp [mapR] at h; subst h; rfl
  | x :: l, r, h => by
    simp only [mapR, bind_eq_ok] at h
    obtain ⟨g, hg, gs, hgs, hr⟩ := h
    simp at hr; subst hr
    simp [List.mapM_cons, Gain.kind_of_ok hg, mapR_kinds l gs hgs]

theorem GainStm.kind_of_ok {D : Defaults} {m : MGainStm} {r : GainStm} (h : GainStm.fromMsg D m = .ok r) :
    m.kind = some (r.gains.map Gain.kind) := by
  simp only [GainStm.fromMsg, bind_eq_ok, pure_eq] at h
  obtain ⟨gs, hgs, _, _, _, _, _, _, _, _, h⟩ := h
  simp at h; subst h
  exact mapR_kinds _ _ hgs

theorem MSegInner.kind_of_ok {D : Defaults} {m : MSegInner} {r : SegInner} (h : m.fromMsg D = .ok r) : m.kind = some r.kind := by
  cases m <;> simp only [MSegInner.fromMsg, bind_eq_ok] at h <;> obtain ⟨_, h1, h⟩ := h <;> simp at h <;> subst h
  · simp [MSegInner.kind, SegInner.kind, Gain.kind_of_ok h1]
  · simp [MSegInner.kind, SegInner.kind, Modulation.kind_of_ok h1]
  · simp [MSegInner.kind, SegInner.kind, FociStm.kind_of_ok h1]
  · simp [MSegInner.kind, SegInner.kind, GainStm.kind_of_ok h1]
theorem MLoopInner.kind_of_ok {D : Defaults} {m : MLoopInner} {r : LoopInner} (h : m.fromMsg D = .ok r) : m.kind = some r.kind := by
  cases m <;> simp only [MLoopInner.fromMsg, bind_eq_ok] at h <;> obtain ⟨_, h1, h⟩ := h <;> simp at h <;> subst h
  · simp [MLoopInner.kind, LoopInner.kind, Modulation.kind_of_ok h1]
  · simp [MLoopInner.kind, LoopInner.kind, FociStm.kind_of_ok h1]
  · simp [MLoopInner.kind, LoopInner.kind, GainStm.kind_of_ok h1]

theorem Silencer.kind_of_ok {D : Defaults} {m : MSilencer} {r : Silencer} (h : Silencer.fromMsg D m = .ok r) :
    m.config.map MSilencerV.kind = some r.kind := by
  simp only [Silencer.fromMsg, bind_eq_ok, okOr_eq_ok] at h
  obtain ⟨v, hv, h⟩ := h
  cases v <;> simp only [bind_eq_ok, pure_eq] at h
  · obtain ⟨_, _, _, _, _, _, _, _, h⟩ := h; simp at h; subst h; simp [hv, MSilencerV.kind, Silencer.kind]
  · simp at h; subst h; simp [hv, MSilencerV.kind, Silencer.kind]
  · obtain ⟨_, _, _, _, h⟩ := h; simp at h; subst h; simp [hv, MSilencerV.kind, Silencer.kind]

theorem Swap.kind_of_ok {m : MSwap} {r : Swap} (h : Swap.fromMsg m = .ok r) : m.variant.map (·.kind) = some r.kind := by
  simp only [Swap.fromMsg, bind_eq_ok, okOr_eq_ok, pure_eq] at h
  obtain ⟨v, hv, _, _, _, _, _, _, h⟩ := h
  simp at h; subst h; simp [hv]

theorem intoBoxedDatagram_kind {D : Defaults} {n : Nat} {m : MDatagramV} {d : Dg} (h : intoBoxedDatagram D n m = .ok d) :
    m.kind = some d.kind := by
  cases m <;> simp only [intoBoxedDatagram, bind_eq_ok, okOr_eq_ok, pure_eq] at h
  case clear => simp at h; subst h; rfl
  case sync => simp at h; subst h; rfl
  case forceFan v => split at h <;> simp at h; subst h; rfl
  case readsFpga v => split at h <;> simp at h; subst h; rfl
  case silencer s =>
    obtain ⟨_, h1, h⟩ := h; simp at h; subst h
    have := Silencer.kind_of_ok h1
    simp only [Option.map_eq_some_iff] at this
    obtain ⟨a, ha, hk⟩ := this
    simp [MDatagramV.kind, Dg.kind, ha, hk]
  case swap s =>
    obtain ⟨_, h1, h⟩ := h; simp at h; subst h
    have := Swap.kind_of_ok h1
    simp only [Option.map_eq_some_iff] at this
    obtain ⟨a, ha, hk⟩ := this
    simp [MDatagramV.kind, Dg.kind, ha, hk]
  case modulation s => obtain ⟨_, h1, h⟩ := h; simp at h; subst h; simp [MDatagramV.kind, Dg.kind, Modulation.kind_of_ok h1]
  case gain s => obtain ⟨_, h1, h⟩ := h; simp at h; subst h; simp [MDatagramV.kind, Dg.kind, Gain.kind_of_ok h1]
  case foci s => obtain ⟨_, h1, h⟩ := h; simp at h; subst h; simp [MDatagramV.kind, Dg.kind, FociStm.kind_of_ok h1]
  case gainStm s => obtain ⟨_, h1, h⟩ := h; simp at h; subst h; simp [MDatagramV.kind, Dg.kind, GainStm.kind_of_ok h1]
  case withSegment w =>
    obtain ⟨_, _, _, _, i, hi, _, hi', h⟩ := h
    simp at h; subst h
    simp [MDatagramV.kind, Dg.kind, hi, MSegInner.kind_of_ok hi']
  case withLoop w =>
    obtain ⟨_, _, _, _, _, _, _, _, i, hi, _, hi', h⟩ := h
    simp at h; subst h
    simp [MDatagramV.kind, Dg.kind, hi, MLoopInner.kind_of_ok hi']


/-! ## group_send -/

theorem tuples_roundtrip (D : Defaults) (n : Nat) : ∀ (ts : List Tuple) (ms : List MTuple),
    (∀ t ∈ ts, t.WF n) → mapR Tuple.toMsg ts = .ok ms → mapR (Tuple.fromMsg D n) ms = .ok ts
  | [], ms, _, h => by simp [mapR] at h; subst h; rfl
  | t :: ts, ms, hw, h => by
    simp only [mapR, bind_eq_ok] at h
    obtain ⟨m, hm, ms', hms, h⟩ := h
    simp at h; subst h
    have h1 := Tuple.roundtrip D n t (hw t (by simp)) m hm
    have h2 := tuples_roundtrip D n ts ms' (fun x hx => hw x (by simp [hx])) hms
    simp [mapR, h1, h2]

/-- `if key < 0 { None } else { Some(key as usize) }` -/
def decodeKey (k : Int) : Option Nat := if k < 0 then none else some k.toNat

theorem serverGroup_roundtrip (D : Defaults) (n : Nat) (keys : List Int) (ts : List Tuple) (ms : List MTuple)
    (o : Option SenderOpt) (hw : ∀ t ∈ ts, t.WF n) (ho : ∀ x, o = some x → x.WF) (hm : mapR Tuple.toMsg ts = .ok ms)
    (hk : keys.length = n) :
    serverGroup D n ⟨keys, ms, o.map SenderOpt.toMsg⟩ = .ok (.go (keys.map decodeKey) ts o) := by
  have h1 := tuples_roundtrip D n ts ms hw hm
  cases o with
  | none => simp [serverGroup, h1, hk, decodeKey]
  | some x => simp [serverGroup, h1, hk, decodeKey, SenderOpt.roundtrip x (ho x rfl)]

theorem serverGroup_length (D : Defaults) (n : Nat) (req : MGroupReq) (ds : List Tuple)
    (hd : mapR (Tuple.fromMsg D n) req.datagrams = .ok ds) (hk : req.keys.length ≠ n) :
    serverGroup D n req = .ok .lengthMismatch := by
  simp [serverGroup, hd, hk]

theorem serverSelect_spec (keys : List Int) (ts : List Tuple) (idx : Nat) (h : idx < keys.length) :
    serverSelect (keys.map decodeKey) ts idx = (if keys[idx] < 0 then none else ts[keys[idx].toNat]?) := by
  simp only [serverSelect, List.getElem?_map, List.getElem?_eq_getElem h, Option.map_some, decodeKey]
  by_cases hneg : keys[idx] < 0 <;> simp [hneg]


/-! ## Absent optional field ≡ the SDK default written out

`fill D m` writes the SDK default into every absent *optional* field of `m` (required fields are left alone). -/

def Defaults.WF (D : Defaults) : Prop :=
  D.focus.WF ∧ D.bessel.WF ∧ D.plane.WF ∧ D.naiveC.WF ∧ D.gsC.WF ∧ 0 < D.gsRepeat ∧ D.gspatC.WF ∧ 0 < D.gspatRepeat ∧
  D.lmC.WF ∧ 0 < D.lmKMax ∧ D.greedyC.WF ∧ 0 < D.greedyPhaseDiv ∧ D.greedyPhaseDiv < 256 ∧
  D.sine.WF ∧ D.sine.clamp = false ∧ D.square.WF ∧ D.staticIntensity < 256 ∧
  0 < D.stepsIntensity ∧ D.stepsIntensity < 65536 ∧ 0 < D.stepsPhase ∧ D.stepsPhase < 65536 ∧
  D.timeIntensityNs % 1000 = 0 ∧ D.timePhaseNs % 1000 = 0 ∧
  D.cpOffset < 256 ∧ D.cpsIntensity < 256 ∧ D.gainStmMode < 3

def MIPOpt.fill (d : IPOpt) (m : MIPOpt) : MIPOpt :=
  ⟨some (m.intensity.getD d.intensity), some (m.phaseOffset.getD d.phaseOffset)⟩

theorem IPOpt.fill_eq (d : IPOpt) (hd : d.WF) (m : MIPOpt) : IPOpt.fromMsg d (m.fill d) = IPOpt.fromMsg d m := by
  obtain ⟨h1, h2⟩ := hd
  cases m with
  | mk i p => cases i <;> cases p <;> simp [IPOpt.fromMsg, MIPOpt.fill, optOr, u8TryFrom_lt, h1, h2]

def fillCons (d : Constraint) (o : Option MConstraint) : Option MConstraint := some (o.getD d.toMsg)

theorem fillCons_eq (d : Constraint) (hd : d.WF) (o : Option MConstraint) :
    optOr (fillCons d o) Constraint.fromMsg d = optOr o Constraint.fromMsg d := by
  cases o <;> simp [fillCons, optOr, Constraint.roundtrip d hd]

def MSineOpt.fill (d : SineOpt) (m : MSineOpt) : MSineOpt :=
  ⟨some (m.config.getD d.cfg.toMsg), some (m.intensity.getD d.intensity), some (m.offset.getD d.offset),
    some (m.phase.getD d.phase), some (m.clamp.getD false)⟩
def MSquareOpt.fill (d : SquareOpt) (m : MSquareOpt) : MSquareOpt :=
  ⟨some (m.config.getD d.cfg.toMsg), some (m.low.getD d.low), some (m.high.getD d.high), some (m.duty.getD d.duty)⟩

theorem SineOpt.fill_eq (d : SineOpt) (hd : d.WF) (m : MSineOpt) : SineOpt.fromMsg d (m.fill d) = SineOpt.fromMsg d m := by
  obtain ⟨h1, h2, h3⟩ := hd
  cases m with
  | mk c i o p cl =>
    cases c <;> cases i <;> cases o <;> cases p <;> cases cl <;>
      simp [SineOpt.fromMsg, MSineOpt.fill, optOr, u8TryFrom_lt, h1, h2, SamplingCfg.roundtrip _ h3]
theorem SquareOpt.fill_eq (d : SquareOpt) (hd : d.WF) (m : MSquareOpt) : SquareOpt.fromMsg d (m.fill d) = SquareOpt.fromMsg d m := by
  obtain ⟨h1, h2, h3⟩ := hd
  cases m with
  | mk c l h du =>
    cases c <;> cases l <;> cases h <;> cases du <;>
      simp [SquareOpt.fromMsg, MSquareOpt.fill, optOr, u8TryFrom_lt, h1, h2, SamplingCfg.roundtrip _ h3]

def MGainV.fill (D : Defaults) : MGainV → MGainV
  | .focus p o => .focus p (o.map (MIPOpt.fill D.focus))
  | .bessel p d t o => .bessel p d t (o.map (MIPOpt.fill D.bessel))
  | .plane d o => .plane d (o.map (MIPOpt.fill D.plane))
  | .uniform i p => .uniform i p
  | .null => .null
  | .naive h o => .naive h (o.map fun o => ⟨fillCons D.naiveC o.constraint⟩)
  | .gs h o => .gs h (o.map fun o => ⟨fillCons D.gsC o.constraint, some (o.repeatN.getD D.gsRepeat)⟩)
  | .gspat h o => .gspat h (o.map fun o => ⟨fillCons D.gspatC o.constraint, some (o.repeatN.getD D.gspatRepeat)⟩)
  | .lm h o => .lm h (o.map fun o => ⟨fillCons D.lmC o.constraint, some (o.eps1.getD D.lmEps1), some (o.eps2.getD D.lmEps2),
      some (o.tau.getD D.lmTau), some (o.kMax.getD D.lmKMax), o.initial⟩)
  | .greedy h o => .greedy h (o.map fun o => ⟨fillCons D.greedyC o.constraint, some (o.phaseDiv.getD D.greedyPhaseDiv)⟩)

theorem gsRepeat_fill (d : Nat) (hd : 0 < d) (o : Option Nat) : gsRepeatFromMsg (some (o.getD d)) d = gsRepeatFromMsg o d := by
  cases o <;> simp [gsRepeatFromMsg, optOr, nonZero_pos hd]

theorem u8nz_fill (d : Nat) (h0 : 0 < d) (h1 : d < 256) (o : Option Nat) :
    optOr (some (o.getD d)) (fun v => do let v ← u8TryFrom v; nonZero .int v) d
      = optOr o (fun v => do let v ← u8TryFrom v; nonZero .int v) d := by
  cases o <;> simp [optOr, u8TryFrom_lt h1, nonZero_pos h0]
theorem u16nz_fill (d : Nat) (h0 : 0 < d) (h1 : d < 65536) (o : Option Nat) :
    optOr (some (o.getD d)) (fun v => do let v ← u16TryFrom v; nonZero .int v) d
      = optOr o (fun v => do let v ← u16TryFrom v; nonZero .int v) d := by
  cases o <;> simp [optOr, u16TryFrom_lt h1, nonZero_pos h0]
theorem u8_fill (d : Nat) (h1 : d < 256) (o : Option Nat) :
    optOr (some (o.getD d)) u8TryFrom d = optOr o u8TryFrom d := by
  cases o <;> simp [optOr, u8TryFrom_lt h1]

theorem MGainV.fill_eq (D : Defaults) (hD : D.WF) (m : MGainV) : (m.fill D).fromMsg D = m.fromMsg D := by
  obtain ⟨h1, h2, h3, h4, h5, h6, h7, h8, h9, h10, h11, h12, h13, _⟩ := hD
  cases m with
  | focus p o => cases o <;> simp [MGainV.fill, MGainV.fromMsg, okOr, IPOpt.fill_eq _ h1]
  | bessel p d t o => cases o <;> simp [MGainV.fill, MGainV.fromMsg, okOr, IPOpt.fill_eq _ h2]
  | plane d o => cases o <;> simp [MGainV.fill, MGainV.fromMsg, okOr, IPOpt.fill_eq _ h3]
  | uniform i p => rfl
  | null => rfl
  | naive h o => cases o <;> simp [MGainV.fill, MGainV.fromMsg, okOr, fillCons_eq _ h4]
  | gs h o => cases o <;> simp [MGainV.fill, MGainV.fromMsg, okOr, fillCons_eq _ h5, gsRepeat_fill _ h6]
  | gspat h o => cases o <;> simp [MGainV.fill, MGainV.fromMsg, okOr, fillCons_eq _ h7, gsRepeat_fill _ h8]
  | lm h o =>
    cases o with
    | none => simp [MGainV.fill, MGainV.fromMsg, okOr]
    | some o =>
      cases o with
      | mk c e1 e2 tau k ini =>
        cases e1 <;> cases e2 <;> cases tau <;>
          simp [MGainV.fill, MGainV.fromMsg, okOr, fillCons_eq _ h9, gsRepeat_fill _ h10]
  | greedy h o =>
    cases o with
    | none => simp [MGainV.fill, MGainV.fromMsg, okOr]
    | some o =>
      cases o with
      | mk c pd =>
        simp [MGainV.fill, MGainV.fromMsg, okOr, fillCons_eq _ h11, u8nz_fill _ h12 h13]

def MGain.fill (D : Defaults) (m : MGain) : MGain := ⟨m.gain.map (MGainV.fill D)⟩
theorem Gain.fill_eq (D : Defaults) (hD : D.WF) (m : MGain) : Gain.fromMsg D (m.fill D) = Gain.fromMsg D m := by
  cases m with
  | mk g => cases g <;> simp [Gain.fromMsg, MGain.fill, okOr, MGainV.fill_eq D hD]

def MModulationV.fill (D : Defaults) : MModulationV → MModulationV
  | .static i => .static (some (i.getD D.staticIntensity))
  | .sineExact f o => .sineExact f (o.map (MSineOpt.fill D.sine))
  | .sineExactFloat f o => .sineExactFloat f (o.map (MSineOpt.fill D.sine))
  | .sineNearest f o => .sineNearest f (o.map (MSineOpt.fill D.sine))
  | .squareExact f o => .squareExact f (o.map (MSquareOpt.fill D.square))
  | .squareExactFloat f o => .squareExactFloat f (o.map (MSquareOpt.fill D.square))
  | .squareNearest f o => .squareNearest f (o.map (MSquareOpt.fill D.square))
def MModulation.fill (D : Defaults) (m : MModulation) : MModulation := ⟨m.modulation.map (MModulationV.fill D)⟩

theorem Modulation.fill_eq (D : Defaults) (hD : D.WF) (m : MModulation) :
    Modulation.fromMsg D (m.fill D) = Modulation.fromMsg D m := by
  obtain ⟨_, _, _, _, _, _, _, _, _, _, _, _, _, hs, _, hq, hst, _⟩ := hD
  cases m with
  | mk v =>
    cases v with
    | none => rfl
    | some v =>
      cases v with
      | static i => simp [Modulation.fromMsg, MModulation.fill, MModulationV.fill, MModulationV.fromMsg, okOr, u8_fill _ hst]
      | sineExact f o => cases o <;> simp [Modulation.fromMsg, MModulation.fill, MModulationV.fill, MModulationV.fromMsg, okOr, SineOpt.fill_eq _ hs]
      | sineExactFloat f o => cases o <;> simp [Modulation.fromMsg, MModulation.fill, MModulationV.fill, MModulationV.fromMsg, okOr, SineOpt.fill_eq _ hs]
      | sineNearest f o => cases o <;> simp [Modulation.fromMsg, MModulation.fill, MModulationV.fill, MModulationV.fromMsg, okOr, SineOpt.fill_eq _ hs]
      | squareExact f o => cases o <;> simp [Modulation.fromMsg, MModulation.fill, MModulationV.fill, MModulationV.fromMsg, okOr, SquareOpt.fill_eq _ hq]
      | squareExactFloat f o => cases o <;> simp [Modulation.fromMsg, MModulation.fill, MModulationV.fill, MModulationV.fromMsg, okOr, SquareOpt.fill_eq _ hq]
      | squareNearest f o => cases o <;> simp [Modulation.fromMsg, MModulation.fill, MModulationV.fill, MModulationV.fromMsg, okOr, SquareOpt.fill_eq _ hq]

def MSilencer.fill (D : Defaults) (m : MSilencer) : MSilencer :=
  ⟨m.config.map fun
    | .rate i p => .rate i p
    | .steps i p s => .steps (some (i.getD D.stepsIntensity)) (some (p.getD D.stepsPhase)) (some (s.getD D.stepsStrict))
    | .time i p s => .time (some (i.getD (D.timeIntensityNs / 1000))) (some (p.getD (D.timePhaseNs / 1000))) (some (s.getD D.timeStrict))⟩

theorem Silencer.fill_eq (D : Defaults) (hD : D.WF) (m : MSilencer) : Silencer.fromMsg D (m.fill D) = Silencer.fromMsg D m := by
  obtain ⟨_, _, _, _, _, _, _, _, _, _, _, _, _, _, _, _, _, hi0, hi1, hp0, hp1, hti, htp, _⟩ := hD
  have e1 : D.timeIntensityNs / 1000 * 1000 = D.timeIntensityNs := Nat.div_mul_cancel (Nat.dvd_of_mod_eq_zero hti)
  have e2 : D.timePhaseNs / 1000 * 1000 = D.timePhaseNs := Nat.div_mul_cancel (Nat.dvd_of_mod_eq_zero htp)
  cases m with
  | mk c =>
    cases c with
    | none => rfl
    | some v =>
      cases v with
      | rate i p => rfl
      | steps i p s =>
        cases s <;> simp [Silencer.fromMsg, MSilencer.fill, okOr, u16nz_fill _ hi0 hi1, u16nz_fill _ hp0 hp1]
      | time i p s =>
        cases i <;> cases p <;> cases s <;> simp [Silencer.fromMsg, MSilencer.fill, okOr, e1, e2]

theorem mapR_congr {α β : Type} (f : α → R β) (g : α → α) (h : ∀ a, f (g a) = f a) :
    ∀ l : List α, mapR f (l.map g) = mapR f l
  | [] => rfl
  | a :: l => by simp [mapR, h a, mapR_congr f g h l]

def MControlPoint.fill (D : Defaults) (m : MControlPoint) : MControlPoint := ⟨m.pos, some (m.offset.getD D.cpOffset)⟩
def MControlPoints.fill (D : Defaults) (m : MControlPoints) : MControlPoints :=
  ⟨m.points.map (MControlPoint.fill D), some (m.intensity.getD D.cpsIntensity)⟩
def MFociStm.fill (D : Defaults) (m : MFociStm) : MFociStm := ⟨m.foci.map (MControlPoints.fill D), m.samplingConfig⟩
def MGainStm.fill (D : Defaults) (m : MGainStm) : MGainStm :=
  ⟨m.gains.map (MGain.fill D), m.samplingConfig, m.option.map fun o => ⟨some (o.mode.getD (D.gainStmMode : Int))⟩⟩

theorem ControlPoint.fill_eq (D : Defaults) (hD : D.WF) (m : MControlPoint) :
    ControlPoint.fromMsg D (m.fill D) = ControlPoint.fromMsg D m := by
  have h := hD.2.2.2.2.2.2.2.2.2.2.2.2.2.2.2.2.2.2.2.2.2.2.2.1
  simp [ControlPoint.fromMsg, MControlPoint.fill, u8_fill _ h]

theorem ControlPoints.fill_eq (D : Defaults) (hD : D.WF) (n : Nat) (m : MControlPoints) :
    ControlPoints.fromMsg D n (m.fill D) = ControlPoints.fromMsg D n m := by
  have h := hD.2.2.2.2.2.2.2.2.2.2.2.2.2.2.2.2.2.2.2.2.2.2.2.2.1
  simp [ControlPoints.fromMsg, MControlPoints.fill, mapR_congr _ _ (ControlPoint.fill_eq D hD), u8_fill _ h]

theorem FociStm.fill_eq (D : Defaults) (hD : D.WF) (m : MFociStm) : FociStm.fromMsg D (m.fill D) = FociStm.fromMsg D m := by
  cases m with
  | mk foci sc =>
    cases foci with
    | nil => rfl
    | cons c cs =>
      have hN : ∀ n, FociStm.fromMsgN D n (MFociStm.fill D ⟨c :: cs, sc⟩) = FociStm.fromMsgN D n ⟨c :: cs, sc⟩ := by
        intro n
        have := mapR_congr (ControlPoints.fromMsg D n) (MControlPoints.fill D) (ControlPoints.fill_eq D hD n) (c :: cs)
        simp only [FociStm.fromMsgN, MFociStm.fill, this]
      simp only [FociStm.fromMsg, MFociStm.fill, List.map_cons, MControlPoints.fill, List.length_map]
      split
      · exact hN _
      · rfl

theorem gainStmMode_fill (d : Nat) (hd : d < 3) (o : Option Int) :
    optOr (some (o.getD (d : Int))) gainStmModeFromMsg d = optOr o gainStmModeFromMsg d := by
  have : d = 0 ∨ d = 1 ∨ d = 2 := by omega
  cases o with
  | some v => rfl
  | none => rcases this with rfl | rfl | rfl <;> simp [optOr, gainStmModeFromMsg]

theorem GainStm.fill_eq (D : Defaults) (hD : D.WF) (m : MGainStm) : GainStm.fromMsg D (m.fill D) = GainStm.fromMsg D m := by
  have h := hD.2.2.2.2.2.2.2.2.2.2.2.2.2.2.2.2.2.2.2.2.2.2.2.2.2
  cases m with
  | mk gains sc o =>
    cases o <;>
      simp [GainStm.fromMsg, MGainStm.fill, mapR_congr _ _ (Gain.fill_eq D hD), okOr, gainStmMode_fill _ h]

def MSegInner.fill (D : Defaults) : MSegInner → MSegInner
  | .gain g => .gain (g.fill D)
  | .modulation m => .modulation (m.fill D)
  | .foci f => .foci (f.fill D)
  | .gainStm s => .gainStm (s.fill D)
def MLoopInner.fill (D : Defaults) : MLoopInner → MLoopInner
  | .modulation m => .modulation (m.fill D)
  | .foci f => .foci (f.fill D)
  | .gainStm s => .gainStm (s.fill D)
/-- an absent transition mode of a wrapper is `None` (not a default), an absent second datagram is `NullDatagram` -/
def MDatagramV.fill (D : Defaults) : MDatagramV → MDatagramV
  | .silencer s => .silencer (s.fill D)
  | .modulation m => .modulation (m.fill D)
  | .gain g => .gain (g.fill D)
  | .foci f => .foci (f.fill D)
  | .gainStm s => .gainStm (s.fill D)
  | .withSegment w => .withSegment ⟨w.inner.map (MSegInner.fill D), w.segment, w.transitionMode⟩
  | .withLoop w => .withLoop ⟨w.inner.map (MLoopInner.fill D), w.loopBehavior, w.segment, w.transitionMode⟩
  | m => m
def MDatagram.fill (D : Defaults) (m : MDatagram) : MDatagram := ⟨m.datagram.map (MDatagramV.fill D)⟩
def MTuple.fill (D : Defaults) (m : MTuple) : MTuple := ⟨m.first.map (MDatagram.fill D), m.second.map (MDatagram.fill D)⟩

theorem MSegInner.fill_eq (D : Defaults) (hD : D.WF) (m : MSegInner) : (m.fill D).fromMsg D = m.fromMsg D := by
  cases m <;> simp [MSegInner.fill, MSegInner.fromMsg, Gain.fill_eq D hD, Modulation.fill_eq D hD, FociStm.fill_eq D hD,
    GainStm.fill_eq D hD]
theorem MLoopInner.fill_eq (D : Defaults) (hD : D.WF) (m : MLoopInner) : (m.fill D).fromMsg D = m.fromMsg D := by
  cases m <;> simp [MLoopInner.fill, MLoopInner.fromMsg, Modulation.fill_eq D hD, FociStm.fill_eq D hD, GainStm.fill_eq D hD]

theorem intoBoxedDatagram_fill (D : Defaults) (hD : D.WF) (n : Nat) (m : MDatagramV) :
    intoBoxedDatagram D n (m.fill D) = intoBoxedDatagram D n m := by
  cases m with
  | withSegment w =>
    cases w with
    | mk i s t => cases i <;> simp [MDatagramV.fill, intoBoxedDatagram, okOr, MSegInner.fill_eq D hD]
  | withLoop w =>
    cases w with
    | mk i l s t => cases i <;> simp [MDatagramV.fill, intoBoxedDatagram, okOr, MLoopInner.fill_eq D hD]
  | _ => simp [MDatagramV.fill, intoBoxedDatagram, Silencer.fill_eq D hD, Gain.fill_eq D hD, Modulation.fill_eq D hD,
      FociStm.fill_eq D hD, GainStm.fill_eq D hD]

theorem Dg.fill_eq (D : Defaults) (hD : D.WF) (n : Nat) (m : MDatagram) : Dg.fromMsg D n (m.fill D) = Dg.fromMsg D n m := by
  cases m with
  | mk v => cases v <;> simp [Dg.fromMsg, MDatagram.fill, okOr, intoBoxedDatagram_fill D hD]

theorem Tuple.fill_eq (D : Defaults) (hD : D.WF) (n : Nat) (m : MTuple) : Tuple.fromMsg D n (m.fill D) = Tuple.fromMsg D n m := by
  cases m with
  | mk a b => cases a <;> cases b <;> simp [Tuple.fromMsg, MTuple.fill, okOr, Dg.fill_eq D hD]

theorem Defaults.sdk_WF : Defaults.sdk.WF := by
  simp [Defaults.WF, Defaults.sdk, IPOpt.WF, Constraint.WF, SineOpt.WF, SquareOpt.WF, SamplingCfg.WF, freq4k]


end Autd3.Lw
