import Autd3.Lemmas.FwTraceDec
/-!
C19: concrete traces (run by the kernel) for the excluded shapes — F17 and two read-back panics found while
proving the trace theorem — and a legal trace used as non-vacuity witness.  No proofs here, only definitions.
-/
namespace Autd3.Fw
open Autd3.Gen.Cpu
open Autd3.Gen

/-- a 626-byte frame without its zero padding (the model reads 0 past the end): header + one payload -/
def frame1 (msgId : Nat) (p : List Nat) : Array Nat := #[msgId, 0, 0, 0] ++ p.toArray

def le16 (v : Nat) : List Nat := [v % 256, v / 256 % 256]
def le64 (v : Nat) : List Nat :=
  [v % 256, v / 256 % 256, v / 65536 % 256, v / 16777216 % 256, v / 4294967296 % 256, v / 1099511627776 % 256,
   v / 281474976710656 % 256, v / 72057594037927936 % 256]

/-- FociSTM BEGIN frame header (24 bytes): flag, patterns in this frame, segment, transition mode, foci per
pattern, sound speed, sampling division, loop count, transition value; the focus records follow (zeros) -/
def fociHead (flag send seg tm nf ss div rep tv : Nat) : List Nat :=
  [66, flag, send, seg, tm, nf] ++ le16 ss ++ le16 div ++ le16 rep ++ [0, 0, 0, 0] ++ le64 tv
/-- FociSTM continuation frame header (4 bytes) -/
def fociCont (flag send seg : Nat) : List Nat := [66, flag, send, seg]
/-- SwapSegment::FociSTM -/
def fociSwapP (seg tm tv : Nat) : List Nat := [68, seg, tm, 0, 0, 0, 0, 0] ++ le64 tv
/-- Gain: segment, flag (1 = UPDATE); drive words zero -/
def gainP (seg flag : Nat) : List Nat := [48, seg, flag, 0]
/-- GainSTM BEGIN header: flag, mode, transition mode, division, loop count, transition value -/
def gainStmHead (flag mode tm div rep tv : Nat) : List Nat :=
  [65, flag, mode, tm] ++ le16 div ++ le16 rep ++ le64 tv
/-- Modulation BEGIN header: flag, size, transition mode, division, loop count, transition value, samples -/
def modHead (flag size tm div rep tv : Nat) (data : List Nat) : List Nat :=
  [16, flag, size, tm] ++ le16 div ++ le16 rep ++ le64 tv ++ data

def panicOf {α : Type} : M α → Option Panic
  | .ok _ => none
  | .error e => some e

/-- stands for the 884 middle frames of a 65536-point single-focus FociSTM (each adds its foci count to
`stm_write`, stores its records and moves the write page): `stm_write = 65535`, write page 15 -/
def elideMiddleFrames (s : State) : State :=
  { s with stmWrite := 65535, ctl := s.ctl.setIfInBounds ADDR_STM_MEM_WR_PAGE 15 }

/-- **F17**: power-on; 65536-point FociSTM of one focus per pattern to S0 with an Immediate transition (BEGIN
frame, middle frames elided, END frame); FociSTM of 2 patterns × 8 foci to the same segment WITHOUT transition
(the swap chain keeps the 65536-pattern cycle, the foci-count register says 8); clock at 50 s (pattern index
50000); `drives()` -/
def f17Run : M (Array Nat) := do
  let s ← Fw.new 249 0
  let s ← ecatRecv s (frame1 1 (fociHead 1 1 0 255 1 21760 40 0xFFFF 0))
  let s := elideMiddleFrames s
  let s ← ecatRecv s (frame1 2 (fociCont 6 1 0))
  let s ← updateWithSysTime s 1000000
  let s ← ecatRecv s (frame1 3 (fociHead 3 2 0 254 8 21760 40 0xFFFF 0))
  let s ← updateWithSysTime s 50000000000
  Obs.drives s

/-- **stale index (new)**: the same 65536-point FociSTM plays in S0 at pattern index 50000; a complete FociSTM of
2 patterns × 8 foci goes to S1 with an Immediate transition (accepted: `Swapchain::set` makes S1 current but
leaves `cur_idx = 50000`); `drives()` BEFORE the next clock update -/
def staleIdxRun : M (Array Nat) := do
  let s ← Fw.new 249 0
  let s ← ecatRecv s (frame1 1 (fociHead 1 1 0 255 1 21760 40 0xFFFF 0))
  let s := elideMiddleFrames s
  let s ← ecatRecv s (frame1 2 (fociCont 6 1 0))
  let s ← updateWithSysTime s 50000000000
  let s ← ecatRecv s (frame1 3 (fociHead 7 2 1 255 8 21760 40 0xFFFF 0))
  Obs.drives s

/-- **zero sound speed (new)**: a complete FociSTM whose header carries sound speed 0 (`Device::sound_speed`
below 8 mm/s rounds to 0), Immediate; clock update; `drives()` divides by it -/
def zeroSoundSpeedRun : M (Array Nat) := do
  let s ← Fw.new 249 0
  let s ← ecatRecv s (frame1 1 (fociHead 7 2 0 255 1 0 40 0xFFFF 0))
  let s ← updateWithSysTime s 1000000
  Obs.drives s

/-- a legal history from power-on: FociSTM (2 patterns × 2 foci) to S1 with a finite loop and SyncIdx (a transition
is pending); clock 1 s (it fires); read-back; Modulation to S1 in two frames (BEGIN: Immediate, infinite loop;
END|TRANSITION); SwapSegment::FociSTM(S0, Immediate) — refused by the CPU (S0 holds a gain); Gain to S0 with
update; clock; read-back -/
def legalTraceA : List TEv :=
  [ .frame (frame1 1 (fociHead 7 2 1 0 2 21760 40 3 0)),
    .tick 1000000000,
    .read,
    .frame (frame1 2 (modHead (1 ||| 8) 4 255 10 0xFFFF 0 [1, 2, 3, 4])),
    .frame (frame1 3 ([16, 2 ||| 4 ||| 8] ++ le16 3 ++ [5, 6, 7])),
    .frame (frame1 4 (fociSwapP 0 255 0)),
    .frame (frame1 5 (gainP 0 1)),
    .tick 1500000000,
    .read ]

/-- a second legal history: GainSTM of 3 patterns to S1 in three frames (BEGIN with a GPIO(1) transition and a finite
loop; middle; END|TRANSITION), clock, read-back, Clear, clock, read-back -/
def legalTraceB : List TEv :=
  [ .frame (frame1 5 (gainStmHead (1 ||| 8) 0 2 300 2 1)),
    .frame (frame1 6 [65, 8]),
    .frame (frame1 7 [65, 2 ||| 4 ||| 8]),
    .tick 1500000000,
    .read,
    .frame (frame1 9 [1]),
    .tick 1500000001,
    .read ]

/-- the frames of the F15 / F18-style histories are inside the alphabet: only the exclusions fail.  F15: FociSTM to S1,
finite loop, SyncIdx (pending), then FociSTM to S1, finite loop, Immediate -/
def f15Frames : List (Array Nat) :=
  [ frame1 1 (fociHead 7 2 1 0 1 21760 40 0 0), frame1 2 (fociHead 7 2 1 255 1 21760 40 0 0) ]

theorem legalTraceA_ok : RestrictedFromPowerOn legalTraceA := by decide +kernel
theorem legalTraceB_ok : RestrictedFromPowerOn legalTraceB := by decide +kernel

/-- the states of `tr`, from power-on, as far as it runs: acknowledgement and the first panic, for display -/
def acksFromPowerOn (tr : List TEv) : List Nat × Option Panic :=
  match Fw.new 249 0 with
  | .error e => ([], some e)
  | .ok s0 => Id.run do
    let mut s := s0
    let mut out := []
    for e in tr do
      match runT s e with
      | .ok s' => s := s'; out := out ++ [s'.ack]
      | .error p => return (out, some p)
    return (out, none)

end Autd3.Fw
