import Autd3.Lemmas.RtFoci6
/-!
FociSTM, part 7: the BEGIN header establishes the invariant, `handle_payload` of a FociSTM frame as
header ∘ copy ∘ end, transfer through `fin`.
-/
set_option linter.unusedSimpArgs false
open Autd3 Autd3.Fw Autd3.Wire Autd3.Gen.Cpu Autd3.Gen
namespace Autd3.Rt

theorem reg_fociHead (s : State) (hc : s.ctl.size = 256) (seg : Nat) (hseg : seg ≤ 1) (rep div tm tv nf ss a : Nat) :
    reg (fociHead s seg rep div tm tv nf ss) a =
      if a = 81 then 0 else if a = 80 then seg else if a = 93 + seg then nf % 65536 else if a = 87 + seg then rep % 65536
      else if a = 91 + seg then ss % 65536 else if a = 89 + seg then 0 else if a = 85 + seg then div % 65536
      else reg s a := by
  rcases (show seg = 0 ∨ seg = 1 by omega) with h | h <;> subst h <;>
  · unfold fociHead
    simp only [reg_wr, reg_fociHeadCpu, wr_ctl, fociHeadCpu_ctl, Array.size_setIfInBounds, hc, ADDR_STM_MEM_WR_PAGE,
      ADDR_STM_MEM_WR_SEGMENT, ADDR_STM_REP0, ADDR_STM_FREQ_DIV0, ADDR_STM_MODE0, ADDR_STM_SOUND_SPEED0,
      ADDR_STM_NUM_FOCI0, STM_MODE_FOCUS]
    simp

theorem WF_fociHeadCpu {s : State} (h : WF s) (seg rep div tm tv nf : Nat) : WF (fociHeadCpu s seg rep div tm tv nf) := by
  wf_same h

theorem FociInv_head (s0 : State) (hW : WF s0) (id r seg : Nat) (hseg : seg ≤ 1) (tr : Tr) (rep div ss n : Nat)
    (records : Array Nat) (hrep : rep < 65536) (hdiv : 1 ≤ div ∧ div < 65536) (hss : ss < 65536) (hn : n < 65536) :
    FociInv s0 (fociHead { s0 with lastMsgId := id, rxData := r } seg rep div (trMode tr) (trValue tr) n ss)
      seg tr rep div ss n records 0 := by
  have hWp : WF { s0 with lastMsgId := id, rxData := r } := by wf_same hW
  have hc : ({ s0 with lastMsgId := id, rxData := r } : State).ctl.size = 256 := hW.ctl
  have hr := reg_fociHead { s0 with lastMsgId := id, rxData := r } hc seg hseg rep div (trMode tr) (trValue tr) n ss
  refine ⟨?_, by simp [fociHead], by simp [fociHead], ?_, ?_, ?_, ?_, by simp [fociHead], by simp [fociHead], ?_, ?_, ?_, ?_,
    ?_, ?_, by simp [fociHead], by simp [fociHead], by simp [fociHead]⟩
  · unfold fociHead
    have e1 : ADDR_STM_MODE0 + seg ≠ ADDR_MOD_FREQ_DIV0 ∧ ADDR_STM_MODE0 + seg ≠ ADDR_MOD_FREQ_DIV1 ∧
        ADDR_STM_MODE0 + seg ≠ ADDR_STM_FREQ_DIV0 ∧ ADDR_STM_MODE0 + seg ≠ ADDR_STM_FREQ_DIV1 := by
      simp only [ADDR_STM_MODE0, ADDR_MOD_FREQ_DIV0, ADDR_MOD_FREQ_DIV1, ADDR_STM_FREQ_DIV0, ADDR_STM_FREQ_DIV1]; omega
    have e2 : ADDR_STM_SOUND_SPEED0 + seg ≠ ADDR_MOD_FREQ_DIV0 ∧ ADDR_STM_SOUND_SPEED0 + seg ≠ ADDR_MOD_FREQ_DIV1 ∧
        ADDR_STM_SOUND_SPEED0 + seg ≠ ADDR_STM_FREQ_DIV0 ∧ ADDR_STM_SOUND_SPEED0 + seg ≠ ADDR_STM_FREQ_DIV1 := by
      simp only [ADDR_STM_SOUND_SPEED0, ADDR_MOD_FREQ_DIV0, ADDR_MOD_FREQ_DIV1, ADDR_STM_FREQ_DIV0, ADDR_STM_FREQ_DIV1]; omega
    have e3 : ADDR_STM_REP0 + seg ≠ ADDR_MOD_FREQ_DIV0 ∧ ADDR_STM_REP0 + seg ≠ ADDR_MOD_FREQ_DIV1 ∧
        ADDR_STM_REP0 + seg ≠ ADDR_STM_FREQ_DIV0 ∧ ADDR_STM_REP0 + seg ≠ ADDR_STM_FREQ_DIV1 := by
      simp only [ADDR_STM_REP0, ADDR_MOD_FREQ_DIV0, ADDR_MOD_FREQ_DIV1, ADDR_STM_FREQ_DIV0, ADDR_STM_FREQ_DIV1]; omega
    have e4 : ADDR_STM_NUM_FOCI0 + seg ≠ ADDR_MOD_FREQ_DIV0 ∧ ADDR_STM_NUM_FOCI0 + seg ≠ ADDR_MOD_FREQ_DIV1 ∧
        ADDR_STM_NUM_FOCI0 + seg ≠ ADDR_STM_FREQ_DIV0 ∧ ADDR_STM_NUM_FOCI0 + seg ≠ ADDR_STM_FREQ_DIV1 := by
      simp only [ADDR_STM_NUM_FOCI0, ADDR_MOD_FREQ_DIV0, ADDR_MOD_FREQ_DIV1, ADDR_STM_FREQ_DIV0, ADDR_STM_FREQ_DIV1]; omega
    exact WF_wr (WF_wr (WF_wr (WF_wr (WF_wr (WF_wr (WF_wr (WF_fociHeadCpu hWp _ _ _ _ _ _) _ _ (Or.inr (by omega))) _ _
      (Or.inl e1)) _ _ (Or.inl e2)) _ _ (Or.inl e3)) _ _ (Or.inl e4)) _ _ (Or.inl (by decide))) _ _ (Or.inl (by decide))
  · rw [hr, if_neg (by decide), if_pos (by decide)]
  · rw [hr, if_pos (by decide)]
  · intro k hk; omega
  · intro g _; unfold Obs.stmMem; simp [fociHead]
  · rw [hr, if_neg (by omega), if_neg (by omega), if_neg (by omega), if_neg (by omega), if_neg (by omega), if_neg (by omega),
      if_pos rfl]; omega
  · rw [hr, if_neg (by omega), if_neg (by omega), if_neg (by omega), if_pos rfl]; omega
  · rw [hr, if_neg (by omega), if_neg (by omega), if_neg (by omega), if_neg (by omega), if_neg (by omega), if_pos rfl]; rfl
  · rw [hr, if_neg (by omega), if_neg (by omega), if_neg (by omega), if_neg (by omega), if_pos rfl]; omega
  · rw [hr, if_neg (by omega), if_neg (by omega), if_pos rfl]; omega
  · intro a h0 h1 h2 h3 h4 h5 h6 h7
    rw [hr, if_neg h2, if_neg h1, if_neg h7, if_neg h4, if_neg h6, if_neg h5, if_neg h3]; rfl

theorem dispatch_foci (s : State) (d : Array Nat) (h : u8at d 0 = 66) : handlePayload s d = writeFociStm s d := by
  unfold handlePayload; rw [h]; rfl

theorem foci_first_handle_eq (sP : State) (d : Array Nat) (seg rep div tm tv nf ss sn : Nat) (hseg : seg ≤ 1) (last hasTr : Bool)
    (p0 : u8at d 0 = 66) (p1 : u8at d 1 = fociFlagByte true last hasTr) (p2 : u8at d 2 = sn) (p3 : u8at d 3 = seg)
    (p4 : u8at d 4 = tm) (p5 : u8at d 5 = nf) (p6 : u16at d 6 = ss) (p8 : u16at d 8 = div) (p10 : u16at d 10 = rep)
    (p16 : u64at d 16 = tv)
    (g1 : validateTransitionMode sP.stmSegment seg rep tm = false)
    (g2 : validateSilencerSettings sP div (sel sP.modDiv sP.modSegment) = false) :
    handlePayload sP d =
      fociDataPart (fociHead sP seg rep div tm tv nf ss) d 24 sn >>= fun s2 =>
        fociEndPart s2 (fociFlagByte true last hasTr) seg := by
  obtain ⟨b1, _, _⟩ := fociFlagByte_bits true last hasTr
  have hflag : u8at d FwLayout.FociSTMSubseq_flag_off = fociFlagByte true last hasTr := p1
  have e3 : u8at d FwLayout.FociSTMSubseq_segment_off = seg := p3
  have e10 : u16at d FwLayout.FociSTMHead_rep_off = rep := p10
  have e8 : u16at d FwLayout.FociSTMHead_freq_div_off = div := p8
  have e4 : u8at d FwLayout.FociSTMHead_transition_mode_off = tm := p4
  have e16 : u64at d FwLayout.FociSTMHead_transition_value_off = tv := p16
  have e5 : u8at d FwLayout.FociSTMHead_num_foci_off = nf := p5
  have e6 : u16at d FwLayout.FociSTMHead_sound_speed_off = ss := p6
  have e2 : u8at d FwLayout.FociSTMSubseq_send_num_off = sn := p2
  rw [dispatch_foci _ _ p0, writeFoci_begin sP d seg e3 hseg (by rw [hflag, b1]) (by rw [e10, e4]; exact g1)
    (by rw [e8]; exact g2), e10, e8, e4, e16, e5, e6, e2, hflag]
  rfl

theorem foci_next_handle_eq (s : State) (d : Array Nat) (seg sn : Nat) (last hasTr : Bool)
    (p0 : u8at d 0 = 66) (p1 : u8at d 1 = fociFlagByte false last hasTr) (p2 : u8at d 2 = sn) (p3 : u8at d 3 = seg) :
    handlePayload s d =
      fociDataPart s d 4 sn >>= fun s2 => fociEndPart s2 (fociFlagByte false last hasTr) seg := by
  obtain ⟨b1, _, _⟩ := fociFlagByte_bits false last hasTr
  have hflag : u8at d FwLayout.FociSTMSubseq_flag_off = fociFlagByte false last hasTr := p1
  have e3 : u8at d FwLayout.FociSTMSubseq_segment_off = seg := p3
  have e2 : u8at d FwLayout.FociSTMSubseq_send_num_off = sn := p2
  rw [dispatch_foci _ _ p0, writeFoci_subseq s d (by rw [hflag, b1]), e2, hflag, e3]
  rfl

/-! ### transfer through `fin` -/

theorem stmCycle_fin (s : State) (id g : Nat) : Obs.stmCycle (fin s id) g = Obs.stmCycle s g := by
  unfold Obs.stmCycle; rw [reg_fin _ _ _ (by simp [ADDR_STM_CYCLE0])]
theorem stmDiv_fin (s : State) (id g : Nat) : Obs.stmDiv (fin s id) g = Obs.stmDiv s g := by
  unfold Obs.stmDiv; rw [reg_fin _ _ _ (by simp [ADDR_STM_FREQ_DIV0])]
theorem stmRep_fin (s : State) (id g : Nat) : Obs.stmRep (fin s id) g = Obs.stmRep s g := by
  unfold Obs.stmRep; rw [reg_fin _ _ _ (by simp [ADDR_STM_REP0])]
theorem numFoci_fin (s : State) (id g : Nat) : Obs.numFoci (fin s id) g = Obs.numFoci s g := by
  unfold Obs.numFoci; rw [reg_fin _ _ _ (by simp [ADDR_STM_NUM_FOCI0])]
theorem soundSpeed_fin (s : State) (id g : Nat) : Obs.soundSpeed (fin s id) g = Obs.soundSpeed s g := by
  unfold Obs.soundSpeed; rw [reg_fin _ _ _ (by simp [ADDR_STM_SOUND_SPEED0])]
theorem isStmGainMode_fin (s : State) (id g : Nat) : Obs.isStmGainMode (fin s id) g = Obs.isStmGainMode s g := by
  have : reg (fin s id) (ADDR_STM_MODE0 + g) = reg s (ADDR_STM_MODE0 + g) := reg_fin _ _ _ (by simp [ADDR_STM_MODE0])
  unfold Obs.isStmGainMode; rw [this]
theorem reqStmSeg_fin (s : State) (id : Nat) : Obs.reqStmSeg (fin s id) = Obs.reqStmSeg s := by
  unfold Obs.reqStmSeg segReg; simp only [reg_fin _ _ _ (show ADDR_STM_REQ_RD_SEGMENT ≠ 0 by decide)]
theorem stmTransition_fin (s : State) (id : Nat) : Obs.stmTransition (fin s id) = Obs.stmTransition s := by
  unfold Obs.stmTransition reg64
  simp only [reg_fin _ _ _ (show ADDR_STM_TRANSITION_MODE ≠ 0 by decide),
    reg_fin _ _ _ (show ADDR_STM_TRANSITION_VALUE_0 ≠ 0 by decide),
    reg_fin _ _ _ (show ADDR_STM_TRANSITION_VALUE_0 + 1 ≠ 0 by decide),
    reg_fin _ _ _ (show ADDR_STM_TRANSITION_VALUE_0 + 2 ≠ 0 by decide),
    reg_fin _ _ _ (show ADDR_STM_TRANSITION_VALUE_0 + 3 ≠ 0 by decide)]

theorem FociHeld_fin {s0 s : State} {seg : Nat} {tr : Tr} {rep div ss n : Nat} {records : Array Nat} {P : Nat}
    (h : FociHeld s0 s seg tr rep div ss n records P) (id : Nat) : FociHeld s0 (fin s id) seg tr rep div ss n records P := by
  refine ⟨by intro k hk; rw [stmMem_fin]; exact h.recs k hk, by rw [stmCycle_fin]; exact h.hcycle,
    by rw [numFoci_fin]; exact h.hnf, by rw [soundSpeed_fin]; exact h.hss, by rw [stmDiv_fin]; exact h.hdiv,
    by rw [stmRep_fin]; exact h.hrep, by rw [isStmGainMode_fin]; exact h.hmode, by rw [stmMem_fin]; exact h.otherMem,
    by rw [stmDiv_fin, stmRep_fin, stmCycle_fin, isStmGainMode_fin]; exact h.otherRegs, ?_⟩
  have := h.req
  cases tr with
  | none => simp only [reqStmSeg_fin, stmTransition_fin]; exact this
  | some mv => obtain ⟨m, v⟩ := mv; simp only [reqStmSeg_fin, stmTransition_fin]; exact this

end Autd3.Rt
