import Autd3.Lemmas.RtFoci1
/-!
FociSTM, part 2: 64-bit records of the STM BRAM, cursor bit arithmetic (4096-point pages), the frame
condition `StmFrame`, and the closed form of the copy part of `write_foci_stm` (`fociDataPart_ok`).
-/
set_option linter.unusedSimpArgs false
open Autd3 Autd3.Fw Autd3.Wire Autd3.Gen.Cpu Autd3.Gen
namespace Autd3.Rt

@[simp] theorem setStmWrite_ack (s : State) (x : Nat) : (setStmWrite s x).ack = s.ack := rfl
@[simp] theorem setStmWrite_lastMsgId (s : State) (x : Nat) : (setStmWrite s x).lastMsgId = s.lastMsgId := rfl
@[simp] theorem setStmWrite_rxData (s : State) (x : Nat) : (setStmWrite s x).rxData = s.rxData := rfl
@[simp] theorem setStmWrite_readsFpgaState (s : State) (x : Nat) : (setStmWrite s x).readsFpgaState = s.readsFpgaState := rfl
@[simp] theorem setStmWrite_readsStore (s : State) (x : Nat) : (setStmWrite s x).readsStore = s.readsStore := rfl
@[simp] theorem setStmWrite_isRxDataUsed (s : State) (x : Nat) : (setStmWrite s x).isRxDataUsed = s.isRxDataUsed := rfl
@[simp] theorem setStmWrite_synchronized (s : State) (x : Nat) : (setStmWrite s x).synchronized = s.synchronized := rfl
@[simp] theorem setStmWrite_modCycle (s : State) (x : Nat) : (setStmWrite s x).modCycle = s.modCycle := rfl
@[simp] theorem setStmWrite_stmCycle (s : State) (x : Nat) : (setStmWrite s x).stmCycle = s.stmCycle := rfl
@[simp] theorem setStmWrite_stmMode (s : State) (x : Nat) : (setStmWrite s x).stmMode = s.stmMode := rfl
@[simp] theorem setStmWrite_stmRep (s : State) (x : Nat) : (setStmWrite s x).stmRep = s.stmRep := rfl
@[simp] theorem setStmWrite_stmDiv (s : State) (x : Nat) : (setStmWrite s x).stmDiv = s.stmDiv := rfl
@[simp] theorem setStmWrite_modDiv (s : State) (x : Nat) : (setStmWrite s x).modDiv = s.modDiv := rfl
@[simp] theorem setStmWrite_modRep (s : State) (x : Nat) : (setStmWrite s x).modRep = s.modRep := rfl
@[simp] theorem setStmWrite_stmSegment (s : State) (x : Nat) : (setStmWrite s x).stmSegment = s.stmSegment := rfl
@[simp] theorem setStmWrite_modSegment (s : State) (x : Nat) : (setStmWrite s x).modSegment = s.modSegment := rfl
@[simp] theorem setStmWrite_stmTrMode (s : State) (x : Nat) : (setStmWrite s x).stmTrMode = s.stmTrMode := rfl
@[simp] theorem setStmWrite_stmTrValue (s : State) (x : Nat) : (setStmWrite s x).stmTrValue = s.stmTrValue := rfl
@[simp] theorem setStmWrite_modTrMode (s : State) (x : Nat) : (setStmWrite s x).modTrMode = s.modTrMode := rfl
@[simp] theorem setStmWrite_modTrValue (s : State) (x : Nat) : (setStmWrite s x).modTrValue = s.modTrValue := rfl
@[simp] theorem setStmWrite_gainStmMode (s : State) (x : Nat) : (setStmWrite s x).gainStmMode = s.gainStmMode := rfl
@[simp] theorem setStmWrite_numFoci (s : State) (x : Nat) : (setStmWrite s x).numFoci = s.numFoci := rfl
@[simp] theorem setStmWrite_strict (s : State) (x : Nat) : (setStmWrite s x).strict = s.strict := rfl
@[simp] theorem setStmWrite_minDivI (s : State) (x : Nat) : (setStmWrite s x).minDivI = s.minDivI := rfl
@[simp] theorem setStmWrite_minDivP (s : State) (x : Nat) : (setStmWrite s x).minDivP = s.minDivP := rfl
@[simp] theorem setStmWrite_flagsInternal (s : State) (x : Nat) : (setStmWrite s x).flagsInternal = s.flagsInternal := rfl
@[simp] theorem setStmWrite_portA (s : State) (x : Nat) : (setStmWrite s x).portA = s.portA := rfl
@[simp] theorem setStmWrite_dcSysTime (s : State) (x : Nat) : (setStmWrite s x).dcSysTime = s.dcSysTime := rfl
@[simp] theorem setStmWrite_numTr (s : State) (x : Nat) : (setStmWrite s x).numTr = s.numTr := rfl
@[simp] theorem setStmWrite_ctl (s : State) (x : Nat) : (setStmWrite s x).ctl = s.ctl := rfl
@[simp] theorem setStmWrite_phaseCorr (s : State) (x : Nat) : (setStmWrite s x).phaseCorr = s.phaseCorr := rfl
@[simp] theorem setStmWrite_pwe (s : State) (x : Nat) : (setStmWrite s x).pwe = s.pwe := rfl
@[simp] theorem setStmWrite_modMem0 (s : State) (x : Nat) : (setStmWrite s x).modMem0 = s.modMem0 := rfl
@[simp] theorem setStmWrite_modMem1 (s : State) (x : Nat) : (setStmWrite s x).modMem1 = s.modMem1 := rfl
@[simp] theorem setStmWrite_stmMem0 (s : State) (x : Nat) : (setStmWrite s x).stmMem0 = s.stmMem0 := rfl
@[simp] theorem setStmWrite_stmMem1 (s : State) (x : Nat) : (setStmWrite s x).stmMem1 = s.stmMem1 := rfl
@[simp] theorem setStmWrite_modSwap (s : State) (x : Nat) : (setStmWrite s x).modSwap = s.modSwap := rfl
@[simp] theorem setStmWrite_stmSwap (s : State) (x : Nat) : (setStmWrite s x).stmSwap = s.stmSwap := rfl
@[simp] theorem setStmWrite_stmWrite (s : State) (x : Nat) : (setStmWrite s x).stmWrite = x := rfl
@[simp] theorem reg_setStmWrite (s : State) (x a : Nat) : reg (setStmWrite s x) a = reg s a := rfl
theorem stmMem_setStmWrite (s : State) (x g : Nat) : Obs.stmMem (setStmWrite s x) g = Obs.stmMem s g := rfl
theorem stmMem_wr (s : State) (a v g : Nat) : Obs.stmMem (wr s a v) g = Obs.stmMem s g := rfl

/-- record `k` (one focus, 64 bit) of an STM BRAM, as `foci_stm_drives` reads it -/
def stmRecord (m : Array Nat) (k : Nat) : Nat :=
  rd m (4 * k) + 65536 * rd m (4 * k + 1) + 4294967296 * rd m (4 * k + 2) + 281474976710656 * rd m (4 * k + 3)

/-- `bram_cpy` of `len` records starting at record `c` -/
theorem stmRecord_wrWords (m d : Array Nat) (c off len k : Nat) (hm : 4 * c + 4 * len ≤ m.size) :
    stmRecord (wrWords m (4 * c) (wordsAt d off (len * 4))) k =
      if c ≤ k ∧ k < c + len then u64at d (off + 8 * (k - c)) else stmRecord m k := by
  have hsz : (wordsAt d off (len * 4)).size = len * 4 := size_wordsAt _ _ _
  have hw : ∀ j, j < 4 → rd (wrWords m (4 * c) (wordsAt d off (len * 4))) (4 * k + j) =
      if c ≤ k ∧ k < c + len then u16at d (off + 8 * (k - c) + 2 * j) else rd m (4 * k + j) := by
    intro j hj
    rw [rd_wrWords, hsz]
    by_cases hin : c ≤ k ∧ k < c + len
    · rw [if_pos hin, if_pos (by omega), rd_wordsAt, if_pos (by omega), Nat.mod_eq_of_lt (u16at_lt _ _)]
      congr 1; omega
    · rw [if_neg hin, if_neg (by omega)]
  unfold stmRecord
  have h0 := hw 0 (by omega)
  rw [Nat.add_zero] at h0
  rw [h0, hw 1 (by omega), hw 2 (by omega), hw 3 (by omega)]
  by_cases hin : c ≤ k ∧ k < c + len
  · simp only [if_pos hin]; unfold u64at; simp only [Nat.mul_zero, Nat.add_zero]
  · simp only [if_neg hin]

/-! ### bit arithmetic of the cursor -/

theorem and_mask12 (x : Nat) : x &&& FOCI_STM_BUF_PAGE_SIZE_MASK = x % 4096 := by
  rw [show FOCI_STM_BUF_PAGE_SIZE_MASK = 2 ^ 12 - 1 from rfl, Nat.and_two_pow_sub_one_eq_mod]

theorem foci_page_bits (x : Nat) (hx : x < 65536) :
    (x &&& (65535 - FOCI_STM_BUF_PAGE_SIZE_MASK)) >>> FOCI_STM_BUF_PAGE_SIZE_WIDTH = x / 4096 := by
  rw [show 65535 - FOCI_STM_BUF_PAGE_SIZE_MASK = 61440 from rfl, show FOCI_STM_BUF_PAGE_SIZE_WIDTH = 12 from rfl,
    show 4096 = 2 ^ 12 from rfl, ← Nat.shiftRight_eq_div_pow]
  apply Nat.eq_of_testBit_eq
  intro i
  rw [Nat.testBit_shiftRight, Nat.testBit_shiftRight, Nat.testBit_and]
  by_cases hi : i < 4
  · have : Nat.testBit 61440 (12 + i) = true := by
      have : i = 0 ∨ i = 1 ∨ i = 2 ∨ i = 3 := by omega
      rcases this with h | h | h | h <;> subst h <;> decide
    rw [this, Bool.and_true]
  · have : x.testBit (12 + i) = false := by
      apply Nat.testBit_lt_two_pow
      calc x < 2 ^ 16 := hx
        _ ≤ 2 ^ (12 + i) := Nat.pow_le_pow_right (by decide) (by omega)
    rw [this, Bool.false_and]

/-! ### frame condition -/

def eraseStm (s : State) : State := { s with ctl := #[], stmMem0 := #[], stmMem1 := #[], stmWrite := 0 }

/-- `s'` differs from `s` at most in `ctl`, `stmMem0`, `stmMem1`, `stmWrite` -/
def StmFrame (s s' : State) : Prop := eraseStm s' = eraseStm s

theorem StmFrame.refl (s : State) : StmFrame s s := rfl
theorem StmFrame.trans {a b c : State} (h1 : StmFrame a b) (h2 : StmFrame b c) : StmFrame a c := by
  unfold StmFrame at *; rw [h2, h1]
theorem StmFrame_wr (s : State) (a v : Nat) : StmFrame s (wr s a v) := rfl
theorem StmFrame_setStmWrite (s : State) (c : Nat) : StmFrame s (setStmWrite s c) := rfl
theorem StmFrame_setStmMem (s : State) (g : Nat) (m : Array Nat) : StmFrame s (setStmMem s g m) := by
  unfold setStmMem; split <;> rfl
theorem StmFrame.ack {s s' : State} (h : StmFrame s s') : s'.ack = s.ack :=
  show (eraseStm s').ack = (eraseStm s).ack from congrArg State.ack h
theorem StmFrame.lastMsgId {s s' : State} (h : StmFrame s s') : s'.lastMsgId = s.lastMsgId :=
  show (eraseStm s').lastMsgId = (eraseStm s).lastMsgId from congrArg State.lastMsgId h
theorem StmFrame.rxData {s s' : State} (h : StmFrame s s') : s'.rxData = s.rxData :=
  show (eraseStm s').rxData = (eraseStm s).rxData from congrArg State.rxData h
theorem StmFrame.readsFpgaState {s s' : State} (h : StmFrame s s') : s'.readsFpgaState = s.readsFpgaState :=
  show (eraseStm s').readsFpgaState = (eraseStm s).readsFpgaState from congrArg State.readsFpgaState h
theorem StmFrame.readsStore {s s' : State} (h : StmFrame s s') : s'.readsStore = s.readsStore :=
  show (eraseStm s').readsStore = (eraseStm s).readsStore from congrArg State.readsStore h
theorem StmFrame.isRxDataUsed {s s' : State} (h : StmFrame s s') : s'.isRxDataUsed = s.isRxDataUsed :=
  show (eraseStm s').isRxDataUsed = (eraseStm s).isRxDataUsed from congrArg State.isRxDataUsed h
theorem StmFrame.synchronized {s s' : State} (h : StmFrame s s') : s'.synchronized = s.synchronized :=
  show (eraseStm s').synchronized = (eraseStm s).synchronized from congrArg State.synchronized h
theorem StmFrame.modCycle {s s' : State} (h : StmFrame s s') : s'.modCycle = s.modCycle :=
  show (eraseStm s').modCycle = (eraseStm s).modCycle from congrArg State.modCycle h
theorem StmFrame.stmCycle {s s' : State} (h : StmFrame s s') : s'.stmCycle = s.stmCycle :=
  show (eraseStm s').stmCycle = (eraseStm s).stmCycle from congrArg State.stmCycle h
theorem StmFrame.stmMode {s s' : State} (h : StmFrame s s') : s'.stmMode = s.stmMode :=
  show (eraseStm s').stmMode = (eraseStm s).stmMode from congrArg State.stmMode h
theorem StmFrame.stmRep {s s' : State} (h : StmFrame s s') : s'.stmRep = s.stmRep :=
  show (eraseStm s').stmRep = (eraseStm s).stmRep from congrArg State.stmRep h
theorem StmFrame.stmDiv {s s' : State} (h : StmFrame s s') : s'.stmDiv = s.stmDiv :=
  show (eraseStm s').stmDiv = (eraseStm s).stmDiv from congrArg State.stmDiv h
theorem StmFrame.modDiv {s s' : State} (h : StmFrame s s') : s'.modDiv = s.modDiv :=
  show (eraseStm s').modDiv = (eraseStm s).modDiv from congrArg State.modDiv h
theorem StmFrame.modRep {s s' : State} (h : StmFrame s s') : s'.modRep = s.modRep :=
  show (eraseStm s').modRep = (eraseStm s).modRep from congrArg State.modRep h
theorem StmFrame.stmSegment {s s' : State} (h : StmFrame s s') : s'.stmSegment = s.stmSegment :=
  show (eraseStm s').stmSegment = (eraseStm s).stmSegment from congrArg State.stmSegment h
theorem StmFrame.modSegment {s s' : State} (h : StmFrame s s') : s'.modSegment = s.modSegment :=
  show (eraseStm s').modSegment = (eraseStm s).modSegment from congrArg State.modSegment h
theorem StmFrame.stmTrMode {s s' : State} (h : StmFrame s s') : s'.stmTrMode = s.stmTrMode :=
  show (eraseStm s').stmTrMode = (eraseStm s).stmTrMode from congrArg State.stmTrMode h
theorem StmFrame.stmTrValue {s s' : State} (h : StmFrame s s') : s'.stmTrValue = s.stmTrValue :=
  show (eraseStm s').stmTrValue = (eraseStm s).stmTrValue from congrArg State.stmTrValue h
theorem StmFrame.modTrMode {s s' : State} (h : StmFrame s s') : s'.modTrMode = s.modTrMode :=
  show (eraseStm s').modTrMode = (eraseStm s).modTrMode from congrArg State.modTrMode h
theorem StmFrame.modTrValue {s s' : State} (h : StmFrame s s') : s'.modTrValue = s.modTrValue :=
  show (eraseStm s').modTrValue = (eraseStm s).modTrValue from congrArg State.modTrValue h
theorem StmFrame.gainStmMode {s s' : State} (h : StmFrame s s') : s'.gainStmMode = s.gainStmMode :=
  show (eraseStm s').gainStmMode = (eraseStm s).gainStmMode from congrArg State.gainStmMode h
theorem StmFrame.numFoci {s s' : State} (h : StmFrame s s') : s'.numFoci = s.numFoci :=
  show (eraseStm s').numFoci = (eraseStm s).numFoci from congrArg State.numFoci h
theorem StmFrame.strict {s s' : State} (h : StmFrame s s') : s'.strict = s.strict :=
  show (eraseStm s').strict = (eraseStm s).strict from congrArg State.strict h
theorem StmFrame.minDivI {s s' : State} (h : StmFrame s s') : s'.minDivI = s.minDivI :=
  show (eraseStm s').minDivI = (eraseStm s).minDivI from congrArg State.minDivI h
theorem StmFrame.minDivP {s s' : State} (h : StmFrame s s') : s'.minDivP = s.minDivP :=
  show (eraseStm s').minDivP = (eraseStm s).minDivP from congrArg State.minDivP h
theorem StmFrame.flagsInternal {s s' : State} (h : StmFrame s s') : s'.flagsInternal = s.flagsInternal :=
  show (eraseStm s').flagsInternal = (eraseStm s).flagsInternal from congrArg State.flagsInternal h
theorem StmFrame.portA {s s' : State} (h : StmFrame s s') : s'.portA = s.portA :=
  show (eraseStm s').portA = (eraseStm s).portA from congrArg State.portA h
theorem StmFrame.dcSysTime {s s' : State} (h : StmFrame s s') : s'.dcSysTime = s.dcSysTime :=
  show (eraseStm s').dcSysTime = (eraseStm s).dcSysTime from congrArg State.dcSysTime h
theorem StmFrame.numTr {s s' : State} (h : StmFrame s s') : s'.numTr = s.numTr :=
  show (eraseStm s').numTr = (eraseStm s).numTr from congrArg State.numTr h
theorem StmFrame.phaseCorr {s s' : State} (h : StmFrame s s') : s'.phaseCorr = s.phaseCorr :=
  show (eraseStm s').phaseCorr = (eraseStm s).phaseCorr from congrArg State.phaseCorr h
theorem StmFrame.pwe {s s' : State} (h : StmFrame s s') : s'.pwe = s.pwe :=
  show (eraseStm s').pwe = (eraseStm s).pwe from congrArg State.pwe h
theorem StmFrame.modMem0 {s s' : State} (h : StmFrame s s') : s'.modMem0 = s.modMem0 :=
  show (eraseStm s').modMem0 = (eraseStm s).modMem0 from congrArg State.modMem0 h
theorem StmFrame.modMem1 {s s' : State} (h : StmFrame s s') : s'.modMem1 = s.modMem1 :=
  show (eraseStm s').modMem1 = (eraseStm s).modMem1 from congrArg State.modMem1 h
theorem StmFrame.modSwap {s s' : State} (h : StmFrame s s') : s'.modSwap = s.modSwap :=
  show (eraseStm s').modSwap = (eraseStm s).modSwap from congrArg State.modSwap h
theorem StmFrame.stmSwap {s s' : State} (h : StmFrame s s') : s'.stmSwap = s.stmSwap :=
  show (eraseStm s').stmSwap = (eraseStm s).stmSwap from congrArg State.stmSwap h

theorem stmMem_setStmMem_same (s : State) (g : Nat) (m : Array Nat) : Obs.stmMem (setStmMem s g m) g = m := by
  unfold Obs.stmMem setStmMem; by_cases h : g = 0 <;> simp [h]
theorem stmMem_setStmMem_other (s : State) (g g' : Nat) (m : Array Nat) (h : (g' = 0) ≠ (g = 0)) :
    Obs.stmMem (setStmMem s g m) g' = Obs.stmMem s g' := by
  unfold Obs.stmMem setStmMem
  by_cases h1 : g = 0 <;> by_cases h2 : g' = 0 <;> simp [h1, h2] at h ⊢
theorem sizeS0_setStmMem (s : State) (g : Nat) (m : Array Nat) (n : Nat) (h0 : s.stmMem0.size = n) (hm : m.size = n) :
    (setStmMem s g m).stmMem0.size = n := by unfold setStmMem; split <;> simp [*]
theorem sizeS1_setStmMem (s : State) (g : Nat) (m : Array Nat) (n : Nat) (h0 : s.stmMem1.size = n) (hm : m.size = n) :
    (setStmMem s g m).stmMem1.size = n := by unfold setStmMem; split <;> simp [*]

/-- `WF` across an STM-only change that keeps the sampling-division registers positive -/
theorem WF_of_StmFrame {s s' : State} (hW : WF s) (hf : StmFrame s s') (hc : s'.ctl.size = 256)
    (h0 : s'.stmMem0.size = 262144) (h1 : s'.stmMem1.size = 262144)
    (hr : ∀ a, a < 80 → reg s' a = reg s a) (h85 : 1 ≤ reg s' ADDR_STM_FREQ_DIV0) (h86 : 1 ≤ reg s' ADDR_STM_FREQ_DIV1) :
    WF s' := by
  refine ⟨hc, by rw [hf.phaseCorr]; exact hW.phaseCorr, by rw [hf.pwe]; exact hW.pwe,
    by rw [hf.modMem0]; exact hW.modMem0, by rw [hf.modMem1]; exact hW.modMem1, h0, h1,
    by rw [hf.numTr]; exact hW.numTr,
    by rw [hf.flagsInternal]; exact hW.flags, by rw [hf.modSwap]; exact hW.modSwap, by rw [hf.stmSwap]; exact hW.stmSwap,
    ?_, ?_, h85, h86⟩
  · rw [hr _ (by decide)]; exact hW.modDiv0
  · rw [hr _ (by decide)]; exact hW.modDiv1

end Autd3.Rt
