import Autd3.Lemmas.StateByte5
/-!
C17, history level, part 6: a concrete history for the non-vacuity examples.  `ClSw s`: both swap chains are as `Clear`
left them (any index) — from such a device every clock update returns.
-/
set_option linter.unusedSimpArgs false
set_option linter.unusedVariables false
open Autd3 Autd3.Fw Autd3.Wire Autd3.Gen.Cpu Autd3.Gen Autd3.Rt Autd3.Hist
namespace Autd3.SB

def ClSw (s : State) : Prop := (∃ t0, P02.SwapCleared s.modSwap t0 2) ∧ (∃ t0, P02.SwapCleared s.stmSwap t0 1)

theorem clSw_new (numTr now : Nat) (hn : numTr ≤ 249) (p0 : State) (hp0 : Fw.new numTr now = .ok p0) : ClSw p0 := by
  have e2 := P02.new_eq numTr now hn
  rw [hp0] at e2
  simp only [Except.ok.injEq] at e2
  have c := P02.cleared_clearResult _ (P02.wf_preClear numTr now hn)
  rw [e2]
  exact ⟨⟨_, c.modSwap⟩, ⟨_, c.stmSwap⟩⟩

theorem clSw_tick {r th : Bool} {t : Tx} (s : State) (i : Inv r th s t) (c : ClSw s) (tm : Nat) :
    ∃ s', updateWithSysTime s tm = .ok s' ∧ ClSw s' := by
  obtain ⟨⟨a, ca⟩, ⟨b, cb⟩⟩ := c
  have hP := p02wf_of_wf i.wf
  have e1 := P02.update_of_swapCleared _ _ _ ca hP.modSwap (by decide) (gpioIn s) tm
  have e2 := P02.update_of_swapCleared _ _ _ cb hP.stmSwap (by decide) (gpioIn s) tm
  refine ⟨_, P02.updateWithSysTime_eq s tm _ _ e1 e2, ?_, ?_⟩
  · rw [P02.updCore_modSwap]
    exact ⟨a, ⟨ca.cur, ca.state, ca.stop, ca.extMode, ca.mode, ca.sysTime, ca.freqDiv0, ca.cycle0, ca.ticOff0⟩⟩
  · rw [P02.updCore_stmSwap]
    exact ⟨b, ⟨cb.cur, cb.state, cb.stop, cb.extMode, cb.mode, cb.sysTime, cb.freqDiv0, cb.cycle0, cb.ticOff0⟩⟩

theorem clSw_thermo (s : State) (c : ClSw s) (on : Bool) : ClSw (setThermo s on) := c

/-- a complete ReadsFPGAState send leaves both swap chains alone -/
theorem reads_send_swaps (v : Bool) (s : State) (t t' : Tx) (s' : State) (hT : TxOK t)
    (h : Sends (.readsFpgaState v) s t t' s') : s'.modSwap = s.modSwap ∧ s'.stmSwap = s.stmSwap := by
  have ht' : t.payload.size = 622 := hT
  have hfit : 0 + Tuple.cfgLen (.readsFpgaState v) ≤ t.payload.size := by
    have := Tuple.cfgLen_le (.readsFpgaState v); omega
  obtain ⟨_, hr, ha⟩ := sends_one_inv _ s t t' s' _ _ _ (Tuple.cfg_pending _ rfl)
    (Tuple.cfg_pack (.readsFpgaState v) rfl s.numTr t.payload 0 hfit) rfl h
  have htag := Tuple.cfg_tag (.readsFpgaState v) rfl t.payload 0 hfit
  rcases ecatRecv_accept s s' ⟨nextId t, 0, _⟩ (nextId_lt t) rfl hr ha with h0 | ⟨s1, a, hh, rfl⟩
  · rw [h0]; exact ⟨rfl, rfl⟩
  · rw [hp_reads _ _ htag] at hh
    obtain ⟨r, hr⟩ := pre_eq s (nextId t)
    rw [hr] at hh
    cases hh
    exact ⟨rfl, rfl⟩

/-- the example history: sensor asserted, clock, state reading switched on, clock, sensor off and on again -/
def exHist : List HEv :=
  [.thermo true, .tick 1000, .send (.readsFpgaState true), .tick 2000, .thermo false, .thermo true]

theorem exHist_runs (now : Nat) (p0 : State) (hp0 : Fw.new 249 now = .ok p0) (t0 : Tx) (ht0 : TxOK t0) :
    ∃ s t, RunE p0 t0 exHist s t ∧ ClSw s ∧ Inv true true s t := by
  have i0 := inv_new 249 now (by decide) p0 hp0 t0 ht0
  have c0 := clSw_new 249 now (by decide) p0 hp0
  have i1 := inv_thermo i0 true
  have c1 := clSw_thermo p0 c0 true
  obtain ⟨s2, u2, c2⟩ := clSw_tick _ i1 c1 1000
  have i2 := inv_tick i1 u2
  obtain ⟨t3, s3, hS⟩ := legal_sends s2 t0 i2.wf i2.tx i2.fresh (.readsFpgaState true) trivial
  have i3 := inv_send i2 (dg := .readsFpgaState true) trivial hS
  have e3 := reads_send_swaps true s2 t0 t3 s3 i2.tx hS
  have c3 : ClSw s3 := by unfold ClSw; rw [e3.1, e3.2]; exact c2
  obtain ⟨s4, u4, c4⟩ := clSw_tick _ i3 c3 2000
  have i4 := inv_tick i3 u4
  have i5 := inv_thermo i4 false
  have i6 := inv_thermo i5 true
  exact ⟨_, _, RunE.thermo (RunE.tick u2 (RunE.send (dg := .readsFpgaState true) trivial hS
    (RunE.tick u4 (RunE.thermo (RunE.thermo (RunE.nil _ _)))))), clSw_thermo _ (clSw_thermo _ c4 false) true, i6⟩

end Autd3.SB
