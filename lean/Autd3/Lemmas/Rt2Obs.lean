import Autd3.Lemmas.Rt2Send
/-!
Footprints, part 4: what the footprints mean for the read-back accessors `Obs.*`.
-/
open Autd3 Autd3.Fw Autd3.Wire Autd3.Gen.Cpu Autd3.Gen
namespace Autd3.Rt

/-- everything the STM read-back depends on -/
structure StmSame (s s' : State) : Prop where
  mem0 : s'.stmMem0 = s.stmMem0
  mem1 : s'.stmMem1 = s.stmMem1
  swap : s'.stmSwap = s.stmSwap
  phaseCorr : s'.phaseCorr = s.phaseCorr
  numTr : s'.numTr = s.numTr
  regs : ∀ a, 80 ≤ a → a ≤ 99 → reg s' a = reg s a
  cpu : s'.stmCycle = s.stmCycle ∧ s'.stmMode = s.stmMode ∧ s'.stmRep = s.stmRep ∧ s'.stmDiv = s.stmDiv ∧
    s'.stmSegment = s.stmSegment

/-- everything the modulation read-back depends on -/
structure ModSame (s s' : State) : Prop where
  mem0 : s'.modMem0 = s.modMem0
  mem1 : s'.modMem1 = s.modMem1
  swap : s'.modSwap = s.modSwap
  regs : ∀ a, 32 ≤ a → a ≤ 45 → reg s' a = reg s a
  cpu : s'.modDiv = s.modDiv ∧ s'.modRep = s.modRep ∧ s'.modSegment = s.modSegment

/-- state no data datagram addresses: phase correction, pulse-width table, silencer and debug registers,
FPGA state/version registers, CPU-side configuration -/
structure RestSame (s s' : State) : Prop where
  phaseCorr : s'.phaseCorr = s.phaseCorr
  pwe : s'.pwe = s.pwe
  regs : ∀ a, a ≠ 0 → (a < 32 ∨ (46 ≤ a ∧ a < 80) ∨ 100 ≤ a) → reg s' a = reg s a
  cpu : s'.strict = s.strict ∧ s'.minDivI = s.minDivI ∧ s'.minDivP = s.minDivP ∧ s'.portA = s.portA ∧
    s'.readsFpgaState = s.readsFpgaState ∧ s'.flagsInternal = s.flagsInternal ∧ s'.dcSysTime = s.dcSysTime ∧
    s'.numTr = s.numTr ∧ s'.synchronized = s.synchronized

theorem StmSame_of_foot {s s' : State} (h : Foot eraseMI TM s s') : StmSame s s' ∧ RestSame s s' := by
  have e := h.eq
  have f : ∀ {α : Type} (p : State → α), p (eraseMI s') = p (eraseMI s) := fun p => congrArg p e
  refine ⟨⟨f State.stmMem0, f State.stmMem1, f State.stmSwap, f State.phaseCorr, f State.numTr, ?_,
    f State.stmCycle, f State.stmMode, f State.stmRep, f State.stmDiv, f State.stmSegment⟩,
    ⟨f State.phaseCorr, f State.pwe, ?_, f State.strict, f State.minDivI, f State.minDivP, f State.portA,
      f State.readsFpgaState, f State.flagsInternal, f State.dcSysTime, f State.numTr, f State.synchronized⟩⟩
  · intro a h1 h2; exact h.regs a (by unfold TM; omega)
  · intro a h0 h1; exact h.regs a (by unfold TM; omega)

theorem ModSame_of_foot {T : Nat → Prop} {s s' : State} (h : Foot eraseSI T s s')
    (hT : ∀ a, T a → a = 0 ∨ (80 ≤ a ∧ a ≤ 99)) : ModSame s s' ∧ RestSame s s' := by
  have e := h.eq
  have f : ∀ {α : Type} (p : State → α), p (eraseSI s') = p (eraseSI s) := fun p => congrArg p e
  refine ⟨⟨f State.modMem0, f State.modMem1, f State.modSwap, ?_, f State.modDiv, f State.modRep, f State.modSegment⟩,
    ⟨f State.phaseCorr, f State.pwe, ?_, f State.strict, f State.minDivI, f State.minDivP, f State.portA,
      f State.readsFpgaState, f State.flagsInternal, f State.dcSysTime, f State.numTr, f State.synchronized⟩⟩
  · intro a h1 h2; exact h.regs a (fun hh => by have := hT a hh; omega)
  · intro a h0 h1; exact h.regs a (fun hh => by have := hT a hh; omega)

theorem TG_sub (a : Nat) (h : TG a) : a = 0 ∨ (80 ≤ a ∧ a ≤ 99) := by unfold TG at h; omega
theorem TF_sub (seg : Nat) (hseg : seg ≤ 1) (a : Nat) (h : TF seg a) : a = 0 ∨ (80 ≤ a ∧ a ≤ 99) := by
  unfold TF TG at h; omega

/-! ### read-back accessors -/

theorem obs_stm_same {s s' : State} (h : StmSame s s') :
    (∀ g, Obs.stmMem s' g = Obs.stmMem s g) ∧
    (∀ g, g ≤ 1 → Obs.stmCycle s' g = Obs.stmCycle s g ∧ Obs.stmDiv s' g = Obs.stmDiv s g ∧
      Obs.stmRep s' g = Obs.stmRep s g ∧ Obs.isStmGainMode s' g = Obs.isStmGainMode s g ∧
      Obs.soundSpeed s' g = Obs.soundSpeed s g ∧ Obs.numFoci s' g = Obs.numFoci s g ∧
      ∀ idx, Obs.drivesAt s' g idx = Obs.drivesAt s g idx) ∧
    Obs.reqStmSeg s' = Obs.reqStmSeg s ∧ Obs.stmTransition s' = Obs.stmTransition s ∧
    Obs.currentStmSeg s' = Obs.currentStmSeg s ∧ Obs.currentStmIdx s' = Obs.currentStmIdx s := by
  have hm : ∀ g, Obs.stmMem s' g = Obs.stmMem s g := by intro g; unfold Obs.stmMem; rw [h.mem0, h.mem1]
  have hpc : ∀ i, Obs.phaseCorrAt s' i = Obs.phaseCorrAt s i := by intro i; unfold Obs.phaseCorrAt; rw [h.phaseCorr]
  refine ⟨hm, ?_, ?_, ?_, ?_, ?_⟩
  · intro g hg
    have r1 := h.regs (ADDR_STM_CYCLE0 + g) (by simp only [ADDR_STM_CYCLE0]; omega) (by simp only [ADDR_STM_CYCLE0]; omega)
    have r2 := h.regs (ADDR_STM_FREQ_DIV0 + g) (by simp only [ADDR_STM_FREQ_DIV0]; omega) (by simp only [ADDR_STM_FREQ_DIV0]; omega)
    have r3 := h.regs (ADDR_STM_REP0 + g) (by simp only [ADDR_STM_REP0]; omega) (by simp only [ADDR_STM_REP0]; omega)
    have r4 := h.regs (ADDR_STM_MODE0 + g) (by simp only [ADDR_STM_MODE0]; omega) (by simp only [ADDR_STM_MODE0]; omega)
    have r5 := h.regs (ADDR_STM_SOUND_SPEED0 + g) (by simp only [ADDR_STM_SOUND_SPEED0]; omega) (by simp only [ADDR_STM_SOUND_SPEED0]; omega)
    have r6 := h.regs (ADDR_STM_NUM_FOCI0 + g) (by simp only [ADDR_STM_NUM_FOCI0]; omega) (by simp only [ADDR_STM_NUM_FOCI0]; omega)
    have e4 : Obs.isStmGainMode s' g = Obs.isStmGainMode s g := by unfold Obs.isStmGainMode; rw [r4]
    have e5 : Obs.soundSpeed s' g = Obs.soundSpeed s g := by unfold Obs.soundSpeed; rw [r5]
    have e6 : Obs.numFoci s' g = Obs.numFoci s g := by unfold Obs.numFoci; rw [r6]
    refine ⟨by unfold Obs.stmCycle; rw [r1], by unfold Obs.stmDiv; rw [r2], by unfold Obs.stmRep; rw [r3], e4, e5, e6, ?_⟩
    intro idx
    unfold Obs.drivesAt Obs.gainDrives Obs.fociDrives Obs.fociDrive
    simp only [e4, e5, e6, hm, hpc, h.numTr]
  · unfold Obs.reqStmSeg segReg; simp only [h.regs ADDR_STM_REQ_RD_SEGMENT (by decide) (by decide)]
  · unfold Obs.stmTransition reg64
    simp only [h.regs ADDR_STM_TRANSITION_MODE (by decide) (by decide),
      h.regs ADDR_STM_TRANSITION_VALUE_0 (by decide) (by decide),
      h.regs (ADDR_STM_TRANSITION_VALUE_0 + 1) (by decide) (by decide),
      h.regs (ADDR_STM_TRANSITION_VALUE_0 + 2) (by decide) (by decide),
      h.regs (ADDR_STM_TRANSITION_VALUE_0 + 3) (by decide) (by decide)]
  · unfold Obs.currentStmSeg; rw [h.swap]
  · unfold Obs.currentStmIdx; rw [h.swap]

theorem obs_mod_same {s s' : State} (h : ModSame s s') :
    (∀ g, Obs.modMem s' g = Obs.modMem s g) ∧
    (∀ g, g ≤ 1 → Obs.modCycle s' g = Obs.modCycle s g ∧ Obs.modDiv s' g = Obs.modDiv s g ∧
      Obs.modRep s' g = Obs.modRep s g ∧ Obs.modBuffer s' g = Obs.modBuffer s g) ∧
    Obs.reqModSeg s' = Obs.reqModSeg s ∧ Obs.modTransition s' = Obs.modTransition s ∧
    Obs.currentModSeg s' = Obs.currentModSeg s ∧ Obs.currentModIdx s' = Obs.currentModIdx s := by
  have hm : ∀ g, Obs.modMem s' g = Obs.modMem s g := by intro g; unfold Obs.modMem; rw [h.mem0, h.mem1]
  refine ⟨hm, ?_, ?_, ?_, ?_, ?_⟩
  · intro g hg
    have r1 := h.regs (ADDR_MOD_CYCLE0 + g) (by simp only [ADDR_MOD_CYCLE0]; omega) (by simp only [ADDR_MOD_CYCLE0]; omega)
    have r2 := h.regs (ADDR_MOD_FREQ_DIV0 + g) (by simp only [ADDR_MOD_FREQ_DIV0]; omega) (by simp only [ADDR_MOD_FREQ_DIV0]; omega)
    have r3 := h.regs (ADDR_MOD_REP0 + g) (by simp only [ADDR_MOD_REP0]; omega) (by simp only [ADDR_MOD_REP0]; omega)
    have e1 : Obs.modCycle s' g = Obs.modCycle s g := by unfold Obs.modCycle; rw [r1]
    refine ⟨e1, by unfold Obs.modDiv; rw [r2], by unfold Obs.modRep; rw [r3], ?_⟩
    unfold Obs.modBuffer Obs.modAt
    simp only [e1, hm]
  · unfold Obs.reqModSeg segReg; simp only [h.regs ADDR_MOD_REQ_RD_SEGMENT (by decide) (by decide)]
  · unfold Obs.modTransition reg64
    simp only [h.regs ADDR_MOD_TRANSITION_MODE (by decide) (by decide),
      h.regs ADDR_MOD_TRANSITION_VALUE_0 (by decide) (by decide),
      h.regs (ADDR_MOD_TRANSITION_VALUE_0 + 1) (by decide) (by decide),
      h.regs (ADDR_MOD_TRANSITION_VALUE_0 + 2) (by decide) (by decide),
      h.regs (ADDR_MOD_TRANSITION_VALUE_0 + 3) (by decide) (by decide)]
  · unfold Obs.currentModSeg; rw [h.swap]
  · unfold Obs.currentModIdx; rw [h.swap]

theorem obs_rest_same {s s' : State} (h : RestSame s s') :
    Obs.phaseCorrection s' = Obs.phaseCorrection s ∧ Obs.pweTable s' = Obs.pweTable s ∧
    Obs.silencerUpdateRate s' = Obs.silencerUpdateRate s ∧ Obs.silencerCompletionSteps s' = Obs.silencerCompletionSteps s ∧
    Obs.silencerFixedUpdateRateMode s' = Obs.silencerFixedUpdateRateMode s ∧
    Obs.debugTypes s' = Obs.debugTypes s ∧ Obs.debugValues s' = Obs.debugValues s ∧ Obs.fpgaStateReg s' = Obs.fpgaStateReg s := by
  have hr : ∀ a, a ≠ 0 → (a < 32 ∨ (46 ≤ a ∧ a < 80) ∨ 100 ≤ a) → reg s' a = reg s a := h.regs
  refine ⟨?_, ?_, ?_, ?_, ?_, ?_, ?_, ?_⟩
  · unfold Obs.phaseCorrection Obs.phaseCorrAt; rw [h.phaseCorr, h.cpu.2.2.2.2.2.2.2.1]
  · unfold Obs.pweTable; rw [h.pwe]
  · unfold Obs.silencerUpdateRate; rw [hr _ (by decide) (by decide), hr _ (by decide) (by decide)]
  · unfold Obs.silencerCompletionSteps; rw [hr _ (by decide) (by decide), hr _ (by decide) (by decide)]
  · unfold Obs.silencerFixedUpdateRateMode; rw [hr _ (by decide) (by decide)]
  · unfold Obs.debugTypes
    rw [hr ADDR_DEBUG_VALUE0_3 (by decide) (by decide), hr ADDR_DEBUG_VALUE1_3 (by decide) (by decide),
      hr ADDR_DEBUG_VALUE2_3 (by decide) (by decide), hr ADDR_DEBUG_VALUE3_3 (by decide) (by decide)]
  · unfold Obs.debugValues reg64
    simp only [hr ADDR_DEBUG_VALUE0_0 (by decide) (by decide), hr (ADDR_DEBUG_VALUE0_0 + 1) (by decide) (by decide),
      hr (ADDR_DEBUG_VALUE0_0 + 2) (by decide) (by decide), hr (ADDR_DEBUG_VALUE0_0 + 3) (by decide) (by decide),
      hr ADDR_DEBUG_VALUE1_0 (by decide) (by decide), hr (ADDR_DEBUG_VALUE1_0 + 1) (by decide) (by decide),
      hr (ADDR_DEBUG_VALUE1_0 + 2) (by decide) (by decide), hr (ADDR_DEBUG_VALUE1_0 + 3) (by decide) (by decide),
      hr ADDR_DEBUG_VALUE2_0 (by decide) (by decide), hr (ADDR_DEBUG_VALUE2_0 + 1) (by decide) (by decide),
      hr (ADDR_DEBUG_VALUE2_0 + 2) (by decide) (by decide), hr (ADDR_DEBUG_VALUE2_0 + 3) (by decide) (by decide),
      hr ADDR_DEBUG_VALUE3_0 (by decide) (by decide), hr (ADDR_DEBUG_VALUE3_0 + 1) (by decide) (by decide),
      hr (ADDR_DEBUG_VALUE3_0 + 2) (by decide) (by decide), hr (ADDR_DEBUG_VALUE3_0 + 3) (by decide) (by decide)]
  · unfold Obs.fpgaStateReg; rw [hr _ (by decide) (by decide)]

end Autd3.Rt
