import Autd3.Lemmas.Hist9a
import Autd3.Lemmas.SwapWF
/-!
History independence (C02), part 9b: the time-dependent part of the state — `Swapchain::set` followed by
`Swapchain::update`, straight from the definitions in `Model/FwBasic.lean`.

`set_now`: a request that takes effect at once (the requested segment is already playing, or the loop count is
0xFFFF) leaves the chain in `InfiniteLoop` on the requested segment with `stop = false`, tick offset 0,
`ext_mode = (mode is Ext)`, whatever the chain held before.  `update_playing`: on such a chain (not in Ext mode)
one `update` at ANY time `t` never panics and sets `cur_idx = ((fpga_sys_time(t) >> 9) / freq_div[cur]) % cycle[cur]`.
-/
open Autd3 Autd3.Fw Autd3.Wire Autd3.Gen.Cpu Autd3.Gen Autd3.Rt
namespace Autd3.Hist

/-- `Swapchain::set` when the request takes effect at once -/
theorem set_now (w : Swap) (hw : SwapOK w) (t rep fd cyc seg : Nat) (mode : TMode) (h : w.cur = seg ∨ rep = 0xFFFF) :
    ∃ w', w.set t rep fd cyc seg mode = .ok w' ∧ w'.cur = seg ∧ w'.state = .infiniteLoop ∧ w'.stop = false ∧
      w'.extMode = (mode == TMode.ext) ∧ w'.ticOff = setSel w.ticOff seg 0 ∧ w'.freqDiv = setSel w.freqDiv seg fd ∧
      w'.cycle = setSel w.cycle seg cyc ∧ w'.req = w.req ∧ w'.mode = mode ∧ w'.sysTime = t ∧ w'.rep = w.rep ∧
      w'.startLap = w.startLap ∧ w'.curIdx = w.curIdx := by
  unfold Swap.set
  by_cases hc : w.cur = seg
  · subst hc
    obtain ⟨l, i, hl⟩ := Rt.lapAndIdx_ok { w with stop := false, extMode := mode == TMode.ext } hw w.cur t
    simp only [if_true, hl, bind, Except.bind, pure, Except.pure]
    exact ⟨_, rfl, rfl, rfl, rfl, rfl, rfl, rfl, rfl, rfl, rfl, rfl, rfl, rfl, rfl⟩
  · have hr : rep = 0xFFFF := by rcases h with h | h; exact absurd h hc; exact h
    obtain ⟨l, i, hl⟩ := Rt.lapAndIdx_ok { w with stop := false, cur := seg, extMode := mode == TMode.ext } hw seg t
    simp only [hc, hr, if_true, if_false, hl, bind, Except.bind, pure, Except.pure]
    exact ⟨_, rfl, rfl, rfl, rfl, rfl, rfl, rfl, rfl, rfl, rfl, rfl, rfl, rfl, rfl⟩

theorem sel_setSel_eq (p : Nat × Nat) (seg v : Nat) : sel (setSel p seg v) seg = v := by
  unfold sel setSel; split <;> simp [*]

/-- `Swapchain::update` on a chain that plays an infinite loop, not stopped, not in Ext mode, tick offset 0 -/
theorem update_playing (w : Swap) (hw : SwapOK w) (g : Nat → Bool) (t : Nat) (hst : w.state = .infiniteLoop)
    (hstop : w.stop = false) (hext : w.extMode = false) (htic : sel w.ticOff w.cur = 0) :
    w.update g t = .ok { w with curIdx := ((fpgaSysTime t >>> 9) / sel w.freqDiv w.cur) % sel w.cycle w.cur } := by
  obtain ⟨h1, h2, h3, h4⟩ := hw
  have hf : ∀ seg, 1 ≤ sel w.freqDiv seg := by intro seg; unfold sel; split <;> assumption
  have hc : ∀ seg, 1 ≤ sel w.cycle seg := by intro seg; unfold sel; split <;> assumption
  have hl : ∀ seg x, w.lapAndIdx seg x =
      .ok (((fpgaSysTime x >>> 9) / sel w.freqDiv seg) / sel w.cycle seg,
           ((fpgaSysTime x >>> 9) / sel w.freqDiv seg) % sel w.cycle seg) := by
    intro seg x
    unfold Swap.lapAndIdx
    simp only []
    rw [if_neg (by have := hf seg; omega), if_neg (by have := hc seg; omega)]
  rw [Fw.update_eq, hl w.req w.sysTime, hl w.req t]
  generalize ((fpgaSysTime w.sysTime >>> 9) / sel w.freqDiv w.req) / sel w.cycle w.req = A
  generalize ((fpgaSysTime t >>> 9) / sel w.freqDiv w.req) / sel w.cycle w.req = B
  generalize ((fpgaSysTime t >>> 9) / sel w.freqDiv w.req) % sel w.cycle w.req = C
  have p1 : w.phase1 g t A B C = .ok w := by
    unfold Swap.phase1; rw [hst]; simp only [hext, Bool.false_eq_true, false_and, if_false]; rfl
  have p2 : w.phase2 t = .ok { w with curIdx := ((fpgaSysTime t >>> 9) / sel w.freqDiv w.cur) % sel w.cycle w.cur } := by
    unfold Swap.phase2
    rw [hl w.cur t]
    generalize hD : ((fpgaSysTime t >>> 9) / sel w.freqDiv w.cur) % sel w.cycle w.cur = D
    have hlt : D < sel w.cycle w.cur := by rw [← hD]; exact Nat.mod_lt _ (hc w.cur)
    simp only [bind, Except.bind, hstop, Bool.false_eq_true, if_false, htic]
    rw [if_neg (by omega), if_neg (by have := hc w.cur; omega)]
    have : (D + sel w.cycle w.cur - 0) % sel w.cycle w.cur = D := by
      rw [Nat.sub_zero, Nat.add_mod_right, Nat.mod_eq_of_lt hlt]
    rw [this]; rfl
  show (Except.ok (A, _) >>= fun x => _) = _
  simp only [bind, Except.bind]
  rw [p1]; exact p2

/-- **set, then update**: after a request that takes effect at once (loop count 0xFFFF) with a transition mode
other than Ext, one clock update at any time `t` leaves `cur = seg` and
`cur_idx = ((fpga_sys_time(t) >> 9) / fd) % cyc` — a function of the time, the division and the cycle only; the
chain's previous content (`w`), the time of the request (`t0`) and the GPIO inputs do not enter. -/
theorem set_then_update (w : Swap) (hw : SwapOK w) (t0 fd cyc seg : Nat) (hfd : 1 ≤ fd) (hcyc : 1 ≤ cyc)
    (mode : TMode) (hm : mode ≠ .ext) (g : Nat → Bool) (t : Nat) :
    ∃ a b, w.set t0 0xFFFF fd cyc seg mode = .ok a ∧ a.update g t = .ok b ∧ b.cur = seg ∧
      b.curIdx = ((fpgaSysTime t >>> 9) / fd) % cyc ∧ b.state = .infiniteLoop ∧ b.stop = false ∧ SwapOK b := by
  obtain ⟨a, ha, c1, c2, c3, c4, c5, c6, c7, _⟩ := set_now w hw t0 0xFFFF fd cyc seg mode (Or.inr rfl)
  have hoka : SwapOK a := SwapOK_set w a hw seg fd cyc hfd hcyc c6 c7
  have hext : a.extMode = false := by
    rw [c4]; cases mode <;> first | rfl | exact absurd rfl hm
  have hu := update_playing a hoka g t c2 c3 hext (by rw [c1, c5, sel_setSel_eq])
  have e : ((fpgaSysTime t >>> 9) / sel a.freqDiv a.cur) % sel a.cycle a.cur = ((fpgaSysTime t >>> 9) / fd) % cyc := by
    rw [c1, c6, c7, sel_setSel_eq, sel_setSel_eq]
  rw [e] at hu
  obtain ⟨o1, o2, o3, o4⟩ := hoka
  exact ⟨a, _, ha, hu, c1, rfl, c2, c3, o1, o2, o3, o4⟩

end Autd3.Hist
