import Autd3.Model.Silencer
