import Autd3.Drv.C09
import Autd3.Drv.Fw
import Autd3.Drv.C18
import Autd3.Drv.C14
import Autd3.Drv.C06
import Autd3.Drv.C04
import Autd3.Drv.C13
import Autd3.Drv.C05
import Autd3.Drv.C07
import Autd3.Drv.C12
import Autd3.Drv.C15
import Autd3.Drv.C10
import Autd3.Drv.C16
import Autd3.Drv.C20
/-! `autd3model <stream>`: one request line in, one answer line out. -/

partial def loop {σ : Type} (h : IO.FS.Stream) (out : IO.FS.Stream) (step : σ → String → σ × String) (s : σ) : IO Unit := do
  let line ← h.getLine
  if line.isEmpty then return ()
  let (s', o) := step s line
  out.putStrLn o
  loop h out step s'

def main (args : List String) : IO UInt32 := do
  let stdin ← IO.getStdin
  let stdout ← IO.getStdout
  match args with
  | ["silencer"] => loop stdin stdout Autd3.Drv.C09.step Autd3.Drv.C09.init; return 0
  | ["pbcodec"] => loop stdin stdout Autd3.Drv.C18.step Autd3.Drv.C18.init; return 0
  | ["wrappers"] => loop stdin stdout Autd3.Drv.C14.step Autd3.Drv.C14.init; return 0
  | ["sampling"] | ["f32ops"] => loop stdin stdout Autd3.Drv.C06.step Autd3.Drv.C06.init; return 0
  | ["sender"] => loop stdin stdout Autd3.Drv.C04.step Autd3.Drv.C04.init; return 0
  | ["sender_async"] => loop stdin stdout Autd3.Drv.C04.step Autd3.Drv.C04.initAsync; return 0
  | ["group"] => loop stdin stdout Autd3.Drv.C13.step Autd3.Drv.C13.init; return 0
  | ["reject"] => loop stdin stdout Autd3.Drv.C05.step Autd3.Drv.C05.init; return 0
  | ["foci"] => loop stdin stdout Autd3.Drv.C07.step Autd3.Drv.C07.init; return 0
  | ["masks"] => loop stdin stdout Autd3.Drv.C12.step Autd3.Drv.C12.init; return 0
  | ["holo"] => loop stdin stdout Autd3.Drv.C15.step Autd3.Drv.C15.init; return 0
  | ["parallel"] => loop stdin stdout Autd3.Drv.C10.step Autd3.Drv.C10.init; return 0
  | ["modgen"] => loop stdin stdout Autd3.Drv.C16.step Autd3.Drv.C16.init; return 0
  | ["lw"] => loop stdin stdout Autd3.Drv.C20.step Autd3.Drv.C20.init; return 0
  | [s] =>
    if s.startsWith "fw_" then do loop stdin stdout Autd3.Drv.FwS.step Autd3.Drv.FwS.init; return 0
    else do IO.eprintln "unknown stream"; return 2
  | _ => IO.eprintln "usage: autd3model <stream>"; return 2
