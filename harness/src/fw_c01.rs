//! `fw_c01` stream (C01): what is sent is what the device holds.
//! Every case: fresh devices, `Clear`, a short *history* that leaves cursors / page registers / the other
//! segment dirty, then the *probe* datagram.  Correspondence: every answer line against the Lean
//! `Wire ∘ Fw ∘ Obs` model.  Oracle (implementation only): the read-back after the probe equals the
//! user's data, and the other segment's content is untouched.
use crate::common::*;
use crate::fwc::*;
use autd3::prelude::*;

pub const T0: u64 = 1_000_000_000_000;

fn expected_gain_words(seed: u64, dev: usize, pc: &[u8]) -> Vec<u16> {
    gain_drive_words(seed, dev)
        .iter()
        .enumerate()
        .map(|(i, w)| (((w & 0xFF) as u8).wrapping_add(pc[i])) as u16 | (w & 0xFF00))
        .collect()
}

fn drives_words(ds: &[Drive]) -> Vec<u16> {
    ds.iter().map(|d| d.phase.0 as u16 | ((d.intensity.0 as u16) << 8)).collect()
}

/// the C01 oracle for one probe on the implementation; returns a description of the first discrepancy
pub fn check_probe(w: &World, probe: &Spec, other_before: &[(u64, u64)]) -> Option<String> {
    for (d, cpu) in w.cpus.iter().enumerate() {
        let f = cpu.fpga();
        let pc: Vec<u8> = f.phase_correction().iter().map(|p| p.0).collect();
        let r = guarded(|| -> Option<String> {
            match probe {
                Spec::Mod { seg, tr, rep, div, n, seed } => {
                    let s = to_segment(*seg);
                    let o = to_segment(1 - *seg);
                    let exp = pr_bytes(*seed, *n);
                    let got = f.modulation_buffer(s);
                    if got != exp {
                        let k = got.iter().zip(exp.iter()).position(|(a, b)| a != b);
                        return Some(format!("dev {d}: modulation buffer differs (len {} vs {}, first diff at {:?})", got.len(), exp.len(), k));
                    }
                    if f.modulation_freq_division(s) != *div {
                        return Some(format!("dev {d}: modulation division {} != {div}", f.modulation_freq_division(s)));
                    }
                    if f.modulation_loop_behavior(s).rep() != *rep {
                        return Some(format!("dev {d}: modulation loop {} != {rep}", f.modulation_loop_behavior(s).rep()));
                    }
                    if let Some(t) = tr {
                        if f.req_modulation_segment() != s {
                            return Some(format!("dev {d}: requested modulation segment not {seg}"));
                        }
                        if f.modulation_transition_mode() != to_transition(*t) {
                            return Some(format!("dev {d}: modulation transition mode differs"));
                        }
                    }
                    if mod_hash(cpu, o) != other_before[d].0 {
                        return Some(format!("dev {d}: the other modulation segment changed"));
                    }
                    None
                }
                Spec::Gain { seg, tr, seed } => {
                    let s = to_segment(*seg);
                    if f.stm_cycle(s) != 1 || !f.is_stm_gain_mode(s) {
                        return Some(format!("dev {d}: gain segment not a single gain pattern"));
                    }
                    if drives_words(&f.drives_at(s, 0)) != expected_gain_words(*seed, d, &pc) {
                        return Some(format!("dev {d}: gain drives differ"));
                    }
                    if tr.is_some() && f.req_stm_segment() != s {
                        return Some(format!("dev {d}: requested STM segment not {seg}"));
                    }
                    if stm_hash(cpu, to_segment(1 - *seg)) != other_before[d].1 {
                        return Some(format!("dev {d}: the other STM segment changed"));
                    }
                    None
                }
                Spec::GainStm { mode, seg, tr, rep, div, size, seed } => {
                    let s = to_segment(*seg);
                    if f.stm_cycle(s) != *size || !f.is_stm_gain_mode(s) {
                        return Some(format!("dev {d}: GainSTM cycle {} != {size}", f.stm_cycle(s)));
                    }
                    if f.stm_freq_division(s) != *div || f.stm_loop_behavior(s).rep() != *rep {
                        return Some(format!("dev {d}: GainSTM division/loop differ"));
                    }
                    for k in 0..*size {
                        let raw = gain_drive_words(seed.wrapping_add(7919 * k as u64), d);
                        let exp: Vec<u16> = raw
                            .iter()
                            .enumerate()
                            .map(|(i, w)| {
                                let ph = (w & 0xFF) as u8;
                                let (p, it) = match mode {
                                    0 => (ph, (w >> 8) as u8),
                                    1 => (ph, 0xFF),
                                    _ => ((ph >> 4) * 0x11, 0xFF),
                                };
                                p.wrapping_add(pc[i]) as u16 | ((it as u16) << 8)
                            })
                            .collect();
                        if drives_words(&f.drives_at(s, k)) != exp {
                            return Some(format!("dev {d}: GainSTM pattern {k} of {size} differs (mode {mode})"));
                        }
                    }
                    if let Some(t) = tr {
                        if f.req_stm_segment() != s || f.stm_transition_mode() != to_transition(*t) {
                            return Some(format!("dev {d}: GainSTM transition request differs"));
                        }
                    }
                    if stm_hash(cpu, to_segment(1 - *seg)) != other_before[d].1 {
                        return Some(format!("dev {d}: the other STM segment changed"));
                    }
                    None
                }
                Spec::Foci { n, seg, tr, rep, div, ss, size, .. } => {
                    let s = to_segment(*seg);
                    if f.stm_cycle(s) != *size || f.is_stm_gain_mode(s) {
                        return Some(format!("dev {d}: FociSTM cycle {} != {size}", f.stm_cycle(s)));
                    }
                    if f.num_foci(s) as usize != *n || f.sound_speed(s) != *ss {
                        return Some(format!("dev {d}: FociSTM num_foci/sound speed differ"));
                    }
                    if f.stm_freq_division(s) != *div || f.stm_loop_behavior(s).rep() != *rep {
                        return Some(format!("dev {d}: FociSTM division/loop differ"));
                    }
                    if let Some(t) = tr {
                        if f.req_stm_segment() != s || f.stm_transition_mode() != to_transition(*t) {
                            return Some(format!("dev {d}: FociSTM transition request differs"));
                        }
                    }
                    if stm_hash(cpu, to_segment(1 - *seg)) != other_before[d].1 {
                        return Some(format!("dev {d}: the other STM segment changed"));
                    }
                    None
                }
                Spec::SilSteps(i, p, strict) => {
                    let st = f.silencer_completion_steps();
                    if st.intensity.get() != *i || st.phase.get() != *p || cpu.silencer_strict_mode() != *strict || f.silencer_fixed_update_rate_mode() {
                        return Some(format!("dev {d}: silencer steps differ"));
                    }
                    None
                }
                Spec::SilRate(i, p) => {
                    let st = f.silencer_update_rate();
                    if st.intensity.get() != *i || st.phase.get() != *p || !f.silencer_fixed_update_rate_mode() {
                        return Some(format!("dev {d}: silencer update rate differs"));
                    }
                    None
                }
                Spec::PhaseCorr(seed) => {
                    if pc != pr_bytes(seed.wrapping_add(1000003 * d as u64), NUM_TR) {
                        return Some(format!("dev {d}: phase correction differs"));
                    }
                    None
                }
                Spec::Pwe(seed) => {
                    let b = pr_bytes(*seed, 512);
                    let exp: Vec<u16> = (0..256).map(|k| (b[2 * k] as u16 | ((b[2 * k + 1] as u16) << 8)) % 512).collect();
                    let got: Vec<u16> = f.pulse_width_encoder_table().iter().map(|p| p.pulse_width()).collect();
                    if got != exp {
                        return Some(format!("dev {d}: pulse width table differs"));
                    }
                    None
                }
                Spec::Debug(v) => {
                    let t = f.debug_types();
                    let vals = f.debug_values();
                    for k in 0..4 {
                        if t[k] != (v[k] >> 56) as u8 || vals[k] != v[k] & 0x00FF_FFFF_FFFF_FFFF {
                            return Some(format!("dev {d}: GPIO output {k} differs"));
                        }
                    }
                    None
                }
                Spec::Fan(b) => (f.is_force_fan() != *b).then(|| format!("dev {d}: force fan flag differs")),
                Spec::Reads(b) => (cpu.reads_fpga_state() != *b).then(|| format!("dev {d}: reads-state flag differs")),
                // per-device values (review C01 gap 3): every device holds ITS value
                Spec::FanMask(m) => (f.is_force_fan() != ((m >> d) & 1 == 1)).then(|| format!("dev {d}: force fan flag is {}, the user's closure said {}", f.is_force_fan(), (m >> d) & 1 == 1)),
                Spec::ReadsMask(m) => (cpu.reads_fpga_state() != ((m >> d) & 1 == 1)).then(|| format!("dev {d}: reads-state flag is {}, the user's closure said {}", cpu.reads_fpga_state(), (m >> d) & 1 == 1)),
                Spec::CpuGpio(x) => (cpu.port_a_podr() != *x).then(|| format!("dev {d}: port A is {:#x}, sent {x:#x}", cpu.port_a_podr())),
                Spec::CpuGpioDev(xs) => (cpu.port_a_podr() != xs[d % xs.len()]).then(|| format!("dev {d}: port A is {:#x}, the user's closure said {:#x}", cpu.port_a_podr(), xs[d % xs.len()])),
                Spec::GpioIn(fl) => (0..4).any(|k| f.gpio_in()[k] != ((fl >> k) & 1 == 1)).then(|| format!("dev {d}: GPIO inputs {:?}, sent {fl:#06b}", f.gpio_in())),
                Spec::GpioInDev(fs) => {
                    let fl = fs[d % fs.len()];
                    (0..4).any(|k| f.gpio_in()[k] != ((fl >> k) & 1 == 1)).then(|| format!("dev {d}: GPIO inputs {:?}, the user's closure said {fl:#06b}", f.gpio_in()))
                }
                Spec::DebugDev(v) => {
                    let t = f.debug_types();
                    let vals = f.debug_values();
                    for k in 0..4 {
                        let w = v[(k + d) % 4];
                        if t[k] != (w >> 56) as u8 || vals[k] != w & 0x00FF_FFFF_FFFF_FFFF {
                            return Some(format!("dev {d}: GPIO output {k} is {:#x}/{:#x}, the user's closure said {w:#x}", t[k], vals[k]));
                        }
                    }
                    None
                }
                Spec::SwapMod(s, t) => (f.req_modulation_segment() != to_segment(*s) || f.modulation_transition_mode() != to_transition(*t))
                    .then(|| format!("dev {d}: modulation swap request differs")),
                Spec::SwapGain(s, _) => (f.req_stm_segment() != to_segment(*s)).then(|| format!("dev {d}: gain swap request differs")),
                Spec::SwapFoci(s, t) | Spec::SwapGainStm(s, t) => (f.req_stm_segment() != to_segment(*s) || f.stm_transition_mode() != to_transition(*t))
                    .then(|| format!("dev {d}: STM swap request differs")),
                _ => None,
            }
        });
        match r {
            Ok(None) => {}
            Ok(Some(m)) => return Some(m),
            Err(p) => return Some(format!("dev {d}: read-back panicked: {p}")),
        }
    }
    None
}

pub fn other_hashes(w: &World, probe: &Spec) -> Vec<(u64, u64)> {
    let seg = match probe {
        Spec::Mod { seg, .. } | Spec::Gain { seg, .. } | Spec::GainStm { seg, .. } | Spec::Foci { seg, .. } => *seg,
        _ => 0,
    };
    let o = to_segment(1 - seg);
    w.cpus.iter().map(|c| (mod_hash(c, o), stm_hash(c, o))).collect()
}

/// FociSTM: the same probe on freshly cleared devices must read back identically (all sampled indices)
fn foci_fresh_equal(w: &World, probe: &Spec) -> Option<String> {
    if let Spec::Foci { seg, size, .. } = probe {
        let mut fresh = World::new(w.cpus.len(), T0);
        let _ = fresh.send_spec(&Spec::Clear, usize::MAX);
        let o = fresh.send_spec(probe, usize::MAX);
        if o.result != "ok" {
            return None;
        }
        let s = to_segment(*seg);
        let step = (*size / 97).max(1);
        for (d, (a, b)) in w.cpus.iter().zip(fresh.cpus.iter()).enumerate() {
            // phase correction may differ between the two worlds: compare with it removed
            let pa: Vec<u8> = a.fpga().phase_correction().iter().map(|p| p.0).collect();
            let mut idxs: Vec<usize> = (0..*size).step_by(step).collect();
            idxs.extend(sample_idx(*size, a.fpga().num_foci(s) as usize));
            for k in idxs {
                let da = guarded(|| a.fpga().drives_at(s, k));
                let db = guarded(|| b.fpga().drives_at(s, k));
                match (da, db) {
                    (Ok(x), Ok(y)) => {
                        let same = x.iter().zip(y.iter()).enumerate().all(|(i, (p, q))| p.intensity == q.intensity && p.phase.0.wrapping_sub(pa[i]) == q.phase.0);
                        if !same {
                            return Some(format!("dev {d}: FociSTM pattern {k} of {size} differs from the same datagram on a fresh device"));
                        }
                    }
                    (Err(p), _) => return Some(format!("dev {d}: drives_at({k}) panicked: {p}")),
                    _ => {}
                }
            }
        }
    }
    None
}

// ------------------------------------------------------------------------------------------------
// Which datagrams must be accepted: C01 says every datagram the SDK accepts reaches the firmware. The expectation
// is computed from the specs alone (sizes, transition rules, the strict-silencer guard, SysTime margin, what a
// segment holds) — a re-statement of the documented acceptance rules, independent of the Lean model — and compared
// with what the implementation answered. Without it a refusal of *everything* (e.g. a tag the firmware no longer
// knows) would only turn cases trivial.

#[derive(Clone, Debug)]
pub struct Accept {
    /// the segment last *requested* for modulation / STM (what the CPU validates transitions against)
    pub mod_cur: u8,
    pub stm_cur: u8,
    mod_rep: [u16; 2],
    mod_div: [u16; 2],
    stm_gain: [bool; 2],
    stm_cycle: [usize; 2],
    stm_rep: [u16; 2],
    stm_div: [u16; 2],
    strict: bool,
    min_i: u16,
    min_p: u16,
}

pub const SYS_TIME_MARGIN: u64 = 10_000_000;

impl Accept {
    /// state at power-on and after `Clear`
    pub fn power_on() -> Self {
        Accept {
            mod_cur: 0,
            stm_cur: 0,
            mod_rep: [0xFFFF; 2],
            mod_div: [0xFFFF; 2],
            stm_gain: [true; 2],
            stm_cycle: [1; 2],
            stm_rep: [0xFFFF; 2],
            stm_div: [0xFFFF; 2],
            strict: true,
            min_i: 10,
            min_p: 40,
        }
    }
    /// a transition request the firmware refuses: to the segment in force only Immediate / Ext; to the other
    /// segment Immediate / Ext for an infinite loop and SyncIdx / SysTime / GPIO for a finite one
    fn tr_refused(cur: u8, seg: u8, rep: u16, mode: u8) -> bool {
        let waits = matches!(mode, 0x00 | 0x01 | 0x02);
        if cur == seg || rep == 0xFFFF { waits } else { !waits }
    }
    fn sil_refused(&self, stm_div: u16, mod_div: u16) -> bool {
        self.strict && (mod_div < self.min_i || stm_div < self.min_i || stm_div < self.min_p)
    }
    fn write_mod(&mut self, seg: u8, tr: &Tr, rep: u16, div: u16, len: usize, now: u64) -> Result<(), &'static str> {
        if !(2..=65536).contains(&len) {
            return Err("sdk:size");
        }
        if let Some(t) = tr {
            if Self::tr_refused(self.mod_cur, seg, rep, t.0) {
                return Err("fw:transition-mode");
            }
        }
        if self.sil_refused(self.stm_div[self.stm_cur as usize], div) {
            return Err("fw:silencer");
        }
        if tr.is_some() {
            self.mod_cur = seg;
        }
        self.mod_rep[seg as usize] = rep;
        self.mod_div[seg as usize] = div;
        match tr {
            Some((0x01, v)) if *v < now + SYS_TIME_MARGIN => Err("fw:miss-transition-time"),
            _ => Ok(()),
        }
    }
    fn write_stm(&mut self, gain: bool, seg: u8, tr: &Tr, rep: u16, div: u16, cycle: usize, now: u64) -> Result<(), &'static str> {
        if let Some(t) = tr {
            if Self::tr_refused(self.stm_cur, seg, rep, t.0) {
                return Err("fw:transition-mode");
            }
        }
        if self.sil_refused(div, self.mod_div[self.mod_cur as usize]) {
            return Err("fw:silencer");
        }
        if tr.is_some() {
            self.stm_cur = seg;
        }
        let sg = seg as usize;
        self.stm_rep[sg] = rep;
        self.stm_div[sg] = div;
        self.stm_gain[sg] = gain;
        self.stm_cycle[sg] = cycle;
        match tr {
            Some((0x01, v)) if *v < now + SYS_TIME_MARGIN => Err("fw:miss-transition-time"),
            _ => Ok(()),
        }
    }
    /// `Ok` = must be accepted; `Err(why)` = must be refused. The state advances as far as the refused datagram got.
    pub fn step(&mut self, s: &Spec, now: u64) -> Result<(), &'static str> {
        match s {
            Spec::Clear => {
                *self = Accept::power_on();
                Ok(())
            }
            Spec::Mod { seg, tr, rep, div, n, .. } => self.write_mod(*seg, tr, *rep, *div, *n, now),
            Spec::ModRaw { seg, tr, rep, div, bytes } => self.write_mod(*seg, tr, *rep, *div, bytes.len(), now),
            Spec::Foci { n, seg, tr, rep, div, size, .. } => {
                if !(1..=8).contains(n) || !(2..=65536).contains(&(n * size)) {
                    return Err("sdk:size");
                }
                self.write_stm(false, *seg, tr, *rep, *div, *size, now)
            }
            Spec::GainStm { mode, seg, tr, rep, div, size, .. } => {
                if !(2..=1024).contains(size) || *mode > 2 {
                    return Err("sdk:size");
                }
                self.write_stm(true, *seg, tr, *rep, *div, *size, now)
            }
            Spec::Gain { seg, tr, .. } => {
                if matches!(tr, Some((m, _)) if *m != 0xFF) {
                    return Err("sdk:transition-mode");
                }
                // the firmware takes a Gain as it is (no transition rule, no silencer guard: its division is 0xFFFF)
                if tr.is_some() {
                    self.stm_cur = *seg;
                }
                let sg = *seg as usize;
                self.stm_gain[sg] = true;
                self.stm_cycle[sg] = 1;
                self.stm_rep[sg] = 0xFFFF;
                self.stm_div[sg] = 0xFFFF;
                Ok(())
            }
            Spec::SwapGain(seg, t) => {
                if t.0 != 0xFF {
                    return Err("sdk:transition-mode");
                }
                let sg = *seg as usize;
                if !self.stm_gain[sg] || self.stm_cycle[sg] != 1 {
                    return Err("fw:segment-holds-something-else");
                }
                if self.sil_refused(self.stm_div[sg], self.mod_div[self.mod_cur as usize]) {
                    return Err("fw:silencer");
                }
                self.stm_cur = *seg;
                Ok(())
            }
            Spec::SwapMod(seg, t) => {
                let sg = *seg as usize;
                if Self::tr_refused(self.mod_cur, *seg, self.mod_rep[sg], t.0) {
                    return Err("fw:transition-mode");
                }
                if self.sil_refused(self.stm_div[self.stm_cur as usize], self.mod_div[sg]) {
                    return Err("fw:silencer");
                }
                self.mod_cur = *seg;
                if t.0 == 0x01 && t.1 < now + SYS_TIME_MARGIN { Err("fw:miss-transition-time") } else { Ok(()) }
            }
            Spec::SwapFoci(seg, t) | Spec::SwapGainStm(seg, t) => {
                let sg = *seg as usize;
                let want_gain = matches!(s, Spec::SwapGainStm(..));
                if self.stm_gain[sg] != want_gain || (want_gain && self.stm_cycle[sg] == 1) {
                    return Err("fw:segment-holds-something-else");
                }
                if Self::tr_refused(self.stm_cur, *seg, self.stm_rep[sg], t.0) {
                    return Err("fw:transition-mode");
                }
                if self.sil_refused(self.stm_div[sg], self.mod_div[self.mod_cur as usize]) {
                    return Err("fw:silencer");
                }
                self.stm_cur = *seg;
                if t.0 == 0x01 && t.1 < now + SYS_TIME_MARGIN { Err("fw:miss-transition-time") } else { Ok(()) }
            }
            Spec::SilSteps(i, p, strict) => {
                let old = (self.strict, self.min_i, self.min_p);
                (self.strict, self.min_i, self.min_p) = (*strict, *i, *p);
                if self.sil_refused(self.stm_div[self.stm_cur as usize], self.mod_div[self.mod_cur as usize]) {
                    (self.strict, self.min_i, self.min_p) = old;
                    return Err("fw:silencer");
                }
                Ok(())
            }
            Spec::FirmInfo(t) => if (1..=6).contains(t) { Ok(()) } else { Err("fw:info-type") },
            // flags, tables and the update-rate silencer are taken unconditionally
            _ => Ok(()),
        }
    }
}

pub struct Case {
    pub ndev: usize,
    pub history: Vec<Spec>,
    pub probe: Spec,
}

pub fn run_case(out: &mut Out, c: &Case, tag: &str) {
    let mut s = Session::new(out, c.ndev, T0);
    s.send(&Spec::Clear);
    let mut exp = Accept::power_on();
    let mut acceptance: Option<(String, String)> = None; // (datagram text, what)
    for h in &c.history {
        let e = exp.step(h, T0);
        let a = s.send(h);
        if a != "panic" && a != "dead" && a.starts_with("R=ok") != e.is_ok() && acceptance.is_none() {
            acceptance = Some((h.text(), format!("history datagram `{}` answered {} but {}", h.text(), a.split(' ').next().unwrap_or(""), match e { Ok(()) => "must be accepted".to_string(), Err(w) => format!("must be refused ({w})") })));
        }
    }
    if s.dead {
        let log = s.log.clone();
        out.violation(format!("C01:history-panic:{tag}"), "the implementation panicked while applying the history".into(), log);
        return;
    }
    let before = other_hashes(&s.w, &c.probe);
    let e = exp.step(&c.probe, T0);
    let ans = s.send(&c.probe);
    let log = s.log.clone();
    let ok = ans.starts_with("R=ok");
    let mut verdict = None;
    if ans == "panic" {
        verdict = Some("the implementation panicked on the probe".to_string());
    } else if ok {
        verdict = check_probe(&s.w, &c.probe, &before).or_else(|| foci_fresh_equal(&s.w, &c.probe));
    }
    if ans != "panic" && ok != e.is_ok() && acceptance.is_none() {
        acceptance = Some((c.probe.text(), format!("`{}` answered {} but {}", c.probe.text(), ans.split(' ').next().unwrap_or(""), match e { Ok(()) => "every datagram the SDK accepts must reach the firmware: it must be accepted here".to_string(), Err(w) => format!("it must be refused ({w})") })));
    }
    let hist: Vec<&str> = c.history.iter().map(|h| h.kind()).collect();
    let sig = fnv64(format!("{}|{}|{}", c.ndev, hist.join(","), c.probe.text()).as_bytes());
    out.case(if ok { Some(sig) } else { None });
    out.count(&format!("probe:{}", c.probe.kind()));
    out.count(if ok { "accepted" } else { "rejected" });
    out.count(&match e { Ok(()) => "expected:accepted".to_string(), Err(w) => format!("expected:refused:{w}") });
    out.count(&format!("gen:{tag}"));
    out.count(&format!("devices:{}", c.ndev));
    if let Some(t) = probe_tr(&c.probe) {
        out.count(&format!("probe-transition:{}", match t.0 { 0x00 => "syncidx", 0x01 => "systime", 0x02 => "gpio", 0xF0 => "ext", _ => "immediate" }));
    }
    if exp.mod_cur == 1 || exp.stm_cur == 1 {
        out.count("segment-1-in-force-after-probe");
    }
    if let Some((text, what)) = acceptance {
        out.violation(format!("C01:acceptance:{text}"), what, log.clone());
    }
    if let Some(what) = verdict {
        out.violation(format!("C01:{}:after[{}]", c.probe.text(), hist.join(",")), what, log);
    }
}

/// a tuple `(a, b)` sent through the real tuple type: both members must read back as sent (what the second slot
/// carries must be in force when the send returns, not when some later frame arrives)
pub fn run_tuple_case(out: &mut Out, ndev: usize, history: &[Spec], a: &Spec, b: &Spec) {
    let mut s = Session::new(out, ndev, T0);
    s.send(&Spec::Clear);
    for h in history {
        s.send(h);
    }
    if s.dead {
        return;
    }
    let (before_a, before_b) = (other_hashes(&s.w, a), other_hashes(&s.w, b));
    let ans = s.pair_real(a, b);
    let log = s.log.clone();
    let ok = ans.starts_with("R=ok");
    let mut verdict = None;
    if ans == "panic" {
        verdict = Some("the implementation panicked on the tuple".to_string());
    } else if ok {
        // `other segment untouched` is judged for a member only when the other member does not write that kind of memory
        let same_side = touches(a).iter().any(|r| touches(b).contains(r));
        verdict = check_probe(&s.w, b, if same_side { &[] } else { &before_b }).map(|w| format!("second member: {w}")).or_else(|| {
            // members that write the same resource: the second one legitimately replaces what the first one wrote
            if same_side { None } else { check_probe(&s.w, a, &before_a).map(|w| format!("first member: {w}")) }
        });
    }
    out.case(if ok { Some(fnv64(format!("tuple|{}|{}|{}", ndev, a.text(), b.text()).as_bytes())) } else { None });
    out.count("probe:tuple");
    out.count(if ok { "accepted" } else { "rejected" });
    if let Some(what) = verdict {
        out.violation(format!("C01:({} , {})", a.text(), b.text()), what, log);
    }
}

fn probe_tr(s: &Spec) -> Option<(u8, u64)> {
    match s {
        Spec::Mod { tr, .. } | Spec::Foci { tr, .. } | Spec::GainStm { tr, .. } | Spec::Gain { tr, .. } => *tr,
        Spec::SwapMod(_, t) | Spec::SwapFoci(_, t) | Spec::SwapGainStm(_, t) | Spec::SwapGain(_, t) => Some(*t),
        _ => None,
    }
}

fn pick_tr(rng: &mut Rng, same_segment_as_current: bool, finite: bool) -> Tr {
    // transitions the firmware accepts: None always; to the segment in force: Immediate/Ext;
    // to the other segment: infinite → Immediate/Ext, finite → SyncIdx/GPIO/SysTime (not earlier than now + 10 ms).
    // A few that it must refuse come along (Immediate for a finite loop to the other segment, a SysTime that is too
    // early): the acceptance clause of `run_case` knows which.
    match rng.below(5) {
        0 => None,
        1 if !finite || same_segment_as_current => Some((0xFF, 0)),
        2 if !finite || same_segment_as_current => Some((0xF0, 0)),
        _ => {
            if same_segment_as_current || !finite {
                Some((0xFF, 0))
            } else {
                match rng.below(8) {
                    0 | 1 => Some((0x00, 0)),
                    2 | 3 => Some((0x02, rng.below(4))),
                    // review C01 gap 1: a 64-bit transition value (all eight bytes non-zero) in the head of a data datagram
                    4 | 5 => Some((0x01, T0 + 100_000_000 + (rng.next() & 0x00FF_0000_0000_0000))),
                    6 => Some((0x01, T0 + *rng.pick(&[0u64, 9_999_999, 5_000_000]))), // inside the margin: refused
                    _ => Some((0xFF, 0)), // refused
                }
            }
        }
    }
}

/// the acceptance state after Clear + `history` (which segment is in force, …)
fn after(history: &[Spec]) -> Accept {
    let mut a = Accept::power_on();
    for h in history {
        let _ = a.step(h, T0);
    }
    a
}

pub fn mod_sizes(thorough: bool) -> Vec<usize> {
    let mut v: Vec<usize> = vec![2, 3, 4, 253, 254, 255, 256];
    let mut k = 254usize;
    let mut i = 0;
    while k < 65536 {
        if thorough || i < 3 || (k > 32000 && k < 34000) || k > 64000 {
            v.extend([k - 1, k, k + 1]);
        }
        k += 618;
        i += 1;
    }
    v.extend([32766, 32767, 32768, 32769, 32770, 40000, 65534, 65535, 65536]);
    v.retain(|&n| (2..=65536).contains(&n));
    v.sort();
    v.dedup();
    v
}

pub fn run(args: &Args) {
    let mut out = Out::new(&args.out);
    let thorough = args.tier == "thorough";
    let mut rng = Rng::new(args.seed ^ 0xC01);
    let big_mod = |seg: u8, n: usize, seed: u64| Spec::Mod { seg, tr: None, rep: 0xFFFF, div: 10, n, seed };

    // ---- corpus: F1 witness (stale modulation write page after a >32768-sample send)
    for seg in [0u8, 1] {
        run_case(&mut out, &Case { ndev: 1, history: vec![big_mod(seg, 40000, 7)], probe: Spec::Mod { seg, tr: None, rep: 0xFFFF, div: 10, n: 3, seed: 9 } }, "F1");
        run_case(&mut out, &Case { ndev: 1, history: vec![big_mod(seg, 32768, 7)], probe: Spec::Mod { seg, tr: None, rep: 0xFFFF, div: 10, n: 2, seed: 9 } }, "F1b");
    }
    out.count_n("corpus", 4);

    // ---- modulation: boundary sizes × segment × dirty histories
    let sizes = mod_sizes(thorough);
    for (k, &n) in sizes.iter().enumerate() {
        for seg in [0u8, 1] {
            let history = match (k + seg as usize) % 4 {
                0 => vec![],
                1 => vec![big_mod(seg, 33000 + (k % 7) * 1000, k as u64)],
                2 => vec![big_mod(1 - seg, 65536, k as u64), big_mod(seg, 32768 + 2 * (k % 5), 3)],
                _ => vec![Spec::PhaseCorr(k as u64), big_mod(seg, 65535, 5)],
            };
            // review C01 gap 4: in a third of the cases segment 1 is the one in force
            let mut history = history;
            if k % 3 == 2 {
                history.insert(0, Spec::Mod { seg: 1, tr: Some((0xFF, 0)), rep: 0xFFFF, div: 12, n: 2 + k % 3, seed: 77 });
            }
            let finite = rng.chance(1, 2);
            let rep = if finite { rng.below(5) as u16 } else { 0xFFFF };
            let tr = pick_tr(&mut rng, seg == after(&history).mod_cur, finite);
            let div = *rng.pick(&[10u16, 11, 100, 5000, 0xFFFF]);
            run_case(&mut out, &Case { ndev: if k % 5 == 0 { 3 } else { 1 }, history, probe: Spec::Mod { seg, tr, rep, div, n, seed: 1000 + k as u64 } }, "mod");
        }
    }
    if thorough {
        // every legal modulation size, fresh-after-big history, alternating segments
        for n in 2..=65536usize {
            if n % 16 != (args.seed as usize) % 16 && !(n % 618 <= 2 || n % 32768 <= 2) {
                continue; // 1/16 of all sizes per seed + every size next to a chunk or page boundary
            }
            let seg = (n % 2) as u8;
            run_case(&mut out, &Case { ndev: 1, history: vec![big_mod(seg, 32770, 1)], probe: Spec::Mod { seg, tr: None, rep: 0xFFFF, div: 10, n, seed: n as u64 } }, "mod-all");
        }
    }

    // ---- gain
    for seg in [0u8, 1] {
        for tr in [None, Some((0xFFu8, 0u64))] {
            for ndev in [1usize, 2] {
                let history = vec![Spec::GainStm { mode: 0, seg, tr: None, rep: 0xFFFF, div: 100, size: 70, seed: 3 }, Spec::PhaseCorr(11)];
                run_case(&mut out, &Case { ndev, history, probe: Spec::Gain { seg, tr, seed: rng.next() % 100000 } }, "gain");
            }
        }
    }

    // ---- GainSTM: sizes around the page (64) and frame-packing boundaries × 3 modes
    let gsizes: Vec<usize> = if thorough { (2..=1024).collect() } else { vec![2, 3, 4, 5, 7, 8, 9, 63, 64, 65, 66, 127, 128, 129, 130, 1021, 1022, 1023, 1024] };
    for (k, &size) in gsizes.iter().enumerate() {
        for mode in 0..3u8 {
            if thorough && size > 140 && size < 1000 && (size + mode as usize) % 9 != 0 {
                continue;
            }
            let seg = ((k + mode as usize) % 2) as u8;
            let history = match k % 3 {
                0 => vec![],
                1 => vec![Spec::GainStm { mode: 0, seg, tr: None, rep: 0xFFFF, div: 200, size: 200, seed: 8 }],
                _ => vec![Spec::Foci { n: 1, seg, tr: None, rep: 0xFFFF, div: 200, ss: 21760, size: 5000, seed: 8 }, Spec::PhaseCorr(5)],
            };
            let mut history = history;
            if (k + mode as usize) % 3 == 2 {
                history.insert(0, Spec::Gain { seg: 1, tr: Some((0xFF, 0)), seed: 78 });
            }
            let finite = rng.chance(1, 2);
            let rep = if finite { rng.below(5) as u16 } else { 0xFFFF };
            let tr = pick_tr(&mut rng, seg == after(&history).stm_cur, finite);
            run_case(&mut out, &Case { ndev: if k % 6 == 0 { 2 } else { 1 }, history, probe: Spec::GainStm { mode, seg, tr, rep, div: *rng.pick(&[40u16, 100, 0xFFFF]), size, seed: rng.next() % 100000 } }, "gainstm");
        }
    }

    // ---- FociSTM: N = 1..8, sizes around first-frame / subsequent-frame capacity, page (4096 foci) and maximum
    for n in 1..=8usize {
        let first = (622 - 24) / (8 * n);
        let next = (622 - 4) / (8 * n);
        let mut sizes: Vec<usize> = vec![2usize.div_ceil(n).max(1), first - 1, first, first + 1, first + next - 1, first + next, first + next + 1, 4096 / n - 1, 4096 / n, 4096 / n + 1, 4096 / n + 2, 8192 / n, 8192 / n + 1];
        sizes.extend([65536 / n - 1, 65536 / n]);
        if thorough {
            sizes.extend((1..16).flat_map(|j| [4096 * j / n - 1, 4096 * j / n, 4096 * j / n + 1]));
            sizes.extend((0..40).map(|_| rng.range(2, (65536 / n) as u64) as usize));
        }
        sizes.retain(|&s| s * n >= 2 && s * n <= 65536 && s >= 1);
        sizes.sort();
        sizes.dedup();
        for (k, &size) in sizes.iter().enumerate() {
            let seg = ((k + n) % 2) as u8;
            let history = match k % 3 {
                0 => vec![],
                1 => vec![Spec::Foci { n: 1, seg, tr: None, rep: 0xFFFF, div: 300, ss: 21760, size: 9000, seed: 4 }],
                _ => vec![Spec::GainStm { mode: 0, seg, tr: None, rep: 0xFFFF, div: 300, size: 130, seed: 4 }],
            };
            let mut history = history;
            if (k + n) % 3 == 2 {
                history.insert(0, Spec::GainStm { mode: 0, seg: 1, tr: Some((0xFF, 0)), rep: 0xFFFF, div: 100, size: 2, seed: 79 });
            }
            let finite = rng.chance(1, 2);
            let rep = if finite { rng.below(5) as u16 } else { 0xFFFF };
            let tr = pick_tr(&mut rng, seg == after(&history).stm_cur, finite);
            run_case(&mut out, &Case { ndev: if k % 7 == 0 { 2 } else { 1 }, history, probe: Spec::Foci { n, seg, tr, rep, div: *rng.pick(&[40u16, 100, 0xFFFF]), ss: 21760, size, seed: rng.next() % 100000 } }, "foci");
        }
    }

    // ---- single-frame datagrams after a dirty history
    // review C01 gap 2: all 13 GPIO output types (raw 64-bit values: tag << 56 | value) rotate over the four pins
    let dbg = |rng: &mut Rng, k: usize| -> u64 {
        match k % 13 {
            0 => 0x00u64 << 56,
            1 => 0x01u64 << 56,
            2 => 0x02u64 << 56,
            3 => 0x03u64 << 56,
            4 => 0x10u64 << 56,
            5 => 0x20u64 << 56,
            6 => 0x21u64 << 56 | rng.below(65536),
            7 => 0x50u64 << 56,
            8 => 0x51u64 << 56 | rng.below(65536),
            9 => 0x52u64 << 56,
            10 => 0x60u64 << 56 | rng.below(1 << 48), // SysTimeEq: sys_time / 25 us
            11 => 0xE0u64 << 56 | rng.below(NUM_TR as u64), // PwmOut(&dev[idx])
            _ => 0xF0u64 << 56 | rng.below(2), // Direct(false / true)
        }
    };
    let singles = |rng: &mut Rng, round: usize| -> Vec<Spec> {
        vec![
            Spec::SilSteps(rng.range(1, 10) as u16, rng.range(1, 40) as u16, rng.chance(1, 2)),
            // review C01 gap 5: step counts that need both bytes (the lax guard takes anything)
            Spec::SilSteps(rng.range(256, 65535) as u16, rng.range(256, 65535) as u16, false),
            Spec::SilRate(rng.range(1, 65535) as u16, rng.range(1, 65535) as u16),
            Spec::PhaseCorr(rng.next() % 1000),
            Spec::Pwe(rng.next() % 1000),
            Spec::Debug([dbg(rng, 8 * round), dbg(rng, 8 * round + 1), dbg(rng, 8 * round + 2), dbg(rng, 8 * round + 3)]),
            Spec::Debug([dbg(rng, 8 * round + 4), dbg(rng, 8 * round + 5), dbg(rng, 8 * round + 6), dbg(rng, 8 * round + 7)]),
            Spec::Fan(rng.chance(1, 2)),
            Spec::Reads(rng.chance(1, 2)),
            Spec::CpuGpio(*rng.pick(&[0u8, 0x20, 0x80, 0xA0])),
            Spec::GpioIn(rng.below(16) as u8),
            Spec::SwapMod(rng.below(2) as u8, (0xFF, 0)),
            Spec::SwapGain(rng.below(2) as u8, (0xFF, 0)),
        ]
    };
    for round in 0..(if thorough { 13 } else { 3 }) {
        for probe in singles(&mut rng, round) {
            if let Spec::Debug(v) = &probe {
                for x in v {
                    out.count(&format!("debug-tag:{:#04x}", x >> 56));
                }
            }
            let history = vec![big_mod((round % 2) as u8, 33000, 2), Spec::GainStm { mode: 1, seg: (round % 2) as u8, tr: None, rep: 0xFFFF, div: 100, size: 66, seed: 6 }];
            run_case(&mut out, &Case { ndev: 1 + round % 2, history, probe }, "single");
        }
    }
    // review C01 gap 3: the user's closure is asked once per device and every device gets ITS answer: three devices,
    // values that differ between the devices (masks 0b010 / 0b101 and their likes); a flag set on every device first so
    // that "cleared on device d only" shows as well
    for round in 0..(if thorough { 6 } else { 2 }) {
        let m = [0b010u8, 0b101, 0b110, 0b001, 0b011, 0b100][round % 6];
        let per_dev: Vec<(Vec<Spec>, Spec)> = vec![
            (vec![], Spec::FanMask(m)),
            (vec![Spec::Fan(true)], Spec::FanMask(m)),
            (vec![], Spec::ReadsMask(m)),
            (vec![Spec::Reads(true)], Spec::ReadsMask(m ^ 0b111)),
            (vec![Spec::CpuGpio(0xA0)], Spec::CpuGpioDev(if round % 2 == 0 { vec![0x20, 0x80, 0x00] } else { vec![0x80, 0xA0, 0x20] })),
            (vec![Spec::GpioIn(0b1111)], Spec::GpioInDev(vec![rng.below(16) as u8, 0b1001, 0b0110])),
            (vec![], Spec::DebugDev([dbg(&mut rng, 6 + round), dbg(&mut rng, 11), dbg(&mut rng, 10), dbg(&mut rng, 12)])),
        ];
        for (history, probe) in per_dev {
            run_case(&mut out, &Case { ndev: 3, history, probe }, "per-device");
        }
    }
    // review C01 gap 5: a strict silencer with large step counts against large divisions in force (accepted), and one
    // step beyond the modulation division (refused)
    for (mdiv, i, p, strict) in [(5000u16, 300u16, 1000u16, true), (0xFFFF, 300, 1000, true), (5000, 5000, 65535, true), (5000, 5001, 1000, true), (5000, 60000, 256, false)] {
        let history = vec![Spec::Mod { seg: 0, tr: Some((0xFF, 0)), rep: 0xFFFF, div: mdiv, n: 300, seed: 87 }];
        run_case(&mut out, &Case { ndev: 1, history, probe: Spec::SilSteps(i, p, strict) }, "silencer-large");
    }
    // ---- segment swaps with every transition request the firmware accepts: a finite-loop pattern in the other
    // segment takes SyncIdx / GPIO(pin) / SysTime(t), an infinite loop Immediate / Ext. An earlier write that
    // carried a *different* transition value comes first, so a request that is not taken from the swap itself shows.
    let t_future = T0 + 100_000_000;
    // review C01 gap 4: `mirror` = the same with the roles of the segments exchanged: segment 1 is made the one in force
    // first, the finite data go to segment 0 and the swap asks for segment 0
    for mirror in [false, true] {
        let (near, far) = if mirror { (1u8, 0u8) } else { (0u8, 1u8) };
        for kind in 0..3u8 {
            for (finite, trs) in [(true, vec![(0x00u8, 0u64), (0x02, 0), (0x02, 1), (0x02, 2), (0x02, 3), (0x01, t_future), (0x01, T0 + 9_000_000)]), (false, vec![(0xFF, 0), (0xF0, 0)])] {
                for (k, tr) in trs.iter().enumerate() {
                    let rep: u16 = if finite { 3 } else { 0xFFFF };
                    let stale: Tr = if finite { Some((0x02, ((k + 2) % 4) as u64)) } else { Some((0xFF, 0)) };
                    let (first, target, probe) = match kind {
                        0 => (
                            Spec::Mod { seg: far, tr: stale, rep, div: 10, n: 300, seed: 81 },
                            Spec::Mod { seg: far, tr: None, rep, div: 10, n: 8, seed: 82 },
                            Spec::SwapMod(far, *tr),
                        ),
                        1 => (
                            Spec::Foci { n: 2, seg: far, tr: stale, rep, div: 100, ss: 21760, size: 90, seed: 83 },
                            Spec::Foci { n: 1, seg: far, tr: None, rep, div: 100, ss: 21760, size: 5, seed: 84 },
                            Spec::SwapFoci(far, *tr),
                        ),
                        _ => (
                            Spec::GainStm { mode: 0, seg: far, tr: stale, rep, div: 100, size: 3, seed: 85 },
                            Spec::GainStm { mode: 1, seg: far, tr: None, rep, div: 100, size: 4, seed: 86 },
                            Spec::SwapGainStm(far, *tr),
                        ),
                    };
                    // back to the near segment (Immediate on its infinite loop) so that the swap goes to the *other* segment
                    let back = match kind {
                        0 => Spec::SwapMod(near, (0xFF, 0)),
                        _ => Spec::SwapGain(near, (0xFF, 0)),
                    };
                    let mut history = vec![];
                    if mirror {
                        history.push(match kind {
                            0 => Spec::Mod { seg: 1, tr: Some((0xFF, 0)), rep: 0xFFFF, div: 10, n: 2, seed: 80 },
                            _ => Spec::Gain { seg: 1, tr: Some((0xFF, 0)), seed: 80 },
                        });
                    }
                    history.extend([first, back, target]);
                    run_case(&mut out, &Case { ndev: 1, history, probe }, if mirror { "swap-mirrored" } else { "swap" });
                }
            }
        }
    }
    // ---- tuples: a flag / configuration datagram travelling in the second slot behind every kind of first member
    // (single frame, last frame of a multi-frame one), read back straight after the send
    {
        let firsts = [
            Spec::SilSteps(3, 7, false),
            Spec::Gain { seg: 1, tr: None, seed: 120 },
            Spec::Mod { seg: 0, tr: None, rep: 0xFFFF, div: 10, n: 200, seed: 121 },
            Spec::Mod { seg: 1, tr: None, rep: 0xFFFF, div: 10, n: 1000, seed: 122 },
            Spec::SwapMod(0, (0xFF, 0)),
            Spec::Pwe(123),
            // flag / configuration datagrams as FIRST members too: two handlers that share the control-flag word run in
            // one frame, and the first member's flag must survive the second (seeded change C01-9: EmulateGPIOIn
            // rebuilt the word from its low byte and dropped the fan bit)
            Spec::Fan(true),
            Spec::Reads(true),
            Spec::GpioIn(0b1001),
        ];
        let seconds = [Spec::Fan(true), Spec::GpioIn(0b0110), Spec::Reads(true), Spec::CpuGpio(0xA0), Spec::Debug([0x21u64 << 56 | 5, 0, 0x10u64 << 56, 0]), Spec::SilRate(9, 11)];
        for (i, a) in firsts.iter().enumerate() {
            for (j, b) in seconds.iter().enumerate() {
                // the flag datagrams as first members (i >= 6) meet every second member in the quick tier too
                if thorough || (i + j) % 2 == 0 || i >= 6 {
                    run_tuple_case(&mut out, 1 + (i + j) % 2, &[Spec::Fan(false), Spec::GpioIn(0)], a, b);
                }
            }
        }
    }
    out.sample("reset 1 1000000000000 / send clear / send mod 0 - 65535 10 40000 7 / send mod 0 - 65535 10 3 9".into());
    out.sample("reset 1 1000000000000 / send clear / send foci 1 0 - 65535 300 21760 9000 4 / send foci 3 0 255:0 65535 100 21760 1365 …".into());
    out.finish(
        "fw_c01",
        "a case = fresh devices + Clear + dirty history + probe datagram; non-trivial = the probe was accepted (its read-back is then checked against the user data); distinct by (device count, history kinds, probe text). Every datagram of a case carries an expectation (accepted / refused and why) computed from the specs alone; a disagreement is the violation C01:acceptance:<datagram>. Invisible to the model (same grammar, more varied real inputs): SysTime values, all 13 GPIO output types, mirrored segment roles, large silencer steps; new per-device op forms (fanmask, readsmask, cpugpiodev, gpioindev, debugdev) are answered by the model from the device index",
    );
}
